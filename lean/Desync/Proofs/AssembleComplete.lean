/-
  Liveness of `AssembleFile` with one worker (`Desync.Asm.assemble`): when the store holds every
  chunk of the index and the seeds are consistent (or the caller chose to skip or to regenerate
  invalid seeds), the run ends successfully, also for an empty blob; a re-run over the file a
  crashed in-place extract left behind goes to the store only for the chunks that are not yet
  in place.
-/
import Desync.Proofs.AssembleSafe
import Desync.Proofs.AssembleFindPlan

namespace Desync.Asm

/-! ## the hypotheses -/

/-- the store holds every chunk of the index -/
def StoreComplete (cf : Cfg) (e : Env) (blob : Bytes) : Prop :=
  ∀ p : Nat, p < e.chunks.length → cf.store (e.idOf p) = some (chunkData e blob p)

/-- a seed stored in its own file (not the target), i.e. one that does not change while the
    target is written -/
def Seed.Static (files : List Bytes) (s : Seed) : Prop := ∃ k, s.src = .seed k ∧ k < files.length

/-- the starts of the chunks of an index are cumulative (what `IndexFromReader` produces) -/
def Contig (cs : List IChunk) : Prop :=
  ∀ i, i + 1 < cs.length →
    (cs.getD (i + 1) default).start = (cs.getD i default).start + (cs.getD i default).size

/-- every seed index has cumulative starts -/
def SeedsContiguous (seeds : List Seed) : Prop := ∀ s ∈ seeds, Contig s.chunks

/-- the same of every index `RegenerateIndex` produces -/
def RechunkContig (rechunk : Nat → Bytes → Option (List IChunk)) : Prop :=
  ∀ k data cs, rechunk k data = some cs → Contig cs

/-- the ID of the null chunk is the hash of a run of zeros (the driver: `H (zeros max)`) -/
def NullIsZeros (cf : Cfg) (e : Env) : Prop := ∃ m, e.nullID = cf.H (zeros m)

/-! ## the empty blob -/

theorem plan_nil (e : Env) (seeds : List Seed) (h : e.chunks = []) : plan e seeds = [] := by
  unfold plan
  rw [h]
  rfl

/-- the initial file system of a run -/
def initFS (e : Env) (files : List Bytes) (prior : Option Bytes) : FS :=
  { target := truncate (prior.getD []) (indexLength e.chunks), seeds := files }

theorem assemble_of_findPlan {cf : Cfg} {e : Env} {seeds : List Seed} {files : List Bytes}
    {prior : Option Bytes} {p : List PlanItem} {k : Nat}
    (h : findPlan cf.H cf.rechunk e (initFS e files prior) cf.act (seeds.length + 1) seeds = some (p, k)) :
    assemble cf e seeds files prior = runJobs cf e p { fs := initFS e files prior } := by
  unfold assemble
  simp only []
  unfold initFS at h
  rw [h]
  rfl

/-- an index without chunks: whatever the seeds, the store, the action and the prior content of the
    target, the run succeeds at once and leaves an empty file -/
theorem assemble_empty (cf : Cfg) (e : Env) (seeds : List Seed) (files : List Bytes)
    (prior : Option Bytes) (h : e.chunks = []) :
    assemble cf e seeds files prior = some { fs := ⟨[], files⟩ } := by
  have hf : findPlan cf.H cf.rechunk e (initFS e files prior) cf.act (seeds.length + 1) seeds =
      some ([], seeds.length) := by
    rw [findPlan_succ, plan_nil e seeds h]
    rfl
  rw [assemble_of_findPlan hf]
  have hl : indexLength e.chunks = 0 := by rw [h]; rfl
  have ht : truncate (prior.getD []) (indexLength e.chunks) = [] := by
    apply List.eq_nil_of_length_eq_zero
    rw [af_truncate_length, hl]
  unfold initFS
  rw [ht]
  rfl

/-! ## reads -/

/-- equal reads have equal sub-reads -/
theorem ak_readUpTo_sub {a b : Bytes} {oa ob n : Nat} (h : readUpTo a oa n = readUpTo b ob n)
    {d m : Nat} (hd : d + m ≤ n) : readUpTo a (oa + d) m = readUpTo b (ob + d) m := by
  apply af_readUpTo_ext
  intro i hi
  have := af_readUpTo_eq_getElem? a b oa ob n h (d + i) (by omega)
  rwa [← Nat.add_assoc, ← Nat.add_assoc] at this

theorem ak_readUpTo_zeros {L d m : Nat} (h : d + m ≤ L) : readUpTo (zeros L) d m = zeros m := by
  apply ac_readUpTo_zeros_of
  intro i hi
  rw [af_zeros_getElem?, if_pos (by omega)]

theorem ak_truncate_nil (L : Nat) : truncate [] L = zeros L := by
  simp [truncate, zeros]

/-! ## a write of no bytes -/

theorem copyInto_zero (ovl : Bytes → Nat → Nat → Nat → Bytes) (fs : FS) (src : Src) (so dO : Nat) :
    copyInto ovl fs src so 0 dO = (fs, 0, false) := by
  unfold copyInto
  simp only [af_readUpTo_zero, List.length_nil]
  have : overlaps so dO 0 = false := by simp [overlaps]
  simp [this, af_writeAt_nil]

theorem fsCloneN_zero (ovl : Bytes → Nat → Nat → Nat → Bytes) (fs : FS) (src : Src) (so dO bs : Nat)
    (hpos : 0 < bs) : fsCloneN ovl fs src so 0 dO bs = .ok fs 0 0 false := by
  have n1 := ac_alignUp_eq so bs hpos
  have n2 := ac_alignDown_eq (so + 0) bs
  unfold fsCloneN
  simp only []
  rw [if_pos (by omega), copyInto_zero]

/-- a segment of size 0 written with length 0: nothing happens -/
theorem FSeg.writeInto_zero (ovl : Bytes → Nat → Nat → Nat → Bytes) (s : FSeg) (fs : FS)
    {offset bs : Nat} (hst : Small s.srcStart) (hoff : Small offset) (hbs : Small bs) (hpos : 0 < bs)
    (hsz : s.size = 0) : s.writeInto ovl fs offset 0 bs = .ok fs 0 0 false := by
  rw [FSeg.writeInto_eq_N ovl s fs hst hoff (by unfold Small; omega) hbs hpos, hsz,
    if_neg (fun h => h rfl), copyInto_zero,
    fsWriteCloneN_of_ok (fsCloneN_zero ovl fs s.src s.srcStart offset bs hpos)]
  split <;> rfl

/-- a segment of a seed file whose bytes are there: the write succeeds and the destination holds
    the seed's bytes (also when the segment is empty and lies beyond the end of the seed file) -/
theorem FSeg.writeInto_seed_ok (ovl : Bytes → Nat → Nat → Nat → Bytes) (s : FSeg) (fs : FS)
    {offset length bs k : Nat}
    (hst : Small s.srcStart) (hoff : Small offset) (hlen : Small length) (hbs : Small bs)
    (hpos : 0 < bs) (hk : s.src = .seed k)
    (hs : length = 0 ∨ s.srcStart + length ≤ (fs.read s.src).length) (hsz : length = s.size)
    (hd : offset + length ≤ fs.target.length) :
    ∃ fs' c cl, s.writeInto ovl fs offset length bs = .ok fs' c cl false ∧
      readUpTo fs'.target offset length = readUpTo (fs.read s.src) s.srcStart length := by
  by_cases h0 : length = 0
  · subst h0
    exact ⟨fs, 0, 0, FSeg.writeInto_zero ovl s fs hst hoff hbs hpos hsz.symm,
      by rw [af_readUpTo_zero, af_readUpTo_zero]⟩
  · obtain ⟨fs', c, cl, h1, h2, _⟩ := FSeg.writeInto_exact_seed ovl s fs hst hoff hlen hbs hpos hk
      (by omega) hsz hd
    exact ⟨fs', c, cl, h1, h2⟩

/-! ## the re-hash succeeds on chunks that are in place -/

theorem verifyChunks_ok {cf : Cfg} {e : Env} {blob : Bytes} (wf : WFSeq cf e blob) :
    ∀ (m p : Nat) (r : Run), p + m ≤ e.chunks.length → r.fs.target.length = blob.length →
      (∀ q, p ≤ q → q < p + m → readUpTo r.fs.target (e.startOf q) (e.sizeOf q) = chunkData e blob q) →
      verifyChunks cf e ((e.chunks.drop p).take m) r = some r := by
  intro m
  induction m with
  | zero =>
    intro p r _ _ _
    rw [List.take_zero, verifyChunks]
  | succ m ih =>
    intro p r hpm hl hq
    have hp : p < e.chunks.length := by omega
    obtain ⟨hcs, hcz, hci⟩ := as_chunk_fields e p
    rw [as_drop_take_succ e m hp, verifyChunks, hcs, hcz, hci]
    have hle := wf_end_le_length wf hp
    have hrf : readFull r.fs.target (e.startOf p) (e.sizeOf p) = some (chunkData e blob p) := by
      rw [af_readFull_some_iff]
      exact ⟨Or.inr (by omega), (hq p (Nat.le_refl _) (by omega)).symm⟩
    rw [hrf]
    simp only []
    have hH : (cf.H (chunkData e blob p) == e.idOf p) = true := by
      rw [wf.ids p hp]; simp
    rw [if_pos hH]
    exact ih (p + 1) r (by omega) hl (fun q h1 h2 => hq q (by omega) (by omega))

/-! ## writeChunk never fails -/

/-- with a complete store `writeChunk` succeeds at the position the worker has reached; it touches
    the range of the chunk only, and it goes to the store at most once, and not at all when the
    bytes are already in place (and the in-place check is not skipped) -/
theorem writeChunk_total {cf : Cfg} {e : Env} {blob : Bytes} (wf : WFSeq cf e blob)
    (hst : StoreComplete cf e blob) {r : Run} {p : Nat}
    (hp : p < e.chunks.length) (hw : r.ss.written ≤ p) (hd : Done e blob r.fs.target p) :
    ∃ r', writeChunk cf e r (e.chunks.getD p default) = some r' ∧
      AgreeOutside r.fs.target r'.fs.target (e.startOf p) (e.startOf p + e.sizeOf p) ∧
      r'.stats.fromStore ≤ r.stats.fromStore + 1 ∧
      (cf.isBlank = false → readUpTo r.fs.target (e.startOf p) (e.sizeOf p) = chunkData e blob p →
        r'.stats.fromStore = r.stats.fromStore) := by
  obtain ⟨hcs, hcz, hci⟩ := as_chunk_fields e p
  have hle := wf_end_le_length wf hp
  unfold writeChunk
  rw [hcs, hcz, hci]
  cases hg : r.ss.getChunk e.chunks (e.idOf p) with
  | some i =>
    obtain ⟨hiw, hid, _⟩ := (SelfSeed.getChunk_spec r.ss e.chunks (e.idOf p)).1 i hg
    have hip : i < p := by omega
    obtain ⟨hdata, hsz⟩ := wf_same_id wf (i := i) (by omega) hp hid
    have hdis := wf_end_le_start wf hip hp
    have hsmall : Small (selfSeg e i).srcStart := by
      show Small (e.startOf i)
      exact wf_small_of_le wf (by omega)
    obtain ⟨fs', c, cl, hex, _, _⟩ := FSeg.writeInto_exact_self cf.ovl (selfSeg e i) r.fs
      (offset := e.startOf p) (length := e.sizeOf p) (bs := e.bs)
      hsmall (wf_small_of_le wf (by omega)) (wf_small_of_le wf (by omega)) wf.small.2 wf.bs_pos rfl
      (Or.inl (by show e.startOf i + e.sizeOf p ≤ e.startOf p; omega))
      (by show e.startOf i + e.sizeOf p ≤ r.fs.target.length; rw [hd.1]; omega)
      (by show e.sizeOf p = e.startOf i + e.sizeOf i - e.startOf i; omega)
      (by rw [hd.1]; omega)
    obtain ⟨_, hag⟩ := FSeg.writeInto_confined hsmall (wf_small_of_le wf (by omega))
      (wf_small_of_le wf (by omega)) wf.small.2 wf.bs_pos (by rw [hd.1]; omega) hex
    simp only [selfSeg] at hex
    simp only [hex]
    exact ⟨_, rfl, hag, Nat.le_succ _, fun _ _ => rfl⟩
  | none =>
    simp only []
    have hrf : readFull r.fs.target (e.startOf p) (e.sizeOf p) =
        some (readUpTo r.fs.target (e.startOf p) (e.sizeOf p)) := by
      rw [af_readFull_some_iff]
      exact ⟨Or.inr (by rw [hd.1]; omega), rfl⟩
    have hlen := wf_chunkData_length wf hp
    have hstore : AgreeOutside r.fs.target (writeAt r.fs.target (e.startOf p) (chunkData e blob p))
        (e.startOf p) (e.startOf p + e.sizeOf p) :=
      af_writeAt_agree _ _ _ _ _ (Nat.le_refl _) (by omega) (by rw [hd.1]; omega)
    rw [hst p hp, hrf]
    have hne : ¬ (e.sizeOf p ≠ (chunkData e blob p).length) := by omega
    cases hbl : cf.isBlank with
    | true =>
      simp only [if_true, if_neg hne]
      exact ⟨_, rfl, hstore, Nat.le_refl _, fun h => absurd h (by simp)⟩
    | false =>
      simp only [Bool.false_eq_true, if_false]
      cases hH : (cf.H (readUpTo r.fs.target (e.startOf p) (e.sizeOf p)) == e.idOf p) with
      | true =>
        simp only []
        exact ⟨_, rfl, af_agree_refl _ _ _, Nat.le_succ _, fun _ _ => rfl⟩
      | false =>
        simp only [if_neg hne]
        refine ⟨_, rfl, hstore, Nat.le_refl _, fun _ hin => ?_⟩
        rw [hin, ← wf.ids p hp] at hH
        simp at hH

/-! ## a validated segment of a seed file holds the bytes of the blob -/

theorem contig_drop_take {cs : List IChunk} (h : Contig cs) (p n : Nat) : Contig ((cs.drop p).take n) := by
  intro i hi
  simp only [List.length_take, List.length_drop] at hi
  rw [getD_take _ (by omega), getD_take _ (by omega), getD_drop, getD_drop]
  exact h (p + i) (by omega)

theorem ak_getD_mem {cs : List IChunk} {i : Nat} (h : i < cs.length) : cs.getD i default ∈ cs := by
  rw [List.getD_eq_getElem?_getD, List.getElem?_eq_getElem h]
  exact List.getElem_mem h

theorem ak_head? {cs : List IChunk} (h : 0 < cs.length) : cs.head? = some (cs.getD 0 default) := by
  cases cs with
  | nil => simp at h
  | cons c cs => rfl

theorem ak_getLast? {cs : List IChunk} (h : 0 < cs.length) :
    cs.getLast? = some (cs.getD (cs.length - 1) default) := by
  rw [List.getLast?_eq_getElem?, List.getD_eq_getElem?_getD,
    List.getElem?_eq_getElem (show cs.length - 1 < cs.length by omega)]
  rfl

/-- the chunks `cs` of a seed index, read from the file `F`, match the `N` chunks of the index
    from position `first` -/
structure SegMatch (cf : Cfg) (e : Env) (F : Bytes) (first N : Nat) (cs : List IChunk) : Prop where
  len : cs.length = N
  ids : ∀ i, i < N → (cs.getD i default).id = e.idOf (first + i)
  contig : Contig cs
  valid : ∀ c ∈ cs, ∃ b, readFull F c.start c.size = some b ∧ cf.H b = c.id

/-- chunk by chunk: same size, same bytes, and the bytes are inside the seed file -/
theorem SegMatch.chunk {cf : Cfg} {e : Env} {blob F : Bytes} {first N : Nat} {cs : List IChunk}
    (wf : WFSeq cf e blob) (sm : SegMatch cf e F first N cs) (hN : first + N ≤ e.chunks.length)
    {i : Nat} (hi : i < N) :
    (cs.getD i default).size = e.sizeOf (first + i) ∧
    readUpTo F (cs.getD i default).start (e.sizeOf (first + i)) = chunkData e blob (first + i) ∧
    (e.sizeOf (first + i) = 0 ∨ (cs.getD i default).start + e.sizeOf (first + i) ≤ F.length) := by
  have hp : first + i < e.chunks.length := by omega
  obtain ⟨b, hb, hH⟩ := sm.valid _ (ak_getD_mem (by rw [sm.len]; exact hi))
  have hbl := af_readFull_length _ _ _ _ hb
  rw [af_readFull_some_iff] at hb
  rw [sm.ids i hi] at hH
  have hbd := wf.collision_free _ hp b hH
  have hsz : (cs.getD i default).size = e.sizeOf (first + i) := by
    rw [← hbl, hbd, wf_chunkData_length wf hp]
  rw [hsz] at hb
  exact ⟨hsz, by rw [← hb.2, hbd], hb.1⟩

/-- the offsets inside the segment are those inside the index -/
theorem SegMatch.start {cf : Cfg} {e : Env} {blob F : Bytes} {first N : Nat} {cs : List IChunk}
    (wf : WFSeq cf e blob) (sm : SegMatch cf e F first N cs) (hN : first + N ≤ e.chunks.length) :
    ∀ i, i < N → (cs.getD i default).start + e.startOf first = (cs.getD 0 default).start + e.startOf (first + i) := by
  intro i
  induction i with
  | zero => intro _; rfl
  | succ i ih =>
    intro hi
    have h1 := sm.contig i (by rw [sm.len]; exact hi)
    have h2 := wf.contiguous (first + i) (by omega)
    have h3 := (sm.chunk wf hN (i := i) (by omega)).1
    have h4 := ih (by omega)
    rw [show first + (i + 1) = first + i + 1 by omega]
    omega

/-- the end of chunk `i` is the start of the segment (nothing but empty chunks so far) or inside
    the seed file -/
theorem SegMatch.end_bound {cf : Cfg} {e : Env} {blob F : Bytes} {first N : Nat} {cs : List IChunk}
    (wf : WFSeq cf e blob) (sm : SegMatch cf e F first N cs) (hN : first + N ≤ e.chunks.length) :
    ∀ i, i < N →
      (cs.getD i default).start + (cs.getD i default).size = (cs.getD 0 default).start ∨
      (cs.getD i default).start + (cs.getD i default).size ≤ F.length := by
  intro i
  induction i with
  | zero =>
    intro hi
    obtain ⟨h1, _, h3⟩ := sm.chunk wf hN hi
    rcases h3 with h3 | h3
    · left; omega
    · right; omega
  | succ i ih =>
    intro hi
    obtain ⟨h1, _, h3⟩ := sm.chunk wf hN hi
    have hc := sm.contig i (by rw [sm.len]; exact hi)
    rcases h3 with h3 | h3
    · rcases ih (by omega) with h | h
      · left; omega
      · right; omega
    · right; omega

theorem wf_end_le_end {cf : Cfg} {e : Env} {blob : Bytes} (wf : WFSeq cf e blob) {p q : Nat}
    (hpq : p ≤ q) (hq : q < e.chunks.length) : e.startOf p + e.sizeOf p ≤ e.startOf q + e.sizeOf q := by
  by_cases h : p = q
  · subst h; exact Nat.le_refl _
  · have := wf_end_le_start wf (p := p) (q := q) (by omega) hq; omega

/-- the write of a validated segment of a static seed succeeds and puts every chunk of the
    segment in place -/
theorem file_write_ok {cf : Cfg} {e : Env} {blob : Bytes} (wf : WFSeq cf e blob) {seg : FSeg} {fs : FS}
    {j first last : Nat} (hsrc : seg.src = .seed j) (hle : first ≤ last) (hlt : last < e.chunks.length)
    (sm : SegMatch cf e (fs.seeds.getD j []) first (last + 1 - first) seg.chunks)
    (hsmall : Small seg.srcStart) (htl : fs.target.length = blob.length) :
    ∃ fs' c cl, seg.writeInto cf.ovl fs (e.startOf first)
        (e.startOf last + e.sizeOf last - e.startOf first) e.bs = .ok fs' c cl false ∧
      ∀ q, first ≤ q → q ≤ last → readUpTo fs'.target (e.startOf q) (e.sizeOf q) = chunkData e blob q := by
  have hN : first + (last + 1 - first) ≤ e.chunks.length := by omega
  have hlen := sm.len
  have hpos : 0 < seg.chunks.length := by omega
  have hstart : seg.srcStart = (seg.chunks.getD 0 default).start := by
    unfold FSeg.srcStart
    rw [ak_head? hpos]
    rfl
  have hsize : seg.size = (seg.chunks.getD (last - first) default).start +
      (seg.chunks.getD (last - first) default).size - (seg.chunks.getD 0 default).start := by
    unfold FSeg.size
    rw [ak_head? hpos, ak_getLast? hpos, hlen, show last + 1 - first - 1 = last - first by omega]
  have hfl : first + (last - first) = last := by omega
  have h1 := sm.start wf hN (last - first) (by omega)
  have h2 := (sm.chunk wf hN (i := last - first) (by omega)).1
  have h3 := sm.end_bound wf hN (last - first) (by omega)
  rw [hfl] at h1 h2
  have hmono := wf_start_mono wf hle hlt
  have hend := wf_end_le_length wf hlt
  have hread : fs.read seg.src = fs.seeds.getD j [] := by rw [hsrc]; rfl
  obtain ⟨fs', c, cl, hw, hr⟩ := FSeg.writeInto_seed_ok cf.ovl seg fs
    (offset := e.startOf first) (length := e.startOf last + e.sizeOf last - e.startOf first) (bs := e.bs)
    hsmall (wf_small_of_le wf (by omega)) (wf_small_of_le wf (by omega)) wf.small.2 wf.bs_pos hsrc
    (by rw [hread, hstart]; omega) (by rw [hsize]; omega) (by rw [htl]; omega)
  refine ⟨fs', c, cl, hw, ?_⟩
  intro q hq1 hq2
  have hqlt : q < e.chunks.length := by omega
  have g1 := sm.start wf hN (q - first) (by omega)
  obtain ⟨_, g2, _⟩ := sm.chunk wf hN (i := q - first) (by omega)
  rw [show first + (q - first) = q by omega] at g1 g2
  have g3 := wf_start_mono wf hq1 hqlt
  have g4 := wf_end_le_end wf hq2 hlt
  have := ak_readUpTo_sub hr (d := e.startOf q - e.startOf first) (m := e.sizeOf q) (by omega)
  rw [show e.startOf first + (e.startOf q - e.startOf first) = e.startOf q by omega, hread, hstart,
    show (seg.chunks.getD 0 default).start + (e.startOf q - e.startOf first) =
      (seg.chunks.getD (q - first) default).start by omega, g2] at this
  exact this

/-! ## a null section holds the bytes of the blob -/

/-- a chunk with the ID of the null chunk consists of zeros -/
theorem null_chunk {cf : Cfg} {e : Env} {blob : Bytes} (wf : WFSeq cf e blob) (hnull : NullIsZeros cf e)
    {p : Nat} (hp : p < e.chunks.length) (hid : e.idOf p = e.nullID) :
    chunkData e blob p = zeros (e.sizeOf p) := by
  obtain ⟨m, hm⟩ := hnull
  have h := wf.collision_free p hp (zeros m) (by rw [hid, hm])
  have hl := wf_chunkData_length wf hp
  rw [← h, af_zeros_length] at hl
  rw [← h, hl]

/-- the write of a null section succeeds and leaves every chunk of the section in place, provided
    that the range holds zeros already when the write is skipped (blank target, no reflink) -/
theorem null_write_ok {cf : Cfg} {e : Env} {blob : Bytes} (wf : WFSeq cf e blob) (hnull : NullIsZeros cf e)
    {fs : FS} {first last : Nat} (hle : first ≤ last) (hlt : last < e.chunks.length)
    (hids : ∀ q, first ≤ q → q ≤ last → e.idOf q = e.nullID) (htl : fs.target.length = blob.length)
    (cr isBlank : Bool)
    (hblank : isBlank = true → ∀ q, first ≤ q → q ≤ last →
      readUpTo fs.target (e.startOf q) (e.sizeOf q) = zeros (e.sizeOf q)) :
    ∃ fs' c cl, nullWriteInto fs (e.startOf first) (e.startOf last + e.sizeOf last) cr (e.startOf first)
        (e.startOf last + e.sizeOf last - e.startOf first) e.bs isBlank = .ok fs' c cl false ∧
      ∀ q, first ≤ q → q ≤ last → readUpTo fs'.target (e.startOf q) (e.sizeOf q) = chunkData e blob q := by
  have hmono := wf_start_mono wf hle hlt
  have hend := wf_end_le_length wf hlt
  obtain ⟨fs', c, cl, hw, hz⟩ := nullWriteInto_exact fs (e.startOf first) (e.startOf last + e.sizeOf last) cr
    (offset := e.startOf first) (length := e.startOf last + e.sizeOf last - e.startOf first) (bs := e.bs)
    isBlank (wf_small_of_le wf (by omega)) (wf_small_of_le wf (by omega)) wf.small.2 wf.bs_pos rfl
    (by rw [htl]; omega)
  refine ⟨fs', c, cl, hw, ?_⟩
  intro q hq1 hq2
  have hqlt : q < e.chunks.length := by omega
  rw [null_chunk wf hnull hqlt (hids q hq1 hq2)]
  rcases hz with ⟨_, hb, rfl⟩ | hz
  · exact hblank hb q hq1 hq2
  · have g3 := wf_start_mono wf hq1 hqlt
    have g4 := wf_end_le_end wf hq2 hlt
    rw [← ak_readUpTo_zeros (L := e.startOf last + e.sizeOf last - e.startOf first) (d := 0)
      (Nat.le_of_eq (Nat.zero_add _))] at hz
    have := ak_readUpTo_sub hz (d := e.startOf q - e.startOf first) (m := e.sizeOf q) (by omega)
    rw [show e.startOf first + (e.startOf q - e.startOf first) = e.startOf q by omega,
      ak_readUpTo_zeros (by omega)] at this
    exact this

/-! ## one job -/

/-- the state in which the chunks of a seed segment are re-hashed -/
def afterWrite (r : Run) (n : Nat) (fs' : FS) (fz : Bool) : Run :=
  { r with stats := { r.stats with fromSeed := r.stats.fromSeed + n }, fs := fs', fuzzy := r.fuzzy || fz }

/-- the state after the job -/
def afterJob (r1 : Run) (it : PlanItem) (cp cl : Nat) : Run :=
  { r1 with ss := r1.ss.add it.first it.last,
            stats := { r1.stats with copied := r1.stats.copied + cp, cloned := r1.stats.cloned + cl } }

theorem runJob_store_eq {cf : Cfg} {e : Env} {r : Run} {it : PlanItem} {c : IChunk}
    (hs : it.source = .store) (hseg : segChunks e it = [c]) :
    runJob cf e r it = (writeChunk cf e r c).map fun r' => { r' with ss := r'.ss.add it.first it.last } := by
  unfold runJob
  rw [hs]
  simp only [hseg]

theorem runJob_file_eq {cf : Cfg} {e : Env} {r : Run} {it : PlanItem} {k : Nat} {seg : FSeg}
    {fs' : FS} {cp cl : Nat} {fz : Bool} {r1 : Run}
    (hs : it.source = .file k seg) (hex : r.fs.exists seg.src = true)
    (hw : seg.writeInto cf.ovl r.fs (segStart e it) (segEnd e it - segStart e it) e.bs = .ok fs' cp cl fz)
    (hv : verifyChunks cf e (segChunks e it) (afterWrite r (it.last + 1 - it.first) fs' fz) = some r1) :
    runJob cf e r it = some (afterJob r1 it cp cl) := by
  unfold runJob
  rw [hs]
  simp only [hex, if_true, hw]
  unfold afterWrite at hv
  rw [hv]
  rfl

theorem runJob_null_eq {cf : Cfg} {e : Env} {r : Run} {it : PlanItem} {a b : Nat} {cr : Bool}
    {fs' : FS} {cp cl : Nat} {fz : Bool} {r1 : Run}
    (hs : it.source = .null a b cr)
    (hw : nullWriteInto r.fs a b cr (segStart e it) (segEnd e it - segStart e it) e.bs cf.isBlank = .ok fs' cp cl fz)
    (hv : verifyChunks cf e (segChunks e it) (afterWrite r (it.last + 1 - it.first) fs' fz) = some r1) :
    runJob cf e r it = some (afterJob r1 it cp cl) := by
  unfold runJob
  rw [hs]
  simp only [hw]
  unfold afterWrite at hv
  rw [hv]
  rfl

/-- what the liveness proof uses of a plan item beyond `ItemOK`: a file segment comes from a static
    seed and has been validated against its file; a null section covers chunks with the null ID -/
structure ItemGood (cf : Cfg) (e : Env) (files : List Bytes) (it : PlanItem) : Prop where
  file : ∀ k seg, it.source = .file k seg → ∃ j, seg.src = .seed j ∧ j < files.length ∧
    SegMatch cf e (files.getD j []) it.first (it.last + 1 - it.first) seg.chunks
  null : ∀ a b cr, it.source = .null a b cr →
    (∀ q, it.first ≤ q → q ≤ it.last → e.idOf q = e.nullID) ∧ a = segStart e it ∧ b = segEnd e it

/-- the chunks behind position `k` are the same in `t'` as in `t` -/
def SameFrom (e : Env) (t t' : Bytes) (k : Nat) : Prop :=
  ∀ q, k ≤ q → q < e.chunks.length →
    readUpTo t' (e.startOf q) (e.sizeOf q) = readUpTo t (e.startOf q) (e.sizeOf q)

theorem sameFrom_of_agree {cf : Cfg} {e : Env} {blob t t' : Bytes} (wf : WFSeq cf e blob) {first last : Nat}
    (hle : first ≤ last)
    (ha : AgreeOutside t t' (e.startOf first) (e.startOf first + (e.startOf last + e.sizeOf last - e.startOf first))) :
    SameFrom e t t' (last + 1) := by
  intro q hq hqlt
  have h1 := wf_end_le_start wf (p := last) (q := q) (by omega) hqlt
  have h2 := wf_start_mono wf hle (by omega : last < e.chunks.length)
  exact af_agree_readUpTo ha _ _ (Or.inr (by omega))

/-- a job of a validated plan never fails; it leaves the chunks behind its range alone, and it goes
    to the store at most once: only a store item does, and only if the bytes are not in place -/
theorem runJob_total {cf : Cfg} {e : Env} {blob : Bytes} {files : List Bytes} (wf : WFSeq cf e blob)
    (hst : StoreComplete cf e blob) (hnull : NullIsZeros cf e) {it : PlanItem} {r : Run}
    (ok : ItemOK e it) (good : ItemGood cf e files it) (hi : Inv e blob files it.first r)
    (hblank : cf.isBlank = true → ∀ q, it.first ≤ q → q < e.chunks.length →
      readUpTo r.fs.target (e.startOf q) (e.sizeOf q) = zeros (e.sizeOf q)) :
    ∃ r', runJob cf e r it = some r' ∧ SameFrom e r.fs.target r'.fs.target (it.last + 1) ∧
      r'.stats.fromStore ≤ r.stats.fromStore + 1 ∧
      ((it.source ≠ .store ∨ (cf.isBlank = false ∧
          readUpTo r.fs.target (e.startOf it.first) (e.sizeOf it.first) = chunkData e blob it.first)) →
        r'.stats.fromStore = r.stats.fromStore) := by
  have hle := ok.le
  have hlt := ok.lt
  have hfirst : it.first < e.chunks.length := by omega
  have hs1 : segStart e it = e.startOf it.first := rfl
  have hs2 : segEnd e it = e.startOf it.last + e.sizeOf it.last := rfl
  have hmono := wf_start_mono wf hle hlt
  have hend := wf_end_le_length wf hlt
  have hoff : Small (e.startOf it.first) := wf_small_of_le wf (by omega)
  have hlen : Small (e.startOf it.last + e.sizeOf it.last - e.startOf it.first) := wf_small_of_le wf (by omega)
  have hdst : e.startOf it.first + (e.startOf it.last + e.sizeOf it.last - e.startOf it.first) ≤ r.fs.target.length := by
    rw [hi.done.1]; omega
  -- the re-hash after a write that has put the chunks of the segment in place
  have hverify : ∀ (fs' : FS) (fz : Bool), fs'.target.length = blob.length →
      (∀ q, it.first ≤ q → q ≤ it.last → readUpTo fs'.target (e.startOf q) (e.sizeOf q) = chunkData e blob q) →
      verifyChunks cf e (segChunks e it) (afterWrite r (it.last + 1 - it.first) fs' fz) =
        some (afterWrite r (it.last + 1 - it.first) fs' fz) := by
    intro fs' fz hl hq
    exact verifyChunks_ok wf (it.last + 1 - it.first) it.first _ (by omega) hl
      (fun q h1 h2 => hq q h1 (by omega))
  cases hsrc : it.source with
  | store =>
    have hl : it.last = it.first := ok.single hsrc
    obtain ⟨r1, hw, hag, hs1, hs2⟩ := writeChunk_total wf hst hfirst
      (by rw [hi.ss]; exact Nat.le_refl _) hi.done
    rw [runJob_store_eq hsrc (ok.store hsrc), hw]
    refine ⟨_, rfl, ?_, hs1, ?_⟩
    · apply sameFrom_of_agree wf hle
      rw [hl]
      exact af_agree_mono hag (Nat.le_refl _) (by omega)
    · rintro (h | ⟨h1, h2⟩)
      · exact absurd rfl h
      · exact hs2 h1 h2
  | file k seg =>
    obtain ⟨j, hj, hjlt, sm⟩ := good.file k seg hsrc
    rw [← hi.seeds] at sm hjlt
    obtain ⟨fs', c, cl, hw, hq⟩ := file_write_ok wf hj hle hlt sm (ok.file k seg hsrc) hi.done.1
    obtain ⟨_, hag⟩ := FSeg.writeInto_confined (ok.file k seg hsrc) hoff hlen wf.small.2 wf.bs_pos hdst hw
    have hex : r.fs.exists seg.src = true := by
      rw [hj]; simpa [FS.exists] using hjlt
    rw [runJob_file_eq hsrc hex (by rw [hs1, hs2]; exact hw) (hverify fs' false (hag.1.trans hi.done.1) hq)]
    exact ⟨_, rfl, sameFrom_of_agree wf hle hag, Nat.le_succ _, fun _ => rfl⟩
  | null a b cr =>
    obtain ⟨hids, ha, hb⟩ := good.null a b cr hsrc
    obtain ⟨fs', c, cl, hw, hq⟩ := null_write_ok wf hnull hle hlt hids hi.done.1 cr cf.isBlank
      (fun hbl q h1 h2 => hblank hbl q h1 (by omega))
    obtain ⟨_, hag⟩ := nullWriteInto_confined hoff hlen wf.small.2 wf.bs_pos hdst hw
    rw [runJob_null_eq hsrc (by rw [ha, hb, hs1, hs2]; exact hw) (hverify fs' false (hag.1.trans hi.done.1) hq)]
    exact ⟨_, rfl, sameFrom_of_agree wf hle hag, Nat.le_succ _, fun _ => rfl⟩

/-! ## all jobs -/

/-- the number of positions below `k` whose bytes in `t0` are not those of the blob -/
def staleCount (e : Env) (blob t0 : Bytes) (k : Nat) : Nat :=
  ((List.range k).filter (fun p => readUpTo t0 (e.startOf p) (e.sizeOf p) ≠ chunkData e blob p)).length

theorem staleCount_succ (e : Env) (blob t0 : Bytes) (k : Nat) :
    staleCount e blob t0 (k + 1) = staleCount e blob t0 k +
      (if readUpTo t0 (e.startOf k) (e.sizeOf k) = chunkData e blob k then 0 else 1) := by
  unfold staleCount
  rw [List.range_succ, List.filter_append, List.length_append]
  by_cases h : readUpTo t0 (e.startOf k) (e.sizeOf k) = chunkData e blob k <;> simp [h]

theorem staleCount_mono (e : Env) (blob t0 : Bytes) {k k' : Nat} (h : k ≤ k') :
    staleCount e blob t0 k ≤ staleCount e blob t0 k' := by
  induction k' with
  | zero => rw [Nat.le_zero.mp h]; exact Nat.le_refl _
  | succ k' ih =>
    by_cases hk : k = k' + 1
    · rw [hk]; exact Nat.le_refl _
    · have := ih (by omega)
      rw [staleCount_succ]
      omega

theorem runJobs_total {cf : Cfg} {e : Env} {blob : Bytes} {files : List Bytes} (wf : WFSeq cf e blob)
    (hst : StoreComplete cf e blob) (hnull : NullIsZeros cf e) {t0 : Bytes}
    (hzero : cf.isBlank = true → t0 = zeros blob.length) :
    ∀ (items : List PlanItem) (cur : Nat) (r : Run), Partition e.chunks.length cur items →
      (∀ it ∈ items, ItemOK e it ∧ ItemGood cf e files it) → Inv e blob files cur r →
      SameFrom e t0 r.fs.target cur →
      ∃ r', runJobs cf e items r = some r' ∧
        (cf.isBlank = false →
          r'.stats.fromStore + staleCount e blob t0 cur ≤ r.stats.fromStore + staleCount e blob t0 e.chunks.length) := by
  intro items
  induction items with
  | nil =>
    intro cur r hp _ _ _
    simp only [Partition] at hp
    subst hp
    exact ⟨r, by rw [runJobs], fun _ => Nat.le_refl _⟩
  | cons it rest ih =>
    intro cur r hp hok hi hsame
    obtain ⟨hf, hle, hlt, hrest⟩ := hp
    subst hf
    obtain ⟨ok, good⟩ := hok it List.mem_cons_self
    have hfirst : it.first < e.chunks.length := by omega
    have hblank : cf.isBlank = true → ∀ q, it.first ≤ q → q < e.chunks.length →
        readUpTo r.fs.target (e.startOf q) (e.sizeOf q) = zeros (e.sizeOf q) := by
      intro hb q hq hqlt
      rw [hsame q hq hqlt, hzero hb]
      exact ak_readUpTo_zeros (wf_end_le_length wf hqlt)
    obtain ⟨r1, hj, hsf, hs1, hs2⟩ := runJob_total wf hst hnull ok good hi hblank
    have hi1 := runJob_inv wf ok hi hj
    have hsame1 : SameFrom e t0 r1.fs.target (it.last + 1) := by
      intro q hq hqlt
      rw [hsf q hq hqlt]
      exact hsame q (by omega) hqlt
    obtain ⟨r', hjs, hst'⟩ := ih (it.last + 1) r1 hrest
      (fun it' hm => hok it' (List.mem_cons_of_mem _ hm)) hi1 hsame1
    refine ⟨r', by rw [runJobs, hj]; exact hjs, ?_⟩
    intro hb
    have h3 := hst' hb
    have hstep : r1.stats.fromStore + staleCount e blob t0 it.first ≤
        r.stats.fromStore + staleCount e blob t0 (it.last + 1) := by
      by_cases hsrc : it.source = .store
      · have hl : it.last = it.first := ok.single hsrc
        rw [hl, staleCount_succ]
        by_cases hin : readUpTo t0 (e.startOf it.first) (e.sizeOf it.first) = chunkData e blob it.first
        · rw [if_pos hin]
          have := hs2 (Or.inr ⟨hb, by rw [hsame it.first (Nat.le_refl _) hfirst]; exact hin⟩)
          omega
        · rw [if_neg hin]
          omega
      · have := hs2 (Or.inl hsrc)
        have := staleCount_mono e blob t0 (show it.first ≤ it.last + 1 by omega)
        omega
    omega

/-! ## the items of a validated plan -/

theorem firstUnopenable_none_file {fs : FS} {p : List PlanItem} (h : firstUnopenable fs p = none)
    {it : PlanItem} (hm : it ∈ p) {k : Nat} {seg : FSeg} (hs : it.source = .file k seg) :
    fs.exists seg.src = true := by
  induction p with
  | nil => cases hm
  | cons it0 rest ih =>
    simp only [firstUnopenable] at h
    rcases List.mem_cons.mp hm with rfl | hm
    · rw [hs] at h
      simp only [] at h
      split at h
      · assumption
      · cases h
    · split at h
      · split at h
        · exact ih h hm
        · cases h
      · exact ih h hm

theorem validateChunks_none_file {H : Bytes → Bytes} {fs : FS} {p : List PlanItem}
    (h : validateChunks H fs p = none) {it : PlanItem} (hm : it ∈ p) {k : Nat} {seg : FSeg}
    (hs : it.source = .file k seg) : seg.validate H fs = true := by
  induction p with
  | nil => cases hm
  | cons it0 rest ih =>
    simp only [validateChunks] at h
    rcases List.mem_cons.mp hm with rfl | hm
    · rw [hs] at h
      simp only [] at h
      split at h
      · assumption
      · cases h
    · split at h
      · split at h
        · exact ih h hm
        · cases h
      · exact ih h hm

/-- the file segments of a plan that validates can be opened, and each of their chunks reads in
    full and hashes to its ID -/
theorem validatePlan_none_file {H : Bytes → Bytes} {fs : FS} {p : List PlanItem}
    (h : validatePlan H fs p = none) {it : PlanItem} (hm : it ∈ p) {k : Nat} {seg : FSeg}
    (hs : it.source = .file k seg) :
    fs.exists seg.src = true ∧
    ∀ c ∈ seg.chunks, ∃ b, readFull (fs.read seg.src) c.start c.size = some b ∧ H b = c.id := by
  unfold validatePlan at h
  split at h
  · cases h
  · rename_i hu
    refine ⟨firstUnopenable_none_file hu hm hs, ?_⟩
    have hv := validateChunks_none_file h hm hs
    unfold FSeg.validate at hv
    rw [List.all_eq_true] at hv
    intro c hc
    have := hv c hc
    split at this
    · cases this
    · rename_i b hb
      exact ⟨b, hb, by simpa using this⟩

/-- a file segment of a plan is a run of consecutive chunks of the index of its seed -/
theorem plan_file_sub (e : Env) (seeds : List Seed) (it : PlanItem) (hm : it ∈ plan e seeds)
    (k : Nat) (seg : FSeg) (hs : it.source = .file k seg) :
    ∃ s, seeds[k]? = some s ∧ seg.src = s.src ∧ ∃ p n, seg.chunks = (s.chunks.drop p).take n := by
  obtain ⟨cur, _, rfl⟩ := plan_mem e seeds it hm
  rw [next_eq] at hs
  simp only [] at hs
  have key := pickSeeds_inv
    (fun _ src => ∀ k seg, src = Source.file k seg →
      ∃ s, seeds[k]? = some s ∧ seg.src = s.src ∧ ∃ p n, seg.chunks = (s.chunks.drop p).take n)
    (e.chunks.drop cur) seeds 0 (nextAcc0 e cur)
    (by
      intro k seg h
      exfalso
      unfold nextAcc0 at h
      split at h
      · simp only [] at h
        generalize hr : nullLongestMatch e.nullID e.nullReflink (e.chunks.drop cur) = r at h
        obtain ⟨n, src⟩ := r
        rcases nullLongestMatch_spec _ _ _ _ _ hr with ⟨_, h2⟩ | ⟨_, _, _, h2⟩
        · simp only [] at h; rw [h2] at h; cases h
        · simp only [] at h; rw [h2] at h; cases h
      · cases h)
    (by
      intro j s n seg' hj hmatch k seg h
      injection h with hk h
      subst h
      subst hk
      obtain ⟨_, _, _, hsrc, _, _, ⟨p, hp, _⟩, _⟩ := s.longestMatch_some _ n seg' hmatch
      exact ⟨s, by simpa using hj, hsrc, p, n, hp⟩)
  exact key k seg hs

/-- what the liveness proof needs of a seed: offsets that fit in uint64, cumulative starts, and a
    file of its own -/
structure SeedGood (files : List Bytes) (s : Seed) : Prop where
  small : ∀ c ∈ s.chunks, Small c.start ∧ Small c.size
  contig : Contig s.chunks
  static : s.Static files

theorem plan_itemGood {cf : Cfg} {e : Env} {files : List Bytes} {t : Bytes} {seeds : List Seed}
    (hg : ∀ s ∈ seeds, SeedGood files s) (hv : validatePlan cf.H ⟨t, files⟩ (plan e seeds) = none)
    {it : PlanItem} (hm : it ∈ plan e seeds) : ItemOK e it ∧ ItemGood cf e files it := by
  refine ⟨plan_itemOK e seeds (fun s hs => (hg s hs).small) it hm, ?_, ?_⟩
  · intro k seg hs
    obtain ⟨hlen, hids, _⟩ := (plan_sources e seeds it hm).2.1 k seg hs
    obtain ⟨s, hk, hsrc, p, n, hsub⟩ := plan_file_sub e seeds it hm k seg hs
    have hsg := hg s (List.mem_of_getElem? hk)
    obtain ⟨j, hj, hjlt⟩ := hsg.static
    obtain ⟨_, hvalid⟩ := validatePlan_none_file hv hm hs
    rw [hsrc, hj] at hvalid
    refine ⟨j, by rw [hsrc, hj], hjlt, hlen, hids, ?_, hvalid⟩
    rw [hsub]
    exact contig_drop_take hsg.contig p n
  · intro a b cr hs
    obtain ⟨_, hids, ha, hb⟩ := (plan_sources e seeds it hm).2.2 a b cr hs
    refine ⟨?_, ha, hb⟩
    intro q h1 h2
    have := hids (q - it.first) (by omega)
    rwa [show it.first + (q - it.first) = q by omega] at this

/-! ## the plan that is run -/

/-- a property of seeds that marking invalid and regenerating preserve holds of the seeds whose
    plan `findPlan` returns; that plan validates -/
theorem findPlan_returns_inv {P : Seed → Prop} {H : Bytes → Bytes}
    {rechunk : Nat → Bytes → Option (List IChunk)} {e : Env} {fs : FS} {act : Action}
    (hmark : ∀ a, P a → P { a with invalid := true })
    (hreg : act = .regenerate → ∀ a k cs, P a → rechunk k (fs.read a.src) = some cs →
      P { a with chunks := cs, invalid := false }) :
    ∀ (fuel : Nat) (seeds : List Seed) (p : List PlanItem) (k : Nat), (∀ s ∈ seeds, P s) →
      findPlan H rechunk e fs act fuel seeds = some (p, k) →
      ∃ seeds', p = plan e seeds' ∧ validatePlan H fs p = none ∧ ∀ s ∈ seeds', P s := by
  intro fuel
  induction fuel with
  | zero => intro seeds p k _ h; rw [findPlan] at h; cases h
  | succ fuel ih =>
    intro seeds p k hP h
    rw [findPlan_succ] at h
    split at h
    · rename_i hv
      simp only [Option.some.injEq, Prod.mk.injEq] at h
      obtain ⟨rfl, rfl⟩ := h
      exact ⟨seeds, rfl, hv, hP⟩
    · rename_i j _
      have hP1 : ∀ s ∈ setInvalid seeds j, P s :=
        (setInvalid_pw seeds j).forall_mem (Q := P) (Q' := P)
          (fun a b hab ha => by
            rcases hab with rfl | rfl
            · exact ha
            · exact hmark a ha) hP
      split at h
      · cases h
      · exact ih _ p k hP1 h
      · rename_i hact
        split at h
        · cases h
        · rename_i seeds2 hr
          have hP2 : ∀ s ∈ seeds2, P s :=
            (regenerate_pw _ _ _ _ _ hr).forall_mem (Q := P) (Q' := P)
              (fun a b hab ha => by
                rcases hab with ⟨_, rfl⟩ | ⟨_, _, k', cs, hcs, rfl⟩
                · exact ha
                · exact hreg rfl a k' cs ha hcs) hP1
          exact ih _ p k hP2 h

theorem initFS_blank {cf : Cfg} {e : Env} {blob : Bytes} {files : List Bytes} {prior : Option Bytes}
    (wf : WFSeq cf e blob) (hb : cf.isBlank = isBlankOf prior) (h : cf.isBlank = true) :
    (initFS e files prior).target = zeros blob.length := by
  rw [hb] at h
  have : prior.getD [] = [] := by
    cases prior with
    | none => rfl
    | some b =>
      simp only [isBlankOf, List.isEmpty_iff] at h
      subst h
      rfl
  unfold initFS
  simp only [this, ak_truncate_nil, wf.length_eq]

/-- the run of a validated plan over good seeds succeeds, leaves the blob, and goes to the store at
    most once for every position that did not hold the right bytes beforehand (unless the in-place
    check is skipped because the target was empty) -/
theorem assemble_core {cf : Cfg} {e : Env} {blob : Bytes} {seeds seeds' : List Seed} {files : List Bytes}
    {prior : Option Bytes} {k : Nat} (wf : WFSeq cf e blob) (hst : StoreComplete cf e blob)
    (hnull : NullIsZeros cf e) (hb : cf.isBlank = isBlankOf prior)
    (hg : ∀ s ∈ seeds', SeedGood files s)
    (hf : findPlan cf.H cf.rechunk e (initFS e files prior) cf.act (seeds.length + 1) seeds =
      some (plan e seeds', k))
    (hv : validatePlan cf.H (initFS e files prior) (plan e seeds') = none) :
    ∃ r, assemble cf e seeds files prior = some r ∧ r.fs.target = blob ∧
      (cf.isBlank = false →
        r.stats.fromStore ≤ staleCount e blob (initFS e files prior).target e.chunks.length) := by
  rw [assemble_of_findPlan hf]
  have hinv : Inv e blob files 0 { fs := initFS e files prior } := by
    refine ⟨⟨?_, fun p hp => absurd hp (Nat.not_lt_zero p)⟩, rfl, rfl⟩
    show (truncate (prior.getD []) (indexLength e.chunks)).length = blob.length
    rw [af_truncate_length, wf.length_eq]
  have hitems : ∀ it ∈ plan e seeds', ItemOK e it ∧ ItemGood cf e files it :=
    fun it hm => plan_itemGood hg hv hm
  obtain ⟨r, hr, hstat⟩ := runJobs_total wf hst hnull (t0 := (initFS e files prior).target)
    (initFS_blank wf hb) (plan e seeds') 0 { fs := initFS e files prior } (plan_partitions e seeds')
    hitems hinv (fun _ _ _ => rfl)
  have hfin := runJobs_inv wf (plan e seeds') 0 _ r (plan_partitions e seeds')
    (fun it hm => (hitems it hm).1) hinv hr
  refine ⟨r, hr, done_all wf hfin.done, ?_⟩
  intro hbl
  have := hstat hbl
  have h0 : staleCount e blob (initFS e files prior).target 0 = 0 := rfl
  have h1 : ({ fs := initFS e files prior } : Run).stats.fromStore = 0 := rfl
  omega

/-! ## the main theorems -/

theorem seedGood_mark {files : List Bytes} (a : Seed) (h : SeedGood files a) :
    SeedGood files { a with invalid := true } :=
  ⟨h.small, h.contig, h.static⟩

theorem static_exists {files : List Bytes} {t : Bytes} {s : Seed} (h : s.Static files) :
    (FS.mk t files).exists s.src = true := by
  obtain ⟨k, hk, hlt⟩ := h
  rw [hk]
  simpa [FS.exists] using hlt

/-- the general form: whenever the validate / skip / regenerate loop ends with a plan, the run of
    that plan succeeds -/
theorem assemble_complete_of_findPlan {cf : Cfg} {e : Env} {blob : Bytes} {seeds : List Seed}
    {files : List Bytes} {prior : Option Bytes} (hwf : WFSeq cf e blob) (hst : StoreComplete cf e blob)
    (hnull : NullIsZeros cf e) (hb : cf.isBlank = isBlankOf prior) (hsm : SeedsSmall seeds)
    (hct : SeedsContiguous seeds) (hstatic : ∀ s ∈ seeds, s.Static files)
    (hr : cf.act = .regenerate → RechunkSmall cf.rechunk ∧ RechunkContig cf.rechunk)
    (hf : ∃ p k, findPlan cf.H cf.rechunk e (initFS e files prior) cf.act (seeds.length + 1) seeds = some (p, k)) :
    ∃ r, assemble cf e seeds files prior = some r ∧ r.fs.target = blob ∧
      (cf.isBlank = false →
        r.stats.fromStore ≤ staleCount e blob (initFS e files prior).target e.chunks.length) := by
  obtain ⟨p, k, hf⟩ := hf
  obtain ⟨seeds', rfl, hv, hg⟩ := findPlan_returns_inv (P := SeedGood files) seedGood_mark
    (fun hact a k cs ha hcs =>
      ⟨(hr hact).1 k _ cs hcs, (hr hact).2 k _ cs hcs, ha.static⟩)
    _ seeds p k (fun s hs => ⟨hsm s hs, hct s hs, hstatic s hs⟩) hf
  exact assemble_core hwf hst hnull hb hg hf hv

/-- 1. consistent seeds: the run succeeds whatever the invalid-seed action -/
theorem assemble_complete_consistent {cf : Cfg} {e : Env} {blob : Bytes} {seeds : List Seed}
    {files : List Bytes} {prior : Option Bytes} (hwf : WFSeq cf e blob) (hst : StoreComplete cf e blob)
    (hnull : NullIsZeros cf e) (hb : cf.isBlank = isBlankOf prior) (hsm : SeedsSmall seeds)
    (hct : SeedsContiguous seeds) (hstatic : ∀ s ∈ seeds, s.Static files)
    (hr : cf.act = .regenerate → RechunkSmall cf.rechunk ∧ RechunkContig cf.rechunk)
    (hc : ∀ s ∈ seeds, s.Consistent cf.H
      { target := truncate (prior.getD []) (indexLength e.chunks), seeds := files }) :
    ∃ r, assemble cf e seeds files prior = some r ∧ r.fs.target = blob := by
  obtain ⟨r, h1, h2, _⟩ := assemble_complete_of_findPlan hwf hst hnull hb hsm hct hstatic hr
    ⟨_, _, findPlan_consistent cf.H cf.rechunk e (initFS e files prior) cf.act _ seeds
      (Nat.le_add_left 1 _) (fun s hs _ => hc s hs)⟩
  exact ⟨r, h1, h2⟩

/-- 2. skipping invalid seeds: the run succeeds whatever the seeds hold -/
theorem assemble_complete_skip {cf : Cfg} {e : Env} {blob : Bytes} {seeds : List Seed}
    {files : List Bytes} {prior : Option Bytes} (hwf : WFSeq cf e blob) (hst : StoreComplete cf e blob)
    (hnull : NullIsZeros cf e) (hb : cf.isBlank = isBlankOf prior) (hsm : SeedsSmall seeds)
    (hct : SeedsContiguous seeds) (hstatic : ∀ s ∈ seeds, s.Static files) (hact : cf.act = .skip) :
    ∃ r, assemble cf e seeds files prior = some r ∧ r.fs.target = blob := by
  obtain ⟨r, h1, h2, _⟩ := assemble_complete_of_findPlan hwf hst hnull hb hsm hct hstatic
    (fun h => by rw [hact] at h; cases h)
    (by rw [hact]; exact findPlan_skip_total cf.H cf.rechunk e (initFS e files prior) seeds)
  exact ⟨r, h1, h2⟩

/-- 3. regenerating invalid seeds: the run succeeds whatever the seeds hold, if the re-chunking
    yields indexes that are consistent with the files, contiguous and small -/
theorem assemble_complete_regenerate {cf : Cfg} {e : Env} {blob : Bytes} {seeds : List Seed}
    {files : List Bytes} {prior : Option Bytes} (hwf : WFSeq cf e blob) (hst : StoreComplete cf e blob)
    (hnull : NullIsZeros cf e) (hb : cf.isBlank = isBlankOf prior) (hsm : SeedsSmall seeds)
    (hct : SeedsContiguous seeds) (hstatic : ∀ s ∈ seeds, s.Static files) (hact : cf.act = .regenerate)
    (hre : RechunkOK cf.H cf.rechunk) (hrs : RechunkSmall cf.rechunk) (hrc : RechunkContig cf.rechunk) :
    ∃ r, assemble cf e seeds files prior = some r ∧ r.fs.target = blob := by
  obtain ⟨r, h1, h2, _⟩ := assemble_complete_of_findPlan hwf hst hnull hb hsm hct hstatic
    (fun _ => ⟨hrs, hrc⟩)
    (by
      rw [hact]
      exact findPlan_regenerate_total cf.H cf.rechunk e (initFS e files prior) seeds hre
        (fun s hs => static_exists (hstatic s hs)))
  exact ⟨r, h1, h2⟩

/-- 4. no seeds (what `extract` without seeds does): the run succeeds for every prior content of
    the target and every action; chunks already in place are not fetched -/
theorem assemble_complete_noseeds {cf : Cfg} {e : Env} {blob : Bytes} {files : List Bytes}
    {prior : Option Bytes} (hwf : WFSeq cf e blob) (hst : StoreComplete cf e blob)
    (hnull : NullIsZeros cf e) (hb : cf.isBlank = isBlankOf prior) :
    ∃ r, assemble cf e [] files prior = some r ∧ r.fs.target = blob ∧
      (cf.isBlank = false →
        r.stats.fromStore ≤ staleCount e blob (truncate (prior.getD []) blob.length) e.chunks.length) := by
  have := assemble_core (seeds := []) (seeds' := []) (files := files) (prior := prior) (k := 0)
    hwf hst hnull hb (fun s hs => by cases hs)
    (findPlan_consistent cf.H cf.rechunk e (initFS e files prior) cf.act 1 [] (Nat.le_refl _)
      (fun s hs => by cases hs))
    (validatePlan_consistent cf.H e (initFS e files prior) [] (fun s hs => by cases hs))
  rw [← hwf.length_eq]
  exact this

/-- 5. (C08) an in-place extract that died leaves a file of full length; the re-run succeeds,
    produces the blob, and goes to the store at most once for every position whose bytes are not
    already correct: positions written correctly are never fetched again -/
theorem inplace_resume {cf : Cfg} {e : Env} {blob : Bytes} {files : List Bytes} {t0 : Bytes}
    (hwf : WFSeq cf e blob) (hst : StoreComplete cf e blob) (hnull : NullIsZeros cf e)
    (hb : cf.isBlank = isBlankOf (some t0)) (hlen : t0.length = blob.length) (hne : blob ≠ []) :
    ∃ r, assemble cf e [] files (some t0) = some r ∧ r.fs.target = blob ∧
      r.stats.fromStore ≤ ((List.range e.chunks.length).filter
        (fun p => readUpTo t0 (e.startOf p) (e.sizeOf p) ≠ chunkData e blob p)).length := by
  obtain ⟨r, h1, h2, h3⟩ := assemble_complete_noseeds (files := files) hwf hst hnull hb
  refine ⟨r, h1, h2, ?_⟩
  have hnb : cf.isBlank = false := by
    rw [hb]
    cases t0 with
    | nil => exact absurd (List.eq_nil_of_length_eq_zero hlen.symm) hne
    | cons _ _ => rfl
  have := h3 hnb
  rw [show (some t0).getD [] = t0 from rfl, ← hlen, af_truncate_self] at this
  exact this

/-! ## regenerate: seeds that are the target itself, without reflinks -/

/-- with `regenerate` the re-hash never fails at the position the worker has reached: a chunk that
    does not hash to its ID is written again by `writeChunk`, which cannot fail -/
theorem verifyChunks_total {cf : Cfg} {e : Env} {blob : Bytes} (wf : WFSeq cf e blob)
    (hst : StoreComplete cf e blob) (hact : cf.act = .regenerate) :
    ∀ (m p : Nat) (r : Run), p + m ≤ e.chunks.length → r.ss.written ≤ p →
      Done e blob r.fs.target p →
      ∃ r', verifyChunks cf e ((e.chunks.drop p).take m) r = some r' ∧
        SameFrom e r.fs.target r'.fs.target (p + m) := by
  intro m
  induction m with
  | zero =>
    intro p r _ _ _
    rw [List.take_zero, verifyChunks]
    exact ⟨r, rfl, fun _ _ _ => rfl⟩
  | succ m ih =>
    intro p r hpm hw hd
    have hp : p < e.chunks.length := by omega
    obtain ⟨hcs, hcz, hci⟩ := as_chunk_fields e p
    rw [as_drop_take_succ e m hp, verifyChunks, hcs, hcz, hci]
    have hle := wf_end_le_length wf hp
    have hrf : readFull r.fs.target (e.startOf p) (e.sizeOf p) =
        some (readUpTo r.fs.target (e.startOf p) (e.sizeOf p)) := by
      rw [af_readFull_some_iff]
      exact ⟨Or.inr (by rw [hd.1]; omega), rfl⟩
    rw [hrf, show p + (m + 1) = p + 1 + m by omega]
    simp only []
    by_cases hH : (cf.H (readUpTo r.fs.target (e.startOf p) (e.sizeOf p)) == e.idOf p) = true
    · rw [if_pos hH]
      have hH' : cf.H (readUpTo r.fs.target (e.startOf p) (e.sizeOf p)) = e.idOf p := by simpa using hH
      have hb' := wf.collision_free p hp _ hH'
      have hd' : Done e blob r.fs.target (p + 1) :=
        done_step wf hp hd (af_agree_refl _ _ _) hb'
      exact ih (p + 1) r (by omega) (by omega) hd'
    · rw [if_neg hH, if_pos hact]
      obtain ⟨r1, hw1, hag, _, _⟩ := writeChunk_total wf hst hp hw hd
      obtain ⟨hd1, hss1, _⟩ := writeChunk_inv wf hp hw hd hw1
      rw [hw1]
      simp only []
      obtain ⟨r', hv, hsf⟩ := ih (p + 1) r1 (by omega) (by rw [hss1]; omega) hd1
      refine ⟨r', hv, ?_⟩
      intro q hq hqlt
      rw [hsf q hq hqlt]
      have := wf_end_le_start wf (p := p) (q := q) (by omega) hqlt
      exact af_agree_readUpTo hag _ _ (Or.inr this)

/-- the size of a segment that matches the index is the size of the range it covers -/
theorem SegMatch.size_eq {cf : Cfg} {e : Env} {blob F : Bytes} {seg : FSeg} {first last : Nat}
    (wf : WFSeq cf e blob) (hle : first ≤ last) (hlt : last < e.chunks.length)
    (sm : SegMatch cf e F first (last + 1 - first) seg.chunks) :
    seg.size = e.startOf last + e.sizeOf last - e.startOf first := by
  have hN : first + (last + 1 - first) ≤ e.chunks.length := by omega
  have hlen := sm.len
  have hpos : 0 < seg.chunks.length := by omega
  have h1 := sm.start wf hN (last - first) (by omega)
  have h2 := (sm.chunk wf hN (i := last - first) (by omega)).1
  rw [show first + (last - first) = last by omega] at h1 h2
  have hmono := wf_start_mono wf hle hlt
  unfold FSeg.size
  rw [ak_head? hpos, ak_getLast? hpos, hlen, show last + 1 - first - 1 = last - first by omega]
  show (seg.chunks.getD (last - first) default).start + (seg.chunks.getD (last - first) default).size -
    (seg.chunks.getD 0 default).start = _
  omega

/-- without reflinks `WriteInto` copies, which cannot fail -/
theorem FSeg.writeInto_copy_ok (ovl : Bytes → Nat → Nat → Nat → Bytes) (s : FSeg) (fs : FS)
    {offset length bs : Nat} (hst : Small s.srcStart) (hoff : Small offset) (hlen : Small length)
    (hbs : Small bs) (hpos : 0 < bs) (hsz : length = s.size) (hcr : s.canReflink = false) :
    ∃ fs' c fz, s.writeInto ovl fs offset length bs = .ok fs' c 0 fz := by
  rw [FSeg.writeInto_eq_N ovl s fs hst hoff hlen hbs hpos, hsz, if_neg (fun h => h rfl),
    if_pos (Or.inl hcr)]
  exact ⟨_, _, _, rfl⟩

/-- with or without reflinks, `WriteInto` with the right length cannot fail: a refused clone is
    followed by a copy -/
theorem FSeg.writeInto_ok_of_size (ovl : Bytes → Nat → Nat → Nat → Bytes) (s : FSeg) (fs : FS)
    {offset length bs : Nat} (hst : Small s.srcStart) (hoff : Small offset) (hlen : Small length)
    (hbs : Small bs) (hpos : 0 < bs) (hsz : length = s.size) :
    ∃ fs' c cl fz, s.writeInto ovl fs offset length bs = .ok fs' c cl fz := by
  have hne := FSeg.writeInto_never_errs_after_size_check ovl s fs hst hoff hlen hbs hpos
    (by rw [hsz])
  cases h : s.writeInto ovl fs offset length bs with
  | err => exact absurd h hne
  | ok fs' c cl fz => exact ⟨fs', c, cl, fz, rfl⟩

/-- a file segment taken from the target itself, with or without reflinks, under `regenerate` -/
structure ItemAlias (cf : Cfg) (e : Env) (t0 : Bytes) (it : PlanItem) : Prop where
  act : cf.act = .regenerate
  file : ∃ k seg, it.source = .file k seg ∧ seg.src = .target ∧
    SegMatch cf e t0 it.first (it.last + 1 - it.first) seg.chunks

theorem runJob_alias_total {cf : Cfg} {e : Env} {blob : Bytes} {files : List Bytes} {t0 : Bytes}
    (wf : WFSeq cf e blob) (hst : StoreComplete cf e blob) {it : PlanItem} {r : Run}
    (ok : ItemOK e it) (al : ItemAlias cf e t0 it) (hi : Inv e blob files it.first r) :
    ∃ r', runJob cf e r it = some r' ∧ SameFrom e r.fs.target r'.fs.target (it.last + 1) := by
  have hle := ok.le
  have hlt := ok.lt
  have hfirst : it.first < e.chunks.length := by omega
  have hs1 : segStart e it = e.startOf it.first := rfl
  have hs2 : segEnd e it = e.startOf it.last + e.sizeOf it.last := rfl
  have hmono := wf_start_mono wf hle hlt
  have hend := wf_end_le_length wf hlt
  have hoff : Small (e.startOf it.first) := wf_small_of_le wf (by omega)
  have hlen : Small (e.startOf it.last + e.sizeOf it.last - e.startOf it.first) := wf_small_of_le wf (by omega)
  have hdst : e.startOf it.first + (e.startOf it.last + e.sizeOf it.last - e.startOf it.first) ≤ r.fs.target.length := by
    rw [hi.done.1]; omega
  obtain ⟨k, seg, hsrc, htgt, sm⟩ := al.file
  obtain ⟨fs', c, cl, fz, hw⟩ := FSeg.writeInto_ok_of_size cf.ovl seg r.fs (ok.file k seg hsrc) hoff hlen
    wf.small.2 wf.bs_pos (sm.size_eq wf hle hlt).symm
  obtain ⟨_, hag⟩ := FSeg.writeInto_confined (ok.file k seg hsrc) hoff hlen wf.small.2 wf.bs_pos hdst hw
  have hd0 : Done e blob fs'.target it.first :=
    done_agree wf hfirst hi.done (Nat.le_refl _) hag
  obtain ⟨r1, hv, hsf⟩ := verifyChunks_total wf hst al.act (it.last + 1 - it.first) it.first
    (afterWrite r (it.last + 1 - it.first) fs' fz) (by omega)
    (by show r.ss.written ≤ it.first; rw [hi.ss]; exact Nat.le_refl _) hd0
  have hex : r.fs.exists seg.src = true := by rw [htgt]; rfl
  rw [runJob_file_eq hsrc hex (by rw [hs1, hs2]; exact hw) hv]
  refine ⟨_, rfl, ?_⟩
  intro q hq hqlt
  show readUpTo r1.fs.target _ _ = _
  rw [hsf q (by omega) hqlt]
  exact sameFrom_of_agree wf hle hag q hq hqlt

theorem runJobs_total_regen {cf : Cfg} {e : Env} {blob : Bytes} {files : List Bytes} (wf : WFSeq cf e blob)
    (hst : StoreComplete cf e blob) (hnull : NullIsZeros cf e) {t0 : Bytes}
    (hzero : cf.isBlank = true → t0 = zeros blob.length) :
    ∀ (items : List PlanItem) (cur : Nat) (r : Run), Partition e.chunks.length cur items →
      (∀ it ∈ items, ItemOK e it ∧ (ItemGood cf e files it ∨ ItemAlias cf e t0 it)) →
      Inv e blob files cur r → SameFrom e t0 r.fs.target cur →
      ∃ r', runJobs cf e items r = some r' := by
  intro items
  induction items with
  | nil =>
    intro cur r _ _ _ _
    exact ⟨r, by rw [runJobs]⟩
  | cons it rest ih =>
    intro cur r hp hok hi hsame
    obtain ⟨hf, hle, hlt, hrest⟩ := hp
    subst hf
    obtain ⟨ok, good⟩ := hok it List.mem_cons_self
    have hstep : ∃ r1, runJob cf e r it = some r1 ∧ SameFrom e r.fs.target r1.fs.target (it.last + 1) := by
      rcases good with good | al
      · have hblank : cf.isBlank = true → ∀ q, it.first ≤ q → q < e.chunks.length →
            readUpTo r.fs.target (e.startOf q) (e.sizeOf q) = zeros (e.sizeOf q) := by
          intro hb q hq hqlt
          rw [hsame q hq hqlt, hzero hb]
          exact ak_readUpTo_zeros (wf_end_le_length wf hqlt)
        obtain ⟨r1, hj, hsf, _, _⟩ := runJob_total wf hst hnull ok good hi hblank
        exact ⟨r1, hj, hsf⟩
      · exact runJob_alias_total wf hst ok al hi
    obtain ⟨r1, hj, hsf⟩ := hstep
    have hi1 := runJob_inv wf ok hi hj
    have hsame1 : SameFrom e t0 r1.fs.target (it.last + 1) := by
      intro q hq hqlt
      rw [hsf q hq hqlt]
      exact hsame q (by omega) hqlt
    obtain ⟨r', hjs⟩ := ih (it.last + 1) r1 hrest
      (fun it' hm => hok it' (List.mem_cons_of_mem _ hm)) hi1 hsame1
    exact ⟨r', by rw [runJobs, hj]; exact hjs⟩

/-- a seed in a file of its own, or the target itself (with or without reflinks) -/
structure SeedGoodR (files : List Bytes) (s : Seed) : Prop where
  small : ∀ c ∈ s.chunks, Small c.start ∧ Small c.size
  contig : Contig s.chunks
  src : s.Static files ∨ s.src = .target

theorem plan_itemGood_regen {cf : Cfg} {e : Env} {files : List Bytes} {t : Bytes} {seeds : List Seed}
    (hact : cf.act = .regenerate)
    (hg : ∀ s ∈ seeds, SeedGoodR files s) (hv : validatePlan cf.H ⟨t, files⟩ (plan e seeds) = none)
    {it : PlanItem} (hm : it ∈ plan e seeds) :
    ItemOK e it ∧ (ItemGood cf e files it ∨ ItemAlias cf e t it) := by
  refine ⟨plan_itemOK e seeds (fun s hs => (hg s hs).small) it hm, ?_⟩
  have hnullpart : ∀ a b cr, it.source = .null a b cr →
      (∀ q, it.first ≤ q → q ≤ it.last → e.idOf q = e.nullID) ∧ a = segStart e it ∧ b = segEnd e it := by
    intro a b cr hs
    obtain ⟨_, hids, ha, hb⟩ := (plan_sources e seeds it hm).2.2 a b cr hs
    refine ⟨?_, ha, hb⟩
    intro q h1 h2
    have := hids (q - it.first) (by omega)
    rwa [show it.first + (q - it.first) = q by omega] at this
  cases hsrc : it.source with
  | store =>
    exact .inl ⟨fun k seg h => (by rw [hsrc] at h; cases h), fun a b cr h => (by rw [hsrc] at h; cases h)⟩
  | null a b cr =>
    exact .inl ⟨fun k seg h => (by rw [hsrc] at h; cases h), hnullpart⟩
  | file k seg =>
    obtain ⟨hlen, hids, s0, hk0, _, hcr0, _⟩ := (plan_sources e seeds it hm).2.1 k seg hsrc
    obtain ⟨s, hk, hssrc, p, n, hsub⟩ := plan_file_sub e seeds it hm k seg hsrc
    rw [hk] at hk0
    injection hk0 with hk0
    subst hk0
    have hsg := hg s (List.mem_of_getElem? hk)
    obtain ⟨_, hvalid⟩ := validatePlan_none_file hv hm hsrc
    have hcontig : Contig seg.chunks := by rw [hsub]; exact contig_drop_take hsg.contig p n
    rcases hsg.src with ⟨j, hj, hjlt⟩ | htgt
    · left
      refine ⟨?_, fun a b cr h => by rw [hsrc] at h; cases h⟩
      intro k' seg' h
      rw [hsrc] at h
      injection h with h1 h2
      subst h1; subst h2
      rw [hssrc, hj] at hvalid
      exact ⟨j, by rw [hssrc, hj], hjlt, hlen, hids, hcontig, hvalid⟩
    · right
      rw [hssrc, htgt] at hvalid
      exact ⟨hact, k, seg, hsrc, by rw [hssrc, htgt], hlen, hids, hcontig, hvalid⟩

/-- 3, extended.  With `regenerate` a seed may also be the target itself, with or without reflinks:
    a clone of overlapping ranges is refused by the file system, `WriteInto` then copies
    (`FSeg.writeInto_never_errs_after_size_check`), and whatever the copy leaves in the target, the
    chunks that do not hash to their IDs are fetched.  (Before `WriteInto` fell back to a copy the
    run failed with reflinks: see the example at the end.) -/
theorem assemble_complete_regenerate_alias {cf : Cfg} {e : Env} {blob : Bytes} {seeds : List Seed}
    {files : List Bytes} {prior : Option Bytes} (hwf : WFSeq cf e blob) (hst : StoreComplete cf e blob)
    (hnull : NullIsZeros cf e) (hb : cf.isBlank = isBlankOf prior) (hsm : SeedsSmall seeds)
    (hct : SeedsContiguous seeds)
    (hsrc : ∀ s ∈ seeds, s.Static files ∨ s.src = .target)
    (hact : cf.act = .regenerate)
    (hre : RechunkOK cf.H cf.rechunk) (hrs : RechunkSmall cf.rechunk) (hrc : RechunkContig cf.rechunk) :
    ∃ r, assemble cf e seeds files prior = some r ∧ r.fs.target = blob := by
  obtain ⟨p, k, hf⟩ : ∃ p k, findPlan cf.H cf.rechunk e (initFS e files prior) cf.act (seeds.length + 1) seeds =
      some (p, k) := by
    rw [hact]
    apply findPlan_regenerate_total cf.H cf.rechunk e (initFS e files prior) seeds hre
    intro s hs
    rcases hsrc s hs with h | h
    · exact static_exists h
    · rw [h]; rfl
  obtain ⟨seeds', rfl, hv, hg⟩ := findPlan_returns_inv (P := SeedGoodR files)
    (fun a h => ⟨h.small, h.contig, h.src⟩)
    (fun _ a k cs ha hcs => ⟨hrs k _ cs hcs, hrc k _ cs hcs, ha.src⟩)
    _ seeds p k (fun s hs => ⟨hsm s hs, hct s hs, hsrc s hs⟩) hf
  rw [assemble_of_findPlan hf]
  have hinv : Inv e blob files 0 { fs := initFS e files prior } := by
    refine ⟨⟨?_, fun p hp => absurd hp (Nat.not_lt_zero p)⟩, rfl, rfl⟩
    show (truncate (prior.getD []) (indexLength e.chunks)).length = blob.length
    rw [af_truncate_length, hwf.length_eq]
  have hitems : ∀ it ∈ plan e seeds', ItemOK e it ∧
      (ItemGood cf e files it ∨ ItemAlias cf e (initFS e files prior).target it) :=
    fun it hm => plan_itemGood_regen hact hg hv hm
  obtain ⟨r, hr⟩ := runJobs_total_regen hwf hst hnull (t0 := (initFS e files prior).target)
    (initFS_blank hwf hb) (plan e seeds') 0 { fs := initFS e files prior } (plan_partitions e seeds')
    hitems hinv (fun _ _ _ => rfl)
  have hfin := runJobs_inv hwf (plan e seeds') 0 _ r (plan_partitions e seeds')
    (fun it hm => (hitems it hm).1) hinv hr
  exact ⟨r, hr, done_all hwf hfin.done⟩

/-! ## the hypotheses are satisfiable -/

/-- re-chunking makes one chunk of a file (of a size that fits) -/
def ckRechunk : Nat → Bytes → Option (List IChunk) :=
  fun _ data => some (if data.length < 2^62 then mkChunks 0 [(data, data.length)] else [])

/-- the hash is the identity and the store holds everything -/
def ckCfg (act : Action) (isBlank : Bool) : Cfg :=
  { H := fun b => b, store := fun id => some id, ovl := fun _ _ _ _ => [],
    rechunk := ckRechunk, isBlank := isBlank, act := act }

theorem ck_rechunkOK : RechunkOK (fun b => b) ckRechunk := by
  intro _ data
  refine ⟨_, rfl, fun c hc => ?_⟩
  split at hc
  · simp only [mkChunks, List.mem_singleton] at hc
    subst hc
    exact ⟨data, by simp [readFull, readUpTo], rfl⟩
  · cases hc

theorem ck_rechunkSmall : RechunkSmall ckRechunk := by
  intro _ data cs h c hc
  injection h with h
  subst h
  split at hc
  · rename_i hlt
    simp only [mkChunks, List.mem_singleton] at hc
    subst hc
    exact ⟨by show (0 : Nat) < 2^62; decide, hlt⟩
  · cases hc

theorem ck_rechunkContig : RechunkContig ckRechunk := by
  intro _ data cs h i hi
  injection h with h
  subst h
  split at hi <;> simp [mkChunks] at hi

/-- with the identity as hash an index describes a blob if it tiles it and the IDs are the data -/
theorem ck_wf (act : Action) (ib : Bool) (e : Env) (blob : Bytes)
    (h0 : e.chunks ≠ [] → e.startOf 0 = 0)
    (hc : ∀ p : Nat, p + 1 < e.chunks.length → e.startOf (p + 1) = e.startOf p + e.sizeOf p)
    (hl : indexLength e.chunks = blob.length)
    (hids : ∀ p : Nat, p < e.chunks.length → e.idOf p = chunkData e blob p)
    (hbs : 0 < e.bs) (hs : Small blob.length ∧ Small e.bs) : WFSeq (ckCfg act ib) e blob where
  start0 := h0
  contiguous := hc
  length_eq := hl
  ids := hids
  collision_free := fun p hp b hb => by
    change b = _ at hb
    rw [hb, hids p hp]
  store_sound := fun p hp d hd => by
    change some (e.idOf p) = some d at hd
    injection hd with hd
    exact hd.symm
  bs_pos := hbs
  small := hs

theorem ck_store (act : Action) (ib : Bool) (e : Env) (blob : Bytes)
    (hids : ∀ p : Nat, p < e.chunks.length → e.idOf p = chunkData e blob p) :
    StoreComplete (ckCfg act ib) e blob := fun p hp => by
  change some (e.idOf p) = _
  rw [hids p hp]

/-- three chunks -/
def ckEnv : Env :=
  { chunks := mkChunks 0 [([1, 2], 2), ([3, 4], 2), ([5, 6], 2)],
    nullID := [0, 0, 0, 0], nullReflink := false, selfReflink := false, bs := 4096 }

def ckBlob : Bytes := [1, 2, 3, 4, 5, 6]

theorem ck_ids : ∀ p : Nat, p < ckEnv.chunks.length → ckEnv.idOf p = chunkData ckEnv ckBlob p := by
  decide

theorem ckEnv_wf (act : Action) (ib : Bool) : WFSeq (ckCfg act ib) ckEnv ckBlob :=
  ck_wf act ib ckEnv ckBlob (fun _ => rfl)
    (by
      intro p hp
      change p + 1 < 3 at hp
      have : p = 0 ∨ p = 1 := by omega
      rcases this with rfl | rfl <;> rfl)
    rfl ck_ids (by decide)
    (by unfold Small; exact ⟨by decide, by decide⟩)

theorem ck_null (act : Action) (ib : Bool) : NullIsZeros (ckCfg act ib) ckEnv := ⟨4, rfl⟩

/-- a seed that holds the second chunk behind an unrelated one -/
def ckSeeds : List Seed :=
  [{ src := .seed 0, chunks := mkChunks 0 [([9], 1), ([3, 4], 2)], canReflink := false }]

theorem ck_small : SeedsSmall ckSeeds := by
  intro s hs c hc
  simp only [ckSeeds, List.mem_singleton] at hs
  subst hs
  simp only [mkChunks, List.mem_cons, List.not_mem_nil, or_false] at hc
  unfold Small
  rcases hc with rfl | rfl <;> (constructor <;> simp)

theorem ck_contig : SeedsContiguous ckSeeds := by
  intro s hs
  simp only [ckSeeds, List.mem_singleton] at hs
  subst hs
  intro i hi
  have : i = 0 := by simp [mkChunks] at hi; omega
  subst this
  rfl

theorem ck_static (f : Bytes) : ∀ s ∈ ckSeeds, s.Static [f] := by
  intro s hs
  simp only [ckSeeds, List.mem_singleton] at hs
  subst hs
  exact ⟨0, rfl, Nat.zero_lt_one⟩

/-- 6 (for 2). The file of the seed has changed since it was indexed (`[9, 3, 5]`, not `[9, 3, 4]`).
    Bailing out fails; skipping succeeds, every chunk coming from the store (the target did not
    exist, so the in-place check is skipped); with the file unchanged the seed is used. -/
example :
    assemble (ckCfg .bailOut true) ckEnv ckSeeds [[9, 3, 5]] none = none ∧
    (assemble (ckCfg .skip true) ckEnv ckSeeds [[9, 3, 5]] none).map (fun r => (r.fs.target, r.stats)) =
      some (ckBlob, { fromStore := 3, inPlace := 0, fromSeed := 0, copied := 0, cloned := 0 }) ∧
    (assemble (ckCfg .skip true) ckEnv ckSeeds [[9, 3, 4]] none).map (fun r => (r.fs.target, r.stats)) =
      some (ckBlob, { fromStore := 2, inPlace := 0, fromSeed := 1, copied := 2, cloned := 0 }) := by
  decide

/-- `assemble_complete_skip` applies to the run with the stale seed -/
example : ∃ r, assemble (ckCfg .skip true) ckEnv ckSeeds [[9, 3, 5]] none = some r ∧ r.fs.target = ckBlob :=
  assemble_complete_skip (ckEnv_wf _ _) (ck_store _ _ _ _ ck_ids) (ck_null _ _) rfl ck_small ck_contig
    (ck_static _) rfl

/-- `assemble_complete_regenerate` applies to it as well -/
example : ∃ r, assemble (ckCfg .regenerate true) ckEnv ckSeeds [[9, 3, 5]] none = some r ∧ r.fs.target = ckBlob :=
  assemble_complete_regenerate (ckEnv_wf _ _) (ck_store _ _ _ _ ck_ids) (ck_null _ _) rfl ck_small ck_contig
    (ck_static _) rfl
    ck_rechunkOK ck_rechunkSmall ck_rechunkContig

/-- 6 (for 5). A crashed in-place extract left the first and the third chunk in place: the re-run
    fetches the second one only -/
example :
    (assemble (ckCfg .bailOut false) ckEnv [] [] (some [1, 2, 9, 9, 5, 6])).map (fun r => (r.fs.target, r.stats)) =
      some (ckBlob, { fromStore := 1, inPlace := 2, fromSeed := 0, copied := 0, cloned := 0 }) ∧
    ((List.range ckEnv.chunks.length).filter
      (fun p => readUpTo [1, 2, 9, 9, 5, 6] (ckEnv.startOf p) (ckEnv.sizeOf p) ≠ chunkData ckEnv ckBlob p)).length = 1 := by
  decide

/-- `inplace_resume` applies to it -/
example : ∃ r, assemble (ckCfg .bailOut false) ckEnv [] [] (some [1, 2, 9, 9, 5, 6]) = some r ∧
    r.fs.target = ckBlob ∧
    r.stats.fromStore ≤ ((List.range ckEnv.chunks.length).filter
      (fun p => readUpTo [1, 2, 9, 9, 5, 6] (ckEnv.startOf p) (ckEnv.sizeOf p) ≠ chunkData ckEnv ckBlob p)).length :=
  inplace_resume (ckEnv_wf _ _) (ck_store _ _ _ _ ck_ids) (ck_null _ _) rfl rfl (by decide)

/-! ## the additional hypotheses are needed -/

/-- `NullIsZeros`: the null ID is a free field of `Env`.  If it is the ID of a chunk that is not a
    run of zeros, the planner takes that chunk from the null seed, zeros are written, and the
    re-hash fails (with `regenerate` the chunk is then fetched). -/
example :
    let e := { ckEnv with nullID := [3, 4] }
    WFSeq (ckCfg .skip true) e ckBlob ∧ StoreComplete (ckCfg .skip true) e ckBlob ∧
    assemble (ckCfg .skip true) e [] [] none = none ∧
    (assemble (ckCfg .regenerate true) e [] [] none).map (fun r => r.fs.target) = some ckBlob := by
  refine ⟨?_, ck_store _ _ _ _ ck_ids, by decide, by decide⟩
  have := ckEnv_wf .skip true
  exact ⟨this.start0, this.contiguous, this.length_eq, this.ids, this.collision_free, this.store_sound,
    this.bs_pos, this.small⟩

/-- `blob ≠ []` in `inplace_resume`: an index with one chunk of size 0 describes the empty blob; the
    file a crashed run leaves is empty, so the target counts as blank, the in-place check is skipped
    and the chunk is fetched although its (no) bytes are in place.  (The chunker never produces a
    chunk of size 0; for an index without chunks see `assemble_empty`.) -/
example :
    let e := { ckEnv with chunks := mkChunks 0 [([], 0)] }
    WFSeq (ckCfg .bailOut true) e [] ∧ StoreComplete (ckCfg .bailOut true) e [] ∧
    (ckCfg .bailOut true).isBlank = isBlankOf (some []) ∧
    (assemble (ckCfg .bailOut true) e [] [] (some [])).map (fun r => (r.fs.target, r.stats.fromStore)) =
      some ([], 1) ∧
    ((List.range e.chunks.length).filter
      (fun p => readUpTo [] (e.startOf p) (e.sizeOf p) ≠ chunkData e [] p)).length = 0 := by
  have hids : ∀ p : Nat, p < ({ ckEnv with chunks := mkChunks 0 [([], 0)] } : Env).chunks.length →
      ({ ckEnv with chunks := mkChunks 0 [([], 0)] } : Env).idOf p =
        chunkData { ckEnv with chunks := mkChunks 0 [([], 0)] } [] p := by decide
  refine ⟨?_, ck_store _ _ _ _ hids, rfl, by decide, by decide⟩
  exact ck_wf _ _ _ _ (fun _ => rfl) (fun p hp => by change p + 1 < 1 at hp; omega) rfl hids (by decide)
    (by unfold Small; exact ⟨by decide, by decide⟩)

/-- a seed whose index has a gap: both chunks are in its file and hash to their IDs -/
def gapSeeds : List Seed :=
  [{ src := .seed 0, chunks := [⟨[3, 4], 0, 2⟩, ⟨[5, 6], 3, 2⟩], canReflink := false }]

/-- `SeedsContiguous`: the seed validates (bailing out succeeds as far as the plan is concerned),
    but the size of the segment, computed from the first start and the last end, is 5, not 4, and
    `WriteInto` refuses.  (`IndexFromReader` computes the starts from the ends of the preceding
    chunks, so that an index read from a file is always contiguous.) -/
example :
    (∀ s ∈ gapSeeds, s.Consistent (fun b => b) ⟨zeros 6, [[3, 4, 9, 5, 6]]⟩) ∧ SeedsSmall gapSeeds ∧
    (∀ s ∈ gapSeeds, s.Static [[3, 4, 9, 5, 6]]) ∧
    (plan ckEnv gapSeeds).map (fun it => it.first :: it.last :: it.source.code) = [[0, 0, 0], [1, 2, 1, 0, 0]] ∧
    validatePlan (fun b => b) ⟨zeros 6, [[3, 4, 9, 5, 6]]⟩ (plan ckEnv gapSeeds) = none ∧
    assemble (ckCfg .bailOut true) ckEnv gapSeeds [[3, 4, 9, 5, 6]] none = none ∧
    assemble (ckCfg .skip true) ckEnv gapSeeds [[3, 4, 9, 5, 6]] none = none ∧
    assemble (ckCfg .regenerate true) ckEnv gapSeeds [[3, 4, 9, 5, 6]] none = none := by
  refine ⟨?_, ?_, ?_, by decide, by decide, by decide, by decide, by decide⟩
  · intro s hs
    simp only [gapSeeds, List.mem_singleton] at hs
    subst hs
    refine ⟨rfl, ?_⟩
    intro c hc
    simp only [List.mem_cons, List.not_mem_nil, or_false] at hc
    rcases hc with rfl | rfl <;> exact ⟨_, rfl, rfl⟩
  · intro s hs c hc
    simp only [gapSeeds, List.mem_singleton] at hs
    subst hs
    simp only [List.mem_cons, List.not_mem_nil, or_false] at hc
    unfold Small
    rcases hc with rfl | rfl <;> (constructor <;> simp)
  · intro s hs
    simp only [gapSeeds, List.mem_singleton] at hs
    subst hs
    exact ⟨0, rfl, Nat.zero_lt_one⟩

/-- four chunks; the block size is 2 -/
def alEnv : Env :=
  { chunks := mkChunks 0 [([1, 2], 2), ([3, 4], 2), ([5, 6], 2), ([7, 8], 2)],
    nullID := [0, 0, 0, 0], nullReflink := false, selfReflink := false, bs := 2 }

def alBlob : Bytes := [1, 2, 3, 4, 5, 6, 7, 8]

theorem al_ids : ∀ p : Nat, p < alEnv.chunks.length → alEnv.idOf p = chunkData alEnv alBlob p := by
  decide

theorem alEnv_wf (act : Action) (ib : Bool) : WFSeq (ckCfg act ib) alEnv alBlob :=
  ck_wf act ib alEnv alBlob (fun _ => rfl)
    (by
      intro p hp
      change p + 1 < 4 at hp
      have : p = 0 ∨ p = 1 ∨ p = 2 := by omega
      rcases this with rfl | rfl | rfl <;> rfl)
    rfl al_ids (by decide) (by unfold Small; exact ⟨by decide, by decide⟩)

/-- what the target holds beforehand: the last three chunks, two bytes too far to the front -/
def alPrior : Bytes := [3, 4, 5, 6, 7, 8, 0, 0]

/-- the target itself given as a seed, with an index that is consistent with what it holds -/
def alSeeds (canReflink : Bool) : List Seed :=
  [{ src := .target, chunks := mkChunks 0 [([3, 4], 2), ([5, 6], 2), ([7, 8], 2)], canReflink := canReflink }]

theorem al_consistent (cr : Bool) : ∀ s ∈ alSeeds cr, s.Consistent (fun b => b)
    { target := truncate ((some alPrior).getD []) (indexLength alEnv.chunks), seeds := [] } := by
  intro s hs
  simp only [alSeeds, List.mem_singleton] at hs
  subst hs
  refine ⟨rfl, ?_⟩
  intro c hc
  simp only [mkChunks, List.mem_cons, List.not_mem_nil, or_false] at hc
  rcases hc with rfl | rfl | rfl <;> exact ⟨_, rfl, rfl⟩

theorem al_small (cr : Bool) : SeedsSmall (alSeeds cr) := by
  intro s hs c hc
  simp only [alSeeds, List.mem_singleton] at hs
  subst hs
  simp only [mkChunks, List.mem_cons, List.not_mem_nil, or_false] at hc
  unfold Small
  rcases hc with rfl | rfl | rfl <;> (constructor <;> simp)

theorem al_contig (cr : Bool) : SeedsContiguous (alSeeds cr) := by
  intro s hs
  simp only [alSeeds, List.mem_singleton] at hs
  subst hs
  intro i hi
  have : i = 0 ∨ i = 1 := by simp [mkChunks] at hi; omega
  rcases this with rfl | rfl <;> rfl

/-- `Static`: a seed that is the target itself.  Everything else holds: the store is complete and
    the seed is consistent (the plan validates: chunk 0 from the store, chunks 1 to 3 from bytes 0 to
    5 of the target, to be moved to bytes 2 to 7).
    * With reflinks source and destination are aligned, `clone` copies the head (bytes 0, 1 to
      2, 3) and asks for FICLONERANGE of overlapping ranges of one file, which is EINVAL.
      `WriteInto` then copies the whole range instead of returning the error (before that repair
      the run failed whatever the action, also with `regenerate`, because the error was returned
      before any chunk was re-hashed), and the run goes on as it does without reflinks.
    * Without reflinks the overlapping copy produces what it produces (here: nothing); the re-hash
      fails; only `regenerate` recovers, by fetching all four chunks. -/
example :
    WFSeq (ckCfg .regenerate false) alEnv alBlob ∧ StoreComplete (ckCfg .regenerate false) alEnv alBlob ∧
    NullIsZeros (ckCfg .regenerate false) alEnv ∧
    (ckCfg .regenerate false).isBlank = isBlankOf (some alPrior) ∧
    RechunkOK (fun b => b) ckRechunk ∧ RechunkSmall ckRechunk ∧ RechunkContig ckRechunk ∧
    (∀ cr, ∀ s ∈ alSeeds cr, s.Consistent (fun b => b)
      { target := truncate ((some alPrior).getD []) (indexLength alEnv.chunks), seeds := [] }) ∧
    (∀ cr, SeedsSmall (alSeeds cr)) ∧ (∀ cr, SeedsContiguous (alSeeds cr)) ∧
    (plan alEnv (alSeeds true)).map (fun it => it.first :: it.last :: it.source.code) = [[0, 0, 0], [1, 3, 1, 0, 0]] ∧
    FSeg.writeInto (ckCfg .regenerate false).ovl
        ⟨.target, mkChunks 0 [([3, 4], 2), ([5, 6], 2), ([7, 8], 2)], true⟩ ⟨alPrior, []⟩ 2 6 2 =
      .ok ⟨[3, 4, 3, 4, 7, 8, 0, 0], []⟩ 0 0 true ∧
    (assemble (ckCfg .regenerate false) alEnv (alSeeds true) [] (some alPrior)).map
        (fun r => (r.fs.target, r.stats)) =
      some (alBlob, { fromStore := 4, inPlace := 0, fromSeed := 3, copied := 0, cloned := 0 }) ∧
    assemble (ckCfg .skip false) alEnv (alSeeds true) [] (some alPrior) = none ∧
    assemble (ckCfg .bailOut false) alEnv (alSeeds true) [] (some alPrior) = none ∧
    assemble (ckCfg .skip false) alEnv (alSeeds false) [] (some alPrior) = none ∧
    assemble (ckCfg .bailOut false) alEnv (alSeeds false) [] (some alPrior) = none ∧
    (assemble (ckCfg .regenerate false) alEnv (alSeeds false) [] (some alPrior)).map
        (fun r => (r.fs.target, r.stats)) =
      some (alBlob, { fromStore := 4, inPlace := 0, fromSeed := 3, copied := 0, cloned := 0 }) :=
  ⟨alEnv_wf _ _, ck_store _ _ _ _ al_ids, ⟨4, rfl⟩, rfl, ck_rechunkOK, ck_rechunkSmall, ck_rechunkContig,
    al_consistent, al_small, al_contig, by decide, rfl, by decide, by decide, by decide,
    by decide, by decide, by decide⟩

/-- `assemble_complete_regenerate_alias` applies to the run with reflinks and to the one without -/
example (cr : Bool) : ∃ r, assemble (ckCfg .regenerate false) alEnv (alSeeds cr) [] (some alPrior) = some r ∧
    r.fs.target = alBlob :=
  assemble_complete_regenerate_alias (alEnv_wf _ _) (ck_store _ _ _ _ al_ids) ⟨4, rfl⟩ rfl (al_small _)
    (al_contig _)
    (fun s hs => by
      simp only [alSeeds, List.mem_singleton] at hs
      subst hs
      exact .inr rfl)
    rfl ck_rechunkOK ck_rechunkSmall ck_rechunkContig

/-- the aliased seed with reflinks under `regenerate`: the refused clone no longer fails the run,
    which ends with the exact blob -/
example :
    (assemble (ckCfg .regenerate false) alEnv (alSeeds true) [] (some alPrior)).map (fun r => r.fs.target) =
      some alBlob := by
  decide

end Desync.Asm
