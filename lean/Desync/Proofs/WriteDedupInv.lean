import Desync.Model.WriteDedup
import Desync.Proofs.DedupProofs

set_option linter.unusedSimpArgs false
set_option linter.unusedVariables false

namespace Desync.WDedup

open Desync.Dedup (mem_of_lookup not_mem_of_lookup lt_of_getElem?)

/-- the request a writer uses -/
def C.wreq : C → Option Nat
  | .wupstream r _ => some r
  | .wgot r _ _ => some r
  | .wpublished r _ _ => some r
  | .wfollower r => some r
  | .wreturned _ r => some r
  | _ => none

/-- the request a reader uses -/
def C.rreq : C → Option Nat
  | .rwait r => some r
  | .rreturned _ _ r => some r
  | _ => none

/-- the chunk data a live leader carries -/
def C.wdata : C → Option Nat
  | .wupstream _ d => some d
  | .wgot _ d _ => some d
  | .wpublished _ d _ => some d
  | _ => none

structure Inv (roles : List Role) (s : St) : Prop where
  len : s.callers.length = roles.length
  wstartid : ∀ (t id d : Nat), s.callers[t]? = some (C.wstart id d) → roles[t]? = some (Role.writer id d)
  rstartid : ∀ (t id : Nat), s.callers[t]? = some (C.rstart id) → roles[t]? = some (Role.reader id)
  wownid : ∀ (t : Nat) (c : C) (r : Nat), s.callers[t]? = some c → c.wreq = some r →
    ∃ (q : Req) (d : Nat), s.reqs[r]? = some q ∧ roles[t]? = some (Role.writer q.id d)
  rownid : ∀ (t : Nat) (c : C) (r : Nat), s.callers[t]? = some c → c.rreq = some r →
    ∃ q : Req, s.reqs[r]? = some q ∧ roles[t]? = some (Role.reader q.id)
  leaddata : ∀ (t : Nat) (c : C) (d : Nat), s.callers[t]? = some c → c.wdata = some d →
    ∃ id : Nat, roles[t]? = some (Role.writer id d)
  qkeys : ∀ (id r1 r2 : Nat), (id, r1) ∈ s.queue → (id, r2) ∈ s.queue → r1 = r2
  qreq : ∀ (id r : Nat), (id, r) ∈ s.queue → ∃ q : Req, s.reqs[r]? = some q ∧ q.id = id
  qlive : ∀ (id r : Nat), (id, r) ∈ s.queue → ∃ (t : Nat) (c : C), s.callers[t]? = some c ∧ c.wlead = some r
  liveq : ∀ (t : Nat) (c : C) (r : Nat), s.callers[t]? = some c → c.wlead = some r →
    ∃ q : Req, s.reqs[r]? = some q ∧ (q.id, r) ∈ s.queue
  liveuniq : ∀ (t1 t2 : Nat) (c1 c2 : C) (r : Nat), s.callers[t1]? = some c1 → s.callers[t2]? = some c2 →
    c1.wlead = some r → c2.wlead = some r → t1 = t2
  histlt : ∀ (r d e : Nat), (r, d, e) ∈ s.upHist → r < s.reqs.length
  histnoup : ∀ (r d e t d' : Nat), (r, d, e) ∈ s.upHist → s.callers[t]? ≠ some (C.wupstream r d')
  histuniq : ∀ (r d e d' e' : Nat), (r, d, e) ∈ s.upHist → (r, d', e') ∈ s.upHist → d = d' ∧ e = e'
  histrole : ∀ (r d e : Nat), (r, d, e) ∈ s.upHist →
    ∃ (tl : Nat) (q : Req), s.reqs[r]? = some q ∧ roles[tl]? = some (Role.writer q.id d)
  upnotdone : ∀ (t r d : Nat), s.callers[t]? = some (C.wupstream r d) →
    ∃ q : Req, s.reqs[r]? = some q ∧ q.done = false
  gothist : ∀ (t r d e : Nat), s.callers[t]? = some (C.wgot r d e) →
    (r, d, e) ∈ s.upHist ∧ ∃ q : Req, s.reqs[r]? = some q ∧ q.done = false
  pubdone : ∀ (t r d e : Nat), s.callers[t]? = some (C.wpublished r d e) →
    (r, d, e) ∈ s.upHist ∧ ∃ q : Req, s.reqs[r]? = some q ∧ q.done = true ∧ q.val = d ∧ q.err = e
  donehist : ∀ (r : Nat) (q : Req), s.reqs[r]? = some q → q.done = true → (r, q.val, q.err) ∈ s.upHist
  wretdone : ∀ (t r e : Nat), s.callers[t]? = some (C.wreturned e r) →
    ∃ q : Req, s.reqs[r]? = some q ∧ q.done = true ∧ q.err = e
  rretdone : ∀ (t r d e : Nat), s.callers[t]? = some (C.rreturned d e r) →
    ∃ q : Req, s.reqs[r]? = some q ∧ q.done = true ∧ q.val = d ∧ q.err = e
  notdone : ∀ (r : Nat) (q : Req), s.reqs[r]? = some q → q.done = false →
    ∃ t : Nat, (∃ d : Nat, s.callers[t]? = some (C.wupstream r d)) ∨
      ∃ d e : Nat, s.callers[t]? = some (C.wgot r d e)

theorem start_cases {o : Option Role} {c : C} (h : o.map Role.start = some c) :
    (∃ id d, o = some (.writer id d) ∧ c = .wstart id d) ∨ (∃ id, o = some (.reader id) ∧ c = .rstart id) := by
  cases o with
  | none => simp at h
  | some ro =>
    cases ro with
    | writer id d => left; exact ⟨id, d, rfl, by simpa [Role.start] using h.symm⟩
    | reader id => right; exact ⟨id, rfl, by simpa [Role.start] using h.symm⟩

theorem inv_init (roles : List Role) : Inv roles (St.init roles) := by
  have hs : ∀ (t : Nat) (c : C), (roles.map Role.start)[t]? = some c →
      (∃ id d, roles[t]? = some (.writer id d) ∧ c = .wstart id d) ∨
      (∃ id, roles[t]? = some (.reader id) ∧ c = .rstart id) := by
    intro t c h
    exact start_cases (by simpa using h)
  constructor <;> simp only [St.init, List.length_map, List.not_mem_nil, List.getElem?_nil] <;>
    grind [C.wreq, C.rreq, C.wdata, C.wlead]

/-! step inversion -/

theorem step_wcall_inv {s s' : St} {t : Nat} (h : step s (.wcall t) = some s') :
    ∃ id d, s.callers[t]? = some (.wstart id d) ∧
      ((∃ r, s.queue.lookup id = some r ∧ s' = setC s t (.wfollower r)) ∨
       (s.queue.lookup id = none ∧
        s' = { setC s t (.wupstream s.reqs.length d) with
                queue := (id, s.reqs.length) :: s.queue, reqs := s.reqs ++ [{ id }] })) := by
  simp only [step] at h
  split at h
  · rename_i id d hc
    refine ⟨id, d, hc, ?_⟩
    split at h
    · rename_i r hr
      exact .inl ⟨r, hr, by simpa using h.symm⟩
    · rename_i hr
      exact .inr ⟨hr, by simpa using h.symm⟩
  · simp at h

theorem step_wupRet_inv {s s' : St} {t e : Nat} (h : step s (.wupRet t e) = some s') :
    ∃ r d, s.callers[t]? = some (.wupstream r d) ∧
      s' = { setC s t (.wgot r d e) with upHist := (r, d, e) :: s.upHist } := by
  simp only [step] at h
  split at h
  · rename_i r d hc; exact ⟨r, d, hc, by simpa using h.symm⟩
  · simp at h

theorem step_wmarkDone_inv {s s' : St} {t : Nat} (h : step s (.wmarkDone t) = some s') :
    ∃ r d e, s.callers[t]? = some (.wgot r d e) ∧
      s' = { setC s t (.wpublished r d e) with
              reqs := s.reqs.modify r fun q => { q with done := true, val := d, err := e } } := by
  simp only [step] at h
  split at h
  · rename_i r d e hc; exact ⟨r, d, e, hc, by simpa using h.symm⟩
  · simp at h

theorem step_wdelete_inv {s s' : St} {t : Nat} (h : step s (.wdelete t) = some s') :
    ∃ r d e, s.callers[t]? = some (.wpublished r d e) ∧
      s' = { setC s t (.wreturned e r) with
              queue := s.queue.filter (·.1 ≠ (s.reqs.getD r { id := 0 }).id) } := by
  simp only [step] at h
  split at h
  · rename_i r d e hc; exact ⟨r, d, e, hc, by simpa using h.symm⟩
  · simp at h

theorem step_wwake_inv {s s' : St} {t : Nat} (h : step s (.wwake t) = some s') :
    ∃ r q, s.callers[t]? = some (.wfollower r) ∧ s.reqs[r]? = some q ∧ q.done = true ∧
      s' = setC s t (.wreturned q.err r) := by
  simp only [step] at h
  split at h
  · rename_i r hc
    split at h
    · rename_i q hq
      split at h
      · rename_i hd; exact ⟨r, q, hc, hq, hd, by simpa using h.symm⟩
      · simp at h
    · simp at h
  · simp at h

theorem step_rpeek_inv {s s' : St} {t : Nat} (h : step s (.rpeek t) = some s') :
    ∃ id, s.callers[t]? = some (.rstart id) ∧
      ((∃ r, s.queue.lookup id = some r ∧ s' = setC s t (.rwait r)) ∨
       (s.queue.lookup id = none ∧ s' = setC s t (.rpass id))) := by
  simp only [step] at h
  split at h
  · rename_i id hc
    refine ⟨id, hc, ?_⟩
    split at h
    · rename_i r hr
      exact .inl ⟨r, hr, by simpa using h.symm⟩
    · rename_i hr
      exact .inr ⟨hr, by simpa using h.symm⟩
  · simp at h

theorem step_rwake_inv {s s' : St} {t : Nat} (h : step s (.rwake t) = some s') :
    ∃ r q, s.callers[t]? = some (.rwait r) ∧ s.reqs[r]? = some q ∧ q.done = true ∧
      s' = setC s t (.rreturned q.val q.err r) := by
  simp only [step] at h
  split at h
  · rename_i r hc
    split at h
    · rename_i q hq
      split at h
      · rename_i hd; exact ⟨r, q, hc, hq, hd, by simpa using h.symm⟩
      · simp at h
    · simp at h
  · simp at h

macro "inv_simp" : tactic => `(tactic|
  simp only [setC, List.length_set, List.getElem?_set, List.mem_cons, Prod.mk.injEq,
    List.length_modify, List.length_append, List.mem_filter])

macro "inv_auto" : tactic => `(tactic|
  (inv_simp; first | assumption | grind [C.wreq, C.rreq, C.wdata, C.wlead]))

theorem append_old {l : List Req} {x : Req} {r : Nat} {q : Req} (h : l[r]? = some q) :
    (l ++ [x])[r]? = some q := by
  have := lt_of_getElem? h
  rw [List.getElem?_append_left this]; exact h

theorem append_new {l : List Req} {x : Req} : (l ++ [x])[l.length]? = some x := by simp

theorem Inv.lead_unique {roles s} (hi : Inv roles s) {t : Nat} {c : C} (hc : s.callers[t]? = some c)
    {r : Nat} (hl : c.wlead = some r) :
    (∀ t' d', s.callers[t']? = some (C.wupstream r d') → t = t') ∧
    (∀ t' d' e', s.callers[t']? = some (C.wgot r d' e') → t = t') ∧
    (∀ t' d' e', s.callers[t']? = some (C.wpublished r d' e') → t = t') :=
  ⟨fun t' _ h => hi.liveuniq t t' _ _ r hc h hl rfl, fun t' _ _ h => hi.liveuniq t t' _ _ r hc h hl rfl,
   fun t' _ _ h => hi.liveuniq t t' _ _ r hc h hl rfl⟩

end Desync.WDedup
