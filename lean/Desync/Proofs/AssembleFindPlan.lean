/-
  The validate / skip / regenerate loop of `AssembleFile` (`Desync.Asm.findPlan`): a plan over
  consistent seeds validates, the seed blamed by a failed validation really is inconsistent, the
  plan returned is validated, and the loop ends within `seeds.length + 1` attempts for the skip and
  the regenerate action.
-/
import Desync.Proofs.AssemblePlan
import Desync.Proofs.AsmFile

namespace Desync.Asm

/-- every chunk of the seed's index is present in the seed's file and hashes to its ID -/
def Seed.Consistent (H : Bytes → Bytes) (fs : FS) (s : Seed) : Prop :=
  fs.exists s.src = true ∧ ∀ c ∈ s.chunks, ∃ b, readFull (fs.read s.src) c.start c.size = some b ∧ H b = c.id

/-- a seed that can (still) make validation fail: not marked invalid and not consistent -/
def Seed.Bad (H : Bytes → Bytes) (fs : FS) (s : Seed) : Prop := s.invalid = false ∧ ¬ s.Consistent H fs

/-! ## lists related position by position -/

inductive PW {α : Type} (R : α → α → Prop) : List α → List α → Prop
  | nil : PW R [] []
  | cons {a b : α} {l l' : List α} : R a b → PW R l l' → PW R (a :: l) (b :: l')

theorem PW.length_eq {α : Type} {R : α → α → Prop} {l l' : List α} (h : PW R l l') : l'.length = l.length := by
  induction h with
  | nil => rfl
  | cons _ _ ih => simp [ih]

theorem PW.refl {α : Type} {R : α → α → Prop} (hr : ∀ a, R a a) (l : List α) : PW R l l := by
  induction l with
  | nil => exact .nil
  | cons a l ih => exact .cons (hr a) ih

theorem PW.mono {α : Type} {R S : α → α → Prop} {l l' : List α} (h : PW R l l') (hi : ∀ a b, R a b → S a b) :
    PW S l l' := by
  induction h with
  | nil => exact .nil
  | cons hab _ ih => exact .cons (hi _ _ hab) ih

theorem PW.comp {α : Type} {R S T : α → α → Prop} {l l' l'' : List α} (h1 : PW R l l') (h2 : PW S l' l'')
    (ht : ∀ a b c, R a b → S b c → T a c) : PW T l l'' := by
  induction h1 generalizing l'' with
  | nil => cases h2; exact .nil
  | cons hab _ ih =>
    cases h2 with
    | cons hbc h2' => exact .cons (ht _ _ _ hab hbc) (ih h2')

theorem PW.forall_mem {α : Type} {R : α → α → Prop} {Q Q' : α → Prop} {l l' : List α} (h : PW R l l')
    (hq : ∀ a b, R a b → Q a → Q' b) (ha : ∀ a ∈ l, Q a) : ∀ b ∈ l', Q' b := by
  induction h with
  | nil => intro b hb; cases hb
  | cons hab _ ih =>
    intro b hb
    rcases List.mem_cons.mp hb with rfl | hb
    · exact hq _ _ hab (ha _ List.mem_cons_self)
    · exact ih (fun a h => ha a (List.mem_cons_of_mem _ h)) b hb

theorem PW.getElem? {α : Type} {R : α → α → Prop} {l l' : List α} (h : PW R l l') {k : Nat} {a : α}
    (hk : l[k]? = some a) : ∃ b, l'[k]? = some b ∧ R a b := by
  induction h generalizing k with
  | nil => simp at hk
  | cons hab _ ih =>
    cases k with
    | zero =>
      simp only [List.getElem?_cons_zero, Option.some.injEq] at hk
      subst hk
      exact ⟨_, by simp, hab⟩
    | succ k =>
      simp only [List.getElem?_cons_succ] at hk ⊢
      exact ih hk

theorem PW.countP_le {α : Type} {R : α → α → Prop} (p : α → Bool) {l l' : List α} (h : PW R l l')
    (hm : ∀ a b, R a b → p b = true → p a = true) : l'.countP p ≤ l.countP p := by
  induction h with
  | nil => exact Nat.le_refl _
  | @cons a b l l' hab _ ih =>
    simp only [List.countP_cons]
    have := hm a b hab
    cases hb : p b <;> cases ha : p a <;> simp_all <;> omega

theorem PW.countP_lt {α : Type} {R : α → α → Prop} (p : α → Bool) {l l' : List α} (h : PW R l l')
    (hm : ∀ a b, R a b → p b = true → p a = true) {k : Nat} {a b : α}
    (hk : l[k]? = some a) (hk' : l'[k]? = some b) (hpa : p a = true) (hpb : p b = false) :
    l'.countP p < l.countP p := by
  induction h generalizing k with
  | nil => simp at hk
  | @cons a0 b0 l l' hab hrest ih =>
    simp only [List.countP_cons]
    cases k with
    | zero =>
      simp only [List.getElem?_cons_zero, Option.some.injEq] at hk hk'
      subst hk; subst hk'
      have := PW.countP_le p hrest hm
      simp only [hpa, hpb, if_true, Bool.false_eq_true, if_false]
      omega
    | succ k =>
      simp only [List.getElem?_cons_succ] at hk hk'
      have h1 := ih hk hk'
      have h2 := hm a0 b0 hab
      cases hb : p b0 <;> cases ha : p a0 <;> simp_all <;> omega

/-! ## what the planner uses of a file seed -/

/-- a file item of a plan comes from a seed not marked invalid; the segment reads that seed's file
    and consists of chunks of that seed's index -/
def FileOK (seeds : List Seed) : Source → Prop
  | .file k seg =>
    ∃ s, seeds[k]? = some s ∧ s.invalid = false ∧ seg.src = s.src ∧ ∀ c ∈ seg.chunks, c ∈ s.chunks
  | _ => True

theorem nextAcc0_fileOK (e : Env) (seeds : List Seed) (cur : Nat) : FileOK seeds (nextAcc0 e cur).2.1 := by
  unfold nextAcc0
  generalize hr : nullLongestMatch e.nullID e.nullReflink (e.chunks.drop cur) = r
  obtain ⟨n, src⟩ := r
  split
  · show FileOK seeds src
    rcases nullLongestMatch_spec _ _ _ _ _ hr with ⟨_, h⟩ | ⟨_, _, _, h⟩ <;> subst h <;> trivial
  · trivial

theorem next_fileOK (e : Env) (seeds : List Seed) (cur : Nat) : FileOK seeds (next e seeds cur).1.source := by
  rw [next_eq]
  show FileOK seeds (pickSeeds (e.chunks.drop cur) seeds 0 (nextAcc0 e cur)).2.1
  apply pickSeeds_inv (fun _ src => FileOK seeds src)
  · exact nextAcc0_fileOK e seeds cur
  · intro j s n seg hj hm
    obtain ⟨_, _, _, h4, _, h6, ⟨p, hp, _⟩, _⟩ := s.longestMatch_some _ n seg hm
    refine ⟨s, by simpa using hj, h6, h4, ?_⟩
    intro c hc
    rw [hp] at hc
    exact List.mem_of_mem_drop (List.mem_of_mem_take hc)

theorem plan_fileOK (e : Env) (seeds : List Seed) (it : PlanItem) (hm : it ∈ plan e seeds) :
    FileOK seeds it.source := by
  obtain ⟨c, _, rfl⟩ := plan_mem e seeds it hm
  exact next_fileOK e seeds c

theorem plan_file (e : Env) (seeds : List Seed) (it : PlanItem) (hm : it ∈ plan e seeds) (k : Nat) (seg : FSeg)
    (hs : it.source = .file k seg) :
    ∃ s, seeds[k]? = some s ∧ s.invalid = false ∧ seg.src = s.src ∧ ∀ c ∈ seg.chunks, c ∈ s.chunks := by
  have := plan_fileOK e seeds it hm
  rw [hs] at this
  exact this

/-! ## validation -/

theorem FSeg.validate_of_consistent (H : Bytes → Bytes) (fs : FS) (s : Seed) (seg : FSeg)
    (hc : s.Consistent H fs) (hsrc : seg.src = s.src) (hsub : ∀ c ∈ seg.chunks, c ∈ s.chunks) :
    seg.validate H fs = true := by
  unfold FSeg.validate
  rw [List.all_eq_true]
  intro c hcm
  obtain ⟨b, hb, hH⟩ := hc.2 c (hsub c hcm)
  rw [hsrc, hb]
  simpa using hH

theorem firstUnopenable_none (fs : FS) (p : List PlanItem)
    (h : ∀ it ∈ p, ∀ k seg, it.source = .file k seg → fs.exists seg.src = true) : firstUnopenable fs p = none := by
  induction p with
  | nil => rfl
  | cons it rest ih =>
    have ih' := ih (fun it' h' => h it' (List.mem_cons_of_mem _ h'))
    simp only [firstUnopenable]
    split
    · rename_i k seg hs
      rw [if_pos (h it List.mem_cons_self k seg hs)]
      exact ih'
    · exact ih'

theorem firstUnopenable_some (fs : FS) (p : List PlanItem) (k : Nat) (h : firstUnopenable fs p = some k) :
    ∃ it ∈ p, ∃ seg, it.source = .file k seg ∧ fs.exists seg.src = false := by
  induction p with
  | nil => simp [firstUnopenable] at h
  | cons it rest ih =>
    simp only [firstUnopenable] at h
    split at h
    · rename_i k' seg hs
      split at h
      · obtain ⟨it', hm, r⟩ := ih h
        exact ⟨it', List.mem_cons_of_mem _ hm, r⟩
      · rename_i hex
        simp only [Option.some.injEq] at h
        subst h
        exact ⟨it, List.mem_cons_self, seg, hs, by simpa using hex⟩
    · obtain ⟨it', hm, r⟩ := ih h
      exact ⟨it', List.mem_cons_of_mem _ hm, r⟩

theorem validateChunks_none (H : Bytes → Bytes) (fs : FS) (p : List PlanItem)
    (h : ∀ it ∈ p, ∀ k seg, it.source = .file k seg → seg.validate H fs = true) : validateChunks H fs p = none := by
  induction p with
  | nil => rfl
  | cons it rest ih =>
    have ih' := ih (fun it' h' => h it' (List.mem_cons_of_mem _ h'))
    simp only [validateChunks]
    split
    · rename_i k seg hs
      rw [if_pos (h it List.mem_cons_self k seg hs)]
      exact ih'
    · exact ih'

theorem validateChunks_some (H : Bytes → Bytes) (fs : FS) (p : List PlanItem) (k : Nat)
    (h : validateChunks H fs p = some k) :
    ∃ it ∈ p, ∃ seg, it.source = .file k seg ∧ seg.validate H fs = false := by
  induction p with
  | nil => simp [validateChunks] at h
  | cons it rest ih =>
    simp only [validateChunks] at h
    split at h
    · rename_i k' seg hs
      split at h
      · obtain ⟨it', hm, r⟩ := ih h
        exact ⟨it', List.mem_cons_of_mem _ hm, r⟩
      · rename_i hv
        simp only [Option.some.injEq] at h
        subst h
        exact ⟨it, List.mem_cons_self, seg, hs, by simpa using hv⟩
    · obtain ⟨it', hm, r⟩ := ih h
      exact ⟨it', List.mem_cons_of_mem _ hm, r⟩

/-- 1. a plan over seeds that are consistent (unless marked invalid) validates -/
theorem validatePlan_consistent (H : Bytes → Bytes) (e : Env) (fs : FS) (seeds : List Seed)
    (hc : ∀ s ∈ seeds, s.invalid = false → s.Consistent H fs) : validatePlan H fs (plan e seeds) = none := by
  have key : ∀ it ∈ plan e seeds, ∀ k seg, it.source = .file k seg →
      fs.exists seg.src = true ∧ seg.validate H fs = true := by
    intro it hm k seg hs
    obtain ⟨s, hk, hinv, hsrc, hsub⟩ := plan_file e seeds it hm k seg hs
    have hcs := hc s (List.mem_of_getElem? hk) hinv
    exact ⟨by rw [hsrc]; exact hcs.1, FSeg.validate_of_consistent H fs s seg hcs hsrc hsub⟩
  unfold validatePlan
  rw [firstUnopenable_none fs _ (fun it hm k seg hs => (key it hm k seg hs).1)]
  exact validateChunks_none H fs _ (fun it hm k seg hs => (key it hm k seg hs).2)

/-- 1, corollary: with consistent seeds the first plan is accepted whatever the action -/
theorem findPlan_consistent (H : Bytes → Bytes) (rechunk : Nat → Bytes → Option (List IChunk)) (e : Env) (fs : FS)
    (act : Action) (fuel : Nat) (seeds : List Seed) (hf : 1 ≤ fuel)
    (hc : ∀ s ∈ seeds, s.invalid = false → s.Consistent H fs) :
    findPlan H rechunk e fs act fuel seeds = some (plan e seeds, fuel - 1) := by
  cases fuel with
  | zero => omega
  | succ n =>
    unfold findPlan
    simp only [validatePlan_consistent H e fs seeds hc]
    rfl

/-- 2. the seed blamed by a failed validation was in use and is inconsistent -/
theorem validatePlan_some_bad (H : Bytes → Bytes) (e : Env) (fs : FS) (seeds : List Seed) (k : Nat)
    (h : validatePlan H fs (plan e seeds) = some k) : ∃ s, seeds[k]? = some s ∧ s.Bad H fs := by
  unfold validatePlan at h
  split at h
  · rename_i k' hu
    simp only [Option.some.injEq] at h
    subst h
    obtain ⟨it, hm, seg, hs, hex⟩ := firstUnopenable_some fs _ _ hu
    obtain ⟨s, hk, hinv, hsrc, _⟩ := plan_file e seeds it hm _ seg hs
    refine ⟨s, hk, hinv, ?_⟩
    intro hcs
    rw [hsrc, hcs.1] at hex
    exact Bool.noConfusion hex
  · obtain ⟨it, hm, seg, hs, hv⟩ := validateChunks_some H fs _ _ h
    obtain ⟨s, hk, hinv, hsrc, hsub⟩ := plan_file e seeds it hm _ seg hs
    refine ⟨s, hk, hinv, ?_⟩
    intro hcs
    rw [FSeg.validate_of_consistent H fs s seg hcs hsrc hsub] at hv
    exact Bool.noConfusion hv

/-- 2, detail: what exactly is wrong with the blamed seed -/
theorem validatePlan_some_reason (H : Bytes → Bytes) (e : Env) (fs : FS) (seeds : List Seed) (k : Nat)
    (h : validatePlan H fs (plan e seeds) = some k) :
    ∃ s, seeds[k]? = some s ∧ s.invalid = false ∧
      (fs.exists s.src = false ∨
        ∃ c ∈ s.chunks, ∀ b, readFull (fs.read s.src) c.start c.size = some b → H b ≠ c.id) := by
  obtain ⟨s, hk, hinv, hnc⟩ := validatePlan_some_bad H e fs seeds k h
  refine ⟨s, hk, hinv, ?_⟩
  cases hex : fs.exists s.src with
  | false => exact .inl rfl
  | true =>
    right
    apply Classical.byContradiction
    intro hno
    apply hnc
    refine ⟨hex, ?_⟩
    intro c hc
    apply Classical.byContradiction
    intro hnb
    apply hno
    refine ⟨c, hc, ?_⟩
    intro b hb hH
    exact hnb ⟨b, hb, hH⟩

/-! ## marking a seed invalid, regenerating -/

/-- a seed is left alone or marked invalid -/
def MarkRel (a b : Seed) : Prop := b = a ∨ b = { a with invalid := true }

theorem setInvalid_pw (seeds : List Seed) (k : Nat) : PW MarkRel seeds (setInvalid seeds k) := by
  unfold setInvalid
  induction seeds generalizing k with
  | nil => simp only [List.modify_nil]; exact .nil
  | cons s ss ih =>
    cases k with
    | zero =>
      rw [List.modify_zero_cons]
      exact .cons (.inr rfl) (PW.refl (fun a => .inl rfl) ss)
    | succ k =>
      rw [List.modify_succ_cons]
      exact .cons (.inl rfl) (ih k)

theorem setInvalid_length (seeds : List Seed) (k : Nat) : (setInvalid seeds k).length = seeds.length := by
  simp [setInvalid]

theorem setInvalid_getElem? (seeds : List Seed) (k : Nat) (s : Seed) (h : seeds[k]? = some s) :
    (setInvalid seeds k)[k]? = some { s with invalid := true } := by
  simp [setInvalid, h]

theorem MarkRel.trans {a b c : Seed} (h1 : MarkRel a b) (h2 : MarkRel b c) : MarkRel a c := by
  rcases h1 with rfl | rfl <;> rcases h2 with rfl | rfl
  · exact .inl rfl
  · exact .inr rfl
  · exact .inr rfl
  · exact .inr rfl

/-- what `regenerate` does to one seed -/
def RegRel (rechunk : Nat → Bytes → Option (List IChunk)) (fs : FS) (a b : Seed) : Prop :=
  (a.invalid = false ∧ b = a) ∨
  (a.invalid = true ∧ fs.exists a.src = true ∧
    ∃ k cs, rechunk k (fs.read a.src) = some cs ∧ b = { a with chunks := cs, invalid := false })

theorem regenerate_pw (rechunk : Nat → Bytes → Option (List IChunk)) (fs : FS) (l : List Seed) (j : Nat)
    (l' : List Seed) (h : regenerate rechunk fs l j = some l') : PW (RegRel rechunk fs) l l' := by
  induction l generalizing j l' with
  | nil =>
    simp only [regenerate, Option.some.injEq] at h
    subst h
    exact .nil
  | cons s ss ih =>
    simp only [regenerate] at h
    split at h
    · rename_i hinv
      split at h
      · cases h
      · rename_i cs hcs
        cases hr : regenerate rechunk fs ss (j + 1) with
        | none => rw [hr] at h; simp at h
        | some t =>
          rw [hr] at h
          simp only [Option.map_some, Option.some.injEq] at h
          subst h
          split at hcs
          · rename_i hex
            exact .cons (.inr ⟨hinv, hex, j, cs, hcs, rfl⟩) (ih _ _ hr)
          · cases hcs
    · rename_i hinv
      cases hr : regenerate rechunk fs ss (j + 1) with
      | none => rw [hr] at h; simp at h
      | some t =>
        rw [hr] at h
        simp only [Option.map_some, Option.some.injEq] at h
        subst h
        exact .cons (.inl ⟨by simpa using hinv, rfl⟩) (ih _ _ hr)

theorem regenerate_isSome (rechunk : Nat → Bytes → Option (List IChunk)) (fs : FS) (l : List Seed) (j : Nat)
    (hre : ∀ k data, ∃ cs, rechunk k data = some cs) (hex : ∀ s ∈ l, fs.exists s.src = true) :
    ∃ l', regenerate rechunk fs l j = some l' := by
  induction l generalizing j with
  | nil => exact ⟨[], rfl⟩
  | cons s ss ih =>
    obtain ⟨t, ht⟩ := ih (j + 1) (fun s' h' => hex s' (List.mem_cons_of_mem _ h'))
    obtain ⟨cs, hcs⟩ := hre j (fs.read s.src)
    simp only [regenerate, hex s List.mem_cons_self, if_true, hcs, ht, Option.map_some]
    split
    · exact ⟨_, rfl⟩
    · exact ⟨_, rfl⟩

theorem MarkRel.src {a b : Seed} (h : MarkRel a b) : b.src = a.src := by
  rcases h with rfl | rfl <;> rfl

theorem RegRel.src {rechunk : Nat → Bytes → Option (List IChunk)} {fs : FS} {a b : Seed}
    (h : RegRel rechunk fs a b) : b.src = a.src := by
  rcases h with ⟨_, rfl⟩ | ⟨_, _, _, _, _, rfl⟩ <;> rfl

theorem MarkRel.bad {H : Bytes → Bytes} {fs : FS} {a b : Seed} (h : MarkRel a b) (hb : b.Bad H fs) : a.Bad H fs := by
  rcases h with rfl | rfl
  · exact hb
  · exact Bool.noConfusion hb.1

/-- `rechunk` yields an index that is consistent with the file it was made from -/
def RechunkOK (H : Bytes → Bytes) (rechunk : Nat → Bytes → Option (List IChunk)) : Prop :=
  ∀ k data, ∃ cs, rechunk k data = some cs ∧
    ∀ c ∈ cs, ∃ b, readFull data c.start c.size = some b ∧ H b = c.id

theorem RegRel.consistent {H : Bytes → Bytes} {rechunk : Nat → Bytes → Option (List IChunk)} {fs : FS} {a b : Seed}
    (hre : RechunkOK H rechunk) (h : RegRel rechunk fs a b) (ha : a.invalid = true) : b.Consistent H fs := by
  rcases h with ⟨h0, _⟩ | ⟨_, hex, k, cs, hcs, rfl⟩
  · rw [ha] at h0; exact Bool.noConfusion h0
  · obtain ⟨cs', hcs', hok⟩ := hre k (fs.read a.src)
    rw [hcs] at hcs'
    simp only [Option.some.injEq] at hcs'
    subst hcs'
    exact ⟨hex, hok⟩

theorem RegRel.bad {H : Bytes → Bytes} {rechunk : Nat → Bytes → Option (List IChunk)} {fs : FS} {a b : Seed}
    (hre : RechunkOK H rechunk) (h : RegRel rechunk fs a b) (hb : b.Bad H fs) : a.Bad H fs := by
  cases ha : a.invalid with
  | true => exact absurd (h.consistent hre ha) hb.2
  | false =>
    rcases h with ⟨_, rfl⟩ | ⟨h1, _⟩
    · exact hb
    · rw [ha] at h1; exact Bool.noConfusion h1

/-- after `regenerate` no seed is marked invalid -/
theorem RegRel.valid {rechunk : Nat → Bytes → Option (List IChunk)} {fs : FS} {a b : Seed}
    (h : RegRel rechunk fs a b) : b.invalid = false := by
  rcases h with ⟨h0, rfl⟩ | ⟨_, _, _, _, _, rfl⟩
  · exact h0
  · rfl

/-! ## the measure: seeds that can still make validation fail -/

section
open Classical

/-- number of seeds that are `Bad` -/
noncomputable def badCount (H : Bytes → Bytes) (fs : FS) (seeds : List Seed) : Nat :=
  seeds.countP fun s => decide (s.Bad H fs)

theorem badCount_le_length (H : Bytes → Bytes) (fs : FS) (seeds : List Seed) :
    badCount H fs seeds ≤ seeds.length := List.countP_le_length

/-- the seeds not marked invalid -/
def validCount (seeds : List Seed) : Nat := seeds.countP fun s => !s.invalid

theorem validCount_le_length (seeds : List Seed) : validCount seeds ≤ seeds.length := List.countP_le_length

theorem badCount_le_validCount (H : Bytes → Bytes) (fs : FS) (seeds : List Seed) :
    badCount H fs seeds ≤ validCount seeds := by
  unfold badCount validCount
  apply List.countP_mono_left
  intro s _ hs
  have := (of_decide_eq_true hs).1
  simp [this]

/-- marking a bad seed invalid: one bad seed less -/
theorem badCount_setInvalid (H : Bytes → Bytes) (fs : FS) (seeds : List Seed) (k : Nat) (s : Seed)
    (hk : seeds[k]? = some s) (hb : s.Bad H fs) : badCount H fs (setInvalid seeds k) < badCount H fs seeds := by
  unfold badCount
  apply PW.countP_lt _ (setInvalid_pw seeds k) _ hk (setInvalid_getElem? seeds k s hk)
  · exact decide_eq_true hb
  · apply decide_eq_false
    intro h
    exact Bool.noConfusion h.1
  · intro a b hab h
    exact decide_eq_true (hab.bad (of_decide_eq_true h))

/-- marking a seed in use invalid: one usable seed less -/
theorem validCount_setInvalid (seeds : List Seed) (k : Nat) (s : Seed)
    (hk : seeds[k]? = some s) (hv : s.invalid = false) : validCount (setInvalid seeds k) < validCount seeds := by
  unfold validCount
  apply PW.countP_lt _ (setInvalid_pw seeds k) _ hk (setInvalid_getElem? seeds k s hk)
  · simp [hv]
  · rfl
  · intro a b hab h
    rcases hab with rfl | rfl
    · exact h
    · simp at h

theorem badCount_regenerate (H : Bytes → Bytes) (rechunk : Nat → Bytes → Option (List IChunk)) (fs : FS)
    (hre : RechunkOK H rechunk) (l l' : List Seed) (j : Nat) (h : regenerate rechunk fs l j = some l') :
    badCount H fs l' ≤ badCount H fs l := by
  unfold badCount
  apply PW.countP_le _ (regenerate_pw rechunk fs l j l' h)
  intro a b hab hb
  exact decide_eq_true (hab.bad hre (of_decide_eq_true hb))

theorem validatePlan_badCount_zero (H : Bytes → Bytes) (e : Env) (fs : FS) (seeds : List Seed)
    (h : badCount H fs seeds = 0) : validatePlan H fs (plan e seeds) = none := by
  cases hv : validatePlan H fs (plan e seeds) with
  | none => rfl
  | some k =>
    obtain ⟨s, hk, hb⟩ := validatePlan_some_bad H e fs seeds k hv
    unfold badCount at h
    rw [List.countP_eq_zero] at h
    have := h s (List.mem_of_getElem? hk)
    exact absurd (decide_eq_true hb) this

end

/-! ## the loop -/

theorem findPlan_succ (H : Bytes → Bytes) (rechunk : Nat → Bytes → Option (List IChunk)) (e : Env) (fs : FS)
    (act : Action) (fuel : Nat) (seeds : List Seed) :
    findPlan H rechunk e fs act (fuel + 1) seeds =
      match validatePlan H fs (plan e seeds) with
      | none => some (plan e seeds, fuel)
      | some k =>
        match act with
        | .bailOut => none
        | .skip => findPlan H rechunk e fs act fuel (setInvalid seeds k)
        | .regenerate =>
          match regenerate rechunk fs (setInvalid seeds k) 0 with
          | none => none
          | some seeds'' => findPlan H rechunk e fs act fuel seeds'' := rfl

/-- 3 (any action): the plan returned is the plan of some list of as many seeds, and it validates;
    fewer attempts remain than were allowed -/
theorem findPlan_returns_valid (H : Bytes → Bytes) (rechunk : Nat → Bytes → Option (List IChunk)) (e : Env) (fs : FS)
    (act : Action) (fuel : Nat) (seeds : List Seed) (p : List PlanItem) (k : Nat)
    (h : findPlan H rechunk e fs act fuel seeds = some (p, k)) :
    ∃ seeds', p = plan e seeds' ∧ validatePlan H fs p = none ∧ seeds'.length = seeds.length ∧ k < fuel := by
  induction fuel generalizing seeds with
  | zero => simp [findPlan] at h
  | succ fuel ih =>
    rw [findPlan_succ] at h
    split at h
    · rename_i hv
      simp only [Option.some.injEq, Prod.mk.injEq] at h
      obtain ⟨rfl, rfl⟩ := h
      exact ⟨seeds, rfl, hv, rfl, Nat.lt_succ_self _⟩
    · rename_i j hv
      split at h
      · cases h
      · obtain ⟨seeds', h1, h2, h3, h4⟩ := ih _ h
        exact ⟨seeds', h1, h2, by rw [h3, setInvalid_length], by omega⟩
      · split at h
        · cases h
        · rename_i seeds'' hr
          obtain ⟨seeds', h1, h2, h3, h4⟩ := ih _ h
          refine ⟨seeds', h1, h2, ?_, by omega⟩
          rw [h3, (regenerate_pw _ _ _ _ _ hr).length_eq, setInvalid_length]

/-- 3 (skip): the seeds whose plan is returned are the given ones, some of them marked invalid -/
theorem findPlan_skip_returns_pw (H : Bytes → Bytes) (rechunk : Nat → Bytes → Option (List IChunk)) (e : Env) (fs : FS)
    (fuel : Nat) (seeds : List Seed) (p : List PlanItem) (k : Nat)
    (h : findPlan H rechunk e fs .skip fuel seeds = some (p, k)) :
    ∃ seeds', p = plan e seeds' ∧ validatePlan H fs p = none ∧ PW MarkRel seeds seeds' := by
  induction fuel generalizing seeds with
  | zero => simp [findPlan] at h
  | succ fuel ih =>
    rw [findPlan_succ] at h
    split at h
    · rename_i hv
      simp only [Option.some.injEq, Prod.mk.injEq] at h
      obtain ⟨rfl, rfl⟩ := h
      exact ⟨seeds, rfl, hv, PW.refl (fun a => .inl rfl) seeds⟩
    · obtain ⟨seeds', h1, h2, h3⟩ := ih _ h
      exact ⟨seeds', h1, h2, (setInvalid_pw seeds _).comp h3 (fun _ _ _ => MarkRel.trans)⟩

/-- 3 (skip), stated by position: every seed is unchanged or has been marked invalid -/
theorem findPlan_skip_returns (H : Bytes → Bytes) (rechunk : Nat → Bytes → Option (List IChunk)) (e : Env) (fs : FS)
    (fuel : Nat) (seeds : List Seed) (p : List PlanItem) (k : Nat)
    (h : findPlan H rechunk e fs .skip fuel seeds = some (p, k)) :
    ∃ seeds', p = plan e seeds' ∧ validatePlan H fs p = none ∧ seeds'.length = seeds.length ∧
      ∀ (i : Nat) (s : Seed), seeds[i]? = some s → seeds'[i]? = some s ∨ seeds'[i]? = some { s with invalid := true } := by
  obtain ⟨seeds', h1, h2, h3⟩ := findPlan_skip_returns_pw H rechunk e fs fuel seeds p k h
  refine ⟨seeds', h1, h2, h3.length_eq, ?_⟩
  intro i s hi
  obtain ⟨b, hb, hr⟩ := h3.getElem? hi
  rcases hr with rfl | rfl
  · exact .inl hb
  · exact .inr hb

/-- 4, general form: the skip loop ends with a validated plan if it may make more attempts than
    there are bad seeds -/
theorem findPlan_skip_total_of_badCount (H : Bytes → Bytes) (rechunk : Nat → Bytes → Option (List IChunk)) (e : Env)
    (fs : FS) (fuel : Nat) (seeds : List Seed) (hf : badCount H fs seeds < fuel) :
    ∃ p k, findPlan H rechunk e fs .skip fuel seeds = some (p, k) := by
  induction fuel generalizing seeds with
  | zero => omega
  | succ fuel ih =>
    rw [findPlan_succ]
    cases hv : validatePlan H fs (plan e seeds) with
    | none => exact ⟨_, _, rfl⟩
    | some j =>
      obtain ⟨s, hk, hb⟩ := validatePlan_some_bad H e fs seeds j hv
      have := badCount_setInvalid H fs seeds j s hk hb
      exact ih _ (by omega)

/-- 4. with the skip action the loop always ends with a validated plan within `seeds.length + 1`
    attempts -/
theorem findPlan_skip_total (H : Bytes → Bytes) (rechunk : Nat → Bytes → Option (List IChunk)) (e : Env) (fs : FS)
    (seeds : List Seed) : ∃ p k, findPlan H rechunk e fs .skip (seeds.length + 1) seeds = some (p, k) :=
  findPlan_skip_total_of_badCount H rechunk e fs _ seeds
    (Nat.lt_succ_of_le (badCount_le_length H fs seeds))

/-- 4, with the measure "seeds not marked invalid" -/
theorem findPlan_skip_total_of_validCount (H : Bytes → Bytes) (rechunk : Nat → Bytes → Option (List IChunk)) (e : Env)
    (fs : FS) (fuel : Nat) (seeds : List Seed) (hf : validCount seeds < fuel) :
    ∃ p k, findPlan H rechunk e fs .skip fuel seeds = some (p, k) :=
  findPlan_skip_total_of_badCount H rechunk e fs fuel seeds
    (Nat.lt_of_le_of_lt (badCount_le_validCount H fs seeds) hf)

/-- 5, general form -/
theorem findPlan_regenerate_total_of_badCount (H : Bytes → Bytes) (rechunk : Nat → Bytes → Option (List IChunk))
    (e : Env) (fs : FS) (hre : RechunkOK H rechunk) (fuel : Nat) (seeds : List Seed)
    (hex : ∀ s ∈ seeds, fs.exists s.src = true) (hf : badCount H fs seeds < fuel) :
    ∃ p k, findPlan H rechunk e fs .regenerate fuel seeds = some (p, k) := by
  induction fuel generalizing seeds with
  | zero => omega
  | succ fuel ih =>
    rw [findPlan_succ]
    cases hv : validatePlan H fs (plan e seeds) with
    | none => exact ⟨_, _, rfl⟩
    | some j =>
      obtain ⟨s, hk, hb⟩ := validatePlan_some_bad H e fs seeds j hv
      have h1 := badCount_setInvalid H fs seeds j s hk hb
      have hex' : ∀ s ∈ setInvalid seeds j, fs.exists s.src = true :=
        (setInvalid_pw seeds j).forall_mem (Q := fun s => fs.exists s.src = true)
          (fun a b hab ha => by rw [hab.src]; exact ha) hex
      obtain ⟨seeds'', hr⟩ := regenerate_isSome rechunk fs (setInvalid seeds j) 0
        (fun k data => (hre k data).imp fun _ h => h.1) hex'
      have h2 := badCount_regenerate H rechunk fs hre _ _ _ hr
      have hex'' : ∀ s ∈ seeds'', fs.exists s.src = true :=
        (regenerate_pw _ _ _ _ _ hr).forall_mem (Q := fun s => fs.exists s.src = true)
          (fun a b hab ha => by rw [hab.src]; exact ha) hex'
      simp only [hr]
      exact ih seeds'' hex'' (by omega)

/-- 5. with the regenerate action, a re-chunking that yields consistent indexes and seed files that
    can be opened, the loop always ends with a validated plan within `seeds.length + 1` attempts -/
theorem findPlan_regenerate_total (H : Bytes → Bytes) (rechunk : Nat → Bytes → Option (List IChunk)) (e : Env) (fs : FS)
    (seeds : List Seed)
    (hre : ∀ k data, ∃ cs, rechunk k data = some cs ∧
      (∀ c ∈ cs, ∃ b, readFull data c.start c.size = some b ∧ H b = c.id))
    (hex : ∀ s ∈ seeds, fs.exists s.src = true) :
    ∃ p k, findPlan H rechunk e fs .regenerate (seeds.length + 1) seeds = some (p, k) :=
  findPlan_regenerate_total_of_badCount H rechunk e fs hre _ seeds hex
    (Nat.lt_succ_of_le (badCount_le_length H fs seeds))

/-- 5, complement: after a `regenerate` no seed is marked invalid, and every seed that was is
    consistent -/
theorem regenerate_spec (H : Bytes → Bytes) (rechunk : Nat → Bytes → Option (List IChunk)) (fs : FS)
    (hre : RechunkOK H rechunk) (l l' : List Seed) (j : Nat) (h : regenerate rechunk fs l j = some l') :
    l'.length = l.length ∧ (∀ s ∈ l', s.invalid = false) ∧
    ∀ (i : Nat) (a : Seed), l[i]? = some a → ∃ b, l'[i]? = some b ∧ b.src = a.src ∧ b.canReflink = a.canReflink ∧
      (a.invalid = false → b = a) ∧ (a.invalid = true → b.Consistent H fs) := by
  have hpw := regenerate_pw rechunk fs l j l' h
  refine ⟨hpw.length_eq, ?_, ?_⟩
  · exact hpw.forall_mem (Q := fun _ => True) (Q' := fun b => b.invalid = false) (fun a b hab _ => hab.valid) (fun _ _ => trivial)
  · intro i a hi
    obtain ⟨b, hb, hr⟩ := hpw.getElem? hi
    refine ⟨b, hb, hr.src, ?_, ?_, fun ha => hr.consistent hre ha⟩
    · rcases hr with ⟨_, rfl⟩ | ⟨_, _, _, _, _, rfl⟩ <;> rfl
    · intro ha
      rcases hr with ⟨_, rfl⟩ | ⟨h1, _⟩
      · rfl
      · rw [ha] at h1; exact Bool.noConfusion h1

/-- 6. with `bailOut` the loop fails exactly when the first plan does not validate -/
theorem findPlan_bail (H : Bytes → Bytes) (rechunk : Nat → Bytes → Option (List IChunk)) (e : Env) (fs : FS)
    (fuel : Nat) (seeds : List Seed) (hf : 1 ≤ fuel) :
    findPlan H rechunk e fs .bailOut fuel seeds = none ↔ validatePlan H fs (plan e seeds) ≠ none := by
  cases fuel with
  | zero => omega
  | succ n =>
    rw [findPlan_succ]
    cases hv : validatePlan H fs (plan e seeds) <;> simp

/-! ## 7. non-vacuity -/

/-- one chunk whose ID is its content (the hash is the identity) -/
def fpEnv : Env :=
  { chunks := mkChunks 0 [([7, 7], 2)], nullID := [0, 0], nullReflink := false, selfReflink := false, bs := 4096 }

/-- two seeds claiming to hold that chunk -/
def fpSeeds : List Seed :=
  [ { src := .seed 0, chunks := mkChunks 0 [([7, 7], 2)], canReflink := false },
    { src := .seed 1, chunks := mkChunks 0 [([7, 7], 2)], canReflink := false } ]

/-- the file of seed 0 has changed since it was indexed; the file of seed 1 has not -/
def fpFS : FS := { target := [0, 0], seeds := [[7, 8], [7, 7]] }

/-- a source as numbers: 0 store; 1 file, seed, start in the seed; 2 null, from, to -/
def Source.code : Source → List Nat
  | .store => [0]
  | .file k seg => [1, k, seg.srcStart]
  | .null a b _ => [2, a, b]

/-- a summary of a result of `findPlan`: first, last and source of every item of the plan, and the
    attempts left -/
def fpShow (r : Option (List PlanItem × Nat)) : Option (List (List Nat)) × Option Nat :=
  (r.map fun x => x.1.map (fun it => it.first :: it.last :: it.source.code), r.map (·.2))

/-- the first plan takes the chunk from seed 0 and fails validation, blaming seed 0 -/
example : (plan fpEnv fpSeeds).map (fun it => it.first :: it.last :: it.source.code) = [[0, 0, 1, 0, 0]] ∧
    validatePlan id fpFS (plan fpEnv fpSeeds) = some 0 := by
  decide

/-- bailing out fails -/
example : fpShow (findPlan id (fun _ _ => none) fpEnv fpFS .bailOut 3 fpSeeds) = (none, none) := by
  decide

/-- skipping succeeds at the second attempt (one of three attempts is left), with seed 1 -/
example : fpShow (findPlan id (fun _ _ => none) fpEnv fpFS .skip 3 fpSeeds) = (some [[0, 0, 1, 1, 0]], some 1) := by
  decide

/-- with every seed stale, skipping ends at the third attempt with the chunk taken from the store -/
example : fpShow (findPlan id (fun _ _ => none) fpEnv { fpFS with seeds := [[7, 8], [8, 7]] } .skip 3 fpSeeds) =
    (some [[0, 0, 0]], some 0) := by
  decide

/-- regenerating (here: re-chunking into one chunk per file) succeeds at the second attempt; seed 0
    no longer holds the chunk, so seed 1 is used -/
example : fpShow (findPlan id (fun _ data => some (mkChunks 0 [(data, data.length)])) fpEnv fpFS .regenerate 3 fpSeeds) =
    (some [[0, 0, 1, 1, 0]], some 1) := by
  decide

/-- the hypothesis of `findPlan_regenerate_total` that the seed files can be opened is needed: a seed
    whose file cannot be opened is blamed, cannot be regenerated, and the loop fails (skip succeeds) -/
example : fpShow (findPlan id (fun _ data => some (mkChunks 0 [(data, data.length)])) fpEnv
      { fpFS with seeds := [] } .regenerate 3 fpSeeds) = (none, none) ∧
    fpShow (findPlan id (fun _ _ => none) fpEnv { fpFS with seeds := [] } .skip 3 fpSeeds) =
      (some [[0, 0, 0]], some 0) := by
  decide

end Desync.Asm
