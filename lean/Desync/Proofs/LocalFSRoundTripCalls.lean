/-
  Forward direction of the `LocalFS` toolkit: when the destination of a node lies at the end of a chain
  of real directories and nothing exists there yet, every system call of the method *succeeds*, and the
  method leaves exactly one new object (the parent directory's mtime becomes "now").
-/
import Desync.Proofs.LocalFSCalls
import Desync.Proofs.LocalFSPath

namespace Desync.LFS
open Desync

/-! ### `touch` exactly -/

/-- what creating an entry does to the directory holding it -/
def touchObj : Option Obj → Option Obj
  | some (.dir a _) => some (.dir a none)
  | x => x

theorem touchObj_idem (x : Option Obj) : touchObj (touchObj x) = touchObj x := by
  cases x with
  | none => rfl
  | some ob => cases ob <;> rfl

theorem touchObj_none : touchObj none = none := rfl

theorem isDir_touchObj {x : Option Obj} (h : IsDir x) : IsDir (touchObj x) := by
  obtain ⟨a, m, rfl⟩ := h
  exact ⟨a, none, rfl⟩

theorem get_touch (fs : FS) (p q : RPath) :
    (fs.touch p).get q = if q = p then touchObj (fs.get p) else fs.get q := by
  by_cases h : q = p
  · subst h
    rw [if_pos rfl]
    unfold FS.touch
    split
    · rename_i a m hg
      rw [get_set_self, hg]; rfl
    · rename_i hn
      cases hg : fs.get q with
      | none => rfl
      | some ob =>
        cases ob with
        | dir a m => exact absurd hg (hn a m)
        | file d a m => rfl
        | symlink t a lm => rfl
        | dev ty ma mi a m => rfl
  · rw [if_neg h]; exact get_touch_ne _ h

/-! ### resolution succeeds along real directories -/

/-- every component fits `NAME_MAX` -/
def Short (P : List Name) : Prop := ∀ c ∈ P, c.length ≤ 255

theorem DirsFrom.tail {fs : FS} {cur : RPath} {c : Name} {rest : List Name}
    (h : DirsFrom fs cur (c :: rest)) : DirsFrom fs (cur ++ [c]) rest := by
  intro Q R e hQ hR
  have := h (c :: Q) R (by rw [e]; rfl) (by simp) hR
  simpa using this

theorem walk_dirs (fs : FS) (follow : Bool) :
    ∀ (P : List Name) (fuel : Nat) (cur : RPath), Normal P → Short P → DirsFrom fs cur P →
      (follow = true → P ≠ [] → NotLink (fs.get (cur ++ P))) → P.length < fuel →
      walk fs follow fuel cur P = .ok (cur ++ P)
  | [], fuel, cur, _, _, _, _, hf => by
    cases fuel with
    | zero => simp at hf
    | succ fuel => simp [walk]
  | c :: rest, fuel, cur, hN, hSh, hD, hL, hf => by
    cases fuel with
    | zero => simp at hf
    | succ fuel =>
      have hc := hN c (by simp)
      have hcl : ¬ c.length > 255 := by have := hSh c (by simp); omega
      have hNr : Normal rest := fun x hx => hN x (by simp [hx])
      have hShr : Short rest := fun x hx => hSh x (by simp [hx])
      rw [walk, if_neg hc.1, if_neg hc.2, if_neg hcl]
      by_cases hr : rest = []
      · subst hr
        have hfuel : 0 < fuel := by simp at hf; omega
        obtain ⟨k, rfl⟩ : ∃ k, fuel = k + 1 := ⟨fuel - 1, by omega⟩
        cases hg : fs.get (cur ++ [c]) with
        | none => simp [hg]
        | some ob =>
          cases ob with
          | symlink t a lm =>
            cases follow with
            | false => simp [hg]
            | true => exact absurd hg (hL rfl (by simp) t a lm)
          | dir a m => simp [hg, walk]
          | file d a m => simp [hg]
          | dev ma mi a m => simp [hg]
      · obtain ⟨a, m, hg⟩ : IsDir (fs.get (cur ++ [c])) := hD [c] rest rfl (by simp) hr
        simp only [hg]
        have := walk_dirs fs follow rest fuel (cur ++ [c]) hNr hShr hD.tail
          (by intro hf' hr'; simpa using hL hf' (by simp)) (by simp at hf; omega)
        simpa using this

/-- `dst` is a usable destination: normal short components, all proper prefixes real directories -/
structure Good (fs : FS) (dst : List Name) : Prop where
  normal : Normal dst
  short : Short dst
  ne : dst ≠ []
  dirs : ProperDirs fs dst

theorem resolve_ok {fs : FS} {follow : Bool} {dst : List Name} (h : Good fs dst)
    (hL : follow = true → NotLink (fs.get dst)) : resolve fs follow dst = .ok dst := by
  have := walk_dirs fs follow dst (fuelFor fs dst) [] h.normal h.short h.dirs
    (by intro hf _; simpa using hL hf) (by unfold fuelFor; omega)
  simpa [resolve] using this

theorem resolve_nofollow {fs : FS} {dst : List Name} (h : Good fs dst) :
    resolve fs false dst = .ok dst := resolve_ok h (by intro hf; cases hf)

theorem Good.parent {fs : FS} {dst : List Name} (h : Good fs dst) : parentIsDir fs dst = true := by
  rw [parentIsDir_iff]
  refine ⟨h.ne, ?_⟩
  by_cases hd : dst.dropLast = []
  · exact .inl hd
  · right
    have := h.dirs dst.dropLast [dst.getLast h.ne] (List.dropLast_concat_getLast h.ne).symm hd (by simp)
    simpa using this

/-- a proper prefix is not the whole -/
theorem proper_ne {dst Q R : List Name} (e : dst = Q ++ R) (hR : R ≠ []) : Q ≠ dst := by
  intro h
  have := congrArg List.length e
  rw [h] at this
  simp at this
  exact hR this

theorem Good.upd {fs fs' : FS} {dst : List Name} (h : Good fs dst)
    (hg : ∀ p, p ≠ dst → fs'.get p = fs.get p) : Good fs' dst := by
  refine ⟨h.normal, h.short, h.ne, ?_⟩
  intro Q R e hQ hR
  have := h.dirs Q R e hQ hR
  simp only [List.nil_append] at this ⊢
  rw [hg Q (proper_ne e hR)]; exact this

/-- exactly one new object at `dst`; its parent directory has been touched -/
def Creates (fs fs' : FS) (dst : RPath) (ob : Obj) : Prop :=
  ∀ p, fs'.get p = if p = dst then some ob else if p = dst.dropLast then touchObj (fs.get p) else fs.get p

theorem creates_create (fs : FS) {dst : RPath} (hne : dst ≠ []) (ob : Obj) :
    Creates fs ((fs.set dst ob).touch dst.dropLast) dst ob := by
  intro p
  rw [get_touch]
  by_cases hp : p = dst
  · subst hp
    have : p ≠ p.dropLast := by
      intro e
      have := congrArg List.length e
      simp at this
      have : 0 < p.length := List.length_pos_iff.2 hne
      omega
    rw [if_neg this, if_pos rfl, get_set_self]
  · rw [if_neg hp]
    by_cases hq : p = dst.dropLast
    · subst hq
      have : dst.dropLast ≠ dst := hp
      rw [if_pos rfl, if_pos rfl, get_set_ne _ _ this]
    · rw [if_neg hq, if_neg hq, get_set_ne _ _ hp]

theorem Creates.get_self {fs fs' : FS} {dst : RPath} {ob : Obj} (h : Creates fs fs' dst ob) :
    fs'.get dst = some ob := by rw [h dst, if_pos rfl]

theorem Creates.upd {fs fs₁ fs₂ : FS} {dst : RPath} {ob ob' : Obj} (h : Creates fs fs₁ dst ob)
    (hg : ∀ p, p ≠ dst → fs₂.get p = fs₁.get p) (hd : fs₂.get dst = some ob') :
    Creates fs fs₂ dst ob' := by
  intro p
  by_cases hp : p = dst
  · subst hp; rw [if_pos rfl, hd]
  · rw [hg p hp, h p]; simp only [if_neg hp]

theorem Good.creates {fs fs' : FS} {dst : List Name} {ob : Obj} (h : Good fs dst)
    (hc : Creates fs fs' dst ob) : Good fs' dst := by
  refine ⟨h.normal, h.short, h.ne, ?_⟩
  intro Q R e hQ hR
  have := h.dirs Q R e hQ hR
  simp only [List.nil_append] at this ⊢
  rw [hc Q, if_neg (proper_ne e hR)]
  split
  · exact isDir_touchObj this
  · exact this

/-! ### the system calls on a fresh destination / on an existing non-link -/

section calls
variable {fs : FS} {dst : List Name}

theorem lstat_fresh (h : Good fs dst) (hn : fs.get dst = none) : lstat fs dst = .error .noent := by
  unfold lstat
  simp [resolve_nofollow h, bind, Except.bind, h.ne, hn]

theorem lstat_some {ob : Obj} (h : Good fs dst) (hg : fs.get dst = some ob) : lstat fs dst = .ok ob := by
  unfold lstat
  simp [resolve_nofollow h, bind, Except.bind, h.ne, hg, pure, Except.pure]

theorem mkdir_fresh (h : Good fs dst) (hn : fs.get dst = none) :
    mkdir fs dst = .ok ((fs.set dst (.dir {} none)).touch dst.dropLast) := by
  unfold mkdir
  simp [resolve_nofollow h, bind, Except.bind, h.ne, hn, h.parent, pure, Except.pure]

theorem symlinkAt_fresh (target : Bytes) (h : Good fs dst) (hn : fs.get dst = none) :
    symlinkAt fs target dst = .ok ((fs.set dst (.symlink target {} none)).touch dst.dropLast) := by
  unfold symlinkAt
  simp [resolve_nofollow h, bind, Except.bind, h.ne, hn, h.parent, pure, Except.pure]

theorem mknod_fresh (ty ma mi : Nat) (h : Good fs dst) (hn : fs.get dst = none) :
    mknod fs dst ty ma mi = .ok ((fs.set dst (.dev ty ma mi {} none)).touch dst.dropLast) := by
  unfold mknod
  simp [resolve_nofollow h, bind, Except.bind, h.ne, hn, h.parent, pure, Except.pure]

theorem removeAll_fresh (h : Good fs dst) (hn : fs.get dst = none) : removeAll fs dst = .ok fs := by
  unfold removeAll
  simp [resolve_nofollow h, h.ne, hn]

theorem unlinkIfThere_fresh (h : Good fs dst) (hn : fs.get dst = none) :
    unlinkIfThere fs dst = .ok fs := by
  unfold unlinkIfThere unlink
  simp [resolve_nofollow h, bind, Except.bind, hn]

theorem createTrunc_fresh (data : Bytes) (h : Good fs dst) (hn : fs.get dst = none) :
    createTrunc fs dst data = .ok ((fs.set dst (.file data {} none)).touch dst.dropLast) := by
  unfold createTrunc
  simp [resolve_ok h (fun _ => hn ▸ notLink_none), bind, Except.bind, h.ne, hn, h.parent, pure,
    Except.pure]

/-- what `chown` leaves of the attributes `a` of a directory (`isDir`) / of anything else -/
def chownAttr (isDir : Bool) (a : Attr) (u g : Nat) : Attr :=
  { a with owner := some (u, g), mode := if isDir then a.mode else a.mode.map clearSetID }

theorem chown_some {ob : Obj} (follow : Bool) (u g : Nat) (h : Good fs dst) (hg : fs.get dst = some ob)
    (hL : follow = true → NotLink (some ob)) :
    chown fs follow dst u g = .ok (fs.set dst (ob.withAttr (chownAttr ob.isDir ob.attr u g))) := by
  unfold chown
  simp [resolve_ok h (fun hf => hg ▸ hL hf), bind, Except.bind, hg, pure, Except.pure, chownAttr]

theorem chmod_some {ob : Obj} (mode : Nat) (h : Good fs dst) (hg : fs.get dst = some ob)
    (hL : NotLink (some ob)) :
    chmod fs dst mode = .ok (fs.set dst (ob.withAttr { ob.attr with mode := some (mode % 4096) })) := by
  unfold chmod
  simp [resolve_ok h (fun _ => hg ▸ hL), bind, Except.bind, hg, pure, Except.pure]

/-- may the extended attribute `k` be set on `ob`: `user.*` on regular files and directories only -/
def xaOK (ob : Obj) (k : Bytes) : Bool :=
  match ob with
  | .dir .. | .file .. => true
  | _ => !isUserXattr k

theorem xaOK_withAttr (ob : Obj) (a : Attr) (k : Bytes) : xaOK (ob.withAttr a) k = xaOK ob k := by
  cases ob <;> rfl

theorem lsetxattr_some {ob : Obj} (k v : Bytes) (h : Good fs dst) (hg : fs.get dst = some ob)
    (hk : xaOK ob k = true) :
    lsetxattr fs dst k v =
      .ok (fs.set dst (ob.withAttr { ob.attr with xattrs := xaSet ob.attr.xattrs k v })) := by
  unfold lsetxattr
  cases ob <;>
    simp_all [xaOK, resolve_nofollow h, bind, Except.bind, pure, Except.pure]

/-- EPERM: a `user.*` attribute on a symbolic link or a device node -/
theorem lsetxattr_refused {ob : Obj} (k v : Bytes) (h : Good fs dst) (hg : fs.get dst = some ob)
    (hk : xaOK ob k = false) : lsetxattr fs dst k v = .error .other := by
  unfold lsetxattr
  cases ob <;>
    simp_all [xaOK, resolve_nofollow h, bind, Except.bind]

theorem chtimes_some {ob : Obj} (t : Nat) (h : Good fs dst) (hg : fs.get dst = some ob)
    (hL : NotLink (some ob)) :
    chtimes fs dst t = .ok (fs.set dst (ob.withMtime (some t))) := by
  unfold chtimes
  simp [resolve_ok h (fun _ => hg ▸ hL), bind, Except.bind, hg, pure, Except.pure]

/-- `utimensat(AT_SYMLINK_NOFOLLOW)`: whatever the object is, links included -/
theorem lchtimes_some {ob : Obj} (t : Nat) (h : Good fs dst) (hg : fs.get dst = some ob) :
    lchtimes fs dst t = .ok (fs.set dst (ob.withMtime (some t))) := by
  unfold lchtimes
  simp [resolve_nofollow h, bind, Except.bind, hg, pure, Except.pure]

end calls

/-! ### methods that succeed: `Okay Q x` = `x` is a normal result satisfying `Q` -/

abbrev Okay {α} (Q : α → Prop) (x : Except FS α) : Prop := Tri (fun _ => False) Q x

theorem Okay.elim {α} {Q : α → Prop} {x : Except FS α} (h : Okay Q x) : ∃ a, x = .ok a ∧ Q a := by
  cases x with
  | ok a => exact ⟨a, rfl, h⟩
  | error f => exact False.elim h

theorem Okay.sys {Q : FS → Prop} {fs fs' : FS} {r : Except Err FS} (hr : r = .ok fs') (hQ : Q fs') :
    Okay Q (sys fs r) := by
  subst hr; exact hQ

/-- the object at `dst` is replaced by `ob'`, nothing else changes, `dst` stays usable -/
structure Upd (fs fs' : FS) (dst : List Name) (ob' : Obj) : Prop where
  good : Good fs' dst
  other : ∀ p, p ≠ dst → fs'.get p = fs.get p
  self : fs'.get dst = some ob'

theorem upd_set {fs : FS} {dst : List Name} (h : Good fs dst) (ob' : Obj) :
    Upd fs (fs.set dst ob') dst ob' :=
  ⟨h.upd (fun _ hp => get_set_ne _ _ hp), fun _ hp => get_set_ne _ _ hp, get_set_self _ _ _⟩

theorem Upd.trans {f g h : FS} {dst : List Name} {o₁ o₂ : Obj} (h1 : Upd f g dst o₁)
    (h2 : Upd g h dst o₂) : Upd f h dst o₂ :=
  ⟨h2.good, fun p hp => (h2.other p hp).trans (h1.other p hp), h2.self⟩

/-! ### attributes -/

theorem attr_withAttr (ob : Obj) (a : Attr) : (ob.withAttr a).attr = a := by cases ob <;> rfl
theorem isDir_withAttr_eq (ob : Obj) (a : Attr) : (ob.withAttr a).isDir = ob.isDir := by cases ob <;> rfl
theorem withAttr_withAttr (ob : Obj) (a b : Attr) : (ob.withAttr a).withAttr b = ob.withAttr b := by
  cases ob <;> rfl
theorem withAttr_attr (ob : Obj) : ob.withAttr ob.attr = ob := by cases ob <;> rfl

/-- the `lsetxattr` loop on the attribute list `m` -/
def xaFold (m xs : List (Bytes × Bytes)) : List (Bytes × Bytes) :=
  xs.foldl (fun m kv => xaSet m kv.1 kv.2) m

theorem xaSet_fresh {m : List (Bytes × Bytes)} {k v : Bytes} (h : k ∉ m.map Prod.fst) :
    xaSet m k v = m ++ [(k, v)] := by
  unfold xaSet
  rw [if_neg]
  simp only [List.any_eq_true, decide_eq_true_eq, not_exists, not_and]
  intro kv hkv e
  exact h (List.mem_map.2 ⟨kv, hkv, e⟩)

/-- with pairwise distinct keys, none of them present yet, the loop appends the list -/
theorem xaFold_fresh : ∀ (xs m : List (Bytes × Bytes)), ((m ++ xs).map Prod.fst).Nodup →
    xaFold m xs = m ++ xs
  | [], m, _ => by simp [xaFold]
  | (k, v) :: xs, m, h => by
    have hk : k ∉ m.map Prod.fst := by
      simp only [List.map_append, List.map_cons] at h
      intro hm
      exact (List.nodup_append.1 h).2.2 k hm k (by simp) rfl
    show xaFold (xaSet m k v) xs = _
    rw [xaSet_fresh hk, xaFold_fresh xs (m ++ [(k, v)]) (by simpa using h)]
    simp

theorem xaFold_nil_left {xs : List (Bytes × Bytes)} (h : (xs.map Prod.fst).Nodup) : xaFold [] xs = xs := by
  simpa using xaFold_fresh xs [] (by simpa using h)

/-- the attributes `setPerms` leaves on an object created with none: the archived owner and xattrs unless
    `noSameOwner`, the archived permission, set-id and sticky bits unless `noSamePermissions` (all of them:
    `chown` comes before `chmod`) -/
def attrM (o : Opts) (m : Meta) : Attr :=
  { owner := if o.noSameOwner then none else some (m.uid.toNat, m.gid.toNat)
    mode := if o.noSamePermissions then none else some (modeOf m)
    xattrs := if o.noSameOwner then [] else m.xattrs }

/-- on a fresh symbolic link (`lchown` + `lsetxattr` only) -/
def linkAttrM (o : Opts) (m : Meta) : Attr :=
  { owner := if o.noSameOwner then none else some (m.uid.toNat, m.gid.toNat)
    mode := none
    xattrs := if o.noSameOwner then [] else m.xattrs }

def mtimeM (m : Meta) : Option Nat := if m.mtime = 0 then none else some m.mtime.toNat

/-- the attributes `setPerms` leaves on an object (a directory: `isDir`) whose attributes were `a` -/
def permsAttr (o : Opts) (m : Meta) (isDir : Bool) (a : Attr) : Attr :=
  { owner := if o.noSameOwner then a.owner else some (m.uid.toNat, m.gid.toNat)
    mode := if o.noSamePermissions then
        (if o.noSameOwner || isDir then a.mode else a.mode.map clearSetID)
      else some (modeOf m)
    xattrs := if o.noSameOwner then a.xattrs else xaFold a.xattrs m.xattrs }

theorem permsAttr_fresh (o : Opts) (m : Meta) (d : Bool) (h : (m.xattrs.map Prod.fst).Nodup) :
    permsAttr o m d {} = attrM o m := by
  unfold permsAttr attrM
  cases o.noSameOwner <;> cases o.noSamePermissions <;> cases d <;> simp [xaFold_nil_left h]

theorem modeOf_mod (m : Meta) : modeOf m % 4096 = modeOf m := by
  unfold modeOf; exact Nat.mod_mod _ _

theorem setXattrs_okay {dst : List Name} (ob : Obj) :
    ∀ (xs : List (Bytes × Bytes)) (fs : FS) (a : Attr), Good fs dst → fs.get dst = some (ob.withAttr a) →
      (∀ kv ∈ xs, xaOK ob kv.1 = true) →
      Okay (fun fs' => Upd fs fs' dst (ob.withAttr { a with xattrs := xaFold a.xattrs xs }))
        (setXattrs fs dst xs)
  | [], fs, a, h, hg, _ => by
    rw [setXattrs]
    exact ⟨h, fun _ _ => rfl, hg⟩
  | (k, v) :: rest, fs, a, h, hg, hal => by
    rw [setXattrs]
    have h1 := lsetxattr_some k v h hg (by rw [xaOK_withAttr]; exact hal (k, v) (by simp))
    rw [attr_withAttr, withAttr_withAttr] at h1
    refine Tri.bind (Q := fun f => Upd fs f dst (ob.withAttr { a with xattrs := xaSet a.xattrs k v }))
      (Okay.sys h1 (upd_set h _)) ?_
    intro f1 hf1
    have := setXattrs_okay ob rest f1 { a with xattrs := xaSet a.xattrs k v } hf1.good hf1.self
      (fun kv hkv => hal kv (by simp [hkv]))
    exact this.mono (fun _ h => h) (fun f2 hf2 => hf1.trans hf2)

theorem setPerms_okay (o : Opts) (m : Meta) {fs : FS} {dst : List Name} {ob : Obj} (h : Good fs dst)
    (hg : fs.get dst = some ob) (hL : NotLink (some ob))
    (hal : o.noSameOwner = false → ∀ kv ∈ m.xattrs, xaOK ob kv.1 = true) :
    Okay (fun fs' => Upd fs fs' dst (ob.withAttr (permsAttr o m ob.isDir ob.attr)))
      (setPerms o fs dst m) := by
  -- chown, then the xattrs
  have chownStep : Okay (fun f => Upd fs f dst (ob.withAttr
        (chownAttr ob.isDir ob.attr m.uid.toNat m.gid.toNat)))
      (sys fs (chown fs true dst m.uid.toNat m.gid.toNat)) :=
    Okay.sys (chown_some true _ _ h hg (fun _ => hL)) (upd_set h _)
  have xaStep : o.noSameOwner = false → ∀ f1 : FS,
      Upd fs f1 dst (ob.withAttr (chownAttr ob.isDir ob.attr m.uid.toNat m.gid.toNat)) →
      Okay (fun f => Upd fs f dst (ob.withAttr
        { chownAttr ob.isDir ob.attr m.uid.toNat m.gid.toNat with
          xattrs := xaFold ob.attr.xattrs m.xattrs })) (setXattrs f1 dst m.xattrs) := by
    intro hO f1 hf1
    have := setXattrs_okay ob m.xattrs f1 _ hf1.good hf1.self (hal hO)
    exact this.mono (fun _ h => h) (fun f2 hf2 => hf1.trans hf2)
  -- chmod on whatever attributes `a` the object has by then
  have chmodStep : ∀ (f : FS) (a : Attr), Upd fs f dst (ob.withAttr a) →
      Okay (fun f' => Upd fs f' dst (ob.withAttr { a with mode := some (modeOf m) }))
        (sys f (chmod f dst (modeOf m))) := by
    intro f a hf
    have h1 := chmod_some (modeOf m) hf.good hf.self (notLink_withAttr hL)
    rw [attr_withAttr, withAttr_withAttr, modeOf_mod] at h1
    exact Okay.sys h1 (hf.trans (upd_set hf.good _))
  have hrefl : Upd fs fs dst (ob.withAttr ob.attr) := ⟨h, fun _ _ => rfl, by rw [withAttr_attr]; exact hg⟩
  unfold setPerms
  simp only [pure_bind]
  cases hO : o.noSameOwner <;> cases hP : o.noSamePermissions <;>
    simp only [Bool.false_eq_true, ↓reduceIte]
  · -- chown, xattrs, chmod
    refine Tri.bind chownStep (fun f0 hf0 => Tri.bind (xaStep hO f0 hf0) ?_)
    intro f1 hf1
    have := chmodStep f1 _ hf1
    refine this.mono (fun _ h => h) (fun f2 hf2 => ?_)
    have e : permsAttr o m ob.isDir ob.attr = { ({ chownAttr ob.isDir ob.attr m.uid.toNat m.gid.toNat with
        xattrs := xaFold ob.attr.xattrs m.xattrs } : Attr) with mode := some (modeOf m) } := by
      simp [permsAttr, chownAttr, hO, hP]
    rw [e]; exact hf2
  · -- chown, xattrs
    refine Tri.bind chownStep (fun f0 hf0 => Tri.bind (xaStep hO f0 hf0) ?_)
    intro f1 hf1
    have e : permsAttr o m ob.isDir ob.attr = { chownAttr ob.isDir ob.attr m.uid.toNat m.gid.toNat with
        xattrs := xaFold ob.attr.xattrs m.xattrs } := by
      simp [permsAttr, chownAttr, hO, hP]
    rw [e]; exact Tri.pure hf1
  · -- chmod
    have := chmodStep fs _ hrefl
    refine this.mono (fun _ h => h) (fun f2 hf2 => ?_)
    have e : permsAttr o m ob.isDir ob.attr = { ob.attr with mode := some (modeOf m) } := by
      simp [permsAttr, hO, hP]
    rw [e]; exact hf2
  · have e : permsAttr o m ob.isDir ob.attr = ob.attr := by
      simp [permsAttr, hO, hP]
    rw [e]; exact Tri.pure hrefl

/-! ### the methods on a fresh destination -/

/-- object constructors with an attribute and an mtime slot: `Obj.dir`, `Obj.file d`, `Obj.dev ma mi` -/
structure Slots (k : Attr → Option Nat → Obj) : Prop where
  attr : ∀ a t b, (k a t).withAttr b = k b t
  getAttr : ∀ a t, (k a t).attr = a
  mtime : ∀ a t u, (k a t).withMtime u = k a u
  notLink : ∀ a t, NotLink (some (k a t))

theorem slots_dir : Slots Obj.dir :=
  ⟨fun _ _ _ => rfl, fun _ _ => rfl, fun _ _ _ => rfl, fun _ _ _ _ _ e => by cases e⟩
theorem slots_file (d : Bytes) : Slots (Obj.file d) :=
  ⟨fun _ _ _ => rfl, fun _ _ => rfl, fun _ _ _ => rfl, fun _ _ _ _ _ e => by cases e⟩
theorem slots_dev (ty ma mi : Nat) : Slots (Obj.dev ty ma mi) :=
  ⟨fun _ _ _ => rfl, fun _ _ => rfl, fun _ _ _ => rfl, fun _ _ _ _ _ e => by cases e⟩

section tail
variable {k : Attr → Option Nat → Obj} {fs0 f1 : FS} {dst : List Name}

theorem perms_tail (o : Opts) (m : Meta) (hk : Slots k) (hG : Good fs0 dst)
    (hc : Creates fs0 f1 dst (k {} none)) (hnd : (m.xattrs.map Prod.fst).Nodup)
    (hal : o.noSameOwner = false → ∀ kv ∈ m.xattrs, xaOK (k {} none) kv.1 = true) :
    Okay (fun f2 => Creates fs0 f2 dst (k (attrM o m) none)) (setPerms o f1 dst m) := by
  refine (setPerms_okay o m (hG.creates hc) hc.get_self (hk.notLink _ _) hal).mono (fun _ h => h) ?_
  intro f2 hf2
  rw [hk.getAttr, permsAttr_fresh o m _ hnd, hk.attr] at hf2
  exact hc.upd hf2.other hf2.self

theorem times_tail (a : Attr) (t : Nat) (hk : Slots k) (hG : Good fs0 dst)
    (hc : Creates fs0 f1 dst (k a none)) :
    Okay (fun f2 => Creates fs0 f2 dst (k a (some t))) (sys f1 (chtimes f1 dst t)) := by
  have hG1 := hG.creates hc
  refine Okay.sys (chtimes_some t hG1 hc.get_self (hk.notLink _ _)) ?_
  rw [hk.mtime]
  have := upd_set hG1 (k a (some t))
  exact hc.upd this.other this.self

end tail

theorem mtimeM_zero {m : Meta} (h : m.mtime = 0) : mtimeM m = none := by simp [mtimeM, h]
theorem mtimeM_pos {m : Meta} (h : ¬ m.mtime = 0) : mtimeM m = some m.mtime.toNat := by simp [mtimeM, h]

theorem createDir_fresh (o : Opts) (root : List Name) (s : LState) (name : Bytes) (m : Meta)
    (h : Good s.fs (dstOf root name)) (hn : s.fs.get (dstOf root name) = none)
    (hnd : (m.xattrs.map Prod.fst).Nodup) :
    ∃ s', createDir o root s name m = .ok s' ∧
      Creates s.fs s'.fs (dstOf root name) (.dir (attrM o m) (mtimeM m)) ∧
      s'.dirTimes = s.dirTimes ++
        (if m.mtime = 0 then [] else [(dstOf root name, m.mtime.toNat)]) := by
  apply Okay.elim (Q := fun s' : LState => Creates s.fs s'.fs (dstOf root name) (.dir (attrM o m) (mtimeM m)) ∧
      s'.dirTimes = s.dirTimes ++ (if m.mtime = 0 then [] else [(dstOf root name, m.mtime.toNat)]))
  unfold createDir
  generalize dstOf root name = dst at *
  simp only []
  rw [lstat_fresh h hn]
  simp only []
  refine Tri.bind (Q := fun f => Creates s.fs f dst (.dir {} none))
    (Okay.sys (mkdir_fresh h hn) (creates_create s.fs h.ne _)) ?_
  intro f1 hf1
  refine Tri.bind (perms_tail o m slots_dir h hf1 hnd (fun _ _ _ => rfl)) ?_
  intro f2 hf2
  split
  · rename_i h0
    exact Tri.pure ⟨by rw [mtimeM_zero h0]; exact hf2, by simp⟩
  · rename_i h0
    refine Tri.bind (times_tail _ m.mtime.toNat slots_dir h hf2) ?_
    intro f3 hf3
    exact Tri.pure ⟨by rw [mtimeM_pos h0]; exact hf3, by simp⟩

/-- the destination is a real directory already (`UnTar` into an existing directory): no `mkdir`; the
    directory keeps the owner and the xattrs it has under `noSameOwner` and gets the archived owner, and the
    archived xattrs on top of its own, otherwise; it keeps its mode under `noSamePermissions` (a directory's
    set-id bits survive `chown`) and gets the archived one otherwise; it keeps its mtime when the archive
    records none -/
theorem createDir_existing (o : Opts) (root : List Name) (s : LState) (name : Bytes) (m : Meta)
    {a₀ : Attr} {m₀ : Option Nat} (h : Good s.fs (dstOf root name))
    (hg : s.fs.get (dstOf root name) = some (.dir a₀ m₀)) :
    ∃ s', createDir o root s name m = .ok s' ∧
      (∀ p, p ≠ dstOf root name → s'.fs.get p = s.fs.get p) ∧
      s'.fs.get (dstOf root name) =
        some (.dir (permsAttr o m true a₀) (if m.mtime = 0 then m₀ else some m.mtime.toNat)) ∧
      s'.dirTimes = s.dirTimes ++
        (if m.mtime = 0 then [] else [(dstOf root name, m.mtime.toNat)]) := by
  apply Okay.elim (Q := fun s' : LState => (∀ p, p ≠ dstOf root name → s'.fs.get p = s.fs.get p) ∧
      s'.fs.get (dstOf root name) =
        some (.dir (permsAttr o m true a₀) (if m.mtime = 0 then m₀ else some m.mtime.toNat)) ∧
      s'.dirTimes = s.dirTimes ++ (if m.mtime = 0 then [] else [(dstOf root name, m.mtime.toNat)]))
  unfold createDir
  generalize dstOf root name = dst at *
  simp only []
  rw [lstat_some h hg]
  simp only [Obj.isDir, ↓reduceIte]
  refine Tri.bind (Q := fun f => f = s.fs) (Tri.pure rfl) ?_
  rintro _ rfl
  refine Tri.bind (setPerms_okay o m h hg (by intro t a lm e; cases e) (fun _ _ _ => rfl)) ?_
  intro f2 hf2
  have hob : (Obj.dir a₀ m₀).withAttr (permsAttr o m (Obj.dir a₀ m₀).isDir (Obj.dir a₀ m₀).attr) =
      .dir (permsAttr o m true a₀) m₀ := rfl
  rw [hob] at hf2
  split
  · rename_i h0
    exact Tri.pure ⟨hf2.other, hf2.self, by simp⟩
  · rename_i h0
    refine Tri.bind (Q := fun f3 => Upd f2 f3 dst (.dir (permsAttr o m true a₀) (some m.mtime.toNat)))
      (Okay.sys (chtimes_some m.mtime.toNat hf2.good hf2.self (by intro t a lm e; cases e))
        (upd_set hf2.good _)) ?_
    intro f3 hf3
    exact Tri.pure ⟨(hf2.trans hf3).other, hf3.self, by simp⟩

theorem createFile_fresh (o : Opts) (root : List Name) (s : LState) (name : Bytes) (m : Meta)
    (data : Bytes) (h : Good s.fs (dstOf root name)) (hn : s.fs.get (dstOf root name) = none)
    (ht : ∀ e ∈ s.dirTimes, ¬ dstOf root name <+: e.1) (hnd : (m.xattrs.map Prod.fst).Nodup) :
    ∃ s', createFile o root s name m data = .ok s' ∧
      Creates s.fs s'.fs (dstOf root name) (.file data (attrM o m) (mtimeM m)) ∧
      s'.dirTimes = s.dirTimes := by
  apply Okay.elim (Q := fun s' : LState => Creates s.fs s'.fs (dstOf root name)
      (.file data (attrM o m) (mtimeM m)) ∧ s'.dirTimes = s.dirTimes)
  unfold createFile
  generalize dstOf root name = dst at *
  simp only []
  have hkeep : s.dirTimes.filter (fun d => !(dst.isPrefixOf d.1)) = s.dirTimes := by
    rw [List.filter_eq_self]
    intro e he
    have := ht e he
    cases hp : dst.isPrefixOf e.1 with
    | false => rfl
    | true => exact absurd (List.isPrefixOf_iff_prefix.1 hp) this
  rw [hkeep]
  refine Tri.bind (Q := fun f => f = s.fs) (Okay.sys (removeAll_fresh h hn) rfl) ?_
  rintro _ rfl
  refine Tri.bind (Q := fun f => Creates s.fs f dst (.file data {} none))
    (Okay.sys (createTrunc_fresh data h hn) (creates_create s.fs h.ne _)) ?_
  intro f1 hf1
  refine Tri.bind (perms_tail o m (slots_file data) h hf1 hnd (fun _ _ _ => rfl)) ?_
  intro f2 hf2
  split
  · rename_i h0
    exact Tri.pure ⟨by rw [mtimeM_zero h0]; exact hf2, rfl⟩
  · rename_i h0
    refine Tri.bind (times_tail _ m.mtime.toNat (slots_file data) h hf2) ?_
    intro f3 hf3
    exact Tri.pure ⟨by rw [mtimeM_pos h0]; exact hf3, rfl⟩

/-- no `user.*` attribute among `xs` (they cannot be set on symbolic links and device nodes) -/
def NoUserXattr (xs : List (Bytes × Bytes)) : Prop := ∀ kv ∈ xs, isUserXattr kv.1 = false

theorem createDevice_fresh (o : Opts) (root : List Name) (s : LState) (name : Bytes) (m : Meta)
    (ma mi : Nat) (h : Good s.fs (dstOf root name)) (hn : s.fs.get (dstOf root name) = none)
    (hnd : (m.xattrs.map Prod.fst).Nodup) (hnu : o.noSameOwner = false → NoUserXattr m.xattrs) :
    ∃ s', createDevice o root s name m ma mi = .ok s' ∧
      Creates s.fs s'.fs (dstOf root name) (.dev (mknodType m) ma mi (attrM o m) (mtimeM m)) ∧
      s'.dirTimes = s.dirTimes := by
  apply Okay.elim (Q := fun s' : LState => Creates s.fs s'.fs (dstOf root name)
      (.dev (mknodType m) ma mi (attrM o m) (mtimeM m)) ∧ s'.dirTimes = s.dirTimes)
  unfold createDevice
  generalize dstOf root name = dst at *
  simp only []
  rw [unlinkIfThere_fresh h hn]
  refine Tri.bind (Q := fun f => f = s.fs) (Tri.pure rfl) ?_
  rintro _ rfl
  refine Tri.bind (Q := fun f => Creates s.fs f dst (.dev (mknodType m) ma mi {} none))
    (Okay.sys (mknod_fresh (mknodType m) ma mi h hn) (creates_create s.fs h.ne _)) ?_
  intro f1 hf1
  refine Tri.bind (perms_tail o m (slots_dev (mknodType m) ma mi) h hf1 hnd
    (fun hO kv hkv => by simp [xaOK, hnu hO kv hkv])) ?_
  intro f2 hf2
  split
  · rename_i h0
    exact Tri.pure ⟨by rw [mtimeM_zero h0]; exact hf2, rfl⟩
  · rename_i h0
    refine Tri.bind (times_tail _ m.mtime.toNat (slots_dev (mknodType m) ma mi) h hf2) ?_
    intro f3 hf3
    exact Tri.pure ⟨by rw [mtimeM_pos h0]; exact hf3, rfl⟩

theorem createSymlink_fresh (o : Opts) (root : List Name) (s : LState) (name : Bytes) (m : Meta)
    (target : Bytes) (h : Good s.fs (dstOf root name)) (hn : s.fs.get (dstOf root name) = none)
    (hnd : (m.xattrs.map Prod.fst).Nodup) (hnu : o.noSameOwner = false → NoUserXattr m.xattrs) :
    ∃ s', createSymlink o root s name m target = .ok s' ∧
      Creates s.fs s'.fs (dstOf root name) (.symlink target (linkAttrM o m) (mtimeM m)) ∧
      s'.dirTimes = s.dirTimes := by
  apply Okay.elim (Q := fun s' : LState => Creates s.fs s'.fs (dstOf root name)
      (.symlink target (linkAttrM o m) (mtimeM m)) ∧ s'.dirTimes = s.dirTimes)
  unfold createSymlink
  generalize dstOf root name = dst at *
  simp only []
  rw [unlinkIfThere_fresh h hn]
  refine Tri.bind (Q := fun f => f = s.fs) (Tri.pure rfl) ?_
  rintro _ rfl
  refine Tri.bind (Q := fun f => Creates s.fs f dst (.symlink target {} none))
    (Okay.sys (symlinkAt_fresh target h hn) (creates_create s.fs h.ne _)) ?_
  intro f1 hf1
  have hG1 := h.creates hf1
  -- the link's own mtime, not following it
  have tail : ∀ f4 : FS, Creates s.fs f4 dst (.symlink target (linkAttrM o m) none) →
      Okay (fun s' : LState => Creates s.fs s'.fs dst (.symlink target (linkAttrM o m) (mtimeM m)) ∧
          s'.dirTimes = s.dirTimes)
        (if m.mtime = 0 then (Pure.pure { fs := f4, dirTimes := s.dirTimes } : Except FS LState)
          else (sys f4 (lchtimes f4 dst m.mtime.toNat) >>= fun fs =>
            (Pure.pure { fs := fs, dirTimes := s.dirTimes } : Except FS LState))) := by
    intro f4 hf4
    have hG4 := h.creates hf4
    split
    · rename_i h0
      exact Tri.pure ⟨by rw [mtimeM_zero h0]; exact hf4, rfl⟩
    · rename_i h0
      have hu := upd_set hG4 (.symlink target (linkAttrM o m) (some m.mtime.toNat))
      refine Tri.bind (Q := fun f => Creates s.fs f dst
          (.symlink target (linkAttrM o m) (some m.mtime.toNat)))
        (Okay.sys (lchtimes_some m.mtime.toNat hG4 hf4.get_self) (hf4.upd hu.other hu.self)) ?_
      intro f5 hf5
      exact Tri.pure ⟨by rw [mtimeM_pos h0]; exact hf5, rfl⟩
  -- lchown + lsetxattr
  cases hO : o.noSameOwner with
  | true =>
    simp only [↓reduceIte, pure_bind]
    have e : linkAttrM o m = {} := by simp [linkAttrM, hO]
    exact tail f1 (by rw [e]; exact hf1)
  | false =>
    simp only [Bool.false_eq_true, ↓reduceIte]
    refine Tri.bind (Q := fun f => Upd f1 f dst ((Obj.symlink target {} none).withAttr
        (chownAttr false {} m.uid.toNat m.gid.toNat)))
      (Okay.sys (chown_some false _ _ hG1 hf1.get_self (by intro hf; cases hf)) (upd_set hG1 _)) ?_
    intro f2 hf2
    refine Tri.bind (setXattrs_okay (Obj.symlink target {} none) m.xattrs f2 _ hf2.good hf2.self
      (fun kv hkv => by simp [xaOK, hnu hO kv hkv])) ?_
    intro f3 hf3
    have e : (Obj.symlink target {} none).withAttr
        { chownAttr false {} m.uid.toNat m.gid.toNat with
          xattrs := xaFold (chownAttr false {} m.uid.toNat m.gid.toNat).xattrs m.xattrs } =
        .symlink target (linkAttrM o m) none := by
      simp [Obj.withAttr, linkAttrM, chownAttr, hO, xaFold_nil_left hnd]
    rw [e] at hf3
    have hu := hf2.trans hf3
    exact tail f3 (hf1.upd hu.other hu.self)

/-- **EPERM**: with ownership/xattrs being restored, a symbolic link record carrying a `user.*` extended
    attribute makes `CreateSymlink` fail (the link itself has been created by then) -/
theorem setXattrs_link_fails {dst : List Name} (target : Bytes) :
    ∀ (xs : List (Bytes × Bytes)) (fs : FS) (a : Attr) (lm : Option Nat), Good fs dst →
      fs.get dst = some (.symlink target a lm) →
      (∃ kv ∈ xs, isUserXattr kv.1 = true) → ∃ f, setXattrs fs dst xs = .error f
  | [], _, _, _, _, _, hx => by obtain ⟨_, h, _⟩ := hx; cases h
  | (k, v) :: rest, fs, a, lm, h, hg, hx => by
    rw [setXattrs]
    cases hk : isUserXattr k with
    | true =>
      rw [lsetxattr_refused k v h hg (by simp [xaOK, hk])]
      exact ⟨fs, rfl⟩
    | false =>
      rw [lsetxattr_some k v h hg (by simp [xaOK, hk])]
      have hu := upd_set h ((Obj.symlink target a lm).withAttr
        { (Obj.symlink target a lm).attr with xattrs := xaSet (Obj.symlink target a lm).attr.xattrs k v })
      obtain ⟨kv, hkv, hkvu⟩ := hx
      have hrest : ∃ kv ∈ rest, isUserXattr kv.1 = true := by
        rcases List.mem_cons.1 hkv with rfl | hkv
        · rw [hk] at hkvu; cases hkvu
        · exact ⟨kv, hkv, hkvu⟩
      exact setXattrs_link_fails target rest _ _ _ hu.good hu.self hrest

theorem createSymlink_user_xattr_fails (o : Opts) (root : List Name) (s : LState) (name : Bytes) (m : Meta)
    (target : Bytes) (h : Good s.fs (dstOf root name)) (hn : s.fs.get (dstOf root name) = none)
    (hO : o.noSameOwner = false) (hx : ∃ kv ∈ m.xattrs, isUserXattr kv.1 = true) :
    ∃ f, createSymlink o root s name m target = .error f := by
  unfold createSymlink
  generalize dstOf root name = dst at *
  simp only []
  have hc := creates_create s.fs h.ne (Obj.symlink target {} none)
  have hG1 := h.creates hc
  have hu := upd_set hG1 ((Obj.symlink target {} none).withAttr
    (chownAttr (Obj.symlink target {} none).isDir (Obj.symlink target {} none).attr m.uid.toNat m.gid.toNat))
  obtain ⟨f, hf⟩ := setXattrs_link_fails target m.xattrs _ _ _ hu.good hu.self hx
  rw [unlinkIfThere_fresh h hn]
  simp only [bind, Except.bind]
  rw [symlinkAt_fresh target h hn]
  simp only [sys, hO, Bool.false_eq_true, ↓reduceIte]
  rw [chown_some false _ _ hG1 hc.get_self (by intro hf; cases hf)]
  simp only [hf]
  exact ⟨f, rfl⟩

end Desync.LFS
