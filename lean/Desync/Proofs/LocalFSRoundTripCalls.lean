/-
  Forward direction of the `LocalFS` toolkit: when the destination of a node lies at the end of a chain
  of real directories and nothing exists there yet, every system call of the method *succeeds*, and the
  method leaves exactly one new object (the parent directory's mtime becomes "now").
-/
import Desync.Proofs.LocalFSCalls
import Desync.Proofs.LocalFSPath

namespace Desync.LFS
open Desync

/-! ### `touch` exactly -/

/-- what creating an entry does to the directory holding it -/
def touchObj : Option Obj → Option Obj
  | some (.dir a _) => some (.dir a none)
  | x => x

theorem touchObj_idem (x : Option Obj) : touchObj (touchObj x) = touchObj x := by
  cases x with
  | none => rfl
  | some ob => cases ob <;> rfl

theorem touchObj_none : touchObj none = none := rfl

theorem isDir_touchObj {x : Option Obj} (h : IsDir x) : IsDir (touchObj x) := by
  obtain ⟨a, m, rfl⟩ := h
  exact ⟨a, none, rfl⟩

theorem get_touch (fs : FS) (p q : RPath) :
    (fs.touch p).get q = if q = p then touchObj (fs.get p) else fs.get q := by
  by_cases h : q = p
  · subst h
    rw [if_pos rfl]
    unfold FS.touch
    split
    · rename_i a m hg
      rw [get_set_self, hg]; rfl
    · rename_i hn
      cases hg : fs.get q with
      | none => rfl
      | some ob =>
        cases ob with
        | dir a m => exact absurd hg (hn a m)
        | file d a m => rfl
        | symlink t a => rfl
        | dev ma mi a m => rfl
  · rw [if_neg h]; exact get_touch_ne _ h

/-! ### resolution succeeds along real directories -/

/-- every component fits `NAME_MAX` -/
def Short (P : List Name) : Prop := ∀ c ∈ P, c.length ≤ 255

theorem DirsFrom.tail {fs : FS} {cur : RPath} {c : Name} {rest : List Name}
    (h : DirsFrom fs cur (c :: rest)) : DirsFrom fs (cur ++ [c]) rest := by
  intro Q R e hQ hR
  have := h (c :: Q) R (by rw [e]; rfl) (by simp) hR
  simpa using this

theorem walk_dirs (fs : FS) (follow : Bool) :
    ∀ (P : List Name) (fuel : Nat) (cur : RPath), Normal P → Short P → DirsFrom fs cur P →
      (follow = true → P ≠ [] → NotLink (fs.get (cur ++ P))) → P.length < fuel →
      walk fs follow fuel cur P = .ok (cur ++ P)
  | [], fuel, cur, _, _, _, _, hf => by
    cases fuel with
    | zero => simp at hf
    | succ fuel => simp [walk]
  | c :: rest, fuel, cur, hN, hSh, hD, hL, hf => by
    cases fuel with
    | zero => simp at hf
    | succ fuel =>
      have hc := hN c (by simp)
      have hcl : ¬ c.length > 255 := by have := hSh c (by simp); omega
      have hNr : Normal rest := fun x hx => hN x (by simp [hx])
      have hShr : Short rest := fun x hx => hSh x (by simp [hx])
      rw [walk, if_neg hc.1, if_neg hc.2, if_neg hcl]
      by_cases hr : rest = []
      · subst hr
        have hfuel : 0 < fuel := by simp at hf; omega
        obtain ⟨k, rfl⟩ : ∃ k, fuel = k + 1 := ⟨fuel - 1, by omega⟩
        cases hg : fs.get (cur ++ [c]) with
        | none => simp [hg]
        | some ob =>
          cases ob with
          | symlink t a =>
            cases follow with
            | false => simp [hg]
            | true => exact absurd hg (hL rfl (by simp) t a)
          | dir a m => simp [hg, walk]
          | file d a m => simp [hg]
          | dev ma mi a m => simp [hg]
      · obtain ⟨a, m, hg⟩ : IsDir (fs.get (cur ++ [c])) := hD [c] rest rfl (by simp) hr
        simp only [hg]
        have := walk_dirs fs follow rest fuel (cur ++ [c]) hNr hShr hD.tail
          (by intro hf' hr'; simpa using hL hf' (by simp)) (by simp at hf; omega)
        simpa using this

/-- `dst` is a usable destination: normal short components, all proper prefixes real directories -/
structure Good (fs : FS) (dst : List Name) : Prop where
  normal : Normal dst
  short : Short dst
  ne : dst ≠ []
  dirs : ProperDirs fs dst

theorem resolve_ok {fs : FS} {follow : Bool} {dst : List Name} (h : Good fs dst)
    (hL : follow = true → NotLink (fs.get dst)) : resolve fs follow dst = .ok dst := by
  have := walk_dirs fs follow dst (fuelFor fs dst) [] h.normal h.short h.dirs
    (by intro hf _; simpa using hL hf) (by unfold fuelFor; omega)
  simpa [resolve] using this

theorem resolve_nofollow {fs : FS} {dst : List Name} (h : Good fs dst) :
    resolve fs false dst = .ok dst := resolve_ok h (by intro hf; cases hf)

theorem Good.parent {fs : FS} {dst : List Name} (h : Good fs dst) : parentIsDir fs dst = true := by
  rw [parentIsDir_iff]
  refine ⟨h.ne, ?_⟩
  by_cases hd : dst.dropLast = []
  · exact .inl hd
  · right
    have := h.dirs dst.dropLast [dst.getLast h.ne] (List.dropLast_concat_getLast h.ne).symm hd (by simp)
    simpa using this

/-- a proper prefix is not the whole -/
theorem proper_ne {dst Q R : List Name} (e : dst = Q ++ R) (hR : R ≠ []) : Q ≠ dst := by
  intro h
  have := congrArg List.length e
  rw [h] at this
  simp at this
  exact hR this

theorem Good.upd {fs fs' : FS} {dst : List Name} (h : Good fs dst)
    (hg : ∀ p, p ≠ dst → fs'.get p = fs.get p) : Good fs' dst := by
  refine ⟨h.normal, h.short, h.ne, ?_⟩
  intro Q R e hQ hR
  have := h.dirs Q R e hQ hR
  simp only [List.nil_append] at this ⊢
  rw [hg Q (proper_ne e hR)]; exact this

/-- exactly one new object at `dst`; its parent directory has been touched -/
def Creates (fs fs' : FS) (dst : RPath) (ob : Obj) : Prop :=
  ∀ p, fs'.get p = if p = dst then some ob else if p = dst.dropLast then touchObj (fs.get p) else fs.get p

theorem creates_create (fs : FS) {dst : RPath} (hne : dst ≠ []) (ob : Obj) :
    Creates fs ((fs.set dst ob).touch dst.dropLast) dst ob := by
  intro p
  rw [get_touch]
  by_cases hp : p = dst
  · subst hp
    have : p ≠ p.dropLast := by
      intro e
      have := congrArg List.length e
      simp at this
      have : 0 < p.length := List.length_pos_iff.2 hne
      omega
    rw [if_neg this, if_pos rfl, get_set_self]
  · rw [if_neg hp]
    by_cases hq : p = dst.dropLast
    · subst hq
      have : dst.dropLast ≠ dst := hp
      rw [if_pos rfl, if_pos rfl, get_set_ne _ _ this]
    · rw [if_neg hq, if_neg hq, get_set_ne _ _ hp]

theorem Creates.get_self {fs fs' : FS} {dst : RPath} {ob : Obj} (h : Creates fs fs' dst ob) :
    fs'.get dst = some ob := by rw [h dst, if_pos rfl]

theorem Creates.upd {fs fs₁ fs₂ : FS} {dst : RPath} {ob ob' : Obj} (h : Creates fs fs₁ dst ob)
    (hg : ∀ p, p ≠ dst → fs₂.get p = fs₁.get p) (hd : fs₂.get dst = some ob') :
    Creates fs fs₂ dst ob' := by
  intro p
  by_cases hp : p = dst
  · subst hp; rw [if_pos rfl, hd]
  · rw [hg p hp, h p]; simp only [if_neg hp]

theorem Good.creates {fs fs' : FS} {dst : List Name} {ob : Obj} (h : Good fs dst)
    (hc : Creates fs fs' dst ob) : Good fs' dst := by
  refine ⟨h.normal, h.short, h.ne, ?_⟩
  intro Q R e hQ hR
  have := h.dirs Q R e hQ hR
  simp only [List.nil_append] at this ⊢
  rw [hc Q, if_neg (proper_ne e hR)]
  split
  · exact isDir_touchObj this
  · exact this

/-! ### the system calls on a fresh destination / on an existing non-link -/

section calls
variable {fs : FS} {dst : List Name}

theorem lstat_fresh (h : Good fs dst) (hn : fs.get dst = none) : lstat fs dst = .error .noent := by
  unfold lstat
  simp [resolve_nofollow h, bind, Except.bind, h.ne, hn]

theorem lstat_some {ob : Obj} (h : Good fs dst) (hg : fs.get dst = some ob) : lstat fs dst = .ok ob := by
  unfold lstat
  simp [resolve_nofollow h, bind, Except.bind, h.ne, hg, pure, Except.pure]

theorem mkdir_fresh (h : Good fs dst) (hn : fs.get dst = none) :
    mkdir fs dst = .ok ((fs.set dst (.dir none none)).touch dst.dropLast) := by
  unfold mkdir
  simp [resolve_nofollow h, bind, Except.bind, h.ne, hn, h.parent, pure, Except.pure]

theorem symlinkAt_fresh (target : Bytes) (h : Good fs dst) (hn : fs.get dst = none) :
    symlinkAt fs target dst = .ok ((fs.set dst (.symlink target none)).touch dst.dropLast) := by
  unfold symlinkAt
  simp [resolve_nofollow h, bind, Except.bind, h.ne, hn, h.parent, pure, Except.pure]

theorem mknod_fresh (ma mi : Nat) (h : Good fs dst) (hn : fs.get dst = none) :
    mknod fs dst ma mi = .ok ((fs.set dst (.dev ma mi none none)).touch dst.dropLast) := by
  unfold mknod
  simp [resolve_nofollow h, bind, Except.bind, h.ne, hn, h.parent, pure, Except.pure]

theorem removeAll_fresh (h : Good fs dst) (hn : fs.get dst = none) : removeAll fs dst = .ok fs := by
  unfold removeAll
  simp [resolve_nofollow h, h.ne, hn]

theorem unlinkIfThere_fresh (h : Good fs dst) (hn : fs.get dst = none) :
    unlinkIfThere fs dst = .ok fs := by
  unfold unlinkIfThere unlink
  simp [resolve_nofollow h, bind, Except.bind, hn]

theorem createTrunc_fresh (data : Bytes) (h : Good fs dst) (hn : fs.get dst = none) :
    createTrunc fs dst data = .ok ((fs.set dst (.file data none none)).touch dst.dropLast) := by
  unfold createTrunc
  simp [resolve_ok h (fun _ => hn ▸ notLink_none), bind, Except.bind, h.ne, hn, h.parent, pure,
    Except.pure]

theorem setAttr_some {ob : Obj} (follow : Bool) (a : Nat) (h : Good fs dst) (hg : fs.get dst = some ob)
    (hL : follow = true → NotLink (some ob)) :
    setAttr fs follow dst a = .ok (fs.set dst (ob.withAttr (some a))) := by
  unfold setAttr
  simp [resolve_ok h (fun hf => hg ▸ hL hf), bind, Except.bind, hg, pure, Except.pure]

theorem chtimes_some {ob : Obj} (t : Nat) (h : Good fs dst) (hg : fs.get dst = some ob)
    (hL : NotLink (some ob)) :
    chtimes fs dst t = .ok (fs.set dst (ob.withMtime (some t))) := by
  unfold chtimes
  simp [resolve_ok h (fun _ => hg ▸ hL), bind, Except.bind, hg, pure, Except.pure]

end calls

/-! ### methods that succeed: `Okay Q x` = `x` is a normal result satisfying `Q` -/

abbrev Okay {α} (Q : α → Prop) (x : Except FS α) : Prop := Tri (fun _ => False) Q x

theorem Okay.elim {α} {Q : α → Prop} {x : Except FS α} (h : Okay Q x) : ∃ a, x = .ok a ∧ Q a := by
  cases x with
  | ok a => exact ⟨a, rfl, h⟩
  | error f => exact False.elim h

theorem Okay.sys {Q : FS → Prop} {fs fs' : FS} {r : Except Err FS} (hr : r = .ok fs') (hQ : Q fs') :
    Okay Q (sys fs r) := by
  subst hr; exact hQ

/-- the object at `dst` is replaced by `ob'`, nothing else changes, `dst` stays usable -/
structure Upd (fs fs' : FS) (dst : List Name) (ob' : Obj) : Prop where
  good : Good fs' dst
  other : ∀ p, p ≠ dst → fs'.get p = fs.get p
  self : fs'.get dst = some ob'

theorem upd_set {fs : FS} {dst : List Name} (h : Good fs dst) (ob' : Obj) :
    Upd fs (fs.set dst ob') dst ob' :=
  ⟨h.upd (fun _ hp => get_set_ne _ _ hp), fun _ hp => get_set_ne _ _ hp, get_set_self _ _ _⟩

theorem Upd.trans {f g h : FS} {dst : List Name} {o₁ o₂ : Obj} (h1 : Upd f g dst o₁)
    (h2 : Upd g h dst o₂) : Upd f h dst o₂ :=
  ⟨h2.good, fun p hp => (h2.other p hp).trans (h1.other p hp), h2.self⟩

/-- the attribute stamp `setPerms` leaves (on an object created without one) -/
def stampM (o : Opts) (m : Meta) : Option Nat :=
  if o.noSameOwner && o.noSamePermissions then none else some (attrOf m)

def linkStampM (o : Opts) (m : Meta) : Option Nat :=
  if o.noSameOwner then none else some (attrOf m)

def mtimeM (m : Meta) : Option Nat := if m.mtime = 0 then none else some m.mtime.toNat

/-- the attribute `setPerms` leaves on an object whose attribute was `a₀` -/
def stampOver (o : Opts) (m : Meta) (a₀ : Option Nat) : Option Nat :=
  if o.noSameOwner && o.noSamePermissions then a₀ else some (attrOf m)

theorem withAttr_withAttr (ob : Obj) (a b : Option Nat) : (ob.withAttr a).withAttr b = ob.withAttr b := by
  cases ob <;> rfl

theorem setPerms_okay (o : Opts) (m : Meta) {fs : FS} {dst : List Name} {ob : Obj} (h : Good fs dst)
    (hg : fs.get dst = some ob) (hL : NotLink (some ob)) :
    Okay (fun fs' => Upd fs fs' dst
        (if o.noSameOwner && o.noSamePermissions then ob else ob.withAttr (some (attrOf m))))
      (setPerms o fs dst m) := by
  have step : ∀ (f : FS) (follow : Bool) (ob₁ : Obj), Good f dst → f.get dst = some ob₁ →
      NotLink (some ob₁) →
      Okay (fun f' => Upd f f' dst (ob₁.withAttr (some (attrOf m))))
        (sys f (setAttr f follow dst (attrOf m))) := by
    intro f follow ob₁ hf hg₁ hL₁
    exact Okay.sys (setAttr_some follow _ hf hg₁ (fun _ => hL₁)) (upd_set hf _)
  have hrefl : Upd fs fs dst ob := ⟨h, fun _ _ => rfl, hg⟩
  have hL' : NotLink (some (ob.withAttr (some (attrOf m)))) := notLink_withAttr hL
  unfold setPerms
  simp only [pure_bind]
  cases hO : o.noSameOwner <;> cases hP : o.noSamePermissions <;>
    simp only [Bool.false_eq_true, ↓reduceIte, Bool.and_false, Bool.and_true, Bool.and_self]
  · -- chown, (xattrs,) chmod
    refine Tri.bind (step fs true ob h hg hL) ?_
    intro f1 hf1
    by_cases hx : m.xattrs = []
    · simp only [hx, ↓reduceIte]
      have := step f1 true _ hf1.good hf1.self hL'
      rw [withAttr_withAttr] at this
      exact this.mono (fun _ h => h) (fun f2 hf2 => hf1.trans hf2)
    · simp only [hx, ↓reduceIte]
      have h2 := step f1 false _ hf1.good hf1.self hL'
      rw [withAttr_withAttr] at h2
      refine Tri.bind h2 ?_
      intro f2 hf2
      have h3 := step f2 true _ hf2.good hf2.self hL'
      rw [withAttr_withAttr] at h3
      exact h3.mono (fun _ h => h) (fun f3 hf3 => (hf1.trans hf2).trans hf3)
  · -- chown, (xattrs)
    refine Tri.bind (step fs true ob h hg hL) ?_
    intro f1 hf1
    by_cases hx : m.xattrs = []
    · simp only [hx, ↓reduceIte]
      exact Tri.pure hf1
    · simp only [hx, ↓reduceIte]
      have h2 := step f1 false _ hf1.good hf1.self hL'
      rw [withAttr_withAttr] at h2
      refine Tri.bind h2 ?_
      intro f2 hf2
      exact Tri.pure (hf1.trans hf2)
  · -- chmod
    exact step fs true ob h hg hL
  · exact Tri.pure hrefl

/-! ### the methods on a fresh destination -/

/-- object constructors with an attribute and an mtime slot: `Obj.dir`, `Obj.file d`, `Obj.dev ma mi` -/
structure Slots (k : Option Nat → Option Nat → Obj) : Prop where
  attr : ∀ a t b, (k a t).withAttr b = k b t
  mtime : ∀ a t u, (k a t).withMtime u = k a u
  notLink : ∀ a t, NotLink (some (k a t))

theorem slots_dir : Slots Obj.dir := ⟨fun _ _ _ => rfl, fun _ _ _ => rfl, fun _ _ _ _ e => by cases e⟩
theorem slots_file (d : Bytes) : Slots (Obj.file d) :=
  ⟨fun _ _ _ => rfl, fun _ _ _ => rfl, fun _ _ _ _ e => by cases e⟩
theorem slots_dev (ma mi : Nat) : Slots (Obj.dev ma mi) :=
  ⟨fun _ _ _ => rfl, fun _ _ _ => rfl, fun _ _ _ _ e => by cases e⟩

section tail
variable {k : Option Nat → Option Nat → Obj} {fs0 f1 : FS} {dst : List Name}

theorem perms_tail (o : Opts) (m : Meta) (hk : Slots k) (hG : Good fs0 dst)
    (hc : Creates fs0 f1 dst (k none none)) :
    Okay (fun f2 => Creates fs0 f2 dst (k (stampM o m) none)) (setPerms o f1 dst m) := by
  refine (setPerms_okay o m (hG.creates hc) hc.get_self (hk.notLink _ _)).mono (fun _ h => h) ?_
  intro f2 hf2
  have hob : (if (o.noSameOwner && o.noSamePermissions) = true then k none none
      else (k none none).withAttr (some (attrOf m))) = k (stampM o m) none := by
    unfold stampM; split
    · rfl
    · exact hk.attr _ _ _
  rw [hob] at hf2
  exact hc.upd hf2.other hf2.self

theorem times_tail (a : Option Nat) (t : Nat) (hk : Slots k) (hG : Good fs0 dst)
    (hc : Creates fs0 f1 dst (k a none)) :
    Okay (fun f2 => Creates fs0 f2 dst (k a (some t))) (sys f1 (chtimes f1 dst t)) := by
  have hG1 := hG.creates hc
  refine Okay.sys (chtimes_some t hG1 hc.get_self (hk.notLink _ _)) ?_
  rw [hk.mtime]
  have := upd_set hG1 (k a (some t))
  exact hc.upd this.other this.self

end tail

theorem mtimeM_zero {m : Meta} (h : m.mtime = 0) : mtimeM m = none := by simp [mtimeM, h]
theorem mtimeM_pos {m : Meta} (h : ¬ m.mtime = 0) : mtimeM m = some m.mtime.toNat := by simp [mtimeM, h]

theorem createDir_fresh (o : Opts) (root : List Name) (s : LState) (name : Bytes) (m : Meta)
    (h : Good s.fs (dstOf root name)) (hn : s.fs.get (dstOf root name) = none) :
    ∃ s', createDir o root s name m = .ok s' ∧
      Creates s.fs s'.fs (dstOf root name) (.dir (stampM o m) (mtimeM m)) ∧
      s'.dirTimes = s.dirTimes ++
        (if m.mtime = 0 then [] else [(dstOf root name, m.mtime.toNat)]) := by
  apply Okay.elim (Q := fun s' : LState => Creates s.fs s'.fs (dstOf root name) (.dir (stampM o m) (mtimeM m)) ∧
      s'.dirTimes = s.dirTimes ++ (if m.mtime = 0 then [] else [(dstOf root name, m.mtime.toNat)]))
  unfold createDir
  generalize dstOf root name = dst at *
  simp only []
  rw [lstat_fresh h hn]
  simp only []
  refine Tri.bind (Q := fun f => Creates s.fs f dst (.dir none none))
    (Okay.sys (mkdir_fresh h hn) (creates_create s.fs h.ne _)) ?_
  intro f1 hf1
  refine Tri.bind (perms_tail o m slots_dir h hf1) ?_
  intro f2 hf2
  split
  · rename_i h0
    exact Tri.pure ⟨by rw [mtimeM_zero h0]; exact hf2, by simp⟩
  · rename_i h0
    refine Tri.bind (times_tail _ m.mtime.toNat slots_dir h hf2) ?_
    intro f3 hf3
    exact Tri.pure ⟨by rw [mtimeM_pos h0]; exact hf3, by simp⟩

/-- the destination is a real directory already (`UnTar` into an existing directory): no `mkdir`, the
    directory keeps its attribute stamp unless the options ask for the archived one, and keeps its mtime
    when the archive records none -/
theorem createDir_existing (o : Opts) (root : List Name) (s : LState) (name : Bytes) (m : Meta)
    {a₀ m₀ : Option Nat} (h : Good s.fs (dstOf root name))
    (hg : s.fs.get (dstOf root name) = some (.dir a₀ m₀)) :
    ∃ s', createDir o root s name m = .ok s' ∧
      (∀ p, p ≠ dstOf root name → s'.fs.get p = s.fs.get p) ∧
      s'.fs.get (dstOf root name) =
        some (.dir (stampOver o m a₀) (if m.mtime = 0 then m₀ else some m.mtime.toNat)) ∧
      s'.dirTimes = s.dirTimes ++
        (if m.mtime = 0 then [] else [(dstOf root name, m.mtime.toNat)]) := by
  apply Okay.elim (Q := fun s' : LState => (∀ p, p ≠ dstOf root name → s'.fs.get p = s.fs.get p) ∧
      s'.fs.get (dstOf root name) =
        some (.dir (stampOver o m a₀) (if m.mtime = 0 then m₀ else some m.mtime.toNat)) ∧
      s'.dirTimes = s.dirTimes ++ (if m.mtime = 0 then [] else [(dstOf root name, m.mtime.toNat)]))
  unfold createDir
  generalize dstOf root name = dst at *
  simp only []
  rw [lstat_some h hg]
  simp only [Obj.isDir, ↓reduceIte]
  refine Tri.bind (Q := fun f => f = s.fs) (Tri.pure rfl) ?_
  rintro _ rfl
  refine Tri.bind (setPerms_okay o m h hg (by intro t a e; cases e)) ?_
  intro f2 hf2
  have hob : (if (o.noSameOwner && o.noSamePermissions) = true then Obj.dir a₀ m₀
      else (Obj.dir a₀ m₀).withAttr (some (attrOf m))) = .dir (stampOver o m a₀) m₀ := by
    unfold stampOver; split <;> rfl
  rw [hob] at hf2
  split
  · rename_i h0
    exact Tri.pure ⟨hf2.other, hf2.self, by simp⟩
  · rename_i h0
    refine Tri.bind (Q := fun f3 => Upd f2 f3 dst (.dir (stampOver o m a₀) (some m.mtime.toNat)))
      (Okay.sys (chtimes_some m.mtime.toNat hf2.good hf2.self (by intro t a e; cases e))
        (upd_set hf2.good _)) ?_
    intro f3 hf3
    exact Tri.pure ⟨(hf2.trans hf3).other, hf3.self, by simp⟩

theorem createFile_fresh (o : Opts) (root : List Name) (s : LState) (name : Bytes) (m : Meta)
    (data : Bytes) (h : Good s.fs (dstOf root name)) (hn : s.fs.get (dstOf root name) = none)
    (ht : ∀ e ∈ s.dirTimes, ¬ dstOf root name <+: e.1) :
    ∃ s', createFile o root s name m data = .ok s' ∧
      Creates s.fs s'.fs (dstOf root name) (.file data (stampM o m) (mtimeM m)) ∧
      s'.dirTimes = s.dirTimes := by
  apply Okay.elim (Q := fun s' : LState => Creates s.fs s'.fs (dstOf root name)
      (.file data (stampM o m) (mtimeM m)) ∧ s'.dirTimes = s.dirTimes)
  unfold createFile
  generalize dstOf root name = dst at *
  simp only []
  have hkeep : s.dirTimes.filter (fun d => !(dst.isPrefixOf d.1)) = s.dirTimes := by
    rw [List.filter_eq_self]
    intro e he
    have := ht e he
    cases hp : dst.isPrefixOf e.1 with
    | false => rfl
    | true => exact absurd (List.isPrefixOf_iff_prefix.1 hp) this
  rw [hkeep]
  refine Tri.bind (Q := fun f => f = s.fs) (Okay.sys (removeAll_fresh h hn) rfl) ?_
  rintro _ rfl
  refine Tri.bind (Q := fun f => Creates s.fs f dst (.file data none none))
    (Okay.sys (createTrunc_fresh data h hn) (creates_create s.fs h.ne _)) ?_
  intro f1 hf1
  refine Tri.bind (perms_tail o m (slots_file data) h hf1) ?_
  intro f2 hf2
  split
  · rename_i h0
    exact Tri.pure ⟨by rw [mtimeM_zero h0]; exact hf2, rfl⟩
  · rename_i h0
    refine Tri.bind (times_tail _ m.mtime.toNat (slots_file data) h hf2) ?_
    intro f3 hf3
    exact Tri.pure ⟨by rw [mtimeM_pos h0]; exact hf3, rfl⟩

theorem createDevice_fresh (o : Opts) (root : List Name) (s : LState) (name : Bytes) (m : Meta)
    (ma mi : Nat) (h : Good s.fs (dstOf root name)) (hn : s.fs.get (dstOf root name) = none) :
    ∃ s', createDevice o root s name m ma mi = .ok s' ∧
      Creates s.fs s'.fs (dstOf root name) (.dev ma mi (stampM o m) (mtimeM m)) ∧
      s'.dirTimes = s.dirTimes := by
  apply Okay.elim (Q := fun s' : LState => Creates s.fs s'.fs (dstOf root name)
      (.dev ma mi (stampM o m) (mtimeM m)) ∧ s'.dirTimes = s.dirTimes)
  unfold createDevice
  generalize dstOf root name = dst at *
  simp only []
  rw [unlinkIfThere_fresh h hn]
  refine Tri.bind (Q := fun f => f = s.fs) (Tri.pure rfl) ?_
  rintro _ rfl
  refine Tri.bind (Q := fun f => Creates s.fs f dst (.dev ma mi none none))
    (Okay.sys (mknod_fresh ma mi h hn) (creates_create s.fs h.ne _)) ?_
  intro f1 hf1
  refine Tri.bind (perms_tail o m (slots_dev ma mi) h hf1) ?_
  intro f2 hf2
  split
  · rename_i h0
    exact Tri.pure ⟨by rw [mtimeM_zero h0]; exact hf2, rfl⟩
  · rename_i h0
    refine Tri.bind (times_tail _ m.mtime.toNat (slots_dev ma mi) h hf2) ?_
    intro f3 hf3
    exact Tri.pure ⟨by rw [mtimeM_pos h0]; exact hf3, rfl⟩

theorem createSymlink_fresh (o : Opts) (root : List Name) (s : LState) (name : Bytes) (m : Meta)
    (target : Bytes) (h : Good s.fs (dstOf root name)) (hn : s.fs.get (dstOf root name) = none) :
    ∃ s', createSymlink o root s name m target = .ok s' ∧
      Creates s.fs s'.fs (dstOf root name) (.symlink target (linkStampM o m)) ∧
      s'.dirTimes = s.dirTimes := by
  apply Okay.elim (Q := fun s' : LState => Creates s.fs s'.fs (dstOf root name)
      (.symlink target (linkStampM o m)) ∧ s'.dirTimes = s.dirTimes)
  unfold createSymlink
  generalize dstOf root name = dst at *
  simp only []
  rw [unlinkIfThere_fresh h hn]
  refine Tri.bind (Q := fun f => f = s.fs) (Tri.pure rfl) ?_
  rintro _ rfl
  refine Tri.bind (Q := fun f => Creates s.fs f dst (.symlink target none))
    (Okay.sys (symlinkAt_fresh target h hn) (creates_create s.fs h.ne _)) ?_
  intro f1 hf1
  have step : ∀ f : FS, Creates s.fs f dst (.symlink target (some (attrOf m))) ∨
        Creates s.fs f dst (.symlink target none) →
      Okay (fun f' => Creates s.fs f' dst (.symlink target (some (attrOf m))))
        (sys f (setAttr f false dst (attrOf m))) := by
    intro f hf
    rcases hf with hf | hf
    · have hG := h.creates hf
      refine Okay.sys (setAttr_some false _ hG hf.get_self (by intro hf; cases hf)) ?_
      have := upd_set hG ((Obj.symlink target (some (attrOf m))).withAttr (some (attrOf m)))
      exact hf.upd this.other this.self
    · have hG := h.creates hf
      refine Okay.sys (setAttr_some false _ hG hf.get_self (by intro hf; cases hf)) ?_
      have := upd_set hG ((Obj.symlink target none).withAttr (some (attrOf m)))
      exact hf.upd this.other this.self
  simp only [pure_bind]
  unfold linkStampM
  cases o.noSameOwner with
  | true => exact Tri.pure ⟨hf1, rfl⟩
  | false =>
    simp only [Bool.false_eq_true, ↓reduceIte]
    refine Tri.bind (step f1 (.inr hf1)) ?_
    intro f2 hf2
    split
    · exact Tri.pure ⟨hf2, rfl⟩
    · refine Tri.bind (step f2 (.inl hf2)) ?_
      intro f3 hf3
      exact Tri.pure ⟨hf3, rfl⟩

end Desync.LFS
