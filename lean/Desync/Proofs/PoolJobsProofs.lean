/-
  The pool with an outcome oracle (`Pool.stepJ`): its runs are runs of the generic pool, a job is
  recorded as done only if the oracle says it succeeds, a worker failure means some job is bad, and
  the machine cannot get stuck.
-/
import Desync.Model.PoolJobs
import Desync.Proofs.PoolProofs

namespace Desync.Pool

theorem stepJ_sub {sh : PoolShape} {good : Nat → Bool} {s s' : St} {e : Ev}
    (h : stepJ sh good s e = some s') : step sh s e = some s' := by
  cases e <;> simp only [stepJ] at h <;> first | exact h | skip
  all_goals
    split at h
    · split at h <;> first | exact h | cases h
    · cases h

theorem reachableJ_reachable {sh : PoolShape} {good : Nat → Bool} {s0 s : St}
    (h : ReachableJ sh good s0 s) : Reachable sh s0 s := by
  induction h with
  | refl => exact .refl
  | step e _ hs ih => exact .step e ih (stepJ_sub hs)

/-- what the oracle adds to the pool's invariant -/
structure InvJ (good : Nat → Bool) (jobs : Nat) (s : St) : Prop where
  done_good : ∀ j, s.done.getD j false = true → good j = true
  err_bad : s.groupErr = true → ∃ j, j < jobs ∧ good j = false

theorem invJ_init (good : Nat → Bool) (jobs n : Nat) : InvJ good jobs (St.init jobs n) := by
  constructor
  · intro j h
    simp [St.init, List.getD_eq_getElem?_getD, List.getElem?_replicate] at h
    split at h <;> simp at h
  · intro h; simp [St.init] at h

theorem invJ_step {sh : PoolShape} {good : Nat → Bool} {jobs n : Nat} {s s' : St} (e : Ev)
    (hi : Inv sh jobs n s) (hj : InvJ good jobs s) (h : stepJ sh good s e = some s') :
    InvJ good jobs s' := by
  obtain ⟨hd, he⟩ := hj
  cases e with
  | workOk w =>
    simp only [stepJ] at h
    split at h
    · rename_i j₀ hw
      split at h
      · rename_i hg
        simp only [step, hw] at h
        cases h
        constructor
        · intro j hjd
          by_cases hjj : j = j₀
          · subst hjj; exact hg
          · apply hd
            simpa [List.getD_eq_getElem?_getD, List.getElem?_set, Ne.symm hjj] using hjd
        · exact he
      · cases h
    · cases h
  | workFail w =>
    simp only [stepJ] at h
    split at h
    · rename_i j₀ hw
      split at h
      · cases h
      · rename_i hg
        simp only [step, hw] at h
        cases h
        constructor
        · exact hd
        · intro _
          have hlt := hi.busy_lt w j₀ hw
          have := hi.next_le
          exact ⟨j₀, by omega, by simpa using hg⟩
    · cases h
  | _ =>
    simp only [stepJ, step] at h
    split at h <;> cases h
    exact ⟨hd, he⟩

theorem invJ_reachable {sh : PoolShape} {good : Nat → Bool} {jobs n : Nat} {s : St}
    (h : ReachableJ sh good (St.init jobs n) s) : Inv sh jobs n s ∧ InvJ good jobs s := by
  induction h with
  | refl => exact ⟨inv_init sh jobs n, invJ_init good jobs n⟩
  | step e _ hs ih => exact ⟨inv_step e ih.1 (stepJ_sub hs), invJ_step e ih.1 ih.2 hs⟩

/-- **success ⇒ every job is good**, under any cancellation, for a shape that marks and reports
    the interruption -/
theorem okJ_all_good (sh : PoolShape) (hsh : sh.ok = true) (good : Nat → Bool) (jobs n : Nat) (s : St)
    (h : ReachableJ sh good (St.init jobs n) s) (hr : s.result = some .ok) :
    ∀ j, j < jobs → good j = true := by
  intro j hj
  exact (invJ_reachable h).2.done_good j
    (cancel_never_success sh hsh jobs n s (reachableJ_reachable h) hr j hj)

/-- **without cancellation: success ⇔ every job is good** (every shape) -/
theorem okJ_iff_all_good (sh : PoolShape) (good : Nat → Bool) (jobs n : Nat) (s : St) (r : Res)
    (h : ReachableJ sh good (St.init jobs n) s) (hr : s.result = some r)
    (hc : s.parentCancelled = false) :
    (r = .ok ↔ ∀ j, j < jobs → good j = true) ∧ (r = .ok ∨ r = .err) := by
  have hR := reachableJ_reachable h
  obtain ⟨hi, hj⟩ := invJ_reachable h
  cases hg : s.groupErr
  · -- no worker failed
    obtain ⟨hok, hall⟩ := no_cancel_all_done sh jobs n s r hR hr hc hg
    exact ⟨⟨fun _ j hlt => hj.done_good j (hall j hlt), fun _ => hok⟩, .inl hok⟩
  · obtain ⟨j, hlt, hbad⟩ := hj.err_bad hg
    obtain ⟨_, _, hres⟩ := hi.res r hr
    have hr' : r = .err := by simp [resOf, hg] at hres; exact hres
    refine ⟨⟨fun h => ?_, fun hall => ?_⟩, .inr hr'⟩
    · rw [hr'] at h; cases h
    · rw [hall j hlt] at hbad; cases hbad

/-- the oracle pool never deadlocks either -/
theorem no_deadlockJ (sh : PoolShape) (good : Nat → Bool) (jobs n : Nat) (s : St) (hn : 1 ≤ n)
    (h : ReachableJ sh good (St.init jobs n) s) (hr : s.result = none) :
    ∃ e s', e ≠ Ev.parentCancel ∧ stepJ sh good s e = some s' := by
  obtain ⟨e, s', hne, hs⟩ := no_deadlock sh jobs n s hn (reachableJ_reachable h) hr
  cases e with
  | workOk w =>
    simp only [step] at hs
    split at hs
    · rename_i j hw
      cases hg : good j
      · exact ⟨.workFail w, { s with workers := s.workers.set w .exited, groupErr := true }, by simp,
          by simp [stepJ, step, hw, hg]⟩
      · exact ⟨.workOk w, s', by simp, by simp [stepJ, step, hw, hg]; simpa [step, hw] using hs⟩
    · cases hs
  | workFail w =>
    simp only [step] at hs
    split at hs
    · rename_i j hw
      cases hg : good j
      · exact ⟨.workFail w, s', by simp, by simp [stepJ, step, hw, hg]; simpa [step, hw] using hs⟩
      · exact ⟨.workOk w, { s with workers := s.workers.set w .idle, done := s.done.set j true }, by simp,
          by simp [stepJ, step, hw, hg]⟩
    · cases hs
  | parentCancel => exact absurd rfl hne
  | feedSend w => exact ⟨_, s', hne, by simpa [stepJ] using hs⟩
  | feedBreak => exact ⟨_, s', hne, by simpa [stepJ] using hs⟩
  | feedEnd => exact ⟨_, s', hne, by simpa [stepJ] using hs⟩
  | workExit w => exact ⟨_, s', hne, by simpa [stepJ] using hs⟩
  | wait => exact ⟨_, s', hne, by simpa [stepJ] using hs⟩

/-- executable runs of the oracle pool (used for non-vacuity examples and by the driver) -/
def runJ (sh : PoolShape) (good : Nat → Bool) : St → List Ev → Option St
  | s, [] => some s
  | s, e :: es => (stepJ sh good s e).bind fun s' => runJ sh good s' es

theorem reachableJ_of_runJ {sh : PoolShape} {good : Nat → Bool} {s0 : St} (es : List Ev) :
    ∀ {s s' : St}, ReachableJ sh good s0 s → runJ sh good s es = some s' → ReachableJ sh good s0 s' := by
  induction es with
  | nil => intro s s' h hr; simp [runJ] at hr; subst hr; exact h
  | cons e es ih =>
    intro s s' h hr
    simp only [runJ] at hr
    cases hs : stepJ sh good s e with
    | none => simp [hs] at hr
    | some s1 =>
      simp only [hs, Option.bind_some] at hr
      exact ih (.step e h hs) hr

end Desync.Pool
