/-
  Proofs about `Desync.Model.TarFS` (tarfs.go): the stat mode a tar-stream header ends up with in the catar,
  the fields `TarReader.Next` carries over, and what survives `TarWriter` followed by `TarReader`.
-/
import Desync.Model.TarFS
import Desync.Proofs.ModeProofs
import Mathlib.Tactic.SplitIfs

namespace Desync.TarFS
open Desync Desync.Mode

/-! ### bit-level toolkit -/

theorem and_small_eq_zero (x k : UInt64) (hk : k.toNat < 2 ^ 32) :
    x &&& k = 0 ↔ x.toUInt32 &&& k.toUInt32 = 0 := by
  constructor
  · intro h
    rw [← UInt64.toUInt32_and, h]; rfl
  · intro h
    rw [← UInt64.toUInt32_and] at h
    have hle : (x &&& k).toNat ≤ k.toNat := by
      rw [UInt64.toNat_and]; exact Nat.and_le_right
    have h2 : (x &&& k).toUInt32.toNat = 0 := by rw [h]; rfl
    rw [UInt64.toNat_toUInt32] at h2
    apply UInt64.toNat_inj.mp
    have : (x &&& k).toNat % 2 ^ 32 = (x &&& k).toNat := Nat.mod_eq_of_lt (by omega)
    simp only [UInt64.toNat_zero] 
    omega

theorem and_bit_cases (m k : UInt32) (i : Nat) (hk : k.toBitVec = BitVec.twoPow 32 i) :
    m &&& k = 0 ∨ m &&& k = k := by
  simp only [← UInt32.toBitVec_inj, UInt32.toBitVec_and, hk, BitVec.and_twoPow]
  by_cases h : m.toBitVec.getLsbD i <;> simp [h]

/-- Go type bits from the c_IS* value and from the type flag: the set-id and sticky bits of the header mode
    field, as Go mode bits -/
def goFlags (m : UInt32) : UInt32 :=
  (if m &&& 0x800 ≠ 0 then ModeSetuid else 0) ||| (if m &&& 0x400 ≠ 0 then ModeSetgid else 0) |||
    (if m &&& 0x200 ≠ 0 then ModeSticky else 0)

theorem tarInfoMode_eq (h : TarHdr) :
    tarInfoMode h = (h.mode.toUInt32 &&& 0x1ff) ||| goFlags h.mode.toUInt32 ||| cisType h.mode ||| flagType h.typeflag := by
  have hu := and_small_eq_zero h.mode c_ISUID (by decide)
  have hg := and_small_eq_zero h.mode c_ISGID (by decide)
  have hv := and_small_eq_zero h.mode c_ISVTX (by decide)
  have e1 : c_ISUID.toUInt32 = 0x800 := by decide
  have e2 : c_ISGID.toUInt32 = 0x400 := by decide
  have e3 : c_ISVTX.toUInt32 = 0x200 := by decide
  rw [e1] at hu; rw [e2] at hg; rw [e3] at hv
  unfold tarInfoMode goFlags
  simp only [ne_eq, hu, hg, hv]
  have e4 : (0o777 : UInt32) = 0x1ff := by decide
  rw [e4]
  by_cases a : h.mode.toUInt32 &&& 0x800 = 0 <;> by_cases b : h.mode.toUInt32 &&& 0x400 = 0 <;>
    by_cases c : h.mode.toUInt32 &&& 0x200 = 0 <;> simp [a, b, c, UInt32.or_assoc]

theorem bv_or_left_comm (a b c : BitVec 32) : a ||| (b ||| c) = b ||| (a ||| c) := by
  rw [← BitVec.or_assoc, BitVec.or_comm a b, BitVec.or_assoc]

theorem low12_decomp (m : UInt32) :
    m &&& 0xfff = (m &&& 0x1ff) ||| ((m &&& 0x800) ||| ((m &&& 0x400) ||| (m &&& 0x200))) := by
  simp only [← UInt32.toBitVec_inj, UInt32.toBitVec_and, UInt32.toBitVec_or, UInt32.toBitVec_ofNat]
  rw [← BitVec.and_or_distrib_left, ← BitVec.and_or_distrib_left, ← BitVec.and_or_distrib_left]
  rfl

def typeStat (t : UInt32) : UInt32 :=
  if t = ModeDevice then S_IFBLK
  else if t = (ModeDevice ||| ModeCharDevice) then S_IFCHR
  else if t = ModeDir then S_IFDIR
  else if t = ModeNamedPipe then S_IFIFO
  else if t = ModeSymlink then S_IFLNK
  else if t = ModeSocket then S_IFSOCK
  else S_IFREG


theorem typeChain (o t : UInt32) :
    (if t = ModeDevice then o ||| S_IFBLK
     else if t = (ModeDevice ||| ModeCharDevice) then o ||| S_IFCHR
     else if t = ModeDir then o ||| S_IFDIR
     else if t = ModeNamedPipe then o ||| S_IFIFO
     else if t = ModeSymlink then o ||| S_IFLNK
     else if t = ModeSocket then o ||| S_IFSOCK
     else o ||| S_IFREG) = o ||| typeStat t := by
  unfold typeStat
  split_ifs <;> rfl

theorem filemodeToStat_nf (x : UInt32) :
    filemodeToStat x = (x &&& 0x1ff) ||| typeStat (x &&& ModeType) |||
      (if x &&& ModeSetuid ≠ 0 then S_ISUID else 0) ||| (if x &&& ModeSetgid ≠ 0 then S_ISGID else 0) |||
        (if x &&& ModeSticky ≠ 0 then S_ISVTX else 0) := by
  unfold filemodeToStat
  simp only [typeChain]
  by_cases a : x &&& ModeSetuid = 0 <;> by_cases b : x &&& ModeSetgid = 0 <;>
    by_cases c : x &&& ModeSticky = 0 <;> simp [a, b, c]


theorem and_parts (a c b k : UInt32) : (a ||| c ||| b) &&& k = (a &&& k) ||| (c &&& k) ||| (b &&& k) := by
  simp only [← UInt32.toBitVec_inj, UInt32.toBitVec_and, UInt32.toBitVec_or, BitVec.and_or_distrib_right]

theorem and_and_const (m a k : UInt32) : m &&& a &&& k = m &&& (a &&& k) := by
  simp only [← UInt32.toBitVec_inj, UInt32.toBitVec_and, BitVec.and_assoc]


/-- constants unfolded, everything pushed to `BitVec 32`, masks of constants evaluated -/
macro "bvnorm" : tactic => `(tactic|
  simp only [ModeDir, ModeSymlink, ModeDevice, ModeNamedPipe, ModeSocket, ModeSetuid, ModeSetgid, ModeCharDevice,
    ModeSticky, ModeIrregular, ModeType, S_IFBLK, S_IFCHR, S_IFDIR, S_IFIFO, S_IFLNK, S_IFSOCK, S_IFREG, S_ISUID,
    S_ISGID, S_ISVTX, ← UInt32.toBitVec_inj, UInt32.toBitVec_and, UInt32.toBitVec_or, UInt32.toBitVec_ofNat,
    BitVec.and_or_distrib_right, BitVec.and_assoc, BitVec.or_assoc, BitVec.reduceAnd, BitVec.reduceOr,
    BitVec.reduceEq, BitVec.and_zero, BitVec.zero_or, BitVec.or_zero, if_true, if_false, Bool.false_eq_true,
    UInt32.toBitVec_zero])

/-- `filemodeToStat` of a value whose five views are known -/
theorem f2s_views (x p T : UInt32) (bu bg bv : Bool) (h1 : x &&& 0x1ff = p) (h2 : x &&& ModeType = T)
    (h3 : x &&& ModeSetuid = if bu then ModeSetuid else 0) (h4 : x &&& ModeSetgid = if bg then ModeSetgid else 0)
    (h5 : x &&& ModeSticky = if bv then ModeSticky else 0) :
    filemodeToStat x = p ||| typeStat T ||| (if bu then S_ISUID else 0) ||| (if bg then S_ISGID else 0) |||
      (if bv then S_ISVTX else 0) := by
  rw [filemodeToStat_nf, h1, h2, h3, h4, h5]
  have e1 : ModeSetuid ≠ 0 := by decide
  have e2 : ModeSetgid ≠ 0 := by decide
  have e3 : ModeSticky ≠ 0 := by decide
  cases bu <;> cases bg <;> cases bv <;> simp [e1, e2, e3]

theorem f2s_parts (m t : UInt32) :
    filemodeToStat ((m &&& 0x1ff) ||| goFlags m ||| (t &&& 0x8f280000)) =
      typeStat (t &&& 0x8f280000) ||| (m &&& 0xfff) := by
  have hu := and_bit_cases m 0x800 11 (by decide)
  have hg := and_bit_cases m 0x400 10 (by decide)
  have hv := and_bit_cases m 0x200 9 (by decide)
  have key : ∀ (bu bg bv : Bool),
      filemodeToStat ((m &&& 0x1ff) ||| ((if bu then ModeSetuid else 0) ||| (if bg then ModeSetgid else 0) |||
        (if bv then ModeSticky else 0)) ||| (t &&& 0x8f280000)) =
      (m &&& 0x1ff) ||| typeStat (t &&& 0x8f280000) ||| (if bu then S_ISUID else 0) ||| (if bg then S_ISGID else 0) |||
        (if bv then S_ISVTX else 0) := by
    intro bu bg bv
    apply f2s_views <;> cases bu <;> cases bg <;> cases bv <;> bvnorm
  have fu : (if m &&& 0x800 ≠ 0 then S_ISUID else 0) = m &&& 0x800 := by
    rcases hu with h | h <;> rw [h] <;> decide
  have fg : (if m &&& 0x400 ≠ 0 then S_ISGID else 0) = m &&& 0x400 := by
    rcases hg with h | h <;> rw [h] <;> decide
  have fv : (if m &&& 0x200 ≠ 0 then S_ISVTX else 0) = m &&& 0x200 := by
    rcases hv with h | h <;> rw [h] <;> decide
  have := key (decide (m &&& 0x800 ≠ 0)) (decide (m &&& 0x400 ≠ 0)) (decide (m &&& 0x200 ≠ 0))
  simp only [decide_eq_true_eq] at this
  unfold goFlags
  rw [this, fu, fg, fv, low12_decomp]
  simp only [← UInt32.toBitVec_inj, UInt32.toBitVec_or]
  rw [BitVec.or_comm (m &&& 0x1ff).toBitVec, BitVec.or_assoc, BitVec.or_assoc, BitVec.or_assoc]

/-! ### the tar-stream input leg: the stat mode in the catar entry -/

/-- the Go type bits a header contributes (c_IS* value inside the mode field, type flag) lie inside `ModeType` -/
theorem typeBits_closed (mode : UInt64) (tf : UInt8) :
    (cisType mode ||| flagType tf) &&& 0x8f280000 = cisType mode ||| flagType tf := by
  unfold cisType flagType
  simp only []
  split_ifs <;> decide

/-- **every header, every mode value**: the stat mode `tar()` writes for an entry of a tar stream is the twelve low
    bits of the header's mode field (permission, set-id, sticky) OR-ed with the S_IF* type that
    `FilemodeToStatMode`'s switch assigns to the union of the Go type bits coming from the c_IS* value in the
    mode field and from the type flag (`typeStat`: one of the six exact combinations, S_IFREG for anything else,
    a union of two different types included) -/
theorem input_mode_general (h : TarHdr) :
    inputStatMode h = typeStat (cisType h.mode ||| flagType h.typeflag) ||| (h.mode.toUInt32 &&& 0o7777) := by
  unfold inputStatMode readerFile
  simp only []
  rw [tarInfoMode_eq, UInt32.or_assoc _ (cisType h.mode), ← typeBits_closed, f2s_parts]

/-- the six type flags of entries desync knows (regular file, directory, symbolic link, character and block
    device, FIFO) -/
def supportedFlag (tf : UInt8) : Bool :=
  tf == TypeReg || tf == TypeDir || tf == TypeSymlink || tf == TypeChar || tf == TypeBlock || tf == TypeFifo

/-- the S_IF* constant of a type flag -/
def statTypeOfFlag (tf : UInt8) : UInt32 :=
  if tf = TypeDir then S_IFDIR
  else if tf = TypeSymlink then S_IFLNK
  else if tf = TypeChar then S_IFCHR
  else if tf = TypeBlock then S_IFBLK
  else if tf = TypeFifo then S_IFIFO
  else S_IFREG

theorem typeStat_flagType (tf : UInt8) : typeStat (flagType tf) = statTypeOfFlag tf := by
  unfold flagType statTypeOfFlag
  split_ifs <;> first | rfl | decide | (exfalso; simp_all (config := { decide := true }) [TypeDir, TypeSymlink, TypeChar, TypeBlock, TypeFifo])

/-- the header's mode field carries no c_IS* type value that `headerFileInfo.Mode()` acts on (what GNU tar
    writes), or the one that says the same as the type flag (what Go's `FileInfoHeader` writes) -/
def ModeAgrees (h : TarHdr) : Prop := cisType h.mode = 0 ∨ cisType h.mode = flagType h.typeflag

instance (h : TarHdr) : Decidable (ModeAgrees h) := by unfold ModeAgrees; infer_instance

theorem input_mode (h : TarHdr) (hc : ModeAgrees h) :
    inputStatMode h = statTypeOfFlag h.typeflag ||| (h.mode.toUInt32 &&& 0o7777) := by
  rw [input_mode_general, ← typeStat_flagType]
  rcases hc with hc | hc <;> rw [hc]
  · rw [UInt32.zero_or]
  · rw [UInt32.or_self]

/-- the Go type bits of the `File` are exactly those two contributions -/
theorem tarInfoMode_type (h : TarHdr) :
    tarInfoMode h &&& ModeType = cisType h.mode ||| flagType h.typeflag := by
  have hcl := typeBits_closed h.mode h.typeflag
  rw [tarInfoMode_eq, UInt32.or_assoc _ (cisType h.mode), ← hcl]
  generalize cisType h.mode ||| flagType h.typeflag = t
  generalize h.mode.toUInt32 = m
  have hu := and_bit_cases m 0x800 11 (by decide)
  have hg := and_bit_cases m 0x400 10 (by decide)
  have hv := and_bit_cases m 0x200 9 (by decide)
  rcases hu with hu | hu <;> rcases hg with hg | hg <;> rcases hv with hv | hv <;>
  · simp only [goFlags, hu, hg, hv, ne_eq, not_true, not_false_eq_true, if_true, if_false,
      show (0x800 : UInt32) ≠ 0 from by decide, show (0x400 : UInt32) ≠ 0 from by decide,
      show (0x200 : UInt32) ≠ 0 from by decide]
    bvnorm

/-- the node kind `tar()` picks for a type flag: FIFOs are skipped with a warning ("unsupported node type") -/
def kindOfFlag (tf : UInt8) : Kind :=
  if tf = TypeDir then .dir
  else if tf = TypeSymlink then .symlink
  else if tf = TypeChar ∨ tf = TypeBlock then .device
  else if tf = TypeFifo then .other
  else .reg

theorem kindOf_type (fm : UInt32) : kindOf fm = kindOf (fm &&& ModeType) := by
  have e : ∀ k : UInt32, k &&& ModeType = k → (fm &&& ModeType) &&& k = fm &&& k := by
    intro k hk
    rw [UInt32.and_assoc, UInt32.and_comm ModeType k, hk]
  unfold kindOf
  rw [e ModeDir (by decide), e ModeSymlink (by decide), e ModeDevice (by decide), e ModeType (by decide)]

/-- which of directory / regular file / symbolic link / device `tar()` makes of an entry of a tar stream -/
theorem input_kind (h : TarHdr) (hc : ModeAgrees h) :
    kindOf (readerFile h).mode = kindOfFlag h.typeflag := by
  show kindOf (tarInfoMode h) = _
  rw [kindOf_type, tarInfoMode_type]
  have : cisType h.mode ||| flagType h.typeflag = flagType h.typeflag := by
    rcases hc with hc | hc <;> rw [hc]
    · rw [UInt32.zero_or]
    · rw [UInt32.or_self]
  rw [this]
  unfold flagType kindOfFlag
  split_ifs <;> first | rfl | decide | (exfalso; simp_all (config := { decide := true }) [TypeDir, TypeSymlink, TypeChar, TypeBlock, TypeFifo])

/-! ### the GNU-tar output leg read back -/

/-- an `os.FileMode` as desync's decoder produces them (`StatModeToFilemode`): nothing in bits 9 to 18 -/
def PlainFileMode (m : UInt32) : Prop := m &&& 0x7fe00 = 0

instance (m : UInt32) : Decidable (PlainFileMode m) := by unfold PlainFileMode; infer_instance

theorem toUInt32_rawMode (m : UInt32) : (rawMode m).toUInt32 = m := by
  unfold rawMode
  apply UInt32.toNat_inj.mp
  rw [UInt64.toNat_toUInt32, UInt32.toNat_toUInt64]
  exact Nat.mod_eq_of_lt m.toNat_lt

theorem cisType_of_clear (mode : UInt64) (h : mode.toUInt32 &&& 0xf000 = 0) : cisType mode = 0 := by
  have key : ∀ c : UInt32, c &&& 0xf000 = c → c ≠ 0 → mode.toUInt32 &&& ~~~ (0o7777 : UInt32) ≠ c := by
    intro c hc hne e
    have : (mode.toUInt32 &&& ~~~ (0o7777 : UInt32)) &&& 0xf000 = mode.toUInt32 &&& 0xf000 := by
      rw [UInt32.and_assoc]; rfl
    rw [e, hc, h] at this
    exact hne this
  unfold cisType
  simp only [key c_ISDIR (by decide) (by decide), key c_ISFIFO (by decide) (by decide),
    key c_ISLNK (by decide) (by decide), key c_ISBLK (by decide) (by decide),
    key c_ISCHR (by decide) (by decide), key c_ISSOCK (by decide) (by decide), if_false]

theorem and_of_and_eq_zero (m a b : UInt32) (h : m &&& a = 0) (hb : a &&& b = b) : m &&& b = 0 := by
  rw [← hb, ← UInt32.and_assoc, h, UInt32.zero_and]

/-- the Go type bits a node of each kind carries -/
def NodeModeOK (k : NKind) (m : UInt32) : Prop :=
  PlainFileMode m ∧
  match k with
  | .dir => m &&& ModeType = ModeDir
  | .file => m &&& ModeType = 0
  | .symlink => m &&& ModeType = ModeSymlink
  | .device => m &&& ModeType = ModeDevice ∨ m &&& ModeType = (ModeDevice ||| ModeCharDevice)

theorem low12_plain (m : UInt32) (h : PlainFileMode m) : m &&& 0o7777 = m &&& 0x1ff := by
  have e : (0o7777 : UInt32) = 0xfff := by decide
  rw [e, low12_decomp, and_of_and_eq_zero m 0x7fe00 0x800 h (by decide),
    and_of_and_eq_zero m 0x7fe00 0x400 h (by decide), and_of_and_eq_zero m 0x7fe00 0x200 h (by decide)]
  simp

theorem writerHdr_typeflag_type (k : NKind) (n : TNode) (h : NodeModeOK k n.mode) :
    flagType (writerHdr k n).typeflag = n.mode &&& ModeType := by
  cases k
  · rw [show n.mode &&& ModeType = ModeDir from h.2]; rfl
  · rw [show n.mode &&& ModeType = 0 from h.2]; rfl
  · rw [show n.mode &&& ModeType = ModeSymlink from h.2]; rfl
  · have hcd : ∀ t : UInt32, n.mode &&& ModeType = t → n.mode &&& ModeCharDevice = t &&& ModeCharDevice := by
      intro t ht
      rw [← ht, UInt32.and_assoc]; rfl
    rcases h.2 with h2 | h2
    · simp only [writerHdr, writerHdrWith, h2, hcd _ h2]; decide
    · simp only [writerHdr, writerHdrWith, h2, hcd _ h2]; decide

/-- **what comes back of the mode**: written by `TarWriter` (`Mode: int64(n.Mode)`) and read by `TarReader`, a node
    of a kind with its Go type bits has the S_IF* type it had and its nine permission bits — and no set-id or
    sticky bit, whatever it had -/
theorem gnutar_mode (k : NKind) (n : TNode) (h : NodeModeOK k n.mode) :
    inputStatMode (writerHdr k n) = typeStat (n.mode &&& ModeType) ||| (n.mode &&& 0x1ff) := by
  have hm : (writerHdr k n).mode = rawMode n.mode := by cases k <;> rfl
  have hplain := h.1
  rw [input_mode_general, hm, toUInt32_rawMode, low12_plain _ hplain,
    cisType_of_clear _ (by rw [toUInt32_rawMode]; exact and_of_and_eq_zero _ _ _ hplain (by decide)),
    UInt32.zero_or, writerHdr_typeflag_type k n h]

theorem writerHdrTarMode_typeflag (k : NKind) (n : TNode) :
    (writerHdrTarMode k n).typeflag = (writerHdr k n).typeflag := by cases k <;> rfl

theorem toUInt32_tarMode (m : UInt32) : (tarMode m).toUInt32 = filemodeToStat m &&& 0o7777 := by
  unfold tarMode
  apply UInt32.toNat_inj.mp
  rw [UInt64.toNat_toUInt32, UInt32.toNat_toUInt64]
  exact Nat.mod_eq_of_lt (UInt32.toNat_lt _)

/-- the stat mode splits into its type and its twelve low bits -/
theorem f2s_split (x : UInt32) :
    filemodeToStat x = typeStat (x &&& ModeType) ||| (filemodeToStat x &&& 0o7777) := by
  have hty : typeStat (x &&& ModeType) &&& 0o7777 = 0 := by
    unfold typeStat; split_ifs <;> decide
  have hty2 : typeStat (x &&& ModeType) &&& 0xf000 = typeStat (x &&& ModeType) := by
    unfold typeStat; split_ifs <;> decide
  generalize hT : typeStat (x &&& ModeType) = T at hty hty2
  have nf := filemodeToStat_nf x
  rw [hT] at nf
  generalize hP : x &&& 0x1ff = P at nf
  have hP2 : P &&& 0x1ff = P := by rw [← hP, UInt32.and_assoc]; rfl
  rw [nf]
  by_cases a : x &&& ModeSetuid = 0 <;> by_cases b : x &&& ModeSetgid = 0 <;> by_cases c : x &&& ModeSticky = 0 <;>
  · simp only [a, b, c, ne_eq, not_true, not_false_eq_true, if_true, if_false]
    rw [← hP2, ← hty2]
    bvnorm
    first | exact BitVec.or_comm _ _ | exact bv_or_left_comm _ _ _

/-- had the writer used the helper `tarMode` that tarfs.go already contains, the whole stat mode would come back:
    type, permission bits, set-id and sticky bits -/
theorem gnutar_mode_with_tarMode (k : NKind) (n : TNode) (h : NodeModeOK k n.mode) :
    inputStatMode (writerHdrTarMode k n) = filemodeToStat n.mode := by
  have hm : (writerHdrTarMode k n).mode = tarMode n.mode := by cases k <;> rfl
  have hlow : (filemodeToStat n.mode &&& 0o7777) &&& 0xf000 = 0 := by
    rw [UInt32.and_assoc]; rw [show ((0o7777 : UInt32) &&& 0xf000) = 0 from by decide, UInt32.and_zero]
  have hidem : (filemodeToStat n.mode &&& 0o7777) &&& 0o7777 = filemodeToStat n.mode &&& 0o7777 := by
    rw [UInt32.and_assoc]; rfl
  rw [input_mode_general, hm, toUInt32_tarMode, cisType_of_clear _ (by rw [toUInt32_tarMode]; exact hlow),
    UInt32.zero_or, writerHdrTarMode_typeflag, writerHdr_typeflag_type k n h, hidem]
  exact (f2s_split n.mode).symm

/-! ### `path.Clean` leaves the names of archive nodes alone -/

theorem splitSlash_ne_nil (p : Bytes) : splitSlash p ≠ [] := by
  cases p with
  | nil => simp [splitSlash]
  | cons c cs =>
    unfold splitSlash
    split
    · simp
    · split <;> simp

theorem splitSlash_cons (c : UInt8) (cs h : Bytes) (t : List Bytes) (e : splitSlash cs = h :: t) :
    splitSlash (c :: cs) = if c = slash then [] :: h :: t else (c :: h) :: t := by
  rw [splitSlash, e]

theorem splitSlash_single (c : Bytes) (hc : slash ∉ c) : splitSlash c = [c] := by
  induction c with
  | nil => rfl
  | cons x xs ih =>
    have hx : x ≠ slash := fun e => hc (e ▸ List.mem_cons_self)
    have hxs : slash ∉ xs := fun e => hc (List.mem_cons_of_mem _ e)
    rw [splitSlash_cons _ _ _ _ (ih hxs)]
    simp [hx]

theorem splitSlash_append (c t : Bytes) (hc : slash ∉ c) :
    splitSlash (c ++ slash :: t) = c :: splitSlash t := by
  induction c with
  | nil =>
    show splitSlash (slash :: t) = _
    cases h : splitSlash t with
    | nil => exact absurd h (splitSlash_ne_nil t)
    | cons a b => rw [splitSlash_cons _ _ _ _ h]; simp
  | cons x xs ih =>
    have hx : x ≠ slash := fun e => hc (e ▸ List.mem_cons_self)
    have hxs : slash ∉ xs := fun e => hc (List.mem_cons_of_mem _ e)
    show splitSlash (x :: (xs ++ slash :: t)) = _
    rw [splitSlash_cons _ _ _ _ (ih hxs)]
    simp [hx]

theorem splitSlash_joinSlash (cs : List Bytes) (hne : cs ≠ []) (h : ∀ c ∈ cs, slash ∉ c) :
    splitSlash (joinSlash cs) = cs := by
  induction cs with
  | nil => exact absurd rfl hne
  | cons c rest ih =>
    cases rest with
    | nil => exact splitSlash_single c (h c List.mem_cons_self)
    | cons d rest' =>
      show splitSlash (c ++ slash :: joinSlash (d :: rest')) = _
      rw [splitSlash_append _ _ (h c List.mem_cons_self),
        ih (by simp) (fun x hx => h x (List.mem_cons_of_mem _ hx))]

/-- a path element that `Clean` keeps as it is -/
def NormalElem (c : Bytes) : Prop := c ≠ [] ∧ c ≠ [dot] ∧ c ≠ [dot, dot] ∧ slash ∉ c

theorem foldl_cleanStep_normal (cs st : List Bytes) (h : ∀ c ∈ cs, NormalElem c) :
    cs.foldl (cleanStep false) st = cs.reverse ++ st := by
  induction cs generalizing st with
  | nil => rfl
  | cons c rest ih =>
    have hc := h c List.mem_cons_self
    have : cleanStep false st c = c :: st := by
      unfold cleanStep
      simp [hc.1, hc.2.1, hc.2.2.1]
    rw [List.foldl_cons, this, ih _ (fun x hx => h x (List.mem_cons_of_mem _ hx))]
    simp

theorem joinSlash_head (c : Bytes) (rest : List Bytes) (hc : c ≠ []) :
    (joinSlash (c :: rest)).head? = c.head? := by
  cases rest with
  | nil => rfl
  | cons d r =>
    show (c ++ slash :: joinSlash (d :: r)).head? = _
    cases c with
    | nil => exact absurd rfl hc
    | cons x xs => rfl

/-- **`path.Clean` is the identity on the names of archive nodes**: a non-empty sequence of elements none of which
    is empty, ".", ".." or contains a slash (what `ArchiveDecoder` builds from the filename elements it accepts,
    `validName`), joined by slashes -/
theorem goClean_joinSlash (cs : List Bytes) (hne : cs ≠ []) (h : ∀ c ∈ cs, NormalElem c) :
    goClean (joinSlash cs) = joinSlash cs := by
  obtain ⟨c, rest, rfl⟩ : ∃ c rest, cs = c :: rest := by
    cases cs with
    | nil => exact absurd rfl hne
    | cons c rest => exact ⟨c, rest, rfl⟩
  have hc := h c List.mem_cons_self
  have hnil : joinSlash (c :: rest) ≠ [] := by
    intro e
    have := joinSlash_head c rest hc.1
    rw [e] at this
    cases c with
    | nil => exact hc.1 rfl
    | cons x xs => simp at this
  have hroot : ((joinSlash (c :: rest)).head? = some slash) = False := by
    rw [joinSlash_head c rest hc.1]
    cases c with
    | nil => exact absurd rfl hc.1
    | cons x xs =>
      have : x ≠ slash := fun e => hc.2.2.2 (e ▸ List.mem_cons_self)
      simp [this]
  unfold goClean
  simp only [hnil, if_false, hroot, decide_false]
  rw [splitSlash_joinSlash _ hne (fun x hx => (h x hx).2.2.2), foldl_cleanStep_normal _ _ h]
  simp [hnil]

/-- "." (the root entry of an archive) is clean as well -/
theorem goClean_dot : goClean [dot] = [dot] := by decide

/-! ### fields -/

/-- what `tar()` is given for an entry of a tar stream, field by field -/
theorem input_fields (h : TarHdr) (data : Bytes) :
    let r := recOfFile (readerFile h) data
    r.path = goClean h.name ∧ r.parent = dirOf (goClean h.name) ∧ r.base = goBase (infoName h) ∧
    r.uid = h.uid ∧ r.gid = h.gid ∧ r.mtime = h.mtime.unixNano ∧ r.size = h.size ∧ r.target = h.linkname ∧
    r.major = h.devmajor ∧ r.minor = h.devminor ∧ r.xattrs = h.xattrs ∧ r.data = data ∧
    r.mode = (inputStatMode h).toUInt64 ∧ r.kind = kindOf (tarInfoMode h) :=
  ⟨rfl, rfl, rfl, rfl, rfl, rfl, rfl, rfl, rfl, rfl, rfl, rfl, rfl, rfl⟩

instance (k : NKind) (m : UInt32) : Decidable (NodeModeOK k m) := by
  unfold NodeModeOK; cases k <;> simp only [] <;> infer_instance

/-- the header `TarWriter` builds, read by `TarReader`: every field but the mode -/
theorem gnutar_fields (k : NKind) (n : TNode) (hclean : goClean n.name = n.name) :
    let f := readerFile (writerHdr k n)
    f.path = n.name ∧ f.name = goBase n.name ∧ f.uid = n.uid ∧ f.gid = n.gid ∧ f.mtime = n.mtime ∧
    f.xattrs = n.xattrs ∧ f.size = (if k = .file then n.size else 0) ∧
    f.linkTarget = (if k = .symlink then n.target else []) ∧
    f.devMajor = (if k = .device then n.major else 0) ∧ f.devMinor = (if k = .device then n.minor else 0) := by
  have hname : (writerHdr k n).name = n.name := by cases k <;> rfl
  refine ⟨?_, ?_, ?_, ?_, ?_, ?_, ?_, ?_, ?_, ?_⟩
  · show goClean (writerHdr k n).name = _
    rw [hname, hclean]
  · show infoName (writerHdr k n) = _
    unfold infoName
    rw [hname, hclean]
    split <;> rfl
  all_goals cases k <;> rfl

/-! ### archive/tar's contract, as far as the GNU-tar output leg meets it -/

theorem rawMode_toNat (m : UInt32) : (rawMode m).toNat = m.toNat := by
  unfold rawMode; exact UInt32.toNat_toUInt64 m

theorem needsBase256_zero : needsBase256 0 = false := by decide

/-- exactly which headers of `TarWriter` the library refuses: those of nodes that have an extended attribute AND
    whose mode field (`int64(n.Mode)`: the Go `os.FileMode` bits) or device numbers do not fit seven octal digits -/
theorem gnutar_refused (k : NKind) (n : TNode) :
    wireRefuses (writerHdr k n) =
      (!n.xattrs.isEmpty && (needsBase256 (rawMode n.mode) ||
        (decide (k = .device) && (needsBase256 n.major || needsBase256 n.minor)))) := by
  cases hx : n.xattrs with
  | nil => cases k <;> simp [wireRefuses, writerHdr, writerHdrWith, formatFor, hx, needsBase256_zero]
  | cons a as =>
    have e1 : (Fmt.unknown == Fmt.gnu) = false := by decide
    have e2 : (Fmt.unknown == Fmt.pax) = false := by decide
    cases k <;> simp [wireRefuses, writerHdr, writerHdrWith, formatFor, hx, needsBase256_zero, e1, e2, Bool.or_assoc]

/-- the writer before 8595654 was refused for every directory, file and link with an extended attribute -/
theorem gnutar_refused_legacy (k : NKind) (n : TNode) (hk : k ≠ .device) (hx : n.xattrs ≠ []) :
    wireRefuses (writerHdrLegacy k n) = true := by
  cases hxs : n.xattrs with
  | nil => exact absurd hxs hx
  | cons a as => cases k <;> simp_all [wireRefuses, writerHdrLegacy, writerHdrWith]

/-- a mode made of permission bits and at most the sticky bit fits seven octal digits -/
theorem rawMode_small (m : UInt32) (h : m &&& ~~~ (0x1ff ||| ModeSticky) = 0) : needsBase256 (rawMode m) = false := by
  have hm : m = m &&& (0x1ff ||| ModeSticky) := by
    have : m = (m &&& (0x1ff ||| ModeSticky)) ||| (m &&& ~~~ (0x1ff ||| ModeSticky)) := by
      simp only [← UInt32.toBitVec_inj, UInt32.toBitVec_and, UInt32.toBitVec_or, UInt32.toBitVec_not]
      rw [← BitVec.and_or_distrib_left, BitVec.or_not_self, BitVec.and_allOnes]
    rw [h, UInt32.or_zero] at this
    exact this
  have hle : m.toNat ≤ (0x1ff ||| ModeSticky : UInt32).toNat := by
    rw [hm, UInt32.toNat_and]; exact Nat.and_le_right
  have : (0x1ff ||| ModeSticky : UInt32).toNat = 1049087 := by decide
  unfold needsBase256
  rw [decide_eq_false_iff_not, UInt64.le_iff_toNat_le, rawMode_toNat]
  have : (2097152 : UInt64).toNat = 2097152 := by decide
  omega

/-- `tarMode` always fits -/
theorem tarMode_small (m : UInt32) : needsBase256 (tarMode m) = false := by
  have hle : (filemodeToStat m &&& 0o7777).toNat ≤ (0o7777 : UInt32).toNat := by
    rw [UInt32.toNat_and]; exact Nat.and_le_right
  have h1 : (0o7777 : UInt32).toNat = 4095 := by decide
  unfold needsBase256 tarMode
  rw [decide_eq_false_iff_not, UInt64.le_iff_toNat_le, UInt32.toNat_toUInt64]
  have : (2097152 : UInt64).toNat = 2097152 := by decide
  omega

/-- with `tarMode` in the `Mode:` fields no header of a directory, file or link would be refused, and that of a
    device node only for device numbers beyond seven octal digits -/
theorem gnutar_never_refused_tarMode (k : NKind) (n : TNode)
    (hdev : k = .device → needsBase256 n.major = false ∧ needsBase256 n.minor = false) :
    wireRefuses (writerHdrTarMode k n) = false := by
  have ht := tarMode_small n.mode
  cases hx : n.xattrs with
  | nil => cases k <;> simp [wireRefuses, writerHdrTarMode, writerHdrWith, formatFor, hx, needsBase256_zero, ht]
  | cons a as =>
    cases k
    · simp [wireRefuses, writerHdrTarMode, writerHdrWith, formatFor, hx, needsBase256_zero, ht]
    · simp [wireRefuses, writerHdrTarMode, writerHdrWith, formatFor, hx, needsBase256_zero, ht]
    · simp [wireRefuses, writerHdrTarMode, writerHdrWith, formatFor, hx, needsBase256_zero, ht]
    · obtain ⟨h1, h2⟩ := hdev rfl
      simp [wireRefuses, writerHdrTarMode, writerHdrWith, hx, ht, h1, h2]

/-- which modification time the library keeps of a header of `TarWriter`: exact for a directory, file or link with
    an extended attribute (PAX header), whole seconds otherwise — cut off, for device nodes rounded -/
theorem gnutar_mtime_kept (k : NKind) (n : TNode) :
    wireMtime (writerHdr k n).format n.mtime =
      if k = .device then (if 500000000 ≤ n.mtime.nsec then ⟨n.mtime.sec + 1, 0⟩ else ⟨n.mtime.sec, 0⟩)
      else if n.xattrs = [] then ⟨n.mtime.sec, 0⟩ else n.mtime := by
  cases hx : n.xattrs with
  | nil => cases k <;> simp [wireMtime, writerHdr, writerHdrWith, formatFor, hx]
  | cons a as => cases k <;> simp [wireMtime, writerHdr, writerHdrWith, formatFor, hx]

/-- nanoseconds since the epoch as an integer -/
def Time.nanos (t : Time) : Int := t.sec * 1000000000 + t.nsec

/-- whatever the format, the time that is kept is less than a second before and at most half a second after the
    node's: whole seconds survive, the fraction does not (unless PAX is chosen) -/
theorem wireMtime_close (f : Fmt) (t : Time) (ht : t.nsec < 1000000000) :
    t.nanos - 1000000000 < (wireMtime f t).nanos ∧ (wireMtime f t).nanos ≤ t.nanos + 500000000 ∧
      (t.nsec = 0 → wireMtime f t = t) := by
  have e : ∀ (a : Int) (b : Nat), (Time.mk a b).nanos = a * 1000000000 + b := fun _ _ => rfl
  have e0 : t.nanos = t.sec * 1000000000 + t.nsec := rfl
  cases f <;> simp only [wireMtime] <;> (try split) <;> simp only [e, e0] <;>
    refine ⟨by omega, by omega, ?_⟩ <;>
    (intro h0; cases t; simp_all)

/-! ### `TarReader.Next` after c6df8d2: PAX global headers are skipped, hard links refused -/

theorem skipGlobal_length_le (es : List Entry) : (skipGlobal es).length ≤ es.length := by
  induction es with
  | nil => simp [skipGlobal]
  | cons e rest ih =>
    unfold skipGlobal
    split
    · exact Nat.le_succ_of_le ih
    · exact Nat.le_refl _

theorem readerRun_skipGlobal (es : List Entry) : readerRun (skipGlobal es) = readerRun es := by
  induction es with
  | nil => rfl
  | cons e rest ih =>
    unfold skipGlobal
    split
    · rename_i h
      rw [ih]
      conv => rhs; unfold readerRun
      simp [h]
    · rfl

theorem skipGlobal_head (es : List Entry) (e : Entry) (rest : List Entry) (h : skipGlobal es = e :: rest) :
    e.1.typeflag ≠ TypeXGlobalHeader := by
  induction es with
  | nil => simp [skipGlobal] at h
  | cons x xs ih =>
    unfold skipGlobal at h
    split at h
    · exact ih h
    · rename_i hx
      cases h
      exact hx

/-- how the stream ended, as a `NextResult` -/
def endOfRun : Option Bytes → NextResult
  | none => .libEnd
  | some name => .hardLink name

/-- calling `Next` until it fails is `readerRun` -/
theorem readerAllWith_eq_run (fuel : Nat) (es : List Entry) (hf : es.length < fuel) :
    readerAllWith readerNext fuel none es = ((readerRun es).1, endOfRun (readerRun es).2) := by
  induction fuel generalizing es with
  | zero => omega
  | succ fuel ih =>
    unfold readerAllWith
    simp only [readerNext]
    rw [← readerRun_skipGlobal es]
    cases hs : skipGlobal es with
    | nil => simp [readerRun, endOfRun]
    | cons e rest =>
      have hg := skipGlobal_head es e rest hs
      have hl := skipGlobal_length_le es
      rw [hs] at hl
      simp only [List.length_cons] at hl
      by_cases hlink : e.1.typeflag = TypeLink
      · have hne : TypeLink ≠ TypeXGlobalHeader := by decide
        simp [hlink, readerRun, hne, endOfRun]
      · simp only [hlink, if_false]
        rw [ih rest (by omega)]
        conv => rhs; unfold readerRun
        simp [hg, hlink]

theorem readerAll_eq_run (addRoot : Bool) (es : List Entry) :
    readerAll addRoot es =
      ((if addRoot then [(rootFile, [])] else []) ++ (readerRun es).1, endOfRun (readerRun es).2) := by
  unfold readerAll
  cases addRoot
  · simp only [if_false, Bool.false_eq_true, List.nil_append]
    exact readerAllWith_eq_run _ es (by omega)
  · simp only [if_true]
    unfold readerAllWith
    simp only [readerNext]
    rw [readerAllWith_eq_run _ es (by omega)]
    rfl

/-- **global headers contribute nothing**: the files `Next` returns, and how the stream ends, are those of the
    entry list with every PAX global header removed -/
theorem readerRun_filter (es : List Entry) :
    readerRun (es.filter fun e => e.1.typeflag ≠ TypeXGlobalHeader) = readerRun es := by
  induction es with
  | nil => rfl
  | cons e rest ih =>
    by_cases hg : e.1.typeflag = TypeXGlobalHeader
    · rw [List.filter_cons_of_neg (by simp [hg]), ih]
      conv => rhs; unfold readerRun
      simp [hg]
    · rw [List.filter_cons_of_pos (by simp [hg])]
      unfold readerRun
      simp only [hg, if_false]
      rw [ih]

theorem inputRecs_filter (addRoot : Bool) (es : List Entry) :
    inputRecs addRoot (es.filter fun e => e.1.typeflag ≠ TypeXGlobalHeader) = inputRecs addRoot es := by
  unfold inputRecs
  rw [readerRun_filter]

/-- the first hard link ends the stream with the error; nothing at or after it becomes a record -/
theorem readerRun_hard_link (pre post : List Entry) (e : Entry) (hl : e.1.typeflag = TypeLink)
    (hpre : ∀ x ∈ pre, x.1.typeflag ≠ TypeLink) :
    readerRun (pre ++ e :: post) = ((readerRun pre).1, some e.1.name) ∧ (readerRun pre).2 = none := by
  induction pre with
  | nil =>
    have hne : TypeLink ≠ TypeXGlobalHeader := by decide
    simp [readerRun, hl, hne]
  | cons x xs ih =>
    have hx := hpre x List.mem_cons_self
    obtain ⟨h1, h2⟩ := ih (fun y hy => hpre y (List.mem_cons_of_mem _ hy))
    by_cases hg : x.1.typeflag = TypeXGlobalHeader
    · have e1 : readerRun (x :: xs ++ e :: post) = readerRun (xs ++ e :: post) := by
        conv => lhs; unfold readerRun
        simp [hg]
      have e2 : readerRun (x :: xs) = readerRun xs := by
        conv => lhs; unfold readerRun
        simp [hg]
      rw [e1, e2]; exact ⟨h1, h2⟩
    · have e1 : readerRun (x :: xs ++ e :: post) =
          ((readerFile x.1, x.2) :: (readerRun (xs ++ e :: post)).1, (readerRun (xs ++ e :: post)).2) := by
        conv => lhs; unfold readerRun
        simp [hg, hx]
      have e2 : readerRun (x :: xs) = ((readerFile x.1, x.2) :: (readerRun xs).1, (readerRun xs).2) := by
        conv => lhs; unfold readerRun
        simp [hg, hx]
      rw [e1, e2, h1]; exact ⟨rfl, h2⟩

/-! ### `tar()` over a stream that ends with an error -/

/-- with `io.EOF` at the end of the stream `tarOneE` / `tarChildrenE` are `tarOne` / `tarChildren` of
    `Model/Archive.lean` -/
theorem tarE_true (fuel : Nat) :
    (∀ f rest, tarOneE true fuel f rest = tarOne fuel f rest) ∧
    (∀ dir l n items, tarChildrenE true fuel dir l n items = tarChildren fuel dir l n items) := by
  induction fuel with
  | zero =>
    refine ⟨fun f rest => by simp [tarOneE, tarOne], fun dir l n items => ?_⟩
    cases l <;> simp [tarChildrenE, tarChildren]
  | succ fuel ih =>
    obtain ⟨ih1, ih2⟩ := ih
    refine ⟨fun f rest => ?_, fun dir l n items => ?_⟩
    · simp only [tarOneE, tarOne, ih2]
      rfl
    · cases l with
      | nil => simp [tarChildrenE, tarChildren]
      | cons f rest =>
        simp only [tarChildrenE, tarChildren, ih1, ih2]
        rfl

theorem tarStreamE_true (recs : List FileRec) : tarStreamE true recs = tarStream recs := by
  cases recs with
  | nil => rfl
  | cons f rest => simp only [tarStreamE, tarStream, (tarE_true _).1]

/-- a directory's child loop that returns although the stream would end with an error has not read to the end:
    it stopped at an entry that does not belong to the directory -/
theorem tarChildrenE_false_rest (fuel : Nat) (dir : Bytes) (l : List FileRec) (n : Nat) (items : List GoodbyeItem)
    (b : Bytes) (its : List GoodbyeItem) (r : List FileRec)
    (h : tarChildrenE false fuel dir l n items = some (b, its, r)) : r ≠ [] := by
  induction fuel generalizing l n items b its with
  | zero => cases l <;> simp [tarChildrenE] at h
  | succ fuel ih =>
    cases l with
    | nil => simp [tarChildrenE] at h
    | cons f rest =>
      simp only [tarChildrenE] at h
      split at h
      · cases h; simp
      · split at h
        · exact ih _ _ _ _ _ h
        · split at h
          · cases h
          · split at h
            · cases h
            · rename_i hc
              cases h
              exact ih _ _ _ _ _ hc

/-- `tar()` of a directory that returns although the stream would end with an error stopped before the end -/
theorem tarOneE_false_dir (fuel : Nat) (f : FileRec) (rest : List FileRec) (b : Bytes) (r : List FileRec)
    (hk : f.kind = .dir) (h : tarOneE false fuel f rest = some (b, r)) : r ≠ [] := by
  cases fuel with
  | zero => simp [tarOneE] at h
  | succ fuel =>
    simp only [tarOneE, hk] at h
    simp only [show (Kind.dir = Kind.other) = False from by simp, if_false] at h
    split at h
    · cases h
    · rename_i hc
      split at h
      · cases h
      · cases h
        exact tarChildrenE_false_rest _ _ _ _ _ _ _ _ hc

/-! ### the header on the wire -/

theorem wire_some (h h' : TarHdr) (hw : wire h = some h') :
    h' = { h with mtime := wireMtime h.format h.mtime, xattrs := wireXattrs h.xattrs } ∧ wireRefuses h = false := by
  unfold wire at hw
  split at hw
  · cases hw
  · rename_i hr
    cases hw
    exact ⟨rfl, by simpa using hr⟩

theorem readerFile_with_mtime (h : TarHdr) (t : Time) (xs : Xattrs) :
    readerFile { h with mtime := t, xattrs := xs } = { readerFile h with mtime := t, xattrs := xs } := rfl

/-- what `TarReader` reads of what `TarWriter` wrote, archive/tar's encoding in between: everything of the header
    level (`gnutar_fields`, `gnutar_mode`), the modification time as far as the chosen format keeps it -/
theorem gnutar_wire (k : NKind) (n : TNode) (hmode : NodeModeOK k n.mode) (hclean : goClean n.name = n.name)
    (h' : TarHdr) (hw : wire (writerHdr k n) = some h') :
    let f := readerFile h'
    f.path = n.name ∧ f.name = goBase n.name ∧ f.uid = n.uid ∧ f.gid = n.gid ∧ f.xattrs = wireXattrs n.xattrs ∧
    f.size = (if k = .file then n.size else 0) ∧ f.linkTarget = (if k = .symlink then n.target else []) ∧
    f.devMajor = (if k = .device then n.major else 0) ∧ f.devMinor = (if k = .device then n.minor else 0) ∧
    filemodeToStat f.mode = typeStat (n.mode &&& ModeType) ||| (n.mode &&& 0x1ff) ∧
    f.mtime = (if k = .device then (if 500000000 ≤ n.mtime.nsec then ⟨n.mtime.sec + 1, 0⟩ else ⟨n.mtime.sec, 0⟩)
               else if n.xattrs = [] then ⟨n.mtime.sec, 0⟩ else n.mtime) := by
  obtain ⟨he, _⟩ := wire_some _ _ hw
  obtain ⟨h1, h2, h3, h4, _, _, h7, h8, h9, h10⟩ := gnutar_fields k n hclean
  have hm := gnutar_mode k n hmode
  have ht : (writerHdr k n).mtime = n.mtime := by cases k <;> rfl
  have hx : (writerHdr k n).xattrs = n.xattrs := by cases k <;> rfl
  have hk := gnutar_mtime_kept k n
  subst he
  rw [readerFile_with_mtime]
  exact ⟨h1, h2, h3, h4, by rw [← hx], h7, h8, h9, h10, hm, by rw [ht]; exact hk⟩
