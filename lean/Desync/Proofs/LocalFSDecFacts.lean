/-
  The decoder facts the file-system confinement proof (`Proofs/LocalFSProofs.lean`) assumes, proved
  from `Proofs/ArchiveChildren.lean` / `Proofs/ArchiveConfined.lean`, and the theorem without that
  hypothesis.
-/
import Desync.Proofs.LocalFSProofs
import Desync.Proofs.ArchiveChildren

namespace Desync.LFS
open Desync

theorem dirUp_eq (k : Nat) (d : Bytes) : LFS.dirUp k d = Desync.dirUp k d := by
  induction k generalizing d with
  | zero => rfl
  | succ k ih => simp only [LFS.dirUp, Desync.dirUp, ih]

theorem nodeName_eq (n : Node) : nodeName n = n.name := by cases n <;> rfl

theorem confined_iff (p : Bytes) : LFS.Confined p ↔ Desync.Confined p := Iff.rfl

theorem decFacts : DecFacts where
  child := by
    intro a n a' h h0
    obtain ⟨k, c, hc, hn, hd⟩ := next_child a n a' h h0
    refine ⟨k, c, hc, ?_, ?_⟩
    · rw [nodeName_eq, dirUp_eq]; exact hn
    · rw [hd]; cases n <;> simp [nodeName_eq, dirUp_eq, Node.name]
  first := by
    intro a n a' h h0 hr
    obtain ⟨_, k, hk, hd⟩ := next_first a n a' h h0
    rcases hk with ⟨hn, hrn⟩ | ⟨c, hc, hn, hrn⟩
    · left
      refine ⟨k, ?_, ?_, ?_⟩
      · rw [nodeName_eq, dirUp_eq]; exact hn
      · rw [hd, dirUp_eq]; cases n <;> simp [Node.name] at hn ⊢ <;> exact hn
      · rw [hrn, hr]
        cases n <;> simp [Node.isDir]
    · right
      refine ⟨by rw [hrn, hr], k, c, hc, ?_, ?_⟩
      · rw [nodeName_eq, dirUp_eq]; exact hn
      · rw [hd]; cases n <;> simp [nodeName_eq, dirUp_eq, Node.name]
  counts := by
    intro a n a' h
    exact next_counts a n a' h
  dirConfined := by
    intro a n a' h hc
    exact ((confined_iff _).mpr ((ArchDec.next_confined a (some n) a' ((confined_iff _).mp hc) h).2))

/-- **Unpacking never changes anything outside the destination** (file-system level): for every
    archive byte stream and every initial file system — symbolic links planted inside the
    destination included — every object that is not at or beneath the destination is exactly what
    it was; only the destination's parent directory may have got a new modification time, because
    the destination itself was created or replaced in it. -/
theorem untar_fs_frame (o : Opts) (root : List Name) (fs : FS) (b : Bytes) (h : RootOK fs root) :
    ∀ p : RPath, ¬ (root <+: p) →
      (p ≠ root.dropLast → ((untarFS o root fs b).1).get p = fs.get p) ∧
      (p = root.dropLast → ∃ a m m', fs.get p = some (.dir a m) ∧ ((untarFS o root fs b).1).get p = some (.dir a m') ∨
                              ((untarFS o root fs b).1).get p = fs.get p) :=
  untar_fs_confined decFacts o root fs b h

end Desync.LFS
