import Desync.Model.WdqSystem
import Desync.Proofs.DedupProofs
import Desync.Proofs.WriteDedupProofs

/-!
  The three machines of one `WriteDedupQueue` (`Model/WdqSystem.lean`): every component of a reachable state of
  the whole is reachable in its own machine, a reader is inside `DedupQueue.GetChunk` only after it has passed
  the write queue, and what a reader returns is what one of the two machines says.
-/

set_option linter.unusedSimpArgs false
set_option linter.unusedVariables false

namespace Desync.WdqSys
open Desync

/-! frame lemmas: a step touches only its own caller's entry -/

theorem dedup_step_other {s s' : Dedup.St} {e : Dedup.Ev} (h : Dedup.step s e = some s') (t : Nat)
    (ht : t ≠ evCaller e) : s'.callers[t]? = s.callers[t]? := by
  cases e with
  | call t0 =>
    obtain ⟨id, hc, h' | h'⟩ := Dedup.step_call_inv h
    · obtain ⟨r, _, rfl⟩ := h'; simp [Dedup.setC, List.getElem?_set, evCaller] at *; omega
    · obtain ⟨_, rfl⟩ := h'; simp [Dedup.setC, List.getElem?_set, evCaller] at *; omega
  | upRet t0 v =>
    obtain ⟨r, hc, rfl⟩ := Dedup.step_upRet_inv h
    simp [Dedup.setC, List.getElem?_set, evCaller] at *; omega
  | markDone t0 =>
    obtain ⟨r, v, hc, rfl⟩ := Dedup.step_markDone_inv h
    simp [Dedup.setC, List.getElem?_set, evCaller] at *; omega
  | delete t0 =>
    obtain ⟨r, v, hc, rfl⟩ := Dedup.step_delete_inv h
    simp [Dedup.setC, List.getElem?_set, evCaller] at *; omega
  | wake t0 =>
    obtain ⟨r, q, hc, _, _, rfl⟩ := Dedup.step_wake_inv h
    simp [Dedup.setC, List.getElem?_set, evCaller] at *; omega

/-- a caller that has passed the write queue stays so: no step of the write queue's machine belongs to it -/
theorem wstep_keeps_rpass {s s' : WDedup.St} {e : WDedup.Ev} (h : WDedup.step s e = some s') (t id : Nat)
    (ht : s.callers[t]? = some (.rpass id)) : s'.callers[t]? = some (.rpass id) := by
  cases e with
  | wcall t0 =>
    obtain ⟨id0, d, hc, h' | h'⟩ := WDedup.step_wcall_inv h
    · obtain ⟨r, _, rfl⟩ := h'
      by_cases htt : t0 = t
      · subst htt; simp [hc] at ht
      · simp [WDedup.setC, List.getElem?_set, htt, ht]
    · obtain ⟨_, rfl⟩ := h'
      by_cases htt : t0 = t
      · subst htt; simp [hc] at ht
      · simp [WDedup.setC, List.getElem?_set, htt, ht]
  | wupRet t0 e0 =>
    obtain ⟨r, d, hc, rfl⟩ := WDedup.step_wupRet_inv h
    by_cases htt : t0 = t
    · subst htt; simp [hc] at ht
    · simp [WDedup.setC, List.getElem?_set, htt, ht]
  | wmarkDone t0 =>
    obtain ⟨r, d, e0, hc, rfl⟩ := WDedup.step_wmarkDone_inv h
    by_cases htt : t0 = t
    · subst htt; simp [hc] at ht
    · simp [WDedup.setC, List.getElem?_set, htt, ht]
  | wdelete t0 =>
    obtain ⟨r, d, e0, hc, rfl⟩ := WDedup.step_wdelete_inv h
    by_cases htt : t0 = t
    · subst htt; simp [hc] at ht
    · simp [WDedup.setC, List.getElem?_set, htt, ht]
  | wwake t0 =>
    obtain ⟨r, q, hc, _, _, rfl⟩ := WDedup.step_wwake_inv h
    by_cases htt : t0 = t
    · subst htt; simp [hc] at ht
    · simp [WDedup.setC, List.getElem?_set, htt, ht]
  | rpeek t0 =>
    obtain ⟨id0, hc, h' | h'⟩ := WDedup.step_rpeek_inv h
    · obtain ⟨r, _, rfl⟩ := h'
      by_cases htt : t0 = t
      · subst htt; simp [hc] at ht
      · simp [WDedup.setC, List.getElem?_set, htt, ht]
    · obtain ⟨_, rfl⟩ := h'
      by_cases htt : t0 = t
      · subst htt; simp [hc] at ht
      · simp [WDedup.setC, List.getElem?_set, htt, ht]
  | rwake t0 =>
    obtain ⟨r, q, hc, _, _, rfl⟩ := WDedup.step_rwake_inv h
    by_cases htt : t0 = t
    · subst htt; simp [hc] at ht
    · simp [WDedup.setC, List.getElem?_set, htt, ht]

/-- a caller is in `rpass id` only as a reader of `id` -/
theorem rpass_role (roles : List WDedup.Role) (s : WDedup.St) (h : WDedup.Reachable (WDedup.St.init roles) s)
    (t id : Nat) (ht : s.callers[t]? = some (.rpass id)) : roles[t]? = some (.reader id) := by
  induction h generalizing t id with
  | refl =>
    simp only [WDedup.St.init, List.getElem?_map] at ht
    rcases WDedup.start_cases ht with ⟨_, _, _, hc⟩ | ⟨_, _, hc⟩ <;> simp at hc
  | @step s1 s2 e hr hs ih =>
    have hi := WDedup.inv_reachable hr
    by_cases hold : s1.callers[t]? = some (.rpass id)
    · exact ih t id hold
    · -- the entry became `rpass id` in this step: the step is the look of reader `t`
      cases e with
      | wcall t0 =>
        obtain ⟨id0, d, hc, h' | h'⟩ := WDedup.step_wcall_inv hs
        · obtain ⟨r, _, rfl⟩ := h'
          simp only [WDedup.setC, List.getElem?_set] at ht
          split at ht <;> simp_all
        · obtain ⟨_, rfl⟩ := h'
          simp only [WDedup.setC, List.getElem?_set] at ht
          split at ht <;> simp_all
      | wupRet t0 e0 =>
        obtain ⟨r, d, hc, rfl⟩ := WDedup.step_wupRet_inv hs
        simp only [WDedup.setC, List.getElem?_set] at ht
        split at ht <;> simp_all
      | wmarkDone t0 =>
        obtain ⟨r, d, e0, hc, rfl⟩ := WDedup.step_wmarkDone_inv hs
        simp only [WDedup.setC, List.getElem?_set] at ht
        split at ht <;> simp_all
      | wdelete t0 =>
        obtain ⟨r, d, e0, hc, rfl⟩ := WDedup.step_wdelete_inv hs
        simp only [WDedup.setC, List.getElem?_set] at ht
        split at ht <;> simp_all
      | wwake t0 =>
        obtain ⟨r, q, hc, _, _, rfl⟩ := WDedup.step_wwake_inv hs
        simp only [WDedup.setC, List.getElem?_set] at ht
        split at ht <;> simp_all
      | rpeek t0 =>
        obtain ⟨id0, hc, h' | h'⟩ := WDedup.step_rpeek_inv hs
        · obtain ⟨r, _, rfl⟩ := h'
          simp only [WDedup.setC, List.getElem?_set] at ht
          split at ht <;> simp_all
        · obtain ⟨_, rfl⟩ := h'
          simp only [WDedup.setC, List.getElem?_set] at ht
          split at ht
          · rename_i htt
            have : id0 = id := by simp_all
            subst this
            exact hi.rstartid t id0 (by simp_all)
          · simp_all
      | rwake t0 =>
        obtain ⟨r, q, hc, _, _, rfl⟩ := WDedup.step_rwake_inv hs
        simp only [WDedup.setC, List.getElem?_set] at ht
        split at ht <;> simp_all

/-! the components of a reachable state are reachable in their own machines -/

theorem reachable_components (roles : List WDedup.Role) (hids : List Nat) (s : St)
    (h : Reachable (St.init roles hids) s) :
    WDedup.Reachable (WDedup.St.init roles) s.w ∧
    Dedup.Reachable (Dedup.St.init (roles.map roleId)) s.g ∧
    Dedup.Reachable (Dedup.St.init hids) s.h := by
  induction h with
  | refl => exact ⟨.refl, .refl, .refl⟩
  | @step s1 s2 e hr hs ih =>
    obtain ⟨hw, hg, hh⟩ := ih
    cases e with
    | w e =>
      simp only [step, Option.map_eq_some_iff] at hs
      obtain ⟨w', hw', rfl⟩ := hs
      exact ⟨.step e hw hw', hg, hh⟩
    | g e =>
      simp only [step] at hs
      split at hs
      · simp only [Option.map_eq_some_iff] at hs
        obtain ⟨g', hg', rfl⟩ := hs
        exact ⟨hw, .step e hg hg', hh⟩
      · simp at hs
    | h e =>
      simp only [step, Option.map_eq_some_iff] at hs
      obtain ⟨h', hh', rfl⟩ := hs
      exact ⟨hw, hg, .step e hh hh'⟩

/-- **program order of a reader**: a caller has moved in the `DedupQueue.GetChunk` machine only if it has passed the
    write queue — i.e. its locked look found no write of its chunk ID in flight -/
theorem read_path_only_after_pass (roles : List WDedup.Role) (hids : List Nat) (s : St)
    (h : Reachable (St.init roles hids) s) (t : Nat) :
    s.g.callers[t]? = (Dedup.St.init (roles.map roleId)).callers[t]? ∨ passed s t = true := by
  induction h with
  | refl => exact .inl rfl
  | @step s1 s2 e hr hs ih =>
    cases e with
    | w e =>
      simp only [step, Option.map_eq_some_iff] at hs
      obtain ⟨w', hw', rfl⟩ := hs
      rcases ih with ih | ih
      · exact .inl ih
      · right
        simp only [passed] at ih ⊢
        split at ih
        · rename_i id hc
          simp [wstep_keeps_rpass hw' t id hc]
        · simp at ih
    | g e =>
      simp only [step] at hs
      split at hs
      · rename_i hp
        simp only [Option.map_eq_some_iff] at hs
        obtain ⟨g', hg', rfl⟩ := hs
        by_cases htt : t = evCaller e
        · right; subst htt; simpa [passed] using hp
        · rcases ih with ih | ih
          · left; simpa [dedup_step_other hg' t htt] using ih
          · right; simpa [passed] using ih
      · simp at hs
    | h e =>
      simp only [step, Option.map_eq_some_iff] at hs
      obtain ⟨h', hh', rfl⟩ := hs
      rcases ih with ih | ih
      · exact .inl ih
      · right; simpa [passed] using ih

/-- **what a reader returns**: a `WriteDedupQueue.GetChunk` that came back through the read path passed the write
    queue (no write of its ID was in flight at its look) and returns the result of an upstream `GetChunk` for its
    own chunk ID made for the request it used -/
theorem reader_result_via_read_path (roles : List WDedup.Role) (hids : List Nat) (s : St)
    (h : Reachable (St.init roles hids) s) (t v r : Nat) (ht : s.g.callers[t]? = some (.returned v r)) :
    ∃ id, roles[t]? = some (.reader id) ∧ s.w.callers[t]? = some (.rpass id) ∧ (r, v) ∈ s.g.upHist ∧
      ∃ q, s.g.reqs[r]? = some q ∧ q.id = id ∧ q.done = true ∧ q.val = v := by
  obtain ⟨hw, hg, _⟩ := reachable_components roles hids s h
  have hp : passed s t = true := by
    rcases read_path_only_after_pass roles hids s h t with h0 | h0
    · rw [ht] at h0
      simp only [Dedup.St.init, List.getElem?_map] at h0
      cases hx : roles[t]? <;> simp [hx] at h0
    · exact h0
  simp only [passed] at hp
  split at hp
  · rename_i id hc
    have hrole := rpass_role roles s.w hw t id hc
    obtain ⟨h1, q, hq, _, hid, hd, hv⟩ := Dedup.returned_value_is_upstream (roles.map roleId) s.g hg t v r ht
    refine ⟨id, hrole, hc, h1, q, hq, ?_, hd, hv⟩
    have : (roles.map roleId)[t]? = some id := by simp [hrole, roleId]
    simpa [List.getD, this] using hid
  · simp at hp

/-- an accepted trace ends in a reachable state -/
theorem replay_reachable {s0 s : St} (h : Reachable s0 s) (es : List Ev) (s' : St)
    (hr : replay s es = some s') : Reachable s0 s' := by
  induction es generalizing s with
  | nil => simp [replay] at hr; subst hr; exact h
  | cons e es ih =>
    simp only [replay] at hr
    split at hr
    · rename_i s1 hs; exact ih (.step e h hs) hr
    · simp at hr

end Desync.WdqSys
