/-
  Proofs about the FUSE node layer (Model/MountFS.lean): the kernel's read(2) over an exact READ server, the index
  mount's requests (from the reader theorems of Proofs/ReadSeekerRead.lean), the sparse mount's requests (from
  Proofs/SparseProofs.lean).
-/
import Desync.Model.MountFS
import Desync.Proofs.ReadSeekerProofs
import Desync.Proofs.SparseProofs

namespace Desync.MountFS
open Desync

/-! ### Getattr -/

theorem applyConv_id {cs : List String} (h : conv64 cs = true) {n : Nat} (hn : n < 2 ^ 64) :
    applyConv cs n = some n := by
  induction cs with
  | nil => rfl
  | cons c cs ih =>
    simp only [conv64, Bool.and_eq_true, Bool.or_eq_true, beq_iff_eq] at h
    obtain ⟨hc, hcs⟩ := h
    simp only [applyConv, ih hcs]
    rcases hc with ((rfl | rfl) | rfl) | rfl <;> simp [conv1, Nat.mod_eq_of_lt hn]

theorem indexLength_eq {cs : List RChunk} (ht : TilesFrom 0 cs) : indexLength cs = endOf 0 cs := by
  unfold indexLength
  cases hcs : cs with
  | nil => simp [endOf]
  | cons d ds =>
    rw [← hcs]
    have hlen : 0 < cs.length := by rw [hcs]; simp
    have hget : cs[cs.length - 1]? = some (cs[cs.length - 1]'(by omega)) := List.getElem?_eq_getElem (by omega)
    rw [hget]
    have := (tiles_get ht hget).2.2.2.1 (by omega)
    simpa using this

theorem getattr_ok {f : NodeFacts} (hok : f.ok = true) {blob : Bytes} {cs : List RChunk}
    (ht : TilesFrom 0 cs) (he : endOf 0 cs = blob.length) (hlen : blob.length < 2 ^ 64) :
    getattrResp f cs = .attr (S_IFREG + 0o444) blob.length := by
  simp only [NodeFacts.ok, Bool.and_eq_true, decide_eq_true_eq] at hok
  obtain ⟨⟨⟨h1, h2⟩, h3⟩, _⟩ := hok
  unfold getattrResp attrSize
  rw [if_pos h2, indexLength_eq ht, he, applyConv_id h3 hlen, h1]

/-! ### the kernel over an exact server -/

/-- the READ server answers with exactly the blob's bytes of the range asked for, or with an errno, in every state
    satisfying `P` -/
structure ExactSrv {σ : Type} (blob : Bytes) (srv : Srv σ) (P : σ → Prop) : Prop where
  keep : ∀ s off l, P s → P (srv s off l).2
  exact : ∀ s off l b, P s → (srv s off l).1 = some b → b = (blob.drop off).take l

theorem kpieces_sum (n : Nat) (split : List Nat) : (kpieces n split).sum = n := by
  induction split generalizing n with
  | nil => cases n <;> simp [kpieces]
  | cons p ps ih =>
    cases n with
    | zero => simp [kpieces]
    | succ n => simp only [kpieces, List.sum_cons, ih]; omega

theorem take_take_self (l : Bytes) (n : Nat) : (l.take n).take n = l.take n := by
  rw [List.take_take]; simp

theorem drop_take_split (blob : Bytes) (off a b : Nat) (_hfull : ((blob.drop off).take a).length = a) :
    (blob.drop off).take a ++ (blob.drop (off + a)).take b = (blob.drop off).take (a + b) := by
  rw [List.take_add, ← List.drop_drop]

theorem take_short_all (l : Bytes) (a k : Nat) (h : (l.take a).length < a) : l.take a = l.take (a + k) := by
  rw [List.length_take] at h
  have hl : l.length < a := by omega
  rw [List.take_of_length_le (by omega), List.take_of_length_le (by omega)]

/-- the kernel loop: whatever the server's errnos, the caller gets a correct prefix of the range (or the errno, with
    nothing copied); if the server never answers with an errno in this run, the whole range -/
theorem kserve_spec {σ : Type} {blob : Bytes} {srv : Srv σ} {P : σ → Prop} (hx : ExactSrv blob srv P)
    (pieces : List Nat) (s : σ) (off : Nat) (acc : Bytes) (hp : P s) :
    P (kserve srv pieces s off acc).2 ∧
    ((kserve srv pieces s off acc).1 = .errno ∧ acc = [] ∨
     ∃ t, (kserve srv pieces s off acc).1 = .data (acc ++ t) ∧ t = (blob.drop off).take t.length ∧
        t.length ≤ pieces.sum) ∧
    ((∀ s' off' l', P s' → ((srv s' off' l').1).isSome) →
      (kserve srv pieces s off acc).1 = .data (acc ++ (blob.drop off).take pieces.sum)) := by
  induction pieces generalizing s off acc with
  | nil => exact ⟨hp, Or.inr ⟨[], by simp [kserve], by simp, by simp⟩, fun _ => by simp [kserve]⟩
  | cons l ls ih =>
    have hk := hx.keep s off l hp
    cases hr : srv s off l with
    | mk o s' =>
      rw [hr] at hk
      cases o with
      | none =>
        refine ⟨by simpa [kserve, hr] using hk, ?_, ?_⟩
        · by_cases he : acc = []
          · left; subst he; simp [kserve, hr]
          · right
            refine ⟨[], ?_, by simp, by simp⟩
            have : acc.isEmpty = false := by cases acc <;> simp_all
            simp [kserve, hr, this]
        · intro hall; have := hall s off l hp; rw [hr] at this; simp at this
      | some b =>
        have hb := hx.exact s off l b hp (by rw [hr])
        have hbt : b.take l = (blob.drop off).take l := by rw [hb, take_take_self]
        by_cases hshort : (b.take l).length < l
        · have hres : kserve srv (l :: ls) s off acc = (.data (acc ++ b.take l), s') := by
            rw [kserve, hr]; exact if_pos hshort
          rw [hres]
          refine ⟨hk, Or.inr ⟨b.take l, rfl, ?_, ?_⟩, fun _ => ?_⟩
          · have hD : (blob.drop off).length < l := by rw [hbt, List.length_take] at hshort; omega
            rw [hbt, List.take_of_length_le (Nat.le_of_lt hD)]
            exact (List.take_length).symm
          · simp only [List.sum_cons]; omega
          · rw [hbt] at hshort ⊢
            simp only [List.sum_cons]
            rw [take_short_all _ l ls.sum hshort]
        · have hfull : (b.take l).length = l := by
            have := List.length_take_le l b; omega
          have hres : kserve srv (l :: ls) s off acc = kserve srv ls s' (off + l) (acc ++ b.take l) := by
            rw [kserve, hr]; exact if_neg hshort
          rw [hres]
          obtain ⟨i1, i2, i3⟩ := ih s' (off + l) (acc ++ b.take l) hk
          rw [hbt] at hfull
          refine ⟨i1, ?_, fun hall => ?_⟩
          · rcases i2 with ⟨e, he⟩ | ⟨t, e1, e2, e3⟩
            · left; exact ⟨e, (List.append_eq_nil_iff.mp he).1⟩
            · right
              refine ⟨b.take l ++ t, by rw [e1, List.append_assoc], ?_, ?_⟩
              · rw [List.length_append, hbt, hfull, ← drop_take_split blob off l t.length hfull, ← e2]
              · rw [List.length_append, hbt, hfull]; simp only [List.sum_cons]; omega
          · rw [i3 hall, List.append_assoc, hbt, drop_take_split blob off l ls.sum hfull]
            simp only [List.sum_cons]

/-- clipping to the size GETATTR reported, when that size is the blob's length, changes nothing -/
theorem clip_take (blob : Bytes) (off len : Nat) :
    (blob.drop off).take (if blob.length ≤ off then 0 else min len (blob.length - off)) =
      (blob.drop off).take len := by
  by_cases h : blob.length ≤ off
  · rw [if_pos h, List.drop_of_length_le h]; simp
  · rw [if_neg h]
    by_cases h2 : len ≤ blob.length - off
    · rw [Nat.min_eq_left h2]
    · rw [Nat.min_eq_right (by omega)]
      rw [List.take_of_length_le (by simp), List.take_of_length_le (by simp; omega)]

/-- **read(2) on the mounted file**, for a server that is exact for `blob` and a GETATTR size that is the blob's
    length, without direct-io: a correct prefix of `blob[off, off+len)` (cut at the end of the blob) or an errno with
    nothing copied; the whole range when no request of this read is answered with an errno -/
theorem kread_spec {σ : Type} {blob : Bytes} {srv : Srv σ} {P : σ → Prop} (hx : ExactSrv blob srv P)
    (flags : Nat) (hnd : flags &&& FOPEN_DIRECT_IO = 0) (split : List Nat) (s : σ) (off len : Nat) (hp : P s) :
    P (kread srv blob.length flags split s off len).2 ∧
    (∀ b, (kread srv blob.length flags split s off len).1 = .data b →
        b = ((blob.drop off).take len).take b.length) ∧
    ((∀ s' off' l', P s' → ((srv s' off' l').1).isSome) →
      (kread srv blob.length flags split s off len).1 = .data ((blob.drop off).take len)) := by
  unfold kread
  simp only [hnd, ne_eq, not_true_eq_false, if_false]
  obtain ⟨k1, k2, k3⟩ := kserve_spec hx
    (kpieces (if blob.length ≤ off then 0 else min len (blob.length - off)) split) s off [] hp
  refine ⟨k1, fun b hb => ?_, fun hall => ?_⟩
  · rcases k2 with ⟨e, _⟩ | ⟨t, e1, e2, e3⟩
    · rw [e] at hb; cases hb
    · rw [e1] at hb
      simp only [List.nil_append, KRes.data.injEq] at hb
      subst hb
      rw [kpieces_sum] at e3
      rw [← clip_take blob off len, List.take_take, Nat.min_eq_left e3]
      exact e2
  · rw [k3 hall, kpieces_sum, List.nil_append, clip_take]

/-! ### the index mount -/

/-- every open handle's reader satisfies the reader invariant over the mount's index -/
structure IdxInv (blob : Bytes) (fetch : Fetch) (m : IdxMount) : Prop where
  setup : Setup blob m.newReader fetch
  handles : ∀ (fh : Nat) (ip : IdxPos), m.handles[fh]? = some (some ip) → Inv blob ip ∧ SameIdx m.newReader ip

/-- the mount serves the same index under the same name -/
def SameMount (m m' : IdxMount) : Prop :=
  m'.fname = m.fname ∧ m'.chunks = m.chunks ∧ m'.nullID = m.nullID ∧ m'.nullLen = m.nullLen

theorem SameMount.reader {m m' : IdxMount} (h : SameMount m m') : m'.newReader = m.newReader := by
  obtain ⟨_, h2, h3, h4⟩ := h
  simp [IdxMount.newReader, h2, h3, h4]

/-- what the node may answer to a request -/
def RespSpec (blob : Bytes) (fname : String) (f : NodeFacts) : Req → Resp → Prop
  | .lookup n, r => r = if n = fname then .entry S_IFREG else .err .enoent
  | .getattr, r => r = .attr (S_IFREG + 0o444) blob.length
  | .open_, r => ∃ fh, r = .opened fh f.openFlags
  | .read _ off len, r =>
    (∃ b, r = .data b ∧ off ≤ blob.length ∧ b = (blob.drop off).take len) ∨ r = .err .eio ∨ r = .err .ebadf
  | .release _, r => r = .released ∨ r = .err .ebadf

theorem set_getElem?_cases {α : Type} (l : List α) (i j : Nat) (v x : α) (h : (l.set i v)[j]? = some x) :
    (j = i ∧ x = v) ∨ l[j]? = some x := by
  by_cases hij : i = j
  · subst hij
    by_cases hl : i < l.length
    · rw [List.getElem?_set_self hl] at h; left; exact ⟨rfl, (Option.some.inj h).symm⟩
    · rw [List.getElem?_eq_none (by simp; omega)] at h; cases h
  · rw [List.getElem?_set_ne hij] at h; right; exact h

theorem idx_serve_spec {f : NodeFacts} (hok : f.ok = true) {blob : Bytes} {fetch : Fetch} {m : IdxMount}
    (hlen : blob.length < 2 ^ 64) (hinv : IdxInv blob fetch m) (q : Req) :
    IdxInv blob fetch (m.serve f fetch q).2 ∧ SameMount m (m.serve f fetch q).2 ∧
    RespSpec blob m.fname f q (m.serve f fetch q).1 := by
  have hs := hinv.setup
  cases q with
  | lookup n => exact ⟨hinv, ⟨rfl, rfl, rfl, rfl⟩, rfl⟩
  | getattr =>
    refine ⟨hinv, ⟨rfl, rfl, rfl, rfl⟩, ?_⟩
    exact getattr_ok hok hs.tiles hs.len.2 hlen
  | open_ =>
    refine ⟨⟨hs, ?_⟩, ⟨rfl, rfl, rfl, rfl⟩, ⟨_, rfl⟩⟩
    intro fh ip h
    simp only [IdxMount.serve] at h
    by_cases hlt : fh < m.handles.length
    · rw [List.getElem?_append_left hlt] at h; exact hinv.handles fh ip h
    · rw [List.getElem?_append_right (by omega)] at h
      cases hz : fh - m.handles.length with
      | zero =>
        rw [hz] at h; simp at h; subst h
        exact ⟨inv_new blob _ _ _ _ hs.tiles, SameIdx.refl _⟩
      | succ k => rw [hz] at h; simp at h
  | read fh off len =>
    cases hh : m.handles[fh]? with
    | none => simp only [IdxMount.serve, hh]; exact ⟨hinv, ⟨rfl, rfl, rfl, rfl⟩, Or.inr (Or.inr rfl)⟩
    | some o =>
      cases o with
      | none => simp only [IdxMount.serve, hh]; exact ⟨hinv, ⟨rfl, rfl, rfl, rfl⟩, Or.inr (Or.inr rfl)⟩
      | some ip =>
        obtain ⟨hi, hsame⟩ := hinv.handles fh ip hh
        obtain ⟨s1, s2, s3⟩ := fuseRead_safe (hs.of_same hsame) hi off len m.calls
        simp only [IdxMount.serve, hh]
        refine ⟨⟨hs, ?_⟩, ⟨rfl, rfl, rfl, rfl⟩, ?_⟩
        · intro fh' ip' h'
          rcases set_getElem?_cases _ _ _ _ _ h' with ⟨_, e⟩ | e
          · cases e; exact ⟨s1, hsame.trans s2⟩
          · exact hinv.handles fh' ip' e
        · cases hres : (ip.fuseRead fetch off len m.calls).1 with
          | none => exact Or.inr (Or.inl rfl)
          | some b =>
            obtain ⟨a1, a2, _⟩ := s3 b hres
            exact Or.inl ⟨b, rfl, a1, a2⟩
  | release fh =>
    cases hh : m.handles[fh]? with
    | none => simp only [IdxMount.serve, hh]; exact ⟨hinv, ⟨rfl, rfl, rfl, rfl⟩, Or.inr rfl⟩
    | some o =>
      cases o with
      | none => simp only [IdxMount.serve, hh]; exact ⟨hinv, ⟨rfl, rfl, rfl, rfl⟩, Or.inr rfl⟩
      | some ip =>
        simp only [IdxMount.serve, hh]
        refine ⟨⟨hs, ?_⟩, ⟨rfl, rfl, rfl, rfl⟩, Or.inl rfl⟩
        intro fh' ip' h'
        rcases set_getElem?_cases _ _ _ _ _ h' with ⟨_, e⟩ | e
        · cases e
        · exact hinv.handles fh' ip' e

/-- the invariant carried along a request sequence: `SameMount` moves `Setup` along -/
theorem IdxInv.of_same {blob : Bytes} {fetch : Fetch} {m m' : IdxMount} (h : SameMount m m')
    (hi : IdxInv blob fetch m') : Setup blob m.newReader fetch := by
  rw [← h.reader]; exact hi.setup

theorem idx_run_spec {f : NodeFacts} (hok : f.ok = true) {blob : Bytes} {fetch : Fetch}
    (hlen : blob.length < 2 ^ 64) (qs : List Req) (m : IdxMount) (hinv : IdxInv blob fetch m) :
    IdxInv blob fetch (m.run f fetch qs).2 ∧ SameMount m (m.run f fetch qs).2 ∧
    ∀ (j : Nat) (q : Req) (r : Resp), qs[j]? = some q → (m.run f fetch qs).1[j]? = some r → RespSpec blob m.fname f q r := by
  induction qs generalizing m with
  | nil => exact ⟨hinv, ⟨rfl, rfl, rfl, rfl⟩, fun j q r h => by simp at h⟩
  | cons q qs ih =>
    obtain ⟨a1, a2, a3⟩ := idx_serve_spec hok hlen hinv q
    obtain ⟨b1, b2, b3⟩ := ih (m.serve f fetch q).2 a1
    simp only [IdxMount.run]
    refine ⟨b1, ?_, ?_⟩
    · obtain ⟨x1, x2, x3, x4⟩ := a2
      obtain ⟨y1, y2, y3, y4⟩ := b2
      exact ⟨y1.trans x1, y2.trans x2, y3.trans x3, y4.trans x4⟩
    · intro j q' r hq hr
      cases j with
      | zero => simp at hq hr; subst hq; subst hr; exact a3
      | succ j =>
        simp only [List.getElem?_cons_succ] at hq hr
        have := b3 j q' r hq hr
        rw [a2.1] at this; exact this

/-- a fresh mount satisfies the invariant -/
theorem idx_new_inv {blob : Bytes} {fetch : Fetch} (m : IdxMount) (hh : m.handles = [])
    (hs : Setup blob m.newReader fetch) : IdxInv blob fetch m :=
  ⟨hs, fun fh ip h => by rw [hh] at h; simp at h⟩

/-- the READ server of an open handle is exact -/
def IdxP (blob : Bytes) (fetch : Fetch) (fh : Nat) (m : IdxMount) : Prop :=
  IdxInv blob fetch m ∧ ∃ ip, m.handles[fh]? = some (some ip)

theorem idx_srv_exact {f : NodeFacts} {blob : Bytes} {fetch : Fetch} (fh : Nat) :
    ExactSrv blob (IdxMount.srv f fetch fh) (IdxP blob fetch fh) := by
  constructor
  · intro m off l ⟨hinv, ip, hip⟩
    obtain ⟨hi, hsame⟩ := hinv.handles fh ip hip
    obtain ⟨s1, s2, _⟩ := fuseRead_safe (hinv.setup.of_same hsame) hi off l m.calls
    have hm : (IdxMount.srv f fetch fh m off l).2 =
        { m with handles := m.handles.set fh (some (ip.fuseRead fetch off l m.calls).2.1),
                 calls := (ip.fuseRead fetch off l m.calls).2.2 } := by
      simp only [IdxMount.srv, IdxMount.serve, hip]
      cases (ip.fuseRead fetch off l m.calls).1 <;> rfl
    rw [hm]
    refine ⟨⟨hinv.setup, ?_⟩, (ip.fuseRead fetch off l m.calls).2.1, ?_⟩
    · intro fh' ip' h'
      rcases set_getElem?_cases _ _ _ _ _ h' with ⟨_, e⟩ | e
      · cases e; exact ⟨s1, hsame.trans s2⟩
      · exact hinv.handles fh' ip' e
    · show (m.handles.set fh _)[fh]? = _
      have hlt : fh < m.handles.length := by
        by_cases h : fh < m.handles.length
        · exact h
        · rw [List.getElem?_eq_none (by omega)] at hip; cases hip
      rw [List.getElem?_set_self hlt]
  · intro m off l b ⟨hinv, ip, hip⟩ hb
    obtain ⟨hi, hsame⟩ := hinv.handles fh ip hip
    obtain ⟨_, _, s3⟩ := fuseRead_safe (hinv.setup.of_same hsame) hi off l m.calls
    simp only [IdxMount.srv, IdxMount.serve, hip] at hb
    cases hres : (ip.fuseRead fetch off l m.calls).1 with
    | none => rw [hres] at hb; simp at hb
    | some b' =>
      rw [hres] at hb; simp at hb; subst hb
      exact (s3 b' hres).2.1

/-- with a store that never fails, a request at an offset inside the blob is never answered with an errno -/
theorem idx_srv_total {f : NodeFacts} {blob : Bytes} {fetch : Fetch} (fh : Nat) (m : IdxMount)
    (hp : IdxP blob fetch fh m) (hnf : NeverFails m.newReader fetch) (off l : Nat) (hoff : off ≤ blob.length) :
    ((IdxMount.srv f fetch fh m off l).1).isSome := by
  obtain ⟨hinv, ip, hip⟩ := hp
  obtain ⟨hi, hsame⟩ := hinv.handles fh ip hip
  obtain ⟨ip', c', e, _, _⟩ := (fuseRead_exact (hinv.setup.of_same hsame) hi (hnf.of_same hsame) off l m.calls).1 hoff
  simp [IdxMount.srv, IdxMount.serve, hip, e]

/-! ### the sparse mount -/

structure SpInv (blob : Bytes) (fetch : Fetch) (m : SpMount) : Prop where
  setup : SparseSetup blob m.s fetch
  inv : SparseInv blob m.s

def SpRespSpec (blob : Bytes) (fname : String) (f : NodeFacts) : Req → Resp → Prop
  | .lookup n, r => r = if n = fname then .entry S_IFREG else .err .enoent
  | .getattr, r => r = .attr (S_IFREG + 0o444) blob.length
  | .open_, r => ∃ fh, r = .opened fh f.openFlags
  | .read _ off len, r => (∃ b, r = .data b ∧ b = (blob.drop off).take len) ∨ r = .err .eio ∨ r = .err .ebadf
  | .release _, r => r = .released ∨ r = .err .ebadf

theorem mountRead_spec {blob : Bytes} {s : SparseSt} {fetch : Fetch}
    (hs : SparseSetup blob s fetch) (hi : SparseInv blob s) (off n : Nat) :
    (∀ b, (s.mountRead fetch off n).1 = some b → b = (blob.drop off).take n) ∧
    SparseInv blob (s.mountRead fetch off n).2 ∧ SameIndex s (s.mountRead fetch off n).2 := by
  have hinv := readAt_inv hs hi off n
  unfold SparseSt.mountRead
  cases hr : s.readAt fetch off n with
  | mk r s' =>
    rw [hr] at hinv
    cases r with
    | data b eof =>
      refine ⟨fun b' hb => ?_, hinv.1, hinv.2.1⟩
      simp at hb; subst hb
      exact (readAt_data hs hi (by rw [hr])).1
    | err => exact ⟨fun b' hb => by simp at hb, hinv.1, hinv.2.1⟩

theorem sp_serve_spec {f : NodeFacts} (hok : f.ok = true) {blob : Bytes} {fetch : Fetch} {m : SpMount}
    (hlen : blob.length < 2 ^ 64) (hinv : SpInv blob fetch m) (q : Req) :
    SpInv blob fetch (m.serve f fetch q).2 ∧ (m.serve f fetch q).2.fname = m.fname ∧
    SameIndex m.s (m.serve f fetch q).2.s ∧
    SpRespSpec blob m.fname f q (m.serve f fetch q).1 := by
  have hs := hinv.setup
  cases q with
  | lookup n => exact ⟨hinv, rfl, SameIndex.refl _, rfl⟩
  | getattr => exact ⟨hinv, rfl, SameIndex.refl _, getattr_ok hok hs.tiles hs.len.2 hlen⟩
  | open_ => exact ⟨⟨hs, hinv.inv⟩, rfl, SameIndex.refl _, ⟨_, rfl⟩⟩
  | read fh off len =>
    cases hh : m.handles[fh]? with
    | none => simp only [SpMount.serve, hh]; exact ⟨hinv, trivial, SameIndex.refl _, Or.inr (Or.inr rfl)⟩
    | some o =>
      cases o with
      | false => simp only [SpMount.serve, hh]; exact ⟨hinv, trivial, SameIndex.refl _, Or.inr (Or.inr rfl)⟩
      | true =>
        obtain ⟨r1, r2, r3⟩ := mountRead_spec hs hinv.inv off len
        simp only [SpMount.serve, hh]
        refine ⟨⟨hs.of_same r3, r2⟩, trivial, r3, ?_⟩
        cases hres : (m.s.mountRead fetch off len).1 with
        | none => exact Or.inr (Or.inl rfl)
        | some b => exact Or.inl ⟨b, rfl, r1 b hres⟩
  | release fh =>
    cases hh : m.handles[fh]? with
    | none => simp only [SpMount.serve, hh]; exact ⟨hinv, trivial, SameIndex.refl _, Or.inr rfl⟩
    | some o =>
      cases o with
      | false => simp only [SpMount.serve, hh]; exact ⟨hinv, trivial, SameIndex.refl _, Or.inr rfl⟩
      | true => simp only [SpMount.serve, hh]; exact ⟨⟨hs, hinv.inv⟩, trivial, SameIndex.refl _, Or.inl rfl⟩

theorem sp_run_spec {f : NodeFacts} (hok : f.ok = true) {blob : Bytes} {fetch : Fetch}
    (hlen : blob.length < 2 ^ 64) (qs : List Req) (m : SpMount) (hinv : SpInv blob fetch m) :
    SpInv blob fetch (m.run f fetch qs).2 ∧ (m.run f fetch qs).2.fname = m.fname ∧
    SameIndex m.s (m.run f fetch qs).2.s ∧
    ∀ (j : Nat) (q : Req) (r : Resp), qs[j]? = some q → (m.run f fetch qs).1[j]? = some r → SpRespSpec blob m.fname f q r := by
  induction qs generalizing m with
  | nil => exact ⟨hinv, rfl, SameIndex.refl _, fun j q r h => by simp at h⟩
  | cons q qs ih =>
    obtain ⟨a1, a2, a3, a4⟩ := sp_serve_spec hok hlen hinv q
    obtain ⟨b1, b2, b3, b4⟩ := ih (m.serve f fetch q).2 a1
    simp only [SpMount.run]
    refine ⟨b1, b2.trans a2, a3.trans b3, ?_⟩
    intro j q' r hq hr
    cases j with
    | zero => simp at hq hr; subst hq; subst hr; exact a4
    | succ j =>
      simp only [List.getElem?_cons_succ] at hq hr
      have := b4 j q' r hq hr
      rw [a2] at this; exact this

def SpP (blob : Bytes) (fetch : Fetch) (fh : Nat) (m : SpMount) : Prop :=
  SpInv blob fetch m ∧ m.handles[fh]? = some true

theorem sp_srv_exact {f : NodeFacts} {blob : Bytes} {fetch : Fetch} (fh : Nat) :
    ExactSrv blob (SpMount.srv f fetch fh) (SpP blob fetch fh) := by
  constructor
  · intro m off l ⟨hinv, hh⟩
    obtain ⟨_, r2, r3⟩ := mountRead_spec hinv.setup hinv.inv off l
    have hm : (SpMount.srv f fetch fh m off l).2 = { m with s := (m.s.mountRead fetch off l).2 } := by
      simp only [SpMount.srv, SpMount.serve, hh]
      cases (m.s.mountRead fetch off l).1 <;> rfl
    rw [hm]
    exact ⟨⟨hinv.setup.of_same r3, r2⟩, hh⟩
  · intro m off l b ⟨hinv, hh⟩ hb
    obtain ⟨r1, _, _⟩ := mountRead_spec hinv.setup hinv.inv off l
    simp only [SpMount.srv, SpMount.serve, hh] at hb
    cases hres : (m.s.mountRead fetch off l).1 with
    | none => rw [hres] at hb; simp at hb
    | some b' => rw [hres] at hb; simp at hb; subst hb; exact r1 b' hres

/-! ### a user of the mounted file: GETATTR, OPEN, read(2) -/

theorem idx_userRead_spec {f : NodeFacts} (hok : f.ok = true) {blob : Bytes} {fetch : Fetch} {m : IdxMount}
    (hlen : blob.length < 2 ^ 64) (hinv : IdxInv blob fetch m) (split : List Nat) (off len : Nat) :
    ∃ r m', m.userRead f fetch split off len = some (r, m') ∧ IdxInv blob fetch m' ∧
      (∀ b, r = .data b → b = ((blob.drop off).take len).take b.length) ∧
      (NeverFails m.newReader fetch → r = .data ((blob.drop off).take len)) := by
  have hga := (idx_serve_spec hok hlen hinv .getattr).2.2
  have hop := idx_serve_spec hok hlen hinv .open_
  simp only [RespSpec] at hga
  have hnd : f.openFlags &&& FOPEN_DIRECT_IO = 0 := by
    simp only [NodeFacts.ok, Bool.and_eq_true, decide_eq_true_eq] at hok; exact hok.2
  have hP : IdxP blob fetch m.handles.length (m.serve f fetch .open_).2 := by
    refine ⟨hop.1, m.newReader, ?_⟩
    simp [IdxMount.serve]
  obtain ⟨k1, k2, k3⟩ := kread_spec (idx_srv_exact (f := f) (blob := blob) (fetch := fetch) m.handles.length)
    f.openFlags hnd split _ off len hP
  refine ⟨_, _, ?_, k1.1, k2, fun hnf => ?_⟩
  · have e1 : m.serve f fetch .getattr = (.attr (S_IFREG + 0o444) blob.length, m) := Prod.ext hga rfl
    unfold IdxMount.userRead
    rw [e1]
    rfl
  · -- no errno: every request of this read is at an offset inside the blob
    have hx := idx_srv_exact (f := f) (blob := blob) (fetch := fetch) m.handles.length
    -- restrict the predicate to states of this mount (the store never fails on its index)
    let P' : IdxMount → Prop := fun m' => IdxP blob fetch m.handles.length m' ∧ m'.newReader = m.newReader
    have hx' : ExactSrv blob (IdxMount.srv f fetch m.handles.length) P' := by
      constructor
      · intro s o l ⟨h1, h2⟩
        refine ⟨hx.keep s o l h1, ?_⟩
        obtain ⟨hinv', ip, hip⟩ := h1
        have : (IdxMount.srv f fetch m.handles.length s o l).2.newReader = s.newReader := by
          simp only [IdxMount.srv, IdxMount.serve, hip]
          cases (ip.fuseRead fetch o l s.calls).1 <;> rfl
        rw [this, h2]
      · intro s o l b ⟨h1, _⟩ hb; exact hx.exact s o l b h1 hb
    have hP' : P' (m.serve f fetch .open_).2 := ⟨hP, rfl⟩
    -- the clipped kernel loop only asks inside the blob; outside it the reply would be EIO, so totality is shown
    -- for the clipped server
    let srvc : Srv IdxMount := fun s o l =>
      if o ≤ blob.length then IdxMount.srv f fetch m.handles.length s o l else (some [], s)
    have hxc : ExactSrv blob srvc P' := by
      constructor
      · intro s o l hp
        by_cases ho : o ≤ blob.length
        · simp only [srvc, if_pos ho]; exact hx'.keep s o l hp
        · simp only [srvc, if_neg ho]; exact hp
      · intro s o l b hp hb
        by_cases ho : o ≤ blob.length
        · simp only [srvc, if_pos ho] at hb; exact hx'.exact s o l b hp hb
        · simp only [srvc, if_neg ho] at hb
          have : b = [] := by simpa using hb.symm
          rw [this, List.drop_of_length_le (by omega)]; simp
    have htot : ∀ s' off' l', P' s' → ((srvc s' off' l').1).isSome := by
      intro s' o l ⟨h1, h2⟩
      by_cases ho : o ≤ blob.length
      · simp only [srvc, if_pos ho]
        exact idx_srv_total _ s' h1 (by rw [h2]; exact hnf) o l ho
      · simp only [srvc, if_neg ho]; rfl
    have hsame : ∀ pieces s o acc, (pieces ≠ [] → o + pieces.sum ≤ blob.length) →
        kserve srvc pieces s o acc = kserve (IdxMount.srv f fetch m.handles.length) pieces s o acc := by
      intro pieces
      induction pieces with
      | nil => intro s o acc _; rfl
      | cons l ls ih =>
        intro s o acc hle
        have hle := hle (by simp)
        simp only [List.sum_cons] at hle
        have ho : o ≤ blob.length := by omega
        have e : srvc s o l = IdxMount.srv f fetch m.handles.length s o l := by simp only [srvc, if_pos ho]
        rw [kserve, kserve, e]
        cases IdxMount.srv f fetch m.handles.length s o l with
        | mk o' s' =>
          cases o' with
          | none => rfl
          | some b =>
            show (if _ then _ else _) = (if _ then _ else _)
            rw [ih s' (o + l) _ (fun _ => by omega)]
    obtain ⟨_, _, c3⟩ := kread_spec hxc f.openFlags hnd split (m.serve f fetch .open_).2 off len hP'
    have := c3 htot
    unfold kread at this ⊢
    simp only [hnd, ne_eq, not_true_eq_false, if_false] at this ⊢
    rw [hsame] at this
    · exact this
    · intro hne
      rw [kpieces_sum]
      by_cases h : blob.length ≤ off
      · rw [if_pos h] at hne; exact absurd (by cases split <;> rfl) hne
      · rw [if_neg h]; have := Nat.min_le_right len (blob.length - off); omega

theorem sp_userRead_spec {f : NodeFacts} (hok : f.ok = true) {blob : Bytes} {fetch : Fetch} {m : SpMount}
    (hlen : blob.length < 2 ^ 64) (hinv : SpInv blob fetch m) (split : List Nat) (off len : Nat) :
    ∃ r m', m.userRead f fetch split off len = some (r, m') ∧ SpInv blob fetch m' ∧
      (∀ b, r = .data b → b = ((blob.drop off).take len).take b.length) := by
  have hga := (sp_serve_spec hok hlen hinv .getattr).2.2.2
  have hop := sp_serve_spec hok hlen hinv .open_
  simp only [SpRespSpec] at hga
  have hnd : f.openFlags &&& FOPEN_DIRECT_IO = 0 := by
    simp only [NodeFacts.ok, Bool.and_eq_true, decide_eq_true_eq] at hok; exact hok.2
  have hP : SpP blob fetch m.handles.length (m.serve f fetch .open_).2 := by
    refine ⟨hop.1, ?_⟩
    simp [SpMount.serve]
  obtain ⟨k1, k2, _⟩ := kread_spec (sp_srv_exact (f := f) (blob := blob) (fetch := fetch) m.handles.length)
    f.openFlags hnd split _ off len hP
  refine ⟨_, _, ?_, k1.1, k2⟩
  have e1 : m.serve f fetch .getattr = (.attr (S_IFREG + 0o444) blob.length, m) := Prod.ext hga rfl
  unfold SpMount.userRead
  rw [e1]
  rfl

end Desync.MountFS
