/-
  (7) The goodbye table of every directory in an archive written by `tarStream` points at its
  children: each item's back-offset, counted from the start of the goodbye element, leads to the
  child's filename element; its size spans the filename element and the child's whole encoding; its
  hash is the SipHash of the child's name; the tail item carries the distance back to the directory's
  own entry and the table's size.  (`tarStream_tree` shows that `tarStream` writes `Tree.body`;
  `Tree.body` is recursive, so this holds for the directories at every depth.)
-/
import Desync.Proofs.TarTreeRoundTrip

namespace Desync

/-- length of a directory's header (entry + xattrs) -/
def Tree.hdrLen (f : FileRec) : Nat := (encElem (entryElem f) ++ encXattrs f.xattrs).length

/-- position of the goodbye element inside the directory's encoding -/
def Tree.goodbyePos (f : FileRec) (cs : List Tree) : Nat := Tree.hdrLen f + (Tree.bodies cs).length

/-! ### helpers -/

theorem Tree.bodies_append (pre ts : List Tree) :
    Tree.bodies (pre ++ ts) = Tree.bodies pre ++ Tree.bodies ts := by
  induction pre with
  | nil => simp [Tree.bodies]
  | cons t pre ih => simp [Tree.bodies, ih]

theorem Tree.items_append (pre ts : List Tree) : ∀ n,
    Tree.items n (pre ++ ts) = Tree.items n pre ++ Tree.items (n + (Tree.bodies pre).length) ts := by
  induction pre with
  | nil => intro n; simp [Tree.items, Tree.bodies]
  | cons t pre ih =>
    intro n
    simp only [List.cons_append, Tree.items, Tree.bodies, ih, List.length_append]
    congr 3
    omega

/-- the item the child loop collects for `t`, whose filename element starts at byte `n` -/
def childItem (n : Nat) (t : Tree) : GoodbyeItem :=
  ⟨UInt64.ofNat n, UInt64.ofNat ((encElem (fnameElem t.hd)).length + t.body.length),
    sipHashName t.hd.base⟩

theorem Tree.items_cons (n : Nat) (t : Tree) (ts : List Tree) :
    Tree.items n (t :: ts) = childItem n t ::
      Tree.items (n + ((encElem (fnameElem t.hd)).length + t.body.length)) ts := by
  simp [Tree.items, childItem]

/-- the items are exactly the children's items, each at the position of its filename element -/
theorem Tree.mem_items (cs : List Tree) : ∀ (n : Nat) (it : GoodbyeItem),
    it ∈ Tree.items n cs ↔
      ∃ pre t post, cs = pre ++ t :: post ∧ it = childItem (n + (Tree.bodies pre).length) t := by
  induction cs with
  | nil => intro n it; simp [Tree.items]
  | cons c cs ih =>
    intro n it
    rw [Tree.items_cons, List.mem_cons, ih]
    constructor
    · rintro (h | ⟨pre, t, post, hcs, hit⟩)
      · exact ⟨[], c, cs, rfl, by simpa [Tree.bodies] using h⟩
      · refine ⟨c :: pre, t, post, by simp [hcs], ?_⟩
        rw [hit]
        simp only [Tree.bodies, List.length_append]
        congr 1
        omega
    · rintro ⟨pre, t, post, hcs, hit⟩
      cases pre with
      | nil =>
        simp only [List.nil_append, List.cons.injEq] at hcs
        obtain ⟨rfl, rfl⟩ := hcs
        left
        simpa [Tree.bodies] using hit
      | cons p pre =>
        simp only [List.cons_append, List.cons.injEq] at hcs
        obtain ⟨rfl, rfl⟩ := hcs
        right
        refine ⟨pre, t, post, rfl, ?_⟩
        rw [hit]
        simp only [Tree.bodies, List.length_append]
        congr 1
        omega

/-- `mkTable`: a permutation of the re-based items, then the tail item -/
theorem mkTable_spec (n : Nat) (items : List GoodbyeItem) :
    ∃ bst, mkTable n items = bst ++ [⟨UInt64.ofNat n, UInt64.ofNat (16 + bst.length * 24 + 24),
        Gen.CaFormatGoodbyeTailMarker⟩] ∧
      bst.Perm (items.map fun (it : GoodbyeItem) =>
        ({ it with offset := UInt64.ofNat n - it.offset } : GoodbyeItem)) := by
  generalize hmap : items.map (fun (it : GoodbyeItem) =>
    ({ it with offset := UInt64.ofNat n - it.offset } : GoodbyeItem)) = mapped
  cases hb : makeGoodbyeBST mapped with
  | none => have := makeGoodbyeBST_isSome mapped; rw [hb] at this; cases this
  | some bst =>
    refine ⟨bst, ?_, makeGoodbyeBST_perm mapped bst hb⟩
    simp only [mkTable, hmap, hb, Option.getD_some]

theorem Tree.table_spec (f : FileRec) (cs : List Tree) :
    ∃ bst, Tree.table f cs = bst ++ [⟨UInt64.ofNat (Tree.goodbyePos f cs),
        UInt64.ofNat (16 + (cs.length + 1) * 24), Gen.CaFormatGoodbyeTailMarker⟩] ∧
      bst.Perm ((Tree.items (Tree.hdrLen f) cs).map fun (it : GoodbyeItem) =>
        ({ it with offset := UInt64.ofNat (Tree.goodbyePos f cs) - it.offset } : GoodbyeItem)) := by
  obtain ⟨bst, h1, h2⟩ := mkTable_spec
    ((encElem (entryElem f) ++ encXattrs f.xattrs).length + (Tree.bodies cs).length)
    (Tree.items (encElem (entryElem f) ++ encXattrs f.xattrs).length cs)
  refine ⟨bst, ?_, h2⟩
  have hl : bst.length = cs.length := by
    rw [h2.length_eq, List.length_map, Tree.items_length]
  rw [Tree.table, h1, hl]
  simp only [Tree.goodbyePos, Tree.hdrLen]
  congr 4
  omega

/-- the bytes of a directory around one child -/
theorem Tree.body_dir_split (f : FileRec) (pre : List Tree) (t : Tree) (post : List Tree) :
    (Tree.dir f (pre ++ t :: post)).body =
      ((encElem (entryElem f) ++ encXattrs f.xattrs) ++ Tree.bodies pre) ++
        ((encElem (fnameElem t.hd) ++ t.body) ++
          (Tree.bodies post ++ encElem (goodbyeElem (Tree.table f (pre ++ t :: post))))) := by
  rw [Tree.body_dir, Tree.bodies_append]
  simp [Tree.bodies]

/-- the re-based item of a child leads to that child -/
theorem child_seek (f : FileRec) (pre : List Tree) (t : Tree) (post : List Tree)
    (hlen : (Tree.dir f (pre ++ t :: post)).body.length < 2 ^ 64) :
    let cs := pre ++ t :: post
    let it0 := childItem (Tree.hdrLen f + (Tree.bodies pre).length) t
    let off := UInt64.ofNat (Tree.goodbyePos f cs) - it0.offset
    off.toNat ≤ Tree.goodbyePos f cs ∧ Tree.hdrLen f ≤ Tree.goodbyePos f cs - off.toNat ∧
      (((Tree.dir f cs).body.drop (Tree.goodbyePos f cs - off.toNat)).take it0.size.toNat
        = encElem (fnameElem t.hd) ++ t.body) := by
  intro cs it0 off
  have hlen' : (Tree.dir f cs).body.length < 2 ^ 64 := hlen
  have hsplit := Tree.body_dir_split f pre t post
  have hbl : (Tree.bodies cs).length = (Tree.bodies pre).length +
      ((encElem (fnameElem t.hd)).length + t.body.length) + (Tree.bodies post).length := by
    simp only [cs, Tree.bodies_append, Tree.bodies, List.length_append]; omega
  have hG : Tree.goodbyePos f cs = Tree.hdrLen f + (Tree.bodies cs).length := rfl
  have hGlt : Tree.goodbyePos f cs < 2 ^ 64 := by
    have : (Tree.dir f cs).body.length =
        Tree.goodbyePos f cs + (encElem (goodbyeElem (Tree.table f cs))).length := by
      rw [Tree.body_dir]; simp only [List.length_append, hG, Tree.hdrLen]; omega
    omega
  have hn : (UInt64.ofNat (Tree.hdrLen f + (Tree.bodies pre).length)).toNat
      = Tree.hdrLen f + (Tree.bodies pre).length := ofNat_toNat_of_lt (by omega)
  have hGn : (UInt64.ofNat (Tree.goodbyePos f cs)).toNat = Tree.goodbyePos f cs :=
    ofNat_toNat_of_lt hGlt
  have hoff : off.toNat = Tree.goodbyePos f cs - (Tree.hdrLen f + (Tree.bodies pre).length) := by
    show (UInt64.ofNat (Tree.goodbyePos f cs) -
      UInt64.ofNat (Tree.hdrLen f + (Tree.bodies pre).length)).toNat = _
    rw [UInt64.toNat_sub_of_le _ _ (by rw [UInt64.le_iff_toNat_le, hn, hGn]; omega), hn, hGn]
  have hsz : it0.size.toNat = (encElem (fnameElem t.hd) ++ t.body).length := by
    show (UInt64.ofNat _).toNat = _
    rw [ofNat_toNat_of_lt (by omega), List.length_append]
  have hpos : Tree.goodbyePos f cs - off.toNat
      = ((encElem (entryElem f) ++ encXattrs f.xattrs) ++ Tree.bodies pre).length := by
    rw [hoff, List.length_append]; simp only [Tree.hdrLen] at *; omega
  refine ⟨by omega, by omega, ?_⟩
  rw [hpos, hsz, hsplit, List.drop_left, List.take_left]

/-- the directory's encoding ends with its goodbye element, which starts at `goodbyePos` -/
theorem goodbye_at_end (f : FileRec) (cs : List Tree) :
    (Tree.dir f cs).body.drop (Tree.goodbyePos f cs) = encElem (goodbyeElem (Tree.table f cs)) := by
  have h : (Tree.dir f cs).body = ((encElem (entryElem f) ++ encXattrs f.xattrs) ++ Tree.bodies cs) ++
      encElem (goodbyeElem (Tree.table f cs)) := by
    rw [Tree.body_dir]; simp
  have hp : Tree.goodbyePos f cs
      = ((encElem (entryElem f) ++ encXattrs f.xattrs) ++ Tree.bodies cs).length := by
    simp only [Tree.goodbyePos, Tree.hdrLen, List.length_append]
  rw [h, hp, List.drop_left]

set_option linter.unusedVariables false in
/-- shape of the table: the children's items laid out by `makeGoodbyeBST` (as many as children),
    then the tail item: back-offset to the directory's entry, size of the goodbye element, marker -/
theorem goodbye_table_shape (f : FileRec) (cs : List Tree)
    (hlen : (Tree.dir f cs).body.length < 2 ^ 64) (hsz : 16 + (cs.length + 1) * 24 < 2 ^ 64) :
    ∃ bst, Tree.table f cs = bst ++ [⟨UInt64.ofNat (Tree.goodbyePos f cs),
        UInt64.ofNat (16 + (cs.length + 1) * 24), Gen.CaFormatGoodbyeTailMarker⟩] ∧
      bst.length = cs.length ∧
      (encElem (goodbyeElem (Tree.table f cs))).length = 16 + (cs.length + 1) * 24 := by
  obtain ⟨bst, h1, h2⟩ := Tree.table_spec f cs
  have hl : bst.length = cs.length := by
    rw [h2.length_eq, List.length_map, Tree.items_length]
  refine ⟨bst, h1, hl, ?_⟩
  have : (Tree.table f cs).length = cs.length + 1 := by rw [h1]; simp [hl]
  rw [goodbyeElem, goodbye_size, this]

/-- **every item leads to a child**: going back `offset` bytes from the start of the goodbye element
    and reading `size` bytes yields exactly one child's filename element followed by that child's
    complete encoding, and `hash` is the SipHash of that child's name -/
theorem goodbye_item_seeks_to_child (f : FileRec) (cs : List Tree)
    (hlen : (Tree.dir f cs).body.length < 2 ^ 64) (hsz : 16 + (cs.length + 1) * 24 < 2 ^ 64)
    (it : GoodbyeItem) (hit : it ∈ (Tree.table f cs).dropLast) :
    ∃ t ∈ cs, it.hash = sipHashName t.hd.base ∧
      it.offset.toNat ≤ Tree.goodbyePos f cs ∧ Tree.hdrLen f ≤ Tree.goodbyePos f cs - it.offset.toNat ∧
      (((Tree.dir f cs).body.drop (Tree.goodbyePos f cs - it.offset.toNat)).take it.size.toNat
        = encElem (fnameElem t.hd) ++ t.body) := by
  obtain ⟨bst, h1, h2⟩ := Tree.table_spec f cs
  rw [h1, List.dropLast_concat, h2.mem_iff, List.mem_map] at hit
  obtain ⟨it0, hit0, rfl⟩ := hit
  obtain ⟨pre, t, post, rfl, rfl⟩ := (Tree.mem_items cs _ _).1 hit0
  exact ⟨t, by simp, rfl, child_seek f pre t post hlen⟩

/-- **every child is reachable**: each child has an item in the table that leads to it -/
theorem goodbye_every_child_listed (f : FileRec) (cs : List Tree)
    (hlen : (Tree.dir f cs).body.length < 2 ^ 64) (hsz : 16 + (cs.length + 1) * 24 < 2 ^ 64)
    (t : Tree) (ht : t ∈ cs) :
    ∃ it ∈ (Tree.table f cs).dropLast, it.hash = sipHashName t.hd.base ∧
      it.offset.toNat ≤ Tree.goodbyePos f cs ∧
      (((Tree.dir f cs).body.drop (Tree.goodbyePos f cs - it.offset.toNat)).take it.size.toNat
        = encElem (fnameElem t.hd) ++ t.body) := by
  obtain ⟨bst, h1, h2⟩ := Tree.table_spec f cs
  obtain ⟨pre, post, rfl⟩ := List.append_of_mem ht
  have hc := child_seek f pre t post hlen
  refine ⟨{ childItem (Tree.hdrLen f + (Tree.bodies pre).length) t with
    offset := UInt64.ofNat (Tree.goodbyePos f (pre ++ t :: post)) -
      (childItem (Tree.hdrLen f + (Tree.bodies pre).length) t).offset }, ?_, rfl, hc.1, hc.2.2⟩
  rw [h1, List.dropLast_concat, h2.mem_iff, List.mem_map]
  exact ⟨_, (Tree.mem_items _ _ _).2 ⟨pre, t, post, rfl, rfl⟩, rfl⟩

end Desync
