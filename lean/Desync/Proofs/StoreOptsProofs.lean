/-
  Helper lemmas for the option plumbing model (`Model/StoreOpts.lean`): the loop of `GetStoreOptionsFor` against its
  specification over the matching entries, and independence of the order in which the entries are visited.
-/
import Desync.Model.StoreOpts

namespace Desync.StoreOpts

/-- what the loop computes, in terms of the entries that match -/
def lookupSpec {κ : Type} (m : κ → Bool) (entries : List (κ × StoreOptions)) (found : Bool) (cur : StoreOptions) :
    Option StoreOptions :=
  match entries.filter (fun e => m e.1), found with
  | [], _ => some cur
  | [e], false => some e.2
  | _, _ => none

theorem lookupLoop_eq_spec {κ : Type} (m : κ → Bool) (entries : List (κ × StoreOptions)) (found : Bool)
    (cur : StoreOptions) : lookupLoop m entries found cur = lookupSpec m entries found cur := by
  induction entries generalizing found cur with
  | nil => simp [lookupLoop, lookupSpec]
  | cons e rest ih =>
    obtain ⟨k, v⟩ := e
    by_cases hk : m k = true
    · cases found with
      | true =>
        simp only [lookupLoop, hk, if_true, lookupSpec, List.filter_cons]
        cases hf : rest.filter (fun e => m e.1) <;> simp
      | false =>
        simp only [lookupLoop, hk, if_true, lookupSpec, List.filter_cons, Bool.false_eq_true, if_false]
        rw [ih]
        simp only [lookupSpec]
        cases hf : rest.filter (fun e => m e.1) with
        | nil => simp
        | cons a as => simp
    · have hk' : m k = false := by simpa using hk
      simp only [lookupLoop, hk', Bool.false_eq_true, if_false, lookupSpec, List.filter_cons]
      rw [ih]
      rfl

/-- the result depends on the matching entries only -/
theorem getStoreOptionsFor_congr {κ : Type} (m : κ → Bool) (e1 e2 : List (κ × StoreOptions))
    (h : e1.filter (fun e => m e.1) = e2.filter (fun e => m e.1)) :
    getStoreOptionsFor m e1 = getStoreOptionsFor m e2 := by
  simp only [getStoreOptionsFor, lookupLoop_eq_spec, lookupSpec, h]

theorem lookupSpec_perm {κ : Type} (m : κ → Bool) (e1 e2 : List (κ × StoreOptions)) (h : e1.Perm e2)
    (found : Bool) (cur : StoreOptions) : lookupSpec m e1 found cur = lookupSpec m e2 found cur := by
  have hp := h.filter (fun e => m e.1)
  simp only [lookupSpec]
  cases h1 : e1.filter (fun e => m e.1) with
  | nil =>
    rw [h1] at hp
    have : e2.filter (fun e => m e.1) = [] := List.Perm.nil_eq hp |>.symm ▸ rfl
    rw [this]
  | cons a as =>
    cases as with
    | nil =>
      rw [h1] at hp
      have : e2.filter (fun e => m e.1) = [a] := List.perm_singleton.mp hp.symm
      rw [this]
    | cons b bs =>
      rw [h1] at hp
      have hl := hp.length_eq
      cases h2 : e2.filter (fun e => m e.1) with
      | nil => rw [h2] at hl; simp at hl
      | cons c cs =>
        cases cs with
        | nil => rw [h2] at hl; simp at hl
        | cons d ds => rfl

end Desync.StoreOpts

namespace Desync.StoreOpts

theorem dropWhile_ne_append (sep : UInt8) (n rest : Bytes) (h : sep ∉ n) :
    (n ++ sep :: rest).dropWhile (· ≠ sep) = sep :: rest := by
  induction n with
  | nil => simp [List.dropWhile]
  | cons a as ih =>
    have ha : a ≠ sep := fun e => h (by simp [e])
    have has : sep ∉ as := fun m => h (by simp [m])
    have := ih has
    simp only [List.cons_append, List.dropWhile_cons, ne_eq, ha, not_false_eq_true, decide_true, if_true]
    simpa using this

/-- everything before the last separator of `s ++ [sep] ++ n`, `n` free of separators, is `s` -/
theorem beforeLast_append (sep : UInt8) (s n : Bytes) (h : sep ∉ n) :
    beforeLast sep (s ++ [sep] ++ n) = some s := by
  unfold beforeLast
  have hc : (s ++ [sep] ++ n).contains sep = true := by simp
  rw [if_pos hc]
  have hr : (s ++ [sep] ++ n).reverse = n.reverse ++ sep :: s.reverse := by simp
  rw [hr, dropWhile_ne_append sep n.reverse s.reverse (by simpa using h)]
  simp

end Desync.StoreOpts
