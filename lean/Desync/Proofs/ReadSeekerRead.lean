/-
  ReadSeeker proofs, part 3: `loadChunk`, one iteration of the `Read` loop, the loop, `Read`,
  and the FUSE read path.
-/
import Desync.Proofs.ReadSeekerSeek

namespace Desync

/-- the `loadChunk` step of `Read` (the `loaded` expression of `IdxPos.readLoop`) -/
def loadChunk (fetch : Fetch) (ip : IdxPos) (calls : Nat) : Option (IdxPos × Nat) :=
  if ip.curChunk.length = 0 then
    if ip.curID = ip.nullID then some ({ ip with curChunk := List.replicate ip.nullLen 0 }, calls)
    else match fetch calls ip.curID with
      | some b => some ({ ip with curChunk := b }, calls + 1)
      | none => none
  else some (ip, calls)

theorem readLoop_succ (fetch : Fetch) (fuel : Nat) (ip : IdxPos) (remaining calls : Nat) (acc : Bytes) :
    IdxPos.readLoop fetch (fuel + 1) ip remaining calls acc =
      if remaining = 0 then (.data acc, ip, calls)
      else match loadChunk fetch ip calls with
        | none => (.err acc, ip, calls + 1)
        | some (ip1, calls1) =>
          if ip1.curOff > ip1.curChunk.length then (.panic, ip1, calls1)
          else if (ip1.curChunk.drop ip1.curOff).length = 0 ∧ ip1.curIdx + 1 = ip1.chunks.length then
            (.data acc, ip1, calls1)
          else
            match ip1.findOffset (ip1.pos + ((ip1.curChunk.drop ip1.curOff).take remaining).length) with
            | .error _ => (.err (acc ++ (ip1.curChunk.drop ip1.curOff).take remaining), ip1, calls1)
            | .ok ip' =>
              IdxPos.readLoop fetch fuel ip'
                (remaining - ((ip1.curChunk.drop ip1.curOff).take remaining).length) calls1
                (acc ++ (ip1.curChunk.drop ip1.curOff).take remaining) := by
  rfl

/-- `loadChunk` either reports a failed store call, or yields the same reader with the current
    chunk's bytes (= the blob's bytes) cached -/
theorem load_spec {blob : Bytes} {ip : IdxPos} {fetch : Fetch}
    (hs : Setup blob ip fetch) (hi : Inv blob ip) (hch : ip.chunks ≠ []) (calls : Nat) :
    (loadChunk fetch ip calls = none ∧ fetch calls ip.curID = none) ∨
    (∃ ip1 calls1 c, loadChunk fetch ip calls = some (ip1, calls1) ∧ Inv blob ip1 ∧ SameIdx ip ip1 ∧
      ip1.pos = ip.pos ∧ ip1.chunks[ip1.curIdx]? = some c ∧ ip1.curChunk = slice blob c ∧
      ip1.curOff ≤ c.size ∧ (ip1.curOff = c.size → ip1.curIdx + 1 = ip1.chunks.length) ∧
      ip1.pos = c.start + ip1.curOff) := by
  obtain ⟨c, hc, hid, hoff, hlast, hpos, hdata⟩ := hi.2 hch
  have hmem := mem_of_getElem? hc
  have key : ∀ (X : Bytes) (calls1 : Nat), X = slice blob c →
      ∃ ip1 calls1' c, some ({ ip with curChunk := X }, calls1) = some (ip1, calls1') ∧ Inv blob ip1 ∧
        SameIdx ip ip1 ∧ ip1.pos = ip.pos ∧ ip1.chunks[ip1.curIdx]? = some c ∧
        ip1.curChunk = slice blob c ∧ ip1.curOff ≤ c.size ∧
        (ip1.curOff = c.size → ip1.curIdx + 1 = ip1.chunks.length) ∧ ip1.pos = c.start + ip1.curOff := by
    intro X calls1 hX
    exact ⟨_, calls1, c, rfl, ⟨hi.1, fun _ => ⟨c, hc, hid, hoff, hlast, hpos, fun _ => hX⟩⟩,
      ⟨rfl, rfl, rfl, rfl⟩, rfl, hc, hX, hoff, hlast, hpos⟩
  unfold loadChunk
  by_cases hlen : ip.curChunk.length = 0
  · rw [if_pos hlen]
    by_cases hnull : ip.curID = ip.nullID
    · rw [if_pos hnull]
      right
      exact key _ _ (hs.null c hmem (by rw [← hid]; exact hnull)).symm
    · rw [if_neg hnull]
      cases hf : fetch calls ip.curID with
      | none => left; exact ⟨rfl, rfl⟩
      | some b =>
        right
        exact key _ _ (hs.sound c hmem calls b (by rw [← hid]; exact hf))
  · rw [if_neg hlen]
    right
    have hne : ip.curChunk ≠ [] := by
      intro h; rw [h] at hlen; exact hlen rfl
    have := key ip.curChunk calls (hdata hne)
    exact this

theorem take_min_drop (blob : Bytes) (p n : Nat) :
    (blob.drop p).take (min n (blob.length - p)) = (blob.drop p).take n := by
  by_cases h : n ≤ blob.length - p
  · rw [Nat.min_eq_left h]
  · rw [Nat.min_eq_right (by omega)]
    rw [List.take_of_length_le (by simp), List.take_of_length_le (by simp; omega)]

/-- one iteration of the `Read` loop with `remaining ≠ 0`: a store failure, or the end of the blob,
    or progress by `m ≥ 1` correct bytes -/
theorem readLoop_step {blob : Bytes} {ip : IdxPos} {fetch : Fetch}
    (hs : Setup blob ip fetch) (hi : Inv blob ip) (hch : ip.chunks ≠ [])
    (fuel remaining calls : Nat) (acc : Bytes) (hrem : remaining ≠ 0) :
    (IdxPos.readLoop fetch (fuel + 1) ip remaining calls acc = (.err acc, ip, calls + 1) ∧
      fetch calls ip.curID = none) ∨
    (∃ ip1 calls1, IdxPos.readLoop fetch (fuel + 1) ip remaining calls acc = (.data acc, ip1, calls1) ∧
      ip.pos = blob.length ∧ Inv blob ip1 ∧ SameIdx ip ip1 ∧ ip1.pos = ip.pos) ∨
    (∃ ip' calls1 m, 1 ≤ m ∧ m ≤ remaining ∧ ip.pos + m ≤ blob.length ∧
      IdxPos.readLoop fetch (fuel + 1) ip remaining calls acc =
        IdxPos.readLoop fetch fuel ip' (remaining - m) calls1 (acc ++ (blob.drop ip.pos).take m) ∧
      Inv blob ip' ∧ SameIdx ip ip' ∧ ip'.pos = ip.pos + m) := by
  rw [readLoop_succ, if_neg hrem]
  rcases load_spec hs hi hch calls with ⟨h1, h2⟩ | ⟨ip1, calls1, c, h1, hi1, hsame, hp1, hc, hdat, hoff, hlast, hpos⟩
  · left; rw [h1]; exact ⟨rfl, h2⟩
  · right
    rw [h1]
    have hs1 : Setup blob ip1 fetch := hs.of_same hsame
    obtain ⟨_, hcsz, hcend, hcend1, _⟩ := tiles_get hs1.tiles hc
    have hL := hs1.len.2
    have hsl : (slice blob c).length = c.size := slice_length (by omega)
    simp only []
    rw [if_neg (by rw [hdat, hsl]; omega)]
    have hremlen : (ip1.curChunk.drop ip1.curOff).length = c.size - ip1.curOff := by
      rw [List.length_drop, hdat, hsl]
    by_cases hend : (ip1.curChunk.drop ip1.curOff).length = 0 ∧ ip1.curIdx + 1 = ip1.chunks.length
    · rw [if_pos hend]
      left
      refine ⟨ip1, calls1, rfl, ?_, hi1, hsame, hp1⟩
      have := hcend1 hend.2
      rw [hremlen] at hend
      omega
    · rw [if_neg hend]
      right
      -- the piece copied out
      have hpiece : (ip1.curChunk.drop ip1.curOff).take remaining =
          (blob.drop ip.pos).take (min remaining (c.size - ip1.curOff)) := by
        rw [hdat, slice_drop, List.take_take, ← hpos, hp1]
      have hplen : ((ip1.curChunk.drop ip1.curOff).take remaining).length =
          min remaining (c.size - ip1.curOff) := by
        rw [List.length_take, hremlen]
      have hm1 : 1 ≤ min remaining (c.size - ip1.curOff) := by
        have : ip1.curOff ≠ c.size := by
          intro h
          apply hend
          rw [hremlen]
          exact ⟨by omega, hlast h⟩
        omega
      rw [hplen, hpiece]
      obtain ⟨ip', e1, e2, e3, e4⟩ :=
        (findOffset_spec hs1 hi1 (ip1.pos + min remaining (c.size - ip1.curOff))).1 (by omega)
      rw [e1]
      exact ⟨ip', calls1, _, hm1, Nat.min_le_left _ _, by omega, rfl, e3, hsame.trans e4, by omega⟩

/-- the `Read` loop with enough fuel: returns `acc` followed by a correct run of bytes; the run is
    complete (`min remaining (L - pos)` bytes) unless a store call failed -/
theorem readLoop_spec {blob : Bytes} {fetch : Fetch} (fuel : Nat) :
    ∀ (ip : IdxPos) (remaining calls : Nat) (acc : Bytes),
      Setup blob ip fetch → Inv blob ip → ip.chunks ≠ [] → remaining < fuel →
      ∃ b ip' calls', b = (blob.drop ip.pos).take b.length ∧ b.length ≤ remaining ∧
        ip'.pos = ip.pos + b.length ∧ Inv blob ip' ∧ SameIdx ip ip' ∧
        ((IdxPos.readLoop fetch fuel ip remaining calls acc = (.data (acc ++ b), ip', calls') ∧
            b.length = min remaining (blob.length - ip.pos)) ∨
         (IdxPos.readLoop fetch fuel ip remaining calls acc = (.err (acc ++ b), ip', calls') ∧
            ∃ k, fetch k ip'.curID = none)) := by
  induction fuel with
  | zero => intro _ _ _ _ _ _ _ h; omega
  | succ fuel ih =>
    intro ip remaining calls acc hs hi hch hfuel
    by_cases hrem : remaining = 0
    · refine ⟨[], ip, calls, by simp, by simp, by simp, hi, SameIdx.refl ip, Or.inl ⟨?_, ?_⟩⟩
      · rw [readLoop_succ, if_pos hrem, List.append_nil]
      · simp [hrem]
    rcases readLoop_step hs hi hch fuel remaining calls acc hrem with
      ⟨h1, h2⟩ | ⟨ip1, calls1, h1, h2, h3, h4, h5⟩ | ⟨ip', calls1, m, hm1, hm2, hm3, h1, h2, h3, h4⟩
    · exact ⟨[], ip, calls + 1, by simp, by simp, by simp, hi, SameIdx.refl ip,
        Or.inr ⟨by rw [h1, List.append_nil], calls, h2⟩⟩
    · refine ⟨[], ip1, calls1, by simp, by simp, by simpa using h5, h3, h4, Or.inl ⟨?_, ?_⟩⟩
      · rw [h1, List.append_nil]
      · simp [h2]
    · have hs' : Setup blob ip' fetch := hs.of_same h3
      have hch' : ip'.chunks ≠ [] := by rw [h3.1]; exact hch
      obtain ⟨b, ip'', calls'', g1, g2, g3, g4, g5, g6⟩ :=
        ih ip' (remaining - m) calls1 (acc ++ (blob.drop ip.pos).take m) hs' h2 hch' (by omega)
      have hlen : ((blob.drop ip.pos).take m).length = m := by
        rw [List.length_take, List.length_drop]; omega
      refine ⟨(blob.drop ip.pos).take m ++ b, ip'', calls'', ?_, ?_, ?_, g4, h3.trans g5, ?_⟩
      · rw [List.length_append, hlen, ← take_drop_append, ← h4, ← g1]
      · rw [List.length_append, hlen]; omega
      · rw [List.length_append, hlen, g3, h4]; omega
      · rw [h1, ← List.append_assoc]
        rcases g6 with ⟨g6, g7⟩ | ⟨g6, g7⟩
        · refine Or.inl ⟨g6, ?_⟩
          rw [List.length_append, hlen, g7, h4]; omega
        · exact Or.inr ⟨g6, g7⟩

/-- the store never fails on the IDs of this index -/
def NeverFails (ip : IdxPos) (fetch : Fetch) : Prop :=
  ∀ k id, (∃ c ∈ ip.chunks, c.id = id) → (fetch k id).isSome

theorem NeverFails.of_same {ip ip' : IdxPos} {fetch : Fetch}
    (h : NeverFails ip fetch) (hsame : SameIdx ip ip') : NeverFails ip' fetch := by
  intro k id hc; rw [hsame.1] at hc; exact h k id hc

/-- safety of `Read`, whatever the store does: never panics, never returns altered bytes; a result
    without error is the complete run `blob[pos, pos+n)` (cut at the end of the blob); an error
    result is a correct prefix and comes from a failed store call; EOF exactly at the end. -/
theorem read_safe {blob : Bytes} {ip : IdxPos} {fetch : Fetch}
    (hs : Setup blob ip fetch) (hi : Inv blob ip) (n calls : Nat) :
    match ip.read fetch n calls with
    | (.data b, ip', _) => b = (blob.drop ip.pos).take n ∧ ip.pos < blob.length ∧
        ip'.pos = ip.pos + b.length ∧ Inv blob ip' ∧ SameIdx ip ip'
    | (.eof b, ip', _) => b = [] ∧ ip.pos = blob.length ∧ ip' = ip
    | (.err b, ip', _) => b = (blob.drop ip.pos).take b.length ∧ b.length ≤ n ∧ ip.pos < blob.length ∧
        ip'.pos = ip.pos + b.length ∧ Inv blob ip' ∧ SameIdx ip ip' ∧ ∃ k, fetch k ip'.curID = none
    | (.panic, _, _) => False := by
  have hposle := inv_pos_le hs hi
  have hlen := hs.len.1
  unfold IdxPos.read
  by_cases hp : ip.pos = ip.length
  · rw [if_pos hp]
    exact ⟨rfl, by omega, rfl⟩
  · rw [if_neg hp]
    have hlt : ip.pos < blob.length := by omega
    have hch := chunks_ne_nil hs (by omega)
    obtain ⟨b, ip', calls', g1, g2, g3, g4, g5, g6⟩ :=
      readLoop_spec (blob := blob) (fetch := fetch) (n + ip.chunks.length + 2) ip n calls [] hs hi hch
        (by omega)
    rcases g6 with ⟨g6, g7⟩ | ⟨g6, g7⟩
    · rw [g6]
      refine ⟨?_, hlt, ?_, g4, g5⟩
      · rw [List.nil_append, g1, g7, take_min_drop]
      · rw [List.nil_append]; exact g3
    · rw [g6]
      refine ⟨?_, ?_, hlt, ?_, g4, g5, g7⟩
      · rw [List.nil_append]; exact g1
      · rw [List.nil_append]; exact g2
      · rw [List.nil_append]; exact g3

/-- exactness of `Read` with a store that never fails -/
theorem read_exact {blob : Bytes} {ip : IdxPos} {fetch : Fetch}
    (hs : Setup blob ip fetch) (hi : Inv blob ip) (hnf : NeverFails ip fetch) (n calls : Nat) :
    (ip.pos < blob.length →
      ∃ ip' calls', ip.read fetch n calls = (.data ((blob.drop ip.pos).take n), ip', calls') ∧
        Inv blob ip' ∧ SameIdx ip ip' ∧ ip'.pos = ip.pos + min n (blob.length - ip.pos)) ∧
    (ip.pos = blob.length → ip.read fetch n calls = (.eof [], ip, calls)) := by
  have hlen := hs.len.1
  constructor
  · intro hlt
    have hsafe := read_safe hs hi n calls
    have hch := chunks_ne_nil hs (by omega)
    rcases hr : ip.read fetch n calls with ⟨res, ip', calls'⟩
    rw [hr] at hsafe
    cases res with
    | data b =>
      obtain ⟨h1, _, h3, h4, h5⟩ := hsafe
      refine ⟨ip', calls', by rw [h1], h4, h5, ?_⟩
      rw [h3, h1, List.length_take, List.length_drop]
    | eof b => obtain ⟨_, h, _⟩ := hsafe; omega
    | err b =>
      obtain ⟨_, _, _, _, h4, h5, k, hk⟩ := hsafe
      exfalso
      obtain ⟨c, hc, hid, _⟩ := h4.2 (by rw [h5.1]; exact hch)
      have := hnf k ip'.curID ⟨c, by rw [← h5.1]; exact mem_of_getElem? hc, hid.symm⟩
      rw [hk] at this
      exact absurd this (by simp)
    | panic => exact hsafe.elim
  · intro hp
    unfold IdxPos.read
    rw [if_pos (by omega)]

/-! ### the FUSE read path: `Seek(off, SeekStart)` then `Read` -/

theorem seek_start {blob : Bytes} {ip : IdxPos} {fetch : Fetch}
    (hs : Setup blob ip fetch) (hi : Inv blob ip) (off : Nat) :
    (off ≤ blob.length → ∃ ip', ip.seek (off : Int) .start = .ok ip' ∧ ip'.pos = off ∧
        Inv blob ip' ∧ SameIdx ip ip') ∧
    (blob.length < off → ip.seek (off : Int) .start = .error .beyond) := by
  obtain ⟨h1, _, h3⟩ := seek_spec hs hi (off : Int) .start
  simp only [seekTarget] at h1 h3
  constructor
  · intro h
    obtain ⟨ip', e1, e2, e3, e4⟩ := h1 ⟨by omega, by omega⟩
    exact ⟨ip', e1, by simpa using e2, e3, e4⟩
  · intro h; exact h3 (by omega)

theorem fuseRead_ok {ip ip1 : IdxPos} {fetch : Fetch} {off n calls : Nat}
    (h : ip.seek (off : Int) .start = .ok ip1) :
    ip.fuseRead fetch off n calls =
      match ip1.read fetch n calls with
      | (.data b, ip, c) => (some b, ip, c)
      | (.eof b, ip, c) => (some b, ip, c)
      | (.err _, ip, c) => (none, ip, c)
      | (.panic, ip, c) => (none, ip, c) := by
  unfold IdxPos.fuseRead; rw [h]; rfl

theorem fuseRead_err {ip : IdxPos} {fetch : Fetch} {off n calls : Nat} {e : SeekErr}
    (h : ip.seek (off : Int) .start = .error e) :
    ip.fuseRead fetch off n calls = (none, ip, calls) := by
  unfold IdxPos.fuseRead; rw [h]

/-- whatever the store does, the FUSE read keeps the invariant, and a successful result is exactly
    `blob[off, off+n)` (cut at the end of the blob) -/
theorem fuseRead_safe {blob : Bytes} {ip : IdxPos} {fetch : Fetch}
    (hs : Setup blob ip fetch) (hi : Inv blob ip) (off n calls : Nat) :
    Inv blob (ip.fuseRead fetch off n calls).2.1 ∧ SameIdx ip (ip.fuseRead fetch off n calls).2.1 ∧
    ∀ b, (ip.fuseRead fetch off n calls).1 = some b →
      off ≤ blob.length ∧ b = (blob.drop off).take n ∧ b = (blob.drop off).take b.length := by
  obtain ⟨k1, k2⟩ := seek_start hs hi off
  by_cases hoff : off ≤ blob.length
  · obtain ⟨ip1, e1, e2, e3, e4⟩ := k1 hoff
    have hs1 := hs.of_same e4
    have hsafe := read_safe hs1 e3 n calls
    rcases hr : ip1.read fetch n calls with ⟨res, ip', calls'⟩
    rw [hr] at hsafe
    cases res with
    | data b =>
      have hfr : ip.fuseRead fetch off n calls = (some b, ip', calls') := by
        rw [fuseRead_ok e1, hr]
      rw [hfr]
      obtain ⟨h1, _, _, h4, h5⟩ := hsafe
      refine ⟨h4, e4.trans h5, ?_⟩
      intro b' hb'
      have : b = b' := by simpa using hb'
      subst this
      rw [e2] at h1
      refine ⟨hoff, h1, ?_⟩
      have hl : b.length = min n (blob.length - off) := by
        rw [h1, List.length_take, List.length_drop]
      rw [hl, take_min_drop]; exact h1
    | eof b =>
      have hfr : ip.fuseRead fetch off n calls = (some b, ip', calls') := by
        rw [fuseRead_ok e1, hr]
      rw [hfr]
      obtain ⟨h1, h2, h3⟩ := hsafe
      subst h3
      refine ⟨e3, e4, ?_⟩
      intro b' hb'
      have : b = b' := by simpa using hb'
      subst this
      subst h1
      rw [e2] at h2
      refine ⟨hoff, ?_, by simp⟩
      rw [List.drop_of_length_le (by omega)]; simp
    | err b =>
      have hfr : ip.fuseRead fetch off n calls = (none, ip', calls') := by
        rw [fuseRead_ok e1, hr]
      rw [hfr]
      obtain ⟨_, _, _, _, h4, h5, _⟩ := hsafe
      exact ⟨h4, e4.trans h5, by intro b' hb'; simp at hb'⟩
    | panic => exact hsafe.elim
  · rw [fuseRead_err (k2 (by omega))]
    exact ⟨hi, SameIdx.refl ip, by intro b hb; simp at hb⟩

/-- with a never-failing sound store the FUSE read returns exactly `blob[off, off+n)` for every
    `off ≤ L` (from any reader state, i.e. any order of requests), and fails for `off > L` -/
theorem fuseRead_exact {blob : Bytes} {ip : IdxPos} {fetch : Fetch}
    (hs : Setup blob ip fetch) (hi : Inv blob ip) (hnf : NeverFails ip fetch) (off n calls : Nat) :
    (off ≤ blob.length →
      ∃ ip' calls', ip.fuseRead fetch off n calls = (some ((blob.drop off).take n), ip', calls') ∧
        Inv blob ip' ∧ SameIdx ip ip') ∧
    (blob.length < off → ip.fuseRead fetch off n calls = (none, ip, calls)) := by
  obtain ⟨k1, k2⟩ := seek_start hs hi off
  constructor
  · intro hoff
    obtain ⟨ip1, e1, e2, e3, e4⟩ := k1 hoff
    have hs1 := hs.of_same e4
    obtain ⟨r1, r2⟩ := read_exact hs1 e3 (hnf.of_same e4) n calls
    rw [fuseRead_ok e1]
    by_cases hlt : off < blob.length
    · obtain ⟨ip', calls', g1, g2, g3, _⟩ := r1 (by omega)
      rw [g1, e2]
      exact ⟨ip', calls', rfl, g2, e4.trans g3⟩
    · rw [r2 (by omega)]
      refine ⟨ip1, calls, ?_, e3, e4⟩
      rw [List.drop_of_length_le (by omega)]; simp
  · intro hoff
    exact fuseRead_err (k2 hoff)

end Desync
