/-
  What each system call of `Model/LocalFS.lean` does when its path argument resolves straight down a
  chain of real directories (`Straight`), and what each `LocalFS` method does then.
-/
import Desync.Proofs.LocalFSKit

namespace Desync.LFS

theorem parentIsDir_iff {fs : FS} {rp : RPath} :
    parentIsDir fs rp = true ↔ rp ≠ [] ∧ (rp.dropLast = [] ∨ IsDir (fs.get rp.dropLast)) := by
  unfold parentIsDir
  simp [isDir_iff_any]

theorem create_effect (fs : FS) {dst : RPath} (hne : dst ≠ []) (o : Obj) :
    Frame dst fs ((fs.set dst o).touch dst.dropLast) ∧
      Below dst fs ((fs.set dst o).touch dst.dropLast) ∧
      ((fs.set dst o).touch dst.dropLast).get dst = some o :=
  ⟨(frame_set fs dst o).trans (frame_touch _ dst), (below_set fs dst o).trans (below_touch _ hne),
    by rw [get_touch_parent _ hne, get_set_self]⟩

theorem del_effect (fs : FS) {dst : RPath} (hne : dst ≠ []) :
    Frame dst fs ((fs.del dst).touch dst.dropLast) ∧ ((fs.del dst).touch dst.dropLast).get dst = none :=
  ⟨(frame_del fs dst).trans (frame_touch _ dst),
    by rw [get_touch_parent _ hne, get_del, if_pos (List.prefix_refl _)]⟩

/-! ### the system calls -/

section calls
variable {fs fs' : FS} {dst : List Name}

theorem lstat_ok {ob : Obj} (hN : Normal dst) (hS : Straight fs dst) (hne : dst ≠ [])
    (h : lstat fs dst = .ok ob) : fs.get dst = some ob ∧ ProperDirs fs dst := by
  unfold lstat at h
  cases hr : resolve fs false dst with
  | error e => simp [hr, bind, Except.bind] at h
  | ok rp =>
    obtain ⟨rfl, hd⟩ := resolve_straight hN hS (by simp) hr
    simp only [hr, bind, Except.bind, if_neg hne] at h
    split at h
    · rename_i o ho
      simp only [pure, Except.pure, Except.ok.injEq] at h
      subst h; exact ⟨ho, hd⟩
    · cases h

theorem mkdir_ok (hN : Normal dst) (hS : Straight fs dst) (h : mkdir fs dst = .ok fs') :
    fs.get dst = none ∧ Frame dst fs fs' ∧ Below dst fs fs' ∧
      fs'.get dst = some (.dir {} none) ∧ ProperDirs fs dst := by
  unfold mkdir at h
  cases hr : resolve fs false dst with
  | error e => simp [hr, bind, Except.bind] at h
  | ok rp =>
    obtain ⟨rfl, hd⟩ := resolve_straight hN hS (by simp) hr
    simp only [hr, bind, Except.bind] at h
    split at h
    · cases h
    · rename_i hc
      simp only [Bool.or_eq_true, decide_eq_true_eq, not_or, Bool.not_eq_true,
        Option.isSome_eq_false_iff, Option.isNone_iff_eq_none] at hc
      split at h
      · cases h
      · simp only [pure, Except.pure, Except.ok.injEq] at h
        subst h
        obtain ⟨f, b, g⟩ := create_effect fs hc.1 (.dir {} none)
        exact ⟨hc.2, f, b, g, hd⟩

theorem symlinkAt_ok {target : Bytes} (hN : Normal dst) (hS : Straight fs dst)
    (h : symlinkAt fs target dst = .ok fs') :
    fs.get dst = none ∧ Frame dst fs fs' ∧ Below dst fs fs' ∧
      fs'.get dst = some (.symlink target {} none) ∧ ProperDirs fs dst := by
  unfold symlinkAt at h
  cases hr : resolve fs false dst with
  | error e => simp [hr, bind, Except.bind] at h
  | ok rp =>
    obtain ⟨rfl, hd⟩ := resolve_straight hN hS (by simp) hr
    simp only [hr, bind, Except.bind] at h
    split at h
    · cases h
    · rename_i hc
      simp only [Bool.or_eq_true, decide_eq_true_eq, not_or, Bool.not_eq_true,
        Option.isSome_eq_false_iff, Option.isNone_iff_eq_none] at hc
      split at h
      · cases h
      · simp only [pure, Except.pure, Except.ok.injEq] at h
        subst h
        obtain ⟨f, b, g⟩ := create_effect fs hc.1 (.symlink target {} none)
        exact ⟨hc.2, f, b, g, hd⟩

theorem mknod_ok {ty ma mi : Nat} (hN : Normal dst) (hS : Straight fs dst)
    (h : mknod fs dst ty ma mi = .ok fs') :
    fs.get dst = none ∧ Frame dst fs fs' ∧ Below dst fs fs' ∧
      fs'.get dst = some (.dev ty ma mi {} none) ∧ ProperDirs fs dst := by
  unfold mknod at h
  cases hr : resolve fs false dst with
  | error e => simp [hr, bind, Except.bind] at h
  | ok rp =>
    obtain ⟨rfl, hd⟩ := resolve_straight hN hS (by simp) hr
    simp only [hr, bind, Except.bind] at h
    split at h
    · cases h
    · rename_i hc
      simp only [Bool.or_eq_true, decide_eq_true_eq, not_or, Bool.not_eq_true,
        Option.isSome_eq_false_iff, Option.isNone_iff_eq_none] at hc
      split at h
      · cases h
      · simp only [pure, Except.pure, Except.ok.injEq] at h
        subst h
        obtain ⟨f, b, g⟩ := create_effect fs hc.1 (.dev ty ma mi {} none)
        exact ⟨hc.2, f, b, g, hd⟩

theorem removeAll_ok (hN : Normal dst) (hS : Straight fs dst) (h : removeAll fs dst = .ok fs') :
    Frame dst fs fs' ∧ (fs'.get dst = none ∨ (fs' = fs ∧ resolve fs true dst = .error .noent)) := by
  unfold removeAll at h
  cases hr : resolve fs false dst with
  | error e =>
    rw [hr] at h
    cases e <;> simp only [Except.ok.injEq, reduceCtorEq] at h
    subst h
    exact ⟨Frame.refl _ _, .inr ⟨rfl, resolve_error_follow hN hS hr⟩⟩
  | ok rp =>
    obtain ⟨rfl, _⟩ := resolve_straight hN hS (by simp) hr
    rw [hr] at h
    simp only at h
    split at h
    · cases h
    · rename_i hne
      split at h
      · rename_i hnone
        simp only [Except.ok.injEq] at h
        subst h
        exact ⟨Frame.refl _ _, .inl (by simpa using hnone)⟩
      · simp only [Except.ok.injEq] at h
        subst h
        obtain ⟨f, g⟩ := del_effect fs hne
        exact ⟨f, .inl g⟩

theorem unlink_ok (hN : Normal dst) (hS : Straight fs dst) (h : unlink fs dst = .ok fs') :
    ¬ IsDir (fs.get dst) ∧ Frame dst fs fs' ∧ fs'.get dst = none := by
  unfold unlink at h
  cases hr : resolve fs false dst with
  | error e => simp [hr, bind, Except.bind] at h
  | ok rp =>
    obtain ⟨rfl, _⟩ := resolve_straight hN hS (by simp) hr
    simp only [hr, bind, Except.bind] at h
    split at h
    · cases h
    · cases h
    · rename_i hnd hnn
      split at h
      · cases h
      · rename_i hne
        simp only [pure, Except.pure, Except.ok.injEq] at h
        subst h
        obtain ⟨f, g⟩ := del_effect fs hne
        refine ⟨?_, f, g⟩
        rintro ⟨a, m, e⟩
        rw [hnn] at e
        exact hnd a m (Option.some.inj e)

theorem unlink_noent (hN : Normal dst) (hS : Straight fs dst) (h : unlink fs dst = .error .noent) :
    (∃ e, resolve fs false dst = .error e) ∨ fs.get dst = none := by
  unfold unlink at h
  cases hr : resolve fs false dst with
  | error e => exact .inl ⟨e, rfl⟩
  | ok rp =>
    obtain ⟨rfl, _⟩ := resolve_straight hN hS (by simp) hr
    simp only [hr, bind, Except.bind] at h
    split at h
    · rename_i hg; exact .inr hg
    · cases h
    · split at h <;> cases h

theorem unlinkIfThere_ok (hN : Normal dst) (hS : Straight fs dst)
    (h : unlinkIfThere fs dst = .ok fs') :
    Frame dst fs fs' ∧ ((¬ IsDir (fs.get dst) ∧ fs'.get dst = none) ∨
      (fs' = fs ∧ ((∃ e, resolve fs false dst = .error e) ∨ fs.get dst = none))) := by
  unfold unlinkIfThere at h
  cases hu : unlink fs dst with
  | ok f =>
    rw [hu] at h
    simp only [Except.ok.injEq] at h
    subst h
    obtain ⟨a, b, c⟩ := unlink_ok hN hS hu
    exact ⟨b, .inl ⟨a, c⟩⟩
  | error e =>
    rw [hu] at h
    cases e <;> simp only [Except.ok.injEq, reduceCtorEq] at h
    subst h
    exact ⟨Frame.refl _ _, .inr ⟨rfl, unlink_noent hN hS hu⟩⟩

theorem createTrunc_ok {data : Bytes} (hN : Normal dst) (hS : Straight fs dst)
    (hL : dst ≠ [] → NotLink (fs.get dst)) (h : createTrunc fs dst data = .ok fs') :
    Frame dst fs fs' ∧ Below dst fs fs' ∧ NotLink (fs'.get dst) ∧ ProperDirs fs dst := by
  unfold createTrunc at h
  cases hr : resolve fs true dst with
  | error e => simp [hr, bind, Except.bind] at h
  | ok rp =>
    obtain ⟨rfl, hd⟩ := resolve_straight hN hS (fun _ => hL) hr
    simp only [hr, bind, Except.bind] at h
    split at h
    · cases h
    · simp only [pure, Except.pure, Except.ok.injEq] at h
      subst h
      refine ⟨frame_set _ _ _, below_set _ _ _, ?_, hd⟩
      rw [get_set_self]; intro t a lm e; cases e
    · cases h
    · cases h
    · split at h
      · cases h
      · rename_i hne
        split at h
        · cases h
        · simp only [pure, Except.pure, Except.ok.injEq] at h
          subst h
          obtain ⟨f, b, g⟩ := create_effect fs hne (.file data {} none)
          refine ⟨f, b, ?_, hd⟩
          rw [g]; intro t a lm e; cases e

theorem isDir_withAttr {o : Obj} {a : Attr} (h : IsDir (some o)) : IsDir (some (o.withAttr a)) := by
  obtain ⟨a', m, e⟩ := h
  cases e
  exact ⟨a, m, rfl⟩

theorem notLink_withAttr {o : Obj} {a : Attr} (h : NotLink (some o)) :
    NotLink (some (o.withAttr a)) := by
  intro t a' lm e
  cases o <;> simp [Obj.withAttr] at e
  exact h _ _ _ rfl

theorem isDir_withMtime {o : Obj} {a : Option Nat} (h : IsDir (some o)) : IsDir (some (o.withMtime a)) := by
  obtain ⟨a', m, e⟩ := h
  cases e
  exact ⟨a', a, rfl⟩

theorem notLink_withMtime {o : Obj} {a : Option Nat} (h : NotLink (some o)) :
    NotLink (some (o.withMtime a)) := by
  intro t a' lm e
  cases o <;> simp [Obj.withMtime] at e
  exact h _ _ _ rfl

theorem onlyAt_set {o o' : Obj} (hg : fs.get dst = some o) (hd : IsDir (some o) → IsDir (some o'))
    (hl : NotLink (some o) → NotLink (some o')) : OnlyAt dst fs (fs.set dst o') := by
  refine ⟨fun p hp => get_set_ne _ _ hp, ?_, ?_⟩
  · rw [hg, get_set_self]; exact hd
  · rw [hg, get_set_self]; exact hl

theorem chown_ok {follow : Bool} {u g : Nat} (hN : Normal dst) (hS : Straight fs dst)
    (hL : follow = true → dst ≠ [] → NotLink (fs.get dst)) (h : chown fs follow dst u g = .ok fs') :
    OnlyAt dst fs fs' ∧ ProperDirs fs dst := by
  unfold chown at h
  cases hr : resolve fs follow dst with
  | error e => simp [hr, bind, Except.bind] at h
  | ok rp =>
    obtain ⟨rfl, hd⟩ := resolve_straight hN hS hL hr
    simp only [hr, bind, Except.bind] at h
    split at h
    · split at h
      · simp only [pure, Except.pure, Except.ok.injEq] at h
        subst h
        exact ⟨OnlyAt.refl _ _, hd⟩
      · cases h
    · rename_i o hg
      simp only [pure, Except.pure, Except.ok.injEq] at h
      subst h
      exact ⟨onlyAt_set hg isDir_withAttr notLink_withAttr, hd⟩

theorem chmod_ok {mode : Nat} (hN : Normal dst) (hS : Straight fs dst)
    (hL : dst ≠ [] → NotLink (fs.get dst)) (h : chmod fs dst mode = .ok fs') :
    OnlyAt dst fs fs' ∧ ProperDirs fs dst := by
  unfold chmod at h
  cases hr : resolve fs true dst with
  | error e => simp [hr, bind, Except.bind] at h
  | ok rp =>
    obtain ⟨rfl, hd⟩ := resolve_straight hN hS (fun _ => hL) hr
    simp only [hr, bind, Except.bind] at h
    split at h
    · split at h
      · simp only [pure, Except.pure, Except.ok.injEq] at h
        subst h
        exact ⟨OnlyAt.refl _ _, hd⟩
      · cases h
    · rename_i o hg
      simp only [pure, Except.pure, Except.ok.injEq] at h
      subst h
      exact ⟨onlyAt_set hg isDir_withAttr notLink_withAttr, hd⟩

theorem lsetxattr_ok {k v : Bytes} (hN : Normal dst) (hS : Straight fs dst)
    (h : lsetxattr fs dst k v = .ok fs') : OnlyAt dst fs fs' ∧ ProperDirs fs dst := by
  unfold lsetxattr at h
  cases hr : resolve fs false dst with
  | error e => simp [hr, bind, Except.bind] at h
  | ok rp =>
    obtain ⟨rfl, hd⟩ := resolve_straight hN hS (by simp) hr
    simp only [hr, bind, Except.bind] at h
    split at h
    · split at h
      · simp only [pure, Except.pure, Except.ok.injEq] at h
        subst h
        exact ⟨OnlyAt.refl _ _, hd⟩
      · cases h
    · rename_i o hg
      have hres : fs' = fs.set rp (o.withAttr { o.attr with xattrs := xaSet o.attr.xattrs k v }) := by
        cases o <;> simp only [] at h <;> split at h <;>
          first | (cases h; rfl) | cases h
      subst hres
      exact ⟨onlyAt_set hg isDir_withAttr notLink_withAttr, hd⟩

theorem chtimes_ok {t : Nat} (hN : Normal dst) (hS : Straight fs dst)
    (hL : dst ≠ [] → NotLink (fs.get dst)) (h : chtimes fs dst t = .ok fs') :
    OnlyAt dst fs fs' ∧ ProperDirs fs dst := by
  unfold chtimes at h
  cases hr : resolve fs true dst with
  | error e => simp [hr, bind, Except.bind] at h
  | ok rp =>
    obtain ⟨rfl, hd⟩ := resolve_straight hN hS (fun _ => hL) hr
    simp only [hr, bind, Except.bind] at h
    split at h
    · split at h
      · simp only [pure, Except.pure, Except.ok.injEq] at h
        subst h
        exact ⟨OnlyAt.refl _ _, hd⟩
      · cases h
    · rename_i o hg
      simp only [pure, Except.pure, Except.ok.injEq] at h
      subst h
      exact ⟨onlyAt_set hg isDir_withMtime notLink_withMtime, hd⟩

theorem lchtimes_ok {t : Nat} (hN : Normal dst) (hS : Straight fs dst)
    (h : lchtimes fs dst t = .ok fs') : OnlyAt dst fs fs' ∧ ProperDirs fs dst := by
  unfold lchtimes at h
  cases hr : resolve fs false dst with
  | error e => simp [hr, bind, Except.bind] at h
  | ok rp =>
    obtain ⟨rfl, hd⟩ := resolve_straight hN hS (by simp) hr
    simp only [hr, bind, Except.bind] at h
    split at h
    · split at h
      · simp only [pure, Except.pure, Except.ok.injEq] at h
        subst h
        exact ⟨OnlyAt.refl _ _, hd⟩
      · cases h
    · rename_i o hg
      simp only [pure, Except.pure, Except.ok.injEq] at h
      subst h
      exact ⟨onlyAt_set hg isDir_withMtime notLink_withMtime, hd⟩

end calls

/-- **the no-follow time stamp call on a symbolic link**: when the path, resolved without following its
    last component, names a symbolic link, `lchtimes` sets the link's own mtime (target and attributes
    kept) and every other object of the file system — the object the link points to in particular — is
    what it was.  No side condition on the path: the intermediate components may go through links. -/
theorem lchtimes_symlink {fs : FS} {p : List Name} {rp : RPath} {tg : Bytes} {a : Attr} {m : Option Nat}
    (t : Nat) (hr : resolve fs false p = .ok rp) (hg : fs.get rp = some (.symlink tg a m)) :
    lchtimes fs p t = .ok (fs.set rp (.symlink tg a (some t))) ∧
      ∀ q, q ≠ rp → (fs.set rp (.symlink tg a (some t))).get q = fs.get q := by
  refine ⟨?_, fun q hq => get_set_ne _ _ hq⟩
  unfold lchtimes
  simp [hr, hg, bind, Except.bind, pure, Except.pure, Obj.withMtime]

/-! ### straightness survives a frame step -/

theorem not_prefix_of_proper {dst Q R : List Name} (e : dst = Q ++ R) (hR : R ≠ []) : ¬ dst <+: Q := by
  intro hp
  have h1 := hp.length_le
  have h2 := congrArg List.length e
  simp at h2
  have : 0 < R.length := List.length_pos_iff.2 hR
  omega

theorem Straight.of_frame {dst : List Name} {fs fs' : FS} (h : Frame dst fs fs') (hS : Straight fs dst) :
    Straight fs' dst := by
  intro Q R e hQ hR
  have := hS Q R e hQ hR
  simp only [List.nil_append] at this ⊢
  exact h.notLink (not_prefix_of_proper e hR) this

theorem ProperDirs.of_frame {dst : List Name} {fs fs' : FS} (h : Frame dst fs fs') (hS : ProperDirs fs dst) :
    ProperDirs fs' dst := by
  intro Q R e hQ hR
  have := hS Q R e hQ hR
  simp only [List.nil_append] at this ⊢
  exact h.isDir (not_prefix_of_proper e hR) this

/-! ### a small program logic for the `Except FS` monad of the methods -/

/-- `E` holds of the file system an error carries, `Q` of a normal result -/
def Tri {α} (E : FS → Prop) (Q : α → Prop) : Except FS α → Prop
  | .ok a => Q a
  | .error f => E f

theorem Tri.bind {α β} {E : FS → Prop} {Q : α → Prop} {Q' : β → Prop} {x : Except FS α}
    {k : α → Except FS β} (hx : Tri E Q x) (hk : ∀ a, Q a → Tri E Q' (k a)) : Tri E Q' (x >>= k) := by
  cases x with
  | ok a => exact hk a hx
  | error f => exact hx

theorem Tri.pure {α} {E : FS → Prop} {Q : α → Prop} {a : α} (h : Q a) :
    Tri E Q (Pure.pure a : Except FS α) := h

theorem Tri.sys {E : FS → Prop} {Q : FS → Prop} {fs : FS} {r : Except Err FS} (hE : E fs)
    (hQ : ∀ fs', r = .ok fs' → Q fs') : Tri E Q (sys fs r) := by
  cases r with
  | ok f => exact hQ f rfl
  | error e => exact hE

theorem Tri.mono {α} {E E' : FS → Prop} {Q Q' : α → Prop} {x : Except FS α} (h : Tri E Q x)
    (hE : ∀ f, E f → E' f) (hQ : ∀ a, Q a → Q' a) : Tri E' Q' x := by
  cases x with
  | ok a => exact hQ a h
  | error f => exact hE f h

/-! ### the methods -/

section methods
variable {dst : List Name}

theorem setXattrs_tri {fs : FS} (hN : Normal dst) (hS : Straight fs dst) :
    ∀ (xs : List (Bytes × Bytes)) (f : FS), OnlyAt dst fs f →
      Tri (OnlyAt dst fs) (OnlyAt dst fs) (setXattrs f dst xs)
  | [], f, hf => hf
  | (k, v) :: rest, f, hf => by
    rw [setXattrs]
    refine Tri.bind (Tri.sys hf ?_) (fun f' hf' => setXattrs_tri hN hS rest f' hf')
    intro f' h
    exact hf.trans (lsetxattr_ok hN (hS.of_frame hf.frame) h).1

theorem setPerms_tri (o : Opts) (m : Meta) {fs : FS} (hN : Normal dst) (hS : Straight fs dst)
    (hL : NotLink (fs.get dst)) : Tri (OnlyAt dst fs) (OnlyAt dst fs) (setPerms o fs dst m) := by
  have last : ∀ f : FS, OnlyAt dst fs f → Tri (OnlyAt dst fs) (OnlyAt dst fs)
      (if o.noSamePermissions = true then Pure.pure f else sys f (chmod f dst (modeOf m))) := by
    intro f hf
    split
    · exact Tri.pure hf
    · refine Tri.sys hf ?_
      intro f' h
      exact hf.trans (chmod_ok hN (hS.of_frame hf.frame) (fun _ => hf.2.2 hL) h).1
  unfold setPerms
  simp only [pure_bind]
  split
  · exact last fs (OnlyAt.refl _ _)
  · refine Tri.bind (Q := OnlyAt dst fs) (Tri.sys (OnlyAt.refl _ _) ?_)
      (fun f hf => Tri.bind (setXattrs_tri hN hS _ f hf) last)
    intro f' h
    exact (chown_ok hN hS (fun _ _ => hL) h).1

/-- what holds between the calls of a method that has made `dst` a non-link -/
theorem setPerms_step (o : Opts) (m : Meta) {fs0 f : FS} (G : FS → Prop) (hN : Normal dst)
    (hS : Straight fs0 dst) (hf : Frame dst fs0 f) (hL : NotLink (f.get dst))
    (hGo : ∀ f', OnlyAt dst f f' → G f') :
    Tri (Frame dst fs0) (fun f' => Frame dst fs0 f' ∧ NotLink (f'.get dst) ∧ G f') (setPerms o f dst m) :=
  (setPerms_tri o m hN (hS.of_frame hf) hL).mono (fun _ h => hf.trans h.frame)
    (fun f' h => ⟨hf.trans h.frame, h.2.2 hL, hGo f' h⟩)

theorem createDir_tri (o : Opts) (root : List Name) (s : LState) (name : Bytes) (m : Meta)
    (hN : Normal (dstOf root name)) (hne : dstOf root name ≠ [])
    (hS : Straight s.fs (dstOf root name)) :
    Tri (Frame (dstOf root name) s.fs)
      (fun s' => Frame (dstOf root name) s.fs s'.fs ∧ Below (dstOf root name) s.fs s'.fs ∧
        IsDir (s'.fs.get (dstOf root name)) ∧
        (s'.dirTimes = s.dirTimes ∨ (ProperDirs s'.fs (dstOf root name) ∧
          ∃ t, s'.dirTimes = s.dirTimes ++ [(dstOf root name, t)])))
      (createDir o root s name m) := by
  unfold createDir
  generalize dstOf root name = dst at *
  simp only []
  let G : FS → Prop := fun f => Frame dst s.fs f ∧ Below dst s.fs f ∧ IsDir (f.get dst)
  have h1 : Tri (Frame dst s.fs) G (match lstat s.fs dst with
      | .ok ob => if ob.isDir then (Pure.pure s.fs : Except FS FS) else .error s.fs
      | .error _ => sys s.fs (mkdir s.fs dst)) := by
    cases hl : lstat s.fs dst with
    | ok ob =>
      simp only
      split
      · rename_i hd
        refine Tri.pure ⟨Frame.refl _ _, Below.refl _ _, ?_⟩
        rw [(lstat_ok hN hS hne hl).1]
        exact isDir_of_isDir_eq hd
      · exact Frame.refl _ _
    | error e =>
      simp only
      refine Tri.sys (Frame.refl _ _) ?_
      intro f' h
      obtain ⟨_, a, b, c, _⟩ := mkdir_ok hN hS h
      exact ⟨a, b, c ▸ ⟨{}, none, rfl⟩⟩
  refine Tri.bind h1 ?_
  intro f1 hf1
  have h2 := setPerms_step o m (fun f => Below dst s.fs f ∧ IsDir (f.get dst)) hN hS hf1.1
    hf1.2.2.notLink (fun f' h => ⟨hf1.2.1.trans h.below, h.2.1 hf1.2.2⟩)
  refine Tri.bind h2 ?_
  intro f2 hf2
  split
  · exact Tri.pure ⟨hf2.1, hf2.2.2.1, hf2.2.2.2, .inl rfl⟩
  · refine Tri.bind (Q := fun f => Frame dst s.fs f ∧ Below dst s.fs f ∧ IsDir (f.get dst) ∧
      ProperDirs f dst) (Tri.sys hf2.1 ?_) ?_
    · intro f3 h
      obtain ⟨oa, pd⟩ := chtimes_ok hN (hS.of_frame hf2.1) (fun _ => hf2.2.1) h
      exact ⟨hf2.1.trans oa.frame, hf2.2.2.1.trans oa.below, oa.2.1 hf2.2.2.2, pd.of_frame oa.frame⟩
    · intro f3 hf3
      exact Tri.pure ⟨hf3.1, hf3.2.1, hf3.2.2.1, .inr ⟨hf3.2.2.2, _, rfl⟩⟩

theorem createFile_tri (o : Opts) (root : List Name) (s : LState) (name : Bytes) (m : Meta)
    (data : Bytes) (hN : Normal (dstOf root name))
    (hS : Straight s.fs (dstOf root name)) :
    Tri (Frame (dstOf root name) s.fs)
      (fun s' => Frame (dstOf root name) s.fs s'.fs ∧
        s'.dirTimes = s.dirTimes.filter fun d => !((dstOf root name).isPrefixOf d.1))
      (createFile o root s name m data) := by
  unfold createFile
  generalize dstOf root name = dst at *
  simp only []
  refine Tri.bind (Q := fun f => Frame dst s.fs f ∧
    (f.get dst = none ∨ (f = s.fs ∧ resolve s.fs true dst = .error .noent)))
    (Tri.sys (Frame.refl _ _) (fun f' h => removeAll_ok hN hS h)) ?_
  intro f1 hf1
  refine Tri.bind (Q := fun f => Frame dst s.fs f ∧ NotLink (f.get dst)) (Tri.sys hf1.1 ?_) ?_
  · intro f2 h
    rcases hf1.2 with hn | ⟨rfl, hr⟩
    · obtain ⟨a, _, c, _⟩ := createTrunc_ok hN (hS.of_frame hf1.1) (fun _ => hn ▸ notLink_none) h
      exact ⟨hf1.1.trans a, c⟩
    · exfalso
      unfold createTrunc at h
      simp [hr, bind, Except.bind] at h
  intro f2 hf2
  have h3 := setPerms_step o m (fun _ => True) hN hS hf2.1 hf2.2 (fun _ _ => trivial)
  refine Tri.bind h3 ?_
  intro f3 hf3
  split
  · exact Tri.pure ⟨hf3.1, rfl⟩
  · refine Tri.bind (Q := fun f => Frame dst s.fs f) (Tri.sys hf3.1 ?_) ?_
    · intro f4 h
      obtain ⟨oa, _⟩ := chtimes_ok hN (hS.of_frame hf3.1) (fun _ => hf3.2.1) h
      exact hf3.1.trans oa.frame
    · intro f4 hf4
      exact Tri.pure ⟨hf4, rfl⟩

theorem unlinkIfThere_tri {fs : FS} (hN : Normal dst) (hS : Straight fs dst) :
    Tri (Frame dst fs) (fun f => Frame dst fs f ∧ (¬ IsDir (fs.get dst) ∨ f = fs))
      (unlinkIfThere fs dst) := by
  cases h : unlinkIfThere fs dst with
  | ok f =>
    obtain ⟨a, b⟩ := unlinkIfThere_ok hN hS h
    refine ⟨a, ?_⟩
    rcases b with b | b
    · exact .inl b.1
    · exact .inr b.1
  | error f =>
    unfold unlinkIfThere at h
    split at h
    · cases h
    · cases h
    · cases h; exact Frame.refl _ _

theorem createSymlink_tri (o : Opts) (root : List Name) (s : LState) (name : Bytes) (m : Meta)
    (target : Bytes) (hN : Normal (dstOf root name)) (hS : Straight s.fs (dstOf root name)) :
    Tri (Frame (dstOf root name) s.fs)
      (fun s' => Frame (dstOf root name) s.fs s'.fs ∧ ¬ IsDir (s.fs.get (dstOf root name)) ∧
        s'.dirTimes = s.dirTimes)
      (createSymlink o root s name m target) := by
  unfold createSymlink
  generalize dstOf root name = dst at *
  simp only []
  refine Tri.bind (unlinkIfThere_tri hN hS) ?_
  intro f1 hf1
  let G : FS → Prop := fun f => Frame dst s.fs f ∧ ¬ IsDir (s.fs.get dst)
  have xa : ∀ (xs : List (Bytes × Bytes)) (f : FS), G f → Tri (Frame dst s.fs) G (setXattrs f dst xs) := by
    intro xs
    induction xs with
    | nil => intro f hf; exact hf
    | cons kv rest ih =>
      intro f hf
      obtain ⟨k, v⟩ := kv
      rw [setXattrs]
      refine Tri.bind (Q := G) (Tri.sys hf.1 ?_) ih
      intro f' h
      obtain ⟨oa, _⟩ := lsetxattr_ok hN (hS.of_frame hf.1) h
      exact ⟨hf.1.trans oa.frame, hf.2⟩
  refine Tri.bind (Q := G) (Tri.sys hf1.1 ?_) ?_
  · intro f2 h
    obtain ⟨hn, a, _⟩ := symlinkAt_ok hN (hS.of_frame hf1.1) h
    refine ⟨hf1.1.trans a, ?_⟩
    rcases hf1.2 with h' | rfl
    · exact h'
    · rw [hn]; exact not_isDir_none
  intro f2 hf2
  have fin : ∀ f : FS, G f → Tri (Frame dst s.fs)
      (fun s' => Frame dst s.fs s'.fs ∧ ¬ IsDir (s.fs.get dst) ∧ s'.dirTimes = s.dirTimes)
      (if m.mtime = 0 then (Pure.pure { fs := f, dirTimes := s.dirTimes } : Except FS LState)
        else (sys f (lchtimes f dst m.mtime.toNat) >>= fun fs =>
          (Pure.pure { fs := fs, dirTimes := s.dirTimes } : Except FS LState))) := by
    intro f hf
    split
    · exact Tri.pure ⟨hf.1, hf.2, rfl⟩
    · refine Tri.bind (Q := G) (Tri.sys hf.1 ?_) (fun f' hf' => Tri.pure ⟨hf'.1, hf'.2, rfl⟩)
      intro f' h
      obtain ⟨oa, _⟩ := lchtimes_ok hN (hS.of_frame hf.1) h
      exact ⟨hf.1.trans oa.frame, hf.2⟩
  simp only [pure_bind]
  split
  · exact fin f2 hf2
  · refine Tri.bind (Q := G) (Tri.sys hf2.1 ?_) (fun f hf => Tri.bind (xa _ f hf) fin)
    intro f3 h
    obtain ⟨oa, _⟩ := chown_ok hN (hS.of_frame hf2.1) (by simp) h
    exact ⟨hf2.1.trans oa.frame, hf2.2⟩

theorem createDevice_tri (o : Opts) (root : List Name) (s : LState) (name : Bytes) (m : Meta)
    (ma mi : Nat) (hN : Normal (dstOf root name)) (hS : Straight s.fs (dstOf root name)) :
    Tri (Frame (dstOf root name) s.fs)
      (fun s' => Frame (dstOf root name) s.fs s'.fs ∧ ¬ IsDir (s.fs.get (dstOf root name)) ∧
        s'.dirTimes = s.dirTimes)
      (createDevice o root s name m ma mi) := by
  unfold createDevice
  generalize dstOf root name = dst at *
  simp only []
  refine Tri.bind (unlinkIfThere_tri hN hS) ?_
  intro f1 hf1
  refine Tri.bind (Q := fun f => Frame dst s.fs f ∧ NotLink (f.get dst) ∧ ¬ IsDir (s.fs.get dst))
    (Tri.sys hf1.1 ?_) ?_
  · intro f2 h
    obtain ⟨hn, a, _, c, _⟩ := mknod_ok hN (hS.of_frame hf1.1) h
    refine ⟨hf1.1.trans a, ?_, ?_⟩
    · rw [c]; intro t a lm e; cases e
    · rcases hf1.2 with h' | rfl
      · exact h'
      · rw [hn]; exact not_isDir_none
  intro f2 hf2
  have h3 := setPerms_step o m (fun _ => True) hN hS hf2.1 hf2.2.1 (fun _ _ => trivial)
  refine Tri.bind h3 ?_
  intro f3 hf3
  split
  · exact Tri.pure ⟨hf3.1, hf2.2.2, rfl⟩
  · refine Tri.bind (Q := fun f => Frame dst s.fs f) (Tri.sys hf3.1 ?_) ?_
    · intro f4 h
      obtain ⟨oa, _⟩ := chtimes_ok hN (hS.of_frame hf3.1) (fun _ => hf3.2.1) h
      exact hf3.1.trans oa.frame
    · intro f4 hf4
      exact Tri.pure ⟨hf4, hf2.2.2, rfl⟩

end methods

end Desync.LFS
