/-
  Safety of `AssembleFile` with one worker (`Desync.Asm.assemble`): when it reports success the
  target holds exactly the bytes the index describes, whatever the seeds (stale, corrupted, empty,
  aliasing the target), whatever the target held before, whatever an overlapping same-file copy
  produces (`cf.ovl`), whatever `RegenerateIndex` returns (`cf.rechunk`) and whatever the
  invalid-seed action is.  The seed files are never written, and the `panic` of the store branch of
  the worker loop is unreachable.
-/
import Desync.Proofs.AssemblePlan
import Desync.Proofs.AssembleConfined

namespace Desync.Asm

/-! ## the index describes the blob -/

def Env.startOf (e : Env) (p : Nat) : Nat := (e.chunks.getD p default).start
def Env.sizeOf (e : Env) (p : Nat) : Nat := (e.chunks.getD p default).size
def Env.idOf (e : Env) (p : Nat) : Bytes := (e.chunks.getD p default).id
def chunkData (e : Env) (blob : Bytes) (p : Nat) : Bytes := readUpTo blob (e.startOf p) (e.sizeOf p)

/-- the index describes `blob`; IDs are collision free on it; the store is sound (C03) -/
structure WFSeq (cf : Cfg) (e : Env) (blob : Bytes) : Prop where
  start0 : e.chunks ≠ [] → e.startOf 0 = 0
  contiguous : ∀ p : Nat, p + 1 < e.chunks.length → e.startOf (p + 1) = e.startOf p + e.sizeOf p
  length_eq : indexLength e.chunks = blob.length
  ids : ∀ p : Nat, p < e.chunks.length → e.idOf p = cf.H (chunkData e blob p)
  collision_free : ∀ p : Nat, p < e.chunks.length → ∀ b, cf.H b = e.idOf p → b = chunkData e blob p
  store_sound : ∀ p : Nat, p < e.chunks.length → ∀ d, cf.store (e.idOf p) = some d → cf.H d = e.idOf p
  bs_pos : 0 < e.bs
  small : Small blob.length ∧ Small e.bs

/-- the offsets and sizes in the seed indexes fit in uint64 with room to spare -/
def SeedsSmall (seeds : List Seed) : Prop := ∀ s ∈ seeds, ∀ c ∈ s.chunks, Small c.start ∧ Small c.size

/-- the same of every index `RegenerateIndex` produces -/
def RechunkSmall (rechunk : Nat → Bytes → Option (List IChunk)) : Prop :=
  ∀ k data cs, rechunk k data = some cs → ∀ c ∈ cs, Small c.start ∧ Small c.size

/-! ## the tiling -/

theorem as_getD_eq_getElem (e : Env) {p : Nat} (h : p < e.chunks.length) :
    e.chunks.getD p default = e.chunks[p] := by
  simp [List.getD_eq_getElem?_getD, h]

theorem wf_end_le_start {cf : Cfg} {e : Env} {blob : Bytes} (wf : WFSeq cf e blob) {p q : Nat}
    (hpq : p < q) (hq : q < e.chunks.length) : e.startOf p + e.sizeOf p ≤ e.startOf q := by
  induction q with
  | zero => omega
  | succ q ih =>
    have hc := wf.contiguous q hq
    by_cases h : p = q
    · subst h; omega
    · have := ih (by omega) (by omega); omega

theorem wf_last_end {cf : Cfg} {e : Env} {blob : Bytes} (wf : WFSeq cf e blob) (hn : 0 < e.chunks.length) :
    e.startOf (e.chunks.length - 1) + e.sizeOf (e.chunks.length - 1) = blob.length := by
  have h := wf.length_eq
  unfold indexLength at h
  rw [List.getLast?_eq_getElem?] at h
  have hlt : e.chunks.length - 1 < e.chunks.length := by omega
  rw [List.getElem?_eq_getElem hlt] at h
  simp only [Env.startOf, Env.sizeOf, as_getD_eq_getElem e hlt]
  exact h

theorem wf_end_le_length {cf : Cfg} {e : Env} {blob : Bytes} (wf : WFSeq cf e blob) {p : Nat}
    (hp : p < e.chunks.length) : e.startOf p + e.sizeOf p ≤ blob.length := by
  have hl := wf_last_end wf (by omega)
  by_cases h : p = e.chunks.length - 1
  · subst h; omega
  · have := wf_end_le_start wf (p := p) (q := e.chunks.length - 1) (by omega) (by omega); omega

theorem wf_start_mono {cf : Cfg} {e : Env} {blob : Bytes} (wf : WFSeq cf e blob) {p q : Nat}
    (hpq : p ≤ q) (hq : q < e.chunks.length) : e.startOf p ≤ e.startOf q := by
  by_cases h : p = q
  · subst h; omega
  · have := wf_end_le_start wf (p := p) (q := q) (by omega) hq; omega

theorem wf_chunkData_length {cf : Cfg} {e : Env} {blob : Bytes} (wf : WFSeq cf e blob) {p : Nat}
    (hp : p < e.chunks.length) : (chunkData e blob p).length = e.sizeOf p :=
  af_readUpTo_length_of_le _ _ _ (wf_end_le_length wf hp)

theorem wf_small_of_le {cf : Cfg} {e : Env} {blob : Bytes} (wf : WFSeq cf e blob) {x : Nat}
    (h : x ≤ blob.length) : Small x := by
  have := wf.small.1
  unfold Small at this ⊢
  omega

/-! ## the positions below `k` hold their bytes -/

/-- the file has the length of the blob and the chunks at positions below `k` are in place -/
def Done (e : Env) (blob t : Bytes) (k : Nat) : Prop :=
  t.length = blob.length ∧ ∀ p, p < k → readUpTo t (e.startOf p) (e.sizeOf p) = chunkData e blob p

theorem done_mono {e : Env} {blob t : Bytes} {k k' : Nat} (h : Done e blob t k) (hk : k' ≤ k) :
    Done e blob t k' :=
  ⟨h.1, fun p hp => h.2 p (by omega)⟩

/-- changes confined to a range at or behind the start of chunk `k` keep the chunks below `k` -/
theorem done_agree {cf : Cfg} {e : Env} {blob t t' : Bytes} (wf : WFSeq cf e blob) {k lo hi : Nat}
    (hk : k < e.chunks.length) (h : Done e blob t k) (hlo : e.startOf k ≤ lo)
    (ha : AgreeOutside t t' lo hi) : Done e blob t' k := by
  refine ⟨ha.1.trans h.1, fun p hp => ?_⟩
  rw [af_agree_readUpTo ha _ _ (Or.inl ?_)]
  · exact h.2 p hp
  · have := wf_end_le_start wf hp hk; omega

/-- chunk `k` is put in place by a change confined to its range -/
theorem done_step {cf : Cfg} {e : Env} {blob t t' : Bytes} (wf : WFSeq cf e blob) {k : Nat}
    (hk : k < e.chunks.length) (h : Done e blob t k)
    (ha : AgreeOutside t t' (e.startOf k) (e.startOf k + e.sizeOf k))
    (hr : readUpTo t' (e.startOf k) (e.sizeOf k) = chunkData e blob k) : Done e blob t' (k + 1) := by
  have h' := done_agree wf hk h (Nat.le_refl _) ha
  refine ⟨h'.1, fun p hp => ?_⟩
  by_cases hpk : p = k
  · subst hpk; exact hr
  · exact h'.2 p (by omega)

/-- a file in which every chunk is in place is the blob -/
theorem done_all {cf : Cfg} {e : Env} {blob t : Bytes} (wf : WFSeq cf e blob)
    (h : Done e blob t e.chunks.length) : t = blob := by
  have key : ∀ k, k ≤ e.chunks.length → ∀ i,
      i < (if k = 0 then 0 else e.startOf (k - 1) + e.sizeOf (k - 1)) → t[i]? = blob[i]? := by
    intro k
    induction k with
    | zero => intro _ i hi; simp at hi
    | succ k ih =>
      intro hk i hi
      simp only [Nat.add_one_ne_zero, if_false, Nat.add_sub_cancel] at hi
      have hs : e.startOf k = (if k = 0 then 0 else e.startOf (k - 1) + e.sizeOf (k - 1)) := by
        by_cases h0 : k = 0
        · subst h0
          simp only [if_true]
          apply wf.start0
          intro hnil; rw [hnil] at hk; simp at hk
        · simp only [h0, if_false]
          have := wf.contiguous (k - 1) (by omega)
          rwa [show k - 1 + 1 = k by omega] at this
      by_cases hlt : i < e.startOf k
      · exact ih (by omega) i (by rw [← hs]; exact hlt)
      · have := af_readUpTo_eq_getElem? t blob (e.startOf k) (e.startOf k) (e.sizeOf k)
          (h.2 k (by omega)) (i - e.startOf k) (by omega)
        rwa [show e.startOf k + (i - e.startOf k) = i by omega] at this
  apply List.ext_getElem?
  intro i
  by_cases hi : i < blob.length
  · by_cases hn : e.chunks.length = 0
    · have := wf.length_eq
      rw [List.eq_nil_of_length_eq_zero hn] at this
      simp [indexLength] at this
      omega
    · apply key e.chunks.length (Nat.le_refl _) i
      simp only [hn, if_false]
      rw [wf_last_end wf (by omega)]
      exact hi
  · rw [List.getElem?_eq_none (by rw [h.1]; omega), List.getElem?_eq_none (by omega)]

/-! ## writeChunk -/

theorem as_chunk_fields (e : Env) (p : Nat) :
    (e.chunks.getD p default).start = e.startOf p ∧ (e.chunks.getD p default).size = e.sizeOf p ∧
    (e.chunks.getD p default).id = e.idOf p := ⟨rfl, rfl, rfl⟩

/-- two positions with the same ID hold the same data -/
theorem wf_same_id {cf : Cfg} {e : Env} {blob : Bytes} (wf : WFSeq cf e blob) {i p : Nat}
    (hi : i < e.chunks.length) (hp : p < e.chunks.length) (hid : e.idOf i = e.idOf p) :
    chunkData e blob i = chunkData e blob p ∧ e.sizeOf i = e.sizeOf p := by
  have h1 : chunkData e blob i = chunkData e blob p :=
    wf.collision_free p hp _ (by rw [← wf.ids i hi, hid])
  refine ⟨h1, ?_⟩
  rw [← wf_chunkData_length wf hi, ← wf_chunkData_length wf hp, h1]

/-- the data of chunk `p` written at its place -/
theorem done_write {cf : Cfg} {e : Env} {blob t : Bytes} (wf : WFSeq cf e blob) {p : Nat}
    (hp : p < e.chunks.length) (hd : Done e blob t p) :
    Done e blob (writeAt t (e.startOf p) (chunkData e blob p)) (p + 1) := by
  have hl := wf_chunkData_length wf hp
  have hle := wf_end_le_length wf hp
  apply done_step wf hp hd
  · apply af_writeAt_agree
    · exact Nat.le_refl _
    · omega
    · rw [hd.1]; omega
  · have := af_readUpTo_writeAt_same t (e.startOf p) (chunkData e blob p)
    rwa [hl] at this

/-- the segment `writeChunk` takes from the self seed -/
def selfSeg (e : Env) (i : Nat) : FSeg :=
  { src := .target, chunks := [e.chunks.getD i default], canReflink := e.selfReflink }

theorem writeChunk_inv {cf : Cfg} {e : Env} {blob : Bytes} (wf : WFSeq cf e blob) {r r' : Run} {p : Nat}
    (hp : p < e.chunks.length) (hw : r.ss.written ≤ p) (hd : Done e blob r.fs.target p)
    (h : writeChunk cf e r (e.chunks.getD p default) = some r') :
    Done e blob r'.fs.target (p + 1) ∧ r'.ss = r.ss ∧ r'.fs.seeds = r.fs.seeds := by
  obtain ⟨hcs, hcz, hci⟩ := as_chunk_fields e p
  have hle := wf_end_le_length wf hp
  unfold writeChunk at h
  rw [hcs, hcz, hci] at h
  split at h
  · -- the self seed
    rename_i i hg
    obtain ⟨hiw, hid, _⟩ := (SelfSeed.getChunk_spec r.ss e.chunks (e.idOf p)).1 i hg
    have hip : i < p := by omega
    obtain ⟨hdata, hsz⟩ := wf_same_id wf (i := i) (by omega) hp hid
    have hdis := wf_end_le_start wf hip hp
    simp only [] at h
    split at h
    · cases h
    · rename_i fs' cp cl fz hwi
      injection h with h
      subst h
      change (selfSeg e i).writeInto cf.ovl r.fs (e.startOf p) (e.sizeOf p) e.bs = _ at hwi
      have hst : Small (selfSeg e i).srcStart := by
        show Small (e.startOf i)
        exact wf_small_of_le wf (by omega)
      obtain ⟨hseeds, hag⟩ := FSeg.writeInto_confined hst (wf_small_of_le wf (by omega))
        (wf_small_of_le wf (by omega)) wf.small.2 wf.bs_pos (by rw [hd.1]; omega) hwi
      obtain ⟨fs'', c'', cl'', hex, hrd, _⟩ := FSeg.writeInto_exact_self cf.ovl (selfSeg e i) r.fs
        (offset := e.startOf p) (length := e.sizeOf p) (bs := e.bs)
        hst (wf_small_of_le wf (by omega)) (wf_small_of_le wf (by omega)) wf.small.2 wf.bs_pos rfl
        (Or.inl (by show e.startOf i + e.sizeOf p ≤ e.startOf p; omega))
        (by show e.startOf i + e.sizeOf p ≤ r.fs.target.length; rw [hd.1]; omega)
        (by show e.sizeOf p = e.startOf i + e.sizeOf i - e.startOf i; omega)
        (by rw [hd.1]; omega)
      rw [hwi] at hex
      injection hex with hex
      subst hex
      refine ⟨done_step wf hp hd hag ?_, rfl, hseeds⟩
      rw [hrd]
      show readUpTo r.fs.target (e.startOf i) (e.sizeOf p) = _
      rw [← hsz, hd.2 i hip, hdata]
  · -- in place or from the store
    simp only [] at h
    generalize hin : (if cf.isBlank = true then some false
      else
        match readFull r.fs.target (e.startOf p) (e.sizeOf p) with
        | none => none
        | some b => some (cf.H b == e.idOf p)) = inPlace at h
    split at h
    · cases h
    · -- in place
      injection h with h
      subst h
      refine ⟨?_, rfl, rfl⟩
      split at hin
      · cases hin
      · split at hin
        · cases hin
        · rename_i b hb
          injection hin with hin
          have hH : cf.H b = e.idOf p := by simpa using hin
          have hb' := wf.collision_free p hp b hH
          rw [af_readFull_some_iff] at hb
          apply done_step wf hp hd (af_agree_refl _ _ _)
          rw [← hb.2, hb']
    · -- from the store
      split at h
      · cases h
      · rename_i d hs
        split at h
        · cases h
        · injection h with h
          subst h
          refine ⟨?_, rfl, rfl⟩
          have hdd : d = chunkData e blob p :=
            wf.collision_free p hp d (wf.store_sound p hp d hs)
          subst hdd
          exact done_write wf hp hd

/-! ## verifyChunks -/

theorem as_drop_take_succ (e : Env) {p : Nat} (m : Nat) (hp : p < e.chunks.length) :
    (e.chunks.drop p).take (m + 1) = e.chunks.getD p default :: (e.chunks.drop (p + 1)).take m := by
  rw [List.drop_eq_getElem_cons hp, List.take_succ_cons, as_getD_eq_getElem e hp]

theorem verifyChunks_inv {cf : Cfg} {e : Env} {blob : Bytes} (wf : WFSeq cf e blob) :
    ∀ (m p : Nat) (r r' : Run), p + m ≤ e.chunks.length → r.ss.written ≤ p →
      Done e blob r.fs.target p →
      verifyChunks cf e ((e.chunks.drop p).take m) r = some r' →
      Done e blob r'.fs.target (p + m) ∧ r'.ss = r.ss ∧ r'.fs.seeds = r.fs.seeds := by
  intro m
  induction m with
  | zero =>
    intro p r r' _ _ hd h
    rw [List.take_zero, verifyChunks] at h
    injection h with h
    subst h
    exact ⟨hd, rfl, rfl⟩
  | succ m ih =>
    intro p r r' hpm hw hd h
    have hp : p < e.chunks.length := by omega
    obtain ⟨hcs, hcz, hci⟩ := as_chunk_fields e p
    rw [as_drop_take_succ e m hp, verifyChunks, hcs, hcz, hci] at h
    rw [show p + (m + 1) = p + 1 + m by omega]
    split at h
    · cases h
    · rename_i b hb
      split at h
      · -- the hash matches
        rename_i hH
        have hH' : cf.H b = e.idOf p := by simpa using hH
        have hb' := wf.collision_free p hp b hH'
        rw [af_readFull_some_iff] at hb
        have hd' : Done e blob r.fs.target (p + 1) := by
          apply done_step wf hp hd (af_agree_refl _ _ _)
          rw [← hb.2, hb']
        exact ih (p + 1) r r' (by omega) (by omega) hd' h
      · split at h
        · split at h
          · cases h
          · rename_i r1 hw1
            obtain ⟨hd1, hss1, hse1⟩ := writeChunk_inv wf hp hw hd hw1
            obtain ⟨hd2, hss2, hse2⟩ := ih (p + 1) r1 r' (by omega) (by rw [hss1]; omega) hd1 h
            exact ⟨hd2, hss2.trans hss1, hse2.trans hse1⟩
        · cases h

/-! ## one job -/

/-- what the safety proof uses of a plan item -/
structure ItemOK (e : Env) (it : PlanItem) : Prop where
  le : it.first ≤ it.last
  lt : it.last < e.chunks.length
  single : it.source = .store → it.last = it.first
  store : it.source = .store → segChunks e it = [e.chunks.getD it.first default]
  file : ∀ k seg, it.source = .file k seg → Small seg.srcStart

/-- the state of the worker before the job that starts at position `cur` -/
structure Inv (e : Env) (blob : Bytes) (files : List Bytes) (cur : Nat) (r : Run) : Prop where
  done : Done e blob r.fs.target cur
  ss : r.ss = { written := cur, cache := [] }
  seeds : r.fs.seeds = files

theorem runJob_inv {cf : Cfg} {e : Env} {blob : Bytes} {files : List Bytes} (wf : WFSeq cf e blob)
    {it : PlanItem} {r r' : Run} (ok : ItemOK e it) (hi : Inv e blob files it.first r)
    (h : runJob cf e r it = some r') : Inv e blob files (it.last + 1) r' := by
  have hfirst : it.first < e.chunks.length := by have := ok.le; have := ok.lt; omega
  have hadd : ∀ ss : SelfSeed, ss = { written := it.first, cache := [] } →
      ss.add it.first it.last = { written := it.last + 1, cache := [] } := by
    intro ss hss
    exact SelfSeed.add_in_order ss it.first it.last (by rw [hss]) (by rw [hss]) ok.le
  unfold runJob at h
  split at h
  · -- from the store
    rename_i hsrc
    rw [ok.store hsrc] at h
    simp only [Option.map_eq_some_iff] at h
    obtain ⟨r1, hw1, rfl⟩ := h
    obtain ⟨hd1, hss1, hse1⟩ := writeChunk_inv wf hfirst (by rw [hi.ss]; exact Nat.le_refl _) hi.done hw1
    have hl : it.last = it.first := ok.single hsrc
    refine ⟨?_, ?_, hse1.trans hi.seeds⟩
    · rw [hl]; exact hd1
    · exact hadd _ (hss1.trans hi.ss)
  · simp only [] at h
    generalize hw : (match it.source with
      | Source.file seedIdx seg =>
        if r.fs.exists seg.src = true then
          FSeg.writeInto cf.ovl seg r.fs (segStart e it) (segEnd e it - segStart e it) e.bs
        else WRes.err
      | Source.null a b cr => nullWriteInto r.fs a b cr (segStart e it) (segEnd e it - segStart e it) e.bs cf.isBlank
      | Source.store => WRes.err) = w at h
    split at h
    · cases h
    · rename_i fs' cp cl fz hw
      have hlast := ok.lt
      have hle := ok.le
      have hs1 : segStart e it = e.startOf it.first := rfl
      have hs2 : segEnd e it = e.startOf it.last + e.sizeOf it.last := rfl
      have hmono := wf_start_mono wf hle hlast
      have hend := wf_end_le_length wf hlast
      have hoff : Small (segStart e it) := wf_small_of_le wf (by omega)
      have hlen : Small (segEnd e it - segStart e it) := wf_small_of_le wf (by omega)
      have hdst : segStart e it + (segEnd e it - segStart e it) ≤ r.fs.target.length := by
        rw [hi.done.1]; omega
      have hconf : fs'.seeds = r.fs.seeds ∧
          AgreeOutside r.fs.target fs'.target (segStart e it) (segStart e it + (segEnd e it - segStart e it)) := by
        split at hw
        · rename_i k seg hsrc
          split at hw
          · exact FSeg.writeInto_confined (ok.file k seg hsrc) hoff hlen wf.small.2 wf.bs_pos hdst hw
          · cases hw
        · exact nullWriteInto_confined hoff hlen wf.small.2 wf.bs_pos hdst hw
        · cases hw
      split at h
      · cases h
      · rename_i r1 hv
        injection h with h
        subst h
        have hd0 : Done e blob fs'.target it.first :=
          done_agree wf hfirst hi.done (by rw [hs1]; exact Nat.le_refl _) hconf.2
        obtain ⟨hd1, hss1, hse1⟩ := verifyChunks_inv wf (it.last + 1 - it.first) it.first _ r1
          (by omega) (by show r.ss.written ≤ it.first; rw [hi.ss]; exact Nat.le_refl _) hd0 hv
        refine ⟨?_, ?_, ?_⟩
        · rw [show it.last + 1 = it.first + (it.last + 1 - it.first) by omega]; exact hd1
        · exact hadd _ (hss1.trans hi.ss)
        · exact hse1.trans (hconf.1.trans hi.seeds)

/-! ## all jobs -/

theorem runJobs_inv {cf : Cfg} {e : Env} {blob : Bytes} {files : List Bytes} (wf : WFSeq cf e blob) :
    ∀ (items : List PlanItem) (cur : Nat) (r r' : Run), Partition e.chunks.length cur items →
      (∀ it ∈ items, ItemOK e it) → Inv e blob files cur r → runJobs cf e items r = some r' →
      Inv e blob files e.chunks.length r' := by
  intro items
  induction items with
  | nil =>
    intro cur r r' hp _ hi h
    simp only [Partition] at hp
    rw [runJobs] at h
    injection h with h
    subst h
    subst hp
    exact hi
  | cons it rest ih =>
    intro cur r r' hp hok hi h
    obtain ⟨hf, _, _, hrest⟩ := hp
    rw [runJobs] at h
    split at h
    · cases h
    · rename_i r1 hj
      subst hf
      have hi1 := runJob_inv wf (hok it List.mem_cons_self) hi hj
      exact ih (it.last + 1) r1 r' hrest (fun it' hm => hok it' (List.mem_cons_of_mem _ hm)) hi1 h

/-! ## the items of a plan -/

/-- the chunks of a file-seed segment in a plan are chunks of one of the seeds -/
theorem plan_file_chunks (e : Env) (seeds : List Seed) (it : PlanItem) (hm : it ∈ plan e seeds)
    (k : Nat) (seg : FSeg) (hs : it.source = .file k seg) :
    ∃ s, s ∈ seeds ∧ ∀ c ∈ seg.chunks, c ∈ s.chunks := by
  obtain ⟨cur, _, rfl⟩ := plan_mem e seeds it hm
  rw [next_eq] at hs
  simp only [] at hs
  have key := pickSeeds_inv
    (fun _ src => ∀ k seg, src = Source.file k seg → ∃ s, s ∈ seeds ∧ ∀ c ∈ seg.chunks, c ∈ s.chunks)
    (e.chunks.drop cur) seeds 0 (nextAcc0 e cur)
    (by
      intro k seg h
      exfalso
      unfold nextAcc0 at h
      split at h
      · simp only [] at h
        generalize hr : nullLongestMatch e.nullID e.nullReflink (e.chunks.drop cur) = r at h
        obtain ⟨n, src⟩ := r
        rcases nullLongestMatch_spec _ _ _ _ _ hr with ⟨_, h2⟩ | ⟨_, _, _, h2⟩
        · simp only [] at h; rw [h2] at h; cases h
        · simp only [] at h; rw [h2] at h; cases h
      · cases h)
    (by
      intro j s n seg' hj hmatch k seg h
      injection h with _ h
      subst h
      obtain ⟨_, _, _, _, _, _, ⟨p, hp, _⟩, _⟩ := s.longestMatch_some _ n seg' hmatch
      refine ⟨s, List.mem_of_getElem? hj, ?_⟩
      intro c hc
      rw [hp] at hc
      exact List.mem_of_mem_drop (List.mem_of_mem_take hc))
  exact key k seg hs

theorem as_srcStart_small {seg : FSeg} (h : ∀ c ∈ seg.chunks, Small c.start) : Small seg.srcStart := by
  unfold FSeg.srcStart
  cases hc : seg.chunks with
  | nil => simp [Small]
  | cons c cs =>
    simp only [List.head?_cons, Option.map_some, Option.getD_some]
    exact h c (by rw [hc]; exact List.mem_cons_self)

theorem plan_itemOK (e : Env) (seeds : List Seed) (hsm : SeedsSmall seeds) (it : PlanItem)
    (hm : it ∈ plan e seeds) : ItemOK e it := by
  obtain ⟨h1, h2, _⟩ := plan_item e seeds it hm
  refine ⟨h1, h2, fun hs => (plan_store_single e seeds it hm hs).symm,
    plan_store_segChunks e seeds it hm, ?_⟩
  intro k seg hs
  obtain ⟨s, hsm', hc⟩ := plan_file_chunks e seeds it hm k seg hs
  exact as_srcStart_small (fun c hcm => (hsm s hsm' c (hc c hcm)).1)

/-! ## the plan that is run -/

theorem seedsSmall_cons {s : Seed} {ss : List Seed} :
    SeedsSmall (s :: ss) ↔ (∀ c ∈ s.chunks, Small c.start ∧ Small c.size) ∧ SeedsSmall ss := by
  simp [SeedsSmall]

theorem setInvalid_small (seeds : List Seed) (k : Nat) (h : SeedsSmall seeds) :
    SeedsSmall (setInvalid seeds k) := by
  unfold setInvalid
  induction seeds generalizing k with
  | nil => simpa using h
  | cons s ss ih =>
    rw [seedsSmall_cons] at h
    cases k with
    | zero =>
      rw [List.modify_zero_cons, seedsSmall_cons]
      exact h
    | succ k =>
      rw [List.modify_succ_cons, seedsSmall_cons]
      exact ⟨h.1, ih k h.2⟩

theorem regenerate_small {rechunk : Nat → Bytes → Option (List IChunk)} (hr : RechunkSmall rechunk)
    (fs : FS) : ∀ (seeds : List Seed) (k : Nat) (seeds' : List Seed), SeedsSmall seeds →
      regenerate rechunk fs seeds k = some seeds' → SeedsSmall seeds' := by
  intro seeds
  induction seeds with
  | nil =>
    intro k seeds' _ h
    rw [regenerate] at h
    injection h with h
    subst h
    intro s hs
    cases hs
  | cons s ss ih =>
    intro k seeds' hsm h
    rw [seedsSmall_cons] at hsm
    rw [regenerate] at h
    split at h
    · split at h
      · cases h
      · rename_i cs hcs
        simp only [Option.map_eq_some_iff] at h
        obtain ⟨rest, hrest, rfl⟩ := h
        rw [seedsSmall_cons]
        refine ⟨?_, ih (k + 1) rest hsm.2 hrest⟩
        split at hcs
        · exact hr k _ cs hcs
        · cases hcs
    · simp only [Option.map_eq_some_iff] at h
      obtain ⟨rest, hrest, rfl⟩ := h
      rw [seedsSmall_cons]
      exact ⟨hsm.1, ih (k + 1) rest hsm.2 hrest⟩

/-- the plan `findPlan` returns is the plan for some list of seeds -/
theorem findPlan_is_plan (H : Bytes → Bytes) (rechunk : Nat → Bytes → Option (List IChunk)) (e : Env)
    (fs : FS) (act : Action) : ∀ (fuel : Nat) (seeds : List Seed) (p : List PlanItem) (k : Nat),
      findPlan H rechunk e fs act fuel seeds = some (p, k) → ∃ seeds', p = plan e seeds' := by
  intro fuel
  induction fuel with
  | zero => intro seeds p k h; rw [findPlan] at h; cases h
  | succ fuel ih =>
    intro seeds p k h
    rw [findPlan] at h
    simp only [] at h
    split at h
    · injection h with h
      injection h with h1 _
      exact ⟨seeds, h1.symm⟩
    · split at h
      · cases h
      · exact ih _ p k h
      · split at h
        · cases h
        · exact ih _ p k h

/-- the same, keeping track of the size of the offsets in the seed indexes -/
theorem findPlan_small (H : Bytes → Bytes) (rechunk : Nat → Bytes → Option (List IChunk)) (e : Env)
    (fs : FS) (act : Action) (hr : act = .regenerate → RechunkSmall rechunk) :
    ∀ (fuel : Nat) (seeds : List Seed) (p : List PlanItem) (k : Nat), SeedsSmall seeds →
      findPlan H rechunk e fs act fuel seeds = some (p, k) →
      ∃ seeds', p = plan e seeds' ∧ SeedsSmall seeds' := by
  intro fuel
  induction fuel with
  | zero => intro seeds p k _ h; rw [findPlan] at h; cases h
  | succ fuel ih =>
    intro seeds p k hsm h
    rw [findPlan] at h
    simp only [] at h
    split at h
    · injection h with h
      injection h with h1 _
      exact ⟨seeds, h1.symm, hsm⟩
    · rename_i j _
      have hsm1 := setInvalid_small seeds j hsm
      split at h
      · cases h
      · exact ih _ p k hsm1 h
      · split at h
        · cases h
        · rename_i seeds2 hreg
          exact ih _ p k (regenerate_small (hr rfl) fs _ 0 seeds2 hsm1 hreg) h

/-! ## the seed files are never written (no hypotheses) -/

theorem fsClone_seeds {ovl : Bytes → Nat → Nat → Nat → Bytes} {fs fs' : FS} {src : Src}
    {so len dO bs c cl : Nat} {fz : Bool} (h : fsClone ovl fs src so len dO bs = .ok fs' c cl fz) :
    fs'.seeds = fs.seeds := by
  unfold fsClone at h
  simp only [Gen.fsClone_fallbackCopy, Gen.fsClone_headCopy, Gen.fsClone_tailCopy,
    Gen.fsClone_cloneRange] at h
  split at h
  · injection h with h1 _ _ _
    subst h1
    exact copyInto_seeds ..
  · split at h
    · cases h
    · injection h with h1 _ _ _
      subst h1
      exact (copyInto_seeds ..).trans (copyInto_seeds ..)

/-- the head and tail copies of a refused clone write the target only -/
theorem fsCloneHeadTail_seeds (ovl : Bytes → Nat → Nat → Nat → Bytes) (fs : FS) (src : Src)
    (so len dO bs : Nat) : (fsCloneHeadTail ovl fs src so len dO bs).1.seeds = fs.seeds := by
  unfold fsCloneHeadTail
  simp only [Gen.fsClone_headCopy, Gen.fsClone_tailCopy]
  exact (copyInto_seeds ..).trans (copyInto_seeds ..)

theorem FSeg.writeInto_seeds {ovl : Bytes → Nat → Nat → Nat → Bytes} {s : FSeg} {fs fs' : FS}
    {offset length bs c cl : Nat} {fz : Bool} (h : s.writeInto ovl fs offset length bs = .ok fs' c cl fz) :
    fs'.seeds = fs.seeds := by
  unfold FSeg.writeInto at h
  simp only [Gen.fsWrite_copyArgs, Gen.fsWrite_cloneArgs] at h
  split at h
  · cases h
  · split at h
    · injection h with h1 _ _ _
      subst h1
      exact copyInto_seeds ..
    · split at h
      · injection h with h1 _ _ _
        subst h1
        exact (copyInto_seeds ..).trans (fsCloneHeadTail_seeds ..)
      · rename_i hne
        cases hc : fsClone ovl fs s.src (u s.srcStart).toNat (u length).toNat (u offset).toNat bs with
        | err => exact absurd hc (hne · )
        | ok fs'' c' cl' fz' =>
          rw [hc] at h
          exact fsClone_seeds (hc.trans h)

theorem nullWriteInto_seeds {fs fs' : FS} {sfrom sto : Nat} {canReflink : Bool}
    {offset length bs : Nat} {isBlank : Bool} {c cl : Nat} {fz : Bool}
    (h : nullWriteInto fs sfrom sto canReflink offset length bs isBlank = .ok fs' c cl fz) :
    fs'.seeds = fs.seeds := by
  unfold nullWriteInto at h
  simp only [Gen.nullClone_fallbackCopy, Gen.nullClone_headCopy, Gen.nullClone_tailCopy] at h
  split at h
  · cases h
  · split at h
    · split at h
      · injection h with h1 _ _ _
        subst h1
        rfl
      · injection h with h1 _ _ _
        subst h1
        rfl
    · split at h
      · injection h with h1 _ _ _
        subst h1
        rfl
      · split at h
        · cases h
        · injection h with h1 _ _ _
          subst h1
          rfl

theorem writeChunk_seeds {cf : Cfg} {e : Env} {r r' : Run} {c : IChunk}
    (h : writeChunk cf e r c = some r') : r'.fs.seeds = r.fs.seeds := by
  unfold writeChunk at h
  split at h
  · simp only [] at h
    split at h
    · cases h
    · rename_i hwi
      injection h with h
      subst h
      exact FSeg.writeInto_seeds hwi
  · simp only [] at h
    split at h
    · cases h
    · injection h with h
      subst h
      rfl
    · split at h
      · cases h
      · split at h
        · cases h
        · injection h with h
          subst h
          rfl

theorem verifyChunks_seeds {cf : Cfg} {e : Env} : ∀ (cs : List IChunk) (r r' : Run),
    verifyChunks cf e cs r = some r' → r'.fs.seeds = r.fs.seeds := by
  intro cs
  induction cs with
  | nil =>
    intro r r' h
    rw [verifyChunks] at h
    injection h with h
    subst h
    rfl
  | cons c cs ih =>
    intro r r' h
    rw [verifyChunks] at h
    split at h
    · cases h
    · split at h
      · exact ih r r' h
      · split at h
        · split at h
          · cases h
          · rename_i r1 hw1
            exact (ih r1 r' h).trans (writeChunk_seeds hw1)
        · cases h

theorem runJob_seeds {cf : Cfg} {e : Env} {r r' : Run} {it : PlanItem}
    (h : runJob cf e r it = some r') : r'.fs.seeds = r.fs.seeds := by
  unfold runJob at h
  split at h
  · split at h
    · simp only [Option.map_eq_some_iff] at h
      obtain ⟨r1, hw1, rfl⟩ := h
      exact writeChunk_seeds (r' := r1) hw1
    · cases h
  · simp only [] at h
    generalize hw : (match it.source with
      | Source.file seedIdx seg =>
        if r.fs.exists seg.src = true then
          FSeg.writeInto cf.ovl seg r.fs (segStart e it) (segEnd e it - segStart e it) e.bs
        else WRes.err
      | Source.null a b cr => nullWriteInto r.fs a b cr (segStart e it) (segEnd e it - segStart e it) e.bs cf.isBlank
      | Source.store => WRes.err) = w at h
    split at h
    · cases h
    · rename_i fs' cp cl fz hw
      have hconf : fs'.seeds = r.fs.seeds := by
        split at hw
        · split at hw
          · exact FSeg.writeInto_seeds hw
          · cases hw
        · exact nullWriteInto_seeds hw
        · cases hw
      split at h
      · cases h
      · rename_i r1 hv
        injection h with h
        subst h
        exact (verifyChunks_seeds _ _ r1 hv).trans hconf

theorem runJobs_seeds {cf : Cfg} {e : Env} : ∀ (items : List PlanItem) (r r' : Run),
    runJobs cf e items r = some r' → r'.fs.seeds = r.fs.seeds := by
  intro items
  induction items with
  | nil =>
    intro r r' h
    rw [runJobs] at h
    injection h with h
    subst h
    rfl
  | cons it rest ih =>
    intro r r' h
    rw [runJobs] at h
    split at h
    · cases h
    · rename_i r1 hj
      exact (ih r1 r' h).trans (runJob_seeds hj)

/-! ## the main theorems -/

/-- 3: the seed files are never written -/
theorem assemble_seeds_untouched {cf : Cfg} {e : Env} {seeds : List Seed} {files : List Bytes}
    {prior : Option Bytes} {r : Run} (h : assemble cf e seeds files prior = some r) :
    r.fs.seeds = files := by
  unfold assemble at h
  simp only [] at h
  split at h
  · cases h
  · exact runJobs_seeds _ _ r h

/-- all the chunks are in place after a successful run -/
theorem assemble_inv {cf : Cfg} {e : Env} {blob : Bytes} {seeds : List Seed} {files : List Bytes}
    {prior : Option Bytes} {r : Run} (wf : WFSeq cf e blob) (hsm : SeedsSmall seeds)
    (hr : cf.act = .regenerate → RechunkSmall cf.rechunk)
    (h : assemble cf e seeds files prior = some r) : Inv e blob files e.chunks.length r := by
  unfold assemble at h
  simp only [] at h
  split at h
  · cases h
  · rename_i p k hf
    obtain ⟨seeds', rfl, hsm'⟩ := findPlan_small cf.H cf.rechunk e _ cf.act hr _ seeds _ k hsm hf
    refine runJobs_inv wf (plan e seeds') 0 _ r (plan_partitions e seeds')
      (fun it hm => plan_itemOK e seeds' hsm' it hm) ?_ h
    refine ⟨⟨?_, fun p hp => absurd hp (Nat.not_lt_zero p)⟩, rfl, rfl⟩
    show (truncate (prior.getD []) (indexLength e.chunks)).length = blob.length
    rw [af_truncate_length, wf.length_eq]

/-- 1: a successful run leaves a file of the right length -/
theorem assemble_length {cf : Cfg} {e : Env} {blob : Bytes} {seeds : List Seed} {files : List Bytes}
    {prior : Option Bytes} {r : Run} (wf : WFSeq cf e blob) (hsm : SeedsSmall seeds)
    (hr : cf.act = .regenerate → RechunkSmall cf.rechunk)
    (h : assemble cf e seeds files prior = some r) : r.fs.target.length = blob.length :=
  (assemble_inv wf hsm hr h).done.1

/-- 2: success implies that the target is exactly the blob.  (The hypothesis
    `cf.isBlank = isBlankOf prior` is not needed: the chunks of a null-seed segment are re-hashed
    like those of any other segment, and skipping the in-place check only means a store read.) -/
theorem assemble_safe' {cf : Cfg} {e : Env} {blob : Bytes} {seeds : List Seed} {files : List Bytes}
    {prior : Option Bytes} {r : Run} (wf : WFSeq cf e blob) (hsm : SeedsSmall seeds)
    (hr : cf.act = .regenerate → RechunkSmall cf.rechunk)
    (h : assemble cf e seeds files prior = some r) : r.fs.target = blob :=
  done_all wf (assemble_inv wf hsm hr h).done

/-- 2, as requested -/
theorem assemble_safe {cf : Cfg} {e : Env} {blob : Bytes} {seeds : List Seed} {files : List Bytes}
    {prior : Option Bytes} {r : Run} (wf : WFSeq cf e blob) (_hb : cf.isBlank = isBlankOf prior)
    (hsm : SeedsSmall seeds) (hr : cf.act = .regenerate → RechunkSmall cf.rechunk)
    (h : assemble cf e seeds files prior = some r) : r.fs.target = blob :=
  assemble_safe' wf hsm hr h

/-- 4: the `panic` of the store branch of the worker loop is unreachable -/
theorem runJob_no_panic (cf : Cfg) (e : Env) (seeds : List Seed) (r : Run) (it : PlanItem)
    (hm : it ∈ plan e seeds) (hs : it.source = .store) :
    runJob cf e r it = (writeChunk cf e r (e.chunks.getD it.first default)).map
      (fun r' => { r' with ss := r'.ss.add it.first it.last }) := by
  unfold runJob
  rw [hs]
  simp only [plan_store_segChunks e seeds it hm hs]

/-! ## the hypotheses are satisfiable and the run succeeds -/

/-- the hash is the identity; the store holds the chunk `[1, 2]` only -/
def sfCfg : Cfg :=
  { H := fun b => b, store := fun id => if id = [1, 2] then some [1, 2] else none,
    ovl := fun _ _ _ _ => [], rechunk := fun _ _ => none, isBlank := false, act := .regenerate }

/-- three chunks; the third repeats the first -/
def sfEnv : Env :=
  { chunks := mkChunks 0 [([1, 2], 2), ([3, 4], 2), ([1, 2], 2)],
    nullID := [0, 0], nullReflink := false, selfReflink := false, bs := 4096 }

def sfBlob : Bytes := [1, 2, 3, 4, 1, 2]

/-- one seed that holds the second chunk behind an unrelated one -/
def sfSeeds : List Seed :=
  [{ src := .seed 0, chunks := mkChunks 0 [([9], 1), ([3, 4], 2)], canReflink := false }]

def sfFiles : List Bytes := [[9, 3, 4]]

theorem sf_wf : WFSeq sfCfg sfEnv sfBlob where
  start0 := fun _ => rfl
  contiguous := by
    intro p hp
    change p + 1 < 3 at hp
    have : p = 0 ∨ p = 1 := by omega
    rcases this with rfl | rfl <;> rfl
  length_eq := rfl
  ids := by
    intro p hp
    change p < 3 at hp
    have : p = 0 ∨ p = 1 ∨ p = 2 := by omega
    rcases this with rfl | rfl | rfl <;> rfl
  collision_free := by
    intro p hp b hb
    change p < 3 at hp
    change b = _ at hb
    subst hb
    have : p = 0 ∨ p = 1 ∨ p = 2 := by omega
    rcases this with rfl | rfl | rfl <;> rfl
  store_sound := by
    intro p hp d hd
    change p < 3 at hp
    show d = _
    have : p = 0 ∨ p = 1 ∨ p = 2 := by omega
    rcases this with rfl | rfl | rfl
    · change some [1, 2] = some d at hd
      injection hd with hd
      exact hd.symm
    · change none = some d at hd
      cases hd
    · change some [1, 2] = some d at hd
      injection hd with hd
      exact hd.symm
  bs_pos := by decide
  small := by
    show Small 6 ∧ Small 4096
    unfold Small
    omega

theorem sf_small : SeedsSmall sfSeeds := by
  intro s hs c hc
  simp only [sfSeeds, List.mem_singleton] at hs
  subst hs
  simp only [mkChunks, List.mem_cons, List.not_mem_nil, or_false] at hc
  unfold Small
  rcases hc with rfl | rfl <;> (constructor <;> simp)

/-- the target held garbage before; the first chunk comes from the store, the second from the seed,
    the third from the self seed; the result is the blob -/
example :
    WFSeq sfCfg sfEnv sfBlob ∧ SeedsSmall sfSeeds ∧ sfCfg.isBlank = isBlankOf (some [7, 7, 7]) ∧
    (assemble sfCfg sfEnv sfSeeds sfFiles (some [7, 7, 7])).map (fun r => (r.fs.target, r.stats)) =
      some (sfBlob, { fromStore := 1, inPlace := 0, fromSeed := 1, copied := 4, cloned := 0 }) :=
  ⟨sf_wf, sf_small, rfl, by decide⟩

/-- the main theorem applies to it -/
example (r : Run) (h : assemble sfCfg sfEnv sfSeeds sfFiles (some [7, 7, 7]) = some r) :
    r.fs.target = sfBlob :=
  assemble_safe sf_wf rfl sf_small (fun _ => fun _ _ _ h => by cases h) h

end Desync.Asm
