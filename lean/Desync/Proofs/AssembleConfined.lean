/-
  The file operations of `AssembleFile` (model: `Desync.Model.Assemble`) are confined to their
  destination range, and, when the source range is readable and does not overlap the destination,
  exact: `copyInto`, `cloneRange`, `fsClone`, `FSeg.writeInto`, `nullWriteInto`.

  The uint64 arithmetic of the clone paths is `Desync.Gen.fsClone_*`, `fsWrite_*`, `nullClone_*`
  (regenerated from the Go source).  `fsClone_eq_N`, `fsCloneHeadTail_eq_N`, `FSeg.writeInto_eq_N`,
  `nullCloneLoop_eq_N` and `nullWriteInto_eq_N` unfold these definitions and show that for sizes
  below 2^62 nothing wraps, so that the operations equal the versions over `Nat` (`fsCloneN`,
  `fsCloneHeadTailN`, `fsWriteCloneN`, `nullWriteIntoN`) about which everything else is proved.

  A clone the file system refuses is followed by a plain copy of the whole range
  (`fsWriteCloneN`): still confined, and `WriteInto` can only fail in its size check
  (`FSeg.writeInto_never_errs_after_size_check`).
-/
import Desync.Proofs.AsmFile

namespace Desync.Asm

/-! ## uint64 to Nat -/

theorem ac_u_toNat {n : Nat} (h : n < 2^64) : (u n).toNat = n := by
  simp only [u, Nat.toUInt64_eq, UInt64.toNat_ofNat']
  exact Nat.mod_eq_of_lt h

theorem ac_u_small {n : Nat} (h : Small n) : (u n).toNat = n :=
  ac_u_toNat (by unfold Small at h; omega)

theorem ac_u_inj {a b : Nat} (ha : Small a) (hb : Small b) : u a = u b ↔ a = b := by
  rw [← UInt64.toNat_inj, ac_u_small ha, ac_u_small hb]

theorem ac_u_mod_inj {a b c : Nat} (ha : Small a) (hb : Small b) (hc : Small c) :
    u a % u c = u b % u c ↔ a % c = b % c := by
  rw [← UInt64.toNat_inj, UInt64.toNat_mod, UInt64.toNat_mod, ac_u_small ha, ac_u_small hb, ac_u_small hc]

/-- `(a/b+1)*b` is `a` rounded up to the next multiple of `b` strictly above `a` -/
theorem ac_alignUp_eq (a b : Nat) (hb : 0 < b) : (a / b + 1) * b = a + (b - a % b) := by
  have h1 := Nat.div_add_mod a b
  have h2 := Nat.mod_lt a hb
  rw [Nat.add_mul, Nat.one_mul, Nat.mul_comm]
  omega

/-- `a/b*b` is `a` rounded down to a multiple of `b` -/
theorem ac_alignDown_eq (a b : Nat) : a / b * b = a - a % b := by
  have h1 := Nat.div_add_mod a b
  rw [Nat.mul_comm]
  omega

theorem ac_alignUp_toNat {a b : Nat} (ha : Small a) (hb : Small b) (hpos : 0 < b) :
    (((u a / u b) + 1) * u b).toNat = (a / b + 1) * b := by
  have e := ac_alignUp_eq a b hpos
  have h2 := Nat.mod_lt a hpos
  have hq : a / b ≤ a := Nat.div_le_self a b
  unfold Small at ha hb
  rw [UInt64.toNat_mul, UInt64.toNat_add, UInt64.toNat_div, ac_u_small ha, ac_u_small hb, UInt64.toNat_one]
  rw [Nat.mod_eq_of_lt (a := a / b + 1) (by omega)]
  rw [Nat.mod_eq_of_lt (by omega)]

theorem ac_alignDown_toNat {a l b : Nat} (ha : Small a) (hl : Small l) (hb : Small b) :
    (((u a + u l) / u b) * u b).toNat = (a + l) / b * b := by
  have e := ac_alignDown_eq (a + l) b
  unfold Small at ha hb hl
  rw [UInt64.toNat_mul, UInt64.toNat_div, UInt64.toNat_add, ac_u_small ha, ac_u_small hb, ac_u_small hl]
  rw [Nat.mod_eq_of_lt (a := a + l) (by omega)]
  rw [Nat.mod_eq_of_lt (by omega)]

theorem ac_alignUp_mod (a b : Nat) : ((a / b + 1) * b) % b = 0 := Nat.mul_mod_left _ _

theorem ac_alignDown_mod (a b : Nat) : (a / b * b) % b = 0 := Nat.mul_mod_left _ _

theorem ac_sub_mod {x y b : Nat} (hx : x % b = 0) (hy : y % b = 0) : (x - y) % b = 0 := by
  obtain ⟨k, rfl⟩ := Nat.dvd_of_mod_eq_zero hx
  obtain ⟨m, rfl⟩ := Nat.dvd_of_mod_eq_zero hy
  rw [← Nat.mul_sub]
  exact Nat.mul_mod_right _ _

/-- two multiples of `b`, one strictly below the other, are at least `b` apart -/
theorem ac_mult_step {x y b : Nat} (hx : x % b = 0) (hy : y % b = 0) (h : x < y) : x + b ≤ y := by
  obtain ⟨k, rfl⟩ := Nat.dvd_of_mod_eq_zero hx
  obtain ⟨m, rfl⟩ := Nat.dvd_of_mod_eq_zero hy
  have hb : 0 < b := by
    rcases Nat.eq_zero_or_pos b with h0 | h0
    · subst h0; simp at h
    · exact h0
  have hkm : k < m := Nat.lt_of_mul_lt_mul_left h
  have : b * (k + 1) ≤ b * m := Nat.mul_le_mul_left b hkm
  rw [Nat.mul_succ] at this
  exact this

/-! ## copyInto -/

theorem copyInto_seeds (ovl : Bytes → Nat → Nat → Nat → Bytes) (fs : FS) (src : Src) (so len dO : Nat) :
    (copyInto ovl fs src so len dO).1.seeds = fs.seeds := by
  unfold copyInto
  simp only []
  split <;> rfl

theorem copyInto_count_le (ovl : Bytes → Nat → Nat → Nat → Bytes) (fs : FS) (src : Src) (so len dO : Nat) :
    (copyInto ovl fs src so len dO).2.1 ≤ len := by
  unfold copyInto
  simp only []
  split
  · simp only [List.length_take]; omega
  · exact af_readUpTo_length_le _ _ _

theorem copyInto_agree (ovl : Bytes → Nat → Nat → Nat → Bytes) (fs : FS) (src : Src) (so len dO : Nat)
    (h : dO + len ≤ fs.target.length) :
    AgreeOutside fs.target (copyInto ovl fs src so len dO).1.target dO (dO + len) := by
  unfold copyInto
  simp only []
  split
  · apply af_writeAt_agree
    · exact Nat.le_refl _
    · simp only [List.length_take]; omega
    · simp only [List.length_take]; omega
  · have := af_readUpTo_length_le (fs.read src) so len
    apply af_writeAt_agree
    · exact Nat.le_refl _
    · omega
    · omega

/-- `fileSeedSegment.copy` touches nothing but the destination range of the target -/
theorem copyInto_confined (ovl : Bytes → Nat → Nat → Nat → Bytes) (fs : FS) (src : Src) (so len dO : Nat)
    (h : dO + len ≤ fs.target.length) :
    (copyInto ovl fs src so len dO).1.seeds = fs.seeds ∧
    AgreeOutside fs.target (copyInto ovl fs src so len dO).1.target dO (dO + len) ∧
    (copyInto ovl fs src so len dO).2.1 ≤ len :=
  ⟨copyInto_seeds .., copyInto_agree ovl fs src so len dO h, copyInto_count_le ..⟩

theorem ac_overlaps_false {a b n : Nat} (h : a + n ≤ b ∨ b + n ≤ a) : overlaps a b n = false := by
  unfold overlaps
  rcases h with h | h
  · have : ¬ b < a + n := by omega
    simp [this]
  · have : ¬ a < b + n := by omega
    simp [this]

/-- a copy whose source is readable and is not an overlapping range of the target is exact -/
theorem copyInto_exact (ovl : Bytes → Nat → Nat → Nat → Bytes) (fs : FS) (src : Src) (so len dO : Nat)
    (hsrc : src ≠ .target ∨ so + len ≤ dO ∨ dO + len ≤ so)
    (hs : so + len ≤ (fs.read src).length) (_hd : dO + len ≤ fs.target.length) :
    readUpTo (copyInto ovl fs src so len dO).1.target dO len = readUpTo (fs.read src) so len ∧
    (copyInto ovl fs src so len dO).2.1 = len ∧ (copyInto ovl fs src so len dO).2.2 = false := by
  have hl := af_readUpTo_length_of_le (fs.read src) so len hs
  have hc : ¬ (src = .target ∧ so ≠ dO ∧ overlaps so dO (readUpTo (fs.read src) so len).length) := by
    rintro ⟨h1, _, h3⟩
    rcases hsrc with h | h
    · exact h h1
    · rw [hl, ac_overlaps_false h] at h3
      exact Bool.false_ne_true h3
  unfold copyInto
  simp only [hc, if_false]
  refine ⟨?_, hl, trivial⟩
  have := af_readUpTo_writeAt_same fs.target dO (readUpTo (fs.read src) so len)
  rw [hl] at this
  exact this

/-! ## cloneRange -/

theorem cloneRange_some_of_ne_zero {dst src : Bytes} {same : Bool} {so len dO bs : Nat} {t : Bytes}
    (h : cloneRange dst src same so len dO bs = some t) (hl : len ≠ 0) :
    t = writeAt dst dO (readUpTo src so len) ∧ so + len ≤ src.length ∧ so % bs = 0 ∧ dO % bs = 0 := by
  unfold cloneRange at h
  simp only [hl, if_false] at h
  split at h
  · exact absurd h (by simp)
  · rename_i h0
    split at h
    · exact absurd h (by simp)
    · split at h
      · exact absurd h (by simp)
      · split at h
        · exact absurd h (by simp)
        · injection h with h
          refine ⟨h.symm, by omega, by omega, by omega⟩

/-- FICLONERANGE with a non-zero length touches nothing but the destination range, which then
    holds the source bytes.  (With `len = 0` it clones everything up to the end of the source.) -/
theorem cloneRange_confined {dst src : Bytes} {same : Bool} {so len dO bs : Nat} {t : Bytes}
    (h : cloneRange dst src same so len dO bs = some t) (hl : len ≠ 0) (hd : dO + len ≤ dst.length) :
    AgreeOutside dst t dO (dO + len) ∧ readUpTo t dO len = readUpTo src so len := by
  obtain ⟨rfl, hs, _, _⟩ := cloneRange_some_of_ne_zero h hl
  have hlen := af_readUpTo_length_of_le src so len hs
  constructor
  · apply af_writeAt_agree
    · exact Nat.le_refl _
    · omega
    · omega
  · have := af_readUpTo_writeAt_same dst dO (readUpTo src so len)
    rw [hlen] at this
    exact this

/-- when FICLONERANGE succeeds -/
theorem cloneRange_ok (dst src : Bytes) (same : Bool) {so len dO bs : Nat}
    (h1 : so % bs = 0) (h2 : dO % bs = 0) (hl : len ≠ 0) (h3 : len % bs = 0)
    (h4 : so + len ≤ src.length) (h5 : same = true → (so + len ≤ dO ∨ dO + len ≤ so)) :
    cloneRange dst src same so len dO bs = some (writeAt dst dO (readUpTo src so len)) := by
  unfold cloneRange
  have c1 : ¬ (so % bs ≠ 0 ∨ dO % bs ≠ 0) := by omega
  have c2 : ¬ (so + len > src.length) := by omega
  have c3 : ¬ (len % bs ≠ 0 ∧ ¬ (so + len = src.length ∧ dO + len ≥ dst.length)) := by omega
  have c4 : ¬ (same = true ∧ overlaps so dO len = true) := by
    rintro ⟨hs, ho⟩
    rw [ac_overlaps_false (h5 hs)] at ho
    exact Bool.false_ne_true ho
  simp only [c1, hl, c2, c3, c4, if_false]

/-! ## fileSeedSegment.clone -/

/-- `fsClone` with the arithmetic over `Nat` -/
def fsCloneN (ovl : Bytes → Nat → Nat → Nat → Bytes) (fs : FS) (src : Src) (so len dO bs : Nat) : WRes :=
  let sas := (so / bs + 1) * bs
  let sae := (so + len) / bs * bs
  if sae ≤ sas then
    let r := copyInto ovl fs src so len dO
    .ok r.1 r.2.1 0 r.2.2
  else
    let das := (dO / bs + 1) * bs
    let al := sae - sas
    let dae := das + al
    let r1 := copyInto ovl fs src so (sas - so) dO
    let r2 := copyInto ovl r1.1 src sae (so + len - sae) dae
    match cloneRange r2.1.target (r2.1.read src) (src = .target) sas al das bs with
    | none => .err
    | some t => .ok { r2.1 with target := t } (r1.2.1 + r2.2.1) al (r1.2.2 || r2.2.2)

/-- below 2^62 nothing in `fileSeedSegment.clone` wraps (unfolds `Gen.fsClone_*`) -/
theorem fsClone_eq_N (ovl : Bytes → Nat → Nat → Nat → Bytes) (fs : FS) (src : Src) {so len dO bs : Nat}
    (hso : Small so) (hlen : Small len) (hdO : Small dO) (hbs : Small bs) (hpos : 0 < bs) :
    fsClone ovl fs src so len dO bs = fsCloneN ovl fs src so len dO bs := by
  have e1 := ac_alignUp_toNat hso hbs hpos
  have e2 := ac_alignDown_toNat hso hlen hbs
  have e3 := ac_alignUp_toNat hdO hbs hpos
  have n1 := ac_alignUp_eq so bs hpos
  have n2 := ac_alignDown_eq (so + len) bs
  have n3 := ac_alignUp_eq dO bs hpos
  have m1 := Nat.mod_lt so hpos
  have m2 := Nat.mod_lt (so + len) hpos
  have m3 := Nat.mod_lt dO hpos
  have hso' := ac_u_small hso
  have hlen' := ac_u_small hlen
  have hdO' := ac_u_small hdO
  unfold Small at hso hlen hdO hbs
  unfold fsClone fsCloneN
  simp only [Gen.fsClone_srcAlignStart, Gen.fsClone_srcAlignEnd, Gen.fsClone_guard,
    Gen.fsClone_fallbackCopy, Gen.fsClone_dstAlignStart, Gen.fsClone_alignLength,
    Gen.fsClone_dstAlignEnd, Gen.fsClone_headCopy, Gen.fsClone_tailCopy, Gen.fsClone_cloneRange,
    decide_eq_true_eq, UInt64.le_iff_toNat_le, e1, e2]
  by_cases hg : (so + len) / bs * bs ≤ (so / bs + 1) * bs
  · simp only [hg, if_true, hso', hlen', hdO']
  · have hle : ((u so / u bs) + 1) * u bs ≤ ((u so + u len) / u bs) * u bs := by
      rw [UInt64.le_iff_toNat_le, e1, e2]; omega
    have hle2 : u so ≤ ((u so / u bs) + 1) * u bs := by
      rw [UInt64.le_iff_toNat_le, e1, hso']; omega
    have hsl : (u so + u len).toNat = so + len := by
      rw [UInt64.toNat_add, hso', hlen']; exact Nat.mod_eq_of_lt (by omega)
    have hle3 : ((u so + u len) / u bs) * u bs ≤ u so + u len := by
      rw [UInt64.le_iff_toNat_le, e2, hsl]; omega
    have eal : (((u so + u len) / u bs) * u bs - ((u so / u bs) + 1) * u bs).toNat
        = (so + len) / bs * bs - (so / bs + 1) * bs := by
      rw [UInt64.toNat_sub_of_le _ _ hle, e1, e2]
    have edae : ((u dO / u bs + 1) * u bs
          + (((u so + u len) / u bs) * u bs - ((u so / u bs) + 1) * u bs)).toNat
        = (dO / bs + 1) * bs + ((so + len) / bs * bs - (so / bs + 1) * bs) := by
      rw [UInt64.toNat_add, eal, e3]; exact Nat.mod_eq_of_lt (by omega)
    simp only [hg, if_false, hso', hdO', eal, edae, e1, e2, e3, UInt64.toNat_sub_of_le _ _ hle2,
      UInt64.toNat_sub_of_le _ _ hle3, hsl]
    rfl

/-- `fileSeedSegment.clone` over `Nat` is confined to the destination range.  The alignment
    `so % bs = dO % bs` is what `fileSeedSegment.WriteInto` checks before it calls `clone`. -/
theorem fsCloneN_confined {ovl : Bytes → Nat → Nat → Nat → Bytes} {fs fs' : FS} {src : Src}
    {so len dO bs c cl : Nat} {fz : Bool} (hpos : 0 < bs) (hal : so % bs = dO % bs)
    (hd : dO + len ≤ fs.target.length) (h : fsCloneN ovl fs src so len dO bs = .ok fs' c cl fz) :
    fs'.seeds = fs.seeds ∧ AgreeOutside fs.target fs'.target dO (dO + len) := by
  have n1 := ac_alignUp_eq so bs hpos
  have n2 := ac_alignDown_eq (so + len) bs
  have n3 := ac_alignUp_eq dO bs hpos
  have m1 := Nat.mod_lt so hpos
  have m2 := Nat.mod_lt (so + len) hpos
  have m3 := Nat.mod_lt dO hpos
  unfold fsCloneN at h
  simp only [] at h
  generalize (so / bs + 1) * bs = sas at h n1
  generalize (so + len) / bs * bs = sae at h n2
  generalize (dO / bs + 1) * bs = das at h n3
  split at h
  · injection h with h1 h2 h3 h4
    subst h1
    exact ⟨copyInto_seeds .., copyInto_agree _ _ _ _ _ _ hd⟩
  · rename_i hg
    split at h
    · exact WRes.noConfusion h
    · rename_i t ht
      injection h with h1 h2 h3 h4
      subst h1
      have A1 := copyInto_agree ovl fs src so (sas - so) dO (by omega)
      have S1 := copyInto_seeds ovl fs src so (sas - so) dO
      generalize copyInto ovl fs src so (sas - so) dO = r1 at ht A1 S1
      have L1 := A1.1
      have A2 := copyInto_agree ovl r1.1 src sae (so + len - sae) (das + (sae - sas)) (by omega)
      have S2 := copyInto_seeds ovl r1.1 src sae (so + len - sae) (das + (sae - sas))
      generalize copyInto ovl r1.1 src sae (so + len - sae) (das + (sae - sas)) = r2 at ht A2 S2
      have L2 := A2.1
      have A3 := (cloneRange_confined ht (by omega) (by omega)).1
      refine ⟨S2.trans S1, ?_⟩
      refine af_agree_trans (af_agree_mono A1 (Nat.le_refl _) (by omega)) ?_
      refine af_agree_trans (af_agree_mono A2 (by omega) (by omega)) ?_
      exact af_agree_mono A3 (by omega) (by omega)

/-- `fileSeedSegment.clone` is confined to the destination range -/
theorem fsClone_confined {ovl : Bytes → Nat → Nat → Nat → Bytes} {fs fs' : FS} {src : Src}
    {so len dO bs c cl : Nat} {fz : Bool}
    (hso : Small so) (hlen : Small len) (hdO : Small dO) (hbs : Small bs) (hpos : 0 < bs)
    (hal : so % bs = dO % bs) (hd : dO + len ≤ fs.target.length)
    (h : fsClone ovl fs src so len dO bs = .ok fs' c cl fz) :
    fs'.seeds = fs.seeds ∧ AgreeOutside fs.target fs'.target dO (dO + len) := by
  rw [fsClone_eq_N ovl fs src hso hlen hdO hbs hpos] at h
  exact fsCloneN_confined hpos hal hd h

/-- the source range is not affected by changes confined to the destination range -/
theorem ac_read_stable {fs fs' : FS} {src : Src} {so len dO : Nat}
    (hseeds : fs'.seeds = fs.seeds) (hag : AgreeOutside fs.target fs'.target dO (dO + len))
    (hsrc : src ≠ .target ∨ so + len ≤ dO ∨ dO + len ≤ so) :
    (fs'.read src).length = (fs.read src).length ∧
    ∀ i, i < len → (fs'.read src)[so + i]? = (fs.read src)[so + i]? := by
  cases src with
  | seed k => simp [FS.read, hseeds]
  | target =>
    simp only [FS.read]
    refine ⟨hag.1, fun i hi => hag.2 (so + i) ?_⟩
    rcases hsrc with h | h
    · exact absurd rfl h
    · omega

/-- `fileSeedSegment.clone` over `Nat` succeeds and is exact when the source range is readable and
    is not a range of the target overlapping the destination -/
theorem fsCloneN_exact (ovl : Bytes → Nat → Nat → Nat → Bytes) (fs : FS) (src : Src)
    {so len dO bs : Nat} (hpos : 0 < bs) (hal : so % bs = dO % bs)
    (hsrc : src ≠ .target ∨ so + len ≤ dO ∨ dO + len ≤ so)
    (hs : so + len ≤ (fs.read src).length) (hd : dO + len ≤ fs.target.length) :
    ∃ fs' c cl, fsCloneN ovl fs src so len dO bs = .ok fs' c cl false ∧
      readUpTo fs'.target dO len = readUpTo (fs.read src) so len ∧ c + cl = len := by
  have n1 := ac_alignUp_eq so bs hpos
  have n2 := ac_alignDown_eq (so + len) bs
  have n3 := ac_alignUp_eq dO bs hpos
  have m1 := Nat.mod_lt so hpos
  have m2 := Nat.mod_lt (so + len) hpos
  have m3 := Nat.mod_lt dO hpos
  have d1 := ac_alignUp_mod so bs
  have d2 := ac_alignDown_mod (so + len) bs
  have d3 := ac_alignUp_mod dO bs
  unfold fsCloneN
  simp only []
  generalize (so / bs + 1) * bs = sas at n1 d1 ⊢
  generalize (so + len) / bs * bs = sae at n2 d2 ⊢
  generalize (dO / bs + 1) * bs = das at n3 d3 ⊢
  split
  · obtain ⟨e1, e2, e3⟩ := copyInto_exact ovl fs src so len dO hsrc hs hd
    refine ⟨(copyInto ovl fs src so len dO).1, (copyInto ovl fs src so len dO).2.1, 0, ?_, e1, ?_⟩
    · rw [e3]
    · omega
  · rename_i hg
    have hsrc1 : src ≠ .target ∨ so + (sas - so) ≤ dO ∨ dO + (sas - so) ≤ so := by
      rcases hsrc with h | h
      · exact Or.inl h
      · exact Or.inr (by omega)
    have hsrc2 : src ≠ .target ∨ sae + (so + len - sae) ≤ das + (sae - sas) ∨
        das + (sae - sas) + (so + len - sae) ≤ sae := by
      rcases hsrc with h | h
      · exact Or.inl h
      · exact Or.inr (by omega)
    have X1 := copyInto_exact ovl fs src so (sas - so) dO hsrc1 (by omega) (by omega)
    have A1 := copyInto_agree ovl fs src so (sas - so) dO (by omega)
    have S1 := copyInto_seeds ovl fs src so (sas - so) dO
    generalize copyInto ovl fs src so (sas - so) dO = r1 at X1 A1 S1 ⊢
    have L1 := A1.1
    have A1' : AgreeOutside fs.target r1.1.target dO (dO + len) :=
      af_agree_mono A1 (Nat.le_refl _) (by omega)
    have R1 := ac_read_stable S1 A1' hsrc
    have X2 := copyInto_exact ovl r1.1 src sae (so + len - sae) (das + (sae - sas)) hsrc2
      (by omega) (by omega)
    have A2 := copyInto_agree ovl r1.1 src sae (so + len - sae) (das + (sae - sas)) (by omega)
    have S2 := copyInto_seeds ovl r1.1 src sae (so + len - sae) (das + (sae - sas))
    generalize copyInto ovl r1.1 src sae (so + len - sae) (das + (sae - sas)) = r2 at X2 A2 S2 ⊢
    have L2 := A2.1
    have A2' : AgreeOutside fs.target r2.1.target dO (dO + len) :=
      af_agree_trans A1' (af_agree_mono A2 (by omega) (by omega))
    have R2 := ac_read_stable (S2.trans S1) A2' hsrc
    have C := cloneRange_ok r2.1.target (r2.1.read src) (decide (src = .target))
      (so := sas) (len := sae - sas) (dO := das) (bs := bs) d1 d3 (by omega) (ac_sub_mod d2 d1)
      (by omega) (by
        intro hsame
        have : src = .target := of_decide_eq_true hsame
        rcases hsrc with h | h
        · exact absurd this h
        · omega)
    rw [C]
    have hB : (readUpTo (r2.1.read src) sas (sae - sas)).length = sae - sas :=
      af_readUpTo_length_of_le _ _ _ (by omega)
    refine ⟨{ r2.1 with target := writeAt r2.1.target das (readUpTo (r2.1.read src) sas (sae - sas)) },
      r1.2.1 + r2.2.1, sae - sas, ?_, ?_, ?_⟩
    · rw [X1.2.2, X2.2.2]; rfl
    · apply af_readUpTo_ext
      intro i hi
      show (writeAt r2.1.target das (readUpTo (r2.1.read src) sas (sae - sas)))[dO + i]? = _
      by_cases c1 : dO + i < das
      · rw [af_writeAt_getElem?_outside _ _ _ _ (Or.inl c1) (by omega)]
        rw [A2.2 (dO + i) (Or.inl (by omega))]
        exact af_readUpTo_eq_getElem? _ _ _ _ _ X1.1 i (by omega)
      · by_cases c2 : dO + i < das + (sae - sas)
        · have e : dO + i = das + (dO + i - das) := by omega
          rw [e, af_writeAt_getElem?_inside _ _ _ _ (by omega), af_readUpTo_getElem?]
          have : dO + i - das < sae - sas := by omega
          simp only [this, if_true]
          have e2 : sas + (dO + i - das) = so + i := by omega
          rw [e2]
          exact R2.2 i hi
        · rw [af_writeAt_getElem?_after _ _ _ _ (by omega)]
          have e : dO + i = das + (sae - sas) + (dO + i - (das + (sae - sas))) := by omega
          rw [e, af_readUpTo_eq_getElem? _ _ _ _ _ X2.1 _ (by omega)]
          have e2 : sae + (dO + i - (das + (sae - sas))) = so + i := by omega
          rw [e2]
          exact R1.2 i hi
    · rw [X1.2.1, X2.2.1]; omega

/-! ## what a refused clone leaves behind, and the copy that follows it -/

/-- `fsCloneHeadTail` with the arithmetic over `Nat` -/
def fsCloneHeadTailN (ovl : Bytes → Nat → Nat → Nat → Bytes) (fs : FS) (src : Src) (so len dO bs : Nat) :
    FS × Bool :=
  let sas := (so / bs + 1) * bs
  let sae := (so + len) / bs * bs
  let das := (dO / bs + 1) * bs
  let r1 := copyInto ovl fs src so (sas - so) dO
  let r2 := copyInto ovl r1.1 src sae (so + len - sae) (das + (sae - sas))
  (r2.1, r1.2.2 || r2.2.2)

/-- below 2^62 nothing in the head and tail copies wraps, provided the guard
    `srcAlignEnd <= srcAlignStart` of `fileSeedSegment.clone` is false (unfolds `Gen.fsClone_*`) -/
theorem fsCloneHeadTail_eq_N (ovl : Bytes → Nat → Nat → Nat → Bytes) (fs : FS) (src : Src)
    {so len dO bs : Nat}
    (hso : Small so) (hlen : Small len) (hdO : Small dO) (hbs : Small bs) (hpos : 0 < bs)
    (hg : ¬ (so + len) / bs * bs ≤ (so / bs + 1) * bs) :
    fsCloneHeadTail ovl fs src so len dO bs = fsCloneHeadTailN ovl fs src so len dO bs := by
  have e1 := ac_alignUp_toNat hso hbs hpos
  have e2 := ac_alignDown_toNat hso hlen hbs
  have e3 := ac_alignUp_toNat hdO hbs hpos
  have n1 := ac_alignUp_eq so bs hpos
  have n2 := ac_alignDown_eq (so + len) bs
  have n3 := ac_alignUp_eq dO bs hpos
  have m1 := Nat.mod_lt so hpos
  have m2 := Nat.mod_lt (so + len) hpos
  have m3 := Nat.mod_lt dO hpos
  have hso' := ac_u_small hso
  have hlen' := ac_u_small hlen
  have hdO' := ac_u_small hdO
  unfold Small at hso hlen hdO hbs
  have hle : ((u so / u bs) + 1) * u bs ≤ ((u so + u len) / u bs) * u bs := by
    rw [UInt64.le_iff_toNat_le, e1, e2]; omega
  have hle2 : u so ≤ ((u so / u bs) + 1) * u bs := by
    rw [UInt64.le_iff_toNat_le, e1, hso']; omega
  have hsl : (u so + u len).toNat = so + len := by
    rw [UInt64.toNat_add, hso', hlen']; exact Nat.mod_eq_of_lt (by omega)
  have hle3 : ((u so + u len) / u bs) * u bs ≤ u so + u len := by
    rw [UInt64.le_iff_toNat_le, e2, hsl]; omega
  have eal : (((u so + u len) / u bs) * u bs - ((u so / u bs) + 1) * u bs).toNat
      = (so + len) / bs * bs - (so / bs + 1) * bs := by
    rw [UInt64.toNat_sub_of_le _ _ hle, e1, e2]
  have edae : ((u dO / u bs + 1) * u bs
        + (((u so + u len) / u bs) * u bs - ((u so / u bs) + 1) * u bs)).toNat
      = (dO / bs + 1) * bs + ((so + len) / bs * bs - (so / bs + 1) * bs) := by
    rw [UInt64.toNat_add, eal, e3]; exact Nat.mod_eq_of_lt (by omega)
  unfold fsCloneHeadTail fsCloneHeadTailN
  simp only [Gen.fsClone_srcAlignStart, Gen.fsClone_srcAlignEnd,
    Gen.fsClone_dstAlignStart, Gen.fsClone_alignLength,
    Gen.fsClone_dstAlignEnd, Gen.fsClone_headCopy, Gen.fsClone_tailCopy,
    hso', hdO', edae, e1, e2, UInt64.toNat_sub_of_le _ _ hle2,
    UInt64.toNat_sub_of_le _ _ hle3, hsl]

/-- `fileSeedSegment.clone` over `Nat` only fails behind its guard, in `CloneRange` -/
theorem fsCloneN_err_guard {ovl : Bytes → Nat → Nat → Nat → Bytes} {fs : FS} {src : Src}
    {so len dO bs : Nat} (h : fsCloneN ovl fs src so len dO bs = .err) :
    ¬ (so + len) / bs * bs ≤ (so / bs + 1) * bs := by
  intro hg
  unfold fsCloneN at h
  simp only [hg, if_true] at h
  exact WRes.noConfusion h

/-- the head and tail copies of `fileSeedSegment.clone` stay inside the destination range -/
theorem fsCloneHeadTailN_confined (ovl : Bytes → Nat → Nat → Nat → Bytes) (fs : FS) (src : Src)
    {so len dO bs : Nat} (hpos : 0 < bs) (hal : so % bs = dO % bs)
    (hg : ¬ (so + len) / bs * bs ≤ (so / bs + 1) * bs)
    (hd : dO + len ≤ fs.target.length) :
    (fsCloneHeadTailN ovl fs src so len dO bs).1.seeds = fs.seeds ∧
    AgreeOutside fs.target (fsCloneHeadTailN ovl fs src so len dO bs).1.target dO (dO + len) := by
  have n1 := ac_alignUp_eq so bs hpos
  have n2 := ac_alignDown_eq (so + len) bs
  have n3 := ac_alignUp_eq dO bs hpos
  have m1 := Nat.mod_lt so hpos
  have m2 := Nat.mod_lt (so + len) hpos
  have m3 := Nat.mod_lt dO hpos
  unfold fsCloneHeadTailN
  simp only []
  generalize (so / bs + 1) * bs = sas at hg n1 ⊢
  generalize (so + len) / bs * bs = sae at hg n2 ⊢
  generalize (dO / bs + 1) * bs = das at n3 ⊢
  have A1 := copyInto_agree ovl fs src so (sas - so) dO (by omega)
  have S1 := copyInto_seeds ovl fs src so (sas - so) dO
  generalize copyInto ovl fs src so (sas - so) dO = r1 at A1 S1 ⊢
  have L1 := A1.1
  have A2 := copyInto_agree ovl r1.1 src sae (so + len - sae) (das + (sae - sas)) (by omega)
  have S2 := copyInto_seeds ovl r1.1 src sae (so + len - sae) (das + (sae - sas))
  generalize copyInto ovl r1.1 src sae (so + len - sae) (das + (sae - sas)) = r2 at A2 S2 ⊢
  refine ⟨S2.trans S1, ?_⟩
  refine af_agree_trans (af_agree_mono A1 (Nat.le_refl _) (by omega)) ?_
  exact af_agree_mono A2 (by omega) (by omega)

/-- the clone branch of `fileSeedSegment.WriteInto` over `Nat`: `clone`, and when `CloneRange`
    refuses, a plain copy of the whole range over what the head and tail copies left behind -/
def fsWriteCloneN (ovl : Bytes → Nat → Nat → Nat → Bytes) (fs : FS) (src : Src) (so len dO bs : Nat) : WRes :=
  match fsCloneN ovl fs src so len dO bs with
  | .err =>
    let ht := fsCloneHeadTailN ovl fs src so len dO bs
    let r := copyInto ovl ht.1 src so len dO
    .ok r.1 r.2.1 0 (ht.2 || r.2.2)
  | r => r

theorem fsWriteCloneN_of_ok {ovl : Bytes → Nat → Nat → Nat → Bytes} {fs fs' : FS} {src : Src}
    {so len dO bs c cl : Nat} {fz : Bool} (h : fsCloneN ovl fs src so len dO bs = .ok fs' c cl fz) :
    fsWriteCloneN ovl fs src so len dO bs = .ok fs' c cl fz := by
  unfold fsWriteCloneN
  rw [h]

theorem fsWriteCloneN_of_err {ovl : Bytes → Nat → Nat → Nat → Bytes} {fs : FS} {src : Src}
    {so len dO bs : Nat} (h : fsCloneN ovl fs src so len dO bs = .err) :
    fsWriteCloneN ovl fs src so len dO bs =
      .ok (copyInto ovl (fsCloneHeadTailN ovl fs src so len dO bs).1 src so len dO).1
        (copyInto ovl (fsCloneHeadTailN ovl fs src so len dO bs).1 src so len dO).2.1 0
        ((fsCloneHeadTailN ovl fs src so len dO bs).2 ||
          (copyInto ovl (fsCloneHeadTailN ovl fs src so len dO bs).1 src so len dO).2.2) := by
  unfold fsWriteCloneN
  rw [h]

/-- after the repair the clone branch cannot fail -/
theorem fsWriteCloneN_ne_err (ovl : Bytes → Nat → Nat → Nat → Bytes) (fs : FS) (src : Src)
    (so len dO bs : Nat) : fsWriteCloneN ovl fs src so len dO bs ≠ .err := by
  cases h : fsCloneN ovl fs src so len dO bs with
  | err => rw [fsWriteCloneN_of_err h]; exact WRes.noConfusion
  | ok fs' c cl fz => rw [fsWriteCloneN_of_ok h]; exact WRes.noConfusion

/-- the clone branch is confined to the destination range, whether `CloneRange` accepts or not -/
theorem fsWriteCloneN_confined {ovl : Bytes → Nat → Nat → Nat → Bytes} {fs fs' : FS} {src : Src}
    {so len dO bs c cl : Nat} {fz : Bool} (hpos : 0 < bs) (hal : so % bs = dO % bs)
    (hd : dO + len ≤ fs.target.length) (h : fsWriteCloneN ovl fs src so len dO bs = .ok fs' c cl fz) :
    fs'.seeds = fs.seeds ∧ AgreeOutside fs.target fs'.target dO (dO + len) := by
  cases hc : fsCloneN ovl fs src so len dO bs with
  | ok fs'' c' cl' fz' =>
    rw [fsWriteCloneN_of_ok hc] at h
    rw [h] at hc
    exact fsCloneN_confined hpos hal hd hc
  | err =>
    rw [fsWriteCloneN_of_err hc] at h
    obtain ⟨S, A⟩ := fsCloneHeadTailN_confined ovl fs src hpos hal (fsCloneN_err_guard hc) hd
    generalize (fsCloneHeadTailN ovl fs src so len dO bs) = ht at h S A
    injection h with h1 h2 h3 h4
    subst h1
    have L := A.1
    refine ⟨(copyInto_seeds ..).trans S, ?_⟩
    exact af_agree_trans A (copyInto_agree ovl ht.1 src so len dO (by omega))

/-- when the source range is readable and is not a range of the target overlapping the destination
    the clone is not refused, and the clone branch is exact -/
theorem fsWriteCloneN_exact (ovl : Bytes → Nat → Nat → Nat → Bytes) (fs : FS) (src : Src)
    {so len dO bs : Nat} (hpos : 0 < bs) (hal : so % bs = dO % bs)
    (hsrc : src ≠ .target ∨ so + len ≤ dO ∨ dO + len ≤ so)
    (hs : so + len ≤ (fs.read src).length) (hd : dO + len ≤ fs.target.length) :
    ∃ fs' c cl, fsWriteCloneN ovl fs src so len dO bs = .ok fs' c cl false ∧
      readUpTo fs'.target dO len = readUpTo (fs.read src) so len ∧ c + cl = len := by
  obtain ⟨fs', c, cl, e, h1, h2⟩ := fsCloneN_exact ovl fs src hpos hal hsrc hs hd
  exact ⟨fs', c, cl, fsWriteCloneN_of_ok e, h1, h2⟩

/-- a refused clone in the situation of the exactness theorems (which cannot happen with the
    model's `cloneRange`, see `fsCloneN_exact`, but can with a file system that refuses clones for
    reasons of its own): the head and tail copies do not touch the source range, the copy of the
    whole range that follows delivers exactly the source bytes, nothing is counted as cloned and no
    overlapping copy is involved -/
theorem fsCloneFallbackN_exact (ovl : Bytes → Nat → Nat → Nat → Bytes) (fs : FS) (src : Src)
    {so len dO bs : Nat} (hpos : 0 < bs) (hal : so % bs = dO % bs)
    (hg : ¬ (so + len) / bs * bs ≤ (so / bs + 1) * bs)
    (hsrc : src ≠ .target ∨ so + len ≤ dO ∨ dO + len ≤ so)
    (hs : so + len ≤ (fs.read src).length) (hd : dO + len ≤ fs.target.length) :
    readUpTo (copyInto ovl (fsCloneHeadTailN ovl fs src so len dO bs).1 src so len dO).1.target dO len
        = readUpTo (fs.read src) so len ∧
      (copyInto ovl (fsCloneHeadTailN ovl fs src so len dO bs).1 src so len dO).2.1 + 0 = len ∧
      ((fsCloneHeadTailN ovl fs src so len dO bs).2 ||
        (copyInto ovl (fsCloneHeadTailN ovl fs src so len dO bs).1 src so len dO).2.2) = false := by
  obtain ⟨S, A⟩ := fsCloneHeadTailN_confined ovl fs src hpos hal hg hd
  have R := ac_read_stable S A hsrc
  have hfz : (fsCloneHeadTailN ovl fs src so len dO bs).2 = false := by
    have n1 := ac_alignUp_eq so bs hpos
    have n2 := ac_alignDown_eq (so + len) bs
    have n3 := ac_alignUp_eq dO bs hpos
    have m1 := Nat.mod_lt so hpos
    have m2 := Nat.mod_lt (so + len) hpos
    have m3 := Nat.mod_lt dO hpos
    unfold fsCloneHeadTailN
    simp only []
    generalize (so / bs + 1) * bs = sas at hg n1 ⊢
    generalize (so + len) / bs * bs = sae at hg n2 ⊢
    generalize (dO / bs + 1) * bs = das at n3 ⊢
    have hsrc1 : src ≠ .target ∨ so + (sas - so) ≤ dO ∨ dO + (sas - so) ≤ so := by
      rcases hsrc with h | h
      · exact Or.inl h
      · exact Or.inr (by omega)
    have hsrc2 : src ≠ .target ∨ sae + (so + len - sae) ≤ das + (sae - sas) ∨
        das + (sae - sas) + (so + len - sae) ≤ sae := by
      rcases hsrc with h | h
      · exact Or.inl h
      · exact Or.inr (by omega)
    have X1 := copyInto_exact ovl fs src so (sas - so) dO hsrc1 (by omega) (by omega)
    have A1 := copyInto_agree ovl fs src so (sas - so) dO (by omega)
    have S1 := copyInto_seeds ovl fs src so (sas - so) dO
    generalize copyInto ovl fs src so (sas - so) dO = r1 at X1 A1 S1 ⊢
    have L1 := A1.1
    have A1' : AgreeOutside fs.target r1.1.target dO (dO + len) :=
      af_agree_mono A1 (Nat.le_refl _) (by omega)
    have R1 := ac_read_stable S1 A1' hsrc
    have X2 := copyInto_exact ovl r1.1 src sae (so + len - sae) (das + (sae - sas)) hsrc2
      (by omega) (by omega)
    rw [X1.2.2, X2.2.2]
    rfl
  generalize (fsCloneHeadTailN ovl fs src so len dO bs) = ht at S A R hfz ⊢
  have L := A.1
  obtain ⟨e1, e2, e3⟩ := copyInto_exact ovl ht.1 src so len dO hsrc (by omega) (by omega)
  refine ⟨?_, by omega, by rw [hfz, e3]; rfl⟩
  rw [e1]
  apply af_readUpTo_ext
  intro i hi
  exact R.2 i hi

/-! ## fileSeedSegment.WriteInto -/

/-- below 2^62 nothing in `fileSeedSegment.WriteInto` wraps (unfolds `Gen.fsWrite_*`) -/
theorem FSeg.writeInto_eq_N (ovl : Bytes → Nat → Nat → Nat → Bytes) (s : FSeg) (fs : FS)
    {offset length bs : Nat} (hst : Small s.srcStart) (hoff : Small offset) (hlen : Small length)
    (hbs : Small bs) (hpos : 0 < bs) :
    s.writeInto ovl fs offset length bs =
      if u length ≠ u s.size then .err
      else if s.canReflink = false ∨ s.srcStart % bs ≠ offset % bs then
        .ok (copyInto ovl fs s.src s.srcStart length offset).1
          (copyInto ovl fs s.src s.srcStart length offset).2.1 0
          (copyInto ovl fs s.src s.srcStart length offset).2.2
      else fsWriteCloneN ovl fs s.src s.srcStart length offset bs := by
  unfold FSeg.writeInto
  simp only [Gen.fsWrite_wrongSize, Gen.fsWrite_useCopy, Gen.fsWrite_copyArgs, Gen.fsWrite_cloneArgs,
    Gen.fsWrite_cloneFallbackArgs,
    decide_eq_true_eq, Bool.or_eq_true, Bool.not_eq_true', ac_u_small hst, ac_u_small hoff,
    ac_u_small hlen, ne_eq, ac_u_mod_inj hst hoff hbs, fsClone_eq_N ovl fs s.src hst hlen hoff hbs hpos]
  split
  · rfl
  · split
    · rfl
    · cases hc : fsCloneN ovl fs s.src s.srcStart length offset bs with
      | ok fs' c cl fz => rw [fsWriteCloneN_of_ok hc]
      | err =>
        rw [fsWriteCloneN_of_err hc,
          fsCloneHeadTail_eq_N ovl fs s.src hst hlen hoff hbs hpos (fsCloneN_err_guard hc)]

/-- `fileSeedSegment.WriteInto` touches nothing but the destination range of the target -/
theorem FSeg.writeInto_confined {ovl : Bytes → Nat → Nat → Nat → Bytes} {s : FSeg} {fs fs' : FS}
    {offset length bs c cl : Nat} {fz : Bool}
    (hst : Small s.srcStart) (hoff : Small offset) (hlen : Small length) (hbs : Small bs)
    (hpos : 0 < bs) (hd : offset + length ≤ fs.target.length)
    (h : s.writeInto ovl fs offset length bs = .ok fs' c cl fz) :
    fs'.seeds = fs.seeds ∧ AgreeOutside fs.target fs'.target offset (offset + length) := by
  rw [FSeg.writeInto_eq_N ovl s fs hst hoff hlen hbs hpos] at h
  split at h
  · exact WRes.noConfusion h
  · split at h
    · injection h with h1 h2 h3 h4
      subst h1
      exact ⟨copyInto_seeds .., copyInto_agree _ _ _ _ _ _ hd⟩
    · rename_i hc
      have hal : s.srcStart % bs = offset % bs := by
        by_cases hne : s.srcStart % bs = offset % bs
        · exact hne
        · exact absurd (Or.inr hne) hc
      exact fsWriteCloneN_confined hpos hal hd h

/-- `fileSeedSegment.WriteInto` succeeds and is exact when the segment has the requested length,
    its source range is readable, and it is not a range of the target overlapping the destination -/
theorem FSeg.writeInto_exact (ovl : Bytes → Nat → Nat → Nat → Bytes) (s : FSeg) (fs : FS)
    {offset length bs : Nat}
    (hst : Small s.srcStart) (hoff : Small offset) (hlen : Small length) (hbs : Small bs)
    (hpos : 0 < bs)
    (hsrc : s.src ≠ .target ∨ s.srcStart + length ≤ offset ∨ offset + length ≤ s.srcStart)
    (hs : s.srcStart + length ≤ (fs.read s.src).length) (hsz : length = s.size)
    (hd : offset + length ≤ fs.target.length) :
    ∃ fs' c cl, s.writeInto ovl fs offset length bs = .ok fs' c cl false ∧
      readUpTo fs'.target offset length = readUpTo (fs.read s.src) s.srcStart length ∧
      c + cl = length := by
  rw [FSeg.writeInto_eq_N ovl s fs hst hoff hlen hbs hpos]
  have h0 : ¬ (u length ≠ u s.size) := by rw [hsz]; exact fun h => h rfl
  rw [if_neg h0]
  split
  · obtain ⟨e1, e2, e3⟩ := copyInto_exact ovl fs s.src s.srcStart length offset hsrc hs hd
    refine ⟨(copyInto ovl fs s.src s.srcStart length offset).1,
      (copyInto ovl fs s.src s.srcStart length offset).2.1, 0, ?_, e1, ?_⟩
    · rw [e3]
    · omega
  · rename_i hc
    have hal : s.srcStart % bs = offset % bs := by
      by_cases hne : s.srcStart % bs = offset % bs
      · exact hne
      · exact absurd (Or.inr hne) hc
    exact fsWriteCloneN_exact ovl fs s.src hpos hal hsrc hs hd

/-- a segment of a seed file: the write succeeds and the destination holds the seed's bytes -/
theorem FSeg.writeInto_exact_seed (ovl : Bytes → Nat → Nat → Nat → Bytes) (s : FSeg) (fs : FS)
    {offset length bs k : Nat}
    (hst : Small s.srcStart) (hoff : Small offset) (hlen : Small length) (hbs : Small bs)
    (hpos : 0 < bs) (hk : s.src = .seed k)
    (hs : s.srcStart + length ≤ (fs.read s.src).length) (hsz : length = s.size)
    (hd : offset + length ≤ fs.target.length) :
    ∃ fs' c cl, s.writeInto ovl fs offset length bs = .ok fs' c cl false ∧
      readUpTo fs'.target offset length = readUpTo (fs.read s.src) s.srcStart length ∧
      c + cl = length :=
  FSeg.writeInto_exact ovl s fs hst hoff hlen hbs hpos (Or.inl (by rw [hk]; exact Src.noConfusion))
    hs hsz hd

/-- the self seed: source and destination are disjoint ranges of the target; the write succeeds,
    is not fuzzy, and the destination holds the old source bytes -/
theorem FSeg.writeInto_exact_self (ovl : Bytes → Nat → Nat → Nat → Bytes) (s : FSeg) (fs : FS)
    {offset length bs : Nat}
    (hst : Small s.srcStart) (hoff : Small offset) (hlen : Small length) (hbs : Small bs)
    (hpos : 0 < bs) (hk : s.src = .target)
    (hdis : s.srcStart + length ≤ offset ∨ offset + length ≤ s.srcStart)
    (hs : s.srcStart + length ≤ fs.target.length) (hsz : length = s.size)
    (hd : offset + length ≤ fs.target.length) :
    ∃ fs' c cl, s.writeInto ovl fs offset length bs = .ok fs' c cl false ∧
      readUpTo fs'.target offset length = readUpTo fs.target s.srcStart length ∧
      c + cl = length := by
  have := FSeg.writeInto_exact ovl s fs hst hoff hlen hbs hpos (Or.inr hdis)
    (by rw [hk]; exact hs) hsz hd
  rw [hk] at this
  exact this

/-- with the copy after a refused clone, the size check is the only thing left that can make
    `fileSeedSegment.WriteInto` fail in the model -/
theorem FSeg.writeInto_never_errs_after_size_check (ovl : Bytes → Nat → Nat → Nat → Bytes) (s : FSeg)
    (fs : FS) {offset length bs : Nat}
    (hst : Small s.srcStart) (hoff : Small offset) (hlen : Small length) (hbs : Small bs)
    (hpos : 0 < bs) (hsz : u length = u s.size) :
    s.writeInto ovl fs offset length bs ≠ .err := by
  rw [FSeg.writeInto_eq_N ovl s fs hst hoff hlen hbs hpos, if_neg (fun h => h hsz)]
  split
  · exact WRes.noConfusion
  · exact fsWriteCloneN_ne_err ovl fs s.src s.srcStart length offset bs

/-- and conversely it does fail when the size check does -/
theorem FSeg.writeInto_err_iff_wrong_size (ovl : Bytes → Nat → Nat → Nat → Bytes) (s : FSeg)
    (fs : FS) {offset length bs : Nat}
    (hst : Small s.srcStart) (hoff : Small offset) (hlen : Small length) (hbs : Small bs)
    (hpos : 0 < bs) :
    s.writeInto ovl fs offset length bs = .err ↔ u length ≠ u s.size := by
  constructor
  · intro h hsz
    exact FSeg.writeInto_never_errs_after_size_check ovl s fs hst hoff hlen hbs hpos hsz h
  · intro h
    rw [FSeg.writeInto_eq_N ovl s fs hst hoff hlen hbs hpos, if_pos h]

/-! ## nullChunkSection.WriteInto -/

/-- the block loop of `nullChunkSection.clone` over `Nat` -/
def nullLoopN (bs dae : Nat) : Nat → Nat → Bytes → Nat → Option (Bytes × Nat)
  | 0, _, t, cl => some (t, cl)
  | fuel + 1, blk, t, cl =>
    if blk < dae then
      match cloneRange t (zeros bs) false 0 bs blk bs with
      | none => none
      | some t' => nullLoopN bs dae fuel (blk + bs) t' (cl + bs)
    else some (t, cl)

/-- the loop counter does not wrap (unfolds `Gen.nullClone_loop*`, `Gen.nullClone_cloneRange`) -/
theorem nullCloneLoop_eq_N (bs : Nat) (off len das dae : UInt64) (hbs : Small bs) :
    ∀ (fuel : Nat) (blk : UInt64) (t : Bytes) (cl : Nat), blk.toNat + fuel * bs < 2^64 →
      nullCloneLoop bs off len das dae fuel blk t cl = nullLoopN bs dae.toNat fuel blk.toNat t cl := by
  intro fuel
  induction fuel with
  | zero => intro blk t cl _; rfl
  | succ n ih =>
    intro blk t cl hb
    have hstep : (blk + u bs).toNat = blk.toNat + bs := by
      rw [UInt64.toNat_add, ac_u_small hbs]
      apply Nat.mod_eq_of_lt
      rw [Nat.succ_mul] at hb
      omega
    rw [nullCloneLoop, nullLoopN]
    simp only [Gen.nullClone_loopCond, Gen.nullClone_cloneRange, Gen.nullClone_loopStep,
      decide_eq_true_eq, UInt64.lt_iff_toNat_lt, UInt64.toNat_zero, ac_u_small hbs]
    split
    · cases cloneRange t (zeros bs) false 0 bs blk.toNat bs with
      | none => rfl
      | some t' =>
        simp only []
        rw [ih (blk + u bs) t' (cl + bs) (by rw [hstep]; rw [Nat.succ_mul] at hb; omega), hstep]
    · rfl

/-- `nullWriteInto` with the arithmetic over `Nat` -/
def nullWriteIntoN (fs : FS) (sfrom sto : Nat) (canReflink : Bool) (offset length bs : Nat)
    (isBlank : Bool) : WRes :=
  if length ≠ sto - sfrom then .err
  else if !canReflink then
    if isBlank then .ok fs 0 0 false
    else .ok (zeroFill fs offset (sto - sfrom)) (sto - sfrom) 0 false
  else
    let das := (offset / bs + 1) * bs
    let dae := (offset + length) / bs * bs
    if dae ≤ das then .ok (zeroFill fs offset length) length 0 false
    else
      let fs1 := zeroFill fs offset (das - offset)
      let fs2 := zeroFill fs1 dae (offset + length - dae)
      match nullLoopN bs dae (length / bs + 1) das fs2.target 0 with
      | none => .err
      | some (t, cl) =>
        .ok { fs2 with target := t } ((das - offset) + (offset + length - dae)) cl false

/-- below 2^62 nothing in `nullChunkSection.clone` wraps (unfolds `Gen.nullClone_*`) -/
theorem nullWriteInto_eq_N (fs : FS) (sfrom sto : Nat) (canReflink : Bool) {offset length bs : Nat}
    (isBlank : Bool) (hoff : Small offset) (hlen : Small length) (hbs : Small bs) (hpos : 0 < bs) :
    nullWriteInto fs sfrom sto canReflink offset length bs isBlank =
      nullWriteIntoN fs sfrom sto canReflink offset length bs isBlank := by
  have e1 := ac_alignUp_toNat hoff hbs hpos
  have e2 := ac_alignDown_toNat hoff hlen hbs
  have n1 := ac_alignUp_eq offset bs hpos
  have n2 := ac_alignDown_eq (offset + length) bs
  have n3 := ac_alignUp_eq length bs hpos
  have m1 := Nat.mod_lt offset hpos
  have m2 := Nat.mod_lt (offset + length) hpos
  have m3 := Nat.mod_lt length hpos
  have hoff' := ac_u_small hoff
  have hlen' := ac_u_small hlen
  have hbs' := hbs
  unfold Small at hoff hlen hbs'
  unfold nullWriteInto nullWriteIntoN
  by_cases h1 : length ≠ sto - sfrom
  · rw [if_pos h1, if_pos h1]
  · rw [if_neg h1, if_neg h1]
    cases canReflink with
    | false => rfl
    | true =>
      simp only [Bool.not_true, Bool.false_eq_true, if_false, Gen.nullClone_dstAlignStart,
        Gen.nullClone_dstAlignEnd, Gen.nullClone_guard, Gen.nullClone_fallbackCopy,
        Gen.nullClone_headCopy, Gen.nullClone_tailCopy, Gen.nullClone_loopInit,
        decide_eq_true_eq, UInt64.le_iff_toNat_le, e1, e2]
      by_cases hg : (offset + length) / bs * bs ≤ (offset / bs + 1) * bs
      · simp only [hg, if_true, hoff', hlen']
      · have hle2 : u offset ≤ ((u offset / u bs) + 1) * u bs := by
          rw [UInt64.le_iff_toNat_le, e1, hoff']; omega
        have hsl : (u offset + u length).toNat = offset + length := by
          rw [UInt64.toNat_add, hoff', hlen']; exact Nat.mod_eq_of_lt (by omega)
        have hle3 : ((u offset + u length) / u bs) * u bs ≤ u offset + u length := by
          rw [UInt64.le_iff_toNat_le, e2, hsl]; omega
        have hloop := nullCloneLoop_eq_N bs (u offset) (u length) (((u offset / u bs) + 1) * u bs)
          (((u offset + u length) / u bs) * u bs) hbs (length / bs + 1)
          (((u offset / u bs) + 1) * u bs)
        simp only [e1, e2] at hloop
        simp only [hg, if_false, hoff', e1, e2, UInt64.toNat_sub_of_le _ _ hle2,
          UInt64.toNat_sub_of_le _ _ hle3, hsl]
        rw [hloop _ _ (by omega)]
        rfl

theorem zeroFill_seeds (fs : FS) (off len : Nat) : (zeroFill fs off len).seeds = fs.seeds := rfl

theorem zeroFill_agree (fs : FS) (off len : Nat) (h : off + len ≤ fs.target.length) :
    AgreeOutside fs.target (zeroFill fs off len).target off (off + len) := by
  unfold zeroFill
  apply af_writeAt_agree
  · exact Nat.le_refl _
  · simp
  · simpa using h

theorem zeroFill_zero (fs : FS) (off len i : Nat) (h1 : off ≤ i) (h2 : i < off + len) :
    (zeroFill fs off len).target[i]? = some 0 := by
  unfold zeroFill
  have e : i = off + (i - off) := by omega
  rw [e, af_writeAt_getElem?_inside _ _ _ _ (by simp; omega), af_zeros_getElem?]
  have : i - off < len := by omega
  simp [this]

theorem ac_readUpTo_zeros_of (f : Bytes) (off n : Nat) (h : ∀ i, i < n → f[off + i]? = some 0) :
    readUpTo f off n = zeros n := by
  have := af_readUpTo_eq_of_getElem? f off (zeros n) (by
    intro i hi
    rw [af_zeros_length] at hi
    rw [h i hi, af_zeros_getElem?]
    simp [hi])
  rw [af_zeros_length] at this
  exact this

/-- the block loop, given enough fuel, zeroes exactly [blk, dae) -/
theorem nullLoopN_spec {bs dae : Nat} (hpos : 0 < bs) (hdae : dae % bs = 0) :
    ∀ (fuel blk : Nat) (t : Bytes) (cl : Nat), blk % bs = 0 → blk ≤ dae → dae ≤ t.length →
      dae ≤ blk + fuel * bs →
      ∃ t', nullLoopN bs dae fuel blk t cl = some (t', cl + (dae - blk)) ∧
        AgreeOutside t t' blk dae ∧ ∀ i, blk ≤ i → i < dae → t'[i]? = some 0 := by
  intro fuel
  induction fuel with
  | zero =>
    intro blk t cl _ h1 _ h3
    refine ⟨t, ?_, af_agree_refl _ _ _, ?_⟩
    · rw [nullLoopN]
      have : dae - blk = 0 := by omega
      rw [this]; rfl
    · intro i hi1 hi2; omega
  | succ n ih =>
    intro blk t cl hb h1 h2 h3
    rw [nullLoopN]
    by_cases hlt : blk < dae
    · rw [if_pos hlt]
      have hstep := ac_mult_step hb hdae hlt
      have C := cloneRange_ok t (zeros bs) false (so := 0) (len := bs) (dO := blk) (bs := bs)
        (Nat.zero_mod _) hb (by omega) (Nat.mod_self _) (by simp) (by intro h; exact absurd h (by simp))
      have ez : readUpTo (zeros bs) 0 bs = zeros bs := by
        have := af_readUpTo_self (zeros bs)
        rw [af_zeros_length] at this
        exact this
      rw [ez] at C
      rw [C]
      simp only []
      have hl1 : (writeAt t blk (zeros bs)).length = t.length :=
        af_writeAt_length_inside _ _ _ (by rw [af_zeros_length]; omega)
      rw [Nat.succ_mul] at h3
      obtain ⟨t', e, ag, z⟩ := ih (blk + bs) (writeAt t blk (zeros bs)) (cl + bs)
        (by rw [Nat.add_mod_right]; exact hb) hstep (by omega) (by omega)
      refine ⟨t', ?_, ?_, ?_⟩
      · rw [e]
        have : cl + bs + (dae - (blk + bs)) = cl + (dae - blk) := by omega
        rw [this]
      · refine af_agree_trans (af_writeAt_agree t blk (zeros bs) blk dae (Nat.le_refl _)
          (by rw [af_zeros_length]; omega) (by rw [af_zeros_length]; omega)) ?_
        exact af_agree_mono ag (by omega) (Nat.le_refl _)
      · intro i hi1 hi2
        by_cases hi3 : i < blk + bs
        · rw [ag.2 i (Or.inl hi3)]
          have e' : i = blk + (i - blk) := by omega
          rw [e', af_writeAt_getElem?_inside _ _ _ _ (by rw [af_zeros_length]; omega),
            af_zeros_getElem?]
          have : i - blk < bs := by omega
          simp [this]
        · exact z i (by omega) hi2
    · rw [if_neg hlt]
      have : dae - blk = 0 := by omega
      rw [this]
      refine ⟨t, rfl, af_agree_refl _ _ _, ?_⟩
      intro i hi1 hi2; omega

/-- `nullChunkSection.WriteInto` over `Nat`: it succeeds, is confined to the destination range,
    and either skips the write (blank target, no reflink) or leaves zeros there -/
theorem nullWriteIntoN_spec (fs : FS) (sfrom sto : Nat) (canReflink : Bool) {offset length bs : Nat}
    (isBlank : Bool) (hpos : 0 < bs) (hlen : length = sto - sfrom)
    (hd : offset + length ≤ fs.target.length) :
    ∃ fs' c cl, nullWriteIntoN fs sfrom sto canReflink offset length bs isBlank = .ok fs' c cl false ∧
      fs'.seeds = fs.seeds ∧ AgreeOutside fs.target fs'.target offset (offset + length) ∧
      ((canReflink = false ∧ isBlank = true ∧ fs' = fs) ∨
        readUpTo fs'.target offset length = zeros length) := by
  have n1 := ac_alignUp_eq offset bs hpos
  have n2 := ac_alignDown_eq (offset + length) bs
  have n3 := ac_alignUp_eq length bs hpos
  have m1 := Nat.mod_lt offset hpos
  have m2 := Nat.mod_lt (offset + length) hpos
  have m3 := Nat.mod_lt length hpos
  have d1 := ac_alignUp_mod offset bs
  have d2 := ac_alignDown_mod (offset + length) bs
  unfold nullWriteIntoN
  rw [if_neg (by intro h; exact h hlen)]
  cases canReflink with
  | false =>
    cases isBlank with
    | true =>
      refine ⟨fs, 0, 0, rfl, rfl, af_agree_refl _ _ _, Or.inl ⟨rfl, rfl, rfl⟩⟩
    | false =>
      rw [← hlen]
      refine ⟨zeroFill fs offset length, length, 0, rfl, rfl, zeroFill_agree fs offset length hd,
        Or.inr ?_⟩
      apply ac_readUpTo_zeros_of
      intro i hi
      exact zeroFill_zero fs offset length (offset + i) (by omega) (by omega)
  | true =>
    simp only [Bool.not_true, Bool.false_eq_true, if_false]
    generalize (offset / bs + 1) * bs = das at n1 d1 ⊢
    generalize (offset + length) / bs * bs = dae at n2 d2 ⊢
    split
    · refine ⟨zeroFill fs offset length, length, 0, rfl, rfl, zeroFill_agree fs offset length hd,
        Or.inr ?_⟩
      apply ac_readUpTo_zeros_of
      intro i hi
      exact zeroFill_zero fs offset length (offset + i) (by omega) (by omega)
    · rename_i hg
      have A1 := zeroFill_agree fs offset (das - offset) (by omega)
      have Z1 := zeroFill_zero fs offset (das - offset)
      generalize hfs1 : zeroFill fs offset (das - offset) = fs1 at A1 Z1 ⊢
      have S1 : fs1.seeds = fs.seeds := by rw [← hfs1]; rfl
      have L1 := A1.1
      have A2 := zeroFill_agree fs1 dae (offset + length - dae) (by omega)
      have Z2 := zeroFill_zero fs1 dae (offset + length - dae)
      generalize hfs2 : zeroFill fs1 dae (offset + length - dae) = fs2 at A2 Z2 ⊢
      have S2 : fs2.seeds = fs1.seeds := by rw [← hfs2]; rfl
      have L2 := A2.1
      obtain ⟨t', e, ag, z⟩ := nullLoopN_spec hpos d2 (length / bs + 1) das fs2.target 0 d1
        (by omega) (by omega) (by omega)
      rw [e]
      refine ⟨{ fs2 with target := t' }, _, _, rfl, S2.trans S1, ?_, Or.inr ?_⟩
      · refine af_agree_trans (af_agree_mono A1 (Nat.le_refl _) (by omega)) ?_
        refine af_agree_trans (af_agree_mono A2 (by omega) (by omega)) ?_
        exact af_agree_mono ag (by omega) (by omega)
      · apply ac_readUpTo_zeros_of
        intro i hi
        show t'[offset + i]? = some 0
        by_cases c1 : offset + i < das
        · rw [ag.2 _ (Or.inl c1), A2.2 _ (Or.inl (by omega))]
          exact Z1 _ (by omega) (by omega)
        · by_cases c2 : offset + i < dae
          · exact z _ (by omega) c2
          · rw [ag.2 _ (Or.inr (by omega))]
            exact Z2 _ (by omega) (by omega)

/-- `nullChunkSection.WriteInto` touches nothing but the destination range of the target -/
theorem nullWriteInto_confined {fs fs' : FS} {sfrom sto : Nat} {canReflink : Bool}
    {offset length bs : Nat} {isBlank : Bool} {c cl : Nat} {fz : Bool}
    (hoff : Small offset) (hlen : Small length) (hbs : Small bs) (hpos : 0 < bs)
    (hd : offset + length ≤ fs.target.length)
    (h : nullWriteInto fs sfrom sto canReflink offset length bs isBlank = .ok fs' c cl fz) :
    fs'.seeds = fs.seeds ∧ AgreeOutside fs.target fs'.target offset (offset + length) := by
  by_cases hl : length = sto - sfrom
  · rw [nullWriteInto_eq_N fs sfrom sto canReflink isBlank hoff hlen hbs hpos] at h
    obtain ⟨fs'', c', cl', e, hs, ha, _⟩ :=
      nullWriteIntoN_spec fs sfrom sto canReflink isBlank hpos hl hd
    rw [e] at h
    injection h with h1 h2 h3 h4
    subst h1
    exact ⟨hs, ha⟩
  · unfold nullWriteInto at h
    rw [if_pos hl] at h
    exact WRes.noConfusion h

/-- `nullChunkSection.WriteInto` with the right length never fails; unless it skips the write
    (blank target, no reflink) the destination range then holds zeros -/
theorem nullWriteInto_exact (fs : FS) (sfrom sto : Nat) (canReflink : Bool) {offset length bs : Nat}
    (isBlank : Bool) (hoff : Small offset) (hlen : Small length) (hbs : Small bs) (hpos : 0 < bs)
    (hl : length = sto - sfrom) (hd : offset + length ≤ fs.target.length) :
    ∃ fs' c cl, nullWriteInto fs sfrom sto canReflink offset length bs isBlank = .ok fs' c cl false ∧
      ((canReflink = false ∧ isBlank = true ∧ fs' = fs) ∨
        readUpTo fs'.target offset length = zeros length) := by
  rw [nullWriteInto_eq_N fs sfrom sto canReflink isBlank hoff hlen hbs hpos]
  obtain ⟨fs', c, cl, e, _, _, hz⟩ := nullWriteIntoN_spec fs sfrom sto canReflink isBlank hpos hl hd
  exact ⟨fs', c, cl, e, hz⟩

/-- `fileSeedSegment.clone` succeeds and is exact when the source range is readable and is not a
    range of the target overlapping the destination -/
theorem fsClone_exact (ovl : Bytes → Nat → Nat → Nat → Bytes) (fs : FS) (src : Src)
    {so len dO bs : Nat}
    (hso : Small so) (hlen : Small len) (hdO : Small dO) (hbs : Small bs) (hpos : 0 < bs)
    (hal : so % bs = dO % bs)
    (hsrc : src ≠ .target ∨ so + len ≤ dO ∨ dO + len ≤ so)
    (hs : so + len ≤ (fs.read src).length) (hd : dO + len ≤ fs.target.length) :
    ∃ fs' c cl, fsClone ovl fs src so len dO bs = .ok fs' c cl false ∧
      readUpTo fs'.target dO len = readUpTo (fs.read src) so len ∧ c + cl = len := by
  rw [fsClone_eq_N ovl fs src hso hlen hdO hbs hpos]
  exact fsCloneN_exact ovl fs src hpos hal hsrc hs hd

/-! ## the hypotheses are satisfiable and the clone paths are taken -/

/-- block size 4; bytes 1..10 of a seed go to 5..14 of a 16 byte target: 3 bytes are copied up to
    the block boundary, one block is cloned, 3 bytes are copied behind it -/
example :
    fsClone (fun _ _ _ _ => []) ⟨zeros 16, [[10, 11, 12, 13, 14, 15, 16, 17, 18, 19, 20, 21, 22, 23, 24, 25]]⟩
        (.seed 0) 1 10 5 4 =
      .ok ⟨[0, 0, 0, 0, 0, 11, 12, 13, 14, 15, 16, 17, 18, 19, 20, 0],
          [[10, 11, 12, 13, 14, 15, 16, 17, 18, 19, 20, 21, 22, 23, 24, 25]]⟩ 6 4 false := by
  rfl

/-- block size 4; a null section of 10 bytes at 5 in a 16 byte target of ones: the block 8..11 is
    cloned from the zero block, the rest is written -/
example :
    nullWriteInto ⟨List.replicate 16 1, []⟩ 100 110 true 5 10 4 false =
      .ok ⟨[1, 1, 1, 1, 1, 0, 0, 0, 0, 0, 0, 0, 0, 0, 0, 1], []⟩ 6 4 false := by
  rfl

/-- the hypotheses of `fsClone_confined` hold of the first instance -/
example :
    AgreeOutside (zeros 16) [0, 0, 0, 0, 0, 11, 12, 13, 14, 15, 16, 17, 18, 19, 20, 0] 5 (5 + 10) :=
  (fsClone_confined (ovl := fun _ _ _ _ => [])
    (fs := ⟨zeros 16, [[10, 11, 12, 13, 14, 15, 16, 17, 18, 19, 20, 21, 22, 23, 24, 25]]⟩)
    (src := .seed 0) (so := 1) (len := 10) (dO := 5) (bs := 4)
    (by unfold Small; omega) (by unfold Small; omega) (by unfold Small; omega)
    (by unfold Small; omega) (by omega) rfl (by decide) rfl).2

/-- FICLONERANGE with length 0 clones up to the end of the source: the destination "range"
    [0, 0) is not respected (`cloneRange_confined` needs `len ≠ 0`; the guards
    `srcAlignEnd <= srcAlignStart` / `dstAlignEnd <= dstAlignStart` keep the Go code away from it) -/
example : cloneRange (zeros 8) [1, 2, 3, 4, 5, 6, 7, 8] false 4 0 0 4 = some [5, 6, 7, 8, 0, 0, 0, 0] := by
  decide

end Desync.Asm
