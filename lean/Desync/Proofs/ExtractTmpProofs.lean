import Desync.Model.ExtractTmp

namespace Desync.ExtractTmp

theorem find_filter_ne (d : List (Name × Content)) (n m : Name) (h : m ≠ n) :
    (d.filter (fun x => decide (x.1 ≠ n))).find? (fun x => decide (x.1 = m)) = d.find? (fun x => decide (x.1 = m)) := by
  induction d with
  | nil => rfl
  | cons x xs ih =>
    by_cases hx : x.1 = n
    · have hm : ¬ (x.1 = m) := fun e => h (e ▸ hx)
      rw [List.filter_cons_of_neg (by simpa using hx), List.find?_cons_of_neg (by simpa using hm)]
      exact ih
    · rw [List.filter_cons_of_pos (by simpa using hx)]
      by_cases hm : x.1 = m
      · rw [List.find?_cons_of_pos (by simpa using hm), List.find?_cons_of_pos (by simpa using hm)]
      · rw [List.find?_cons_of_neg (by simpa using hm), List.find?_cons_of_neg (by simpa using hm)]
        exact ih

theorem lookup_filter_ne (d : List (Name × Content)) (n m : Name) (h : m ≠ n) :
    lookup (d.filter (·.1 ≠ n)) m = lookup d m := by
  unfold lookup
  rw [find_filter_ne d n m h]

theorem lookup_filter_ne' (d : List (Name × Content)) (n m : Name) (h : m ≠ n) :
    lookup (d.filter (fun x => !decide (x.1 = n))) m = lookup d m := by
  have := lookup_filter_ne d n m h
  simpa using this

theorem lookup_setDir_ne (d : List (Name × Content)) (n m : Name) (c : Content) (h : m ≠ n) :
    lookup (setDir d n c) m = lookup d m := by
  unfold setDir
  have h1 : ¬ (n = m) := fun e => h e.symm
  have : lookup ((n, c) :: d.filter (·.1 ≠ n)) m = lookup (d.filter (·.1 ≠ n)) m := by
    unfold lookup
    rw [List.find?_cons_of_neg (by simpa using h1)]
  rw [this, lookup_filter_ne d n m h]

theorem lookup_setDir_eq (d : List (Name × Content)) (n : Name) (c : Content) :
    lookup (setDir d n c) n = some c := by
  simp [lookup, setDir]

/-- the destination keeps its previous state until the rename, and after the rename it holds the
    complete output -/
def Inv (cf : Cfg) (s0 s : St) : Prop :=
  match s.pc with
  | .start | .assembling | .assembled false | .finished false => lookup s.dir cf.dest = lookup s0.dir cf.dest
  | .assembled true => lookup s.dir cf.dest = lookup s0.dir cf.dest ∧ lookup s.dir cf.tmp = some cf.output
  | .renamed | .finished true => lookup s.dir cf.dest = some cf.output

theorem inv_step (cf : Cfg) (hne : cf.dest ≠ cf.tmp) (s0 s s' : St) (e : Ev)
    (hi : Inv cf s0 s) (hs : step cf s e = some s') : Inv cf s0 s' := by
  cases e <;> simp only [step] at hs
  · -- create
    split at hs <;> simp at hs
    subst hs; rename_i hp
    simp only [Inv, hp] at hi ⊢
    rw [lookup_setDir_ne _ _ _ _ hne]; exact hi
  · -- write
    split at hs <;> simp at hs
    subst hs; rename_i hp
    simp only [Inv, hp] at hi ⊢
    rw [lookup_setDir_ne _ _ _ _ hne]; exact hi
  · -- assembleOk
    split at hs <;> simp at hs
    subst hs; rename_i hp
    simp only [Inv, hp] at hi ⊢
    exact ⟨by rw [lookup_setDir_ne _ _ _ _ hne]; exact hi, lookup_setDir_eq _ _ _⟩
  · -- assembleErr
    split at hs <;> simp at hs
    subst hs; rename_i hp
    simp only [Inv, hp] at hi ⊢
    exact hi
  · -- rename
    split at hs
    · rename_i hp
      split at hs <;> simp at hs
      subst hs; rename_i c hc
      simp only [Inv, hp] at hi ⊢
      rw [lookup_setDir_eq]
      rw [hi.2] at hc; simp at hc; rw [hc]
    · simp at hs
  · -- remove
    split at hs <;> simp at hs
    · subst hs; rename_i hp
      simp only [Inv, hp] at hi ⊢
      rw [lookup_filter_ne' _ _ _ hne]; exact hi
    · subst hs; rename_i hp
      simp only [Inv, hp] at hi ⊢
      rw [lookup_filter_ne' _ _ _ hne]; exact hi

theorem reach_inv (cf : Cfg) (hne : cf.dest ≠ cf.tmp) (s0 s : St) (h0 : s0.pc = .start)
    (h : Reachable cf s0 s) : Inv cf s0 s := by
  induction h with
  | refl => simp [Inv, h0]
  | step e _ hs ih => exact inv_step cf hne s0 _ _ e ih hs

/-- **Process death at any instant of an extract without --in-place**: in every reachable state
    (= every crash point) the destination path holds either exactly what it held before, or the
    complete assembled output. -/
theorem extract_tmp_atomic (cf : Cfg) (hne : cf.dest ≠ cf.tmp) (s0 s : St) (h0 : s0.pc = .start)
    (h : Reachable cf s0 s) :
    lookup s.dir cf.dest = lookup s0.dir cf.dest ∨ lookup s.dir cf.dest = some cf.output := by
  have hinv : Inv cf s0 s := reach_inv cf hne s0 s h0 h
  unfold Inv at hinv
  split at hinv
  · exact Or.inl hinv
  · exact Or.inl hinv
  · exact Or.inl hinv
  · exact Or.inl hinv
  · exact Or.inl hinv.1
  · exact Or.inr hinv
  · exact Or.inr hinv

/-- the destination changes only on the success path -/
theorem dest_changed_only_after_success (cf : Cfg) (hne : cf.dest ≠ cf.tmp) (s0 s : St) (h0 : s0.pc = .start)
    (h : Reachable cf s0 s) (hc : lookup s.dir cf.dest ≠ lookup s0.dir cf.dest) :
    s.pc = .renamed ∨ s.pc = .finished true := by
  have hinv : Inv cf s0 s := reach_inv cf hne s0 s h0 h
  unfold Inv at hinv
  split at hinv <;> first | (exact absurd hinv hc) | (exact absurd hinv.1 hc) | simp_all

/-- non-vacuity: a run to completion and a crashed run -/
example : ∃ s, Reachable ⟨[1], [2], [7, 7]⟩ ⟨[([1], [0])], .start⟩ s ∧ s.pc = .finished true ∧
    lookup s.dir [1] = some [7, 7] := by
  refine ⟨_, .step .remove (.step .rename (.step .assembleOk (.step (.write [5]) (.step .create .refl rfl) rfl) rfl) rfl) rfl, ?_, ?_⟩ <;> decide

end Desync.ExtractTmp
