/-
  Basic facts about the byte-list files of `Desync.Model.Assemble`: `writeAt`, `readUpTo`,
  `readFull`, `truncate`, and the relation `AgreeOutside` ("nothing outside [lo, hi) changed").
  All lemma names carry the prefix `af_`.
-/
import Desync.Model.Assemble

namespace Desync.Asm

/-- `b` equals `a` outside the byte range [lo, hi), and has the same length -/
def AgreeOutside (a b : Bytes) (lo hi : Nat) : Prop :=
  b.length = a.length ∧ ∀ i, (i < lo ∨ hi ≤ i) → b[i]? = a[i]?

/-- all the sizes involved fit comfortably in uint64 (true of any real file) -/
def Small (n : Nat) : Prop := n < 2^62

/-! ## zeros -/

@[simp] theorem af_zeros_length (n : Nat) : (zeros n).length = n := by simp [zeros]

theorem af_zeros_getElem? (n i : Nat) : (zeros n)[i]? = if i < n then some 0 else none := by
  simp [zeros, List.getElem?_replicate]

theorem af_zeros_eq_nil_iff (n : Nat) : zeros n = [] ↔ n = 0 := by
  simp [zeros, List.replicate_eq_nil_iff]

/-! ## writeAt -/

theorem af_writeAt_nil (f : Bytes) (off : Nat) : writeAt f off [] = f := by
  simp [writeAt]

/-- every byte of the file after a `pwrite` of a non-empty buffer -/
theorem af_writeAt_getElem? (f : Bytes) (off : Nat) (b : Bytes) (hb : b ≠ []) (i : Nat) :
    (writeAt f off b)[i]? =
      if i < off then (if i < f.length then f[i]? else some 0)
      else if i < off + b.length then b[i - off]? else f[i]? := by
  have hb' : b.isEmpty = false := by cases b <;> simp_all
  simp only [writeAt, hb', Bool.false_eq_true, if_false]
  simp only [List.getElem?_append, List.getElem?_take, List.getElem?_drop, List.length_append,
    List.length_take, List.length_replicate, zeros, List.getElem?_replicate]
  have hb'' : 0 < b.length := List.length_pos_iff.mpr hb
  split <;> split <;> (try split) <;> (try split) <;> (try split) <;>
    first | rfl | omega | (congr 1; omega)

theorem af_writeAt_length (f : Bytes) (off : Nat) (b : Bytes) (hb : b ≠ []) :
    (writeAt f off b).length = max f.length (off + b.length) := by
  have hb' : b.isEmpty = false := by cases b <;> simp_all
  simp only [writeAt, hb', Bool.false_eq_true, if_false]
  simp only [List.length_append, List.length_take, List.length_drop, zeros, List.length_replicate]
  omega

theorem af_writeAt_length_nil (f : Bytes) (off : Nat) : (writeAt f off []).length = f.length := by
  rw [af_writeAt_nil]

/-- a write inside the file keeps its length -/
theorem af_writeAt_length_inside (f : Bytes) (off : Nat) (b : Bytes) (h : off + b.length ≤ f.length) :
    (writeAt f off b).length = f.length := by
  by_cases hb : b = []
  · subst hb; rw [af_writeAt_nil]
  · rw [af_writeAt_length f off b hb]; omega

/-- a write never shortens the file -/
theorem af_writeAt_length_ge (f : Bytes) (off : Nat) (b : Bytes) : f.length ≤ (writeAt f off b).length := by
  by_cases hb : b = []
  · subst hb; rw [af_writeAt_nil]; exact Nat.le_refl _
  · rw [af_writeAt_length f off b hb]; omega

/-- bytes of the old file outside the written range are unchanged -/
theorem af_writeAt_getElem?_outside (f : Bytes) (off : Nat) (b : Bytes) (i : Nat)
    (hi : i < off ∨ off + b.length ≤ i) (hf : i < f.length) :
    (writeAt f off b)[i]? = f[i]? := by
  by_cases hb : b = []
  · subst hb; rw [af_writeAt_nil]
  · rw [af_writeAt_getElem? f off b hb]
    split
    · simp [hf]
    · split
      · omega
      · rfl

/-- behind the written range nothing changes, whether or not the position is inside the file -/
theorem af_writeAt_getElem?_after (f : Bytes) (off : Nat) (b : Bytes) (i : Nat)
    (hi : off + b.length ≤ i) : (writeAt f off b)[i]? = f[i]? := by
  by_cases hb : b = []
  · subst hb; rw [af_writeAt_nil]
  · rw [af_writeAt_getElem? f off b hb]
    split
    · omega
    · split
      · omega
      · rfl

/-- the written range holds the written bytes -/
theorem af_writeAt_getElem?_inside (f : Bytes) (off : Nat) (b : Bytes) (i : Nat) (hi : i < b.length) :
    (writeAt f off b)[off + i]? = b[i]? := by
  have hb : b ≠ [] := by intro h; subst h; simp at hi
  rw [af_writeAt_getElem? f off b hb]
  split
  · omega
  · split
    · congr 1; omega
    · omega

/-! ## readUpTo -/

theorem af_readUpTo_getElem? (f : Bytes) (off n i : Nat) :
    (readUpTo f off n)[i]? = if i < n then f[off + i]? else none := by
  simp only [readUpTo, List.getElem?_take, List.getElem?_drop]

theorem af_readUpTo_length (f : Bytes) (off n : Nat) :
    (readUpTo f off n).length = min n (f.length - off) := by
  simp [readUpTo, List.length_take, List.length_drop]

theorem af_readUpTo_length_le (f : Bytes) (off n : Nat) : (readUpTo f off n).length ≤ n := by
  rw [af_readUpTo_length]; omega

theorem af_readUpTo_length_of_le (f : Bytes) (off n : Nat) (h : off + n ≤ f.length) :
    (readUpTo f off n).length = n := by
  rw [af_readUpTo_length]; omega

theorem af_readUpTo_zero (f : Bytes) (off : Nat) : readUpTo f off 0 = [] := by
  simp [readUpTo]

/-- two reads are equal if they agree position by position -/
theorem af_readUpTo_ext (a b : Bytes) (oa ob n : Nat)
    (h : ∀ i, i < n → a[oa + i]? = b[ob + i]?) : readUpTo a oa n = readUpTo b ob n := by
  apply List.ext_getElem?
  intro i
  rw [af_readUpTo_getElem?, af_readUpTo_getElem?]
  split
  · exact h i ‹_›
  · rfl

/-- and conversely -/
theorem af_readUpTo_eq_getElem? (a b : Bytes) (oa ob n : Nat)
    (h : readUpTo a oa n = readUpTo b ob n) (i : Nat) (hi : i < n) : a[oa + i]? = b[ob + i]? := by
  have := congrArg (·[i]?) h
  simp only [af_readUpTo_getElem?, hi, if_true] at this
  exact this

/-- a read of a whole list -/
theorem af_readUpTo_self (b : Bytes) : readUpTo b 0 b.length = b := by
  simp [readUpTo]

/-- a read equals a given buffer if it agrees with it position by position -/
theorem af_readUpTo_eq_of_getElem? (f : Bytes) (off : Nat) (b : Bytes)
    (h : ∀ i, i < b.length → f[off + i]? = b[i]?) : readUpTo f off b.length = b := by
  have := af_readUpTo_ext f b off 0 b.length (by intro i hi; rw [h i hi]; simp)
  rw [this, af_readUpTo_self]

theorem af_readUpTo_split (f : Bytes) (off a b : Nat) :
    readUpTo f off (a + b) = readUpTo f off a ++ readUpTo f (off + a) b := by
  apply List.ext_getElem?
  intro i
  simp only [List.getElem?_append, af_readUpTo_getElem?, af_readUpTo_length]
  by_cases h1 : i < a
  · by_cases h2 : i < f.length - off
    · have : i < min a (f.length - off) := by omega
      simp [h1, this]; omega
    · have h3 : ¬ i < min a (f.length - off) := by omega
      have h4 : f.length ≤ off + i := by omega
      have h5 : f.length ≤ off + a + (i - min a (f.length - off)) := by omega
      simp only [h3, if_false, List.getElem?_eq_none h4, List.getElem?_eq_none h5]
      split <;> split <;> rfl
  · have h3 : ¬ i < min a (f.length - off) := by omega
    simp only [h3, if_false]
    by_cases h2 : a ≤ f.length - off
    · have : min a (f.length - off) = a := by omega
      rw [this]
      have e : off + a + (i - a) = off + i := by omega
      rw [e]
      by_cases h4 : i < a + b
      · have : i - a < b := by omega
        simp [h4, this]
      · have : ¬ i - a < b := by omega
        simp [h4, this]
    · have h4 : f.length ≤ off + i := by omega
      have h5 : f.length ≤ off + a + (i - min a (f.length - off)) := by omega
      simp only [List.getElem?_eq_none h4, List.getElem?_eq_none h5]
      split <;> split <;> rfl

/-- reading back what was just written -/
theorem af_readUpTo_writeAt_same (f : Bytes) (off : Nat) (b : Bytes) :
    readUpTo (writeAt f off b) off b.length = b := by
  apply af_readUpTo_eq_of_getElem?
  intro i hi
  exact af_writeAt_getElem?_inside f off b i hi

/-- a read of a range inside the old file that is disjoint from the written range -/
theorem af_readUpTo_writeAt_disjoint (f : Bytes) (off : Nat) (b : Bytes) (o n : Nat)
    (hd : o + n ≤ off ∨ off + b.length ≤ o) (hf : o + n ≤ f.length) :
    readUpTo (writeAt f off b) o n = readUpTo f o n := by
  apply af_readUpTo_ext
  intro i hi
  apply af_writeAt_getElem?_outside
  · omega
  · omega

/-! ## readFull -/

theorem af_readFull_some_iff (f : Bytes) (off n : Nat) (b : Bytes) :
    readFull f off n = some b ↔ (n = 0 ∨ off + n ≤ f.length) ∧ b = readUpTo f off n := by
  unfold readFull
  split
  · simp_all [eq_comm]
  · rename_i h
    simp only [reduceCtorEq, false_iff]
    intro h'
    exact h h'.1

theorem af_readFull_isSome_iff (f : Bytes) (off n : Nat) :
    (readFull f off n).isSome ↔ (n = 0 ∨ off + n ≤ f.length) := by
  unfold readFull
  split <;> simp_all

theorem af_readFull_eq_none_iff (f : Bytes) (off n : Nat) :
    readFull f off n = none ↔ (n ≠ 0 ∧ f.length < off + n) := by
  unfold readFull
  split
  · simp only [reduceCtorEq, false_iff]; omega
  · simp only [true_iff]; omega

theorem af_readFull_length (f : Bytes) (off n : Nat) (b : Bytes) (h : readFull f off n = some b) :
    b.length = n := by
  rw [af_readFull_some_iff] at h
  obtain ⟨h1, rfl⟩ := h
  rw [af_readUpTo_length]
  omega

/-! ## truncate -/

theorem af_truncate_length (f : Bytes) (n : Nat) : (truncate f n).length = n := by
  simp only [truncate, List.length_take, List.length_append, zeros, List.length_replicate]
  omega

theorem af_truncate_getElem? (f : Bytes) (n i : Nat) :
    (truncate f n)[i]? = if i < n then (if i < f.length then f[i]? else some 0) else none := by
  simp only [truncate, List.getElem?_take, List.getElem?_append, zeros, List.getElem?_replicate]
  split
  · split
    · rfl
    · have : i - f.length < n - f.length := by omega
      simp [this]
  · rfl

theorem af_truncate_self (f : Bytes) : truncate f f.length = f := by
  simp [truncate, zeros]

/-! ## AgreeOutside -/

theorem af_agree_refl (a : Bytes) (lo hi : Nat) : AgreeOutside a a lo hi :=
  ⟨rfl, fun _ _ => rfl⟩

theorem af_agree_trans {a b c : Bytes} {lo hi : Nat}
    (h1 : AgreeOutside a b lo hi) (h2 : AgreeOutside b c lo hi) : AgreeOutside a c lo hi :=
  ⟨h2.1.trans h1.1, fun i hi' => (h2.2 i hi').trans (h1.2 i hi')⟩

/-- monotone in the range -/
theorem af_agree_mono {a b : Bytes} {lo hi lo' hi' : Nat}
    (h : AgreeOutside a b lo hi) (hlo : lo' ≤ lo) (hhi : hi ≤ hi') : AgreeOutside a b lo' hi' :=
  ⟨h.1, fun i hi'' => h.2 i (by omega)⟩

/-- an empty range: the files are equal -/
theorem af_agree_empty {a b : Bytes} {lo hi : Nat} (h : AgreeOutside a b lo hi) (he : hi ≤ lo) : b = a := by
  apply List.ext_getElem?
  intro i
  exact h.2 i (by omega)

theorem af_agree_length {a b : Bytes} {lo hi : Nat} (h : AgreeOutside a b lo hi) : b.length = a.length := h.1

/-- a write inside the file changes nothing outside any range containing the written range -/
theorem af_writeAt_agree (f : Bytes) (off : Nat) (b : Bytes) (lo hi : Nat)
    (hlo : lo ≤ off) (hhi : off + b.length ≤ hi) (hf : off + b.length ≤ f.length) :
    AgreeOutside f (writeAt f off b) lo hi := by
  refine ⟨af_writeAt_length_inside f off b hf, ?_⟩
  intro i hi'
  by_cases hb : b = []
  · subst hb; rw [af_writeAt_nil]
  · rcases hi' with h | h
    · exact af_writeAt_getElem?_outside f off b i (Or.inl (by omega)) (by omega)
    · exact af_writeAt_getElem?_after f off b i (by omega)

/-- a write of no bytes changes nothing, wherever it is -/
theorem af_writeAt_agree_nil (f : Bytes) (off lo hi : Nat) : AgreeOutside f (writeAt f off []) lo hi := by
  rw [af_writeAt_nil]; exact af_agree_refl f lo hi

/-- a read of a range disjoint from the range that may have changed -/
theorem af_agree_readUpTo {a b : Bytes} {lo hi : Nat} (h : AgreeOutside a b lo hi) (o n : Nat)
    (hd : o + n ≤ lo ∨ hi ≤ o) : readUpTo b o n = readUpTo a o n := by
  apply af_readUpTo_ext
  intro i hi'
  exact h.2 (o + i) (by omega)

theorem af_agree_readFull {a b : Bytes} {lo hi : Nat} (h : AgreeOutside a b lo hi) (o n : Nat)
    (hd : o + n ≤ lo ∨ hi ≤ o) : readFull b o n = readFull a o n := by
  unfold readFull
  rw [af_agree_readUpTo h o n hd, h.1]

end Desync.Asm
