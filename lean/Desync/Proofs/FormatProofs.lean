/-
  Properties of `decBody`/`decNext` proved with the decoder kit: extension and no-panic.
-/
import Desync.Proofs.DecoderKit

namespace Desync

theorem readStr_ext (sz : UInt64) (n : Nat) (s : St) (q : Bytes) :
    RExt q (readStr sz n s) (readStr sz n (s.app q)) := by
  unfold readStr
  apply RExt.ite
  · exact RExt.err _ _
  · apply RExt.bind (RExt.readN _ _)
    intro b s1
    dsimp only
    apply RExt.ite
    · intro x s' h; cases h
    · exact RExt.pure _ _

theorem readGoodbyeItems_ext (n : Nat) (s : St) (acc : List GoodbyeItem) (q : Bytes) :
    RExt q (readGoodbyeItems n s acc) (readGoodbyeItems n (s.app q) acc) := by
  induction n generalizing s acc with
  | zero => unfold readGoodbyeItems; exact RExt.pure' _ _
  | succ n ih =>
    unfold readGoodbyeItems
    apply RExt.bind (RExt.readU64 _); intro o s1; dsimp only
    apply RExt.bind (RExt.readU64 _); intro z s2; dsimp only
    apply RExt.bind (RExt.readU64 _); intro h s3; dsimp only
    exact ih _ _

theorem readTableItems_ext (f f' : Nat) (hf : f ≤ f') (s : St) (acc : List TableItem) (q : Bytes) :
    RExt q (readTableItems f s acc) (readTableItems f' (s.app q) acc) := by
  induction f generalizing f' s acc with
  | zero => unfold readTableItems; exact RExt.err _ _
  | succ f ih =>
    obtain ⟨g, rfl⟩ : ∃ g, f' = g + 1 := ⟨f' - 1, by omega⟩
    unfold readTableItems
    apply RExt.bind (RExt.readU64 _); intro off s1; dsimp only
    apply RExt.ite
    · exact RExt.pure _ _
    · apply RExt.bind (RExt.readN _ _); intro id s2; dsimp only
      exact ih g (by omega) _ _

theorem decBody_ext (sz typ : UInt64) (s : St) (q : Bytes) :
    RExt q (decBody sz typ s) (decBody sz typ (s.app q)) := by
  unfold decBody
  repeat' (first
    | exact RExt.err _ _
    | exact RExt.pure _ _
    | exact RExt.pure' _ _
    | apply RExt.ite
    | (apply RExt.bind (RExt.readU64 _); intro _ _; dsimp only)
    | (apply RExt.bind (RExt.readN _ _); intro _ _; dsimp only)
    | (apply RExt.bind (readStr_ext _ _ _ _); intro _ _; dsimp only)
    | (apply RExt.bind (readGoodbyeItems_ext _ _ _ _); intro _ _; dsimp only)
    | (apply RExt.bind (readTableItems_ext _ _ (by simp) _ _ _); intro _ _; dsimp only))
  split
  · exact RExt.err _ _
  · apply RExt.ite
    · exact RExt.err _ _
    · exact RExt.pure _ _

theorem decNext_ext (s : St) (q : Bytes) (e : Elem) (s' : St)
    (h : decNext s = .ok (some e, s')) : decNext (s.app q) = .ok (some e, s'.app q) := by
  unfold decNext at h ⊢
  cases h1 : readU64 s with
  | err e1 => rw [h1] at h; cases e1 <;> simp at h
  | panic p => rw [h1] at h; simp at h
  | ok a =>
    obtain ⟨sz, s1⟩ := a
    rw [h1] at h
    rw [readU64_app q h1]
    simp only at h ⊢
    cases h2 : readU64 s1 with
    | err e1 => rw [h2] at h; cases e1 <;> simp at h
    | panic p => rw [h2] at h; simp at h
    | ok a =>
      obtain ⟨typ, s2⟩ := a
      rw [h2] at h
      rw [readU64_app q h2]
      simp only at h ⊢
      cases h3 : decBody sz typ s2 with
      | err e1 => rw [h3] at h; simp at h
      | panic p => rw [h3] at h; simp at h
      | ok a =>
        obtain ⟨e', s3⟩ := a
        rw [h3] at h
        rw [decBody_ext sz typ s2 q e' s3 h3]
        simp only [Res.ok_bind, Res.pure_eq] at h ⊢
        injection h with h
        injection h with he hs
        injection he with he
        subst he; subst hs; rfl

/-! ## no panic -/

theorem readStr_nopanic (sz : UInt64) (n : Nat) (s : St) : NoPanic (readStr sz n s) := by
  unfold readStr
  apply NoPanic.ite
  · intro _; exact NoPanic.err _
  · intro hsz
    apply NoPanic.bind (NoPanic.readN _ _)
    intro ⟨b, s1⟩ hb
    dsimp only
    obtain ⟨_, hl, _⟩ := readN_ok hb
    apply NoPanic.ite
    · intro h0; omega
    · intro _; exact NoPanic.pure _

theorem readGoodbyeItems_nopanic (n : Nat) (s : St) (acc : List GoodbyeItem) :
    NoPanic (readGoodbyeItems n s acc) := by
  induction n generalizing s acc with
  | zero => unfold readGoodbyeItems; exact NoPanic.ok _
  | succ n ih =>
    unfold readGoodbyeItems
    apply NoPanic.bind (NoPanic.readU64 _); intro ⟨o, s1⟩ _; dsimp only
    apply NoPanic.bind (NoPanic.readU64 _); intro ⟨z, s2⟩ _; dsimp only
    apply NoPanic.bind (NoPanic.readU64 _); intro ⟨h, s3⟩ _; dsimp only
    exact ih _ _

theorem readTableItems_nopanic (f : Nat) (s : St) (acc : List TableItem) :
    NoPanic (readTableItems f s acc) := by
  induction f generalizing s acc with
  | zero => unfold readTableItems; exact NoPanic.err _
  | succ f ih =>
    unfold readTableItems
    apply NoPanic.bind (NoPanic.readU64 _); intro ⟨off, s1⟩ _; dsimp only
    apply NoPanic.ite
    · intro _; exact NoPanic.pure _
    · intro _
      apply NoPanic.bind (NoPanic.readN _ _); intro ⟨id, s2⟩ _; dsimp only
      exact ih _ _

theorem decBody_nopanic (sz typ : UInt64) (s : St) : NoPanic (decBody sz typ s) := by
  unfold decBody
  repeat' (first
    | exact NoPanic.err _
    | exact NoPanic.pure _
    | exact NoPanic.ok _
    | (apply NoPanic.ite <;> intro _)
    | (apply NoPanic.bind (NoPanic.readU64 _); intro ⟨_, _⟩ _; dsimp only)
    | (apply NoPanic.bind (NoPanic.readN _ _); intro ⟨_, _⟩ _; dsimp only)
    | (apply NoPanic.bind (readStr_nopanic _ _ _); intro ⟨_, _⟩ _; dsimp only)
    | (apply NoPanic.bind (readGoodbyeItems_nopanic _ _ _); intro ⟨_, _⟩ _; dsimp only)
    | (apply NoPanic.bind (readTableItems_nopanic _ _ _); intro ⟨_, _⟩ _; dsimp only))
  split
  · exact NoPanic.err _
  · apply NoPanic.ite <;> intro _
    · exact NoPanic.err _
    · exact NoPanic.pure _

theorem decNext_nopanic (s : St) : NoPanic (decNext s) := by
  unfold decNext
  cases h1 : readU64 s with
  | err e1 => cases e1 <;> first | exact NoPanic.ok _ | exact NoPanic.err _
  | panic p => exact absurd h1 (readU64_not_panic s p)
  | ok a =>
    obtain ⟨sz, s1⟩ := a
    simp only
    cases h2 : readU64 s1 with
    | err e1 => cases e1 <;> first | exact NoPanic.ok _ | exact NoPanic.err _
    | panic p => exact absurd h2 (readU64_not_panic s1 p)
    | ok a =>
      obtain ⟨typ, s2⟩ := a
      simp only
      apply NoPanic.bind (decBody_nopanic _ _ _)
      intro ⟨e, s3⟩ _
      exact NoPanic.pure _
