/-
  (1) The goodbye table written by `makeGoodbyeBST` is a complete binary search tree (heap layout)
  over the children sorted by (hash, offset).
-/
import Desync.Proofs.GoodbyeProofs

namespace Desync

/-! ### the order -/

theorem goodbyeLt_iff (a b : GoodbyeItem) :
    goodbyeLt a b = true ↔
      a.hash.toNat < b.hash.toNat ∨ (a.hash.toNat = b.hash.toNat ∧ a.offset.toNat < b.offset.toNat) := by
  unfold goodbyeLt
  simp only [Bool.or_eq_true, Bool.and_eq_true, decide_eq_true_eq, beq_iff_eq,
    UInt64.lt_iff_toNat_lt, ← UInt64.toNat_inj]

theorem goodbyeLt_false_iff (a b : GoodbyeItem) :
    goodbyeLt a b = false ↔
      ¬ (a.hash.toNat < b.hash.toNat ∨ (a.hash.toNat = b.hash.toNat ∧ a.offset.toNat < b.offset.toNat)) := by
  rw [← goodbyeLt_iff]; simp

theorem goodbyeLt_asymm {a b : GoodbyeItem} (h : goodbyeLt a b = true) : goodbyeLt b a = false := by
  rw [goodbyeLt_iff] at h
  rw [goodbyeLt_false_iff]
  omega

/-- `≤` (= "not greater") is transitive -/
theorem goodbyeLe_trans {a b c : GoodbyeItem} (h1 : goodbyeLt b a = false)
    (h2 : goodbyeLt c b = false) : goodbyeLt c a = false := by
  rw [goodbyeLt_false_iff] at *
  omega

/-! ### insertion sort -/

theorem insertSorted_perm (x : GoodbyeItem) (l : List GoodbyeItem) :
    (insertSorted x l).Perm (x :: l) := by
  induction l with
  | nil => exact List.Perm.refl _
  | cons y ys ih =>
    unfold insertSorted
    split
    · exact ((List.Perm.cons y ih).trans (List.Perm.swap x y ys))
    · exact List.Perm.refl _

theorem sortGoodbye_nil : sortGoodbye [] = [] := rfl

theorem sortGoodbye_cons (x : GoodbyeItem) (l : List GoodbyeItem) :
    sortGoodbye (x :: l) = insertSorted x (sortGoodbye l) := rfl

theorem sortGoodbye_perm (l : List GoodbyeItem) : (sortGoodbye l).Perm l := by
  induction l with
  | nil => exact List.Perm.refl _
  | cons x xs ih =>
    rw [sortGoodbye_cons]
    exact (insertSorted_perm x _).trans (List.Perm.cons x ih)

theorem sortGoodbye_length (l : List GoodbyeItem) : (sortGoodbye l).length = l.length :=
  (sortGoodbye_perm l).length_eq

theorem insertSorted_sorted (x : GoodbyeItem) (l : List GoodbyeItem)
    (h : l.Pairwise (fun a b => goodbyeLt b a = false)) :
    (insertSorted x l).Pairwise (fun a b => goodbyeLt b a = false) := by
  induction l with
  | nil => simp [insertSorted]
  | cons y ys ih =>
    rw [List.pairwise_cons] at h
    unfold insertSorted
    split
    · rename_i hyx
      rw [List.pairwise_cons]
      refine ⟨?_, ih h.2⟩
      intro b hb
      rcases List.mem_cons.mp ((insertSorted_perm x ys).mem_iff.mp hb) with rfl | hb'
      · exact goodbyeLt_asymm hyx
      · exact h.1 b hb'
    · rename_i hyx
      have hyx' : goodbyeLt y x = false := by simpa using hyx
      rw [List.pairwise_cons]
      refine ⟨?_, List.pairwise_cons.mpr h⟩
      intro b hb
      rcases List.mem_cons.mp hb with rfl | hb'
      · exact hyx'
      · exact goodbyeLe_trans hyx' (h.1 b hb')

theorem sortGoodbye_sorted (l : List GoodbyeItem) :
    (sortGoodbye l).Pairwise (fun a b => goodbyeLt b a = false) := by
  induction l with
  | nil => exact List.Pairwise.nil
  | cons x xs ih =>
    rw [sortGoodbye_cons]
    exact insertSorted_sorted x _ ih

/-! ### the values assigned by `bstAssign` are the input -/

theorem bstAssign_values_perm {α : Type} :
    ∀ (N : Nat) (inp : List α) (i e : Nat) (as : List (Nat × α)), inp.length = N →
      bstAssign inp i e = some as → (as.map Prod.snd).Perm inp := by
  intro N
  induction N using Nat.strongRecOn with
  | _ N ih =>
    intro inp i e as hlen h
    by_cases h0 : inp.length = 0
    · rw [bstAssign_nil inp i e h0] at h
      cases h
      rw [List.eq_nil_of_length_eq_zero h0]
      exact List.Perm.refl _
    · cases hk : bstK inp.length e with
      | none =>
        rw [bstAssign, dif_neg h0] at h
        split at h
        · cases h
        · rename_i k hk'; rw [hk] at hk'; cases hk'
      | some k =>
        by_cases hlt : k < inp.length
        · rw [bstAssign_step inp i e k h0 hk hlt] at h
          cases hl : bstAssign (inp.take k) (2 * i + 1) (e - 1) with
          | none => rw [hl] at h; cases h
          | some l =>
            cases hr : bstAssign (inp.drop (k + 1)) (2 * i + 2) (e - 1) with
            | none => rw [hl, hr] at h; cases h
            | some r =>
              rw [hl, hr] at h
              simp only [Option.bind_some] at h
              cases h
              have hL := ih k (by omega) (inp.take k) _ _ l (by rw [List.length_take]; omega) hl
              have hR := ih (N - k - 1) (by omega) (inp.drop (k + 1)) _ _ r
                (by rw [List.length_drop]; omega) hr
              simp only [List.map_cons, List.map_append]
              have hsplit : inp = inp.take k ++ inp[k] :: inp.drop (k + 1) := by
                rw [← List.drop_eq_getElem_cons hlt, List.take_append_drop]
              refine List.Perm.trans ?_ (List.Perm.of_eq hsplit.symm)
              refine List.Perm.trans ?_ List.perm_middle.symm
              exact List.Perm.cons _ (List.Perm.append hL hR)
        · rw [bstAssign, dif_neg h0] at h
          split at h
          · cases h
          · rename_i k' hk'
            have : k' = k := by rw [hk] at hk'; cases hk'; rfl
            subst this
            rw [dif_neg hlt] at h
            cases h

/-! ### the output array -/

theorem placeAll_size {α : Type} [Inhabited α] (n : Nat) (as : List (Nat × α)) :
    (placeAll n as).size = n := by
  unfold placeAll
  rw [foldl_set_size, Array.size_replicate]

theorem placeAll_toList_length {α : Type} [Inhabited α] (n : Nat) (as : List (Nat × α)) :
    (placeAll n as).toList.length = n := by
  rw [Array.length_toList, placeAll_size]

theorem toList_getElem! {α : Type} [Inhabited α] (arr : Array α) (j : Nat) :
    arr.toList[j]! = arr[j]! := by
  rw [getElem!_def, getElem!_def, Array.getElem?_toList]

theorem list_eq_range_map {α : Type} [Inhabited α] (l : List α) :
    l = (List.range l.length).map (fun j => l[j]!) := by
  apply List.ext_getElem
  · simp
  · intro i h1 h2
    simp only [List.getElem_map, List.getElem_range]
    rw [getElem!_def, List.getElem?_eq_getElem h1]

/-- when the indices written are exactly `0..n-1`, the array holds exactly the values written -/
theorem placeAll_toList_perm {α : Type} [Inhabited α] (n : Nat) (as : List (Nat × α))
    (hperm : (as.map Prod.fst).Perm (List.range n)) :
    (placeAll n as).toList.Perm (as.map Prod.snd) := by
  have hnd : (as.map Prod.fst).Nodup := hperm.nodup_iff.mpr List.nodup_range
  have hlt : ∀ p ∈ as, p.1 < n := by
    intro p hp
    exact List.mem_range.mp (hperm.mem_iff.mp (List.mem_map_of_mem hp))
  have hget := placeAll_get n as hnd hlt
  have h1 := list_eq_range_map (placeAll n as).toList
  rw [placeAll_toList_length] at h1
  rw [h1]
  refine (hperm.symm.map _).trans (List.Perm.of_eq ?_)
  rw [List.map_map]
  apply List.map_congr_left
  intro p hp
  simp only [Function.comp]
  rw [toList_getElem!]
  exact hget p hp

/-! ### the results -/

theorem makeGoodbyeBST_eq (items bst : List GoodbyeItem) (h : makeGoodbyeBST items = some bst) :
    ∃ as, bstAssign (sortGoodbye items) 0 (bstLevel (sortGoodbye items).length) = some as ∧
      bst = (placeAll (sortGoodbye items).length as).toList := by
  unfold makeGoodbyeBST at h
  cases has : bstAssign (sortGoodbye items) 0 (bstLevel (sortGoodbye items).length) with
  | none => simp [has] at h
  | some as =>
    refine ⟨as, rfl, ?_⟩
    simp [has] at h
    exact h.symm

theorem makeGoodbyeBST_isSome (items : List GoodbyeItem) : (makeGoodbyeBST items).isSome := by
  have h := bstAssign_isSome (sortGoodbye items)
  unfold makeGoodbyeBST
  cases has : bstAssign (sortGoodbye items) 0 (bstLevel (sortGoodbye items).length) with
  | none => rw [has] at h; cases h
  | some as => simp [has]

theorem makeGoodbyeBST_perm (items bst : List GoodbyeItem) (h : makeGoodbyeBST items = some bst) :
    bst.Perm items := by
  obtain ⟨as, has, rfl⟩ := makeGoodbyeBST_eq items bst h
  have hidx := bstAssign_indices_perm (sortGoodbye items) as has
  have hval := bstAssign_values_perm _ (sortGoodbye items) 0 _ as rfl has
  exact ((placeAll_toList_perm _ as hidx).trans hval).trans (sortGoodbye_perm items)

theorem makeGoodbyeBST_length (items bst : List GoodbyeItem) (h : makeGoodbyeBST items = some bst) :
    bst.length = items.length :=
  (makeGoodbyeBST_perm items bst h).length_eq

/-- in-order traversal of the heap array is the sorted list: the table is a BST for (hash, offset) -/
theorem makeGoodbyeBST_inorder (items bst : List GoodbyeItem) (h : makeGoodbyeBST items = some bst) :
    heapInorder (fun j => bst[j]!) bst.length 0 = sortGoodbye items := by
  obtain ⟨as, has, rfl⟩ := makeGoodbyeBST_eq items bst h
  have := bstAssign_inorder (sortGoodbye items) as has
  rw [placeAll_toList_length]
  simpa only [toList_getElem!] using this

end Desync
