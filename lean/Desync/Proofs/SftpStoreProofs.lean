/-
  Proofs about `SFTPStore.Prune` (`Model/SftpStore.lean`): the temp-file rule
  `<chunk file name><decimal digits>` never hits a canonical chunk name of either format,
  recognises what an interrupted `StoreObject` leaves behind, and the walk has the same
  safety / completeness properties as the local store's `Prune` (C16, D14).
-/
import Desync.Model.SftpStore
import Desync.Proofs.LocalStoreProofs

namespace Desync

/-! ### the temp-file rule -/

theorem extOf_true : extOf true = [] := rfl

theorem extOf_false : extOf false = [46, 99, 97, 99, 110, 107] := rfl

theorem hexEncode_length32 (id : Bytes) (h : id.length = 32) : (hexEncode id).length = 64 := by
  rw [hexEncode_length, h]

/-- a name of exactly 64 characters plus the extension is not a temp name -/
theorem isSftpTempName_short (name ext : Bytes) (h : name.length ≤ 64 + ext.length) :
    isSftpTempName name ext = false := by
  simp [isSftpTempName, h]

/-- the canonical name of a chunk of the store's own format is never taken for a temp file -/
theorem sftp_temp_not_chunk (unc : Bool) (id : Bytes) (h : id.length = 32) :
    isSftpTempName (nameFromID unc id).2 (extOf unc) = false := by
  apply isSftpTempName_short
  simp [nameFromID, hexEncode_length32 id h]

/-- neither is the canonical name of a chunk of the other format -/
theorem sftp_temp_not_other_chunk (unc : Bool) (id : Bytes) (h : id.length = 32) :
    isSftpTempName (nameFromID (!unc) id).2 (extOf unc) = false := by
  have hl := hexEncode_length32 id h
  cases unc
  · -- compressed store, uncompressed name: 64 characters, too short
    apply isSftpTempName_short
    simp [nameFromID, extOf_true, hl]
  · -- uncompressed store, compressed name: ".cacnk" follows the hex digits, not digits
    have hd : (hexEncode id ++ extOf false).drop 64 = extOf false := by
      rw [← hl]; exact List.drop_left
    simp only [isSftpTempName, nameFromID, Bool.not_true, extOf_true, List.length_nil,
      Nat.add_zero, hd, List.take_zero]
    simp [extOf_false, isDigit]

theorem sftp_temp_not_chunk_both (unc : Bool) (id : Bytes) (h : id.length = 32) :
    isSftpTempName (nameFromID unc id).2 (extOf unc) = false ∧
    isSftpTempName (nameFromID (!unc) id).2 (extOf unc) = false :=
  ⟨sftp_temp_not_chunk unc id h, sftp_temp_not_other_chunk unc id h⟩

/-! ### classification -/

theorem sftp_classify_own (unc : Bool) (id : Bytes) (h : id.length = 32) :
    sftpClassify unc (nameFromID unc id).2 = .consider id := by
  have ht := sftp_temp_not_chunk unc id h
  simp only [sftpClassify, ht]
  simp only [nameFromID, hasSuffix_append, trimSuffix_append, chunkIDFromString_hexEncode id h]
  simp

/-- without the temp rule `sftpClassify` is `verifyClassify` -/
theorem sftpClassify_not_temp (unc : Bool) (name : Bytes)
    (h : isSftpTempName name (extOf unc) = false) :
    sftpClassify unc name = verifyClassify unc name := by
  simp only [sftpClassify, verifyClassify, h, Bool.false_eq_true, ↓reduceIte]
  split
  · rfl
  · cases chunkIDFromString (trimSuffix name (extOf unc)) <;> rfl

theorem sftp_classify_other_format (unc : Bool) (id : Bytes) (h : id.length = 32) :
    sftpClassify unc (nameFromID (!unc) id).2 = .skip := by
  rw [sftpClassify_not_temp unc _ (sftp_temp_not_other_chunk unc id h)]
  exact (classify_other_format unc id h).2

theorem sftpClassify_temp (unc : Bool) (name : Bytes) :
    sftpClassify unc name = .removeTemp ↔ isSftpTempName name (extOf unc) = true := by
  constructor
  · intro hcl
    unfold sftpClassify at hcl
    split at hcl
    · assumption
    · split at hcl
      · cases hcl
      · split at hcl <;> cases hcl
  · intro h
    simp [sftpClassify, h]

theorem sftpClassify_consider_length (unc : Bool) (name id : Bytes)
    (hcl : sftpClassify unc name = .consider id) : id.length = 32 := by
  unfold sftpClassify at hcl
  split at hcl
  · cases hcl
  · split at hcl
    · cases hcl
    · split at hcl
      · cases hcl
      · rename_i id' hid'
        injection hcl with hcl
        subst hcl
        exact (chunkIDFromString_some _ _ hid').2

/-- what `StoreObject` leaves behind when an upload is interrupted (the final name followed by
    `strconv.Itoa(rand.Int())`) is a temp name -/
theorem sftp_temp_name (unc : Bool) (id digits : Bytes) (h : id.length = 32) (hd : digits ≠ [])
    (hall : digits.all isDigit = true) :
    isSftpTempName ((nameFromID unc id).2 ++ digits) (extOf unc) = true := by
  have hl := hexEncode_length32 id h
  have hpos : 0 < digits.length := List.length_pos_iff.mpr hd
  have h1 : ¬ ((hexEncode id ++ extOf unc ++ digits).length ≤ 64 + (extOf unc).length) := by
    simp only [List.length_append, hl]; omega
  have h2 : (hexEncode id ++ extOf unc ++ digits).drop 64 = extOf unc ++ digits := by
    rw [List.append_assoc, ← hl]; exact List.drop_left
  have h3 : (hexEncode id ++ extOf unc ++ digits).drop (64 + (extOf unc).length) = digits := by
    have : 64 + (extOf unc).length = (hexEncode id ++ extOf unc).length := by
      simp [hl]
    rw [this]; exact List.drop_left
  have h4 : (hexEncode id ++ extOf unc ++ digits).take 64 = hexEncode id := by
    rw [List.append_assoc, ← hl]; exact List.take_left
  have h5 : (extOf unc ++ digits).take (extOf unc).length = extOf unc := List.take_left
  simp only [isSftpTempName, nameFromID, h1, h2, h3, h4, h5, hall,
    chunkIDFromString_hexEncode id h]
  simp

theorem sftp_temp_classified (unc : Bool) (id digits : Bytes) (h : id.length = 32)
    (hd : digits ≠ []) (hall : digits.all isDigit = true) :
    sftpClassify unc ((nameFromID unc id).2 ++ digits) = .removeTemp :=
  (sftpClassify_temp unc _).mpr (sftp_temp_name unc id digits h hd hall)

/-- a temp name is never the canonical name of a chunk of either format -/
theorem sftp_temp_never_chunk_name (unc : Bool) (id digits : Bytes) (h : id.length = 32)
    (hd : digits ≠ []) (hall : digits.all isDigit = true) (b : Bool) (id' : Bytes)
    (h' : id'.length = 32) :
    (nameFromID unc id).2 ++ digits ≠ (nameFromID b id').2 := by
  intro he
  have ht := sftp_temp_name unc id digits h hd hall
  rw [he] at ht
  by_cases hb : b = unc
  · subst hb
    rw [sftp_temp_not_chunk b id' h'] at ht; cases ht
  · have : b = !unc := by cases b <;> cases unc <;> simp_all
    subst this
    rw [sftp_temp_not_other_chunk unc id' h'] at ht; cases ht

/-! ### C16 for SFTP: prune -/

/-- what the walk removes, and that it only removes -/
theorem sftpPruneWalk_removed_only (unc : Bool) (keep : Bytes → Bool) (l : List (Bytes × Bytes))
    (d d' : StoreDir)
    (h : sftpPruneWalk unc keep l d = .ok d' ∨ sftpPruneWalk unc keep l d = .failed d') :
    (∀ f ∈ d', f ∈ d) ∧
    ∀ f ∈ d, f ∉ d' →
      sftpClassify unc f.2 = .removeTemp ∨
      ∃ id, id.length = 32 ∧ keep id = false ∧ f = nameFromID unc id := by
  induction l generalizing d with
  | nil =>
    simp only [sftpPruneWalk] at h
    have : d' = d := by
      rcases h with h | h
      · injection h with h; exact h.symm
      · cases h
    subst this
    exact ⟨fun f hf => hf, fun f hf hn => absurd hf hn⟩
  | cons x rest ih =>
    obtain ⟨dir, name⟩ := x
    simp only [sftpPruneWalk] at h
    split at h
    · exact ih d h
    · rename_i hcl
      obtain ⟨hsub, hrem⟩ := ih _ h
      refine ⟨fun f hf => (List.mem_filter.mp (hsub f hf)).1, ?_⟩
      intro f hf hn
      by_cases hfe : f = (dir, name)
      · left
        subst hfe
        exact hcl
      · exact hrem f (List.mem_filter.mpr ⟨hf, by simpa using hfe⟩) hn
    · rename_i id hcl
      split at h
      · exact ih d h
      · rename_i hk
        split at h
        · obtain ⟨hsub, hrem⟩ := ih _ h
          refine ⟨fun f hf => (List.mem_filter.mp (hsub f hf)).1, ?_⟩
          intro f hf hn
          by_cases hfe : f = nameFromID unc id
          · right
            exact ⟨id, sftpClassify_consider_length unc _ _ hcl, by simpa using hk, hfe⟩
          · exact hrem f (List.mem_filter.mpr ⟨hf, by simpa using hfe⟩) hn
        · have : d' = d := by
            rcases h with h | h
            · cases h
            · injection h with h; exact h.symm
          subst this
          exact ⟨fun f hf => hf, fun f hf hn => absurd hf hn⟩

/-- **SFTP Prune only removes temp files and own-format canonical files of unreferenced IDs**
    (whether it succeeds or aborts) -/
theorem sftpPrune_removed_only (unc : Bool) (keep : Bytes → Bool) (d d' : StoreDir)
    (h : sftpPrune unc keep d = .ok d' ∨ sftpPrune unc keep d = .failed d') :
    ∀ f ∈ d, f ∉ d' →
      sftpClassify unc f.2 = .removeTemp ∨
      ∃ id, id.length = 32 ∧ keep id = false ∧ f = nameFromID unc id ∧
        sftpClassify unc f.2 = .consider id := by
  intro f hf hn
  rcases (sftpPruneWalk_removed_only unc keep d d d' h).2 f hf hn with h1 | ⟨id, hl, hk, he⟩
  · exact .inl h1
  · exact .inr ⟨id, hl, hk, he, by rw [he]; exact sftp_classify_own unc id hl⟩

/-- and it never adds anything -/
theorem sftpPrune_subset (unc : Bool) (keep : Bytes → Bool) (d d' : StoreDir)
    (h : sftpPrune unc keep d = .ok d' ∨ sftpPrune unc keep d = .failed d') : ∀ f ∈ d', f ∈ d :=
  (sftpPruneWalk_removed_only unc keep d d d' h).1

theorem sftpPrune_keeps_referenced (unc : Bool) (keep : Bytes → Bool) (d d' : StoreDir)
    (id : Bytes) (hk : keep id = true) (hid : id.length = 32) (hin : nameFromID unc id ∈ d)
    (h : sftpPrune unc keep d = .ok d' ∨ sftpPrune unc keep d = .failed d') :
    nameFromID unc id ∈ d' := by
  apply Classical.byContradiction
  intro hn
  rcases sftpPrune_removed_only unc keep d d' h _ hin hn with h1 | ⟨id', _, hk', he, _⟩
  · rw [sftp_classify_own unc id hid] at h1; cases h1
  · have := nameFromID_injective unc _ _ he
    subst this
    rw [hk] at hk'; cases hk'

theorem sftpPrune_keeps_other_format (unc : Bool) (keep : Bytes → Bool) (d d' : StoreDir)
    (dir id : Bytes) (hid : id.length = 32) (hin : (dir, (nameFromID (!unc) id).2) ∈ d)
    (h : sftpPrune unc keep d = .ok d' ∨ sftpPrune unc keep d = .failed d') :
    (dir, (nameFromID (!unc) id).2) ∈ d' := by
  apply Classical.byContradiction
  intro hn
  rcases sftpPrune_removed_only unc keep d d' h _ hin hn with h1 | ⟨id', _, _, _, hc⟩
  · rw [sftp_classify_other_format unc id hid] at h1; cases h1
  · rw [sftp_classify_other_format unc id hid] at hc; cases hc

/-- files that are neither temp files nor recognised as chunks of the store's format survive -/
theorem sftpPrune_keeps_skipped (unc : Bool) (keep : Bytes → Bool) (d d' : StoreDir)
    (f : Bytes × Bytes) (hs : sftpClassify unc f.2 = .skip) (hin : f ∈ d)
    (h : sftpPrune unc keep d = .ok d' ∨ sftpPrune unc keep d = .failed d') : f ∈ d' := by
  apply Classical.byContradiction
  intro hn
  rcases sftpPrune_removed_only unc keep d d' h _ hin hn with h1 | ⟨id', _, _, _, hc⟩
  · rw [hs] at h1; cases h1
  · rw [hs] at hc; cases hc

theorem sftpPruneWalk_complete (unc : Bool) (keep : Bytes → Bool) (l : List (Bytes × Bytes))
    (d d' : StoreDir) (h : sftpPruneWalk unc keep l d = .ok d') :
    ∀ f ∈ l,
      (sftpClassify unc f.2 = .removeTemp → f ∉ d') ∧
      (∀ id, sftpClassify unc f.2 = .consider id → keep id = false → nameFromID unc id ∉ d') := by
  induction l generalizing d with
  | nil => intro f hf; cases hf
  | cons x rest ih =>
    obtain ⟨dir, name⟩ := x
    intro f hf
    simp only [sftpPruneWalk] at h
    rcases List.mem_cons.mp hf with rfl | hf
    · -- the head
      split at h
      · rename_i hcl
        simp only
        refine ⟨fun hp => ?_, fun id hc _ => ?_⟩
        · rw [hcl] at hp; cases hp
        · rw [hcl] at hc; cases hc
      · rename_i hcl
        simp only
        refine ⟨fun _ hin => ?_, fun id hc _ => ?_⟩
        · have := (sftpPruneWalk_removed_only unc keep rest _ d' (.inl h)).1 _ hin
          simp at this
        · rw [hcl] at hc; cases hc
      · rename_i id hcl
        simp only
        refine ⟨fun hp => ?_, fun id' hc hk hin => ?_⟩
        · rw [hcl] at hp; cases hp
        · rw [hcl] at hc
          injection hc with hc
          subst hc
          simp only [hk, Bool.false_eq_true, ↓reduceIte] at h
          split at h
          · have := (sftpPruneWalk_removed_only unc keep rest _ d' (.inl h)).1 _ hin
            simp at this
          · cases h
    · -- the tail
      split at h
      · exact ih d h f hf
      · exact ih _ h f hf
      · split at h
        · exact ih d h f hf
        · split at h
          · exact ih _ h f hf
          · cases h

/-- **SFTP Prune is complete when it reports success**: no temp file and no own-format canonical
    file of an unreferenced ID is left -/
theorem sftpPrune_complete_on_success (unc : Bool) (keep : Bytes → Bool) (d d' : StoreDir)
    (h : sftpPrune unc keep d = .ok d') :
    (∀ f ∈ d', sftpClassify unc f.2 ≠ .removeTemp) ∧
    (∀ id, id.length = 32 → keep id = false → nameFromID unc id ∈ d → nameFromID unc id ∉ d') := by
  have hc := sftpPruneWalk_complete unc keep d d d' h
  constructor
  · intro f hf hp
    have hfd := sftpPrune_subset unc keep d d' (.inl h) f hf
    exact (hc f hfd).1 hp hf
  · intro id hl hk hin
    exact (hc _ hin).2 id (sftp_classify_own unc id hl) hk

/-- the same in terms of the temp-name test (the shape of `prune_complete_on_success`) -/
theorem sftpPrune_no_temp_left (unc : Bool) (keep : Bytes → Bool) (d d' : StoreDir)
    (h : sftpPrune unc keep d = .ok d') : ∀ f ∈ d', isSftpTempName f.2 (extOf unc) = false := by
  intro f hf
  cases hp : isSftpTempName f.2 (extOf unc) with
  | false => rfl
  | true =>
    exact absurd ((sftpClassify_temp unc _).mpr hp)
      ((sftpPrune_complete_on_success unc keep d d' h).1 f hf)

/-! ### non-vacuity -/

section Example

/-- `PruneRes` derives no `DecidableEq` in the model; a local one for `decide` below -/
private instance pruneResDecEq : DecidableEq PruneRes
  | .ok a, .ok b =>
    if h : a = b then isTrue (by rw [h]) else isFalse (fun he => h (by injection he))
  | .failed a, .failed b =>
    if h : a = b then isTrue (by rw [h]) else isFalse (fun he => h (by injection he))
  | .ok _, .failed _ => isFalse (fun he => by cases he)
  | .failed _, .ok _ => isFalse (fun he => by cases he)

private def idA : Bytes := List.replicate 32 0xab      -- referenced
private def idB : Bytes := List.replicate 32 0x01      -- unreferenced
private def idC : Bytes := List.replicate 32 0x7f      -- stored in the other format

private def keepA (id : Bytes) : Bool := id == idA

/-- compressed store: referenced chunk, unreferenced chunk, uncompressed chunk of another
    store sharing the directory, leftover of an interrupted upload, junk -/
private def exDir : StoreDir :=
  [ nameFromID false idA,
    nameFromID false idB,
    nameFromID true idC,
    ((nameFromID false idB).1, (nameFromID false idB).2 ++ [52, 50]),   -- "<name>42"
    ([], [82, 69, 65, 68, 77, 69]) ]                                    -- "README"

example :
    sftpPrune false keepA exDir
      = .ok [ nameFromID false idA, nameFromID true idC, ([], [82, 69, 65, 68, 77, 69]) ] := by
  decide

/-- the same for an uncompressed store (temp name = 64 hex digits followed by digits) -/
example :
    sftpPrune true keepA
        [ nameFromID true idA, nameFromID true idB, nameFromID false idC,
          ((nameFromID true idB).1, (nameFromID true idB).2 ++ [55]),
          ([], [82, 69, 65, 68, 77, 69]) ]
      = .ok [ nameFromID true idA, nameFromID false idC, ([], [82, 69, 65, 68, 77, 69]) ] := by
  decide

end Example

end Desync
