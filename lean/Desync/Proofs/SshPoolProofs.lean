/-
  Invariants of the `RemoteSSH` pool machine (Model/SshPool.lean).
-/
import Desync.Proofs.SshPoolOwn
import Desync.Proofs.ProtoSessionProofs

namespace Desync.SshPool
open Desync

def own (ops : List Op) (s : State) : Own := ⟨s.n, ops.length, s.pool, s.retired, fun c => (s.pc c).sess?⟩

structure Inv (ops : List Op) (n : Nat) (s : State) : Prop where
  n_eq : s.n = n
  cap_eq : s.cap = n
  o : OInv (own ops s)
  idle : ∀ c, ops.length ≤ c → s.pc c = .idle

theorem Inv.init (ops : List Op) (n : Nat) : Inv ops n (init n) :=
  ⟨rfl, rfl, OInv.init n ops.length, fun _ _ => rfl⟩

theorem sess_upd (pc : Nat → Pc) (c : Nat) (v : Pc) :
    (fun c' => (upd pc c v c').sess?) = upd (fun c' => (pc c').sess?) c v.sess? := by
  funext c'
  by_cases h : c' = c
  · subst h; simp
  · simp [upd_other _ _ h]

theorem Inv.lt {ops : List Op} {n : Nat} {s : State} (h : Inv ops n s) {c : Nat} (hc : ∀ o, s.pc c = o → o ≠ .idle) :
    c < ops.length := by
  by_cases hlt : c < ops.length
  · exact hlt
  · exact absurd (h.idle c (by omega)) (hc _ rfl)

/-- a step that leaves the caller's session as it is -/
theorem Inv.same {ops : List Op} {n : Nat} {s : State} (h : Inv ops n s) (c : Nat) (v : Pc) (sess' : Nat → Sess)
    (hv : v.sess? = (s.pc c).sess?) (hi : v ≠ .idle ∨ s.pc c = .idle) (hc : c < ops.length) :
    Inv ops n { s with sess := sess', pc := upd s.pc c v } := by
  refine ⟨h.n_eq, h.cap_eq, ?_, ?_⟩
  · have := OInv.same h.o (fun c' => (upd s.pc c v c').sess?) (fun c' => by
      by_cases e : c' = c
      · subst e; simp [own, hv]
      · simp [own, upd_other _ _ e])
    exact this
  · intro c' hc'
    have e : c' ≠ c := by omega
    simp only [upd_other _ _ e]
    exact h.idle c' hc'

theorem step_inv {H : Bytes → Bytes} {dec : Bytes → Option Bytes} {ops : List Op} {n : Nat} {s s' : State} {e : Ev}
    (h : Inv ops n s) (hs : step H dec ops s e = some s') : Inv ops n s' := by
  cases e with
  | call c =>
    simp only [step] at hs
    split at hs
    · injection hs with hs; subst hs
      rename_i hpc hop
      have hc : c < ops.length := by
        by_cases hlt : c < ops.length
        · exact hlt
        · rw [List.getElem?_eq_none (by omega)] at hop; cases hop
      refine Inv.same h c _ s.sess ?_ (Or.inr hpc) hc
      rw [hpc]; split <;> rfl
    · injection hs with hs; subst hs
      rename_i hpc hop
      have hc : c < ops.length := by
        by_cases hlt : c < ops.length
        · exact hlt
        · rw [List.getElem?_eq_none (by omega)] at hop; cases hop
      exact Inv.same h c _ s.sess (by rw [hpc]; rfl) (Or.inr hpc) hc
    · cases hs
  | take c =>
    simp only [step] at hs
    split at hs
    · injection hs with hs; subst hs
      rename_i i p hpc hpool
      have hc : c < ops.length := h.lt (fun o ho => by rw [hpc] at ho; subst ho; simp)
      refine ⟨h.n_eq, h.cap_eq, ?_, ?_⟩
      · have := OInv.take h.o (c := c) (i := i) (p := p) hpool (by simp [own, hpc, Pc.sess?]) hc
        simp only [own, sess_upd]
        exact this
      · intro c' hc'
        have e : c' ≠ c := by omega
        simp only [upd_other _ _ e]
        exact h.idle c' hc'
    · injection hs with hs; subst hs
      rename_i k err i p hpc hpool
      have hc : c < ops.length := h.lt (fun o ho => by rw [hpc] at ho; subst ho; simp)
      refine ⟨h.n_eq, h.cap_eq, ?_, ?_⟩
      · have := OInv.take h.o (c := c) (i := i) (p := p) hpool (by simp [own, hpc, Pc.sess?]) hc
        simp only [own, sess_upd]
        exact this
      · intro c' hc'
        have e : c' ≠ c := by omega
        simp only [upd_other _ _ e]
        exact h.idle c' hc'
    · cases hs
  | send c =>
    simp only [step] at hs
    split at hs
    · rename_i i id hpc hid
      have hc : c < ops.length := h.lt (fun o ho => by rw [hpc] at ho; subst ho; simp)
      split at hs
      · injection hs with hs; subst hs
        exact Inv.same h c _ s.sess (by rw [hpc]; rfl) (Or.inl (by simp)) hc
      · injection hs with hs; subst hs
        exact Inv.same h c _ _ (by rw [hpc]; rfl) (Or.inl (by simp)) hc
    · cases hs
  | recv c =>
    simp only [step] at hs
    split at hs
    · rename_i i id hpc hid
      have hc : c < ops.length := h.lt (fun o ho => by rw [hpc] at ho; subst ho; simp)
      split at hs
      · injection hs with hs; subst hs
        exact Inv.same h c _ _ (by rw [hpc]; rfl) (Or.inl (by simp)) hc
      · cases hs
    · cases hs
  | put c =>
    simp only [step] at hs
    split at hs
    · rename_i i r op hpc hop
      have hc : c < ops.length := h.lt (fun o ho => by rw [hpc] at ho; subst ho; simp)
      split at hs
      · injection hs with hs; subst hs
        refine ⟨h.n_eq, h.cap_eq, ?_, ?_⟩
        · have := OInv.give h.o (c := c) (i := i) (by simp [own, hpc, Pc.sess?]) true
          simp only [own, sess_upd]
          exact this
        · intro c' hc'
          have e : c' ≠ c := by omega
          simp only [upd_other _ _ e]
          exact h.idle c' hc'
      · cases hs
    · cases hs
  | bye c =>
    simp only [step] at hs
    split at hs
    · rename_i k i hpc
      have hc : c < ops.length := h.lt (fun o ho => by rw [hpc] at ho; subst ho; simp)
      injection hs with hs; subst hs
      refine ⟨h.n_eq, h.cap_eq, ?_, ?_⟩
      · have := OInv.give h.o (c := c) (i := i) (by simp [own, hpc, Pc.sess?]) false
        simp only [own, sess_upd]
        have hv : (if k + 1 < s.n then Pc.cwant (k + 1) (s.sess i).eof else Pc.done (Out.closed (s.sess i).eof)).sess? = none := by
          split <;> rfl
        rw [hv]
        exact this
      · intro c' hc'
        have e : c' ≠ c := by omega
        simp only [upd_other _ _ e]
        exact h.idle c' hc'
    · cases hs
  | srvWrite i b =>
    simp only [step] at hs
    split at hs
    · cases hs
    · injection hs with hs; subst hs
      exact ⟨h.n_eq, h.cap_eq, h.o, h.idle⟩
  | srvExit i =>
    simp only [step] at hs
    split at hs
    · cases hs
    · injection hs with hs; subst hs
      exact ⟨h.n_eq, h.cap_eq, h.o, h.idle⟩

theorem reachable_inv {H : Bytes → Bytes} {dec : Bytes → Option Bytes} {ops : List Op} {n : Nat} {s : State}
    (h : Reachable H dec ops (init n) s) : Inv ops n s := by
  induction h with
  | init => exact Inv.init ops n
  | step _ hs ih => exact step_inv ih hs

end Desync.SshPool
