/-
  (C) Where the nodes handed out by `ArchiveDecoder.Next` sit: only the first node of an archive can
  be nameless (= carry the path of the directory the decoder is in); every later node is a proper
  child of the decoder's current directory.
-/
import Desync.Proofs.ArchiveConfined

namespace Desync

/-- `dirOf` applied k times -/
def dirUp : Nat → Bytes → Bytes
  | 0, d => d
  | k + 1, d => dirUp k (dirOf d)

@[simp] theorem dirUp_zero (d : Bytes) : dirUp 0 d = d := rfl

theorem dirUp_succ (k : Nat) (d : Bytes) : dirUp (k + 1) d = dirUp k (dirOf d) := rfl

def Node.isDir : Node → Bool
  | .dir .. => true
  | _ => false

/-- what one successful `Next` that returns a node does, seen from a decoder in directory `d` with
    counters `nd`/`rnd`: `k` goodbye elements were consumed (each one `dirOf`), `c` is the content of
    the last filename element read (`[]` if there was none) -/
def NextShape (d : Bytes) (nd : Nat) (rnd : Bool) (n : Node) (a' : ArchDec) : Prop :=
  ∃ k c, (c = [] ∨ validName c = true) ∧ n.name = joinPath (dirUp k d) c ∧
    a'.dir = (match n with | .dir .. => n.name | _ => dirUp k d) ∧
    a'.nodes = nd + 1 ∧ ¬ (0 < nd ∧ (c = [] ∨ rnd = true)) ∧
    a'.rootNotDir = (if nd = 0 && c = [] && !n.isDir then true else rnd)

theorem NextShape.pop {d : Bytes} {nd : Nat} {rnd : Bool} {n : Node} {a' : ArchDec}
    (h : NextShape (dirOf d) nd rnd n a') : NextShape d nd rnd n a' := by
  obtain ⟨k, c, h⟩ := h
  exact ⟨k + 1, c, h⟩

theorem archLoop_shape (fuel : Nat) (a : ArchDec) (p : Pending) (n : Node) (a' : ArchDec)
    (hname : p.name = [] ∨ validName p.name = true)
    (h : archLoop fuel a p = .ok (some n, a')) :
    NextShape a.dir a.nodes a.rootNotDir n a' := by
  induction fuel generalizing a p with
  | zero => unfold archLoop at h; cases h
  | succ fuel ih =>
    unfold archLoop at h
    obtain ⟨⟨c, a1⟩, h1, h2⟩ := Res.bind_eq_ok h
    clear h
    have hd1 : a1.dir = a.dir ∧ a1.nodes = a.nodes ∧ a1.rootNotDir = a.rootNotDir := by
      split at h1
      · cases h1; exact ⟨rfl, rfl, rfl⟩
      · obtain ⟨⟨e, s⟩, _, h12⟩ := Res.bind_eq_ok h1
        cases h12; exact ⟨rfl, rfl, rfl⟩
    clear h1
    rw [← hd1.1, ← hd1.2.1, ← hd1.2.2]
    clear hd1
    dsimp only at h2
    split at h2
    all_goals (repeat' (split at h2))
    all_goals (try (cases h2; done))
    all_goals first
      | exact ih _ _ hname h2
      | (refine ih _ _ ?_ h2; exact hname)
      | exact NextShape.pop (ih _ _ hname h2)
      | (refine ih _ _ (.inr ?_) h2
         rename_i hv
         simpa using hv)
      | (obtain ⟨hna, rfl⟩ := ArchDec.admit_eq_some ‹ArchDec.admit _ _ _ = some _›
         obtain ⟨⟨data, s⟩, _, h3⟩ := Res.bind_eq_ok h2
         cases h3
         exact ⟨0, p.name, hname, rfl, rfl, rfl, hna, by simp [Node.isDir]⟩)
      | (obtain ⟨hna, rfl⟩ := ArchDec.admit_eq_some ‹ArchDec.admit _ _ _ = some _›
         cases h2
         exact ⟨0, p.name, hname, rfl, rfl, rfl, hna, by simp [Node.isDir, *]⟩)

theorem ArchDec.next_shape (a : ArchDec) (n : Node) (a' : ArchDec) (h : a.next = .ok (some n, a')) :
    NextShape a.dir a.nodes a.rootNotDir n a' :=
  archLoop_shape _ a {} n a' (.inl rfl) h

/-- every node after the first is a proper child of the directory the decoder is in at that moment (the
    directory it was in at the start of the call, minus the goodbye elements consumed in this call): its
    name is that directory joined with one valid component -/
theorem next_child (a : ArchDec) (n : Node) (a' : ArchDec) (h : a.next = .ok (some n, a'))
    (h0 : 0 < a.nodes) :
    ∃ k c, validName c = true ∧ n.name = joinPath (dirUp k a.dir) c ∧
      a'.dir = (match (generalizing := false) n with | .dir .. => n.name | _ => dirUp k a.dir) := by
  obtain ⟨k, c, hc, hn, hd, _, hna, _⟩ := a.next_shape n a' h
  refine ⟨k, c, ?_, hn, hd⟩
  rcases hc with hc | hc
  · exact absurd ⟨h0, .inl hc⟩ hna
  · exact hc

/-- the first node: without a filename element its name is the directory the decoder is in at that
    moment, i.e. the starting directory minus the goodbye elements consumed in this call (a stream
    may begin with goodbye elements; each is a `dirOf`), and `rootNotDir` is raised iff that node is
    not a directory; with a filename element it is a child like any later node -/
theorem next_first (a : ArchDec) (n : Node) (a' : ArchDec) (h : a.next = .ok (some n, a'))
    (h0 : a.nodes = 0) :
    a'.nodes = 1 ∧ ∃ k,
      ((n.name = dirUp k a.dir ∧ a'.rootNotDir = (a.rootNotDir || !n.isDir)) ∨
        (∃ c, validName c = true ∧ n.name = joinPath (dirUp k a.dir) c ∧
          a'.rootNotDir = a.rootNotDir)) ∧
      a'.dir = (match (generalizing := false) n with | .dir .. => n.name | _ => dirUp k a.dir) := by
  obtain ⟨k, c, hc, hn, hd, hcnt, _, hr⟩ := a.next_shape n a' h
  refine ⟨by rw [hcnt, h0], k, ?_, hd⟩
  rcases hc with hc | hc
  · subst hc
    refine .inl ⟨by rw [hn]; simp [joinPath], ?_⟩
    rw [hr, h0]
    cases n.isDir <;> simp
  · refine .inr ⟨c, hc, hn, ?_⟩
    rw [hr]
    simp [validName_ne_nil_ac hc]

/-- the counters: a successful call that returns a node increments `nodes`; after a first node that is
    nameless and not a directory (`rootNotDir`) no further node is ever returned -/
theorem next_counts (a : ArchDec) (n : Node) (a' : ArchDec) (h : a.next = .ok (some n, a')) :
    a'.nodes = a.nodes + 1 ∧ (0 < a.nodes → a.rootNotDir = false ∧ a'.rootNotDir = false) := by
  obtain ⟨k, c, hc, hn, hd, hcnt, hna, hr⟩ := a.next_shape n a' h
  refine ⟨hcnt, fun h0 => ?_⟩
  have h1 : a.rootNotDir = false := by
    cases hb : a.rootNotDir
    · rfl
    · exact absurd ⟨h0, .inr hb⟩ hna
  refine ⟨h1, ?_⟩
  rw [hr, h1]
  have : a.nodes ≠ 0 := by omega
  simp [this]

/-- once `rootNotDir` is set (and a node has been returned), `Next` never returns a node again -/
theorem next_none_of_rootNotDir (a : ArchDec) (o : Option Node) (a' : ArchDec)
    (h : a.next = .ok (o, a')) (h0 : 0 < a.nodes) (hr : a.rootNotDir = true) : o = none := by
  cases o with
  | none => rfl
  | some n =>
    have := ((next_counts a n a' h).2 h0).1
    rw [hr] at this
    cases this

/-! ### a child's path is not the path of the current directory or of one of its ancestors -/

theorem dirUp_dot (k : Nat) : dirUp k [dot] = [dot] := by
  induction k with
  | zero => rfl
  | succ k ih => rw [dirUp_succ, dirOf_dot, ih]

theorem dirUp_add (j k : Nat) (d : Bytes) : dirUp j (dirUp k d) = dirUp (k + j) d := by
  induction k generalizing d with
  | zero => simp
  | succ k ih => rw [dirUp_succ, ih, Nat.add_right_comm, dirUp_succ]

theorem dirUp_confined {d : Bytes} (k : Nat) (h : Confined d) : Confined (dirUp k d) := by
  induction k generalizing d with
  | zero => exact h
  | succ k ih => exact ih (dirOf_confined h)

theorem dirOf_length_le {p : Bytes} (hp : Confined p) : (dirOf p).length ≤ p.length := by
  rcases hp with rfl | ⟨comps, hne, hall, rfl⟩
  · rw [dirOf_dot]; exact Nat.le_refl _
  · obtain ⟨cs, c, rfl⟩ : ∃ cs c, comps = cs ++ [c] :=
      ⟨comps.dropLast, comps.getLast hne, (List.dropLast_concat_getLast hne).symm⟩
    have hcv : validName c = true := hall c (by simp)
    by_cases hcs : cs = []
    · subst hcs
      simp only [List.nil_append, intercalate_singleton]
      rw [dirOf_no_slash (validName_no_slash hcv)]
      have : 0 < c.length := List.length_pos_iff.mpr (validName_ne_nil_ac hcv)
      simp only [List.length_cons, List.length_nil]
      omega
    · rw [intercalate_snoc _ _ _ hcs]
      have hall' : ∀ c ∈ cs, validName c = true := fun x hx => hall x (by simp [hx])
      rw [dirOf_snoc (intercalate_ne_nil _ _ hcs (fun x hx => validName_ne_nil_ac (hall' x hx)))
        (validName_no_slash hcv)]
      simp only [List.length_append]
      omega

theorem dirUp_length_le {d : Bytes} (k : Nat) (h : Confined d) : (dirUp k d).length ≤ d.length := by
  induction k generalizing d with
  | zero => exact Nat.le_refl _
  | succ k ih =>
    rw [dirUp_succ]
    exact Nat.le_trans (ih (dirOf_confined h)) (dirOf_length_le h)

theorem validName_ne_dot {c : Bytes} (h : validName c = true) : c ≠ [dot] := by
  intro hc; subst hc; simp [validName] at h

/-- a directory joined with a valid component is neither that directory nor one of its ancestors -/
theorem joinPath_ne_dirUp {d c : Bytes} (hd : Confined d) (hc : validName c = true) (j : Nat) :
    joinPath d c ≠ dirUp j d := by
  have hne := validName_ne_nil_ac hc
  unfold joinPath
  rw [if_neg hne]
  split
  · rename_i hdot
    rw [hdot, dirUp_dot]
    exact validName_ne_dot hc
  · intro heq
    have h1 := dirUp_length_le j hd
    rw [← heq] at h1
    simp only [List.length_append, List.length_cons, List.length_nil] at h1
    omega

theorem joinPath_ne_dot {d c : Bytes} (hc : validName c = true) : joinPath d c ≠ [dot] := by
  have hne := validName_ne_nil_ac hc
  unfold joinPath
  rw [if_neg hne]
  split
  · exact validName_ne_dot hc
  · intro heq
    have h1 := congrArg List.length heq
    have : 0 < c.length := List.length_pos_iff.mpr hne
    simp only [List.length_append, List.length_cons, List.length_nil] at h1
    omega

/-- `next_child`, with the decoder's directory confined: the node's name is neither the directory the
    decoder is in at that moment nor any ancestor of it -/
theorem next_child_strict (a : ArchDec) (n : Node) (a' : ArchDec) (h : a.next = .ok (some n, a'))
    (h0 : 0 < a.nodes) (hdir : Confined a.dir) :
    ∃ k c, validName c = true ∧ n.name = joinPath (dirUp k a.dir) c ∧
      a'.dir = (match (generalizing := false) n with | .dir .. => n.name | _ => dirUp k a.dir) ∧
      ∀ j, n.name ≠ dirUp j (dirUp k a.dir) := by
  obtain ⟨k, c, hc, hn, hd⟩ := next_child a n a' h h0
  refine ⟨k, c, hc, hn, hd, fun j => ?_⟩
  rw [hn]
  exact joinPath_ne_dirUp (dirUp_confined k hdir) hc j

/-- the statement of `next_first` for a decoder that starts in "." (every `untar` run): goodbye
    elements do not move it, so a nameless first node is "." itself -/
theorem next_first_root (a : ArchDec) (n : Node) (a' : ArchDec) (h : a.next = .ok (some n, a'))
    (h0 : a.nodes = 0) (hd : a.dir = [dot]) :
    a'.nodes = 1 ∧ (n.name = a.dir ∨ ∃ k c, validName c = true ∧ n.name = joinPath (dirUp k a.dir) c) := by
  obtain ⟨h1, k, h2, _⟩ := next_first a n a' h h0
  refine ⟨h1, ?_⟩
  rcases h2 with ⟨h2, _⟩ | ⟨c, hc, h2, _⟩
  · left; rw [h2, hd, dirUp_dot]
  · exact .inr ⟨k, c, hc, h2⟩

/-! ### `untar`: "." can only be the first node -/

theorem untarNodes_tail_ne_dot (fuel : Nat) (a : ArchDec) (acc nodes : List Node)
    (hdir : Confined a.dir) (hcnt : a.nodes = acc.length)
    (hacc : ∀ n ∈ acc.dropLast, n.name ≠ [dot])
    (h : untarNodes fuel a acc = .ok nodes) : ∀ n ∈ nodes.tail, n.name ≠ [dot] := by
  induction fuel generalizing a acc with
  | zero => unfold untarNodes at h; cases h
  | succ fuel ih =>
    unfold untarNodes at h
    obtain ⟨⟨o, a1⟩, h1, h2⟩ := Res.bind_eq_ok h
    obtain ⟨hconf, hd⟩ := ArchDec.next_confined a o a1 hdir h1
    dsimp only at h2
    split at h2
    · cases h2
      intro n hn'
      rw [List.tail_reverse] at hn'
      exact hacc n (List.mem_reverse.1 hn')
    · rename_i n
      have hc := (next_counts a n a1 h1).1
      refine ih a1 (n :: acc) hd (by rw [hc, hcnt]; rfl) ?_ h2
      intro m hm
      cases acc with
      | nil => simp at hm
      | cons x acc =>
        rw [List.dropLast_cons₂] at hm
        rcases List.mem_cons.1 hm with hmn | hm
        · subst hmn
          obtain ⟨k, c, hc, hn, _⟩ := next_child a m a1 h1 (by rw [hcnt]; simp)
          rw [hn]
          exact joinPath_ne_dot hc
        · exact hacc m hm

/-- for every byte stream: only the first node `UnTar` hands to the filesystem writer can be "."
    (the destination directory itself); every later node is a proper child of some directory -/
theorem untar_tail_ne_dot (b : Bytes) (nodes : List Node) (h : untar b = .ok nodes) :
    ∀ n ∈ nodes.tail, n.name ≠ [dot] :=
  untarNodes_tail_ne_dot _ _ [] nodes (.inl rfl) rfl (by simp) h

end Desync
