/-
  `SwapStore` / `SwapWriteStore` (Model/Swap.lean): safety and progress in every interleaving.
-/
import Desync.Model.Swap

namespace Desync.Swap

/-- the caller an event belongs to -/
def Ev.caller : Ev → Nat
  | .wantR t => t
  | .rlock t _ => t
  | .enter t _ => t
  | .exit t _ => t
  | .closeU t _ => t
  | .runlock t => t
  | .wantW t => t
  | .lock t => t
  | .refuse t => t
  | .closeOld t _ => t
  | .install t => t
  | .unlock t => t

/-- `Tr s pc e pc' b`: in state `s` the caller of `e`, at `pc`, may take `e`; it continues at `pc'`,
    and `b` is `s` with the shared fields as the step leaves them -/
inductive Tr (s : St) : PC → Ev → PC → St → Prop
  | wantR (t : Nat) (op : Op) : s.roles[t]? = some (.req op) → Tr s .idle (.wantR t) .wantR s
  | rlock (t : Nat) : rlockFree s = true → Tr s .wantR (.rlock t s.current) (.holdR s.current) s
  | enter (t e : Nat) (op : Op) : s.roles[t]? = some (.req op) → op ≠ .close → (op = .store → s.curW = true) →
      Tr s (.holdR e) (.enter t e) (.inCall e) s
  | exit (t e : Nat) : Tr s (.inCall e) (.exit t e) (.retd e) s
  | closeU (t e : Nat) : s.roles[t]? = some (.req .close) →
      Tr s (.holdR e) (.closeU t e) (.retd e) { s with closedUser := e :: s.closedUser }
  | runlock (t e : Nat) : Tr s (.retd e) (.runlock t) (.done e) s
  | panic (t e : Nat) : s.roles[t]? = some (.req .store) → ¬ s.curW = true →
      Tr s (.holdR e) (.runlock t) (.panicked e) s
  | wantW (t : Nat) (w : Bool) : s.roles[t]? = some (.swap w) → Tr s .idle (.wantW t) .wantW s
  | lock (t : Nat) : lockFree s = true → Tr s .wantW (.lock t) .holdW s
  | refuse (t : Nat) (w : Bool) : s.roles[t]? = some (.swap w) → refuses s w = true →
      Tr s .holdW (.refuse t) .refusing s
  | closeOld (t : Nat) (w : Bool) : s.roles[t]? = some (.swap w) → refuses s w = false →
      Tr s .holdW (.closeOld t s.current) .closedOld { s with closedSwap := s.current :: s.closedSwap }
  | install (t : Nat) (w : Bool) : s.roles[t]? = some (.swap w) →
      Tr s .closedOld (.install t) .installed { s with current := s.current + 1, curW := w }
  | unlockS (t : Nat) : Tr s .installed (.unlock t) .swapped s
  | unlockR (t : Nat) : Tr s .refusing (.unlock t) .refused s

/-- every step is one caller's transition -/
theorem step_spec {s s' : St} {e : Ev} (hs : step s e = some s') :
    ∃ pc pc' b, s.callers[e.caller]? = some pc ∧ Tr s pc e pc' b ∧
      s' = { b with callers := s.callers.set e.caller pc' } := by
  cases e with
  | wantR t =>
    simp only [step] at hs
    split at hs
    · rename_i op hpc hrl
      injection hs with hs; subst hs
      exact ⟨_, _, _, hpc, .wantR t op hrl, rfl⟩
    · cases hs
  | rlock t e =>
    simp only [step] at hs
    split at hs
    · rename_i hpc
      split at hs
      · rename_i hc
        injection hs with hs; subst hs
        obtain ⟨hf, he⟩ := hc
        subst he
        exact ⟨_, _, _, hpc, .rlock t hf, rfl⟩
      · cases hs
    · cases hs
  | enter t e' =>
    simp only [step] at hs
    split at hs
    · rename_i e op hpc hrl
      split at hs
      · rename_i hc
        injection hs with hs; subst hs
        obtain ⟨he, hop, hw⟩ := hc
        subst he
        exact ⟨_, _, _, hpc, .enter t e' op hrl hop hw, rfl⟩
      · cases hs
    · cases hs
  | exit t e' =>
    simp only [step] at hs
    split at hs
    · rename_i e hpc
      split at hs
      · rename_i he
        injection hs with hs; subst hs; subst he
        exact ⟨_, _, _, hpc, .exit t e', rfl⟩
      · cases hs
    · cases hs
  | closeU t e' =>
    simp only [step] at hs
    split at hs
    · rename_i e hpc hrl
      split at hs
      · rename_i he
        injection hs with hs; subst hs; subst he
        exact ⟨_, _, _, hpc, .closeU t e' hrl, rfl⟩
      · cases hs
    · cases hs
  | runlock t =>
    simp only [step] at hs
    split at hs
    · rename_i e hpc
      injection hs with hs; subst hs
      exact ⟨_, _, _, hpc, .runlock t e, rfl⟩
    · rename_i e hpc hrl
      split at hs
      · cases hs
      · rename_i hw
        injection hs with hs; subst hs
        exact ⟨_, _, _, hpc, .panic t e hrl hw, rfl⟩
    · cases hs
  | wantW t =>
    simp only [step] at hs
    split at hs
    · rename_i w hpc hrl
      injection hs with hs; subst hs
      exact ⟨_, _, _, hpc, .wantW t w hrl, rfl⟩
    · cases hs
  | lock t =>
    simp only [step] at hs
    split at hs
    · rename_i hpc
      split at hs
      · rename_i hf
        injection hs with hs; subst hs
        exact ⟨_, _, _, hpc, .lock t hf, rfl⟩
      · cases hs
    · cases hs
  | refuse t =>
    simp only [step] at hs
    split at hs
    · rename_i w hpc hrl
      split at hs
      · rename_i hf
        injection hs with hs; subst hs
        exact ⟨_, _, _, hpc, .refuse t w hrl hf, rfl⟩
      · cases hs
    · cases hs
  | closeOld t e =>
    simp only [step] at hs
    split at hs
    · rename_i w hpc hrl
      split at hs
      · rename_i hc
        injection hs with hs; subst hs
        obtain ⟨hf, he⟩ := hc
        subst he
        exact ⟨_, _, _, hpc, .closeOld t w hrl hf, rfl⟩
      · cases hs
    · cases hs
  | install t =>
    simp only [step] at hs
    split at hs
    · rename_i w hpc hrl
      injection hs with hs; subst hs
      exact ⟨_, _, _, hpc, .install t w hrl, rfl⟩
    · cases hs
  | unlock t =>
    simp only [step] at hs
    split at hs
    · rename_i hpc
      injection hs with hs; subst hs
      exact ⟨_, _, _, hpc, .unlockS t, rfl⟩
    · rename_i hpc
      injection hs with hs; subst hs
      exact ⟨_, _, _, hpc, .unlockR t, rfl⟩
    · cases hs

/-- and conversely: every transition of the relation is a step -/
theorem step_of_tr {s b : St} {e : Ev} {pc pc' : PC}
    (hpc : s.callers[e.caller]? = some pc) (htr : Tr s pc e pc' b) :
    step s e = some { b with callers := s.callers.set e.caller pc' } := by
  cases htr with
  | wantR t op hrl => simp only [Ev.caller] at hpc; simp only [step, hpc, hrl, setC, Ev.caller]
  | rlock t hf => simp only [Ev.caller] at hpc; simp only [step, hpc, hf, setC, Ev.caller, and_self, if_true]
  | enter t e op hrl hop hw =>
    simp only [Ev.caller] at hpc
    simp only [step, hpc, hrl, setC, Ev.caller]
    rw [if_pos ⟨trivial, hop, hw⟩]
  | exit t e => simp only [Ev.caller] at hpc; simp only [step, hpc, setC, Ev.caller, if_true]
  | closeU t e hrl => simp only [Ev.caller] at hpc; simp only [step, hpc, hrl, setC, Ev.caller, if_true]
  | runlock t e => simp only [Ev.caller] at hpc; simp only [step, hpc, setC, Ev.caller]
  | panic t e hrl hw => simp only [Ev.caller] at hpc; simp only [step, hpc, hrl, setC, Ev.caller, if_neg hw]
  | wantW t w hrl => simp only [Ev.caller] at hpc; simp only [step, hpc, hrl, setC, Ev.caller]
  | lock t hf => simp only [Ev.caller] at hpc; simp only [step, hpc, hf, setC, Ev.caller, if_true]
  | refuse t w hrl hf => simp only [Ev.caller] at hpc; simp only [step, hpc, hrl, hf, setC, Ev.caller, if_true]
  | closeOld t w hrl hf =>
    simp only [Ev.caller] at hpc
    simp only [step, hpc, hrl, hf, setC, Ev.caller, and_self, if_true]
  | install t w hrl => simp only [Ev.caller] at hpc; simp only [step, hpc, hrl, setC, Ev.caller]
  | unlockS t => simp only [Ev.caller] at hpc; simp only [step, hpc, setC, Ev.caller]
  | unlockR t => simp only [Ev.caller] at hpc; simp only [step, hpc, setC, Ev.caller]

/-! ### list lemmas -/

theorem get_set_ne {l : List PC} {c t : Nat} {x pc : PC} (hne : t ≠ c) (h : (l.set c x)[t]? = some pc) :
    l[t]? = some pc := by
  rw [List.getElem?_set] at h
  rw [if_neg (fun h' => hne h'.symm)] at h
  exact h

theorem get_set_eq {l : List PC} {c : Nat} {x pc : PC} (h : (l.set c x)[c]? = some pc) : pc = x := by
  rw [List.getElem?_set] at h
  simp only [if_true] at h
  split at h
  · injection h with h; exact h.symm
  · cases h

theorem all_get {l : List PC} {f : PC → Bool} (h : l.all f = true) {t : Nat} {pc : PC}
    (hpc : l[t]? = some pc) : f pc = true :=
  List.all_eq_true.mp h pc (List.mem_of_getElem? hpc)

theorem not_all {l : List PC} {f : PC → Bool} (h : ¬ l.all f = true) :
    ∃ (u : Nat) (q : PC), l[u]? = some q ∧ f q = false := by
  have : ¬ ∀ x ∈ l, f x = true := fun h' => h (List.all_eq_true.mpr h')
  have ⟨x, hx⟩ := Classical.not_forall.mp this
  have ⟨hm, hf⟩ := Classical.not_imp.mp hx
  obtain ⟨u, hu⟩ := List.getElem?_of_mem hm
  refine ⟨u, x, hu, ?_⟩
  cases hfx : f x
  · rfl
  · exact absurd hfx hf

/-! ### safety -/

def PC.holds (pc : PC) : Bool := pc.isReader || pc.isWriter

/-- the store a request is running on -/
def PC.epoch : PC → Option Nat
  | .holdR e => some e
  | .inCall e => some e
  | .retd e => some e
  | _ => none

/-- the inductive invariant: mutual exclusion; a read lock pins the installed store; what Swap has
    closed is older than the installed store, except between `Close` and the assignment inside Swap -/
structure Inv (s : St) : Prop where
  excl : ∀ (t u : Nat) (p q : PC), s.callers[t]? = some p → s.callers[u]? = some q → t ≠ u →
    p.isWriter = true → q.holds = false
  pin : ∀ (t : Nat) (p : PC) (e : Nat), s.callers[t]? = some p → p.epoch = some e → e = s.current
  closed : ∀ e, e ∈ s.closedSwap → e ≤ s.current
  closing : s.current ∈ s.closedSwap → ∃ (t : Nat), s.callers[t]? = some PC.closedOld

theorem inv_init (curW wp : Bool) (roles : List Role) : Inv (St.init curW wp roles) := by
  have idle : ∀ (t : Nat) (p : PC), (St.init curW wp roles).callers[t]? = some p → p = .idle := by
    intro t p hp
    simp only [St.init, List.getElem?_replicate] at hp
    split at hp
    · injection hp with hp; exact hp.symm
    · cases hp
  refine ⟨?_, ?_, ?_, ?_⟩
  · intro t u p q hp _ _ hpw
    rw [idle t p hp] at hpw; cases hpw
  · intro t p e hp he
    rw [idle t p hp] at he; cases he
  · intro e h; simp [St.init] at h
  · intro h; simp [St.init] at h

theorem inv_step {s s' : St} (e : Ev) (hi : Inv s) (hs : step s e = some s') : Inv s' := by
  obtain ⟨pc0, pc', b, hpc, htr, hs'⟩ := step_spec hs
  obtain ⟨hex, hpin, hcl, hcg⟩ := hi
  subst hs'
  -- mutual exclusion survives every transition that creates no new holder
  have excl_of : (pc'.isWriter = true → pc0.isWriter = true) → (pc'.holds = true → pc0.holds = true) →
      ∀ (t u : Nat) (p q : PC), (s.callers.set e.caller pc')[t]? = some p →
        (s.callers.set e.caller pc')[u]? = some q → t ≠ u → p.isWriter = true → q.holds = false := by
    intro hw hh t u p q hp hq hne hpw
    by_cases htc : t = e.caller
    · subst htc
      have := get_set_eq hp; subst this
      have hq' := get_set_ne (fun h => hne h.symm) hq
      exact hex _ _ _ _ hpc hq' hne (hw hpw)
    · have hp' := get_set_ne htc hp
      by_cases huc : u = e.caller
      · subst huc
        have := get_set_eq hq; subst this
        have := hex _ _ _ _ hp' hpc hne hpw
        cases hh' : q.holds
        · rfl
        · rw [hh hh'] at this; cases this
      · exact hex _ _ _ _ hp' (get_set_ne huc hq) hne hpw
  -- the pin survives when `current` stays and the new pc holds an epoch only if the old one held it (or it is current)
  have pin_of : (∀ e, pc'.epoch = some e → pc0.epoch = some e ∨ e = s.current) →
      ∀ (t : Nat) (p : PC) (e' : Nat), (s.callers.set e.caller pc')[t]? = some p → p.epoch = some e' →
        e' = s.current := by
    intro hr t p e' hp he
    by_cases htc : t = e.caller
    · subst htc
      have := get_set_eq hp; subst this
      rcases hr e' he with h1 | h1
      · exact hpin _ _ _ hpc h1
      · exact h1
    · exact hpin _ _ _ (get_set_ne htc hp) he
  -- the witness of `closing` survives unless the stepping caller was it
  have closing_of : pc0 ≠ .closedOld → s.current ∈ s.closedSwap →
      ∃ (t : Nat), (s.callers.set e.caller pc')[t]? = some PC.closedOld := by
    intro hne hin
    obtain ⟨t, ht⟩ := hcg hin
    refine ⟨t, ?_⟩
    have htc : t ≠ e.caller := by
      intro h; subst h; rw [hpc] at ht; injection ht with ht; exact hne ht
    rw [List.getElem?_set, if_neg (fun h => htc h.symm)]
    exact ht
  cases htr with
  | wantR t op hrl =>
    exact ⟨excl_of (by intro h; cases h) (by intro h; cases h), pin_of (by intro e h; cases h), hcl,
      closing_of (by intro h; cases h)⟩
  | rlock t hf =>
    refine ⟨?_, pin_of (by intro e h; injection h with h; exact Or.inr h.symm), hcl, closing_of (by intro h; cases h)⟩
    intro t' u p q hp hq hne hpw
    simp only [Ev.caller] at hp hq
    by_cases htc : t' = t
    · subst htc
      have := get_set_eq hp; subst this; cases hpw
    · have hp' := get_set_ne htc hp
      have := all_get hf hp'
      rw [hpw] at this
      cases this
  | enter t e0 op hrl hop hw =>
    exact ⟨excl_of (by intro h; cases h) (fun _ => rfl), pin_of (by intro e h; exact Or.inl h), hcl,
      closing_of (by intro h; cases h)⟩
  | exit t e0 =>
    exact ⟨excl_of (by intro h; cases h) (fun _ => rfl), pin_of (by intro e h; exact Or.inl h), hcl,
      closing_of (by intro h; cases h)⟩
  | closeU t e0 hrl =>
    exact ⟨excl_of (by intro h; cases h) (fun _ => rfl), pin_of (by intro e h; exact Or.inl h), hcl,
      closing_of (by intro h; cases h)⟩
  | runlock t e0 =>
    exact ⟨excl_of (by intro h; cases h) (by intro h; cases h), pin_of (by intro e h; cases h), hcl,
      closing_of (by intro h; cases h)⟩
  | panic t e0 hrl hw =>
    exact ⟨excl_of (by intro h; cases h) (by intro h; cases h), pin_of (by intro e h; cases h), hcl,
      closing_of (by intro h; cases h)⟩
  | wantW t w hrl =>
    exact ⟨excl_of (by intro h; cases h) (by intro h; cases h), pin_of (by intro e h; cases h), hcl,
      closing_of (by intro h; cases h)⟩
  | lock t hf =>
    refine ⟨?_, pin_of (by intro e h; cases h), hcl, closing_of (by intro h; cases h)⟩
    intro t' u p q hp hq hne hpw
    simp only [Ev.caller] at hp hq
    by_cases huc : u = t
    · subst huc
      have hp' := get_set_ne hne hp
      have := all_get hf hp'
      simp only [hpw, Bool.or_true, Bool.not_true] at this
      cases this
    · have hq' := get_set_ne huc hq
      have := all_get hf hq'
      simp only [PC.holds]
      cases hh : (q.isReader || q.isWriter)
      · rfl
      · rw [hh] at this; cases this
  | refuse t w hrl hf =>
    exact ⟨excl_of (fun _ => rfl) (fun _ => rfl), pin_of (by intro e h; cases h), hcl,
      closing_of (by intro h; cases h)⟩
  | closeOld t w hrl hf =>
    refine ⟨excl_of (fun _ => rfl) (fun _ => rfl), pin_of (by intro e h; cases h), ?_, ?_⟩
    · intro e' he'
      simp only [List.mem_cons] at he'
      rcases he' with h1 | h1
      · rw [h1]; exact Nat.le_refl _
      · exact hcl e' h1
    · intro _
      refine ⟨t, ?_⟩
      simp only [Ev.caller]
      rw [List.getElem?_set]
      simp only [if_true]
      simp only [Ev.caller] at hpc
      rcases Nat.lt_or_ge t s.callers.length with hlt | hge
      · rw [if_pos hlt]
      · rw [List.getElem?_eq_none hge] at hpc; cases hpc
  | install t w hrl =>
    refine ⟨excl_of (fun _ => rfl) (fun _ => rfl), ?_, ?_, ?_⟩
    · -- nobody else holds anything while the writer is here
      intro t' p e' hp he'
      simp only [Ev.caller] at hp hpc
      by_cases htc : t' = t
      · subst htc
        have := get_set_eq hp; subst this; cases he'
      · have hp' := get_set_ne htc hp
        have := hex _ _ _ _ hpc hp' (fun h => htc h.symm) rfl
        cases p <;> first | (cases he'; done) | (cases this; done)
    · intro e' he'
      exact Nat.le_succ_of_le (hcl e' he')
    · intro hin
      have := hcl _ hin
      exact absurd this (Nat.not_succ_le_self _)
  | unlockS t =>
    exact ⟨excl_of (by intro h; cases h) (by intro h; cases h), pin_of (by intro e h; cases h), hcl,
      closing_of (by intro h; cases h)⟩
  | unlockR t =>
    exact ⟨excl_of (by intro h; cases h) (by intro h; cases h), pin_of (by intro e h; cases h), hcl,
      closing_of (by intro h; cases h)⟩

theorem inv_reachable {curW wp : Bool} {roles : List Role} {s : St}
    (hr : Reachable (St.init curW wp roles) s) : Inv s := by
  induction hr with
  | refl => exact inv_init curW wp roles
  | step e _ hs ih => exact inv_step e ih hs

/-- **no use after close**: the store a request has read under the read lock — whether the member call
has not started yet, is in flight, or has returned — is the installed one and has not been closed by
any `Swap`, in every interleaving of any number of requests and swaps -/
theorem no_use_after_close (curW wp : Bool) (roles : List Role) (s : St)
    (hr : Reachable (St.init curW wp roles) s) (t : Nat) (p : PC) (e : Nat)
    (ht : s.callers[t]? = some p) (he : p.epoch = some e) : e ∉ s.closedSwap ∧ e = s.current := by
  have hi := inv_reachable hr
  have hcur := hi.pin t p e ht he
  refine ⟨?_, hcur⟩
  intro hin
  rw [hcur] at hin
  obtain ⟨u, hu⟩ := hi.closing hin
  have hne : u ≠ t := by
    intro h; subst h; rw [ht] at hu; injection hu with hu; subst hu; cases he
  have := hi.excl u t _ _ hu ht hne rfl
  cases p <;> first | (cases he; done) | (cases this; done)

/-- a `Swap` holding the write lock is alone: no request holds the read lock, no other `Swap` the write lock -/
theorem writer_alone (curW wp : Bool) (roles : List Role) (s : St)
    (hr : Reachable (St.init curW wp roles) s) (t u : Nat) (p q : PC)
    (hp : s.callers[t]? = some p) (hq : s.callers[u]? = some q) (hne : t ≠ u) (hw : p.isWriter = true) :
    q.holds = false :=
  (inv_reachable hr).excl t u p q hp hq hne hw

/-! ### a writable wrapper stays writable -/

/-- as long as the installed store is writable every Swap that gets as far as closing it brings a writable one -/
structure WInv (s : St) : Prop where
  cur : s.curW = true
  bring : ∀ (t : Nat), s.callers[t]? = some .closedOld → s.roles[t]? = some (.swap true)

theorem step_roles {s s' : St} {e : Ev} (hs : step s e = some s') : s'.roles = s.roles ∧ s'.wp = s.wp := by
  obtain ⟨_, _, b, _, htr, hs'⟩ := step_spec hs
  subst hs'
  cases htr <;> exact ⟨rfl, rfl⟩

theorem winv_step {s s' : St} (e : Ev) (hi : WInv s) (hs : step s e = some s') : WInv s' := by
  obtain ⟨pc0, pc', b, hpc, htr, hs'⟩ := step_spec hs
  obtain ⟨hcur, hbr⟩ := hi
  subst hs'
  have keep : pc' ≠ .closedOld → ∀ (t : Nat), (s.callers.set e.caller pc')[t]? = some .closedOld →
      s.roles[t]? = some (.swap true) := by
    intro hne t ht
    by_cases htc : t = e.caller
    · subst htc
      exact absurd (get_set_eq ht).symm hne
    · exact hbr t (get_set_ne htc ht)
  cases htr with
  | closeOld t w hrl hf =>
    refine ⟨hcur, ?_⟩
    intro t' ht'
    simp only [Ev.caller] at ht'
    by_cases htc : t' = t
    · subst htc
      show s.roles[t']? = some (.swap true)
      rw [hrl]
      simp only [refuses, hcur, Bool.true_and, Bool.not_eq_false'] at hf
      rw [hf]
    · exact hbr t' (get_set_ne htc ht')
  | install t w hrl =>
    simp only [Ev.caller] at hpc
    have := hbr t hpc
    rw [hrl] at this
    injection this with this
    injection this with this
    refine ⟨this, ?_⟩
    exact keep (by intro h; cases h)
  | wantR t op hrl => exact ⟨hcur, keep (by intro h; cases h)⟩
  | rlock t hf => exact ⟨hcur, keep (by intro h; cases h)⟩
  | enter t e0 op hrl hop hw => exact ⟨hcur, keep (by intro h; cases h)⟩
  | exit t e0 => exact ⟨hcur, keep (by intro h; cases h)⟩
  | closeU t e0 hrl => exact ⟨hcur, keep (by intro h; cases h)⟩
  | runlock t e0 => exact ⟨hcur, keep (by intro h; cases h)⟩
  | panic t e0 hrl hw => exact ⟨hcur, keep (by intro h; cases h)⟩
  | wantW t w hrl => exact ⟨hcur, keep (by intro h; cases h)⟩
  | lock t hf => exact ⟨hcur, keep (by intro h; cases h)⟩
  | refuse t w hrl hf => exact ⟨hcur, keep (by intro h; cases h)⟩
  | unlockS t => exact ⟨hcur, keep (by intro h; cases h)⟩
  | unlockR t => exact ⟨hcur, keep (by intro h; cases h)⟩

theorem winv_reachable {wp : Bool} {roles : List Role} {s : St}
    (hr : Reachable (St.init true wp roles) s) : WInv s := by
  induction hr with
  | refl =>
    refine ⟨rfl, ?_⟩
    intro t ht
    simp only [St.init, List.getElem?_replicate] at ht
    split at ht
    · injection ht with ht; cases ht
    · cases ht
  | step e _ hs ih => exact winv_step e ih hs

/-- **a `SwapWriteStore` built on a writable store stays writable**, whatever is swapped in (a Swap to a
store that is not writable is refused), so `StoreChunk`'s type assertion never panics -/
theorem store_never_panics (wp : Bool) (roles : List Role) (s : St)
    (hr : Reachable (St.init true wp roles) s) :
    s.curW = true ∧ ∀ (t e : Nat), s.callers[t]? ≠ some (.panicked e) := by
  refine ⟨(winv_reachable hr).cur, ?_⟩
  induction hr with
  | refl =>
    intro t e ht
    simp only [St.init, List.getElem?_replicate] at ht
    split at ht
    · injection ht with ht; cases ht
    · cases ht
  | step ev hmid hs ih =>
    intro t e ht
    obtain ⟨pc0, pc', b, hpc, htr, hs'⟩ := step_spec hs
    subst hs'
    by_cases htc : t = ev.caller
    · subst htc
      have := get_set_eq ht
      cases htr with
      | panic t' e0 hrl hw => exact hw (winv_reachable hmid).cur
      | _ => cases this
    · exact ih t e (get_set_ne htc ht)

/-! ### progress -/

def PC.final : PC → Bool
  | .done _ => true
  | .panicked _ => true
  | .swapped => true
  | .refused => true
  | _ => false

def PC.waiting : PC → Bool
  | .wantR => true
  | .wantW => true
  | _ => false

/-- every caller has its role -/
theorem callers_length {curW wp : Bool} {roles : List Role} {s : St}
    (hr : Reachable (St.init curW wp roles) s) : s.callers.length = s.roles.length := by
  induction hr with
  | refl => simp [St.init]
  | step e _ hs ih =>
    obtain ⟨_, _, b, _, htr, hs'⟩ := step_spec hs
    subst hs'
    simp only [List.length_set]
    cases htr <;> exact ih

/-- the program counter fits the role: requests never run Swap's code and vice versa -/
def Fits : Role → PC → Prop
  | .req _, .idle => True
  | .req _, .wantR => True
  | .req _, .holdR _ => True
  | .req op, .inCall _ => op ≠ .close
  | .req _, .retd _ => True
  | .req _, .done _ => True
  | .req _, .panicked _ => True
  | .swap _, .idle => True
  | .swap _, .wantW => True
  | .swap _, .holdW => True
  | .swap _, .closedOld => True
  | .swap _, .installed => True
  | .swap _, .refusing => True
  | .swap _, .swapped => True
  | .swap _, .refused => True
  | _, _ => False

theorem fits_reachable {curW wp : Bool} {roles : List Role} {s : St}
    (hr : Reachable (St.init curW wp roles) s) :
    ∀ (t : Nat) (p : PC), s.callers[t]? = some p → ∃ r, s.roles[t]? = some r ∧ Fits r p := by
  induction hr with
  | refl =>
    intro t p hp
    have hlt : t < roles.length := by
      rcases Nat.lt_or_ge t roles.length with h | h
      · exact h
      · simp only [St.init] at hp
        rw [List.getElem?_eq_none (by simp only [List.length_replicate]; exact h)] at hp; cases hp
    simp only [St.init, List.getElem?_replicate, if_pos hlt] at hp
    injection hp with hp; subst hp
    refine ⟨roles[t], List.getElem?_eq_getElem hlt, ?_⟩
    cases roles[t] <;> trivial
  | step e _ hs ih =>
    intro t p hp
    obtain ⟨pc0, pc', b, hpc, htr, hs'⟩ := step_spec hs
    subst hs'
    have hroles : b.roles = _ := rfl
    by_cases htc : t = e.caller
    · subst htc
      have := get_set_eq hp; subst this
      obtain ⟨r, hr0, hf0⟩ := ih _ _ hpc
      cases htr with
      | wantR t op hrl => exact ⟨_, hrl, trivial⟩
      | rlock t hf => simp only [Ev.caller] at hr0; cases r <;> first | exact ⟨_, hr0, trivial⟩ | cases hf0
      | enter t e0 op hrl hop hw => exact ⟨_, hrl, hop⟩
      | exit t e0 => simp only [Ev.caller] at hr0; cases r <;> first | exact ⟨_, hr0, trivial⟩ | cases hf0
      | closeU t e0 hrl => exact ⟨_, hrl, trivial⟩
      | runlock t e0 => simp only [Ev.caller] at hr0; cases r <;> first | exact ⟨_, hr0, trivial⟩ | cases hf0
      | panic t e0 hrl hw => exact ⟨_, hrl, trivial⟩
      | wantW t w hrl => exact ⟨_, hrl, trivial⟩
      | lock t hf => simp only [Ev.caller] at hr0; cases r <;> first | exact ⟨_, hr0, trivial⟩ | cases hf0
      | refuse t w hrl hf => exact ⟨_, hrl, trivial⟩
      | closeOld t w hrl hf => exact ⟨_, hrl, trivial⟩
      | install t w hrl => exact ⟨_, hrl, trivial⟩
      | unlockS t => simp only [Ev.caller] at hr0; cases r <;> first | exact ⟨_, hr0, trivial⟩ | cases hf0
      | unlockR t => simp only [Ev.caller] at hr0; cases r <;> first | exact ⟨_, hr0, trivial⟩ | cases hf0
    · have := ih t p (get_set_ne htc hp)
      cases htr <;> exact this

/-- a caller that holds the lock always has an enabled event of its own -/
theorem holder_enabled {curW wp : Bool} {roles : List Role} {s : St}
    (hr : Reachable (St.init curW wp roles) s) {u : Nat} {q : PC}
    (hq : s.callers[u]? = some q) (hh : q.holds = true) :
    ∃ (e : Ev) (s' : St), e.caller = u ∧ step s e = some s' := by
  obtain ⟨r, hrl, hfit⟩ := fits_reachable hr u q hq
  cases q with
  | holdR e =>
    cases r with
    | req op =>
      by_cases hcl : op = .close
      · subst hcl
        exact ⟨.closeU u e, _, rfl, step_of_tr (e := .closeU u e) hq (.closeU u e hrl)⟩
      · by_cases hst : op = .store → s.curW = true
        · exact ⟨.enter u e, _, rfl, step_of_tr (e := .enter u e) hq (.enter u e op hrl hcl hst)⟩
        · have hop : op = .store := Classical.byContradiction fun h => hst (fun h' => absurd h' h)
          subst hop
          exact ⟨.runlock u, _, rfl, step_of_tr (e := .runlock u) hq (.panic u e hrl (fun h => hst (fun _ => h)))⟩
    | swap w => cases hfit
  | inCall e => exact ⟨.exit u e, _, rfl, step_of_tr (e := .exit u e) hq (.exit u e)⟩
  | retd e => exact ⟨.runlock u, _, rfl, step_of_tr (e := .runlock u) hq (.runlock u e)⟩
  | holdW =>
    cases r with
    | req op => cases hfit
    | swap w =>
      cases hf : refuses s w
      · exact ⟨.closeOld u s.current, _, rfl, step_of_tr (e := .closeOld u s.current) hq (.closeOld u w hrl hf)⟩
      · exact ⟨.refuse u, _, rfl, step_of_tr (e := .refuse u) hq (.refuse u w hrl hf)⟩
  | closedOld =>
    cases r with
    | req op => cases hfit
    | swap w => exact ⟨.install u, _, rfl, step_of_tr (e := .install u) hq (.install u w hrl)⟩
  | installed => exact ⟨.unlock u, _, rfl, step_of_tr (e := .unlock u) hq (.unlockS u)⟩
  | refusing => exact ⟨.unlock u, _, rfl, step_of_tr (e := .unlock u) hq (.unlockR u)⟩
  | _ => cases hh

/-- **progress**: a caller that has not returned either has an enabled event of its own, or it waits
for the mutex and a caller that holds the mutex has an enabled event (requests in flight finish, a
Swap that holds the lock finishes), or it waits only because a Swap has announced itself and that Swap
can take the lock now.  No request is lost, nobody waits for ever. -/
theorem progress (curW wp : Bool) (roles : List Role) (s : St)
    (hr : Reachable (St.init curW wp roles) s) (t : Nat) (pc : PC) (hpc : s.callers[t]? = some pc)
    (hfin : pc.final = false) :
    (∃ (e : Ev) (s' : St), e.caller = t ∧ step s e = some s') ∨
    (pc.waiting = true ∧ ∃ (u : Nat) (q : PC), u ≠ t ∧ s.callers[u]? = some q ∧
      ((q.holds = true ∧ ∃ (e : Ev) (s' : St), e.caller = u ∧ step s e = some s') ∨
       (q.isPendingW = true ∧ ∃ s', step s (.lock u) = some s'))) := by
  have blockedW : ∀ (v : Nat), s.callers[v]? = some .wantW → ¬ lockFree s = true →
      ∃ (u : Nat) (q : PC), u ≠ v ∧ s.callers[u]? = some q ∧ q.holds = true := by
    intro v hv hf
    obtain ⟨u, q, hq, hfq⟩ := not_all hf
    refine ⟨u, q, ?_, hq, ?_⟩
    · intro huv; subst huv; rw [hv] at hq; injection hq with hq; subst hq; cases hfq
    · simp only [PC.holds]
      cases hh' : (q.isReader || q.isWriter)
      · rw [hh'] at hfq; cases hfq
      · rfl
  obtain ⟨r, hrl, hfit⟩ := fits_reachable hr t pc hpc
  cases pc with
  | idle =>
    cases r with
    | req op => exact Or.inl ⟨.wantR t, _, rfl, step_of_tr (e := .wantR t) hpc (.wantR t op hrl)⟩
    | swap w => exact Or.inl ⟨.wantW t, _, rfl, step_of_tr (e := .wantW t) hpc (.wantW t w hrl)⟩
  | wantR =>
    by_cases hf : rlockFree s = true
    · exact Or.inl ⟨.rlock t s.current, _, rfl, step_of_tr (e := .rlock t s.current) hpc (.rlock t hf)⟩
    · obtain ⟨u, q, hq, hfq⟩ := not_all hf
      have hut : u ≠ t := by
        intro hut; subst hut; rw [hpc] at hq; injection hq with hq; subst hq
        simp [PC.isWriter, PC.isPendingW] at hfq
      refine Or.inr ⟨rfl, ?_⟩
      by_cases hw : q.isWriter = true
      · have hh : q.holds = true := by simp only [PC.holds, hw, Bool.or_true]
        exact ⟨u, q, hut, hq, Or.inl ⟨hh, holder_enabled hr hq hh⟩⟩
      · have hpw : q.isPendingW = true := by
          cases hq1 : q.isWriter
          · rw [hq1] at hfq
            simp only [Bool.false_or, Bool.not_eq_false', Bool.and_eq_true] at hfq
            exact hfq.2
          · exact absurd hq1 hw
        cases q with
        | wantW =>
          by_cases hlf : lockFree s = true
          · exact ⟨u, _, hut, hq, Or.inr ⟨rfl, _, step_of_tr (e := .lock u) hq (.lock u hlf)⟩⟩
          · obtain ⟨v, q', hvu, hq', hh'⟩ := blockedW u hq hlf
            have hvt : v ≠ t := by
              intro hvt; subst hvt; rw [hpc] at hq'; injection hq' with hq'; subst hq'; cases hh'
            exact ⟨v, q', hvt, hq', Or.inl ⟨hh', holder_enabled hr hq' hh'⟩⟩
        | _ => cases hpw
  | holdR e => exact Or.inl (holder_enabled hr hpc rfl)
  | inCall e => exact Or.inl (holder_enabled hr hpc rfl)
  | retd e => exact Or.inl (holder_enabled hr hpc rfl)
  | wantW =>
    by_cases hlf : lockFree s = true
    · exact Or.inl ⟨.lock t, _, rfl, step_of_tr (e := .lock t) hpc (.lock t hlf)⟩
    · obtain ⟨u, q, hut, hq, hh'⟩ := blockedW t hpc hlf
      exact Or.inr ⟨rfl, u, q, hut, hq, Or.inl ⟨hh', holder_enabled hr hq hh'⟩⟩
  | holdW => exact Or.inl (holder_enabled hr hpc rfl)
  | closedOld => exact Or.inl (holder_enabled hr hpc rfl)
  | installed => exact Or.inl (holder_enabled hr hpc rfl)
  | refusing => exact Or.inl (holder_enabled hr hpc rfl)
  | done e => cases hfin
  | panicked e => cases hfin
  | swapped => cases hfin
  | refused => cases hfin

/-! ### runs (for examples and the driver) -/

def run (s : St) : List Ev → Option St
  | [] => some s
  | e :: es => match step s e with
    | some s' => run s' es
    | none => none

theorem run_reachable {s0 s s' : St} (hr : Reachable s0 s) (es : List Ev) (h : run s es = some s') :
    Reachable s0 s' := by
  induction es generalizing s with
  | nil => simp only [run] at h; injection h with h; subst h; exact hr
  | cons e es ih =>
    simp only [run] at h
    split at h
    · rename_i s1 hs1
      exact ih (Reachable.step e hr hs1) h
    · cases h

/-! ### every run is finite -/

/-- steps a caller can still take, at most -/
def mu : PC → Nat
  | .idle => 7
  | .wantR => 6
  | .holdR _ => 5
  | .inCall _ => 4
  | .retd _ => 3
  | .done _ => 0
  | .panicked _ => 0
  | .wantW => 6
  | .holdW => 5
  | .closedOld => 4
  | .refusing => 4
  | .installed => 3
  | .swapped => 0
  | .refused => 0

def total (s : St) : Nat := (s.callers.map mu).sum

theorem sum_set_lt {f : PC → Nat} {pc pc' : PC} (hlt : f pc' < f pc) :
    ∀ (l : List PC) (t : Nat), l[t]? = some pc → ((l.set t pc').map f).sum < (l.map f).sum := by
  intro l
  induction l with
  | nil => intro t h; cases h
  | cons x xs ih =>
    intro t h
    cases t with
    | zero =>
      simp only [List.getElem?_cons_zero] at h
      injection h with h; subst h
      simp only [List.set_cons_zero, List.map_cons, List.sum_cons]
      omega
    | succ t =>
      simp only [List.getElem?_cons_succ] at h
      have := ih t h
      simp only [List.set_cons_succ, List.map_cons, List.sum_cons]
      omega

/-- every step uses up budget -/
theorem step_decreases {s s' : St} (e : Ev) (hs : step s e = some s') : total s' < total s := by
  obtain ⟨pc0, pc', b, hpc, htr, hs'⟩ := step_spec hs
  subst hs'
  show ((s.callers.set e.caller pc').map mu).sum < (s.callers.map mu).sum
  apply sum_set_lt _ _ _ hpc
  cases htr <;> simp only [mu] <;> omega

/-- **every schedule is finite**: a run of the machine takes at most 7 steps per caller -/
theorem run_bounded (s s' : St) (es : List Ev) (hrun : run s es = some s') :
    es.length + total s' ≤ total s := by
  induction es generalizing s with
  | nil => simp only [run] at hrun; injection hrun with hrun; subst hrun; simp
  | cons e es ih =>
    simp only [run] at hrun
    split at hrun
    · rename_i s1 hs1
      have h1 := step_decreases e hs1
      have h2 := ih s1 hrun
      simp only [List.length_cons]
      omega
    · cases hrun

theorem sum_replicate_nat (k c : Nat) : (List.replicate k c).sum = k * c := by
  induction k with
  | zero => simp
  | succ k ih => rw [List.replicate_succ, List.sum_cons, ih, Nat.succ_mul]; omega

theorem total_init (curW wp : Bool) (roles : List Role) : total (St.init curW wp roles) = roles.length * 7 := by
  simp only [total, St.init, List.map_replicate, mu]
  exact sum_replicate_nat _ _

end Desync.Swap
