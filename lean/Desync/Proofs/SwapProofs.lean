/-
  `SwapStore` (Model/Swap.lean): safety and progress in every interleaving.
-/
import Desync.Model.Swap

namespace Desync.Swap

/-- the caller is inside a request (holds the read lock) -/
def PC.isIn : PC → Bool
  | .inReq _ => true
  | _ => false

/-- number of callers inside a request -/
def inCount (s : St) : Nat := s.callers.countP PC.isIn

/-- the inductive invariant -/
structure Inv (s : St) : Prop where
  readers : s.readers = inCount s
  cur : ∀ (t e : Nat), s.callers[t]? = some (PC.inReq e) → e = s.current
  closed : ∀ e, e ∈ s.closed → e < s.current

theorem inv_init (k : Nat) : Inv (St.init k) := by
  refine ⟨?_, ?_, ?_⟩
  · simp [St.init, inCount, List.countP_replicate, PC.isIn]
  · intro t e h
    simp [St.init, List.getElem?_replicate] at h
  · intro e h
    simp [St.init] at h

theorem countP_pos_of_getElem? {l : List PC} {t : Nat} {pc : PC}
    (h : l[t]? = some pc) (hp : PC.isIn pc = true) : 0 < l.countP PC.isIn := by
  apply List.countP_pos_iff.mpr
  exact ⟨pc, List.mem_of_getElem? h, hp⟩

theorem inv_step {s s' : St} (e : Ev) (hi : Inv s) (hs : step s e = some s') : Inv s' := by
  obtain ⟨hr, hc, hcl⟩ := hi
  cases e with
  | enter t =>
    simp only [step] at hs
    split at hs
    · rename_i hidle
      injection hs with hs
      subst hs
      have hlt : t < s.callers.length := by
        rcases Nat.lt_or_ge t s.callers.length with h | h
        · exact h
        · rw [List.getElem?_eq_none h] at hidle; cases hidle
      have hget : s.callers[t] = PC.idle := by
        rw [List.getElem?_eq_getElem hlt] at hidle
        injection hidle
      refine ⟨?_, ?_, ?_⟩
      · simp [inCount, List.countP_set hlt, hget, PC.isIn, hr]
      · intro u e' h
        simp only [List.getElem?_set] at h
        split at h
        · injection h with h; injection h with h; exact h.symm
        · exact hc u e' h
      · exact hcl
    · cases hs
  | leave t =>
    simp only [step] at hs
    split at hs
    · rename_i e0 hin
      injection hs with hs
      subst hs
      have hlt : t < s.callers.length := by
        rcases Nat.lt_or_ge t s.callers.length with h | h
        · exact h
        · rw [List.getElem?_eq_none h] at hin; cases hin
      have hget : s.callers[t] = PC.inReq e0 := by
        rw [List.getElem?_eq_getElem hlt] at hin
        injection hin
      refine ⟨?_, ?_, ?_⟩
      · simp [inCount, List.countP_set hlt, hget, PC.isIn, hr]
      · intro u e' h
        simp only [List.getElem?_set] at h
        split at h
        · injection h with h; cases h
        · exact hc u e' h
      · exact hcl
    · cases hs
  | swap =>
    simp only [step] at hs
    split at hs
    · rename_i h0
      injection hs with hs
      subst hs
      refine ⟨?_, ?_, ?_⟩
      · simpa [inCount] using hr
      · intro u e' h
        exfalso
        have : 0 < inCount s := countP_pos_of_getElem? h rfl
        omega
      · intro e' h
        simp only [List.mem_cons] at h
        rcases h with h | h
        · subst h; exact Nat.lt_succ_self _
        · exact Nat.lt_succ_of_lt (hcl e' h)
    · cases hs

theorem inv_reachable {k : Nat} {s : St} (hr : Reachable (St.init k) s) : Inv s := by
  induction hr with
  | refl => exact inv_init k
  | step e _ hs ih => exact inv_step e ih hs

/-- **swapping the store under load never closes a store that a request is running on**: a running
request uses the installed store, and that store has not been closed -/
theorem no_use_after_close (k : Nat) (s : St) (hr : Reachable (St.init k) s) (t e : Nat)
    (ht : s.callers[t]? = some (PC.inReq e)) : e ∉ s.closed ∧ e = s.current := by
  have hi := inv_reachable hr
  have he := hi.cur t e ht
  refine ⟨?_, he⟩
  intro hmem
  have := hi.closed e hmem
  omega

/-- the read-lock count is exactly the number of callers inside a request -/
theorem readers_count (k : Nat) (s : St) (hr : Reachable (St.init k) s) :
    s.readers = inCount s :=
  (inv_reachable hr).readers

/-- closed epochs are all older than the installed one (the installed store is never closed) -/
theorem current_not_closed (k : Nat) (s : St) (hr : Reachable (St.init k) s) :
    s.current ∉ s.closed := by
  intro h
  have := (inv_reachable hr).closed _ h
  omega

/-- **no request is lost or blocked forever**: an idle caller can always enter, a caller inside can
always leave, and `swap` is enabled whenever no request is running -/
theorem progress (k : Nat) (s : St) (hr : Reachable (St.init k) s) :
    (∀ (t : Nat), s.callers[t]? = some .idle → ∃ s', step s (.enter t) = some s') ∧
    (∀ (t e : Nat), s.callers[t]? = some (PC.inReq e) → ∃ s', step s (.leave t) = some s') ∧
    ((∀ (t e : Nat), s.callers[t]? ≠ some (PC.inReq e)) → ∃ s', step s .swap = some s') := by
  refine ⟨?_, ?_, ?_⟩
  · intro t h
    simp [step, h]
  · intro t e h
    simp [step, h]
  · intro h
    have hz : s.readers = 0 := by
      rw [(inv_reachable hr).readers, inCount, List.countP_eq_zero]
      intro pc hmem hp
      obtain ⟨t, ht⟩ := List.getElem?_of_mem hmem
      cases pc with
      | inReq e => exact h t e ht
      | idle => cases hp
      | done e => cases hp
    simp [step, hz]

/-- conversely `swap` is blocked exactly while some request is running (the write lock waits) -/
theorem swap_blocked_iff (k : Nat) (s : St) (hr : Reachable (St.init k) s) :
    step s .swap = none ↔ ∃ (t : Nat) (e : Nat), s.callers[t]? = some (PC.inReq e) := by
  constructor
  · intro hn
    apply Classical.byContradiction
    intro hne
    have := (progress k s hr).2.2 (fun t e h => hne ⟨t, e, h⟩)
    obtain ⟨s', hs'⟩ := this
    rw [hn] at hs'; cases hs'
  · rintro ⟨t, e, h⟩
    have : 0 < inCount s := countP_pos_of_getElem? h rfl
    have hr' := (inv_reachable hr).readers
    have : s.readers ≠ 0 := by omega
    simp [step, this]

end Desync.Swap

