/-
  Lemmas about `Desync.Model.MtreeFS`: the fmt verbs against the reader's number parsers, `mtreeFilename` against
  `unescape`, `strings.Join` against the reader's word splitting.
-/
import Desync.Model.MtreeFS
import Mathlib.Tactic.IntervalCases

namespace Desync.MtreeFS
open Desync

/-! ### digits -/

theorem digitsF_ne_nil (b f n : Nat) : digitsF b f n ≠ [] := by
  induction f generalizing n with
  | zero => simp [digitsF]
  | succ f ih =>
    unfold digitsF
    split
    · simp
    · simp

theorem digitsF_lt (b : Nat) (hb : 2 ≤ b) : ∀ f n, n ≤ f → ∀ d ∈ digitsF b f n, d < b := by
  intro f
  induction f with
  | zero =>
    intro n hn d hd
    have : n = 0 := by omega
    subst this
    simp [digitsF] at hd
    omega
  | succ f ih =>
    intro n hn d hd
    unfold digitsF at hd
    split at hd
    · simp at hd; omega
    · rename_i hnb
      simp only [List.mem_append, List.mem_singleton] at hd
      rcases hd with hd | hd
      · have hdiv : n / b ≤ f := by
          have : n / b < n := Nat.div_lt_self (by omega) (by omega)
          omega
        exact ih (n / b) hdiv d hd
      · subst hd; exact Nat.mod_lt _ (by omega)

def ofDigits (b : Nat) (a : Nat) (ds : List Nat) : Nat := ds.foldl (fun a d => a * b + d) a

theorem ofDigits_append (b a : Nat) (xs ys : List Nat) :
    ofDigits b a (xs ++ ys) = ofDigits b (ofDigits b a xs) ys := by
  simp [ofDigits, List.foldl_append]

theorem ofDigits_digitsF (b : Nat) (hb : 2 ≤ b) : ∀ f n, n ≤ f → ofDigits b 0 (digitsF b f n) = n := by
  intro f
  induction f with
  | zero =>
    intro n hn
    have : n = 0 := by omega
    subst this
    simp [digitsF, ofDigits]
  | succ f ih =>
    intro n hn
    unfold digitsF
    split
    · simp [ofDigits]
    · rename_i hnb
      have hdiv : n / b ≤ f := by
        have : n / b < n := Nat.div_lt_self (by omega) (by omega)
        omega
      rw [ofDigits_append, ih _ hdiv]
      simp only [ofDigits, List.foldl_cons, List.foldl_nil]
      exact Nat.div_add_mod' n b

theorem digitsF_length (b : Nat) (hb : 2 ≤ b) : ∀ f n k, n ≤ f → 1 ≤ k → n < b ^ k → (digitsF b f n).length ≤ k := by
  intro f
  induction f with
  | zero => intro n k _ hk _; simp [digitsF]; omega
  | succ f ih =>
    intro n k hn hk hlt
    unfold digitsF
    split
    · simp; omega
    · rename_i hnb
      have hdiv : n / b ≤ f := by
        have : n / b < n := Nat.div_lt_self (by omega) (by omega)
        omega
      have hk2 : 2 ≤ k := by
        rcases Nat.lt_or_ge k 2 with h | h
        · have : k = 1 := by omega
          subst this
          simp at hlt
          omega
        · exact h
      have : n / b < b ^ (k - 1) := by
        apply Nat.div_lt_of_lt_mul
        have : b ^ k = b * b ^ (k - 1) := by
          rw [← Nat.pow_succ']
          congr 1
          omega
        omega
      have := ih (n / b) (k - 1) hdiv (by omega) this
      simp only [List.length_append, List.length_singleton]
      omega

/-! ### digit bytes -/

theorem digitByte_toNat (d : Nat) (hd : d < 16) :
    (digitByte d).toNat = if d < 10 then 48 + d else 87 + d := by
  unfold digitByte
  split
  · simp [UInt8.toNat_ofNat']; omega
  · simp [UInt8.toNat_ofNat']; omega

theorem digitVal_digitByte (b d : Nat) (hd : d < b) (hb : b ≤ 10 ∨ b = 16) :
    digitVal b (digitByte d) = some d := by
  have hd16 : d < 16 := by omega
  unfold digitVal
  rw [digitByte_toNat d hd16]
  by_cases h10 : d < 10
  · simp only [h10, if_true]
    have h1 : 48 ≤ 48 + d ∧ 48 + d ≤ 57 := by omega
    simp only [h1, and_self, if_true]
    have : 48 + d - 48 = d := by omega
    simp [this, hd]
  · simp only [h10, if_false]
    have hb16 : b = 16 := by omega
    have h1 : ¬ (48 ≤ 87 + d ∧ 87 + d ≤ 57) := by omega
    have h2 : 97 ≤ 87 + d ∧ 87 + d ≤ 102 ∧ b = 16 := by omega
    simp only [h1, if_false, h2, and_self, if_true]
    congr 1
    omega

/-- a byte `fmtNat`/`fmtHex` can produce -/
def IsDigit (c : UInt8) : Prop := (48 ≤ c.toNat ∧ c.toNat ≤ 57) ∨ (97 ≤ c.toNat ∧ c.toNat ≤ 102)

theorem digitByte_isDigit (d : Nat) (hd : d < 16) : IsDigit (digitByte d) := by
  unfold IsDigit
  rw [digitByte_toNat d hd]
  split <;> omega

theorem IsDigit.not_blank {c : UInt8} (h : IsDigit c) : isBlank c = false := by
  unfold IsDigit at h
  have h32 : c ≠ 32 := by intro e; subst e; simp at h
  have h9 : c ≠ 9 := by intro e; subst e; simp at h
  have h10 : c ≠ 10 := by intro e; subst e; simp at h
  simp [isBlank, h32, h9, h10]

theorem IsDigit.ne_dot {c : UInt8} (h : IsDigit c) : c ≠ 46 := by
  intro e; subst e; simp [IsDigit] at h

theorem IsDigit.ne_minus {c : UInt8} (h : IsDigit c) : c ≠ 45 := by
  intro e; subst e; simp [IsDigit] at h

theorem fmtNat_isDigit (b n : Nat) (hb : 2 ≤ b) (hb' : b ≤ 16) : ∀ c ∈ fmtNat b n, IsDigit c := by
  intro c hc
  simp only [fmtNat, digits, List.mem_map] at hc
  obtain ⟨d, hd, rfl⟩ := hc
  have := digitsF_lt b hb n n (Nat.le_refl _) d hd
  exact digitByte_isDigit d (by omega)

theorem fmtNat_ne_nil (b n : Nat) : fmtNat b n ≠ [] := by
  simp [fmtNat, digits, digitsF_ne_nil]

/-! ### numbers -/

theorem parseNatAux_map (b : Nat) (hb : b ≤ 10 ∨ b = 16) (ds : List Nat) (hds : ∀ d ∈ ds, d < b) (a : Nat) :
    parseNatAux b a (ds.map digitByte) = some (ofDigits b a ds) := by
  induction ds generalizing a with
  | nil => simp [parseNatAux, ofDigits]
  | cons d ds ih =>
    simp only [List.map_cons, parseNatAux]
    rw [digitVal_digitByte b d (hds d (by simp)) hb]
    simp only
    rw [ih (fun d' hd' => hds d' (by simp [hd']))]
    simp [ofDigits]

theorem parseNatAux_fmtNat (b n : Nat) (hb2 : 2 ≤ b) (hb : b ≤ 10 ∨ b = 16) :
    parseNatAux b 0 (fmtNat b n) = some n := by
  unfold fmtNat digits
  rw [parseNatAux_map b hb _ (digitsF_lt b hb2 n n (Nat.le_refl _)), ofDigits_digitsF b hb2 n n (Nat.le_refl _)]

theorem parseNat_fmtNat (b n : Nat) (hb2 : 2 ≤ b) (hb : b ≤ 10 ∨ b = 16) : parseNat b (fmtNat b n) = some n := by
  unfold parseNat
  have := fmtNat_ne_nil b n
  cases h : fmtNat b n with
  | nil => exact absurd h this
  | cons c cs =>
    rw [← h]
    simp only [h, List.isEmpty_cons, Bool.false_eq_true, if_false]
    rw [← h]
    exact parseNatAux_fmtNat b n hb2 hb

theorem parseNatAux_zeros (b : Nat) (hb : 1 ≤ b) (k : Nat) (s : Bytes) :
    parseNatAux b 0 (List.replicate k 48 ++ s) = parseNatAux b 0 s := by
  induction k with
  | zero => simp
  | succ k ih =>
    simp only [List.replicate_succ, List.cons_append, parseNatAux]
    have : digitVal b 48 = some 0 := by
      unfold digitVal
      simp
      omega
    rw [this]
    simpa using ih

theorem parseNat_pad0 (b w n : Nat) (hb2 : 2 ≤ b) (hb : b ≤ 10 ∨ b = 16) :
    parseNat b (pad0 w (fmtNat b n)) = some n := by
  unfold parseNat pad0
  have hne := fmtNat_ne_nil b n
  have : (List.replicate (w - (fmtNat b n).length) 48 ++ fmtNat b n).isEmpty = false := by
    cases h : fmtNat b n with
    | nil => exact absurd h hne
    | cons c cs => simp
  rw [this]
  simp only [Bool.false_eq_true, if_false]
  rw [parseNatAux_zeros b (by omega)]
  exact parseNatAux_fmtNat b n hb2 hb

theorem pad0_isDigit (w : Nat) (s : Bytes) (hs : ∀ c ∈ s, IsDigit c) : ∀ c ∈ pad0 w s, IsDigit c := by
  intro c hc
  simp only [pad0, List.mem_append, List.mem_replicate] at hc
  rcases hc with ⟨_, rfl⟩ | hc
  · left; decide
  · exact hs c hc

theorem pad0_length (w : Nat) (s : Bytes) (h : s.length ≤ w) : (pad0 w s).length = w := by
  simp [pad0]; omega

theorem fmtNat_length (b n k : Nat) (hb : 2 ≤ b) (hk : 1 ≤ k) (h : n < b ^ k) : (fmtNat b n).length ≤ k := by
  simp only [fmtNat, digits, List.length_map]
  exact digitsF_length b hb n n k (Nat.le_refl _) hk h

/-- bytes of `%d`: digits and a leading minus sign -/
theorem fmtD_chars (i : Int) : ∀ c ∈ fmtD i, IsDigit c ∨ c = 45 := by
  intro c hc
  unfold fmtD at hc
  split at hc
  · simp only [List.mem_cons] at hc
    rcases hc with rfl | hc
    · right; rfl
    · left; exact fmtNat_isDigit 10 _ (by omega) (by omega) c hc
  · left; exact fmtNat_isDigit 10 _ (by omega) (by omega) c hc

theorem parseInt_of_head (s : Bytes) (h : s.head? ≠ some 45) : parseInt s = (parseNat 10 s).map fun n => (n : Int) := by
  unfold parseInt
  split
  · simp at h
  · rfl

theorem parseInt_fmtD (i : Int) : parseInt (fmtD i) = some i := by
  unfold fmtD
  split
  · rename_i hneg
    show (parseNat 10 (fmtNat 10 i.natAbs)).map (fun n => - (n : Int)) = some i
    rw [parseNat_fmtNat 10 _ (by omega) (by omega)]
    show some (-(i.natAbs : Int)) = some i
    congr 1
    omega
  · rename_i hpos
    have hne := fmtNat_ne_nil 10 i.toNat
    have hd := fmtNat_isDigit 10 i.toNat (by omega) (by omega)
    rw [parseInt_of_head]
    · rw [parseNat_fmtNat 10 _ (by omega) (by omega)]
      simp
      omega
    · cases h : fmtNat 10 i.toNat with
      | nil => exact absurd h hne
      | cons c cs =>
        have := (hd c (by simp [h])).ne_minus
        simpa using this

/-! ### time -/

theorem splitDot_append (a b : Bytes) (ha : ∀ c ∈ a, c ≠ 46) : splitDot (a ++ 46 :: b) = some (a, b) := by
  induction a with
  | nil => simp [splitDot]
  | cons c cs ih =>
    have hc : c ≠ 46 := ha c (by simp)
    simp only [List.cons_append, splitDot, hc, if_false]
    rw [ih (fun c' hc' => ha c' (by simp [hc']))]
    rfl

theorem parseTime_fmtTime (sec : Int) (nsec : Nat) (h : nsec < 1000000000) :
    parseTime (fmtTime sec nsec) = some (sec, nsec) := by
  unfold parseTime fmtTime
  rw [splitDot_append]
  · have hl : (pad0 9 (fmtNat 10 nsec)).length = 9 :=
      pad0_length 9 _ (fmtNat_length 10 nsec 9 (by omega) (by omega) (by omega))
    simp only [hl, if_true]
    rw [parseInt_fmtD, parseNat_pad0 10 9 nsec (by omega) (by omega)]
  · intro c hc
    rcases fmtD_chars sec c hc with h | h
    · exact h.ne_dot
    · subst h; decide

/-! ### hex -/

theorem parseHex_fmtHex (d : Bytes) : parseHex (fmtHex d) = some d := by
  induction d with
  | nil => simp [fmtHex, parseHex]
  | cons c cs ih =>
    have hc : c.toNat < 256 := c.toNat_lt
    simp only [fmtHex, parseHex]
    rw [digitVal_digitByte 16 _ (by omega) (by omega), digitVal_digitByte 16 _ (Nat.mod_lt _ (by omega)) (by omega), ih]
    simp only
    congr 2
    have : c.toNat / 16 * 16 + c.toNat % 16 = c.toNat := Nat.div_add_mod' _ _
    rw [this]
    simp

theorem fmtHex_isDigit (d : Bytes) : ∀ c ∈ fmtHex d, IsDigit c := by
  induction d with
  | nil => simp [fmtHex]
  | cons x xs ih =>
    have hx : x.toNat < 256 := x.toNat_lt
    intro c hc
    simp only [fmtHex, List.mem_cons] at hc
    rcases hc with rfl | rfl | hc
    · exact digitByte_isDigit _ (by omega)
    · exact digitByte_isDigit _ (Nat.mod_lt _ (by omega))
    · exact ih c hc

end Desync.MtreeFS
