/-
  Vocabulary of the file-system round trip: what a tree of `FileRec`s looks like on disk
  (`Tree.lay`), which directory mtimes `LocalFS` records for `finish` (`Tree.times`), and the list-level
  facts about them (keys, look-ups, "before `finish`" versus "after `finish`").
-/
import Desync.Proofs.TarTreeRoundTrip
import Desync.Proofs.LocalFSRoundTripCalls

namespace Desync.LFS
open Desync

/-! ### the expected objects -/

def metaOf (f : FileRec) : Meta := ⟨f.uid, f.gid, f.mode, f.mtime, f.xattrs⟩

/-- attributes `setPerms` leaves on a freshly created directory / regular file / device node: the archived
    owner and extended attributes unless `noSameOwner`, the archived permission, set-id and sticky bits
    unless `noSamePermissions` — all twelve bits, because `chown` comes before `chmod` -/
def attrOfRec (o : Opts) (f : FileRec) : Attr :=
  { owner := if o.noSameOwner then none else some (f.uid.toNat, f.gid.toNat)
    mode := if o.noSamePermissions then none else some (f.mode.toNat % 4096)
    xattrs := if o.noSameOwner then [] else f.xattrs }

/-- attributes on a freshly created symbolic link (`lchown` + `lsetxattr` only) -/
def linkAttrOfRec (o : Opts) (f : FileRec) : Attr :=
  { owner := if o.noSameOwner then none else some (f.uid.toNat, f.gid.toNat)
    mode := none
    xattrs := if o.noSameOwner then [] else f.xattrs }

/-- the explicitly set modification time: the archived one, unless it is 0 (then `LocalFS` sets none
    and the kernel's "now" stays) -/
def mtimeOf (f : FileRec) : Option Nat := if f.mtime = 0 then none else some f.mtime.toNat

theorem attrOfRec_eq (o : Opts) (f : FileRec) : attrOfRec o f = attrM o (metaOf f) := rfl
theorem linkAttrOfRec_eq (o : Opts) (f : FileRec) : linkAttrOfRec o f = linkAttrM o (metaOf f) := rfl
theorem mtimeOf_eq (f : FileRec) : mtimeOf f = mtimeM (metaOf f) := rfl

/-- `user.*` extended attributes cannot be set on symbolic links and device nodes (EPERM): when owner and
    extended attributes are restored, a record of one of these kinds must carry none, or `UnTar` fails -/
def XattrsFit (o : Opts) (f : FileRec) : Prop :=
  o.noSameOwner = false → f.kind = .symlink ∨ f.kind = .device → NoUserXattr f.xattrs

instance (o : Opts) (f : FileRec) : Decidable (XattrsFit o f) := by
  unfold XattrsFit NoUserXattr; infer_instance

/-- the object a record becomes -/
def objOf (o : Opts) (f : FileRec) : Obj :=
  match f.kind with
  | .dir => .dir (attrOfRec o f) (mtimeOf f)
  | .reg => .file f.data (attrOfRec o f) (mtimeOf f)
  | .symlink => .symlink f.target (linkAttrOfRec o f) (mtimeOf f)
  | _ => .dev (mknodType (metaOf f)) f.major.toNat f.minor.toNat (attrOfRec o f) (mtimeOf f)

/-! ### paths -/

theorem not_prefix_snoc_self (p : RPath) (c : Name) : ¬ p ++ [c] <+: p := by
  intro h
  have := h.length_le
  simp at this
  omega

/-- the child regions of one directory are disjoint -/
theorem region_unique {par q : RPath} {b b' : Name} (h : par ++ [b] <+: q) (h' : par ++ [b'] <+: q) :
    b = b' := by
  have h1 := List.prefix_of_prefix_length_le h h' (by simp)
  have := h1.eq_of_length (by simp)
  simpa using this

theorem lookup_none_of_keys {β} {l : List (RPath × β)} {q : RPath} (h : ∀ e ∈ l, e.1 ≠ q) :
    l.lookup q = none := by
  rw [List.lookup_eq_none_iff]
  intro e he
  have := h e he
  simpa using fun hh => this hh.symm

theorem mem_of_lookup_some {β} {l : List (RPath × β)} {q : RPath} {x : β} (h : l.lookup q = some x) :
    (q, x) ∈ l := by
  obtain ⟨l₁, l₂, rfl, _⟩ := List.lookup_eq_some_iff.1 h
  simp

/-! ### before and after `finish` -/

/-- `chtimes` with the recorded time, if one is recorded for this path -/
def withTime (t : Option Nat) (x : Option Obj) : Option Obj :=
  match t with
  | some τ => x.map (·.withMtime (some τ))
  | none => x

theorem withTime_none_right (t : Option Nat) : withTime t none = none := by
  cases t <;> rfl

end Desync.LFS

namespace Desync
open LFS

mutual
/-- the objects a tree whose top record sits at the real path `path` consists of, in pre-order.
    `fin = true`: after `finish`; `fin = false`: when the last node has been written but `finish` has
    not run yet — a directory that got children has lost its mtime to the kernel. -/
def Tree.lay (fin : Bool) (o : Opts) (path : RPath) : Tree → List (RPath × Obj)
  | .leaf f => [(path, objOf o f)]
  | .dir f cs =>
    (path, .dir (attrOfRec o f) (if fin || cs.isEmpty then mtimeOf f else none)) ::
      Tree.layList fin o path cs
def Tree.layList (fin : Bool) (o : Opts) (par : RPath) : List Tree → List (RPath × Obj)
  | [] => []
  | t :: ts => t.lay fin o (par ++ [t.hd.base]) ++ Tree.layList fin o par ts
end

/-- expected content for a tree whose top record sits at `par ++ [base]` -/
def Tree.expect (o : Opts) (par : RPath) (t : Tree) : List (RPath × Obj) :=
  t.lay true o (par ++ [t.hd.base])

/-- expected content for the children of the directory `par` -/
def Tree.expectList (o : Opts) (par : RPath) (ts : List Tree) : List (RPath × Obj) :=
  Tree.layList true o par ts

theorem Tree.expectList_nil (o : Opts) (par : RPath) : Tree.expectList o par [] = [] := by
  simp [Tree.expectList, Tree.layList]

theorem Tree.expectList_cons (o : Opts) (par : RPath) (t : Tree) (ts : List Tree) :
    Tree.expectList o par (t :: ts) = t.expect o par ++ Tree.expectList o par ts := by
  simp [Tree.expectList, Tree.expect, Tree.layList]

theorem Tree.expect_leaf (o : Opts) (par : RPath) (f : FileRec) :
    (Tree.leaf f).expect o par = [(par ++ [f.base], objOf o f)] := by
  simp [Tree.expect, Tree.lay, Tree.hd]

theorem Tree.expect_dir (o : Opts) (par : RPath) (f : FileRec) (cs : List Tree) :
    (Tree.dir f cs).expect o par =
      (par ++ [f.base], .dir (attrOfRec o f) (mtimeOf f)) :: Tree.expectList o (par ++ [f.base]) cs := by
  simp [Tree.expect, Tree.expectList, Tree.lay, Tree.hd]

mutual
/-- the directory mtimes `createDir` records, in the order it records them -/
def Tree.times (path : RPath) : Tree → List (RPath × Nat)
  | .leaf _ => []
  | .dir f cs => (if f.mtime = 0 then [] else [(path, f.mtime.toNat)]) ++ Tree.timesList path cs
def Tree.timesList (par : RPath) : List Tree → List (RPath × Nat)
  | [] => []
  | t :: ts => t.times (par ++ [t.hd.base]) ++ Tree.timesList par ts
end

mutual
/-- names fit `NAME_MAX`, and the children of one directory have pairwise distinct names (the name of
    the top record itself is the business of the directory holding it) -/
def Tree.Names : Tree → Prop
  | .leaf _ => True
  | .dir _ cs => (cs.map fun c => c.hd.base).Nodup ∧ Tree.NamesList cs
def Tree.NamesList : List Tree → Prop
  | [] => True
  | t :: ts => t.hd.base.length ≤ 255 ∧ t.Names ∧ Tree.NamesList ts
end

/-! ### keys of `lay` and `times` -/

mutual
theorem Tree.lay_keys (fin : Bool) (o : Opts) :
    (t : Tree) → ∀ (path : RPath), ∀ e ∈ t.lay fin o path, path <+: e.1
  | .leaf f, path, e, he => by
    simp only [Tree.lay, List.mem_singleton] at he
    subst he; exact List.prefix_refl _
  | .dir f cs, path, e, he => by
    simp only [Tree.lay, List.mem_cons] at he
    rcases he with rfl | he
    · exact List.prefix_refl _
    · obtain ⟨t, _, ht⟩ := Tree.layList_keys fin o cs path e he
      exact (List.prefix_append _ _).trans ht
theorem Tree.layList_keys (fin : Bool) (o : Opts) :
    (ts : List Tree) → ∀ (par : RPath), ∀ e ∈ Tree.layList fin o par ts,
      ∃ t ∈ ts, par ++ [t.hd.base] <+: e.1
  | [], par, e, he => by simp [Tree.layList] at he
  | t :: ts, par, e, he => by
    simp only [Tree.layList, List.mem_append] at he
    rcases he with he | he
    · exact ⟨t, by simp, Tree.lay_keys fin o t _ e he⟩
    · obtain ⟨t', ht', h⟩ := Tree.layList_keys fin o ts par e he
      exact ⟨t', by simp [ht'], h⟩
end

mutual
theorem Tree.times_keys : (t : Tree) → ∀ (path : RPath), ∀ e ∈ t.times path, path <+: e.1
  | .leaf f, path, e, he => by simp [Tree.times] at he
  | .dir f cs, path, e, he => by
    simp only [Tree.times, List.mem_append] at he
    rcases he with he | he
    · split at he
      · simp at he
      · simp only [List.mem_singleton] at he
        subst he; exact List.prefix_refl _
    · obtain ⟨t, _, ht⟩ := Tree.timesList_keys cs path e he
      exact (List.prefix_append _ _).trans ht
theorem Tree.timesList_keys :
    (ts : List Tree) → ∀ (par : RPath), ∀ e ∈ Tree.timesList par ts,
      ∃ t ∈ ts, par ++ [t.hd.base] <+: e.1
  | [], par, e, he => by simp [Tree.timesList] at he
  | t :: ts, par, e, he => by
    simp only [Tree.timesList, List.mem_append] at he
    rcases he with he | he
    · exact ⟨t, by simp, Tree.times_keys t _ e he⟩
    · obtain ⟨t', ht', h⟩ := Tree.timesList_keys ts par e he
      exact ⟨t', by simp [ht'], h⟩
end

theorem Tree.lay_lookup_none {fin : Bool} {o : Opts} {t : Tree} {path q : RPath} (h : ¬ path <+: q) :
    (t.lay fin o path).lookup q = none :=
  lookup_none_of_keys fun e he hq => h (hq ▸ Tree.lay_keys fin o t path e he)

theorem Tree.times_lookup_none {t : Tree} {path q : RPath} (h : ¬ path <+: q) :
    (t.times path).lookup q = none :=
  lookup_none_of_keys fun e he hq => h (hq ▸ Tree.times_keys t path e he)

theorem Tree.layList_lookup_none {fin : Bool} {o : Opts} {ts : List Tree} {par q : RPath}
    (h : ∀ t ∈ ts, ¬ par ++ [t.hd.base] <+: q) : (Tree.layList fin o par ts).lookup q = none :=
  lookup_none_of_keys fun e he hq => by
    obtain ⟨t, ht, hp⟩ := Tree.layList_keys fin o ts par e he
    exact h t ht (hq ▸ hp)

theorem Tree.timesList_lookup_none {ts : List Tree} {par q : RPath}
    (h : ∀ t ∈ ts, ¬ par ++ [t.hd.base] <+: q) : (Tree.timesList par ts).lookup q = none :=
  lookup_none_of_keys fun e he hq => by
    obtain ⟨t, ht, hp⟩ := Tree.timesList_keys ts par e he
    exact h t ht (hq ▸ hp)

theorem Tree.layList_lookup_region {fin : Bool} {o : Opts} {ts : List Tree} {par q : RPath} {x : Obj}
    (h : (Tree.layList fin o par ts).lookup q = some x) : ∃ t ∈ ts, par ++ [t.hd.base] <+: q := by
  obtain ⟨t, ht, hp⟩ := Tree.layList_keys fin o ts par _ (mem_of_lookup_some h)
  exact ⟨t, ht, hp⟩

theorem Tree.lay_lookup_region {fin : Bool} {o : Opts} {t : Tree} {path q : RPath} {x : Obj}
    (h : (t.lay fin o path).lookup q = some x) : path <+: q :=
  Tree.lay_keys fin o t path _ (mem_of_lookup_some h)

/-- no child region contains the directory itself -/
theorem no_region_self (ts : List Tree) (par : RPath) : ∀ t ∈ ts, ¬ par ++ [t.hd.base] <+: par :=
  fun _ _ => not_prefix_snoc_self _ _

/-- with distinct sibling names, a path in the first child's region is in no other child's region -/
theorem other_regions {t : Tree} {ts : List Tree} {par q : RPath}
    (hnd : ((t :: ts).map fun c => c.hd.base).Nodup) (h : par ++ [t.hd.base] <+: q) :
    ∀ t' ∈ ts, ¬ par ++ [t'.hd.base] <+: q := by
  intro t' ht' h'
  have hb := region_unique h h'
  simp only [List.map_cons, List.nodup_cons, List.mem_map, not_exists, not_and] at hnd
  exact hnd.1 t' ht' hb.symm

/-! ### before and after `finish` (continued) -/

mutual
theorem Tree.lay_fin (o : Opts) : (t : Tree) → ∀ (path q : RPath), t.Names →
    (t.lay true o path).lookup q =
      withTime ((t.times path).lookup q) ((t.lay false o path).lookup q)
  | .leaf f, path, q, _ => by simp [Tree.lay, Tree.times, withTime]
  | .dir f cs, path, q, hn => by
    simp only [Tree.Names] at hn
    have ih := Tree.layList_fin o cs path q hn.1 hn.2
    by_cases hq : q = path
    · subst hq
      have h1 : (Tree.timesList q cs).lookup q = none :=
        Tree.timesList_lookup_none (no_region_self cs q)
      by_cases h0 : f.mtime = 0
      · simp [Tree.lay, Tree.times, h0, h1, withTime, mtimeOf]
      · simp [Tree.lay, Tree.times, h0, withTime, mtimeOf, Obj.withMtime]
    · have hb : (q == path) = false := by simpa using hq
      have h1 : (if f.mtime = 0 then [] else [(path, f.mtime.toNat)]).lookup q = none := by
        split
        · rfl
        · simp [List.lookup_cons, hb]
      simp only [Tree.lay, Tree.times, List.lookup_cons, hb, List.lookup_append, h1, Option.none_or]
      exact ih
theorem Tree.layList_fin (o : Opts) : (ts : List Tree) → ∀ (par q : RPath),
    (ts.map fun c => c.hd.base).Nodup → Tree.NamesList ts →
    (Tree.layList true o par ts).lookup q =
      withTime ((Tree.timesList par ts).lookup q) ((Tree.layList false o par ts).lookup q)
  | [], par, q, _, _ => by simp [Tree.layList, Tree.timesList, withTime]
  | t :: ts, par, q, hnd, hn => by
    simp only [Tree.NamesList] at hn
    have hnd' : (ts.map fun c => c.hd.base).Nodup := by
      simp only [List.map_cons, List.nodup_cons] at hnd; exact hnd.2
    simp only [Tree.layList, Tree.timesList, List.lookup_append]
    by_cases hr : par ++ [t.hd.base] <+: q
    · have ho := other_regions hnd hr
      rw [Tree.layList_lookup_none ho, Tree.layList_lookup_none ho, Tree.timesList_lookup_none ho]
      simp only [Option.or_none]
      exact Tree.lay_fin o t _ q hn.2.1
    · rw [Tree.lay_lookup_none hr, Tree.lay_lookup_none hr, Tree.times_lookup_none hr]
      simp only [Option.none_or]
      exact Tree.layList_fin o ts par q hnd' hn.2.2
end

end Desync
