/-
  Sensitivity of the attribute model of `Model/LocalFS.lean`: the order of `chown` and `chmod` in
  `setPerms` matters.  `chown` of a non-directory clears the set-user-ID bit (and the set-group-ID bit
  when group-execute is set), so `chmod` has to come last — as it does in localfs.go — for the archived
  set-id bits to survive; a directory keeps its set-group-ID bit across `chown`.  Also: the no-follow
  time stamp call sets a symbolic link's own mtime and leaves the link's target alone.  Concrete file
  systems, everything by evaluation.
-/
import Desync.Model.LocalFS

namespace Desync.LFS.AttrOrder

def nF : Name := [102]                                  -- "f"

/-- one regular file "/f", attributes as `open(O_CREAT)` leaves them -/
def fsFile : FS := [([nF], .file [97] {} none)]
/-- one directory "/f" with mode 02775 -/
def fsDir : FS := [([nF], .dir { owner := some (0, 0), mode := some 0o2775 } none)]
/-- one regular file "/f" with mode 06755 (set-user-ID, set-group-ID, group-execute) -/
def fsBoth : FS := [([nF], .file [97] { owner := some (0, 0), mode := some 0o6755 } none)]
/-- one regular file "/f" with mode 02745 (set-group-ID without group-execute: mandatory-locking mark) -/
def fsLock : FS := [([nF], .file [97] { owner := some (0, 0), mode := some 0o2745 } none)]

/-- the object at "/f" after a sequence of calls (`none` when a call failed) -/
def objAfter (r : Except Err FS) : Option Obj :=
  match r with
  | .ok fs => fs.get [nF]
  | .error _ => none

/-- the error of a call (`none` when it succeeded) -/
def errOf (r : Except Err FS) : Option Err :=
  match r with
  | .ok _ => none
  | .error e => some e

def chmodThenChown (fs : FS) (mode uid gid : Nat) : Except Err FS := do
  let fs ← chmod fs [nF] mode
  chown fs true [nF] uid gid

def chownThenChmod (fs : FS) (mode uid gid : Nat) : Except Err FS := do
  let fs ← chown fs true [nF] uid gid
  chmod fs [nF] mode

/-- the order matters: chmod 04755 followed by chown loses the set-user-ID bit on a regular file, chown
    followed by chmod keeps it -/
theorem chmod_then_chown_loses_setuid :
    objAfter (chmodThenChown fsFile 0o4755 1000 100) =
      some (.file [97] { owner := some (1000, 100), mode := some 0o755 } none) ∧
    objAfter (chownThenChmod fsFile 0o4755 1000 100) =
      some (.file [97] { owner := some (1000, 100), mode := some 0o4755 } none) := by
  decide

/-- the same for the set-group-ID bit of an executable (02755) -/
theorem chmod_then_chown_loses_setgid :
    objAfter (chmodThenChown fsFile 0o2755 1000 100) =
      some (.file [97] { owner := some (1000, 100), mode := some 0o755 } none) ∧
    objAfter (chownThenChmod fsFile 0o2755 1000 100) =
      some (.file [97] { owner := some (1000, 100), mode := some 0o2755 } none) := by
  decide

/-- a directory keeps its set-group-ID bit across chown -/
theorem chown_keeps_dir_setgid :
    objAfter (chown fsDir true [nF] 1000 100) =
      some (.dir { owner := some (1000, 100), mode := some 0o2775 } none) := by
  decide

/-- a regular file loses both set-id bits (group-execute set), but keeps set-group-ID without group-execute -/
theorem chown_clears_file_setid :
    objAfter (chown fsBoth true [nF] 1000 100) =
      some (.file [97] { owner := some (1000, 100), mode := some 0o755 } none) ∧
    objAfter (chown fsLock true [nF] 1000 100) =
      some (.file [97] { owner := some (1000, 100), mode := some 0o2745 } none) := by
  decide

/-- `clearSetID` on the bit patterns -/
theorem clearSetID_values :
    clearSetID 0o4755 = 0o755 ∧ clearSetID 0o2755 = 0o755 ∧ clearSetID 0o6755 = 0o755 ∧
    clearSetID 0o2745 = 0o2745 ∧ clearSetID 0o1777 = 0o1777 ∧ clearSetID 0o644 = 0o644 := by
  decide

/-- `setPerms` itself (chown, xattrs, chmod): the archived mode 04755 arrives with its set-user-ID bit -/
theorem setPerms_keeps_setuid :
    (match setPerms ⟨false, false⟩ fsFile [nF] ⟨1000, 100, 0o104755, 5, [([117, 115, 101, 114, 46, 97], [1])]⟩ with
      | .ok fs => fs.get [nF]
      | .error _ => none) =
      some (.file [97] { owner := some (1000, 100), mode := some 0o4755,
                         xattrs := [([117, 115, 101, 114, 46, 97], [1])] } none) := by
  decide

/-- `user.*` extended attributes: accepted on a regular file, refused on a symbolic link (no follow) -/
theorem user_xattr_on_link_refused :
    errOf (lsetxattr [([nF], .symlink [47] {} none)] [nF] [117, 115, 101, 114, 46, 97] [1]) = some .other ∧
    errOf (lsetxattr fsFile [nF] [117, 115, 101, 114, 46, 97] [1]) = none ∧
    objAfter (lsetxattr [([nF], .symlink [47] {} none)] [nF] [116, 114, 117, 115, 116, 101, 100, 46, 97] [1]) =
      some (.symlink [47] { xattrs := [([116, 114, 117, 115, 116, 101, 100, 46, 97], [1])] } none) := by
  decide

/-! ### time stamps through and on a symbolic link -/

def nL : Name := [108]                                  -- "l"

/-- a symbolic link "/l" -> "f" (its mtime the kernel's) and a regular file "/f" with mtime 3 -/
def fsLink : FS := [([nL], .symlink nF {} none), ([nF], .file [97] {} (some 3))]

/-- the file system after a call (`none` when it failed) -/
def fsAfter (r : Except Err FS) : Option FS :=
  match r with
  | .ok fs => some fs
  | .error _ => none

/-- `lchtimes` (utimensat with AT_SYMLINK_NOFOLLOW) on the link: the link gets the time, the file it points
    to keeps its own; `chtimes` (os.Chtimes, follows) on the same path: the other way round -/
theorem lchtimes_sets_link_not_target :
    fsAfter (lchtimes fsLink [nL] 9) =
      some [([nL], .symlink nF {} (some 9)), ([nF], .file [97] {} (some 3))] ∧
    fsAfter (chtimes fsLink [nL] 9) =
      some [([nF], .file [97] {} (some 9)), ([nL], .symlink nF {} none)] := by
  decide

end Desync.LFS.AttrOrder
