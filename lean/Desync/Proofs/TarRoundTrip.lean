/-
  (4) A single-file archive written by `tarStream` is read back by `untar`.
-/
import Desync.Proofs.TarBST
import Desync.Proofs.TarDecode

namespace Desync

/-! ### one step of `ArchiveDecoder.Next`, per element kind -/

theorem archLoop_entry (fuel : Nat) (st s' : St) (dir : Bytes) (skip : Nat)
    (xs : List (Bytes × Bytes)) (nm : Bytes) (sl : Option Bytes) (dv : Option (UInt64 × UInt64))
    (sz ff mode fl uid gid mt : UInt64) (nd : Nat) (rnd : Bool)
    (hd : decNext st = .ok (some (.entry sz ff mode fl uid gid mt), s')) :
    archLoop (fuel + 1) ⟨st, dir, none, skip, nd, rnd⟩ ⟨none, xs, nm, sl, dv⟩
      = archLoop fuel ⟨s', dir, none, skip, nd, rnd⟩ ⟨some (mode, uid, gid, mt), xs, nm, sl, dv⟩ := by
  rw [archLoop]
  simp [hd]

theorem archLoop_filename_finish (fuel : Nat) (st s' : St) (dir : Bytes) (skip : Nat)
    (e : UInt64 × UInt64 × UInt64 × UInt64) (xs : List (Bytes × Bytes)) (nm : Bytes)
    (sz : UInt64) (n : Bytes) (nd : Nat) (hadm : nd = 0 ∨ nm ≠ [])
    (hd : decNext st = .ok (some (.filename sz n), s')) :
    archLoop (fuel + 1) ⟨st, dir, none, skip, nd, false⟩ ⟨some e, xs, nm, none, none⟩
      = .ok (some (.dir (joinPath dir nm) (Pending.meta ⟨some e, xs, nm, none, none⟩)),
          ⟨s', joinPath dir nm, some (.filename sz n), skip, nd + 1, false⟩) := by
  rw [archLoop]
  rcases hadm with h | h <;> simp [hd, ArchDec.admit, h]

theorem archLoop_last_filename (fuel : Nat) (st : St) (dir : Bytes) (skip : Nat)
    (xs : List (Bytes × Bytes)) (nm : Bytes) (sl : Option Bytes) (dv : Option (UInt64 × UInt64))
    (sz : UInt64) (n : Bytes) (nd : Nat) (rnd : Bool) (hn : validName n = true) :
    archLoop (fuel + 1) ⟨st, dir, some (.filename sz n), skip, nd, rnd⟩ ⟨none, xs, nm, sl, dv⟩
      = archLoop fuel ⟨st, dir, none, skip, nd, rnd⟩ ⟨none, xs, n, sl, dv⟩ := by
  rw [archLoop]
  simp [hn]

theorem archLoop_payload (fuel : Nat) (st s' s'' : St) (dir : Bytes) (skip : Nat)
    (e : UInt64 × UInt64 × UInt64 × UInt64) (xs : List (Bytes × Bytes)) (nm : Bytes)
    (sl : Option Bytes) (dv : Option (UInt64 × UInt64))
    (sz : UInt64) (data : Bytes) (nd : Nat) (hnm : nm ≠ [])
    (hd : decNext st = .ok (some (.payload sz), s'))
    (ht : takePayload (sz.toNat - 16) s' = .ok (data, s'')) :
    archLoop (fuel + 1) ⟨st, dir, none, skip, nd, false⟩ ⟨some e, xs, nm, sl, dv⟩
      = .ok (some (.file (joinPath dir nm) (Pending.meta ⟨some e, xs, nm, sl, dv⟩) (sz - 16) data),
          ⟨s'', dir, none, skip, nd + 1, false⟩) := by
  rw [archLoop]
  simp [hd, ht, ArchDec.admit, hnm]

theorem archLoop_goodbye_pop (fuel : Nat) (st s' : St) (dir : Bytes) (skip : Nat)
    (xs : List (Bytes × Bytes)) (nm : Bytes) (sl : Option Bytes) (dv : Option (UInt64 × UInt64))
    (sz : UInt64) (items : List GoodbyeItem) (nd : Nat) (rnd : Bool)
    (hd : decNext st = .ok (some (.goodbye sz items), s')) :
    archLoop (fuel + 1) ⟨st, dir, none, skip, nd, rnd⟩ ⟨none, xs, nm, sl, dv⟩
      = archLoop fuel ⟨s', dirOf dir, none, skip, nd, rnd⟩ ⟨none, xs, nm, sl, dv⟩ := by
  rw [archLoop]
  simp [hd]

theorem archLoop_eof (fuel : Nat) (st s' : St) (dir : Bytes) (skip : Nat)
    (xs : List (Bytes × Bytes)) (nm : Bytes) (sl : Option Bytes) (dv : Option (UInt64 × UInt64))
    (nd : Nat) (rnd : Bool)
    (hd : decNext st = .ok (none, s')) :
    archLoop (fuel + 1) ⟨st, dir, none, skip, nd, rnd⟩ ⟨none, xs, nm, sl, dv⟩
      = .ok (none, ⟨s', dir, none, skip, nd, rnd⟩) := by
  rw [archLoop]
  simp [hd]

theorem decNext_nil (a : Nat) : decNext ⟨[], a⟩ = .ok (none, ⟨[], a⟩) := by
  simp [decNext, readU64]

theorem takePayload_append (x r : Bytes) (a : Nat) :
    takePayload x.length ⟨x ++ r, a⟩ = .ok (x, ⟨r, a⟩) := by
  simp [takePayload]

/-! ### the encoder side -/

theorem makeGoodbyeBST_singleton (x : GoodbyeItem) : makeGoodbyeBST [x] = some [x] := by
  have h := makeGoodbyeBST_isSome [x]
  cases hb : makeGoodbyeBST [x] with
  | none => rw [hb] at h; cases h
  | some bst =>
    have := makeGoodbyeBST_perm [x] bst hb
    rw [List.perm_singleton.mp this]

/-- the goodbye table of a directory whose only child is the regular file `f`:
    one item for the child and the tail item -/
def oneFileTable (f : FileRec) : List GoodbyeItem :=
  let child := (16 + f.base.length + 1) + (64 + (16 + f.data.length))
  [⟨UInt64.ofNat (64 + child) - 64, UInt64.ofNat child, sipHashName f.base⟩,
   ⟨UInt64.ofNat (64 + child), 64, Gen.CaFormatGoodbyeTailMarker⟩]

/-- the archive of a root directory with a single regular file, element by element -/
def oneFileArchive (root f : FileRec) : Bytes :=
  encElem (entryElem root) ++
    (encElem (.filename (UInt64.ofNat (16 + f.base.length + 1)) f.base) ++
      (encElem (entryElem f) ++
        (encElem (.payload (16 + f.size)) ++
          (f.data ++
            encElem (.goodbye (UInt64.ofNat (16 + (oneFileTable f).length * 24)) (oneFileTable f))))))

/-- when the size recorded for a file is the length of its content, `io.CopyN(w, data, size)`
    finds enough bytes ... -/
theorem size_toNat_of_u64len {f : FileRec} (hsz : f.size = u64len f.data)
    (hdata : f.data.length < 2 ^ 63) : f.size.toNat = f.data.length := by
  rw [hsz]; exact ofNat_toNat_of_lt (by omega)

theorem not_short_of_u64len {f : FileRec} (hsz : f.size = u64len f.data)
    (hdata : f.data.length < 2 ^ 63) : ¬ f.data.length < f.size.toNat := by
  rw [size_toNat_of_u64len hsz hdata]; omega

/-- ... and copies all of the content -/
theorem take_size_of_u64len {f : FileRec} (hsz : f.size = u64len f.data)
    (hdata : f.data.length < 2 ^ 63) : f.data.take f.size.toNat = f.data := by
  rw [size_toNat_of_u64len hsz hdata]; exact List.take_length

/-- (`hsz`, `hdata`: the payload writer copies exactly `f.size` bytes and fails on shorter content,
    so the encoder's output is `oneFileArchive` only when size and content agree) -/
theorem tarStream_one_file (root f : FileRec) (hrk : root.kind = .dir) (hrx : root.xattrs = [])
    (hfk : f.kind = .reg) (hfx : f.xattrs = []) (hpar : f.parent = root.path)
    (hsz : f.size = u64len f.data) (hdata : f.data.length < 2 ^ 63) :
    tarStream [root, f] = some (oneFileArchive root f) := by
  simp only [tarStream, tarOne, tarChildren, hrk, hrx, hfk, hfx, hpar, encXattrs,
    not_short_of_u64len hsz hdata, take_size_of_u64len hsz hdata,
    makeGoodbyeBST_singleton, List.length_cons, List.length_nil, ne_eq, not_true_eq_false,
    ↓reduceIte, List.flatMap_nil, List.append_nil, List.nil_append, List.map_cons, List.map_nil,
    Option.map_some, reduceCtorEq, List.cons_append]
  have h64 : (encElem (entryElem root)).length = 64 := (entryElem_size root).1
  have h64' : (encElem (entryElem f)).length = 64 := (entryElem_size f).1
  have hfn : (encElem (.filename (UInt64.ofNat (16 + f.base.length + 1)) f.base)).length
      = 16 + f.base.length + 1 := by simp [encElem, encU64s_length]; omega
  simp only [List.length_append, h64, h64', hfn, payload_size, oneFileArchive, oneFileTable,
    List.append_assoc, List.length_cons, List.length_nil]
  rfl

/-! ### the decoder side -/

theorem validName_ne_nil {n : Bytes} (h : validName n = true) : n ≠ [] := by
  intro hn; subst hn; simp [validName] at h

theorem payload_size_facts (data : Bytes) (h : data.length < 2 ^ 63) :
    (16 + u64len data).toNat = 16 + data.length ∧ 16 + u64len data - 16 = u64len data := by
  have hd : (u64len data).toNat = data.length := ofNat_toNat_of_lt (by omega)
  have h1 : (16 + u64len data).toNat = 16 + data.length := by
    rw [UInt64.toNat_add, hd]; simp; omega
  refine ⟨h1, ?_⟩
  apply UInt64.toNat_inj.mp
  rw [UInt64.toNat_sub_of_le _ _ (by rw [UInt64.le_iff_toNat_le, h1]; simp), h1, hd]
  simp

/-- first `Next`: the root entry is completed by the filename element that follows it -/
theorem next_root (root : FileRec) (n rest : Bytes) (a0 : Nat) (hn : 16 + n.length + 1 < 2 ^ 64) :
    ArchDec.next
        ⟨⟨encElem (entryElem root) ++
            (encElem (.filename (UInt64.ofNat (16 + n.length + 1)) n) ++ rest), a0⟩, [dot], none, 0, 0, false⟩
      = .ok (some (.dir [dot] ⟨root.uid, root.gid, root.mode, root.mtime, []⟩),
          ⟨⟨rest, a0 + n.length + 1⟩, [dot],
            some (.filename (UInt64.ofNat (16 + n.length + 1)) n), 0, 1, false⟩) := by
  have hd1 := decNext_entry_enc Gen.TarFeatureFlags root.mode 0 root.uid root.gid root.mtime
    (encElem (.filename (UInt64.ofNat (16 + n.length + 1)) n) ++ rest) a0
  have hd2 := decNext_filename_enc n rest a0 hn
  unfold ArchDec.next
  show archLoop (_ + 1 + 1) _ ⟨none, [], [], none, none⟩ = _
  unfold entryElem
  rw [archLoop_entry (hd := hd1), archLoop_filename_finish (hadm := .inl rfl) (hd := hd2)]
  simp [joinPath, Pending.meta]

/-- second `Next`: the pending filename, the file's entry and its payload -/
theorem next_file (f : FileRec) (sz : UInt64) (rest : Bytes) (a0 nd : Nat)
    (hname : validName f.base = true) (hsz : f.size = u64len f.data) (hdata : f.data.length < 2 ^ 63) :
    ArchDec.next
        ⟨⟨encElem (entryElem f) ++ (encElem (.payload (16 + f.size)) ++ (f.data ++ rest)), a0⟩,
          [dot], some (.filename sz f.base), 0, nd, false⟩
      = .ok (some (.file f.base ⟨f.uid, f.gid, f.mode, f.mtime, []⟩ f.size f.data),
          ⟨⟨rest, a0⟩, [dot], none, 0, nd + 1, false⟩) := by
  obtain ⟨h1, h2⟩ := payload_size_facts f.data hdata
  have hd1 := decNext_entry_enc Gen.TarFeatureFlags f.mode 0 f.uid f.gid f.mtime
    (encElem (.payload (16 + f.size)) ++ (f.data ++ rest)) a0
  have hd2 := decNext_payload_enc (16 + f.size) (f.data ++ rest) a0
    (by rw [hsz, h1]; omega) (by rw [hsz, h1]; omega)
  have hp : takePayload ((16 + f.size).toNat - 16) ⟨f.data ++ rest, a0⟩ = .ok (f.data, ⟨rest, a0⟩) := by
    rw [hsz, h1, Nat.add_sub_cancel_left]
    exact takePayload_append _ _ _
  unfold ArchDec.next
  obtain ⟨k, hk⟩ : ∃ k, (encElem (entryElem f) ++
      (encElem (.payload (16 + f.size)) ++ (f.data ++ rest))).length + 2 = k + 1 + 1 + 1 := by
    refine ⟨(encElem (.payload (16 + f.size)) ++ (f.data ++ rest)).length + 63, ?_⟩
    rw [List.length_append, (entryElem_size f).1]; omega
  show archLoop ((encElem (entryElem f) ++
      (encElem (.payload (16 + f.size)) ++ (f.data ++ rest))).length + 2) _
      ⟨none, [], [], none, none⟩ = _
  rw [hk]
  unfold entryElem
  rw [archLoop_last_filename (hn := hname), archLoop_entry (hd := hd1),
    archLoop_payload (hnm := validName_ne_nil hname) (hd := hd2) (ht := hp)]
  have hne := validName_ne_nil hname
  simp [joinPath, Pending.meta, hne, hsz, h2]

/-- third `Next`: the goodbye element closes the root directory and the input ends -/
theorem next_goodbye_end (items : List GoodbyeItem) (a0 : Nat) (nd : Nat) (rnd : Bool) (hne : items ≠ [])
    (htail : (items.getLast hne).hash = Gen.CaFormatGoodbyeTailMarker)
    (hlen : 16 + items.length * 24 < 2 ^ 64) :
    ArchDec.next
        ⟨⟨encElem (.goodbye (UInt64.ofNat (16 + items.length * 24)) items), a0⟩, [dot], none, 0, nd, rnd⟩
      = .ok (none, ⟨⟨[], a0 + 24 * items.length⟩, dirOf [dot], none, 0, nd, rnd⟩) := by
  have hd := decNext_goodbye_enc items [] a0 hne htail hlen
  rw [List.append_nil] at hd
  have hd2 := decNext_nil (a0 + 24 * items.length)
  unfold ArchDec.next
  show archLoop (_ + 1 + 1) _ ⟨none, [], [], none, none⟩ = _
  rw [archLoop_goodbye_pop (hd := hd), archLoop_eof (hd := hd2)]

theorem untar_one_file_archive (root f : FileRec) (hname : validName f.base = true)
    (hsz : f.size = u64len f.data) (hdata : f.data.length < 2 ^ 63)
    (hbase : 16 + f.base.length + 1 < 2 ^ 64) :
    untar (oneFileArchive root f)
      = .ok [.dir [dot] ⟨root.uid, root.gid, root.mode, root.mtime, []⟩,
             .file f.base ⟨f.uid, f.gid, f.mode, f.mtime, []⟩ f.size f.data] := by
  unfold untar
  obtain ⟨k, hk⟩ : ∃ k, (oneFileArchive root f).length + 2 = k + 1 + 1 + 1 := by
    refine ⟨(oneFileArchive root f).length - 1, ?_⟩
    have : 64 ≤ (oneFileArchive root f).length := by
      unfold oneFileArchive
      rw [List.length_append, (entryElem_size root).1]; omega
    omega
  rw [hk]
  unfold oneFileArchive
  show untarNodes _ ⟨⟨_, 0⟩, [dot], none, 0, 0, false⟩ [] = _
  rw [untarNodes, next_root root f.base _ 0 hbase]
  simp only [Res.ok_bind]
  rw [untarNodes, next_file f _ _ _ _ hname hsz hdata]
  simp only [Res.ok_bind]
  rw [untarNodes, next_goodbye_end (oneFileTable f) (0 + f.base.length + 1) _ _
    (by simp [oneFileTable]) (by simp [oneFileTable]) (by simp [oneFileTable])]
  simp

/-- (4) single-file round trip -/
theorem untar_tar_one_file (root f : FileRec)
    (hrk : root.kind = .dir) (hrx : root.xattrs = [])
    (hfk : f.kind = .reg) (hfx : f.xattrs = []) (hpar : f.parent = root.path)
    (hname : validName f.base = true) (hsz : f.size = u64len f.data)
    (hdata : f.data.length < 2 ^ 63) (hbase : 16 + f.base.length + 1 < 2 ^ 64) :
    ∃ b, tarStream [root, f] = some b ∧
      untar b = .ok [.dir [dot] ⟨root.uid, root.gid, root.mode, root.mtime, []⟩,
                     .file f.base ⟨f.uid, f.gid, f.mode, f.mtime, []⟩ f.size f.data] :=
  ⟨oneFileArchive root f, tarStream_one_file root f hrk hrx hfk hfx hpar hsz hdata,
    untar_one_file_archive root f hname hsz hdata hbase⟩

end Desync
