/-
  The statement skeletons of s3.go / sftp.go that `Model/RemoteStores.lean` was written against, and the regenerated
  obligations that the source still has them (`harness/extract/remotestorefacts.go`).  Read next to the model:

    remoteS3StoreSkel          ↔ `s3StoreChunk` / `s3PutLoop`   (`attempt++`, `_,err = PutObject`, `if attempt<ErrorRetry goto retry`,
                                                                 `return errors.Wrap(err, …)`)
    remoteS3GetSkel            ↔ `s3GetChunk` / `s3GetLoop`     (both `attempt<=ErrorRetry` retries, the `e.Code` switch)
    remoteS3HasSkel, remoteSftpHasSkel ↔ `s3HasChunk`, `sftpHasChunk`  (`return err==nil,nil`)
    remoteSftpStoreObjectSkel  ↔ `sftpStoreObject`              (Create, [Mkdir, Create], Copy [Remove], Close, PosixRename)
    remoteSftpGetSkel          ↔ `sftpGetChunk`
    remoteSftpPool…            ↔ `PoolM` with `finish true` only
-/
import Desync.Generated.Facts

namespace Desync.Remote.Expected

def remoteS3StoreSkel : List String := [
  "contentType := \"…\"",
  "name := s.nameFromID(chunk.ID())",
  "b,err := chunk.Data()",
  "if err!=nil",
  "{",
  "return err",
  "}",
  "b,err = s.converters.toStorage(b)",
  "if err!=nil",
  "{",
  "return err",
  "}",
  "var attempt int",
  "retry:",
  "attempt++",
  "_,err = s.client.PutObject(s.bucket,name,bytes.NewReader(b),int64(len(b)),minio.PutObjectOptions{ContentType:contentType})",
  "if err!=nil",
  "{",
  "if attempt<s.opt.ErrorRetry",
  "{",
  "goto retry",
  "}",
  "}",
  "return errors.Wrap(err,s.String())"]

def remoteS3GetSkel : List String := [
  "name := s.nameFromID(id)",
  "var attempt int",
  "retry:",
  "attempt++",
  "obj,err := s.client.GetObject(s.bucket,name,minio.GetObjectOptions{})",
  "if err!=nil",
  "{",
  "if attempt<=s.opt.ErrorRetry",
  "{",
  "goto retry",
  "}",
  "return nil,errors.Wrap(err,s.String())",
  "}",
  "defer obj.Close()",
  "b,err := ioutil.ReadAll(obj)",
  "if err!=nil",
  "{",
  "if attempt<=s.opt.ErrorRetry",
  "{",
  "goto retry",
  "}",
  "if e,ok := err.(minio.ErrorResponse); ok",
  "{",
  "switch e.Code",
  "{",
  "case \"NoSuchBucket\":",
  "err = fmt.Errorf(\"…\",s.bucket)",
  "case \"NoSuchKey\":",
  "err = ChunkMissing{ID:id}",
  "default:",
  "err = errors.Wrap(err,fmt.Sprintf(\"…\",id))",
  "}",
  "}",
  "return nil,err",
  "}",
  "return NewChunkFromStorage(id,b,s.converters,s.opt.SkipVerify)"]

def remoteS3HasSkel : List String := [
  "name := s.nameFromID(id)",
  "_,err := s.client.StatObject(s.bucket,name,minio.StatObjectOptions{})",
  "return err==nil,nil"]

def remoteSftpStoreObjectSkel : List String := [
  "tmpfile := name+strconv.Itoa(rand.Int())",
  "d := path.Dir(name)",
  "var errCount int",
  "retry:",
  "f,err := s.client.Create(tmpfile)",
  "if err!=nil",
  "{",
  "if errCount<1",
  "{",
  "s.client.Mkdir(d)",
  "errCount++",
  "goto retry",
  "}",
  "return errors.Wrap(err,\"…\")",
  "}",
  "if _,err := io.Copy(f,r); err!=nil",
  "{",
  "s.client.Remove(tmpfile)",
  "return errors.Wrap(err,\"…\")",
  "}",
  "if err = f.Close(); err!=nil",
  "{",
  "return errors.Wrap(err,\"…\")",
  "}",
  "return errors.Wrap(s.client.PosixRename(tmpfile,name),\"…\")"]

def remoteSftpStoreSkel : List String := [
  "c := <-s.pool",
  "defer func{s.pool <- c}()",
  "name := c.nameFromID(chunk.ID())",
  "b,err := chunk.Data()",
  "if err!=nil",
  "{",
  "return err",
  "}",
  "b,err = s.converters.toStorage(b)",
  "if err!=nil",
  "{",
  "return err",
  "}",
  "return c.StoreObject(name,bytes.NewReader(b))"]

def remoteSftpGetSkel : List String := [
  "c := <-s.pool",
  "defer func{s.pool <- c}()",
  "name := c.nameFromID(id)",
  "f,err := c.client.Open(name)",
  "if err!=nil",
  "{",
  "if os.IsNotExist(err)",
  "{",
  "err = ChunkMissing{id}",
  "}",
  "return nil,err",
  "}",
  "defer f.Close()",
  "b,err := ioutil.ReadAll(f)",
  "if err!=nil",
  "{",
  "return nil,errors.Wrapf(err,\"…\",name)",
  "}",
  "return NewChunkFromStorage(id,b,s.converters,c.opt.SkipVerify)"]

def remoteSftpHasSkel : List String := [
  "c := <-s.pool",
  "defer func{s.pool <- c}()",
  "name := c.nameFromID(id)",
  "_,err := c.client.Stat(name)",
  "return err==nil,nil"]

end Desync.Remote.Expected

