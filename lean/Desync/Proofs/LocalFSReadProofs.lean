/-
  The file-system level round trip FS₀ → archive → FS₁ through the reading side of `LocalFS`
  (`Model/LocalFSRead.lean`), `tar()` (`Model/Archive.lean`) and `UnTar` onto `LocalFS` (`Model/LocalFS.lean`).
-/
import Desync.Proofs.LocalFSReadBack
import Desync.Proofs.LocalFSDecFacts

namespace Desync.LFS
open Desync Desync.Mode

/-- what the archive format and `LocalFS` as a writer can carry of a record, beyond what holds of every record the
    reader produces: a node kind `tar()` archives (no fifo, no socket: those are skipped with a warning); xattr names
    without NUL, pairwise distinct, sizes in range (`XattrsOK`); no `user.*` attribute on a link or a device node
    (`XattrsFit`: the kernel refuses them); unless times are read as zero, a time other than 0 (`UnTar` sets no time for
    an archived 0); sizes in range -/
def Fits (nt : Bool) (f : FileRec) : Prop :=
  f.kind ≠ .other ∧ XattrsOK f.xattrs ∧ XattrsFit restoreAll f ∧ (nt = false → f.mtime ≠ 0) ∧
  (f.kind = .reg → f.data.length < 2 ^ 63) ∧ (f.kind = .symlink → 16 + f.target.length + 1 < 2 ^ 64)

/-- a record stream is representable: every record `Fits`, and a goodbye table for all of them would fit its size field -/
def Representable (nt : Bool) (recs : List FileRec) : Prop :=
  16 + (recs.length + 1) * 24 < 2 ^ 64 ∧ ∀ f ∈ recs, Fits nt f

end Desync.LFS

namespace Desync
open LFS

theorem FileRec.movedTo_self (f : FileRec) (p : Bytes) (h1 : f.path = p) (h2 : f.parent = dirOf p) :
    f.movedTo p = f := by
  cases f
  simp only [FileRec.movedTo] at *
  subst h1; subst h2; rfl

mutual
theorem Tree.placeAt_of_walked_aux : (t : Tree) → ∀ (p : Bytes), t.Walked p → t.placeAt p = t
  | .leaf f, p, h => by
    simp only [Tree.Walked] at h
    simp only [Tree.placeAt, FileRec.movedTo_self f p h.1 h.2.1]
  | .dir f cs, p, h => by
    simp only [Tree.Walked] at h
    simp only [Tree.placeAt, FileRec.movedTo_self f p h.1 h.2.1, Tree.placeListAt_of_walked cs p h.2.2.2.2]
theorem Tree.placeListAt_of_walked : (cs : List Tree) → ∀ (p : Bytes), Tree.WalkedList p cs →
    Tree.placeListAt p cs = cs
  | [], _, _ => by simp [Tree.placeListAt]
  | t :: ts, p, h => by
    simp only [Tree.WalkedList] at h
    simp only [Tree.placeListAt, Tree.placeAt_of_walked_aux t _ h.2.2.2.1, Tree.placeListAt_of_walked ts p h.2.2.2.2]
end

/-- a tree in walk order at `p` stays what it is when placed at `p` -/
theorem Tree.placeAt_of_walked : ∀ (t : Tree) (p : Bytes), t.Walked p → t.placeAt p = t :=
  Tree.placeAt_of_walked_aux

theorem Tree.placeAt_hd_base (t : Tree) (p : Bytes) : (t.placeAt p).hd.base = t.hd.base := by
  cases t <;> rfl

mutual
theorem Tree.body_placeAt : (t : Tree) → ∀ (p : Bytes), (t.placeAt p).body = t.body
  | .leaf f, p => by
    simp only [Tree.placeAt, Tree.body]
    rfl
  | .dir f cs, p => by
    have h1 : entryElem (f.movedTo p) = entryElem f := rfl
    have h2 : (f.movedTo p).xattrs = f.xattrs := rfl
    simp only [Tree.placeAt, Tree.body, h1, h2, Tree.bodies_placeListAt cs p, Tree.items_placeListAt cs p]
theorem Tree.bodies_placeListAt : (cs : List Tree) → ∀ (p : Bytes),
    Tree.bodies (Tree.placeListAt p cs) = Tree.bodies cs
  | [], _ => by simp [Tree.placeListAt]
  | t :: ts, p => by
    have h1 : fnameElem (t.placeAt (p ++ [slash] ++ t.hd.base)).hd = fnameElem t.hd := by
      simp only [fnameElem, Tree.placeAt_hd_base]
    simp only [Tree.placeListAt, Tree.bodies, h1, Tree.body_placeAt t, Tree.bodies_placeListAt ts p]
theorem Tree.items_placeListAt : (cs : List Tree) → ∀ (p : Bytes) (n : Nat),
    Tree.items n (Tree.placeListAt p cs) = Tree.items n cs
  | [], _, _ => by simp [Tree.placeListAt]
  | t :: ts, p, n => by
    have h1 : fnameElem (t.placeAt (p ++ [slash] ++ t.hd.base)).hd = fnameElem t.hd := by
      simp only [fnameElem, Tree.placeAt_hd_base]
    simp only [Tree.placeListAt, Tree.items, h1, Tree.body_placeAt t, Tree.placeAt_hd_base,
      Tree.items_placeListAt ts p]
end

theorem Tree.placeAt_hd_parent (t : Tree) (p : Bytes) : (t.placeAt p).hd.parent = dirOf p := by
  cases t <;> rfl

theorem Tree.placeListAt_map_base (p : Bytes) : ∀ cs : List Tree,
    (Tree.placeListAt p cs).map (fun c => c.hd.base) = cs.map (fun c => c.hd.base)
  | [] => by simp [Tree.placeListAt]
  | t :: ts => by
    simp only [Tree.placeListAt, List.map_cons, Tree.placeAt_hd_base, Tree.placeListAt_map_base p ts]

theorem strictSorted_iff_map {α} (key : α → Bytes) (l : List α) :
    StrictSorted key l ↔ StrictSorted id (l.map key) := by
  unfold StrictSorted
  rw [List.pairwise_map]
  rfl

mutual
/-- a tree in walk order somewhere is in walk order at `q` once placed at `q` -/
theorem Tree.walked_placeAt : (t : Tree) → ∀ (p0 q : Bytes), q ≠ [] → t.Walked p0 → (t.placeAt q).Walked q
  | .leaf f, p0, q, _, h => by
    simp only [Tree.Walked] at h
    simp only [Tree.placeAt, Tree.Walked]
    exact ⟨rfl, rfl, h.2.2⟩
  | .dir f cs, p0, q, hq, h => by
    simp only [Tree.Walked] at h
    simp only [Tree.placeAt, Tree.Walked]
    refine ⟨rfl, rfl, h.2.2.1, ?_, Tree.walkedList_placeListAt cs p0 q hq h.2.2.2.2⟩
    rw [strictSorted_iff_map, Tree.placeListAt_map_base, ← strictSorted_iff_map]
    exact h.2.2.2.1
theorem Tree.walkedList_placeListAt : (cs : List Tree) → ∀ (p0 q : Bytes), q ≠ [] → Tree.WalkedList p0 cs →
    Tree.WalkedList q (Tree.placeListAt q cs)
  | [], _, _, _, _ => by simp [Tree.placeListAt, Tree.WalkedList]
  | t :: ts, p0, q, hq, h => by
    simp only [Tree.WalkedList] at h
    simp only [Tree.placeListAt, Tree.WalkedList, Tree.placeAt_hd_base]
    refine ⟨h.1, h.2.1, ?_, Tree.walked_placeAt t _ _ (by simp) h.2.2.2.1,
      Tree.walkedList_placeListAt ts p0 q hq h.2.2.2.2⟩
    rw [Tree.placeAt_hd_parent]
    exact dirOf_snoc hq (validName_no_slash h.1)
end

mutual
/-- what holds of every record of a tree and does not depend on `path`/`parent` holds of the records of the placed tree -/
theorem Tree.records_placeAt_all (P : FileRec → Prop) (hP : ∀ f p, P f → P (f.movedTo p)) :
    (t : Tree) → ∀ (q : Bytes), (∀ f ∈ t.records, P f) → ∀ f ∈ (t.placeAt q).records, P f
  | .leaf f, q, h, g, hg => by
    simp only [Tree.placeAt, Tree.records, List.mem_singleton] at hg
    subst hg
    exact hP f q (h f (by simp [Tree.records]))
  | .dir f cs, q, h, g, hg => by
    simp only [Tree.placeAt, Tree.records, List.mem_cons] at hg
    rcases hg with rfl | hg
    · exact hP f q (h f (by simp [Tree.records]))
    · exact Tree.recordsList_placeListAt_all P hP cs q (fun g hg => h g (by simp [Tree.records, hg])) g hg
theorem Tree.recordsList_placeListAt_all (P : FileRec → Prop) (hP : ∀ f p, P f → P (f.movedTo p)) :
    (cs : List Tree) → ∀ (q : Bytes), (∀ f ∈ Tree.recordsList cs, P f) →
      ∀ f ∈ Tree.recordsList (Tree.placeListAt q cs), P f
  | [], _, _, g, hg => by simp [Tree.placeListAt, Tree.recordsList] at hg
  | t :: ts, q, h, g, hg => by
    simp only [Tree.placeListAt, Tree.recordsList, List.mem_append] at hg
    rcases hg with hg | hg
    · exact Tree.records_placeAt_all P hP t _ (fun g hg => h g (by simp [Tree.recordsList, hg])) g hg
    · exact Tree.recordsList_placeListAt_all P hP ts q (fun g hg => h g (by simp [Tree.recordsList, hg])) g hg
end

mutual
theorem Tree.records_placeAt_length : (t : Tree) → ∀ (q : Bytes), (t.placeAt q).records.length = t.records.length
  | .leaf f, q => by simp [Tree.placeAt, Tree.records]
  | .dir f cs, q => by
    simp only [Tree.placeAt, Tree.records, List.length_cons, Tree.recordsList_placeListAt_length cs q]
theorem Tree.recordsList_placeListAt_length : (cs : List Tree) → ∀ (q : Bytes),
    (Tree.recordsList (Tree.placeListAt q cs)).length = (Tree.recordsList cs).length
  | [], _ => by simp [Tree.placeListAt]
  | t :: ts, q => by
    simp only [Tree.placeListAt, Tree.recordsList, List.length_append, Tree.records_placeAt_length t,
      Tree.recordsList_placeListAt_length ts q]
end

theorem Tree.body_withBase (t : Tree) (b : Bytes) : (t.withBase b).body = t.body := by
  cases t <;> rfl

/-- the archive bytes of a tree do not depend on where it was read (paths are not archived; nor is the top's name) -/
theorem Tree.body_rootedAt (root : List Name) (t : Tree) : (t.rootedAt root).body = t.body := by
  unfold Tree.rootedAt
  rw [Tree.body_placeAt, Tree.body_withBase]

end Desync

namespace Desync.LFS
open Desync Desync.Mode

theorem table_size_mono (a b : Nat) (h : a ≤ b) (hb : 16 + (b + 1) * 24 < 2 ^ 64) : 16 + (a + 1) * 24 < 2 ^ 64 := by
  have : (a + 1) * 24 ≤ (b + 1) * 24 := Nat.mul_le_mul_right 24 (by omega)
  exact Nat.lt_of_le_of_lt (Nat.add_le_add_left this 16) hb

theorem Tree.records_length_pos (t : Tree) : 1 ≤ t.records.length := by
  rw [Tree.records_eq]; simp

theorem Tree.length_le_recordsList : ∀ cs : List Tree, cs.length ≤ (Tree.recordsList cs).length
  | [] => by simp
  | t :: ts => by
    have := Tree.records_length_pos t
    have := Tree.length_le_recordsList ts
    simp only [Tree.recordsList, List.length_cons, List.length_append]
    omega

mutual
theorem wf_tree_of_walked (nt : Bool) (N : Nat) (hN : 16 + (N + 1) * 24 < 2 ^ 64) :
    (t : Tree) → ∀ (p' par : Bytes) (anc : List Bytes), t.Walked p' → validName t.hd.base = true →
      t.hd.base.length ≤ 255 → t.hd.parent = par →
      (∀ f ∈ t.records, (f.kind ≠ .other → Shaped f) ∧ Fits nt f) → t.records.length ≤ N →
      (∀ a ∈ anc, a.length < p'.length) →
      t.WF par anc ∧ t.Names ∧ t.Plain ∧ t.Sorted
  | .leaf f, p', par, anc, hw, hvn, hbl, hpar, hr, _, _ => by
    simp only [Tree.Walked] at hw
    simp only [Tree.hd] at hvn hbl hpar
    obtain ⟨hsh, hfit⟩ := hr f (by simp [Tree.records])
    obtain ⟨hno, hxo, _, _, hdata, htgt⟩ := hfit
    have hkind : f.kind = .reg ∨ f.kind = .symlink ∨ f.kind = .device := by
      have h1 := hw.2.2
      cases hk : f.kind <;> simp_all
    refine ⟨?_, by simp [Tree.Names], by simp only [Tree.Plain]; exact hw.2.2, by simp [Tree.Sorted]⟩
    simp only [Tree.WF, LeafWF]
    refine ⟨hkind, hpar, hvn, by omega, fun h => ⟨(hsh hno).size.1 h, hdata h⟩, htgt, hxo⟩
  | .dir f cs, p', par, anc, hw, hvn, hbl, hpar, hr, hlen, hanc => by
    simp only [Tree.Walked] at hw
    simp only [Tree.hd] at hvn hbl hpar
    obtain ⟨hp, _, hk, hss, hwl⟩ := hw
    obtain ⟨_, hfit⟩ := hr f (by simp [Tree.records])
    simp only [Tree.records, List.length_cons] at hlen
    have h := wf_list_of_walked nt N hN cs p' (p' :: anc) hwl
      (fun g hg => hr g (by simp [Tree.records, hg])) (by omega)
      (by
        intro a ha
        rcases List.mem_cons.1 ha with rfl | ha
        · exact Nat.le_refl _
        · exact Nat.le_of_lt (hanc a ha))
    have hcl := Tree.length_le_recordsList cs
    refine ⟨?_, ?_, ?_, ?_⟩
    · simp only [Tree.WF]
      refine ⟨hk, hpar, ?_, hvn, by omega, hfit.2.1, by omega, ?_⟩
      · rw [hp]
        intro hmem
        have := hanc _ hmem
        omega
      · rw [hp]; exact h.1
    · simp only [Tree.Names]; exact ⟨hss.nodup, h.2.1⟩
    · simp only [Tree.Plain]; exact ⟨hk, h.2.2.1⟩
    · simp only [Tree.Sorted]; exact ⟨hss, h.2.2.2⟩
theorem wf_list_of_walked (nt : Bool) (N : Nat) (hN : 16 + (N + 1) * 24 < 2 ^ 64) :
    (cs : List Tree) → ∀ (p : Bytes) (anc : List Bytes), Tree.WalkedList p cs →
      (∀ f ∈ Tree.recordsList cs, (f.kind ≠ .other → Shaped f) ∧ Fits nt f) → (Tree.recordsList cs).length ≤ N →
      (∀ a ∈ anc, a.length ≤ p.length) →
      Tree.WFList p anc cs ∧ Tree.NamesList cs ∧ Tree.PlainList cs ∧ Tree.SortedList cs
  | [], _, _, _, _, _, _ => by simp [Tree.WFList, Tree.NamesList, Tree.PlainList, Tree.SortedList]
  | t :: ts, p, anc, hw, hr, hlen, hanc => by
    simp only [Tree.WalkedList] at hw
    obtain ⟨hvn, hbl, hpar, htw, hws⟩ := hw
    simp only [Tree.recordsList, List.length_append] at hlen
    have h1 := wf_tree_of_walked nt N hN t (p ++ [slash] ++ t.hd.base) p anc htw hvn hbl hpar
      (fun g hg => hr g (by simp [Tree.recordsList, hg])) (by omega)
      (by
        intro a ha
        have := hanc a ha
        simp only [List.length_append, List.length_singleton]
        omega)
    have h2 := wf_list_of_walked nt N hN ts p anc hws
      (fun g hg => hr g (by simp [Tree.recordsList, hg])) (by omega) hanc
    simp only [Tree.WFList, Tree.NamesList, Tree.PlainList, Tree.SortedList]
    exact ⟨⟨h1.1, h2.1⟩, ⟨hbl, h1.2.1, h2.2.1⟩, ⟨hvn, h1.2.2.1, h2.2.2.1⟩, ⟨h1.2.2.2, h2.2.2.2⟩⟩
end

/-- a tree in walk order whose records are of the reader's shape and representable is well-formed in the sense of the
    `tar`/`untar` theorems -/
theorem wf_of_walked (nt : Bool) (r : FileRec) (cs : List Tree) (p : Bytes)
    (hw : (Tree.dir r cs).Walked p)
    (hs : ∀ f ∈ (Tree.dir r cs).records, f.kind ≠ .other → Shaped f)
    (hrep : Representable nt (Tree.dir r cs).records) :
    Tree.WFList r.path [r.path] cs ∧ (Tree.dir r cs).Names ∧ (Tree.dir r cs).Plain ∧ (Tree.dir r cs).Sorted ∧
      16 + (cs.length + 1) * 24 < 2 ^ 64 := by
  have hw' := hw
  simp only [Tree.Walked] at hw'
  obtain ⟨hp, _, hk, hss, hwl⟩ := hw'
  have hrecs : ∀ f ∈ Tree.recordsList cs, (f.kind ≠ .other → Shaped f) ∧ Fits nt f := fun f hf =>
    ⟨hs f (by simp [Tree.records, hf]), hrep.2 f (by simp [Tree.records, hf])⟩
  have hN : 16 + ((Tree.recordsList cs).length + 1) * 24 < 2 ^ 64 := by
    have h1 : 16 + ((Tree.dir r cs).records.length + 1) * 24 < 2 ^ 64 := hrep.1
    refine table_size_mono _ _ ?_ h1
    simp [Tree.records]
  have h := wf_list_of_walked nt (Tree.recordsList cs).length hN cs p [p] hwl hrecs (Nat.le_refl _)
    (by intro a ha; simp only [List.mem_singleton] at ha; subst ha; exact Nat.le_refl _)
  rw [hp]
  refine ⟨h.1, ?_, ?_, ?_, ?_⟩
  · simp only [Tree.Names]; exact ⟨hss.nodup, h.2.1⟩
  · simp only [Tree.Plain]; exact ⟨hk, h.2.2.1⟩
  · simp only [Tree.Sorted]; exact ⟨hss, h.2.2.2⟩
  · exact table_size_mono _ _ (Tree.length_le_recordsList cs) hN

/-- reading a directory: as `readTree_walked`, and the top record is a directory record named after the directory -/
theorem readTree_dir (env : Env) (nt : Bool) (skip : RPath → Bool) (fs : FS) (root : List Name)
    (hv : FSValid fs) (hr : SrcRoot fs root) (hd : IsDir (fs.get root)) :
    ∃ (r : FileRec) (cs : List Tree), readTree env nt skip fs (absStr root) = some (.ok (Tree.dir r cs).records) ∧
      (Tree.dir r cs).Walked (absStr root) ∧ r.base = root.getLast?.getD [] ∧
      ∀ f ∈ (Tree.dir r cs).records, RecOK nt root f := by
  obtain ⟨o, ho⟩ := Option.isSome_iff_exists.1 hr.there
  have hl : lstatStr fs (absStr root) = .ok (root, o) := by
    rw [lstatStr_absStr fs root (srcRoot_good hr) hr.valid, ho]
  obtain ⟨es, hes, hcase⟩ := walkFrom_walked env nt (fun q => q ≠ root && skip q) fs hv (depth fs + 1) root o
    hr.ne hr.valid hr.short hr.above ho (by omega)
  have hwt : walkTree fs skip (absStr root) = some es := by
    unfold walkTree; rw [hl]; exact hes
  rcases hcase with ⟨_, _, hsk⟩ | ⟨t, htn, htw, hth, htr⟩
  · simp at hsk
  · have e := List.dropLast_concat_getLast hr.ne
    have hfacts := readerFile_facts env nt fs hv root.dropLast (root.getLast hr.ne) o
      (fun c hc => hr.valid c (List.dropLast_subset _ hc)) (hr.valid _ (List.getLast_mem hr.ne))
      (by rw [e]; exact ho)
    simp only [e, ← hth] at hfacts
    obtain ⟨_, _, hbase, hkind, _, _⟩ := hfacts
    have hod : o.isDir = true := by
      obtain ⟨a, m, hg⟩ := hd
      rw [ho] at hg
      cases hg; rfl
    have hread : readTree env nt skip fs (absStr root) = some (.ok t.records) := by
      unfold readTree; rw [hwt]; simp [htn]
    cases t with
    | leaf f =>
      simp only [Tree.Walked] at htw
      exact absurd (hkind.2 hod) htw.2.2
    | dir r cs =>
      refine ⟨r, cs, hread, htw, ?_, htr⟩
      rw [List.getLast?_eq_some_getLast hr.ne]
      exact hbase

/-- the destination of `UnTar` is a directory one can read from: what lies above it is what was there (the parent's
    mtime apart) -/
theorem srcRoot_of_untar (root : List Name) (fs : FS) (b : Bytes) (t : Tree)
    (hroot : RootOK fs root) (hshort : Short root) (hh : Holds (untarFS restoreAll root fs b).1 root t) :
    SrcRoot (untarFS restoreAll root fs b).1 root where
  ne := hroot.ne
  valid := hroot.comps_valid
  short := hshort
  above := by
    intro Q R e hQ
    have hpos : 0 < root.length := List.length_pos_iff.2 hroot.ne
    have hlen : Q.length < root.length := by
      have h1 := congrArg List.length e
      simp only [List.length_dropLast, List.length_append] at h1
      omega
    have hnp : ¬ root <+: Q := not_prefix_of_shorter hlen
    have hpre : Q <+: root := List.IsPrefix.trans (⟨R, e.symm⟩ : Q <+: root.dropLast) (List.dropLast_prefix _)
    have ht : root.take Q.length = Q := (List.prefix_iff_eq_take.1 hpre).symm
    have hQd : IsDir (fs.get Q) := by
      obtain ⟨a, m, hg⟩ := hroot.above Q.length (List.length_pos_iff.2 hQ) hlen
      rw [ht] at hg
      exact ⟨a, m, hg⟩
    obtain ⟨h1, h2⟩ := untar_fs_frame restoreAll root fs b hroot Q hnp
    by_cases hq : Q = root.dropLast
    · obtain ⟨a, m, m', h | h⟩ := h2 hq
      · exact ⟨a, m', h.2⟩
      · rw [h]; exact hQd
    · rw [h1 hq]; exact hQd
  there := by rw [hh.get_top]; rfl

/-- **`read_of_written_tree`**: for every well-formed tree of records (the hypotheses of `unpacking_creates_the_tree`, all
    options off) whose sibling names are sorted and whose records have the reader's shape and a time that survives,
    reading the directory that `UnTar` created from the tree's archive yields exactly the tree's records — kind, mode
    bits incl. set-id and sticky, owner, mtime (a link's own too), link target, xattrs, device numbers, size and
    content, in sorted sibling order — with the paths of the place they were unpacked to -/
theorem read_of_written_tree (env : Env) (nt : Bool) (root : List Name) (fs : FS) (r : FileRec) (cs : List Tree) (b : Bytes)
    (hroot : RootOK fs root) (hshort : Short root) (hfresh : ∀ p, root <+: p → fs.get p = none)
    (hrk : r.kind = .dir) (hrx : XattrsOK r.xattrs) (hsize : 16 + (cs.length + 1) * 24 < 2 ^ 64)
    (hcs : Tree.WFList r.path [r.path] cs) (hnames : (Tree.dir r cs).Names)
    (hfit : ∀ f ∈ (Tree.dir r cs).records, XattrsFit restoreAll f)
    (hb : tarStream (Tree.dir r cs).records = some b)
    (hsorted : (Tree.dir r cs).Sorted)
    (hshaped : ∀ f ∈ (Tree.dir r cs).records, Shaped f ∧ TimeOK nt f) :
    (untarFS restoreAll root fs b).2 = true ∧
    readTree env nt noSkip (untarFS restoreAll root fs b).1 (absStr root) =
      some (.ok ((Tree.dir r cs).rootedAt root).records) := by
  obtain ⟨hok, hget⟩ := untar_creates_tree restoreAll root fs r cs b hroot hshort hfresh hrk hrx hsize hcs hnames
    hfit hb
  refine ⟨hok, ?_⟩
  have hh : Holds (untarFS restoreAll root fs b).1 root (Tree.dir r cs) := by
    intro p hp
    rw [hget p hp]
    simp only [Tree.lay, Tree.expectList, Bool.true_or, if_true]
  have hsr : SrcRoot (untarFS restoreAll root fs b).1 root :=
    srcRoot_of_untar root fs b (Tree.dir r cs) hroot hshort hh
  have hpl : (Tree.dir r cs).Plain := by
    simp only [Tree.Plain]
    exact ⟨hrk, Tree.plainList_of_wf cs _ _ hcs⟩
  exact readTree_of_holds env nt _ root _ hsr hh hnames hpl hsorted hshaped

/-- **`fs_roundtrip`**: FS₀ --Tar(LocalFS)--> bytes --UnTar(LocalFS) onto a fresh directory--> FS₁.  For every valid file
    system and every directory in it whose record stream is representable: packing succeeds, unpacking succeeds, and
    reading the copy yields the records of the original, re-rooted at the copy's place (`Tree.rootedAt`: same names, kinds,
    modes, owners, times, targets, xattrs, device numbers, sizes, contents, in the same order); the archive of the copy is
    the archive of the original, byte for byte; and when the copy sits at a path of the same name (another machine, another
    mount) the two record streams are equal. -/
theorem fs_roundtrip (env : Env) (nt : Bool) (fs₀ fs₁ : FS) (root₀ root₁ : List Name)
    (hv : FSValid fs₀) (hr₀ : SrcRoot fs₀ root₀) (hd : IsDir (fs₀.get root₀))
    (hrep : ∀ recs, readTree env nt noSkip fs₀ (absStr root₀) = some (.ok recs) → Representable nt recs)
    (hroot₁ : RootOK fs₁ root₁) (hshort₁ : Short root₁) (hfresh : ∀ p, root₁ <+: p → fs₁.get p = none) :
    ∃ (t : Tree) (b : Bytes),
      readTree env nt noSkip fs₀ (absStr root₀) = some (.ok t.records) ∧ t.Walked (absStr root₀) ∧
      tarStream t.records = some b ∧
      (untarFS restoreAll root₁ fs₁ b).2 = true ∧
      readTree env nt noSkip (untarFS restoreAll root₁ fs₁ b).1 (absStr root₁) = some (.ok (t.rootedAt root₁).records) ∧
      tarStream (t.rootedAt root₁).records = some b ∧
      (root₁ = root₀ → readTree env nt noSkip (untarFS restoreAll root₁ fs₁ b).1 (absStr root₁) =
        readTree env nt noSkip fs₀ (absStr root₀)) := by
  obtain ⟨r, cs, hread, hw, hbase, hrec⟩ := readTree_dir env nt noSkip fs₀ root₀ hv hr₀ hd
  have hR := hrep _ hread
  have hs : ∀ f ∈ (Tree.dir r cs).records, f.kind ≠ .other → Shaped f := fun f hf => (hrec f hf).1
  obtain ⟨hcs, hnames, hplain, hsorted, hsize⟩ := wf_of_walked nt r cs _ hw hs hR
  have hrk : r.kind = .dir := by simp only [Tree.Plain] at hplain; exact hplain.1
  have hb := tarStream_tree r cs hrk hcs
  have hrx : XattrsOK r.xattrs := (hR.2 r (by simp [Tree.records])).2.1
  have hfit : ∀ f ∈ (Tree.dir r cs).records, XattrsFit restoreAll f := fun f hf => (hR.2 f hf).2.2.1
  have hshaped : ∀ f ∈ (Tree.dir r cs).records, Shaped f ∧ TimeOK nt f := by
    intro f hf
    obtain ⟨hno, _, _, htime, _, _⟩ := hR.2 f hf
    refine ⟨(hrec f hf).1 hno, ?_⟩
    unfold TimeOK
    cases nt
    · simpa using htime rfl
    · simpa using (hrec f hf).2.1 rfl
  obtain ⟨hok, hread₁⟩ := read_of_written_tree env nt root₁ fs₁ r cs _ hroot₁ hshort₁ hfresh hrk hrx hsize hcs hnames
    hfit hb hsorted hshaped
  refine ⟨Tree.dir r cs, (Tree.dir r cs).body, hread, hw, hb, hok, hread₁, ?_, ?_⟩
  · have hq : absStr root₁ ≠ [] := absStr_ne_nil _
    have heq : (Tree.dir r cs).rootedAt root₁ =
        Tree.dir (({ r with base := root₁.getLast?.getD [] } : FileRec).movedTo (absStr root₁))
          (Tree.placeListAt (absStr root₁) cs) := rfl
    have hw0 : (Tree.dir { r with base := root₁.getLast?.getD [] } cs).Walked (absStr root₀) := hw
    have hw1 : (Tree.dir (({ r with base := root₁.getLast?.getD [] } : FileRec).movedTo (absStr root₁))
          (Tree.placeListAt (absStr root₁) cs)).Walked (absStr root₁) := by
      have := Tree.walked_placeAt _ _ _ hq hw0
      simpa only [Tree.placeAt] using this
    have hP0 : ∀ f ∈ (Tree.dir { r with base := root₁.getLast?.getD [] } cs).records,
        (f.kind ≠ .other → Shaped f) ∧ Fits nt f := by
      intro f hf
      simp only [Tree.records, List.mem_cons] at hf
      rcases hf with rfl | hf
      · have h1 := hs r (by simp [Tree.records])
        have h2 : Fits nt r := hR.2 r (by simp [Tree.records])
        exact ⟨fun hk => ⟨(h1 hk).mode, (h1 hk).size, (h1 hk).data, (h1 hk).target, (h1 hk).dev, (h1 hk).xattrs⟩, h2⟩
      · exact ⟨hs f (by simp [Tree.records, hf]), hR.2 f (by simp [Tree.records, hf])⟩
    have hP1 : ∀ f ∈ (Tree.dir (({ r with base := root₁.getLast?.getD [] } : FileRec).movedTo (absStr root₁))
          (Tree.placeListAt (absStr root₁) cs)).records, (f.kind ≠ .other → Shaped f) ∧ Fits nt f := by
      have := Tree.records_placeAt_all (fun f => (f.kind ≠ .other → Shaped f) ∧ Fits nt f)
        (fun f p h => ⟨fun hk => ⟨(h.1 hk).mode, (h.1 hk).size, (h.1 hk).data, (h.1 hk).target, (h.1 hk).dev,
          (h.1 hk).xattrs⟩, h.2⟩) _ (absStr root₁) hP0
      simpa only [Tree.placeAt] using this
    have hlen : (Tree.dir (({ r with base := root₁.getLast?.getD [] } : FileRec).movedTo (absStr root₁))
          (Tree.placeListAt (absStr root₁) cs)).records.length = (Tree.dir r cs).records.length := by
      simp only [Tree.records, List.length_cons, Tree.recordsList_placeListAt_length]
    obtain ⟨hcs', _⟩ := wf_of_walked nt _ _ _ hw1 (fun f hf => (hP1 f hf).1)
      ⟨by rw [hlen]; exact hR.1, fun f hf => (hP1 f hf).2⟩
    have hb' := tarStream_tree _ _ (by exact hrk) hcs'
    rw [heq, hb', ← heq, Tree.body_rootedAt]
  · intro e
    have hself : (Tree.dir r cs).rootedAt root₀ = Tree.dir r cs := by
      unfold Tree.rootedAt
      rw [← hbase]
      have h1 : (Tree.dir r cs).withBase r.base = Tree.dir r cs := Tree.withBase_hd (Tree.dir r cs)
      rw [h1, Tree.placeAt_of_walked _ _ hw]
    rw [hread₁, hread, e, hself]

/-- **`tar_twice_identical`** for the disk source: the archive is a function of what lies below the root — not of the
    order in which the file system lists directory entries, not of anything outside the tree -/
theorem tar_of_disk_deterministic (env : Env) (nt : Bool) (skip : RPath → Bool) (fs fs' : FS) (root : List Name)
    (hv : FSValid fs) (hr : SrcRoot fs root) (hr' : SrcRoot fs' root)
    (h : ∀ p, root <+: p → fs.get p = fs'.get p) :
    (readTree env nt skip fs (absStr root)).map (fun r => r.toOption.bind tarStream) =
      (readTree env nt skip fs' (absStr root)).map (fun r => r.toOption.bind tarStream) := by
  rw [readTree_ext env nt skip fs fs' root hv hr hr' h]

/-- the archive `Tar` writes for a representable directory on disk is the closed form `Tree.body` of a tree in walk order
    (sibling names sorted at every level) -/
theorem disk_archive_is_sorted_tree_encoding (env : Env) (nt : Bool) (fs : FS) (root : List Name)
    (hv : FSValid fs) (hr : SrcRoot fs root) (hd : IsDir (fs.get root))
    (hrep : ∀ recs, readTree env nt noSkip fs (absStr root) = some (.ok recs) → Representable nt recs) :
    ∃ (r : FileRec) (cs : List Tree),
      readTree env nt noSkip fs (absStr root) = some (.ok (Tree.dir r cs).records) ∧
      (Tree.dir r cs).Walked (absStr root) ∧ (Tree.dir r cs).Sorted ∧
      tarStream (Tree.dir r cs).records = some (Tree.dir r cs).body := by
  obtain ⟨r, cs, hread, hw, _, hok⟩ := readTree_dir env nt noSkip fs root hv hr hd
  have hR := hrep _ hread
  obtain ⟨hwf, _, _, hs, _⟩ := wf_of_walked nt r cs (absStr root) hw (fun f hf => (hok f hf).1) hR
  have hk : r.kind = .dir := by
    simp only [Tree.Walked] at hw
    exact hw.2.2.1
  exact ⟨r, cs, hread, hw, hs, tarStream_tree r cs hk hwf⟩

end Desync.LFS
