/-
  The directory walk of `LocalFS` on the modelled file system: `lstat`/`readdir` along real directories, the record
  stream as a sorted pre-order `Tree` (`walk_is_sorted_preorder`), enough fuel, every object is sent, and the stream
  is a function of what lies under the root (`readTree_ext`).
-/
import Desync.Proofs.LocalFSReadDefs

namespace Desync.LFS
open Desync Desync.Mode

/-! ### lstat and readdir -/

/-- `Lstat` of a clean absolute path that runs along real directories: the object there, or ENOENT -/
theorem lstatStr_absStr (fs : FS) (q : List Name) (hG : Good fs q) (hq : ∀ c ∈ q, validName c = true) :
    lstatStr fs (absStr q) = (match fs.get q with
      | some o => .ok (q, o)
      | none => .error .noent) := by
  unfold lstatStr
  rw [if_neg (absStr_ne_nil q)]
  have hl : (absStr q).getLast? ≠ some slash := absStr_getLast q hG.ne hq
  simp only [hl, decide_false, Bool.false_and, comps_absStr q hq, resolve_nofollow hG, if_neg hG.ne]
  cases fs.get q <;> simp

theorem mem_dirNames (fs : FS) (q : RPath) (n : Name) : n ∈ dirNames fs q ↔ ∃ e ∈ fs, e.1 = q ++ [n] := by
  unfold dirNames
  rw [List.mem_filterMap]
  constructor
  · rintro ⟨e, he, h⟩
    refine ⟨e, he, ?_⟩
    split at h
    · rename_i hc
      obtain ⟨hne, hd⟩ := hc
      have h1 := List.dropLast_concat_getLast hne
      rw [List.getLast?_eq_some_getLast hne] at h
      rw [← h1, hd]
      simpa using h
    · cases h
  · rintro ⟨e, he, h⟩
    refine ⟨e, he, ?_⟩
    rw [h]; simp

theorem get_isSome_iff (fs : FS) (k : RPath) : (fs.get k).isSome = true ↔ ∃ e ∈ fs, e.1 = k := by
  constructor
  · intro h
    obtain ⟨o, ho⟩ := Option.isSome_iff_exists.1 h
    exact ⟨(k, o), mem_of_lookup_some ho, rfl⟩
  · rintro ⟨e, he, h⟩
    cases hg : fs.get k with
    | some _ => rfl
    | none =>
      exfalso
      have := List.lookup_eq_none_iff.1 hg e he
      simp [h] at this

/-- the sorted listing of a directory holds exactly the names under which something exists in it -/
theorem mem_readDirNames (fs : FS) (q : RPath) (n : Name) :
    n ∈ readDirNames fs q ↔ (fs.get (q ++ [n])).isSome = true := by
  unfold readDirNames
  rw [mem_sortBy_id, mem_dirNames, get_isSome_iff]

theorem readDirNames_sorted (fs : FS) (q : RPath) : StrictSorted id (readDirNames fs q) :=
  sortBy_sorted id _

/-- a key of the file system is at most `depth fs` long -/
theorem length_le_depth (fs : FS) (p : RPath) (h : (fs.get p).isSome = true) : p.length ≤ depth fs := by
  obtain ⟨e, he, rfl⟩ := (get_isSome_iff fs p).1 h
  clear h
  induction fs with
  | nil => cases he
  | cons x xs ih =>
    unfold depth
    rw [List.foldr_cons]
    rcases List.mem_cons.1 he with rfl | he
    · exact Nat.le_max_left _ _
    · exact Nat.le_trans (ih he) (Nat.le_max_right _ _)

/-! ### one record -/

theorem readerFile_mode_kind (env : Env) (nt : Bool) (path : Bytes) (rp : RPath) (o : Obj) (T : UInt32) (P : Nat)
    (hT : ArchType T ∨ SpecialType T) (hst : stMode env rp o = T ||| UInt32.ofNat (P % 4096)) :
    (readerFile env nt path rp o).mode = (T ||| UInt32.ofNat (P % 4096)).toUInt64 ∧
    (readerFile env nt path rp o).kind = kindOfFilemode (statToFilemode (T ||| UInt32.ofNat (P % 4096))) := by
  constructor
  · show (filemodeToStat (statToFilemode (stMode env rp o))).toUInt64 = _
    rw [hst, mode_read_back T hT P]
  · show kindOfFilemode (statToFilemode (stMode env rp o)) = _
    rw [hst]

/-- what `Next` makes of an object: a directory record exactly for a real directory; for every kind `tar()` archives
    a record of the reader's shape; time 0 under `NoTime`; path, parent and name of the place it was found at -/
theorem readerFile_facts (env : Env) (nt : Bool) (fs : FS) (hv : FSValid fs) (q : List Name) (n : Name) (o : Obj)
    (hq : ∀ c ∈ q, validName c = true) (hn : validName n = true) (ho : fs.get (q ++ [n]) = some o) :
    let f := readerFile env nt (absStr (q ++ [n])) (q ++ [n]) o
    f.path = absStr (q ++ [n]) ∧ f.parent = absStr q ∧ f.base = n ∧
    (f.kind = .dir ↔ o.isDir = true) ∧ (f.kind ≠ .other → Shaped f) ∧ (nt = true → f.mtime = 0) := by
  intro f
  have hqn : ∀ c ∈ q ++ [n], validName c = true := by
    intro c hc
    rcases List.mem_append.1 hc with hc | hc
    · exact hq c hc
    · simp at hc; subst hc; exact hn
  have hmem : (q ++ [n], o) ∈ fs := mem_of_lookup_some ho
  have hpath : f.path = absStr (q ++ [n]) := clean_absStr _ hqn
  have hparent : f.parent = absStr q := by
    show dirOf (clean _) = _
    rw [clean_absStr _ hqn, dirOf_absStr_snoc q n hn]
  have hbase : f.base = n := by
    show pathBase (osBasename _) = n
    rw [osBasename_absStr_snoc q n hn, pathBase_valid n hn]
  have htime : nt = true → f.mtime = 0 := by
    intro h; subst h; rfl
  have hx : StrictSorted Prod.fst f.xattrs := sortBy_sorted _ _
  have key : (f.kind = .dir ↔ o.isDir = true) ∧ (f.kind ≠ .other → Shaped f) := by
    cases o with
    | dir a m =>
      obtain ⟨hm, hk⟩ := readerFile_mode_kind env nt (absStr (q ++ [n])) (q ++ [n]) (.dir a m) S_IFDIR
        (a.mode.getD (env.mode (q ++ [n]))) (.inl (.inl rfl)) rfl
      rw [(kind_of_mode _ _).1 rfl] at hk
      have hm : f.mode = _ := hm
      have hk : f.kind = .dir := hk
      refine ⟨by simp [hk, Obj.isDir], fun _ => ?_⟩
      exact { mode := ⟨_, _, hm, .inl ⟨hk, rfl⟩⟩
              size := ⟨(by intro h; rw [hk] at h; cases h), (by intro h; rw [hk] at h; cases h), fun _ => rfl⟩
              data := fun _ => rfl
              target := fun _ => rfl
              dev := ⟨(by intro h; rw [hk] at h; cases h), fun _ => rdev_zero⟩
              xattrs := hx }
    | file d a m =>
      obtain ⟨hm, hk⟩ := readerFile_mode_kind env nt (absStr (q ++ [n])) (q ++ [n]) (.file d a m) S_IFREG
        (a.mode.getD (env.mode (q ++ [n]))) (.inl (.inr (.inl rfl))) rfl
      rw [(kind_of_mode _ _).2.1 rfl] at hk
      have hm : f.mode = _ := hm
      have hk : f.kind = .reg := hk
      refine ⟨by simp [hk, Obj.isDir], fun _ => ?_⟩
      exact { mode := ⟨_, _, hm, .inr (.inl ⟨hk, rfl⟩)⟩
              size := ⟨fun _ => rfl, (by intro h; rw [hk] at h; cases h),
                (by rintro (h | h) <;> rw [hk] at h <;> cases h)⟩
              data := fun h => absurd hk h
              target := fun _ => rfl
              dev := ⟨(by intro h; rw [hk] at h; cases h), fun _ => rdev_zero⟩
              xattrs := hx }
    | symlink t a m =>
      obtain ⟨hm, hk⟩ := readerFile_mode_kind env nt (absStr (q ++ [n])) (q ++ [n]) (.symlink t a m) S_IFLNK
        0o777 (.inl (.inr (.inr (.inl rfl)))) lnk_mode
      rw [(kind_of_mode _ _).2.2.1 rfl] at hk
      have hm : f.mode = _ := hm
      have hk : f.kind = .symlink := hk
      refine ⟨by simp [hk, Obj.isDir], fun _ => ?_⟩
      exact { mode := ⟨_, _, hm, .inr (.inr (.inl ⟨hk, rfl, rfl⟩))⟩
              size := ⟨(by intro h; rw [hk] at h; cases h), fun _ => rfl,
                (by rintro (h | h) <;> rw [hk] at h <;> cases h)⟩
              data := fun _ => rfl
              target := fun h => absurd hk h
              dev := ⟨(by intro h; rw [hk] at h; cases h), fun _ => rdev_zero⟩
              xattrs := hx }
    | dev ty ma mi a m =>
      have hty := hv.2 _ hmem ty ma mi a m rfl
      have hdev : ∀ T : UInt32, ty = T.toNat → ArchType T ∨ SpecialType T →
          f.mode = (T ||| UInt32.ofNat (a.mode.getD (env.mode (q ++ [n])) % 4096)).toUInt64 ∧
          f.kind = kindOfFilemode (statToFilemode (T ||| UInt32.ofNat (a.mode.getD (env.mode (q ++ [n])) % 4096))) := by
        intro T hT hA
        subst hT
        exact readerFile_mode_kind env nt (absStr (q ++ [n])) (q ++ [n]) (.dev T.toNat ma mi a m) T
          (a.mode.getD (env.mode (q ++ [n]))) hA (by simp only [stMode, ofNat_toNat_u32])
      have hdevice : ∀ T : UInt32, ty = T.toNat → (T = S_IFCHR ∨ T = S_IFBLK) →
          (f.kind = .dir ↔ (Obj.dev ty ma mi a m).isDir = true) ∧ (f.kind ≠ .other → Shaped f) := by
        intro T hT hcb
        obtain ⟨hm, hk⟩ := hdev T hT (by rcases hcb with h | h <;> simp [ArchType, h])
        rw [(kind_of_mode _ _).2.2.2.1 hcb] at hk
        refine ⟨by simp [hk, Obj.isDir], fun _ => ?_⟩
        exact { mode := ⟨_, _, hm, .inr (.inr (.inr ⟨hk, hcb⟩))⟩
                size := ⟨(by intro h; rw [hk] at h; cases h), (by intro h; rw [hk] at h; cases h), fun _ => rfl⟩
                data := fun _ => rfl
                target := fun _ => rfl
                dev := ⟨fun _ => rdev_ranges _, fun h => absurd hk h⟩
                xattrs := hx }
      have hspecial : ∀ T : UInt32, ty = T.toNat → (T = S_IFIFO ∨ T = S_IFSOCK) →
          (f.kind = .dir ↔ (Obj.dev ty ma mi a m).isDir = true) ∧ (f.kind ≠ .other → Shaped f) := by
        intro T hT hcb
        obtain ⟨hm, hk⟩ := hdev T hT (by rcases hcb with h | h <;> simp [SpecialType, h])
        rw [(kind_of_mode _ _).2.2.2.2 hcb] at hk
        exact ⟨by simp [hk, Obj.isDir], fun h => absurd hk h⟩
      rcases hty with h | h | h | h
      · exact hdevice _ h (.inl rfl)
      · exact hdevice _ h (.inr rfl)
      · exact hspecial _ h (.inl rfl)
      · exact hspecial _ h (.inr rfl)
  exact ⟨hpath, hparent, hbase, key.1, key.2, htime⟩

/-! ### the walk -/

/-- what is said of every record of a walk below `root` -/
def RecOK (nt : Bool) (root : List Name) (f : FileRec) : Prop :=
  (f.kind ≠ .other → Shaped f) ∧ (nt = true → f.mtime = 0) ∧ ∃ rel, f.path = absStr (root ++ rel)

theorem RecOK.up {nt : Bool} {q : List Name} {n : Name} {f : FileRec} (h : RecOK nt (q ++ [n]) f) : RecOK nt q f := by
  obtain ⟨h1, h2, rel, h3⟩ := h
  exact ⟨h1, h2, n :: rel, by rw [h3]; simp⟩

theorem nextAll_append (env : Env) (nt : Bool) : ∀ (a b : List WalkEntry) (ra rb : List FileRec),
    nextAll env nt a = .ok ra → nextAll env nt b = .ok rb → nextAll env nt (a ++ b) = .ok (ra ++ rb)
  | [], b, ra, rb, ha, hb => by
    simp only [nextAll] at ha; cases ha; simpa using hb
  | e :: es, b, ra, rb, ha, hb => by
    simp only [List.cons_append, nextAll] at ha ⊢
    cases hres : e.res with
    | error err => rw [hres] at ha; cases ha
    | ok po =>
      obtain ⟨rp, o⟩ := po
      rw [hres] at ha
      simp only at ha ⊢
      cases hes : nextAll env nt es with
      | error err => rw [hes] at ha; cases ha
      | ok r =>
        rw [hes] at ha
        cases ha
        rw [nextAll_append env nt es b r rb hes hb]
        rfl

theorem allDirs_snoc {fs : FS} {q : RPath} {n : Name} (h : AllDirs fs q) (hd : IsDir (fs.get (q ++ [n]))) :
    AllDirs fs (q ++ [n]) := by
  intro Q R e hQ
  by_cases hR : R = []
  · subst hR
    simp only [List.append_nil] at e
    subst e; exact hd
  · obtain ⟨R', hR'⟩ := proper_prefix_of_snoc e hR
    exact h Q R' hR'.symm hQ

theorem child_valid {fs : FS} (hv : FSValid fs) {q : RPath} {n : Name} (h : (fs.get (q ++ [n])).isSome = true) :
    validName n = true ∧ n.length ≤ 255 := by
  obtain ⟨e, he, hk⟩ := (get_isSome_iff fs _).1 h
  exact hv.1 e he n (by rw [hk]; simp)

/-- what `walk` does with one name of a directory listing -/
def childStep (fs : FS) (skip : RPath → Bool) (fuel : Nat) (path : Bytes) (name : Name) : Option (List WalkEntry) :=
  let filename := joinName path name
  match lstatStr fs filename with
  | .error e => some [(⟨filename, .error e⟩ : WalkEntry)]
  | .ok (rp', o') => walkFrom fs skip fuel filename rp' o'

theorem walkFrom_succ (fs : FS) (skip : RPath → Bool) (fuel : Nat) (path : Bytes) (rp : RPath) (o : Obj) :
    walkFrom fs skip (fuel + 1) path rp o =
      if !o.isDir then some [⟨path, .ok (rp, o)⟩]
      else if skip rp then some []
      else
        match (readDirNames fs rp).mapM (childStep fs skip fuel path) with
        | none => none
        | some subs => some (⟨path, .ok (rp, o)⟩ :: subs.flatten) := rfl

/-- the conclusion of `walkFrom_walked` -/
def WalkOK (env : Env) (nt : Bool) (skip : RPath → Bool) (fs : FS) (fuel : Nat) (q : RPath) (o : Obj) : Prop :=
  ∃ es, walkFrom fs skip fuel (absStr q) q o = some es ∧
    ((es = [] ∧ o.isDir = true ∧ skip q = true) ∨
     ∃ t : Tree, nextAll env nt es = .ok t.records ∧ t.Walked (absStr q) ∧
       t.hd = readerFile env nt (absStr q) q o ∧ ∀ f ∈ t.records, RecOK nt q f)

theorem valid_snoc {q : List Name} {n : Name} (hqv : ∀ c ∈ q, validName c = true) (hn : validName n = true) :
    ∀ c ∈ q ++ [n], validName c = true := by
  intro c hc
  rcases List.mem_append.1 hc with hc | hc
  · exact hqv c hc
  · simp at hc; subst hc; exact hn

theorem short_snoc {q : List Name} {n : Name} (hqs : Short q) (hn : n.length ≤ 255) : Short (q ++ [n]) := by
  intro c hc
  rcases List.mem_append.1 hc with hc | hc
  · exact hqs c hc
  · simp at hc; subst hc; exact hn

theorem good_snoc {fs : FS} {q : List Name} {n : Name} (hqv : ∀ c ∈ q, validName c = true) (hqs : Short q)
    (hd : AllDirs fs q) (hn : validName n = true) (hnl : n.length ≤ 255) : Good fs (q ++ [n]) :=
  good_child (root := q) (cs := []) (by simp) hqv hqs (by intro c hc; cases hc) (by intro c hc; cases hc) hn hnl hd

/-- a name of the listing of a real directory: `Lstat` of the joined path finds the object -/
theorem childStep_eq (fs : FS) (skip : RPath → Bool) (fuel : Nat) (q : RPath) (n : Name) (o' : Obj)
    (hqv : ∀ c ∈ q, validName c = true) (hqs : Short q) (hd : AllDirs fs q) (hn : validName n = true)
    (hnl : n.length ≤ 255) (ho : fs.get (q ++ [n]) = some o') :
    childStep fs skip fuel (absStr q) n = walkFrom fs skip fuel (absStr (q ++ [n])) (q ++ [n]) o' := by
  unfold childStep
  simp only [joinName_absStr q n hqv hn]
  rw [lstatStr_absStr fs (q ++ [n]) (good_snoc hqv hqs hd hn hnl) (valid_snoc hqv hn), ho]

/-- the loop of `walk` over (a tail of) the sorted listing of a real directory -/
theorem walk_children (env : Env) (nt : Bool) (skip : RPath → Bool) (fs : FS) (hv : FSValid fs) (fuel : Nat) (q : RPath)
    (hne : q ≠ []) (hqv : ∀ c ∈ q, validName c = true) (hqs : Short q) (hd : AllDirs fs q)
    (hfuel : depth fs < fuel + (q.length + 1))
    (ih : ∀ (q' : RPath) (o : Obj), q' ≠ [] → (∀ c ∈ q', validName c = true) → Short q' → AllDirs fs q'.dropLast →
      fs.get q' = some o → depth fs < fuel + q'.length → WalkOK env nt skip fs fuel q' o) :
    ∀ ns : List Name, StrictSorted id ns → (∀ n ∈ ns, (fs.get (q ++ [n])).isSome = true) →
      ∃ subs cs, ns.mapM (childStep fs skip fuel (absStr q)) = some subs ∧
        nextAll env nt subs.flatten = .ok (Tree.recordsList cs) ∧
        Tree.WalkedList (absStr q) cs ∧ (∀ c ∈ cs, c.hd.base ∈ ns) ∧
        StrictSorted (fun c : Tree => c.hd.base) cs ∧ ∀ f ∈ Tree.recordsList cs, RecOK nt q f
  | [], _, _ => ⟨[], [], by simp, by simp [nextAll, Tree.recordsList], by simp [Tree.WalkedList], by simp,
      by simp [StrictSorted], by simp [Tree.recordsList]⟩
  | n :: ns, hs, hex => by
    unfold StrictSorted at hs
    rw [List.pairwise_cons] at hs
    obtain ⟨subs, cs, hm, hnx, hw, hb, hss, hr⟩ :=
      walk_children env nt skip fs hv fuel q hne hqv hqs hd hfuel ih ns hs.2
        (fun m hm => hex m (List.mem_cons_of_mem _ hm))
    have hsome := hex n (by simp)
    obtain ⟨o', ho'⟩ := Option.isSome_iff_exists.1 hsome
    obtain ⟨hnv, hnl⟩ := child_valid hv hsome
    have hstep := childStep_eq fs skip fuel q n o' hqv hqs hd hnv hnl ho'
    obtain ⟨es, hes, hcase⟩ := ih (q ++ [n]) o' (by simp) (valid_snoc hqv hnv) (short_snoc hqs hnl)
      (by rw [List.dropLast_concat]; exact hd) ho' (by simp only [List.length_append, List.length_singleton]; omega)
    have hmap : (n :: ns).mapM (childStep fs skip fuel (absStr q)) = some (es :: subs) := by
      rw [List.mapM_cons, hstep, hes, hm]; rfl
    rcases hcase with ⟨rfl, _, _⟩ | ⟨t, htn, htw, hth, htr⟩
    · exact ⟨[] :: subs, cs, hmap, by simpa using hnx, hw, fun c hc => List.mem_cons_of_mem _ (hb c hc), hss, hr⟩
    · have hfacts := readerFile_facts env nt fs hv q n o' hqv hnv ho'
      simp only [← hth] at hfacts
      obtain ⟨hp, hpar, hbase, hkind, _, _⟩ := hfacts
      refine ⟨es :: subs, t :: cs, hmap, ?_, ?_, ?_, ?_, ?_⟩
      · rw [List.flatten_cons, Tree.recordsList]
        exact nextAll_append _ _ _ _ _ _ htn hnx
      · refine ⟨by rw [hbase]; exact hnv, by rw [hbase]; exact hnl, hpar, ?_, hw⟩
        rw [hbase, ← absStr_snoc q n hne]; exact htw
      · intro c hc
        rcases List.mem_cons.1 hc with rfl | hc
        · rw [hbase]; simp
        · exact List.mem_cons_of_mem _ (hb c hc)
      · unfold StrictSorted
        rw [List.pairwise_cons]
        refine ⟨?_, hss⟩
        intro c hc
        show bytesLt t.hd.base c.hd.base = true
        rw [hbase]
        exact hs.1 _ (hb c hc)
      · intro f hf
        rw [Tree.recordsList, List.mem_append] at hf
        rcases hf with hf | hf
        · exact (htr f hf).up
        · exact hr f hf

/-- the walk from an object at the end of a chain of real directories: it does not run out of fuel, and either the
    object is a directory on another file system (nothing is sent), or the entries it sends carry no error and
    `Next` turns them into the records of a tree in walk order whose top record is the object's -/
theorem walkFrom_walked (env : Env) (nt : Bool) (skip : RPath → Bool) (fs : FS) (hv : FSValid fs) :
    ∀ (fuel : Nat) (q : RPath) (o : Obj),
      q ≠ [] → (∀ c ∈ q, validName c = true) → Short q → AllDirs fs q.dropLast → fs.get q = some o →
      depth fs < fuel + q.length →
      ∃ es, walkFrom fs skip fuel (absStr q) q o = some es ∧
        ((es = [] ∧ o.isDir = true ∧ skip q = true) ∨
         ∃ t : Tree, nextAll env nt es = .ok t.records ∧ t.Walked (absStr q) ∧
           t.hd = readerFile env nt (absStr q) q o ∧ ∀ f ∈ t.records, RecOK nt q f) := by
  intro fuel
  induction fuel with
  | zero =>
    intro q o _ _ _ _ hget hfuel
    have := length_le_depth fs q (by rw [hget]; rfl)
    omega
  | succ fuel ih =>
    intro q o hne hqv hqs hd hget hfuel
    obtain ⟨q0, n, rfl⟩ : ∃ q0 n, q = q0 ++ [n] :=
      ⟨q.dropLast, q.getLast hne, (List.dropLast_concat_getLast hne).symm⟩
    rw [List.dropLast_concat] at hd
    have hq0v : ∀ c ∈ q0, validName c = true := fun c hc => hqv c (by simp [hc])
    have hnv : validName n = true := hqv n (by simp)
    obtain ⟨hp, hpar, hbase, hkind, hshape, htime⟩ := readerFile_facts env nt fs hv q0 n o hq0v hnv hget
    have hdo : dirOf (absStr (q0 ++ [n])) = absStr q0 := dirOf_absStr_snoc q0 n hnv
    have hrec : RecOK nt (q0 ++ [n]) (readerFile env nt (absStr (q0 ++ [n])) (q0 ++ [n]) o) :=
      ⟨hshape, htime, [], by rw [hp]; simp⟩
    rw [walkFrom_succ]
    by_cases hdir : o.isDir = true
    · by_cases hsk : skip (q0 ++ [n]) = true
      · exact ⟨[], by simp [hdir, hsk], .inl ⟨rfl, hdir, hsk⟩⟩
      · have hd' : AllDirs fs (q0 ++ [n]) := allDirs_snoc hd (by rw [hget]; exact isDir_of_isDir_eq hdir)
        obtain ⟨subs, cs, hm, hnx, hw, hb, hss, hr⟩ :=
          walk_children env nt skip fs hv fuel (q0 ++ [n]) hne hqv hqs hd' (by omega) ih
            (readDirNames fs (q0 ++ [n])) (readDirNames_sorted _ _) (fun m hm => (mem_readDirNames _ _ _).1 hm)
        refine ⟨⟨absStr (q0 ++ [n]), .ok (q0 ++ [n], o)⟩ :: subs.flatten, by simp [hdir, hsk, hm],
          .inr ⟨.dir (readerFile env nt (absStr (q0 ++ [n])) (q0 ++ [n]) o) cs, ?_, ?_, rfl, ?_⟩⟩
        · simp only [nextAll, hnx, Tree.records]
        · exact ⟨hp, by rw [hpar, hdo], hkind.2 hdir, hss, hw⟩
        · intro f hf
          rw [Tree.records, List.mem_cons] at hf
          rcases hf with rfl | hf
          · exact hrec
          · exact hr f hf
    · refine ⟨[⟨absStr (q0 ++ [n]), .ok (q0 ++ [n], o)⟩], by simp [hdir],
        .inr ⟨.leaf (readerFile env nt (absStr (q0 ++ [n])) (q0 ++ [n]) o), ?_, ?_, rfl, ?_⟩⟩
      · simp only [nextAll, Tree.records]
      · exact ⟨hp, by rw [hpar, hdo], fun h => hdir (hkind.1 h)⟩
      · intro f hf
        rw [Tree.records, List.mem_singleton] at hf
        subst hf
        exact hrec

theorem srcRoot_good {fs : FS} {root : List Name} (hr : SrcRoot fs root) : Good fs root := by
  refine ⟨normal_of_valid hr.valid, hr.short, hr.ne, ?_⟩
  intro Q R e hQ hR
  simp only [List.nil_append]
  have e' : root.dropLast ++ [root.getLast hr.ne] = Q ++ R := by
    rw [List.dropLast_concat_getLast]; exact e
  obtain ⟨R', hR'⟩ := proper_prefix_of_snoc e' hR
  exact hr.above Q R' hR'.symm hQ

/-- **`walk_is_sorted_preorder`**: reading any directory tree of a valid file system succeeds (no error entry, enough fuel),
    and the record stream is a pre-order traversal (`Tree.records`) in which the children of every directory appear in
    strictly increasing byte-wise name order, every record's parent is `path.Dir` of its path, a child's path is its
    directory's path joined with its name, only real directories have children (`Tree.Walked`), no record's path
    is outside the root, and every record of a kind `tar()` archives has the reader's shape -/
theorem readTree_walked (env : Env) (nt : Bool) (skip : RPath → Bool) (fs : FS) (root : List Name)
    (hv : FSValid fs) (hr : SrcRoot fs root) :
    ∃ t : Tree, readTree env nt skip fs (absStr root) = some (.ok t.records) ∧ t.Walked (absStr root) ∧
      ∀ f ∈ t.records, RecOK nt root f := by
  obtain ⟨o, ho⟩ := Option.isSome_iff_exists.1 hr.there
  have hl : lstatStr fs (absStr root) = .ok (root, o) := by
    rw [lstatStr_absStr fs root (srcRoot_good hr) hr.valid, ho]
  obtain ⟨es, hes, hcase⟩ := walkFrom_walked env nt (fun q => q ≠ root && skip q) fs hv (depth fs + 1) root o
    hr.ne hr.valid hr.short hr.above ho (by omega)
  have hwt : walkTree fs skip (absStr root) = some es := by
    unfold walkTree; rw [hl]; exact hes
  rcases hcase with ⟨_, _, hsk⟩ | ⟨t, htn, htw, _, htr⟩
  · simp at hsk
  · exact ⟨t, by unfold readTree; rw [hwt]; simp [htn], htw, htr⟩

theorem mapM_option_congr {α β} (f g : α → Option β) : ∀ (l : List α) (r : List β),
    (∀ a ∈ l, ∀ b, f a = some b → g a = some b) → l.mapM f = some r → l.mapM g = some r
  | [], r, _, h => by simpa using h
  | a :: l, r, hfg, h => by
    rw [List.mapM_cons] at h ⊢
    cases hfa : f a with
    | none => rw [hfa] at h; simp at h
    | some b =>
      rw [hfa] at h
      cases hl : l.mapM f with
      | none => rw [hl] at h; simp at h
      | some bs =>
        rw [hl] at h
        rw [hfg a (by simp) b hfa, mapM_option_congr f g l bs (fun a ha => hfg a (List.mem_cons_of_mem _ ha)) hl]
        exact h

theorem readDirNames_ext {fs fs' : FS} {q : RPath} (h : ∀ p, q <+: p → fs.get p = fs'.get p) :
    readDirNames fs q = readDirNames fs' q :=
  strictSorted_ext (readDirNames_sorted fs q) (readDirNames_sorted fs' q) fun n => by
    rw [mem_readDirNames, mem_readDirNames, h (q ++ [n]) (List.prefix_append _ _)]

/-- the entries the walk sends from `q` depend on what lies at and below `q` only (not on the fuel, if it is enough) -/
theorem walkFrom_ext (skip : RPath → Bool) (fs fs' : FS) (hv : FSValid fs) :
    ∀ (fuel fuel' : Nat) (q : RPath) (o : Obj) (es : List WalkEntry),
      q ≠ [] → (∀ c ∈ q, validName c = true) → Short q → AllDirs fs q.dropLast → AllDirs fs' q.dropLast →
      (∀ p, q <+: p → fs.get p = fs'.get p) → fs.get q = some o → depth fs' < fuel' + q.length →
      walkFrom fs skip fuel (absStr q) q o = some es → walkFrom fs' skip fuel' (absStr q) q o = some es := by
  intro fuel
  induction fuel with
  | zero => intro fuel' q o es _ _ _ _ _ _ _ _ h; simp [walkFrom] at h
  | succ fuel ih =>
    intro fuel' q o es hne hqv hqs hd hd' hag hget hfuel h
    have hget' : fs'.get q = some o := by rw [← hag q (List.prefix_refl q)]; exact hget
    cases fuel' with
    | zero =>
      have := length_le_depth fs' q (by rw [hget']; rfl)
      omega
    | succ fuel' =>
      rw [walkFrom_succ] at h ⊢
      by_cases hdir : o.isDir = true
      · by_cases hsk : skip q = true
        · simpa [hdir, hsk] using h
        · have hD : AllDirs fs q := by
            have := allDirs_snoc (n := q.getLast hne) hd
              (by rw [List.dropLast_concat_getLast hne, hget]; exact isDir_of_isDir_eq hdir)
            rwa [List.dropLast_concat_getLast hne] at this
          have hD' : AllDirs fs' q := by
            have := allDirs_snoc (n := q.getLast hne) hd'
              (by rw [List.dropLast_concat_getLast hne, hget']; exact isDir_of_isDir_eq hdir)
            rwa [List.dropLast_concat_getLast hne] at this
          simp only [hdir, hsk, Bool.not_true, Bool.false_eq_true, if_false] at h ⊢
          rw [← readDirNames_ext hag]
          cases hm : (readDirNames fs q).mapM (childStep fs skip fuel (absStr q)) with
          | none => rw [hm] at h; simp at h
          | some subs =>
            rw [hm] at h
            rw [mapM_option_congr _ (childStep fs' skip fuel' (absStr q)) _ subs ?_ hm]
            · exact h
            · intro n hn sub hsub
              have hsome := (mem_readDirNames _ _ _).1 hn
              obtain ⟨o', ho'⟩ := Option.isSome_iff_exists.1 hsome
              have ho'' : fs'.get (q ++ [n]) = some o' := by rw [← hag _ (List.prefix_append _ _)]; exact ho'
              obtain ⟨hnv, hnl⟩ := child_valid hv hsome
              rw [childStep_eq fs skip fuel q n o' hqv hqs hD hnv hnl ho'] at hsub
              rw [childStep_eq fs' skip fuel' q n o' hqv hqs hD' hnv hnl ho'']
              exact ih fuel' (q ++ [n]) o' sub (by simp) (valid_snoc hqv hnv) (short_snoc hqs hnl)
                (by rw [List.dropLast_concat]; exact hD) (by rw [List.dropLast_concat]; exact hD')
                (fun p hp => hag p (List.IsPrefix.trans (List.prefix_append _ _) hp)) ho'
                (by simp only [List.length_append, List.length_singleton]; omega) hsub
      · simpa [hdir] using h

/-- the stream does not depend on the order in which the file system lists its entries, on anything outside the root,
    nor on the fuel: two file systems that agree below the root are read alike -/
theorem readTree_ext (env : Env) (nt : Bool) (skip : RPath → Bool) (fs fs' : FS) (root : List Name)
    (hv : FSValid fs) (hr : SrcRoot fs root) (hr' : SrcRoot fs' root)
    (h : ∀ p, root <+: p → fs.get p = fs'.get p) :
    readTree env nt skip fs (absStr root) = readTree env nt skip fs' (absStr root) := by
  obtain ⟨o, ho⟩ := Option.isSome_iff_exists.1 hr.there
  have ho' : fs'.get root = some o := by rw [← h root (List.prefix_refl root)]; exact ho
  have hl : lstatStr fs (absStr root) = .ok (root, o) := by
    rw [lstatStr_absStr fs root (srcRoot_good hr) hr.valid, ho]
  have hl' : lstatStr fs' (absStr root) = .ok (root, o) := by
    rw [lstatStr_absStr fs' root (srcRoot_good hr') hr'.valid, ho']
  obtain ⟨es, hes, _⟩ := walkFrom_walked env nt (fun q => q ≠ root && skip q) fs hv (depth fs + 1) root o
    hr.ne hr.valid hr.short hr.above ho (by omega)
  have hes' := walkFrom_ext (fun q => q ≠ root && skip q) fs fs' hv (depth fs + 1) (depth fs' + 1) root o es
    hr.ne hr.valid hr.short hr.above hr'.above h ho (by omega) hes
  have hwt : walkTree fs skip (absStr root) = some es := by
    unfold walkTree; rw [hl]; exact hes
  have hwt' : walkTree fs' skip (absStr root) = some es := by
    unfold walkTree; rw [hl']; exact hes'
  unfold readTree
  rw [hwt, hwt']

theorem nextAll_append_inv (env : Env) (nt : Bool) : ∀ (a b : List WalkEntry) (r : List FileRec),
    nextAll env nt (a ++ b) = .ok r →
    ∃ ra rb, nextAll env nt a = .ok ra ∧ nextAll env nt b = .ok rb ∧ r = ra ++ rb
  | [], b, r, h => ⟨[], r, rfl, by simpa using h, rfl⟩
  | e :: es, b, r, h => by
    simp only [List.cons_append, nextAll] at h ⊢
    cases hres : e.res with
    | error err => rw [hres] at h; cases h
    | ok po =>
      obtain ⟨rp, o⟩ := po
      rw [hres] at h
      simp only at h ⊢
      cases hes : nextAll env nt (es ++ b) with
      | error err => rw [hes] at h; cases h
      | ok r' =>
        rw [hes] at h
        cases h
        obtain ⟨ra, rb, ha, hb, rfl⟩ := nextAll_append_inv env nt es b r' hes
        exact ⟨_ :: ra, rb, by rw [ha], hb, rfl⟩

theorem nextAll_flatten_mem (env : Env) (nt : Bool) : ∀ (subs : List (List WalkEntry)) (r : List FileRec),
    nextAll env nt subs.flatten = .ok r → ∀ sub ∈ subs, ∃ rs, nextAll env nt sub = .ok rs ∧ ∀ f ∈ rs, f ∈ r
  | [], _, _, sub, hs => by cases hs
  | s :: subs, r, h, sub, hs => by
    rw [List.flatten_cons] at h
    obtain ⟨ra, rb, ha, hb, rfl⟩ := nextAll_append_inv env nt _ _ _ h
    rcases List.mem_cons.1 hs with rfl | hs
    · exact ⟨ra, ha, fun f hf => List.mem_append_left _ hf⟩
    · obtain ⟨rs, h1, h2⟩ := nextAll_flatten_mem env nt subs rb hb sub hs
      exact ⟨rs, h1, fun f hf => List.mem_append_right _ (h2 f hf)⟩

theorem mapM_option_mem {α β} (f : α → Option β) : ∀ (l : List α) (r : List β),
    l.mapM f = some r → ∀ a ∈ l, ∃ b ∈ r, f a = some b
  | [], _, _, a, ha => by cases ha
  | x :: l, r, h, a, ha => by
    rw [List.mapM_cons] at h
    cases hfx : f x with
    | none => rw [hfx] at h; simp at h
    | some b =>
      rw [hfx] at h
      cases hl : l.mapM f with
      | none => rw [hl] at h; simp at h
      | some bs =>
        rw [hl] at h
        have hr : r = b :: bs := by simpa using h.symm
        subst hr
        rcases List.mem_cons.1 ha with rfl | ha
        · exact ⟨b, by simp, hfx⟩
        · obtain ⟨b', hb', hfa⟩ := mapM_option_mem f l bs hl a ha
          exact ⟨b', List.mem_cons_of_mem _ hb', hfa⟩

/-- with nothing skipped, everything below `q` that is reached through real directories is sent -/
theorem walkFrom_complete (env : Env) (nt : Bool) (fs : FS) (hv : FSValid fs) (skip : RPath → Bool) :
    ∀ (fuel : Nat) (q : RPath) (o : Obj) (es : List WalkEntry) (recs : List FileRec),
      q ≠ [] → (∀ c ∈ q, validName c = true) → Short q → AllDirs fs q.dropLast → fs.get q = some o →
      walkFrom fs skip fuel (absStr q) q o = some es → nextAll env nt es = .ok recs →
      ∀ rel, (∀ R, R <+: rel → skip (q ++ R) = false) →
        (fs.get (q ++ rel)).isSome = true → AllDirs fs (q ++ rel).dropLast →
        ∃ f ∈ recs, f.path = absStr (q ++ rel) := by
  intro fuel
  induction fuel with
  | zero => intro q o es recs _ _ _ _ _ h; simp [walkFrom] at h
  | succ fuel ih =>
    intro q o es recs hne hqv hqs hd hget h hnx rel hskip hthere hdirs
    have hsk : skip q = false := by simpa using hskip [] (List.nil_prefix)
    rw [walkFrom_succ] at h
    cases rel with
    | nil =>
      rw [List.append_nil]
      by_cases hdir : o.isDir = true
      · simp only [hdir, hsk, Bool.not_true, Bool.false_eq_true, if_false] at h
        cases hm : (readDirNames fs q).mapM (childStep fs skip fuel (absStr q)) with
        | none => rw [hm] at h; simp at h
        | some subs =>
          rw [hm] at h
          simp only [Option.some.injEq] at h
          subst h
          simp only [nextAll] at hnx
          cases hr : nextAll env nt subs.flatten with
          | error err => rw [hr] at hnx; cases hnx
          | ok r =>
            rw [hr] at hnx
            cases hnx
            exact ⟨readerFile env nt (absStr q) q o, by simp, clean_absStr q hqv⟩
      · simp only [hdir, Bool.not_false, if_true, Option.some.injEq] at h
        subst h
        simp only [nextAll] at hnx
        cases hnx
        exact ⟨readerFile env nt (absStr q) q o, by simp, clean_absStr q hqv⟩
    | cons n rel' =>
      have hdl : (q ++ n :: rel').dropLast = q ++ (n :: rel').dropLast :=
        List.dropLast_append_of_ne_nil (by simp)
      have hqdir : IsDir (fs.get q) := hdirs q _ hdl hne
      have hdir : o.isDir = true := by
        obtain ⟨a, m, e⟩ := hqdir
        rw [hget] at e
        cases e; rfl
      have hD : AllDirs fs q := by
        have := allDirs_snoc (n := q.getLast hne) hd (by rw [List.dropLast_concat_getLast hne]; exact hqdir)
        rwa [List.dropLast_concat_getLast hne] at this
      have hsome : (fs.get (q ++ [n])).isSome = true := by
        cases rel' with
        | nil => exact hthere
        | cons m rel'' =>
          have : IsDir (fs.get (q ++ [n])) := by
            refine hdirs (q ++ [n]) ((m :: rel'').dropLast) ?_ (by simp)
            rw [hdl, List.dropLast_cons_of_ne_nil (by simp)]
            simp
          obtain ⟨a, mm, e⟩ := this
          rw [e]; rfl
      obtain ⟨o', ho'⟩ := Option.isSome_iff_exists.1 hsome
      obtain ⟨hnv, hnl⟩ := child_valid hv hsome
      simp only [hdir, hsk, Bool.not_true, Bool.false_eq_true, if_false] at h
      cases hm : (readDirNames fs q).mapM (childStep fs skip fuel (absStr q)) with
      | none => rw [hm] at h; simp at h
      | some subs =>
        rw [hm] at h
        simp only [Option.some.injEq] at h
        subst h
        simp only [nextAll] at hnx
        cases hr : nextAll env nt subs.flatten with
        | error err => rw [hr] at hnx; cases hnx
        | ok r =>
          rw [hr] at hnx
          cases hnx
          obtain ⟨sub, hsub, hstep⟩ := mapM_option_mem _ _ _ hm n ((mem_readDirNames _ _ _).2 hsome)
          rw [childStep_eq fs skip fuel q n o' hqv hqs hD hnv hnl ho'] at hstep
          obtain ⟨rs, hrs, hsubset⟩ := nextAll_flatten_mem env nt subs r hr sub hsub
          have hassoc : q ++ [n] ++ rel' = q ++ n :: rel' := by simp
          obtain ⟨f, hf, hfp⟩ := ih (q ++ [n]) o' sub rs (by simp) (valid_snoc hqv hnv) (short_snoc hqs hnl)
            (by rw [List.dropLast_concat]; exact hD) ho' hstep hrs rel'
            (fun R hR => by
              have := hskip (n :: R) (by
                obtain ⟨t, ht⟩ := hR
                exact ⟨t, by rw [← ht]; simp⟩)
              simpa using this)
            (by rw [hassoc]; exact hthere) (by rw [hassoc]; exact hdirs)
          exact ⟨f, List.mem_cons_of_mem _ (hsubset f hf), by rw [hfp, hassoc]⟩

/-- nothing is left out: every object below the root that is reached through real directories has its record -/
theorem readTree_complete (env : Env) (nt : Bool) (fs : FS) (root : List Name)
    (hv : FSValid fs) (hr : SrcRoot fs root) (t : Tree)
    (ht : readTree env nt noSkip fs (absStr root) = some (.ok t.records))
    (p : RPath) (hp : root <+: p) (hthere : (fs.get p).isSome = true) (hd : AllDirs fs p.dropLast) :
    ∃ f ∈ t.records, f.path = absStr p := by
  obtain ⟨o, ho⟩ := Option.isSome_iff_exists.1 hr.there
  have hl : lstatStr fs (absStr root) = .ok (root, o) := by
    rw [lstatStr_absStr fs root (srcRoot_good hr) hr.valid, ho]
  unfold readTree walkTree at ht
  rw [hl] at ht
  simp only at ht
  cases hw : walkFrom fs (fun q => q ≠ root && noSkip q) (depth fs + 1) (absStr root) root o with
  | none => rw [hw] at ht; cases ht
  | some es =>
    rw [hw] at ht
    simp only [Option.map_some, Option.some.injEq] at ht
    obtain ⟨rel, rfl⟩ := hp
    exact walkFrom_complete env nt fs hv _ _ root o es t.records hr.ne hr.valid hr.short hr.above ho hw ht rel
      (fun R _ => by simp [noSkip]) hthere hd

end Desync.LFS
