/-
  The planner of `AssembleFile` (`Desync.Asm`): matching (`maxMatch`, `Seed.longestMatch`,
  `nullLongestMatch`), the sequencer (`next`, `plan`) and the self seed.
-/
import Desync.Model.Assemble

namespace Desync.Asm

/-! ## list helpers -/

theorem getD_drop {α} (l : List α) (n i : Nat) (d : α) : (l.drop n).getD i d = l.getD (n + i) d := by
  simp [List.getD_eq_getElem?_getD, List.getElem?_drop]

theorem getD_take {α} (l : List α) {n i : Nat} (h : i < n) (d : α) : (l.take n).getD i d = l.getD i d := by
  simp [List.getD_eq_getElem?_getD, h]

/-! ## A. matching -/

theorem maxMatch_ge (limit : Nat) (cs ds : List IChunk) (sp : Nat) : sp ≤ maxMatch limit cs ds sp := by
  induction cs generalizing ds sp with
  | nil => simp [maxMatch]
  | cons c cs ih =>
    cases ds with
    | nil => simp [maxMatch]
    | cons d ds =>
      simp only [maxMatch]
      split
      · omega
      · split
        · omega
        · have := ih ds (sp + 1); omega

theorem maxMatch_le_left (limit : Nat) (cs ds : List IChunk) (sp : Nat) :
    maxMatch limit cs ds sp ≤ sp + cs.length := by
  induction cs generalizing ds sp with
  | nil => simp [maxMatch]
  | cons c cs ih =>
    cases ds with
    | nil => simp [maxMatch]
    | cons d ds =>
      simp only [maxMatch, List.length_cons]
      split
      · omega
      · split
        · omega
        · have := ih ds (sp + 1); omega

theorem maxMatch_le_right (limit : Nat) (cs ds : List IChunk) (sp : Nat) :
    maxMatch limit cs ds sp ≤ sp + ds.length := by
  induction cs generalizing ds sp with
  | nil => simp [maxMatch]
  | cons c cs ih =>
    cases ds with
    | nil => simp [maxMatch]
    | cons d ds =>
      simp only [maxMatch, List.length_cons]
      split
      · omega
      · split
        · omega
        · have := ih ds (sp + 1); omega

theorem maxMatch_le_limit (limit : Nat) (cs ds : List IChunk) (sp : Nat) (hl : limit ≠ 0) (hsp : sp ≤ limit) :
    maxMatch limit cs ds sp ≤ limit := by
  induction cs generalizing ds sp with
  | nil => simpa [maxMatch] using hsp
  | cons c cs ih =>
    cases ds with
    | nil => simpa [maxMatch] using hsp
    | cons d ds =>
      simp only [maxMatch]
      split
      · omega
      · split
        · omega
        · exact ih ds (sp + 1) (by omega)

theorem maxMatch_ids (limit : Nat) (cs ds : List IChunk) (sp : Nat) :
    ∀ i, sp + i < maxMatch limit cs ds sp → (cs.getD i default).id = (ds.getD i default).id := by
  induction cs generalizing ds sp with
  | nil => intro i h; simp only [maxMatch] at h; omega
  | cons c cs ih =>
    cases ds with
    | nil => intro i h; simp only [maxMatch] at h; omega
    | cons d ds =>
      intro i h
      simp only [maxMatch] at h
      split at h
      · omega
      · split at h
        · omega
        · rename_i hid
          cases i with
          | zero => simpa using hid
          | succ j =>
            simp only [List.getD_cons_succ]
            exact ih ds (sp + 1) j (by omega)

/-- A.1 (bounds), generalised over the accumulator -/
theorem maxMatch_le (limit : Nat) (cs ds : List IChunk) (sp : Nat) :
    maxMatch limit cs ds sp ≤ sp + cs.length ∧ maxMatch limit cs ds sp ≤ sp + ds.length ∧
    (limit ≠ 0 → sp ≤ limit → maxMatch limit cs ds sp ≤ limit) :=
  ⟨maxMatch_le_left .., maxMatch_le_right .., maxMatch_le_limit limit cs ds sp⟩

/-- A.1 for the accumulator 0 -/
theorem maxMatch_spec (limit : Nat) (cs ds : List IChunk) :
    maxMatch limit cs ds 0 ≤ cs.length ∧ maxMatch limit cs ds 0 ≤ ds.length ∧
    (limit ≠ 0 → maxMatch limit cs ds 0 ≤ limit) ∧
    ∀ i, i < maxMatch limit cs ds 0 → (cs.getD i default).id = (ds.getD i default).id := by
  refine ⟨?_, ?_, ?_, ?_⟩
  · simpa using maxMatch_le_left limit cs ds 0
  · simpa using maxMatch_le_right limit cs ds 0
  · intro h; exact maxMatch_le_limit limit cs ds 0 h (Nat.zero_le _)
  · intro i h; exact maxMatch_ids limit cs ds 0 i (by simpa using h)

theorem maxMatch_pos (limit : Nat) (cs ds : List IChunk) (hc : cs ≠ []) (hd : ds ≠ [])
    (h : (cs.getD 0 default).id = (ds.getD 0 default).id) : 1 ≤ maxMatch limit cs ds 0 := by
  cases cs with
  | nil => exact absurd rfl hc
  | cons c cs =>
    cases ds with
    | nil => exact absurd rfl hd
    | cons d ds =>
      simp only [List.getD_cons_zero] at h
      simp only [maxMatch]
      rw [if_neg (by omega), if_neg (by simpa using h)]
      exact maxMatch_ge ..

/-- what `longestGo` maintains about (longest match so far, its position in the seed) -/
def GoodAcc (chunks seedChunks : List IChunk) (acc : Nat × Nat) : Prop :=
  acc.1 ≤ chunks.length ∧ acc.2 + acc.1 ≤ seedChunks.length ∧
  ∀ i, i < acc.1 → ((seedChunks.drop acc.2).getD i default).id = (chunks.getD i default).id

theorem goodAcc_step (limit : Nat) (chunks seedChunks : List IChunk) (p : Nat) (acc : Nat × Nat)
    (h : GoodAcc chunks seedChunks acc) :
    GoodAcc chunks seedChunks
      (if maxMatch limit chunks (seedChunks.drop p) 0 > acc.1
        then (maxMatch limit chunks (seedChunks.drop p) 0, p) else acc) := by
  split
  · rename_i hgt
    obtain ⟨h1, h2, _, h4⟩ := maxMatch_spec limit chunks (seedChunks.drop p)
    refine ⟨h1, ?_, ?_⟩
    · simp only [List.length_drop] at h2
      show p + _ ≤ _
      omega
    · intro i hi
      exact (h4 i hi).symm
  · exact h

theorem longestGo_cons (limit : Nat) (chunks seedChunks : List IChunk) (p : Nat) (ps : List Nat) (acc : Nat × Nat) :
    longestGo limit chunks seedChunks (p :: ps) acc =
      if limit ≠ 0 ∧ limit = (if maxMatch limit chunks (seedChunks.drop p) 0 > acc.1
            then (maxMatch limit chunks (seedChunks.drop p) 0, p) else acc).1
      then (if maxMatch limit chunks (seedChunks.drop p) 0 > acc.1
            then (maxMatch limit chunks (seedChunks.drop p) 0, p) else acc)
      else longestGo limit chunks seedChunks ps
        (if maxMatch limit chunks (seedChunks.drop p) 0 > acc.1
            then (maxMatch limit chunks (seedChunks.drop p) 0, p) else acc) := by
  obtain ⟨mx, bp⟩ := acc
  rfl

theorem longestGo_good (limit : Nat) (chunks seedChunks : List IChunk) (ps : List Nat) (acc : Nat × Nat)
    (h : GoodAcc chunks seedChunks acc) : GoodAcc chunks seedChunks (longestGo limit chunks seedChunks ps acc) := by
  induction ps generalizing acc with
  | nil => simpa [longestGo] using h
  | cons p ps ih =>
    rw [longestGo_cons]
    have hs := goodAcc_step limit chunks seedChunks p acc h
    generalize (if maxMatch limit chunks (seedChunks.drop p) 0 > acc.1
            then (maxMatch limit chunks (seedChunks.drop p) 0, p) else acc) = acc' at hs ⊢
    split
    · exact hs
    · exact ih _ hs

theorem longestGo_mono (limit : Nat) (chunks seedChunks : List IChunk) (ps : List Nat) (acc : Nat × Nat) :
    acc.1 ≤ (longestGo limit chunks seedChunks ps acc).1 := by
  induction ps generalizing acc with
  | nil => simp [longestGo]
  | cons p ps ih =>
    rw [longestGo_cons]
    have hs : acc.1 ≤ (if maxMatch limit chunks (seedChunks.drop p) 0 > acc.1
            then (maxMatch limit chunks (seedChunks.drop p) 0, p) else acc).1 := by
      split
      · show acc.1 ≤ maxMatch limit chunks (seedChunks.drop p) 0
        omega
      · exact Nat.le_refl _
    generalize (if maxMatch limit chunks (seedChunks.drop p) 0 > acc.1
            then (maxMatch limit chunks (seedChunks.drop p) 0, p) else acc) = acc' at hs ⊢
    split
    · exact hs
    · exact Nat.le_trans hs (ih _)

theorem longestGo_pos (limit : Nat) (chunks seedChunks : List IChunk) (p : Nat) (ps : List Nat) (bp : Nat)
    (hp : 1 ≤ maxMatch limit chunks (seedChunks.drop p) 0) :
    1 ≤ (longestGo limit chunks seedChunks (p :: ps) (0, bp)).1 := by
  rw [longestGo_cons]
  rw [if_pos (show maxMatch limit chunks (seedChunks.drop p) 0 > (0, bp).1 from hp)]
  split
  · exact hp
  · exact Nat.le_trans hp (longestGo_mono limit chunks seedChunks ps (_, p))

theorem mem_positions {id : Bytes} {cs : List IChunk} {p : Nat} (h : p ∈ positions id cs) :
    p < cs.length ∧ (cs.getD p default).id = id := by
  simpa [positions] using h

theorem Seed.longestMatch_some (s : Seed) (chunks : List IChunk) (n : Nat) (seg : FSeg)
    (h : s.longestMatch chunks = (n, some seg)) :
    1 ≤ n ∧ n ≤ chunks.length ∧ seg.chunks.length = n ∧ seg.src = s.src ∧ seg.canReflink = s.canReflink ∧
    s.invalid = false ∧
    (∃ p, seg.chunks = (s.chunks.drop p).take n ∧ p + n ≤ s.chunks.length) ∧
    ∀ i, i < n → (seg.chunks.getD i default).id = (chunks.getD i default).id := by
  unfold Seed.longestMatch at h
  split at h
  · simp at h
  · rename_i c0 cs
    split at h
    · simp at h
    · rename_i hinv
      split at h
      · simp at h
      · rename_i hne
        simp only at h
        generalize hlim : (if s.canReflink = true then 0 else Gen.fileSeedLimit) = limit at h
        generalize hps : positions c0.id s.chunks = ps at h hne
        generalize hr : longestGo limit (c0 :: cs) s.chunks ps (0, 0) = r at h
        obtain ⟨mx, bp⟩ := r
        simp only [Prod.mk.injEq, Option.some.injEq] at h
        obtain ⟨hmx, hseg⟩ := h
        subst hmx
        subst hseg
        have hgood : GoodAcc (c0 :: cs) s.chunks (mx, bp) := by
          rw [← hr]
          exact longestGo_good _ _ _ _ _ ⟨Nat.zero_le _, Nat.zero_le _, fun i hi => absurd hi (Nat.not_lt_zero _)⟩
        obtain ⟨g1, g2, g3⟩ := hgood
        simp only at g1 g2 g3
        have hpos : 1 ≤ mx := by
          cases ps with
          | nil => exact absurd rfl hne
          | cons p ps' =>
            have hp := mem_positions (hps ▸ List.mem_cons_self : p ∈ positions c0.id s.chunks)
            have := longestGo_pos limit (c0 :: cs) s.chunks p ps' 0 (by
              apply maxMatch_pos
              · simp
              · intro hnil
                have := congrArg List.length hnil
                simp only [List.length_drop, List.length_nil] at this
                omega
              · rw [getD_drop]
                simpa using hp.2.symm)
            rw [hr] at this
            exact this
        have hlen : ((s.chunks.drop bp).take mx).length = mx := by
          simp only [List.length_take, List.length_drop]; omega
        refine ⟨hpos, g1, hlen, rfl, rfl, ?_, ⟨bp, rfl, g2⟩, ?_⟩
        · have := hinv; simp at this; exact this.2
        · intro i hi
          show (((s.chunks.drop bp).take mx).getD i default).id = _
          rw [getD_take _ hi]
          exact g3 i hi

/-- A.2 -/
theorem Seed.longestMatch_spec (s : Seed) (chunks : List IChunk) (n : Nat) (seg : FSeg)
    (h : s.longestMatch chunks = (n, some seg)) :
    1 ≤ n ∧ n ≤ chunks.length ∧ seg.chunks.length = n ∧ seg.src = s.src ∧ seg.canReflink = s.canReflink ∧
    (∃ p, seg.chunks = (s.chunks.drop p).take n ∧ p + n ≤ s.chunks.length) ∧
    ∀ i, i < n → (seg.chunks.getD i default).id = (chunks.getD i default).id := by
  obtain ⟨h1, h2, h3, h4, h5, _, h7, h8⟩ := s.longestMatch_some chunks n seg h
  exact ⟨h1, h2, h3, h4, h5, h7, h8⟩

/-- an invalid seed never matches -/
theorem Seed.longestMatch_valid (s : Seed) (chunks : List IChunk) (n : Nat) (seg : FSeg)
    (h : s.longestMatch chunks = (n, some seg)) : s.invalid = false :=
  (s.longestMatch_some chunks n seg h).2.2.2.2.2.1

/-- A.2, no match -/
theorem Seed.longestMatch_none (s : Seed) (chunks : List IChunk) (n : Nat)
    (h : s.longestMatch chunks = (n, none)) : n = 0 := by
  unfold Seed.longestMatch at h
  split at h
  · simpa using h.symm
  · split at h
    · simpa using h.symm
    · split at h
      · simpa using h.symm
      · simp only at h
        split at h <;> simp at h

theorem nullRun_ge (nullID : Bytes) (limit : Nat) (cs : List IChunk) (n : Nat) : n ≤ nullRun nullID limit cs n := by
  induction cs generalizing n with
  | nil => simp [nullRun]
  | cons c cs ih =>
    simp only [nullRun]
    split
    · omega
    · split
      · omega
      · have := ih (n + 1); omega

theorem nullRun_le (nullID : Bytes) (limit : Nat) (cs : List IChunk) (n : Nat) :
    nullRun nullID limit cs n ≤ n + cs.length := by
  induction cs generalizing n with
  | nil => simp [nullRun]
  | cons c cs ih =>
    simp only [nullRun, List.length_cons]
    split
    · omega
    · split
      · omega
      · have := ih (n + 1); omega

theorem nullRun_ids (nullID : Bytes) (limit : Nat) (cs : List IChunk) (n : Nat) :
    ∀ i, n + i < nullRun nullID limit cs n → (cs.getD i default).id = nullID := by
  induction cs generalizing n with
  | nil => intro i h; simp only [nullRun] at h; omega
  | cons c cs ih =>
    intro i h
    simp only [nullRun] at h
    split at h
    · omega
    · split at h
      · omega
      · rename_i hid
        cases i with
        | zero => simpa using hid
        | succ j =>
          simp only [List.getD_cons_succ]
          exact ih (n + 1) j (by omega)

theorem nullRun_le_limit (nullID : Bytes) (limit : Nat) (cs : List IChunk) (n : Nat) (hl : limit ≠ 0)
    (hn : n ≤ limit) : nullRun nullID limit cs n ≤ limit := by
  induction cs generalizing n with
  | nil => simpa [nullRun] using hn
  | cons c cs ih =>
    simp only [nullRun]
    split
    · omega
    · split
      · omega
      · exact ih (n + 1) (by omega)

/-- A.3 -/
theorem nullLongestMatch_spec (nullID : Bytes) (cr : Bool) (chunks : List IChunk) (n : Nat) (src : Source)
    (h : nullLongestMatch nullID cr chunks = (n, src)) :
    (n = 0 ∧ src = .store) ∨
    (1 ≤ n ∧ n ≤ chunks.length ∧ (∀ i, i < n → (chunks.getD i default).id = nullID) ∧
      src = .null (chunks.getD 0 default).start
        ((chunks.getD (n - 1) default).start + (chunks.getD (n - 1) default).size) cr) := by
  unfold nullLongestMatch at h
  generalize (if cr = true then 0 else Gen.nullSeedLimit) = limit at h
  simp only at h
  split at h
  · simp only [Prod.mk.injEq] at h
    exact .inl ⟨h.1.symm, h.2.symm⟩
  · rename_i hn0
    simp only [Prod.mk.injEq] at h
    obtain ⟨h1, h2⟩ := h
    subst h1
    right
    have hle := nullRun_le nullID limit chunks 0
    refine ⟨by omega, by omega, ?_, ?_⟩
    · intro i hi
      exact nullRun_ids nullID limit chunks 0 i (by omega)
    · rw [← h2]
      cases chunks with
      | nil => simp [nullRun] at hn0
      | cons c cs => simp

/-! ### the chunk limits of seeds that cannot reflink (`Gen.fileSeedLimit`, `Gen.nullSeedLimit`) -/

theorem longestGo_le_limit (limit : Nat) (chunks seedChunks : List IChunk) (ps : List Nat) (acc : Nat × Nat)
    (hl : limit ≠ 0) (h : acc.1 ≤ limit) : (longestGo limit chunks seedChunks ps acc).1 ≤ limit := by
  induction ps generalizing acc with
  | nil => simpa [longestGo] using h
  | cons p ps ih =>
    rw [longestGo_cons]
    have hs : (if maxMatch limit chunks (seedChunks.drop p) 0 > acc.1
            then (maxMatch limit chunks (seedChunks.drop p) 0, p) else acc).1 ≤ limit := by
      split
      · exact maxMatch_le_limit limit chunks (seedChunks.drop p) 0 hl (Nat.zero_le _)
      · exact h
    generalize (if maxMatch limit chunks (seedChunks.drop p) 0 > acc.1
            then (maxMatch limit chunks (seedChunks.drop p) 0, p) else acc) = acc' at hs ⊢
    split
    · exact hs
    · exact ih _ hs

/-- a file seed that cannot reflink matches at most 100 chunks at a time -/
theorem Seed.longestMatch_limit (s : Seed) (chunks : List IChunk) (n : Nat) (m : Option FSeg)
    (hcr : s.canReflink = false) (h : s.longestMatch chunks = (n, m)) : n ≤ 100 := by
  unfold Seed.longestMatch at h
  split at h
  · simp only [Prod.mk.injEq] at h; omega
  · split at h
    · simp only [Prod.mk.injEq] at h; omega
    · split at h
      · simp only [Prod.mk.injEq] at h; omega
      · rename_i c0 cs _ _ _
        simp only [hcr, Bool.false_eq_true, if_false, Prod.mk.injEq] at h
        have := longestGo_le_limit Gen.fileSeedLimit (c0 :: cs) s.chunks (positions c0.id s.chunks) (0, 0)
          (by decide) (Nat.zero_le _)
        rw [h.1] at this
        exact this

/-- the null seed matches at most 100 chunks at a time when it cannot reflink -/
theorem nullLongestMatch_limit (nullID : Bytes) (chunks : List IChunk) (n : Nat) (src : Source)
    (h : nullLongestMatch nullID false chunks = (n, src)) : n ≤ 100 := by
  unfold nullLongestMatch at h
  have hle := nullRun_le_limit nullID Gen.nullSeedLimit chunks 0 (by decide) (Nat.zero_le _)
  simp only [Bool.false_eq_true, if_false] at h
  split at h
  · simp only [Prod.mk.injEq] at h; omega
  · simp only [Prod.mk.injEq] at h
    rw [h.1] at hle
    exact hle

/-! ## B. the sequencer -/

/-- what `next` guarantees about the source of an item covering the `n` chunks from `first` -/
def SourceOK (e : Env) (seeds : List Seed) (first n : Nat) : Source → Prop
  | .store => n = 1
  | .file k seg =>
    seg.chunks.length = n ∧
    (∀ i, i < n → (seg.chunks.getD i default).id = (e.chunks.getD (first + i) default).id) ∧
    ∃ s, seeds[k]? = some s ∧ seg.src = s.src ∧ seg.canReflink = s.canReflink ∧ s.invalid = false
  | .null a b cr =>
    cr = e.nullReflink ∧
    (∀ i, i < n → (e.chunks.getD (first + i) default).id = e.nullID) ∧
    a = (e.chunks.getD first default).start ∧
    b = (e.chunks.getD (first + n - 1) default).start + (e.chunks.getD (first + n - 1) default).size

theorem pickSeeds_inv (P : Nat → Source → Prop) (rest : List IChunk) (ss : List Seed) (k : Nat)
    (acc : Nat × Source × Nat) (hacc : P acc.1 acc.2.1)
    (hstep : ∀ j s n seg, ss[j]? = some s → s.longestMatch rest = (n, some seg) → P n (.file (k + j) seg)) :
    P (pickSeeds rest ss k acc).1 (pickSeeds rest ss k acc).2.1 := by
  induction ss generalizing k acc with
  | nil => simpa [pickSeeds] using hacc
  | cons s ss ih =>
    obtain ⟨adv, src, mx⟩ := acc
    have hstep' : ∀ j s n seg, ss[j]? = some s → s.longestMatch rest = (n, some seg) →
        P n (.file (k + 1 + j) seg) := by
      intro j s' n seg hj hm
      have := hstep (j + 1) s' n seg (by simpa using hj) hm
      rwa [show k + (j + 1) = k + 1 + j by omega] at this
    simp only [pickSeeds]
    generalize hr : s.longestMatch rest = r
    obtain ⟨n, m⟩ := r
    cases m with
    | none => exact ih (k + 1) _ hacc hstep'
    | some seg =>
      simp only
      split
      · exact ih (k + 1) _ (by simpa using hstep 0 s n seg (by simp) hr) hstep'
      · exact ih (k + 1) _ hacc hstep'

/-- the start value of the seed loop in `next`: the null seed's match, or one chunk from the store -/
def nextAcc0 (e : Env) (cur : Nat) : Nat × Source × Nat :=
  if Gen.seqBetter (nullLongestMatch e.nullID e.nullReflink (e.chunks.drop cur)).1
      (u (nullLongestMatch e.nullID e.nullReflink (e.chunks.drop cur)).2.size) (u 0)
  then ((nullLongestMatch e.nullID e.nullReflink (e.chunks.drop cur)).1,
        (nullLongestMatch e.nullID e.nullReflink (e.chunks.drop cur)).2,
        (nullLongestMatch e.nullID e.nullReflink (e.chunks.drop cur)).2.size)
  else (1, .store, 0)

theorem next_eq (e : Env) (seeds : List Seed) (cur : Nat) :
    next e seeds cur =
      ({ first := cur, last := cur + (pickSeeds (e.chunks.drop cur) seeds 0 (nextAcc0 e cur)).1 - 1,
         source := (pickSeeds (e.chunks.drop cur) seeds 0 (nextAcc0 e cur)).2.1 },
       cur + (pickSeeds (e.chunks.drop cur) seeds 0 (nextAcc0 e cur)).1) := rfl

/-- the invariant of the seed loop -/
def PickOK (e : Env) (seeds : List Seed) (cur : Nat) (n : Nat) (src : Source) : Prop :=
  1 ≤ n ∧ cur + n ≤ e.chunks.length ∧ SourceOK e seeds cur n src

theorem nextAcc0_ok (e : Env) (seeds : List Seed) (cur : Nat) (h : cur < e.chunks.length) :
    PickOK e seeds cur (nextAcc0 e cur).1 (nextAcc0 e cur).2.1 := by
  unfold nextAcc0
  generalize hr : nullLongestMatch e.nullID e.nullReflink (e.chunks.drop cur) = r
  obtain ⟨n, src⟩ := r
  split
  · show PickOK e seeds cur n src
    rcases nullLongestMatch_spec _ _ _ _ _ hr with ⟨h0, _⟩ | ⟨h1, h2, h3, h4⟩
    · rename_i hb _
      simp [Gen.seqBetter, h0] at hb
    · simp only [List.length_drop] at h2
      refine ⟨h1, by omega, ?_⟩
      subst h4
      refine ⟨rfl, ?_, ?_, ?_⟩
      · intro i hi
        have := h3 i hi
        rwa [getD_drop] at this
      · rw [getD_drop]; rfl
      · rw [getD_drop, show cur + (n - 1) = cur + n - 1 by omega]
  · exact ⟨Nat.le_refl _, by simp only; omega, rfl⟩

theorem pickSeeds_ok (e : Env) (seeds : List Seed) (cur : Nat) (h : cur < e.chunks.length) :
    PickOK e seeds cur (pickSeeds (e.chunks.drop cur) seeds 0 (nextAcc0 e cur)).1
      (pickSeeds (e.chunks.drop cur) seeds 0 (nextAcc0 e cur)).2.1 := by
  apply pickSeeds_inv (PickOK e seeds cur)
  · exact nextAcc0_ok e seeds cur h
  · intro j s n seg hj hm
    obtain ⟨h1, h2, h3, h4, h5, h6, _, h8⟩ := s.longestMatch_some _ n seg hm
    simp only [List.length_drop] at h2
    refine ⟨h1, by omega, h3, ?_, s, by simpa using hj, h4, h5, h6⟩
    intro i hi
    have := h8 i hi
    rwa [getD_drop] at this

/-- `next` in terms of its item only -/
theorem next_item (e : Env) (seeds : List Seed) (cur : Nat) (h : cur < e.chunks.length) :
    (next e seeds cur).1.first = cur ∧ (next e seeds cur).1.first ≤ (next e seeds cur).1.last ∧
    (next e seeds cur).1.last < e.chunks.length ∧ (next e seeds cur).2 = (next e seeds cur).1.last + 1 ∧
    SourceOK e seeds cur ((next e seeds cur).1.last + 1 - cur) (next e seeds cur).1.source := by
  obtain ⟨h1, h2, h3⟩ := pickSeeds_ok e seeds cur h
  rw [next_eq]
  generalize (pickSeeds (e.chunks.drop cur) seeds 0 (nextAcc0 e cur)) = r at h1 h2 h3
  simp only
  refine ⟨trivial, by omega, by omega, by omega, ?_⟩
  rwa [show cur + r.1 - 1 + 1 - cur = r.1 by omega]

/-- B.4 -/
theorem next_spec (e : Env) (seeds : List Seed) (cur : Nat) (h : cur < e.chunks.length)
    (it : PlanItem) (cur' : Nat) (hn : next e seeds cur = (it, cur')) :
    it.first = cur ∧ cur < cur' ∧ cur' ≤ e.chunks.length ∧ it.last + 1 = cur' ∧
    (it.source = .store → cur' = cur + 1) ∧
    (∀ k seg, it.source = .file k seg →
      seg.chunks.length = cur' - cur ∧
      (∀ i, i < cur' - cur → (seg.chunks.getD i default).id = (e.chunks.getD (cur + i) default).id) ∧
      ∃ s, seeds[k]? = some s ∧ seg.src = s.src ∧ seg.canReflink = s.canReflink ∧ s.invalid = false) ∧
    (∀ a b cr, it.source = .null a b cr →
      cr = e.nullReflink ∧
      (∀ i, i < cur' - cur → (e.chunks.getD (cur + i) default).id = e.nullID) ∧
      a = (e.chunks.getD cur default).start ∧
      b = (e.chunks.getD it.last default).start + (e.chunks.getD it.last default).size) := by
  obtain ⟨h1, h2, h3, h4, h5⟩ := next_item e seeds cur h
  rw [hn] at h1 h2 h3 h4 h5
  simp only at h1 h2 h3 h4 h5
  subst h4
  refine ⟨h1, by omega, by omega, rfl, ?_, ?_, ?_⟩
  · intro hs
    rw [hs] at h5
    simp only [SourceOK] at h5
    omega
  · intro k seg hs
    rw [hs] at h5
    exact h5
  · intro a b cr hs
    rw [hs] at h5
    obtain ⟨g1, g2, g3, g4⟩ := h5
    refine ⟨g1, g2, g3, ?_⟩
    rwa [show cur + (it.last + 1 - cur) - 1 = it.last by omega] at g4

/-- B.5: the items of a plan are consecutive, non-empty ranges covering exactly `0 .. n-1` -/
def Partition (n : Nat) : Nat → List PlanItem → Prop
  | cur, [] => cur = n
  | cur, it :: rest => it.first = cur ∧ it.first ≤ it.last ∧ it.last < n ∧ Partition n (it.last + 1) rest

theorem planGo_partition (e : Env) (seeds : List Seed) (fuel cur : Nat) (h : cur < e.chunks.length)
    (hf : e.chunks.length - cur ≤ fuel) : Partition e.chunks.length cur (planGo e seeds fuel cur) := by
  induction fuel generalizing cur with
  | zero => omega
  | succ fuel ih =>
    obtain ⟨h1, h2, h3, h4, _⟩ := next_item e seeds cur h
    unfold planGo
    generalize next e seeds cur = r at h1 h2 h3 h4
    obtain ⟨it, cur'⟩ := r
    simp only at h1 h2 h3 h4 ⊢
    subst h4
    split
    · exact ⟨h1, h2, h3, by simp only [Partition]; omega⟩
    · exact ⟨h1, h2, h3, ih _ (by omega) (by omega)⟩

theorem plan_partitions (e : Env) (seeds : List Seed) : Partition e.chunks.length 0 (plan e seeds) := by
  unfold plan
  split
  · rename_i hemp
    simp only [List.isEmpty_iff] at hemp
    simp [Partition, hemp]
  · rename_i hne
    have : 0 < e.chunks.length := by
      cases hc : e.chunks with
      | nil => simp [hc] at hne
      | cons c cs => simp
    exact planGo_partition e seeds _ 0 this (by omega)

theorem plan_nonempty (e : Env) (seeds : List Seed) (h : e.chunks ≠ []) : plan e seeds ≠ [] := by
  have hp := plan_partitions e seeds
  intro hnil
  rw [hnil] at hp
  simp only [Partition] at hp
  exact h (List.eq_nil_of_length_eq_zero hp.symm)

/-- every item of a plan is the result of `next` at a position inside the index -/
theorem planGo_mem (e : Env) (seeds : List Seed) (fuel cur : Nat) (h : cur < e.chunks.length)
    (it : PlanItem) (hm : it ∈ planGo e seeds fuel cur) :
    ∃ c, c < e.chunks.length ∧ it = (next e seeds c).1 := by
  induction fuel generalizing cur with
  | zero => simp [planGo] at hm
  | succ fuel ih =>
    unfold planGo at hm
    generalize hr : next e seeds cur = r at hm
    obtain ⟨it0, cur'⟩ := r
    simp only at hm
    split at hm
    · simp only [List.mem_singleton] at hm
      exact ⟨cur, h, by rw [hm, hr]⟩
    · rcases List.mem_cons.mp hm with hm | hm
      · exact ⟨cur, h, by rw [hm, hr]⟩
      · exact ih cur' (by omega) hm

theorem plan_mem (e : Env) (seeds : List Seed) (it : PlanItem) (hm : it ∈ plan e seeds) :
    ∃ c, c < e.chunks.length ∧ it = (next e seeds c).1 := by
  unfold plan at hm
  split at hm
  · simp at hm
  · rename_i hne
    have : 0 < e.chunks.length := by
      cases hc : e.chunks with
      | nil => simp [hc] at hne
      | cons c cs => simp
    exact planGo_mem e seeds _ 0 this it hm

/-- B.7, compact form -/
theorem plan_item (e : Env) (seeds : List Seed) (it : PlanItem) (hm : it ∈ plan e seeds) :
    it.first ≤ it.last ∧ it.last < e.chunks.length ∧
    SourceOK e seeds it.first (it.last + 1 - it.first) it.source := by
  obtain ⟨c, hc, rfl⟩ := plan_mem e seeds it hm
  obtain ⟨h1, h2, h3, _, h5⟩ := next_item e seeds c hc
  refine ⟨h2, h3, ?_⟩
  rw [h1]
  exact h5

/-- B.6 -/
theorem plan_store_single (e : Env) (seeds : List Seed) (it : PlanItem) (hm : it ∈ plan e seeds)
    (hs : it.source = .store) : it.first = it.last := by
  obtain ⟨h1, _, h3⟩ := plan_item e seeds it hm
  rw [hs] at h3
  simp only [SourceOK] at h3
  omega

theorem plan_store_segChunks (e : Env) (seeds : List Seed) (it : PlanItem) (hm : it ∈ plan e seeds)
    (hs : it.source = .store) : segChunks e it = [e.chunks.getD it.first default] := by
  have h1 := plan_store_single e seeds it hm hs
  obtain ⟨_, h2, _⟩ := plan_item e seeds it hm
  unfold segChunks
  rw [← h1, show it.first + 1 - it.first = 1 by omega]
  have hlt : it.first < e.chunks.length := by omega
  rw [List.drop_eq_getElem_cons hlt, List.take_succ_cons, List.take_zero]
  simp [List.getD_eq_getElem?_getD, hlt]

/-- B.7 -/
theorem plan_sources (e : Env) (seeds : List Seed) (it : PlanItem) (hm : it ∈ plan e seeds) :
    (it.source = .store → it.last = it.first) ∧
    (∀ k seg, it.source = .file k seg →
      seg.chunks.length = it.last + 1 - it.first ∧
      (∀ i, i < it.last + 1 - it.first →
        (seg.chunks.getD i default).id = (e.chunks.getD (it.first + i) default).id) ∧
      ∃ s, seeds[k]? = some s ∧ seg.src = s.src ∧ seg.canReflink = s.canReflink ∧ s.invalid = false) ∧
    (∀ a b cr, it.source = .null a b cr →
      cr = e.nullReflink ∧
      (∀ i, i < it.last + 1 - it.first → (e.chunks.getD (it.first + i) default).id = e.nullID) ∧
      a = segStart e it ∧ b = segEnd e it) := by
  obtain ⟨h1, _, h3⟩ := plan_item e seeds it hm
  refine ⟨fun hs => (plan_store_single e seeds it hm hs).symm, ?_, ?_⟩
  · intro k seg hs
    rw [hs] at h3
    exact h3
  · intro a b cr hs
    rw [hs] at h3
    obtain ⟨g1, g2, g3, g4⟩ := h3
    refine ⟨g1, g2, g3, ?_⟩
    rwa [show it.first + (it.last + 1 - it.first) - 1 = it.last by omega] at g4

/-- B.8 -/
theorem plan_invalid_unused (e : Env) (seeds : List Seed) (k : Nat) (s : Seed) (hk : seeds[k]? = some s)
    (hinv : s.invalid = true) (it : PlanItem) (hm : it ∈ plan e seeds) (seg : FSeg) :
    it.source ≠ .file k seg := by
  intro hs
  obtain ⟨s', hk', _, _, hv⟩ := ((plan_sources e seeds it hm).2.1 k seg hs).2.2
  rw [hk] at hk'
  cases hk'
  rw [hinv] at hv
  exact Bool.noConfusion hv

/-! ## C. the self seed -/

/-- C.9 (the hypothesis `first ≤ last` is not needed) -/
theorem SelfSeed.add_in_order (s : SelfSeed) (first last : Nat) (hc : s.cache = []) (hf : first = s.written)
    (_hl : first ≤ last) : s.add first last = { written := last + 1, cache := [] } := by
  subst hf
  simp [SelfSeed.add, SelfSeed.advance, hc]

/-- C.10 -/
theorem SelfSeed.getChunk_spec (s : SelfSeed) (chunks : List IChunk) (id : Bytes) :
    (∀ i, s.getChunk chunks id = some i →
      i < s.written ∧ (chunks.getD i default).id = id ∧ ∀ j, j < i → (chunks.getD j default).id ≠ id) ∧
    (s.getChunk chunks id = none → ∀ i, i < s.written → (chunks.getD i default).id ≠ id) := by
  unfold SelfSeed.getChunk
  constructor
  · intro i h
    rw [List.find?_range_eq_some] at h
    obtain ⟨h1, h2, h3⟩ := h
    refine ⟨by simpa using h2, by simpa using h1, ?_⟩
    intro j hj
    simpa using h3 j hj
  · intro h i hi
    rw [List.find?_range_eq_none] at h
    simpa using h i hi

/-! ## D. non-vacuity -/

/-- an index of four chunks: two found in seed 0, one null chunk, one only in the store -/
def exEnv : Env :=
  { chunks := mkChunks 0 [([1], 10), ([2], 10), ([0], 10), ([3], 10)],
    nullID := [0], nullReflink := false, selfReflink := false, bs := 4096 }

/-- seed 0 holds chunks 1 and 2 behind an unrelated one; seed 1 holds the whole index but is marked invalid -/
def exSeeds : List Seed :=
  [ { src := .seed 0, chunks := mkChunks 0 [([9], 5), ([1], 10), ([2], 10)], canReflink := false },
    { src := .seed 1, chunks := mkChunks 0 [([1], 10), ([2], 10), ([0], 10), ([3], 10)], canReflink := true,
      invalid := true } ]

/-- a printable summary of a source -/
def Source.tag : Source → String × Nat × Nat
  | .store => ("store", 0, 0)
  | .file k seg => ("file", k, seg.srcStart)
  | .null a b _ => ("null", a, b)

example : (plan exEnv exSeeds).map (fun it => (it.first, it.last, it.source.tag)) =
    [(0, 1, "file", 0, 5), (2, 2, "null", 20, 30), (3, 3, "store", 0, 0)] := by
  decide

end Desync.Asm
