/-
  Helper lemmas about the primitive readers of `Model/Format.lean`.
-/
import Desync.Model.Format

namespace Desync

/-- the same decoder state with more input appended -/
def St.app (s : St) (q : Bytes) : St := { s with rest := s.rest ++ q }

@[simp] theorem St.app_rest (s : St) (q : Bytes) : (s.app q).rest = s.rest ++ q := rfl
@[simp] theorem St.app_alloc (s : St) (q : Bytes) : (s.app q).alloc = s.alloc := rfl
@[simp] theorem St.app_nil (s : St) : s.app [] = s := by simp [St.app]
@[simp] theorem St.app_mk (r : Bytes) (a : Nat) (q : Bytes) :
    (St.mk r a).app q = St.mk (r ++ q) a := rfl

/-! ### reading what was written -/

theorem readU64_le64 (v : UInt64) (r : Bytes) (a : Nat) :
    readU64 ⟨le64 v ++ r, a⟩ = .ok (v, ⟨r, a⟩) := by
  unfold readU64
  have h8 : 8 ≤ (le64 v ++ r).length := by simp
  simp only [h8, ↓reduceIte, u64OfLE_le64_append]
  have hd : List.drop 8 (le64 v ++ r) = r := by
    rw [List.drop_append_of_le_length (by simp)]
    simp [List.drop_of_length_le]
  simp only [hd]

theorem readN_append (x r : Bytes) (a : Nat) :
    readN x.length ⟨x ++ r, a⟩ = .ok (x, ⟨r, a + x.length⟩) := by
  unfold readN
  simp

/-! ### what a successful read says about the input -/

theorem readU64_ok {s s' : St} {v : UInt64} (h : readU64 s = .ok (v, s')) :
    s.rest = le64 v ++ s'.rest ∧ s'.alloc = s.alloc := by
  unfold readU64 at h
  split at h
  · rename_i h8
    injection h with h
    injection h with hv hs
    subst hs
    refine ⟨?_, rfl⟩
    simp only
    have hl : (s.rest.take 8).length = 8 := by rw [List.length_take]; omega
    have := le64_u64OfLE (s.rest.take 8) hl
    have ht : u64OfLE (s.rest.take 8) = u64OfLE s.rest := by
      unfold u64OfLE; rw [List.take_take]; simp
    rw [← hv, ← ht, this, List.take_append_drop]
  · split at h <;> cases h

theorem readN_ok {n : Nat} {s s' : St} {b : Bytes} (h : readN n s = .ok (b, s')) :
    s.rest = b ++ s'.rest ∧ b.length = n ∧ s'.alloc = s.alloc + n := by
  unfold readN at h
  split at h
  · rename_i hn
    injection h with h
    injection h with hb hs
    subst hs; subst hb
    simp [List.take_append_drop]; omega
  · split at h <;> cases h

theorem readU64_err_iff (s : St) : (∃ e, readU64 s = .err e) ↔ s.rest.length < 8 := by
  unfold readU64
  constructor
  · intro ⟨e, h⟩
    split at h
    · cases h
    · omega
  · intro h
    have : ¬ 8 ≤ s.rest.length := by omega
    simp only [this, ↓reduceIte]
    split <;> exact ⟨_, rfl⟩

theorem readU64_not_panic (s : St) (p : String) : readU64 s ≠ .panic p := by
  unfold readU64; split
  · intro h; cases h
  · split <;> (intro h; cases h)

theorem readN_not_panic (n : Nat) (s : St) (p : String) : readN n s ≠ .panic p := by
  unfold readN; split
  · intro h; cases h
  · split <;> (intro h; cases h)

/-! ### extension: a successful read stays the same when more input follows -/

theorem readU64_app {s s' : St} {v : UInt64} (q : Bytes) (h : readU64 s = .ok (v, s')) :
    readU64 (s.app q) = .ok (v, s'.app q) := by
  obtain ⟨hr, ha⟩ := readU64_ok h
  obtain ⟨r, a⟩ := s
  obtain ⟨r', a'⟩ := s'
  simp only at hr ha
  subst hr; subst ha
  simp only [St.app_mk, List.append_assoc]
  exact readU64_le64 v (r' ++ q) a'

theorem readN_app {n : Nat} {s s' : St} {b : Bytes} (q : Bytes) (h : readN n s = .ok (b, s')) :
    readN n (s.app q) = .ok (b, s'.app q) := by
  obtain ⟨hr, hn, ha⟩ := readN_ok h
  obtain ⟨r, a⟩ := s
  obtain ⟨r', a'⟩ := s'
  simp only at hr ha
  subst hr; subst ha; subst hn
  simp only [St.app_mk, List.append_assoc]
  exact readN_append b (r' ++ q) a

end Desync
