/-
  The decoder's directory strings as component lists: `comps`, `joinPath`, `dirOf` on "." and on
  '/'-joins of valid names.
-/
import Desync.Model.LocalFS

namespace Desync.LFS

/-! ### `List.intercalate` -/

theorem intercalate_singleton {α} (sep a : List α) : List.intercalate sep [a] = a := by
  simp [List.intercalate]

theorem intercalate_cons_cons {α} (sep a b : List α) (r : List (List α)) :
    List.intercalate sep (a :: b :: r) = a ++ sep ++ List.intercalate sep (b :: r) := by
  simp [List.intercalate]

theorem intercalate_snoc {α} (sep : List α) (cs : List (List α)) (c : List α) (h : cs ≠ []) :
    List.intercalate sep (cs ++ [c]) = List.intercalate sep cs ++ sep ++ c := by
  induction cs with
  | nil => exact absurd rfl h
  | cons a r ih =>
    cases r with
    | nil => simp [List.intercalate]
    | cons b r =>
      have := ih (by simp)
      rw [List.cons_append, List.cons_append, intercalate_cons_cons, ← List.cons_append, this,
        intercalate_cons_cons]
      simp

theorem intercalate_ne_nil {α} (sep : List α) (cs : List (List α)) (h : cs ≠ [])
    (hc : ∀ c ∈ cs, c ≠ []) : List.intercalate sep cs ≠ [] := by
  cases cs with
  | nil => exact absurd rfl h
  | cons a r =>
    have ha : a ≠ [] := hc a (by simp)
    cases r with
    | nil => simpa [intercalate_singleton] using ha
    | cons b r => rw [intercalate_cons_cons]; simp [ha]

/-! ### valid names -/

theorem validName_ne_nil {n : Bytes} (h : validName n = true) : n ≠ [] := by
  intro hn; subst hn; simp [validName] at h

theorem validName_no_slash {n : Bytes} (h : validName n = true) : slash ∉ n := by
  unfold validName at h
  simp at h
  exact h.1.2

theorem validName_ne_dot {n : Bytes} (h : validName n = true) : n ≠ [dot] := by
  intro hn; subst hn; revert h; decide

theorem validName_ne_dotdot {n : Bytes} (h : validName n = true) : n ≠ [dot, dot] := by
  intro hn; subst hn; revert h; decide

/-! ### `comps` -/

theorem comps_go_noslash (c : Bytes) (hc : slash ∉ c) :
    ∀ (rest cur : Bytes) (acc : List Name),
      comps.go (c ++ rest) cur acc = comps.go rest (c.reverse ++ cur) acc := by
  induction c with
  | nil => intro rest cur acc; rfl
  | cons b c ih =>
    intro rest cur acc
    have hb : b ≠ slash := by intro e; exact hc (by simp [e])
    have hc' : slash ∉ c := fun h => hc (by simp [h])
    rw [List.cons_append, comps.go, if_neg hb, ih hc']
    simp

theorem comps_go_intercalate :
    ∀ (cs : List Name), cs ≠ [] → (∀ c ∈ cs, validName c = true) → ∀ acc : List Name,
      comps.go (List.intercalate [slash] cs) [] acc = acc.reverse ++ cs
  | [], h, _, _ => absurd rfl h
  | [c], _, hv, acc => by
    have hc := hv c (by simp)
    rw [intercalate_singleton]
    have := comps_go_noslash c (validName_no_slash hc) [] [] acc
    rw [List.append_nil] at this
    rw [this, comps.go]
    simp [validName_ne_nil hc]
  | c :: b :: r, _, hv, acc => by
    have hc := hv c (by simp)
    rw [intercalate_cons_cons, List.append_assoc,
      comps_go_noslash c (validName_no_slash hc)]
    rw [List.singleton_append, comps.go, if_pos rfl]
    have hcne : ¬ (c.reverse ++ []) = [] := by simp [validName_ne_nil hc]
    rw [if_neg hcne]
    rw [comps_go_intercalate (b :: r) (by simp) (fun x hx => hv x (by simp [hx]))]
    simp

/-- the component list a directory string of the decoder stands for -/
def pathOf (d : Bytes) : List Name := (comps d).filter (· ≠ [dot])

theorem dstOf_eq (root : List Name) (name : Bytes) : dstOf root name = root ++ pathOf name := rfl

/-- `d` is "." (no components) or the '/'-join of the valid names `cs` -/
def Rep (d : Bytes) (cs : List Name) : Prop :=
  (∀ c ∈ cs, validName c = true) ∧
    ((cs = [] ∧ d = [dot]) ∨ (cs ≠ [] ∧ d = List.intercalate [slash] cs))

theorem rep_dot : Rep [dot] [] := ⟨by simp, .inl ⟨rfl, rfl⟩⟩

theorem rep_valid {d : Bytes} {cs : List Name} (h : Rep d cs) : ∀ c ∈ cs, validName c = true := h.1

theorem rep_pathOf {d : Bytes} {cs : List Name} (h : Rep d cs) : pathOf d = cs := by
  obtain ⟨hv, ⟨rfl, rfl⟩ | ⟨hne, rfl⟩⟩ := h
  · decide
  · unfold pathOf comps
    rw [comps_go_intercalate cs hne hv]
    simp only [List.reverse_nil, List.nil_append]
    rw [List.filter_eq_self]
    intro c hc
    simpa using validName_ne_dot (hv c hc)

theorem rep_ne_dot {d : Bytes} {cs : List Name} (h : Rep d cs) (hne : cs ≠ []) : d ≠ [dot] := by
  obtain ⟨hv, ⟨rfl, _⟩ | ⟨_, rfl⟩⟩ := h
  · exact absurd rfl hne
  · cases cs with
    | nil => exact absurd rfl hne
    | cons a r =>
      cases r with
      | nil => rw [intercalate_singleton]; exact validName_ne_dot (hv a (by simp))
      | cons b r =>
        rw [intercalate_cons_cons]
        intro e
        have : slash ∈ a ++ [slash] ++ List.intercalate [slash] (b :: r) := by simp
        rw [e] at this
        revert this; decide

theorem rep_join {d : Bytes} {cs : List Name} {c : Name} (h : Rep d cs) (hc : validName c = true) :
    Rep (joinPath d c) (cs ++ [c]) := by
  refine ⟨?_, .inr ⟨by simp, ?_⟩⟩
  · intro x hx
    rcases List.mem_append.1 hx with hx | hx
    · exact h.1 x hx
    · simp at hx; subst hx; exact hc
  · unfold joinPath
    rw [if_neg (validName_ne_nil hc)]
    by_cases hcs : cs = []
    · subst hcs
      obtain ⟨_, ⟨_, rfl⟩ | ⟨hne, _⟩⟩ := h
      · simp
      · exact absurd rfl hne
    · rw [if_neg (rep_ne_dot h hcs)]
      obtain ⟨_, ⟨e, _⟩ | ⟨_, rfl⟩⟩ := h
      · exact absurd e hcs
      · rw [intercalate_snoc _ _ _ hcs]

theorem dropWhile_append_all {α} (q : α → Bool) (l₁ l₂ : List α) (h : ∀ x ∈ l₁, q x = true) :
    (l₁ ++ l₂).dropWhile q = l₂.dropWhile q := by
  induction l₁ with
  | nil => rfl
  | cons a r ih =>
    have ha := h a (by simp)
    simp only [List.cons_append, List.dropWhile_cons, ha, ↓reduceIte]
    exact ih (fun x hx => h x (by simp [hx]))

theorem dropWhile_all {α} (q : α → Bool) (l : List α) (h : ∀ x ∈ l, q x = true) :
    l.dropWhile q = [] := by
  have := dropWhile_append_all q l [] h
  simpa using this

theorem dirOf_dot : dirOf [dot] = [dot] := by decide

theorem dirOf_no_slash {c : Bytes} (h : slash ∉ c) : dirOf c = [dot] := by
  unfold dirOf
  rw [dropWhile_all]
  intro x hx
  have : x ≠ slash := by
    intro hxs; subst hxs; exact h (List.mem_reverse.1 hx)
  simpa using this

theorem dirOf_snoc {d c : Bytes} (hd : d ≠ []) (hc : slash ∉ c) :
    dirOf (d ++ [slash] ++ c) = d := by
  unfold dirOf
  have hrev : (d ++ [slash] ++ c).reverse = c.reverse ++ (slash :: d.reverse) := by simp
  rw [hrev, dropWhile_append_all]
  · have : (slash :: d.reverse).dropWhile (fun x => decide (x ≠ slash)) = slash :: d.reverse := by
      simp
    rw [this]
    simp [hd]
  · intro x hx
    have : x ≠ slash := by
      intro hxs; subst hxs; exact hc (List.mem_reverse.1 hx)
    simpa using this

theorem rep_dirOf {d : Bytes} {cs : List Name} (h : Rep d cs) : Rep (dirOf d) cs.dropLast := by
  obtain ⟨hv, ⟨rfl, rfl⟩ | ⟨hne, rfl⟩⟩ := h
  · rw [dirOf_dot]; exact rep_dot
  · obtain ⟨cs', c, rfl⟩ : ∃ cs' c, cs = cs' ++ [c] :=
      ⟨cs.dropLast, cs.getLast hne, (List.dropLast_concat_getLast hne).symm⟩
    have hcv : validName c = true := hv c (by simp)
    have hv' : ∀ x ∈ cs', validName x = true := fun x hx => hv x (by simp [hx])
    rw [List.dropLast_concat]
    by_cases hcs : cs' = []
    · subst hcs
      simp only [List.nil_append, intercalate_singleton]
      rw [dirOf_no_slash (validName_no_slash hcv)]
      exact rep_dot
    · rw [intercalate_snoc _ _ _ hcs,
        dirOf_snoc (intercalate_ne_nil _ _ hcs (fun x hx => validName_ne_nil (hv' x hx)))
          (validName_no_slash hcv)]
      exact ⟨hv', .inr ⟨hcs, rfl⟩⟩

end Desync.LFS
