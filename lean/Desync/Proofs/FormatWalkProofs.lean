/-
  Lemmas about `FDec` (Model/FormatWalk.lean): how much of a payload the caller reads changes
  neither the elements a walk sees nor its verdict; a stream that ends inside a payload is
  never a clean end; the fuel of `fmtWalk` is enough.
-/
import Desync.Model.FormatWalk
import Desync.Proofs.ArchiveAlloc

namespace Desync

theorem FDec.readPayload_ok {d d' : FDec} {k : Nat} {b : Bytes}
    (h : d.readPayload k = .ok (b, d')) :
    min k d.adv ≤ d.st.rest.length ∧ b = d.st.rest.take (min k d.adv) ∧
      d'.adv = d.adv - min k d.adv ∧ d'.st.rest = d.st.rest.drop (min k d.adv) ∧
      d'.st.alloc = d.st.alloc := by
  unfold FDec.readPayload at h
  by_cases hw : min k d.adv ≤ d.st.rest.length
  · simp only [hw, if_true] at h
    injection h with h
    injection h with h1 h2
    subst h2
    exact ⟨hw, h1.symm, rfl, rfl, rfl⟩
  · simp only [hw, if_false] at h
    cases h

/-- what the caller has read of a payload is exactly what the next `Next` no longer has to
    drain: the decoder behaves the same afterwards -/
theorem FDec.readPayload_then_next {d d' : FDec} {k : Nat} {b : Bytes}
    (h : d.readPayload k = .ok (b, d')) : d'.next = d.next := by
  obtain ⟨hw, _, hadv, hrest, halloc⟩ := FDec.readPayload_ok h
  have hle : min k d.adv ≤ d.adv := Nat.min_le_right _ _
  unfold FDec.next
  have hlen : d'.st.rest.length = d.st.rest.length - min k d.adv := by
    rw [hrest, List.length_drop]
  have hcond : (d'.adv ≤ d'.st.rest.length) ↔ (d.adv ≤ d.st.rest.length) := by
    rw [hadv, hlen]; omega
  by_cases hc : d.adv ≤ d.st.rest.length
  · have hc' : d'.adv ≤ d'.st.rest.length := hcond.mpr hc
    simp only [hc, hc', if_true]
    have hst : ({ d'.st with rest := d'.st.rest.drop d'.adv } : St) =
        { d.st with rest := d.st.rest.drop d.adv } := by
      have hdd : d'.st.rest.drop d'.adv = d.st.rest.drop d.adv := by
        rw [hrest, hadv, List.drop_drop]
        congr 1; omega
      show ({ rest := d'.st.rest.drop d'.adv, alloc := d'.st.alloc } : St) =
        { rest := d.st.rest.drop d.adv, alloc := d.st.alloc }
      rw [hdd, halloc]
    rw [hst]
  · have hc' : ¬ d'.adv ≤ d'.st.rest.length := fun x => hc (hcond.mp x)
    simp only [hc, hc', if_false]

/-- a payload read that fails because the stream ended means the next `Next` fails the same way -/
theorem FDec.readPayload_err {d : FDec} {k : Nat} {e : Err}
    (h : d.readPayload k = .err e) : e = .ueof ∧ d.next = .err .ueof := by
  unfold FDec.readPayload at h
  by_cases hw : min k d.adv ≤ d.st.rest.length
  · simp only [hw, if_true] at h; cases h
  · simp only [hw, if_false] at h
    injection h with h
    refine ⟨h.symm, ?_⟩
    unfold FDec.next
    have : ¬ d.adv ≤ d.st.rest.length := by
      have := Nat.min_le_right k d.adv; omega
    simp only [this, if_false]

theorem FDec.readPayload_nopanic (d : FDec) (k : Nat) : NoPanic (d.readPayload k) := by
  unfold FDec.readPayload
  intro p h
  simp only at h
  split at h <;> cases h

theorem FDec.next_nopanic (d : FDec) : NoPanic (d.next) := by
  unfold FDec.next
  intro p h
  split at h
  · split at h
    · cases h
    · cases h
    · rename_i p' hp
      exact decNext_nopanic _ p' hp
  · cases h

/-- a successful `Next` of the element decoder that returns an element has consumed at least
    the 16 bytes of its header -/
theorem decNext_some_consumes {s s' : St} {e : Elem} (h : decNext s = .ok (some e, s')) :
    s'.rest.length + 16 ≤ s.rest.length := by
  unfold decNext at h
  cases h1 : readU64 s with
  | err e1 =>
    rw [h1] at h
    cases e1 <;> simp at h
  | panic p => rw [h1] at h; simp at h
  | ok v1 =>
    obtain ⟨sz, s1⟩ := v1
    rw [h1] at h
    have r1 := (readU64_ok h1).1
    simp only at h
    cases h2 : readU64 s1 with
    | err e1 =>
      rw [h2] at h
      cases e1 <;> simp at h
    | panic p => rw [h2] at h; simp at h
    | ok v2 =>
      obtain ⟨typ, s2⟩ := v2
      rw [h2] at h
      have r2 := (readU64_ok h2).1
      simp only at h
      cases h3 : decBody sz typ s2 with
      | err e1 => rw [h3] at h; simp at h
      | panic p => rw [h3] at h; simp at h
      | ok v3 =>
        obtain ⟨e', s3⟩ := v3
        rw [h3] at h
        have b3 := (decBody_bnd sz typ s2 _ _ h3).1
        simp only [Res.ok_bind, Res.pure_eq] at h
        injection h with h
        injection h with _ hs
        subst hs
        have l1 := congrArg List.length r1
        have l2 := congrArg List.length r2
        simp only [List.length_append, le64_length] at l1 l2
        omega

theorem FDec.next_some_consumes {d d' : FDec} {e : Elem} (h : d.next = .ok (some e, d')) :
    d'.st.rest.length + 16 ≤ d.st.rest.length := by
  unfold FDec.next at h
  split at h
  · split at h
    · rename_i e0 s0 hdn
      injection h with h
      injection h with he hd
      subst hd; subst he
      have := decNext_some_consumes hdn
      simp only [List.length_drop] at this
      simp only
      omega
    · cases h
    · cases h
  · cases h

theorem FDec.next_adv {d d' : FDec} {e : Option Elem} (h : d.next = .ok (e, d')) :
    d'.adv = payloadLen e := by
  unfold FDec.next at h
  split at h
  · split at h
    · injection h with h
      injection h with he hd
      subst hd; subst he
      rfl
    · cases h
    · cases h
  · cases h

/-- a walk depends on its decoder only through what `Next` returns -/
theorem FDec.walk_congr_next {d d' : FDec} (h : d.next = d'.next) (fuel : Nat) (takes : List Nat)
    (acc : List (Elem × Bytes)) : FDec.walk fuel d takes acc = FDec.walk fuel d' takes acc := by
  cases fuel with
  | zero => rfl
  | succ fuel => unfold FDec.walk; rw [h]

/-- projection of a walk's result to the elements it saw -/
def walkElems : Option (Res (List (Elem × Bytes))) → Option (Res (List Elem))
  | some (.ok l) => some (.ok (l.map Prod.fst))
  | some (.err e) => some (.err e)
  | some (.panic p) => some (.panic p)
  | none => none

/-- **The reads of the caller do not matter**: a walk that reads payloads (in any amounts) sees
    the same elements and ends with the same verdict as the walk that reads nothing, whenever the
    latter has fuel enough to end at all -/
theorem FDec.walk_elems_independent (fuel : Nat) :
    ∀ (d : FDec) (takes : List Nat) (acc acc' : List (Elem × Bytes)),
      acc.map Prod.fst = acc'.map Prod.fst →
      FDec.walk fuel d [] acc' ≠ none →
      walkElems (FDec.walk fuel d takes acc) = walkElems (FDec.walk fuel d [] acc') := by
  induction fuel with
  | zero => intro d takes acc acc' _ _; rfl
  | succ fuel ih =>
    intro d takes acc acc' hacc hne
    unfold FDec.walk at hne ⊢
    cases hn : d.next with
    | err e => rfl
    | panic p => rfl
    | ok r =>
      obtain ⟨e, d1⟩ := r
      rw [hn] at hne
      cases e with
      | none =>
        simp only [walkElems, List.map_reverse, hacc]
      | some el =>
        simp only at hne ⊢
        by_cases hp : el.isPayload = true
        · simp only [hp, if_true] at hne ⊢
          cases takes with
          | nil => exact ih d1 [] _ _ (by simp [hacc]) hne
          | cons k takes =>
            simp only
            cases hr : d1.readPayload k with
            | panic p => exact absurd hr (FDec.readPayload_nopanic d1 k p)
            | err e =>
              obtain ⟨he, hnx⟩ := FDec.readPayload_err hr
              subst he
              cases fuel with
              | zero => exact absurd rfl hne
              | succ fuel =>
                simp only
                unfold FDec.walk
                rw [hnx]
            | ok r2 =>
              obtain ⟨b, d2⟩ := r2
              simp only
              have hnext := FDec.readPayload_then_next hr
              rw [FDec.walk_congr_next hnext] at *
              exact ih d1 takes _ _ (by simp [hacc]) hne
        · simp only [hp] at hne ⊢
          exact ih d1 takes _ _ (by simp [hacc]) hne

/-- the fuel of `fmtWalk` is enough: a walk with more fuel than input bytes ends -/
theorem FDec.walk_fuel_enough (fuel : Nat) :
    ∀ (d : FDec) (takes : List Nat) (acc : List (Elem × Bytes)),
      d.st.rest.length < fuel → FDec.walk fuel d takes acc ≠ none := by
  induction fuel with
  | zero => intro d _ _ h; omega
  | succ fuel ih =>
    intro d takes acc hlt
    unfold FDec.walk
    cases hn : d.next with
    | err e => simp
    | panic p => simp
    | ok r =>
      obtain ⟨e, d1⟩ := r
      cases e with
      | none => simp
      | some el =>
        have hc := FDec.next_some_consumes hn
        simp only
        by_cases hp : el.isPayload = true
        · simp only [hp, if_true]
          cases takes with
          | nil => exact ih d1 [] _ (by omega)
          | cons k takes =>
            simp only
            cases hr : d1.readPayload k with
            | panic p => simp
            | err e => simp
            | ok r2 =>
              obtain ⟨b, d2⟩ := r2
              simp only
              have h2 := (FDec.readPayload_ok hr).2.2.2.1
              have : d2.st.rest.length ≤ d1.st.rest.length := by
                rw [h2, List.length_drop]; omega
              exact ih d2 takes _ (by omega)
        · simp only [hp]
          exact ih d1 takes _ (by omega)

theorem FDec.walk_nopanic (fuel : Nat) :
    ∀ (d : FDec) (takes : List Nat) (acc : List (Elem × Bytes)) (p : String),
      FDec.walk fuel d takes acc ≠ some (.panic p) := by
  induction fuel with
  | zero => intro d _ _ p h; cases h
  | succ fuel ih =>
    intro d takes acc p
    unfold FDec.walk
    cases hn : d.next with
    | err e => simp
    | panic q => exact absurd hn (FDec.next_nopanic d q)
    | ok r =>
      obtain ⟨e, d1⟩ := r
      cases e with
      | none => simp
      | some el =>
        simp only
        by_cases hp : el.isPayload = true
        · simp only [hp, if_true]
          cases takes with
          | nil => exact ih d1 [] _ p
          | cons k takes =>
            simp only
            cases hr : d1.readPayload k with
            | panic q => exact absurd hr (FDec.readPayload_nopanic d1 k q)
            | err e => simp
            | ok r2 =>
              obtain ⟨b, d2⟩ := r2
              exact ih d2 takes _ p
        · simp only [hp]
          exact ih d1 takes _ p

end Desync
