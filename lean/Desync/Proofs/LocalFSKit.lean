/-
  Toolkit for the `LocalFS` frame proof: `FS.get` of `set`/`del`/`touch`, the frame relations,
  and path resolution along a chain of real directories.
-/
import Desync.Model.LocalFS

namespace Desync.LFS

/-! ### kinds of objects -/

def IsDir (o : Option Obj) : Prop := ∃ a m, o = some (.dir a m)
def NotLink (o : Option Obj) : Prop := ∀ t a m, o ≠ some (.symlink t a m)

theorem IsDir.notLink {o : Option Obj} (h : IsDir o) : NotLink o := by
  obtain ⟨a, m, rfl⟩ := h
  intro t a' m' h; cases h

theorem notLink_none : NotLink none := by intro t a m h; cases h

theorem isDir_iff_any {o : Option Obj} : o.any Obj.isDir = true ↔ IsDir o := by
  cases o with
  | none => simp [IsDir]
  | some ob => cases ob <;> simp [IsDir, Obj.isDir]

theorem isDir_of_isDir_eq {ob : Obj} (h : ob.isDir = true) : IsDir (some ob) := by
  cases ob <;> simp [IsDir, Obj.isDir] at h ⊢

theorem not_isDir_none : ¬ IsDir none := by rintro ⟨a, m, h⟩; cases h

/-! ### `lookup` in a filtered list -/

theorem lookup_filter_key {α β} [BEq α] [LawfulBEq α] (f : α → Bool) (q : α) :
    ∀ l : List (α × β), (l.filter (fun e => f e.1)).lookup q = if f q then l.lookup q else none
  | [] => by simp
  | (k, v) :: l => by
    have ih := lookup_filter_key f q l
    by_cases hk : f k = true
    · rw [List.filter_cons_of_pos (by simpa using hk)]
      simp only [List.lookup_cons]
      by_cases hq : q = k
      · subst hq; simp [hk]
      · have : (q == k) = false := by simpa using hq
        simp only [this]; exact ih
    · rw [List.filter_cons_of_neg (by simpa using hk)]
      rw [ih]
      simp only [List.lookup_cons]
      by_cases hq : q = k
      · subst hq; simp [hk]
      · have : (q == k) = false := by simpa using hq
        simp only [this]

theorem get_set (fs : FS) (p q : RPath) (o : Obj) :
    (fs.set p o).get q = if q = p then some o else fs.get q := by
  unfold FS.set FS.get
  simp only [List.lookup_cons]
  by_cases h : q = p
  · subst h; simp
  · have : (q == p) = false := by simpa using h
    simp only [this, h, if_false]
    have := lookup_filter_key (β := Obj) (fun k => decide (k ≠ p)) q fs
    rw [this]; simp [h]

theorem get_set_self (fs : FS) (p : RPath) (o : Obj) : (fs.set p o).get p = some o := by
  simp [get_set]

theorem get_set_ne (fs : FS) {p q : RPath} (o : Obj) (h : q ≠ p) : (fs.set p o).get q = fs.get q := by
  simp [get_set, h]

theorem get_del (fs : FS) (p q : RPath) :
    (fs.del p).get q = if p <+: q then none else fs.get q := by
  unfold FS.del FS.get
  have := lookup_filter_key (β := Obj) (fun k => !(p.isPrefixOf k)) q fs
  rw [this]
  by_cases h : p <+: q
  · have h' : p.isPrefixOf q = true := List.isPrefixOf_iff_prefix.2 h
    simp [h, h']
  · have h' : p.isPrefixOf q = false := by
      cases hh : p.isPrefixOf q with
      | false => rfl
      | true => exact absurd (List.isPrefixOf_iff_prefix.1 hh) h
    simp [h, h']

theorem get_touch_ne (fs : FS) {p q : RPath} (h : q ≠ p) : (fs.touch p).get q = fs.get q := by
  unfold FS.touch
  split
  · exact get_set_ne _ _ h
  · rfl

theorem get_touch_self (fs : FS) (p : RPath) :
    (fs.touch p).get p = fs.get p ∨
      ∃ a m, fs.get p = some (.dir a m) ∧ (fs.touch p).get p = some (.dir a none) := by
  unfold FS.touch
  split
  · rename_i a m h
    exact .inr ⟨a, m, h, get_set_self _ _ _⟩
  · exact .inl rfl

/-! ### frame relations -/

/-- everything that does not lie at or beneath `dst` is as before, except that the parent of `dst`,
    if it is a directory, may have a new mtime -/
def Frame (dst : RPath) (fs fs' : FS) : Prop :=
  ∀ p, ¬ dst <+: p → fs'.get p = fs.get p ∨
    (p = dst.dropLast ∧ ∃ a m m', fs.get p = some (.dir a m) ∧ fs'.get p = some (.dir a m'))

/-- everything strictly beneath `dst` is as before -/
def Below (dst : RPath) (fs fs' : FS) : Prop :=
  ∀ p, dst <+: p → p ≠ dst → fs'.get p = fs.get p

/-- only the object at `dst` changed, and it kept its kind -/
def OnlyAt (dst : RPath) (fs fs' : FS) : Prop :=
  (∀ p, p ≠ dst → fs'.get p = fs.get p) ∧ (IsDir (fs.get dst) → IsDir (fs'.get dst)) ∧
    (NotLink (fs.get dst) → NotLink (fs'.get dst))

theorem Frame.refl (dst : RPath) (fs : FS) : Frame dst fs fs := fun _ _ => .inl rfl

theorem Frame.trans {dst : RPath} {f g h : FS} (h1 : Frame dst f g) (h2 : Frame dst g h) :
    Frame dst f h := by
  intro p hp
  rcases h1 p hp with e1 | ⟨hpe, a, m, m', e1, e1'⟩
  · rcases h2 p hp with e2 | ⟨hpe, a, m, m', e2, e2'⟩
    · exact .inl (e2.trans e1)
    · exact .inr ⟨hpe, a, m, m', e1 ▸ e2, e2'⟩
  · rcases h2 p hp with e2 | ⟨_, a2, m2, m2', e2, e2'⟩
    · exact .inr ⟨hpe, a, m, m', e1, e2.trans e1'⟩
    · rw [e1'] at e2
      cases e2
      exact .inr ⟨hpe, a, m, m2', e1, e2'⟩

theorem Below.refl (dst : RPath) (fs : FS) : Below dst fs fs := fun _ _ _ => rfl

theorem Below.trans {dst : RPath} {f g h : FS} (h1 : Below dst f g) (h2 : Below dst g h) :
    Below dst f h := fun p hp hne => (h2 p hp hne).trans (h1 p hp hne)

theorem OnlyAt.refl (dst : RPath) (fs : FS) : OnlyAt dst fs fs := ⟨fun _ _ => rfl, id, id⟩

theorem OnlyAt.trans {dst : RPath} {f g h : FS} (h1 : OnlyAt dst f g) (h2 : OnlyAt dst g h) :
    OnlyAt dst f h :=
  ⟨fun p hp => (h2.1 p hp).trans (h1.1 p hp), fun x => h2.2.1 (h1.2.1 x), fun x => h2.2.2 (h1.2.2 x)⟩

theorem OnlyAt.frame {dst : RPath} {f g : FS} (h : OnlyAt dst f g) : Frame dst f g := by
  intro p hp
  refine .inl (h.1 p ?_)
  rintro rfl; exact hp (List.prefix_refl _)

theorem OnlyAt.below {dst : RPath} {f g : FS} (h : OnlyAt dst f g) : Below dst f g :=
  fun p _ hne => h.1 p hne

theorem prefix_dropLast_false {dst : RPath} (h : dst ≠ []) : ¬ dst <+: dst.dropLast := by
  intro hp
  have := hp.length_le
  simp at this
  have : 0 < dst.length := List.length_pos_iff.2 h
  omega

/-- a frame around a path inside `root` is a frame around `root` -/
theorem Frame.mono {root dst : RPath} {f g : FS} (hr : root <+: dst) (h : Frame dst f g) :
    Frame root f g := by
  intro p hp
  have hp' : ¬ dst <+: p := fun hd => hp (hr.trans hd)
  rcases h p hp' with e | ⟨hpe, rest⟩
  · exact .inl e
  · obtain ⟨T, rfl⟩ := hr
    by_cases hT : T = []
    · subst hT
      simp only [List.append_nil] at hpe
      exact .inr ⟨hpe, rest⟩
    · exfalso
      rw [List.dropLast_append_of_ne_nil hT] at hpe
      exact hp ⟨_, hpe.symm⟩

theorem Frame.isDir {dst p : RPath} {f g : FS} (h : Frame dst f g) (hp : ¬ dst <+: p)
    (hd : IsDir (f.get p)) : IsDir (g.get p) := by
  rcases h p hp with e | ⟨_, a, m, m', _, e'⟩
  · rw [e]; exact hd
  · exact ⟨a, m', e'⟩

theorem Frame.notLink {dst p : RPath} {f g : FS} (h : Frame dst f g) (hp : ¬ dst <+: p)
    (hd : NotLink (f.get p)) : NotLink (g.get p) := by
  rcases h p hp with e | ⟨_, a, m, m', _, e'⟩
  · rw [e]; exact hd
  · exact IsDir.notLink ⟨a, m', e'⟩

theorem frame_set (fs : FS) (dst : RPath) (o : Obj) : Frame dst fs (fs.set dst o) := by
  intro p hp
  refine .inl (get_set_ne _ _ ?_)
  rintro rfl; exact hp (List.prefix_refl _)

theorem frame_del (fs : FS) (dst : RPath) : Frame dst fs (fs.del dst) := by
  intro p hp
  left
  rw [get_del, if_neg hp]

theorem frame_touch (fs : FS) (dst : RPath) : Frame dst fs (fs.touch dst.dropLast) := by
  intro p _
  by_cases h : p = dst.dropLast
  · subst h
    rcases get_touch_self fs dst.dropLast with e | ⟨a, m, e, e'⟩
    · exact .inl e
    · exact .inr ⟨rfl, a, m, none, e, e'⟩
  · exact .inl (get_touch_ne _ h)

theorem below_set (fs : FS) (dst : RPath) (o : Obj) : Below dst fs (fs.set dst o) :=
  fun _ _ hne => get_set_ne _ _ hne

theorem below_touch (fs : FS) {dst : RPath} (h : dst ≠ []) : Below dst fs (fs.touch dst.dropLast) := by
  intro p hp _
  refine get_touch_ne _ ?_
  rintro rfl
  exact prefix_dropLast_false h hp

theorem get_touch_parent (fs : FS) {dst : RPath} (h : dst ≠ []) :
    (fs.touch dst.dropLast).get dst = fs.get dst := by
  refine get_touch_ne _ ?_
  intro e
  have := congrArg List.length e
  simp at this
  have : 0 < dst.length := List.length_pos_iff.2 h
  omega

/-! ### path resolution straight down a chain of directories -/

/-- no component is "." or ".." -/
def Normal (P : List Name) : Prop := ∀ c ∈ P, c ≠ [dot] ∧ c ≠ [dot, dot]

/-- no proper, non-empty prefix of `cur ++ P` beyond `cur` is a symbolic link -/
def StraightFrom (fs : FS) (cur : RPath) (P : List Name) : Prop :=
  ∀ Q R, P = Q ++ R → Q ≠ [] → R ≠ [] → NotLink (fs.get (cur ++ Q))

def DirsFrom (fs : FS) (cur : RPath) (P : List Name) : Prop :=
  ∀ Q R, P = Q ++ R → Q ≠ [] → R ≠ [] → IsDir (fs.get (cur ++ Q))

theorem StraightFrom.tail {fs : FS} {cur : RPath} {c : Name} {rest : List Name}
    (h : StraightFrom fs cur (c :: rest)) : StraightFrom fs (cur ++ [c]) rest := by
  intro Q R e hQ hR
  have := h (c :: Q) R (by rw [e]; rfl) (by simp) hR
  simpa using this

theorem walk_straight (fs : FS) (follow : Bool) :
    ∀ (P : List Name) (fuel : Nat) (cur rp : RPath), Normal P → StraightFrom fs cur P →
      (follow = true → P ≠ [] → NotLink (fs.get (cur ++ P))) →
      walk fs follow fuel cur P = .ok rp → rp = cur ++ P ∧ DirsFrom fs cur P
  | [], fuel, cur, rp, _, _, _, h => by
    cases fuel with
    | zero => simp [walk] at h
    | succ fuel =>
      simp only [walk, Except.ok.injEq] at h
      subst h
      refine ⟨by simp, ?_⟩
      intro Q R e hQ hR
      have := congrArg List.length e
      simp at this
      exact absurd (List.eq_nil_of_length_eq_zero (by omega)) hQ
  | c :: rest, fuel, cur, rp, hN, hS, hL, h => by
    cases fuel with
    | zero => simp [walk] at h
    | succ fuel =>
      have hc := hN c (by simp)
      have hNr : Normal rest := fun x hx => hN x (by simp [hx])
      rw [walk] at h
      rw [if_neg hc.1, if_neg hc.2] at h
      split at h
      · cases h
      · have dirs_nil : rest = [] → DirsFrom fs cur (c :: rest) := by
          rintro rfl Q R e hQ hR
          have := congrArg List.length e
          simp at this
          have h1 : 0 < Q.length := List.length_pos_iff.2 hQ
          have h2 : 0 < R.length := List.length_pos_iff.2 hR
          omega
        simp only at h
        split at h
        · rename_i t a lm hg
          split at h
          · rename_i hcond
            simp only [Bool.and_eq_true, decide_eq_true_eq, Bool.not_eq_eq_eq_not, Bool.not_true] at hcond
            cases h
            obtain ⟨hr, _⟩ := hcond
            subst hr
            exact ⟨rfl, dirs_nil rfl⟩
          · rename_i hcond
            exfalso
            by_cases hr : rest = []
            · subst hr
              have hf : follow = true := by
                cases follow <;> simp at hcond ⊢
              exact hL hf (by simp) t a lm hg
            · exact hS [c] rest rfl (by simp) hr t a lm hg
        · rename_i a m hg
          obtain ⟨e, hd⟩ := walk_straight fs follow rest fuel (cur ++ [c]) rp hNr hS.tail
            (by
              intro hf hr
              have := hL hf (by simp)
              simpa using this) h
          refine ⟨by simpa using e, ?_⟩
          intro Q R e hQ hR
          cases Q with
          | nil => exact absurd rfl hQ
          | cons q Q' =>
            simp only [List.cons_append, List.cons.injEq] at e
            obtain ⟨rfl, e⟩ := e
            by_cases hQ' : Q' = []
            · subst hQ'; exact ⟨a, m, hg⟩
            · have := hd Q' R e hQ' hR
              simpa using this
        · split at h
          · rename_i hr
            cases h
            subst hr
            exact ⟨rfl, dirs_nil rfl⟩
          · cases h
        · split at h
          · rename_i hr
            cases h
            subst hr
            exact ⟨rfl, dirs_nil rfl⟩
          · cases h

/-- under the same conditions, a resolution that fails without following the last component fails the
    same way when following it -/
theorem walk_error_follow (fs : FS) :
    ∀ (P : List Name) (fuel : Nat) (cur : RPath) (e : Err), Normal P → StraightFrom fs cur P →
      walk fs false fuel cur P = .error e → walk fs true fuel cur P = .error e
  | [], fuel, cur, e, _, _, h => by
    cases fuel with
    | zero => simpa [walk] using h
    | succ fuel => simp [walk] at h
  | c :: rest, fuel, cur, e, hN, hS, h => by
    cases fuel with
    | zero => simpa [walk] using h
    | succ fuel =>
      have hc := hN c (by simp)
      have hNr : Normal rest := fun x hx => hN x (by simp [hx])
      rw [walk] at h ⊢
      rw [if_neg hc.1, if_neg hc.2] at h ⊢
      by_cases hl : c.length > 255
      · rw [if_pos hl] at h ⊢; exact h
      · rw [if_neg hl] at h ⊢
        cases hg : fs.get (cur ++ [c]) with
        | none => simp only [hg] at h ⊢; exact h
        | some ob =>
          cases ob with
          | dir a m =>
            simp only [hg] at h ⊢
            exact walk_error_follow fs rest fuel (cur ++ [c]) e hNr hS.tail h
          | file d a m => simp only [hg] at h ⊢; exact h
          | dev ma mi a m => simp only [hg] at h ⊢; exact h
          | symlink t a lm =>
            by_cases hr : rest = []
            · subst hr; simp [hg] at h
            · exact absurd hg (hS [c] rest rfl (by simp) hr t a lm)

/-! ### `resolve` -/

def Straight (fs : FS) (dst : List Name) : Prop := StraightFrom fs [] dst

/-- every proper non-empty prefix is a real directory -/
def ProperDirs (fs : FS) (dst : List Name) : Prop := DirsFrom fs [] dst

theorem resolve_straight {fs : FS} {follow : Bool} {dst : List Name} {rp : RPath} (hN : Normal dst)
    (hS : Straight fs dst) (hL : follow = true → dst ≠ [] → NotLink (fs.get dst))
    (h : resolve fs follow dst = .ok rp) : rp = dst ∧ ProperDirs fs dst := by
  have := walk_straight fs follow dst _ [] rp hN hS (by simpa using hL) h
  simpa [ProperDirs] using this

theorem resolve_error_follow {fs : FS} {dst : List Name} {e : Err} (hN : Normal dst)
    (hS : Straight fs dst) (h : resolve fs false dst = .error e) : resolve fs true dst = .error e :=
  walk_error_follow fs dst _ [] e hN hS h

end Desync.LFS
