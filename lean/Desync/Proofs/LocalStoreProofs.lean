/-
  Proofs about the local store (`Model/LocalStore.lean`): casync layout, coexistence of the
  compressed / uncompressed formats in one directory (C20) and `Prune` (C16).
-/
import Desync.Model.LocalStore
import Desync.Proofs.HttpProofs

namespace Desync

/-! ### hex encoding -/

theorem hexChar_spec : ∀ n, n < 16 →
    hexNibble (hexChar n) = some n ∧ hexChar n ≠ 46 ∧ hexChar n ≠ 47 := by
  decide

theorem hexEncode_nil : hexEncode [] = [] := rfl

theorem hexEncode_cons (x : UInt8) (xs : Bytes) :
    hexEncode (x :: xs) = hexChar (x.toNat / 16) :: hexChar (x.toNat % 16) :: hexEncode xs := by
  simp [hexEncode]

theorem hexEncode_length (b : Bytes) : (hexEncode b).length = 2 * b.length := by
  induction b with
  | nil => rfl
  | cons x xs ih => rw [hexEncode_cons]; simp [ih]; omega

theorem hexDecode_hexEncode (b : Bytes) : hexDecode (hexEncode b) = some b := by
  induction b with
  | nil => rfl
  | cons x xs ih =>
    have hx : x.toNat < 256 := x.toNat_lt
    have h1 := (hexChar_spec (x.toNat / 16) (by omega)).1
    have h2 := (hexChar_spec (x.toNat % 16) (by omega)).1
    have h3 : 16 * (x.toNat / 16) + x.toNat % 16 = x.toNat := Nat.div_add_mod _ _
    rw [hexEncode_cons]
    simp only [hexDecode, h1, h2, ih, Option.bind_eq_bind, Option.bind_some, Option.pure_def, h3,
      UInt8.ofNat_toNat]

theorem hexEncode_injective (a b : Bytes) (h : hexEncode a = hexEncode b) : a = b := by
  have := hexDecode_hexEncode a
  rw [h, hexDecode_hexEncode] at this
  injection this with this
  exact this.symm

theorem hexEncode_no_slash_dot (b : Bytes) : (47 : UInt8) ∉ hexEncode b ∧ (46 : UInt8) ∉ hexEncode b :=
  hexDecode_no_slash_dot _ _ (hexDecode_hexEncode b)

theorem chunkIDFromString_hexEncode (id : Bytes) (h : id.length = 32) :
    chunkIDFromString (hexEncode id) = some id := by
  simp [chunkIDFromString, hexDecode_hexEncode, h]

/-! ### suffix / prefix helpers -/

theorem hasSuffix_append (s suf : Bytes) : hasSuffix (s ++ suf) suf = true := by
  simp [hasSuffix]

theorem trimSuffix_append (s suf : Bytes) : trimSuffix (s ++ suf) suf = s := by
  simp [trimSuffix]

theorem hasSuffix_nil (s : Bytes) : hasSuffix s [] = true := by
  simp [hasSuffix]

theorem trimSuffix_nil (s : Bytes) : trimSuffix s [] = s := by
  simp [trimSuffix]

theorem hasSuffix_mem (s suf : Bytes) (h : hasSuffix s suf = true) : ∀ c ∈ suf, c ∈ s := by
  simp only [hasSuffix, decide_eq_true_eq] at h
  intro c hc
  rw [← h.2] at hc
  exact List.mem_of_mem_drop hc

theorem hasPrefix_append (pre s : Bytes) : hasPrefix (pre ++ s) pre = true := by
  simp [hasPrefix]

/-- a name starting with a temp prefix starts with '.' -/
theorem hasPrefix_tmp_head (s : Bytes) (h : hasPrefix s Gen.tmpChunkPrefixBytes = true) :
    ∃ t, s = 46 :: t := by
  simp only [hasPrefix, decide_eq_true_eq] at h
  obtain ⟨_, h2⟩ := h
  cases s with
  | nil => simp [Gen.tmpChunkPrefixBytes] at h2
  | cons x t =>
    simp [Gen.tmpChunkPrefixBytes] at h2
    exact ⟨t, by rw [h2.1]⟩

/-- canonical chunk file names of either format do not carry the temp prefix -/
theorem hexEncode_not_tmp (id ext : Bytes) (h : id.length = 32) :
    hasPrefix (hexEncode id ++ ext) Gen.tmpChunkPrefixBytes = false := by
  cases hp : hasPrefix (hexEncode id ++ ext) Gen.tmpChunkPrefixBytes with
  | false => rfl
  | true =>
    obtain ⟨t, ht⟩ := hasPrefix_tmp_head _ hp
    cases id with
    | nil => simp at h
    | cons x xs =>
      have hx : x.toNat < 256 := x.toNat_lt
      rw [hexEncode_cons] at ht
      simp only [List.cons_append, List.cons.injEq] at ht
      exact absurd ht.1 (hexChar_spec (x.toNat / 16) (by omega)).2.1

/-! ### C20: layout and coexistence -/

theorem name_layout (unc : Bool) (id : Bytes) (h : id.length = 32) :
    (nameFromID unc id).1 = (hexEncode id).take 4 ∧ (nameFromID unc id).1.length = 4 ∧
    (nameFromID unc id).2 = hexEncode id ++ (if unc then [] else [46, 99, 97, 99, 110, 107]) := by
  refine ⟨rfl, ?_, ?_⟩
  · simp [nameFromID, hexEncode_length, h]
  · cases unc <;> rfl

theorem classify_own (unc : Bool) (id : Bytes) (h : id.length = 32) :
    pruneClassify unc (nameFromID unc id).2 = .consider id ∧
    verifyClassify unc (nameFromID unc id).2 = .consider id := by
  simp only [nameFromID, pruneClassify, verifyClassify, hexEncode_not_tmp id _ h,
    hasSuffix_append, trimSuffix_append, chunkIDFromString_hexEncode id h]
  simp

theorem chunkIDFromString_dot (s : Bytes) (h : (46 : UInt8) ∈ s) : chunkIDFromString s = none := by
  cases hd : hexDecode s with
  | none => simp [chunkIDFromString, hd]
  | some b => exact absurd h (hexDecode_no_slash_dot _ _ hd).2

theorem classify_other_format (unc : Bool) (id : Bytes) (h : id.length = 32) :
    pruneClassify unc (nameFromID (!unc) id).2 = .skip ∧
    verifyClassify unc (nameFromID (!unc) id).2 = .skip := by
  cases unc
  · -- compressed store meets an uncompressed file: no ".cacnk" suffix
    have hs : hasSuffix (hexEncode id ++ extOf true) (extOf false) = false := by
      cases hp : hasSuffix (hexEncode id ++ extOf true) (extOf false) with
      | false => rfl
      | true =>
        have := hasSuffix_mem _ _ hp 46 (by simp [extOf, Gen.CompressedChunkExtBytes])
        simp [extOf, Gen.UncompressedChunkExtBytes] at this
        exact absurd this (hexEncode_no_slash_dot id).2
    simp [nameFromID, pruneClassify, verifyClassify, hexEncode_not_tmp id _ h, hs]
  · -- uncompressed store meets a compressed file: the name is not a hex string
    have hd : chunkIDFromString (hexEncode id ++ extOf false) = none :=
      chunkIDFromString_dot _ (by simp [extOf, Gen.CompressedChunkExtBytes])
    have he : extOf true = [] := rfl
    simp [nameFromID, pruneClassify, verifyClassify, hexEncode_not_tmp id _ h, he,
      hasSuffix_nil, trimSuffix_nil, hd]

theorem formats_disjoint (id id' : Bytes) (_h : id.length = 32) (_h' : id'.length = 32) :
    (nameFromID true id).2 ≠ (nameFromID false id').2 := by
  intro he
  have h1 : (46 : UInt8) ∈ (nameFromID false id').2 := by
    simp [nameFromID, extOf, Gen.CompressedChunkExtBytes]
  rw [← he] at h1
  simp [nameFromID, extOf, Gen.UncompressedChunkExtBytes] at h1
  exact (hexEncode_no_slash_dot id).2 h1

theorem tmp_never_chunk_name (unc : Bool) (id suffix : Bytes) (h : id.length = 32) :
    Gen.tmpChunkPrefixBytes ++ suffix ≠ (nameFromID unc id).2 ∧
    pruneClassify unc (Gen.tmpChunkPrefixBytes ++ suffix) = .removeTemp := by
  constructor
  · intro he
    have := hexEncode_not_tmp id (extOf unc) h
    simp only [nameFromID] at he
    rw [← he, hasPrefix_append] at this
    cases this
  · simp [pruneClassify, hasPrefix_append]

theorem nameFromID_injective (unc : Bool) (id id' : Bytes)
    (h : nameFromID unc id = nameFromID unc id') : id = id' := by
  simp only [nameFromID, Prod.mk.injEq] at h
  exact hexEncode_injective _ _ (List.append_cancel_right h.2)

/-! ### C16: prune -/

/-- what the walk removes, and that it only removes -/
theorem pruneWalk_removed_only (unc : Bool) (keep : Bytes → Bool) (l : List (Bytes × Bytes))
    (d d' : StoreDir)
    (h : pruneWalk unc keep l d = .ok d' ∨ pruneWalk unc keep l d = .failed d') :
    (∀ f ∈ d', f ∈ d) ∧
    ∀ f ∈ d, f ∉ d' →
      hasPrefix f.2 Gen.tmpChunkPrefixBytes = true ∨
      ∃ id, id.length = 32 ∧ keep id = false ∧ f = nameFromID unc id := by
  induction l generalizing d with
  | nil =>
    simp only [pruneWalk] at h
    have : d' = d := by
      rcases h with h | h
      · injection h with h; exact h.symm
      · cases h
    subst this
    exact ⟨fun f hf => hf, fun f hf hn => absurd hf hn⟩
  | cons x rest ih =>
    obtain ⟨dir, name⟩ := x
    simp only [pruneWalk] at h
    split at h
    · exact ih d h
    · rename_i hcl
      obtain ⟨hsub, hrem⟩ := ih _ h
      refine ⟨fun f hf => (List.mem_filter.mp (hsub f hf)).1, ?_⟩
      intro f hf hn
      by_cases hfe : f = (dir, name)
      · left
        subst hfe
        unfold pruneClassify at hcl
        split at hcl
        · assumption
        · split at hcl
          · cases hcl
          · split at hcl <;> cases hcl
      · exact hrem f (List.mem_filter.mpr ⟨hf, by simpa using hfe⟩) hn
    · rename_i id hcl
      split at h
      · exact ih d h
      · rename_i hk
        split at h
        · obtain ⟨hsub, hrem⟩ := ih _ h
          refine ⟨fun f hf => (List.mem_filter.mp (hsub f hf)).1, ?_⟩
          intro f hf hn
          by_cases hfe : f = nameFromID unc id
          · right
            refine ⟨id, ?_, by simpa using hk, hfe⟩
            unfold pruneClassify at hcl
            split at hcl
            · cases hcl
            · split at hcl
              · cases hcl
              · split at hcl
                · cases hcl
                · rename_i id' hid'
                  injection hcl with hcl
                  subst hcl
                  exact (chunkIDFromString_some _ _ hid').2
          · exact hrem f (List.mem_filter.mpr ⟨hf, by simpa using hfe⟩) hn
        · have : d' = d := by
            rcases h with h | h
            · cases h
            · injection h with h; exact h.symm
          subst this
          exact ⟨fun f hf => hf, fun f hf hn => absurd hf hn⟩

/-- **Prune only removes temp files and own-format canonical files of unreferenced IDs**
    (whether it succeeds or aborts); and it never adds anything -/
theorem prune_removed_only (unc : Bool) (keep : Bytes → Bool) (d d' : StoreDir)
    (h : prune unc keep d = .ok d' ∨ prune unc keep d = .failed d') :
    ∀ f ∈ d, f ∉ d' →
      hasPrefix f.2 Gen.tmpChunkPrefixBytes = true ∨
      ∃ id, id.length = 32 ∧ keep id = false ∧ f = nameFromID unc id ∧
        pruneClassify unc f.2 = .consider id := by
  intro f hf hn
  rcases (pruneWalk_removed_only unc keep d d d' h).2 f hf hn with h1 | ⟨id, hl, hk, he⟩
  · exact .inl h1
  · exact .inr ⟨id, hl, hk, he, by rw [he]; exact (classify_own unc id hl).1⟩

theorem prune_subset (unc : Bool) (keep : Bytes → Bool) (d d' : StoreDir)
    (h : prune unc keep d = .ok d' ∨ prune unc keep d = .failed d') : ∀ f ∈ d', f ∈ d :=
  (pruneWalk_removed_only unc keep d d d' h).1

theorem prune_keeps_referenced (unc : Bool) (keep : Bytes → Bool) (d d' : StoreDir) (id : Bytes)
    (hk : keep id = true) (hid : id.length = 32) (hin : nameFromID unc id ∈ d)
    (h : prune unc keep d = .ok d' ∨ prune unc keep d = .failed d') : nameFromID unc id ∈ d' := by
  apply Classical.byContradiction
  intro hn
  rcases prune_removed_only unc keep d d' h _ hin hn with h1 | ⟨id', _, hk', he, _⟩
  · have := hexEncode_not_tmp id (extOf unc) hid
    simp only [nameFromID] at h1
    rw [h1] at this; cases this
  · have := nameFromID_injective unc _ _ he
    subst this
    rw [hk] at hk'; cases hk'

theorem prune_keeps_other_format (unc : Bool) (keep : Bytes → Bool) (d d' : StoreDir)
    (dir id : Bytes) (hid : id.length = 32) (hin : (dir, (nameFromID (!unc) id).2) ∈ d)
    (h : prune unc keep d = .ok d' ∨ prune unc keep d = .failed d') :
    (dir, (nameFromID (!unc) id).2) ∈ d' := by
  apply Classical.byContradiction
  intro hn
  rcases prune_removed_only unc keep d d' h _ hin hn with h1 | ⟨id', _, _, _, hc⟩
  · have := hexEncode_not_tmp id (extOf (!unc)) hid
    simp only [nameFromID] at h1
    rw [h1] at this; cases this
  · rw [(classify_other_format unc id hid).1] at hc
    cases hc

/-- files that are neither temp files nor recognised as chunks of the store's format survive -/
theorem prune_keeps_skipped (unc : Bool) (keep : Bytes → Bool) (d d' : StoreDir)
    (f : Bytes × Bytes) (hs : pruneClassify unc f.2 = .skip) (hin : f ∈ d)
    (h : prune unc keep d = .ok d' ∨ prune unc keep d = .failed d') : f ∈ d' := by
  apply Classical.byContradiction
  intro hn
  rcases prune_removed_only unc keep d d' h _ hin hn with h1 | ⟨id', _, _, _, hc⟩
  · simp [pruneClassify, h1] at hs
  · rw [hs] at hc; cases hc

theorem pruneWalk_complete (unc : Bool) (keep : Bytes → Bool) (l : List (Bytes × Bytes))
    (d d' : StoreDir) (h : pruneWalk unc keep l d = .ok d') :
    ∀ f ∈ l,
      (hasPrefix f.2 Gen.tmpChunkPrefixBytes = true → f ∉ d') ∧
      (∀ id, pruneClassify unc f.2 = .consider id → keep id = false → nameFromID unc id ∉ d') := by
  induction l generalizing d with
  | nil => intro f hf; cases hf
  | cons x rest ih =>
    obtain ⟨dir, name⟩ := x
    intro f hf
    simp only [pruneWalk] at h
    rcases List.mem_cons.mp hf with rfl | hf
    · -- the head
      split at h
      · rename_i hcl
        simp only
        refine ⟨fun hp => ?_, fun id hc _ => ?_⟩
        · simp [pruneClassify, hp] at hcl
        · rw [hcl] at hc; cases hc
      · rename_i hcl
        simp only
        refine ⟨fun _ hin => ?_, fun id hc _ => ?_⟩
        · have := (pruneWalk_removed_only unc keep rest _ d' (.inl h)).1 _ hin
          simp at this
        · rw [hcl] at hc; cases hc
      · rename_i id hcl
        simp only
        refine ⟨fun hp => ?_, fun id' hc hk hin => ?_⟩
        · simp [pruneClassify, hp] at hcl
        · rw [hcl] at hc
          injection hc with hc
          subst hc
          simp only [hk, Bool.false_eq_true, ↓reduceIte] at h
          split at h
          · have := (pruneWalk_removed_only unc keep rest _ d' (.inl h)).1 _ hin
            simp at this
          · cases h
    · -- the tail
      split at h
      · exact ih d h f hf
      · exact ih _ h f hf
      · split at h
        · exact ih d h f hf
        · split at h
          · exact ih _ h f hf
          · cases h

/-- **Prune is complete when it reports success**: no temp file and no own-format canonical
    file of an unreferenced ID is left -/
theorem prune_complete_on_success (unc : Bool) (keep : Bytes → Bool) (d d' : StoreDir)
    (h : prune unc keep d = .ok d') :
    (∀ f ∈ d', hasPrefix f.2 Gen.tmpChunkPrefixBytes = false) ∧
    (∀ id, id.length = 32 → keep id = false → nameFromID unc id ∈ d → nameFromID unc id ∉ d') := by
  have hc := pruneWalk_complete unc keep d d d' h
  constructor
  · intro f hf
    have hfd := prune_subset unc keep d d' (.inl h) f hf
    cases hp : hasPrefix f.2 Gen.tmpChunkPrefixBytes with
    | false => rfl
    | true => exact absurd hf ((hc f hfd).1 hp)
  · intro id hl hk hin
    exact (hc _ hin).2 id (classify_own unc id hl).1 hk

end Desync
