/-
  Store chains (Model/Chain.lean): sequential policy theorems for StoreRouter, Cache /
  RepairableCache and FailoverGroup.
-/
import Desync.Model.Chain
import Desync.Proofs.FailoverProofs

namespace Desync.Chain

/-! ### leaves -/

/-- what a `GetChunk` does to the leaf's bookkeeping -/
def bumpGet (id : Nat) (l : Leaf) : Leaf :=
  { l with calls := l.calls + 1, log := ("get", id) :: l.log }

/-- the answer a leaf gives for `id` when the call does not fault -/
def ansOf (l : Leaf) (id : Nat) : R :=
  match l.content.lookup id with
  | none => .missing
  | some o => if o.valid || !l.verify then .chunk o.tag o.valid else .invalid

/-- what leaf `i` answers right now -/
def LeafAnswers (w : World) (i id : Nat) (r : R) : Prop := (leafGet w i id).1 = r

theorem updLeaf_of_none {w : World} {i : Nat} (f : Leaf → Leaf) (h : w.leaves[i]? = none) :
    updLeaf w i f = w := by
  have : w.leaves.length ≤ i := by
    rcases Nat.lt_or_ge i w.leaves.length with h' | h'
    · rw [List.getElem?_eq_getElem h'] at h; cases h
    · exact h'
  simp [updLeaf, List.modify_eq_self this]

/-- the world after a leaf `GetChunk`: only the bookkeeping of leaf `i` changes -/
theorem leafGet_snd (w : World) (i id : Nat) : (leafGet w i id).2 = updLeaf w i (bumpGet id) := by
  unfold leafGet
  split
  · rename_i h; rw [updLeaf_of_none _ h]
  · split
    · rfl
    · split
      · rfl
      · split <;> rfl

theorem leafGet_fst_none {w : World} {i : Nat} (id : Nat) (h : w.leaves[i]? = none) :
    (leafGet w i id).1 = .fail := by
  simp [leafGet, h]

theorem leafGet_fst_some {w : World} {i : Nat} (id : Nat) {l : Leaf} (h : w.leaves[i]? = some l) :
    (leafGet w i id).1 = if l.faults.contains l.calls then .fail else ansOf l id := by
  simp only [leafGet, h, ansOf]
  split
  · rfl
  · split
    · rename_i h2; simp [h2]
    · rename_i o h2
      simp only [h2]
      split <;> rfl

@[simp] theorem updLeaf_active (w : World) (i : Nat) (f : Leaf → Leaf) :
    (updLeaf w i f).active = w.active := rfl

theorem updLeaf_leaves_ne (w : World) {i j : Nat} (f : Leaf → Leaf) (h : j ≠ i) :
    (updLeaf w i f).leaves[j]? = w.leaves[j]? := by
  simp only [updLeaf]
  exact List.getElem?_modify_ne f _ (Ne.symm h)

theorem updLeaf_leaves_eq (w : World) (i : Nat) (f : Leaf → Leaf) :
    (updLeaf w i f).leaves[i]? = f <$> w.leaves[i]? := by
  simp only [updLeaf]
  exact List.getElem?_modify_eq f i _

@[simp] theorem leafGet_active (w : World) (i id : Nat) : (leafGet w i id).2.active = w.active := by
  rw [leafGet_snd]; rfl

/-- a leaf call leaves every other leaf untouched (same content, same call counter, same log) -/
theorem leafGet_leaves_ne (w : World) {i j : Nat} (id : Nat) (h : j ≠ i) :
    (leafGet w i id).2.leaves[j]? = w.leaves[j]? := by
  rw [leafGet_snd]; exact updLeaf_leaves_ne w _ h

theorem leafGet_leaves_eq (w : World) (i id : Nat) :
    (leafGet w i id).2.leaves[i]? = bumpGet id <$> w.leaves[i]? := by
  rw [leafGet_snd]; exact updLeaf_leaves_eq w i _

/-- `Store` on a leaf succeeds iff the leaf exists and this call is not one of its faults -/
theorem leafStore_true_iff (w : World) (i id : Nat) (o : Obj) :
    (leafStore w i id o).1 = true ↔
      ∃ l, w.leaves[i]? = some l ∧ l.faults.contains l.calls = false := by
  unfold leafStore
  split
  · rename_i h; simp [h]
  · rename_i l h
    split
    · rename_i hf
      simp only [h, Bool.false_eq_true, false_iff]
      rintro ⟨l', hl', hf'⟩
      injection hl' with hl'; subst hl'
      rw [hf] at hf'; cases hf'
    · rename_i hf
      simp only [h, true_iff]
      exact ⟨l, rfl, by simpa using hf⟩

/-- after a successful `Store` the leaf maps `id` to the stored object -/
theorem leafStore_content {w : World} {i id : Nat} {o : Obj}
    (h : (leafStore w i id o).1 = true) :
    ∃ l, (leafStore w i id o).2.leaves[i]? = some l ∧ l.content.lookup id = some o := by
  obtain ⟨l0, hl0, hf⟩ := (leafStore_true_iff w i id o).mp h
  unfold leafStore
  simp only [hl0, hf]
  simp only [Bool.false_eq_true, if_false]
  rw [updLeaf_leaves_eq, hl0]
  refine ⟨_, rfl, ?_⟩
  simp

/-- a `Store` leaves every other leaf untouched -/
theorem leafStore_leaves_ne (w : World) {i j : Nat} (id : Nat) (o : Obj) (h : j ≠ i) :
    (leafStore w i id o).2.leaves[j]? = w.leaves[j]? := by
  unfold leafStore
  split
  · rfl
  · split <;> exact updLeaf_leaves_ne w _ h

/-! ### (1), (6) StoreRouter -/

theorem routerGet_nil (w : World) (id g : Nat) : routerGet w id g [] = (.missing, w) := rfl

theorem routerGet_cons_missing {w : World} {id g : Nat} {m : List Nat} {rest : List (List Nat)}
    (h : (grpGet w g m id).1 = .missing) :
    routerGet w id g (m :: rest) = routerGet (grpGet w g m id).2 id (g + 1) rest := by
  rw [routerGet]
  generalize grpGet w g m id = p at h
  obtain ⟨r, w'⟩ := p
  simp only at h
  subst h
  rfl

theorem routerGet_cons_chunk {w : World} {id g : Nat} {m : List Nat} {rest : List (List Nat)}
    {t : Nat} {v : Bool} (h : (grpGet w g m id).1 = .chunk t v) :
    routerGet w id g (m :: rest) = (.chunk t v, (grpGet w g m id).2) := by
  rw [routerGet]
  generalize grpGet w g m id = p at h
  obtain ⟨r, w'⟩ := p
  simp only at h
  subst h
  rfl

/-- **an error from one group stops the router**: the error is reported (as a wrapped failure) and
the remaining groups are not consulted -/
theorem routerGet_cons_error {w : World} {id g : Nat} {m : List Nat} {rest : List (List Nat)}
    (h : (grpGet w g m id).1 = .invalid ∨ (grpGet w g m id).1 = .fail) :
    routerGet w id g (m :: rest) = (.fail, (grpGet w g m id).2) := by
  rw [routerGet]
  generalize grpGet w g m id = p at h
  obtain ⟨r, w'⟩ := p
  simp only at h
  rcases h with h | h <;> (subst h; rfl)

/-- every group of `gs` (numbered from `g`) answers `missing`, each at the world reached so far -/
def AllMissing (w : World) (id : Nat) : Nat → List (List Nat) → Prop
  | _, [] => True
  | g, m :: rest => (grpGet w g m id).1 = .missing ∧ AllMissing (grpGet w g m id).2 id (g + 1) rest

/-- the world after asking all groups of `gs` in turn -/
def skipWorld (w : World) (id : Nat) : Nat → List (List Nat) → World
  | _, [] => w
  | g, m :: rest => skipWorld (grpGet w g m id).2 id (g + 1) rest

theorem routerGet_append_missing {w : World} {id g : Nat} {pre rest : List (List Nat)}
    (h : AllMissing w id g pre) :
    routerGet w id g (pre ++ rest) = routerGet (skipWorld w id g pre) id (g + pre.length) rest := by
  induction pre generalizing w g with
  | nil => rfl
  | cons m pre ih =>
    obtain ⟨h1, h2⟩ := h
    rw [List.cons_append, routerGet_cons_missing h1, ih h2]
    simp only [skipWorld, List.length_cons]
    have : g + 1 + pre.length = g + (pre.length + 1) := by omega
    rw [this]

/-- **the router returns the first non-missing answer**: if all earlier groups merely lack the
chunk, the chunk of the next group is returned and later groups are not consulted -/
theorem router_first_non_missing (w : World) (id : Nat) (pre : List (List Nat)) (members : List Nat)
    (rest : List (List Nat)) (g0 t : Nat) (v : Bool) (hpre : AllMissing w id g0 pre)
    (hhit : (grpGet (skipWorld w id g0 pre) (g0 + pre.length) members id).1 = .chunk t v) :
    routerGet w id g0 (pre ++ members :: rest) =
      (.chunk t v, (grpGet (skipWorld w id g0 pre) (g0 + pre.length) members id).2) := by
  rw [routerGet_append_missing hpre, routerGet_cons_chunk hhit]

/-- (6) a failure of a group is never reported as `missing`, and the groups after it are skipped -/
theorem router_error_stops (w : World) (id : Nat) (pre : List (List Nat)) (members : List Nat)
    (rest : List (List Nat)) (g0 : Nat) (hpre : AllMissing w id g0 pre)
    (herr : (grpGet (skipWorld w id g0 pre) (g0 + pre.length) members id).1 = .invalid ∨
            (grpGet (skipWorld w id g0 pre) (g0 + pre.length) members id).1 = .fail) :
    routerGet w id g0 (pre ++ members :: rest) =
      (.fail, (grpGet (skipWorld w id g0 pre) (g0 + pre.length) members id).2) := by
  rw [routerGet_append_missing hpre, routerGet_cons_error herr]

/-- the router answers `missing` exactly when every group answers `missing` -/
theorem routerGet_missing_iff (w : World) (id g : Nat) (gs : List (List Nat)) :
    (routerGet w id g gs).1 = .missing ↔ AllMissing w id g gs := by
  induction gs generalizing w g with
  | nil => simp [routerGet, AllMissing]
  | cons m rest ih =>
    simp only [AllMissing]
    cases hr : (grpGet w g m id).1 with
    | missing =>
      rw [routerGet_cons_missing hr, ih]
      simp
    | chunk t v => rw [routerGet_cons_chunk hr]; simp
    | invalid => rw [routerGet_cons_error (Or.inl hr)]; simp
    | fail => rw [routerGet_cons_error (Or.inr hr)]; simp

theorem routerGet_all_missing {w : World} {id g : Nat} {gs : List (List Nat)}
    (h : AllMissing w id g gs) : routerGet w id g gs = (.missing, skipWorld w id g gs) := by
  have := routerGet_append_missing (rest := []) h
  rw [List.append_nil] at this
  rw [this]; rfl

/-- the router never answers `invalid` (errors are wrapped) -/
theorem routerGet_ne_invalid (w : World) (id g : Nat) (gs : List (List Nat)) :
    (routerGet w id g gs).1 ≠ .invalid := by
  induction gs generalizing w g with
  | nil => simp [routerGet]
  | cons m rest ih =>
    cases hr : (grpGet w g m id).1 with
    | missing => rw [routerGet_cons_missing hr]; exact ih _ _
    | chunk t v => rw [routerGet_cons_chunk hr]; simp
    | invalid => rw [routerGet_cons_error (Or.inl hr)]; simp
    | fail => rw [routerGet_cons_error (Or.inr hr)]; simp

/-! ### (2), (3), (4) Cache / RepairableCache -/

/-- `getChunk` with a cache, as a function of the local answer -/
theorem getChunk_cache {cfg : Cfg} {c : Nat} {rep : Bool} (w : World) (id : Nat)
    (hc : cfg.cache = some (c, rep)) :
    getChunk cfg w id =
      (match (if rep && decide ((leafGet w c id).1 = .invalid) then R.missing else (leafGet w c id).1) with
       | .chunk t v => (.chunk t v, (leafGet w c id).2)
       | .missing =>
         match (routerGet (leafGet w c id).2 id 0 cfg.groups).1 with
         | .chunk t v =>
           if (leafStore (routerGet (leafGet w c id).2 id 0 cfg.groups).2 c id ⟨t, v⟩).1
           then (.chunk t v, (leafStore (routerGet (leafGet w c id).2 id 0 cfg.groups).2 c id ⟨t, v⟩).2)
           else (.fail, (leafStore (routerGet (leafGet w c id).2 id 0 cfg.groups).2 c id ⟨t, v⟩).2)
         | e => (e, (routerGet (leafGet w c id).2 id 0 cfg.groups).2)
       | e => (e, (leafGet w c id).2)) := by
  unfold getChunk
  rw [hc]
  simp only
  generalize leafGet w c id = p
  obtain ⟨r0, w1⟩ := p
  simp only
  generalize (if (rep && decide (r0 = R.invalid)) = true then R.missing else r0) = r
  cases r with
  | chunk t v => rfl
  | invalid => rfl
  | fail => rfl
  | missing =>
    simp only
    generalize routerGet w1 id 0 cfg.groups = q
    obtain ⟨ru, w2⟩ := q
    cases ru <;> rfl

/-- (2) **cache hit**: a cached chunk is served from the cache; the only effect is the `get` on the
cache leaf -/
theorem cache_hit (cfg : Cfg) (w : World) (id c : Nat) (rep : Bool) (t : Nat) (v : Bool)
    (hc : cfg.cache = some (c, rep)) (hans : (leafGet w c id).1 = .chunk t v) :
    getChunk cfg w id = (.chunk t v, (leafGet w c id).2) := by
  rw [getChunk_cache w id hc, hans]
  simp

/-- (2) a valid cached chunk is served without touching any upstream leaf (same content, same call
counter, same log) -/
theorem cache_hit_no_upstream (cfg : Cfg) (w : World) (id c : Nat) (rep : Bool) (t : Nat)
    (hc : cfg.cache = some (c, rep)) (hans : (leafGet w c id).1 = .chunk t true) :
    (getChunk cfg w id).1 = .chunk t true ∧
      ∀ (i : Nat), i ≠ c → (getChunk cfg w id).2.leaves[i]? = w.leaves[i]? := by
  rw [cache_hit cfg w id c rep t true hc hans]
  exact ⟨rfl, fun i hi => leafGet_leaves_ne w id hi⟩

/-- the answer of the cache layer after the `RepairableCache` mapping is `missing` -/
def LocalMiss (w : World) (c id : Nat) (rep : Bool) : Prop :=
  (leafGet w c id).1 = .missing ∨ (rep = true ∧ (leafGet w c id).1 = .invalid)

theorem getChunk_localMiss {cfg : Cfg} {c : Nat} {rep : Bool} (w : World) (id : Nat)
    (hc : cfg.cache = some (c, rep)) (hm : LocalMiss w c id rep) :
    getChunk cfg w id =
      (match (routerGet (leafGet w c id).2 id 0 cfg.groups).1 with
       | .chunk t v =>
         if (leafStore (routerGet (leafGet w c id).2 id 0 cfg.groups).2 c id ⟨t, v⟩).1
         then (.chunk t v, (leafStore (routerGet (leafGet w c id).2 id 0 cfg.groups).2 c id ⟨t, v⟩).2)
         else (.fail, (leafStore (routerGet (leafGet w c id).2 id 0 cfg.groups).2 c id ⟨t, v⟩).2)
       | e => (e, (routerGet (leafGet w c id).2 id 0 cfg.groups).2)) := by
  rw [getChunk_cache w id hc]
  rcases hm with hm | ⟨hrep, hm⟩
  · rw [hm]; simp
  · rw [hm, hrep]; simp

/-- fetch-and-fill after a local miss (plain miss, or an invalid object under a RepairableCache) -/
theorem cache_fill_of_localMiss (cfg : Cfg) (w : World) (id c : Nat) (rep : Bool) (t : Nat)
    (v : Bool) (hc : cfg.cache = some (c, rep)) (hloc : LocalMiss w c id rep)
    (hup : (routerGet (leafGet w c id).2 id 0 cfg.groups).1 = .chunk t v)
    (hst : (leafStore (routerGet (leafGet w c id).2 id 0 cfg.groups).2 c id ⟨t, v⟩).1 = true) :
    (getChunk cfg w id).1 = .chunk t v ∧
      ∃ l, (getChunk cfg w id).2.leaves[c]? = some l ∧ l.content.lookup id = some ⟨t, v⟩ := by
  rw [getChunk_localMiss w id hc hloc, hup]
  refine ⟨by simp [hst], ?_⟩
  simp only [hst, if_true]
  exact leafStore_content hst

/-- (3) **cache fill**: on a miss with an upstream hit and a working cache store, the chunk is
returned and afterwards the cache leaf holds it -/
theorem cache_fill (cfg : Cfg) (w : World) (id c : Nat) (rep : Bool) (t : Nat) (v : Bool)
    (hc : cfg.cache = some (c, rep)) (hloc : (leafGet w c id).1 = .missing)
    (hup : (routerGet (leafGet w c id).2 id 0 cfg.groups).1 = .chunk t v)
    (hst : (leafStore (routerGet (leafGet w c id).2 id 0 cfg.groups).2 c id ⟨t, v⟩).1 = true) :
    (getChunk cfg w id).1 = .chunk t v ∧
      ∃ l, (getChunk cfg w id).2.leaves[c]? = some l ∧ l.content.lookup id = some ⟨t, v⟩ :=
  cache_fill_of_localMiss cfg w id c rep t v hc (Or.inl hloc) hup hst

/-- (3') a chunk that upstream has is reported as a failure when the cache store fails -/
theorem cache_fill_store_fails (cfg : Cfg) (w : World) (id c : Nat) (rep : Bool) (t : Nat) (v : Bool)
    (hc : cfg.cache = some (c, rep)) (hloc : LocalMiss w c id rep)
    (hup : (routerGet (leafGet w c id).2 id 0 cfg.groups).1 = .chunk t v)
    (hst : (leafStore (routerGet (leafGet w c id).2 id 0 cfg.groups).2 c id ⟨t, v⟩).1 = false) :
    (getChunk cfg w id).1 = .fail := by
  rw [getChunk_localMiss w id hc hloc, hup]
  simp [hst]

/-- after a local miss an upstream `missing`/failure is passed on and nothing is stored -/
theorem cache_miss_upstream_no_chunk (cfg : Cfg) (w : World) (id c : Nat) (rep : Bool)
    (hc : cfg.cache = some (c, rep)) (hloc : LocalMiss w c id rep)
    (hup : ∀ t v, (routerGet (leafGet w c id).2 id 0 cfg.groups).1 ≠ .chunk t v) :
    getChunk cfg w id = routerGet (leafGet w c id).2 id 0 cfg.groups := by
  rw [getChunk_localMiss w id hc hloc]
  generalize routerGet (leafGet w c id).2 id 0 cfg.groups = q at hup
  obtain ⟨ru, w2⟩ := q
  cases ru with
  | chunk t v => exact absurd rfl (hup t v)
  | missing => rfl
  | invalid => rfl
  | fail => rfl

/-- (4) **cache repair**: with a RepairableCache an invalid cached object is replaced from upstream -/
theorem cache_repair (cfg : Cfg) (w : World) (id c t : Nat) (v : Bool)
    (hc : cfg.cache = some (c, true)) (hloc : (leafGet w c id).1 = .invalid)
    (hup : (routerGet (leafGet w c id).2 id 0 cfg.groups).1 = .chunk t v)
    (hst : (leafStore (routerGet (leafGet w c id).2 id 0 cfg.groups).2 c id ⟨t, v⟩).1 = true) :
    (getChunk cfg w id).1 = .chunk t v ∧
      ∃ l, (getChunk cfg w id).2.leaves[c]? = some l ∧ l.content.lookup id = some ⟨t, v⟩ :=
  cache_fill_of_localMiss cfg w id c true t v hc (Or.inr ⟨rfl, hloc⟩) hup hst

/-- (4) without the RepairableCache wrapper the invalid error is returned and upstream is not
consulted: the only effect is the `get` on the cache leaf -/
theorem cache_no_repair_invalid (cfg : Cfg) (w : World) (id c : Nat)
    (hc : cfg.cache = some (c, false)) (hloc : (leafGet w c id).1 = .invalid) :
    getChunk cfg w id = (.invalid, (leafGet w c id).2) ∧
      ∀ (i : Nat), i ≠ c → (getChunk cfg w id).2.leaves[i]? = w.leaves[i]? := by
  have h : getChunk cfg w id = (.invalid, (leafGet w c id).2) := by
    rw [getChunk_cache w id hc, hloc]; simp
  rw [h]
  exact ⟨rfl, fun i hi => leafGet_leaves_ne w id hi⟩

/-- a failing cache leaf fails the request, upstream is not consulted (with or without repair) -/
theorem cache_local_fail (cfg : Cfg) (w : World) (id c : Nat) (rep : Bool)
    (hc : cfg.cache = some (c, rep)) (hloc : (leafGet w c id).1 = .fail) :
    getChunk cfg w id = (.fail, (leafGet w c id).2) := by
  rw [getChunk_cache w id hc, hloc]; simp

/-! ### (5) FailoverGroup, sequentially -/

/-- the member the group would ask right now -/
def curMember (w : World) (g : Nat) (members : List Nat) : Nat :=
  members.getD (w.active.getD g 0) 0

/-- the world after the active member erred: its call is recorded and `active` advanced -/
def advance (w : World) (g : Nat) (members : List Nat) (id : Nat) : World :=
  { (leafGet w (curMember w g members) id).2 with
    active := (leafGet w (curMember w g members) id).2.active.set g
      ((w.active.getD g 0 + 1) % members.length) }

theorem groupGet_succ_chunk {w : World} {g : Nat} {members : List Nat} {id n : Nat} {last : R}
    {t : Nat} {v : Bool} (h : (leafGet w (curMember w g members) id).1 = .chunk t v) :
    groupGet w g members id (n + 1) last =
      (.chunk t v, (leafGet w (curMember w g members) id).2) := by
  rw [groupGet]
  simp only [curMember] at h ⊢
  generalize leafGet w (members.getD (w.active.getD g 0) 0) id = p at h
  obtain ⟨r, w'⟩ := p
  simp only at h
  subst h
  rfl

theorem groupGet_succ_missing {w : World} {g : Nat} {members : List Nat} {id n : Nat} {last : R}
    (h : (leafGet w (curMember w g members) id).1 = .missing) :
    groupGet w g members id (n + 1) last =
      (.missing, (leafGet w (curMember w g members) id).2) := by
  rw [groupGet]
  simp only [curMember] at h ⊢
  generalize leafGet w (members.getD (w.active.getD g 0) 0) id = p at h
  obtain ⟨r, w'⟩ := p
  simp only at h
  subst h
  rfl

theorem groupGet_succ_error {w : World} {g : Nat} {members : List Nat} {id n : Nat} {last : R}
    (h : (leafGet w (curMember w g members) id).1 = .invalid ∨
         (leafGet w (curMember w g members) id).1 = .fail) :
    groupGet w g members id (n + 1) last =
      groupGet (advance w g members id) g members id n
        (leafGet w (curMember w g members) id).1 := by
  rw [groupGet]
  simp only [curMember, advance] at h ⊢
  generalize leafGet w (members.getD (w.active.getD g 0) 0) id = p at h
  obtain ⟨r, w'⟩ := p
  simp only at h
  rcases h with h | h <;> (subst h; rfl)

/-- **a `missing` answer of the active member is returned as missing** (never masked by trying the
next member), and `active` does not move -/
theorem groupGet_missing_not_masked (w : World) (g : Nat) (members : List Nat) (id n : Nat)
    (last : R) (h : (leafGet w (curMember w g members) id).1 = .missing) :
    (groupGet w g members id (n + 1) last).1 = .missing ∧
      (groupGet w g members id (n + 1) last).2.active = w.active := by
  rw [groupGet_succ_missing h]
  exact ⟨rfl, leafGet_active _ _ _⟩

/-- the same for the group as the router sees it (a single store or a FailoverGroup) -/
theorem grpGet_missing_not_masked (w : World) (g : Nat) (members : List Nat) (id : Nat)
    (hne : members ≠ []) (h : (leafGet w (curMember w g members) id).1 = .missing)
    (hact : w.active.getD g 0 < members.length) :
    (grpGet w g members id).1 = .missing := by
  match members, hne with
  | [m], _ =>
    have h0 : w.active.getD g 0 = 0 := by simpa using hact
    unfold curMember at h
    rw [h0] at h
    simpa [grpGet] using h
  | m1 :: m2 :: ms, _ =>
    simp only [grpGet, List.length_cons]
    exact (groupGet_missing_not_masked w g _ id _ .fail h).1

/-- from its own call counter on, the leaf never faults -/
def NeverFaults (l : Leaf) : Prop := ∀ k, l.calls ≤ k → l.faults.contains k = false

/-- from its own call counter on, the leaf faults at every call -/
def AlwaysFaults (l : Leaf) : Prop := ∀ k, l.calls ≤ k → l.faults.contains k = true

/-- a healthy member: never faults and answers `ans` for `id` -/
def LeafHealthy (id : Nat) (ans : R) (l : Leaf) : Prop := NeverFaults l ∧ ansOf l id = ans

/-- a member that can only fail or agree with the healthy one: it is down for good, or it is a
replica (whenever it answers, it answers `ans`), or its copy is corrupt (`invalid`, an error) -/
def LeafCompatible (id : Nat) (ans : R) (l : Leaf) : Prop :=
  AlwaysFaults l ∨ ansOf l id = ans ∨ ansOf l id = .invalid

theorem ansOf_bumpGet (id' : Nat) (l : Leaf) (id : Nat) : ansOf (bumpGet id' l) id = ansOf l id := rfl

theorem LeafHealthy.bump {id ans} {l : Leaf} (id' : Nat) (h : LeafHealthy id ans l) :
    LeafHealthy id ans (bumpGet id' l) :=
  ⟨fun k hk => h.1 k (by simp only [bumpGet] at hk; omega), h.2⟩

theorem LeafCompatible.bump {id ans} {l : Leaf} (id' : Nat) (h : LeafCompatible id ans l) :
    LeafCompatible id ans (bumpGet id' l) := by
  rcases h with h | h | h
  · exact Or.inl fun k hk => h k (by simp only [bumpGet] at hk; omega)
  · exact Or.inr (Or.inl h)
  · exact Or.inr (Or.inr h)

/-- the group hypothesis: position `hpos` holds a healthy member, every member that exists is
compatible with it, and the group's `active` slot exists -/
structure HealthyGroup (g : Nat) (members : List Nat) (hpos id : Nat) (ans : R) (w : World) :
    Prop where
  slot : g < w.active.length
  healthy : ∃ l, w.leaves[members.getD hpos 0]? = some l ∧ LeafHealthy id ans l
  others : ∀ (m : Nat), m ∈ members → ∀ (l : Leaf), w.leaves[m]? = some l → LeafCompatible id ans l

theorem leaves_pred_leafGet {P : Leaf → Prop} (hP : ∀ id' l, P l → P (bumpGet id' l))
    {w : World} {m : Nat} {l : Leaf} (i id : Nat)
    (hall : ∀ l0, w.leaves[m]? = some l0 → P l0)
    (h : (leafGet w i id).2.leaves[m]? = some l) : P l := by
  by_cases hm : m = i
  · subst hm
    rw [leafGet_leaves_eq] at h
    cases h0 : w.leaves[m]? with
    | none => rw [h0] at h; cases h
    | some l0 =>
      rw [h0] at h
      injection h with h
      subst h
      exact hP _ _ (hall l0 h0)
  · rw [leafGet_leaves_ne w id hm] at h
    exact hall l h

theorem HealthyGroup.advance {g : Nat} {members : List Nat} {hpos id : Nat} {ans : R} {w : World}
    (H : HealthyGroup g members hpos id ans w) : HealthyGroup g members hpos id ans
      (advance w g members id) := by
  refine ⟨?_, ?_, ?_⟩
  · simp only [Desync.Chain.advance, List.length_set, leafGet_active]
    exact H.slot
  · obtain ⟨l, hl, hh⟩ := H.healthy
    show ∃ l, (leafGet w (curMember w g members) id).2.leaves[members.getD hpos 0]? = some l ∧ _
    by_cases hm : members.getD hpos 0 = curMember w g members
    · rw [← hm, leafGet_leaves_eq, hl]
      exact ⟨_, rfl, hh.bump id⟩
    · rw [leafGet_leaves_ne w id hm]
      exact ⟨l, hl, hh⟩
  · intro m hm l hl
    exact leaves_pred_leafGet (P := LeafCompatible id ans) (fun id' l h => h.bump id')
      (curMember w g members) id (H.others m hm) hl

theorem advance_active {g : Nat} {members : List Nat} {id : Nat} {w : World}
    (hs : g < w.active.length) :
    (advance w g members id).active.getD g 0 = (w.active.getD g 0 + 1) % members.length := by
  simp only [advance, leafGet_active, List.getD_eq_getElem?_getD]
  rw [List.getElem?_set_self hs]
  rfl

open Desync.Failover in
/-- (5) core: starting `k` steps before the healthy position, `k + 1` attempts suffice -/
theorem groupGet_healthy_aux (g : Nat) (members : List Nat) (hpos id : Nat) (ans : R)
    (hh : hpos < members.length) (hans : ans ≠ .invalid) (k : Nat) :
    ∀ (w : World) (n : Nat) (last : R), HealthyGroup g members hpos id ans w →
      w.active.getD g 0 < members.length →
      d members.length hpos (w.active.getD g 0) = k → k + 1 ≤ n →
      (groupGet w g members id n last).1 = ans := by
  induction k with
  | zero =>
    intro w n last H hact hd hn
    have ha : w.active.getD g 0 = hpos := d_eq_zero hh hact hd
    obtain ⟨l, hl, hnf, hl2⟩ := H.healthy
    have hcur : curMember w g members = members.getD hpos 0 := by simp only [curMember, ha]
    have hget : (leafGet w (curMember w g members) id).1 = ans := by
      rw [hcur, leafGet_fst_some id hl, hnf l.calls (Nat.le_refl _)]
      simpa using hl2
    obtain ⟨n', rfl⟩ : ∃ n', n = n' + 1 := ⟨n - 1, by omega⟩
    cases hans' : ans with
    | chunk t v => rw [hans'] at hget; rw [groupGet_succ_chunk hget]
    | missing => rw [hans'] at hget; rw [groupGet_succ_missing hget]
    | invalid => exact absurd hans' hans
    | fail =>
      exfalso
      rw [hans'] at hl2
      simp only [ansOf] at hl2
      split at hl2
      · cases hl2
      · split at hl2 <;> cases hl2
  | succ k ih =>
    intro w n last H hact hd hn
    obtain ⟨n', rfl⟩ : ∃ n', n = n' + 1 := ⟨n - 1, by omega⟩
    have hne : w.active.getD g 0 ≠ hpos := by
      intro he
      rw [he, d_self hh] at hd
      cases hd
    have hsucc := d_succ hh hact hne
    have hlen : 1 ≤ members.length := by omega
    -- the recursive call after an error
    have hrec : ∀ e, (groupGet (advance w g members id) g members id n' e).1 = ans := by
      intro e
      apply ih _ _ _ H.advance
      · rw [advance_active H.slot]; exact succ_mod_lt hlen
      · rw [advance_active H.slot]; omega
      · omega
    have hmem : curMember w g members ∈ members := by
      unfold curMember
      have hact' := hact
      revert hact'
      generalize w.active.getD g 0 = a
      intro hact'
      rw [List.getD_eq_getElem?_getD, List.getElem?_eq_getElem hact']
      exact List.getElem_mem hact'
    cases hleaf : w.leaves[curMember w g members]? with
    | none =>
      have hget := leafGet_fst_none id hleaf
      rw [groupGet_succ_error (Or.inr hget)]
      exact hrec _
    | some l =>
      have hget := leafGet_fst_some id hleaf
      by_cases hf : l.faults.contains l.calls = true
      · rw [hf, if_pos rfl] at hget
        rw [groupGet_succ_error (Or.inr hget)]
        exact hrec _
      · have hf' : l.faults.contains l.calls = false := by simpa using hf
        rw [hf'] at hget
        simp only [Bool.false_eq_true, if_false] at hget
        rcases H.others _ hmem l hleaf with hc | hc | hc
        · have := hc l.calls (Nat.le_refl _)
          rw [hf'] at this; cases this
        · rw [hc] at hget
          cases hans' : ans with
          | chunk t v => rw [hans'] at hget; rw [groupGet_succ_chunk hget]
          | missing => rw [hans'] at hget; rw [groupGet_succ_missing hget]
          | invalid => exact absurd hans' hans
          | fail =>
            rw [hans'] at hget
            rw [groupGet_succ_error (Or.inr hget), ← hans']
            exact hrec _
        · rw [hc] at hget
          rw [groupGet_succ_error (Or.inl hget)]
          exact hrec _

/-- (5) **sequential failover**: if member `hpos` never faults and answers `ans` (a chunk or
`missing`), and every other member can only fail or answer like it, a group request returns `ans`
within `members.length` attempts -/
theorem groupGet_healthy (w : World) (g : Nat) (members : List Nat) (hpos id : Nat) (ans : R)
    (hh : hpos < members.length) (hact : w.active.getD g 0 < members.length)
    (hans : ans ≠ .invalid) (H : HealthyGroup g members hpos id ans w) :
    (groupGet w g members id members.length .fail).1 = ans := by
  have hlen : 1 ≤ members.length := by omega
  have hlt := @Desync.Failover.d_lt members.length hpos (w.active.getD g 0) hlen
  exact groupGet_healthy_aux g members hpos id ans hh hans _ w _ _ H hact rfl (by omega)

/-- the same for the group as the router sees it -/
theorem grpGet_healthy (w : World) (g : Nat) (members : List Nat) (hpos id : Nat) (ans : R)
    (hh : hpos < members.length) (hact : w.active.getD g 0 < members.length)
    (hans : ans ≠ .invalid) (H : HealthyGroup g members hpos id ans w) :
    (grpGet w g members id).1 = ans := by
  match members, hh, hact, H with
  | [m], hh, hact, H =>
    have h0 : hpos = 0 := by simpa using hh
    subst h0
    obtain ⟨l, hl, hnf, hl2⟩ := H.healthy
    simp only [List.getD_cons_zero] at hl
    simp only [grpGet]
    rw [leafGet_fst_some id hl, hnf l.calls (Nat.le_refl _)]
    simpa using hl2
  | [], hh, _, _ => simp at hh
  | m1 :: m2 :: ms, hh, hact, H =>
    simp only [grpGet]
    exact groupGet_healthy w g _ hpos id ans hh hact hans H

/-- the replica hypothesis of `groupGet_healthy` is necessary: a member that merely lacks the chunk
answers `missing`, which is final (`groupGet_missing_not_masked`) although member 1 has the chunk -/
example :
    (groupGet { leaves := [{ content := [], faults := [] },
                           { content := [(7, ⟨1, true⟩)], faults := [] }], active := [0] }
      0 [0, 1] 7 2 .fail).1 = .missing := by decide

end Desync.Chain

