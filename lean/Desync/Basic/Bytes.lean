/-
  Bytes, little-endian codecs, hex.  Core-only (no Mathlib) so that the driver links.
-/
namespace Desync

abbrev Bytes := List UInt8

/-- `n` little-endian bytes of the natural number `v` (low byte first). -/
def leN : Nat → Nat → Bytes
  | 0, _ => []
  | n+1, v => UInt8.ofNat (v % 256) :: leN n (v / 256)

/-- value of a little-endian byte string -/
def ofLE : Bytes → Nat
  | [] => 0
  | b :: bs => b.toNat + 256 * ofLE bs

@[simp] theorem leN_length (n v : Nat) : (leN n v).length = n := by
  induction n generalizing v with
  | zero => rfl
  | succ n ih => simp [leN, ih]

theorem ofLE_lt (b : Bytes) : ofLE b < 256 ^ b.length := by
  induction b with
  | nil => simp [ofLE]
  | cons x xs ih =>
    have hx : x.toNat < 256 := x.toNat_lt
    simp only [ofLE, List.length_cons, Nat.pow_succ]
    omega

theorem ofLE_leN (n v : Nat) (h : v < 256 ^ n) : ofLE (leN n v) = v := by
  induction n generalizing v with
  | zero => simp [Nat.pow_zero] at h; simp [leN, ofLE, h]
  | succ n ih =>
    have h' : v / 256 < 256 ^ n := by
      rw [Nat.pow_succ] at h
      exact Nat.div_lt_of_lt_mul (by omega)
    simp only [leN, ofLE, ih _ h']
    have : (UInt8.ofNat (v % 256)).toNat = v % 256 := by
      simp [UInt8.toNat_ofNat']
    omega

theorem leN_ofLE (b : Bytes) : leN b.length (ofLE b) = b := by
  induction b with
  | nil => rfl
  | cons x xs ih =>
    have hx : x.toNat < 256 := x.toNat_lt
    simp only [List.length_cons, leN, ofLE]
    have h1 : (x.toNat + 256 * ofLE xs) % 256 = x.toNat := by omega
    have h2 : (x.toNat + 256 * ofLE xs) / 256 = ofLE xs := by omega
    rw [h1, h2, ih]
    simp

/-- 8 little-endian bytes of a 64-bit value (`binary.LittleEndian.PutUint64`). -/
def le64 (v : UInt64) : Bytes := leN 8 v.toNat

@[simp] theorem le64_length (v : UInt64) : (le64 v).length = 8 := by simp [le64]

/-- `binary.LittleEndian.Uint64` of exactly the first 8 bytes. -/
def u64OfLE (b : Bytes) : UInt64 := UInt64.ofNat (ofLE (b.take 8))

theorem u64OfLE_le64_append (v : UInt64) (rest : Bytes) : u64OfLE (le64 v ++ rest) = v := by
  unfold u64OfLE
  have : (le64 v ++ rest).take 8 = le64 v := by
    rw [List.take_append_of_le_length (by simp)]
    exact List.take_of_length_le (by simp)
  rw [this, le64, ofLE_leN _ _ (by have := v.toNat_lt; omega)]
  simp

theorem u64OfLE_le64 (v : UInt64) : u64OfLE (le64 v) = v := by
  simpa using u64OfLE_le64_append v []

theorem le64_u64OfLE (b : Bytes) (h : b.length = 8) : le64 (u64OfLE b) = b := by
  unfold le64 u64OfLE
  have ht : b.take 8 = b := List.take_of_length_le (by omega)
  rw [ht]
  have hl := ofLE_lt b
  rw [h] at hl
  have : (UInt64.ofNat (ofLE b)).toNat = ofLE b := by
    simp [UInt64.toNat_ofNat']
    omega
  rw [this]
  have := leN_ofLE b
  rw [h] at this
  exact this

theorem le64_injective {a b : UInt64} (h : le64 a = le64 b) : a = b := by
  have := congrArg u64OfLE h
  simpa [u64OfLE_le64] using this

/-! ### hex -/

def hexDigit (n : Nat) : Char :=
  if n < 10 then Char.ofNat (48 + n) else Char.ofNat (87 + n)

def toHex (b : Bytes) : String :=
  String.ofList (b.flatMap fun x => [hexDigit (x.toNat / 16), hexDigit (x.toNat % 16)])

def hexVal (c : Char) : Option Nat :=
  if '0' ≤ c ∧ c ≤ '9' then some (c.toNat - 48)
  else if 'a' ≤ c ∧ c ≤ 'f' then some (c.toNat - 87)
  else if 'A' ≤ c ∧ c ≤ 'F' then some (c.toNat - 55)
  else none

def ofHexChars : List Char → Option Bytes
  | [] => some []
  | [_] => none
  | a :: b :: rest => do
    let x ← hexVal a
    let y ← hexVal b
    let r ← ofHexChars rest
    pure (UInt8.ofNat (16 * x + y) :: r)

def ofHex (s : String) : Option Bytes := ofHexChars s.toList

end Desync
