/-
  The rolling hash of chunker.go (buzhash over a 48-byte window).
-/
import Desync.Basic.Bytes
import Desync.Generated.Facts

namespace Desync

/-- `bits.RotateLeft32(x, k)` (k is reduced mod 32 as in Go) -/
def rotl32 (x : UInt32) (k : Nat) : UInt32 :=
  ⟨x.toBitVec.rotateLeft k⟩

/-- `hashTable[b]` -/
def buzT (b : UInt8) : UInt32 := Gen.hashTable.getD b.toNat 0

/-- window size as a `Nat` -/
def winSize : Nat := Gen.ChunkerWindowSize.toNat

/-- direct hash of a window: `⨁ᵢ rotl(T[wᵢ], len-1-i)` — what the initialisation loop in
    `Chunker.Next` / `Hash.Initialize` computes for a full window -/
def hashWin : Bytes → UInt32
  | [] => 0
  | b :: bs => rotl32 (buzT b) bs.length ^^^ hashWin bs

/-- one rolling step (`Hash.Roll`, and the loop body of `Chunker.Next`):
    `rotl(h,1) ^ rotl(T[out], windowSize) ^ T[in]` -/
def rollStep (h : UInt32) (out inb : UInt8) : UInt32 :=
  rotl32 h 1 ^^^ rotl32 (buzT out) winSize ^^^ buzT inb

end Desync
