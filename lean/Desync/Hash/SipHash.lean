/-
  SipHash-2-4 (64-bit output), executable.  Used for the goodbye tables of catar archives
  (`sip.go`: `siphash.Hash(CaFormatGoodbyeHashKey0, CaFormatGoodbyeHashKey1, b)`).
  Differential-tested against github.com/dchest/siphash on every run; nothing is proved
  about SipHash itself (DESIGN §5).
-/
import Desync.Basic.Bytes

namespace Desync

@[inline] def rotl64 (x : UInt64) (k : UInt64) : UInt64 := (x <<< k) ||| (x >>> (64 - k))

structure SipState where
  v0 : UInt64
  v1 : UInt64
  v2 : UInt64
  v3 : UInt64

def sipRound (s : SipState) : SipState :=
  let v0 := s.v0 + s.v1
  let v1 := rotl64 s.v1 13
  let v1 := v1 ^^^ v0
  let v0 := rotl64 v0 32
  let v2 := s.v2 + s.v3
  let v3 := rotl64 s.v3 16
  let v3 := v3 ^^^ v2
  let v0 := v0 + v3
  let v3 := rotl64 v3 21
  let v3 := v3 ^^^ v0
  let v2 := v2 + v1
  let v1 := rotl64 v1 17
  let v1 := v1 ^^^ v2
  let v2 := rotl64 v2 32
  ⟨v0, v1, v2, v3⟩

def sipCompress (s : SipState) (m : UInt64) : SipState :=
  let s := { s with v3 := s.v3 ^^^ m }
  let s := sipRound (sipRound s)
  { s with v0 := s.v0 ^^^ m }

/-- absorb full 8-byte words; returns the state and the trailing (< 8) bytes -/
def sipBlocks : Nat → SipState → Bytes → SipState × Bytes
  | 0, s, b => (s, b)
  | f+1, s, b =>
    if b.length < 8 then (s, b)
    else sipBlocks f (sipCompress s (u64OfLE b)) (b.drop 8)

def sipHash24 (k0 k1 : UInt64) (b : Bytes) : UInt64 :=
  let s : SipState := ⟨k0 ^^^ 0x736f6d6570736575, k1 ^^^ 0x646f72616e646f6d,
                       k0 ^^^ 0x6c7967656e657261, k1 ^^^ 0x7465646279746573⟩
  let (s, tail) := sipBlocks (b.length / 8 + 1) s b
  let last : UInt64 := UInt64.ofNat (ofLE tail) ||| (UInt64.ofNat (b.length % 256) <<< 56)
  let s := sipCompress s last
  let s := { s with v2 := s.v2 ^^^ 0xff }
  let s := sipRound (sipRound (sipRound (sipRound s)))
  s.v0 ^^^ s.v1 ^^^ s.v2 ^^^ s.v3

end Desync
