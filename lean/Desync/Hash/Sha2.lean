/-
  SHA-256 and SHA-512/256, executable (FIPS 180-4).  Used to instantiate the digest
  parameter `H` in the driver; validated against Go's crypto on every run.  Nothing is
  proved about SHA-2: theorems take `H` as a parameter (DESIGN §4).
-/
import Desync.Basic.Bytes

namespace Desync.Sha2

/-- big-endian bytes of a natural number, `n` bytes -/
def beN (n : Nat) (v : Nat) : Bytes := (leN n v).reverse

def ofBE (b : Bytes) : Nat := b.foldl (fun acc x => acc * 256 + x.toNat) 0

/-- padding: message ++ 0x80 ++ zeros ++ length (in bits) as `lenBytes` big-endian bytes, to a
    multiple of `block` bytes -/
def pad (block lenBytes : Nat) (m : Bytes) : Bytes :=
  let l := m.length
  let k := (block - ((l + 1 + lenBytes) % block)) % block
  m ++ [0x80] ++ List.replicate k 0 ++ beN lenBytes (l * 8)

def chunksOf (n : Nat) : Nat → Bytes → List Bytes
  | 0, _ => []
  | f+1, b => if b.length = 0 then [] else b.take n :: chunksOf n f (b.drop n)

/-! ### SHA-256 -/

def k256 : Array UInt32 := #[
  0x428a2f98, 0x71374491, 0xb5c0fbcf, 0xe9b5dba5, 0x3956c25b, 0x59f111f1, 0x923f82a4, 0xab1c5ed5,
  0xd807aa98, 0x12835b01, 0x243185be, 0x550c7dc3, 0x72be5d74, 0x80deb1fe, 0x9bdc06a7, 0xc19bf174,
  0xe49b69c1, 0xefbe4786, 0x0fc19dc6, 0x240ca1cc, 0x2de92c6f, 0x4a7484aa, 0x5cb0a9dc, 0x76f988da,
  0x983e5152, 0xa831c66d, 0xb00327c8, 0xbf597fc7, 0xc6e00bf3, 0xd5a79147, 0x06ca6351, 0x14292967,
  0x27b70a85, 0x2e1b2138, 0x4d2c6dfc, 0x53380d13, 0x650a7354, 0x766a0abb, 0x81c2c92e, 0x92722c85,
  0xa2bfe8a1, 0xa81a664b, 0xc24b8b70, 0xc76c51a3, 0xd192e819, 0xd6990624, 0xf40e3585, 0x106aa070,
  0x19a4c116, 0x1e376c08, 0x2748774c, 0x34b0bcb5, 0x391c0cb3, 0x4ed8aa4a, 0x5b9cca4f, 0x682e6ff3,
  0x748f82ee, 0x78a5636f, 0x84c87814, 0x8cc70208, 0x90befffa, 0xa4506ceb, 0xbef9a3f7, 0xc67178f2]

@[inline] def rotr32 (x : UInt32) (n : UInt32) : UInt32 := (x >>> n) ||| (x <<< (32 - n))

def schedule256 (blk : Bytes) : Array UInt32 := Id.run do
  let mut w : Array UInt32 := Array.replicate 64 0
  for i in [0:16] do
    w := w.set! i (UInt32.ofNat (ofBE ((blk.drop (4 * i)).take 4)))
  for i in [16:64] do
    let w15 := w[i - 15]!
    let w2 := w[i - 2]!
    let s0 := rotr32 w15 7 ^^^ rotr32 w15 18 ^^^ (w15 >>> 3)
    let s1 := rotr32 w2 17 ^^^ rotr32 w2 19 ^^^ (w2 >>> 10)
    w := w.set! i (w[i - 16]! + s0 + w[i - 7]! + s1)
  return w

def compress256 (h : Array UInt32) (blk : Bytes) : Array UInt32 := Id.run do
  let w := schedule256 blk
  let mut a := h[0]!; let mut b := h[1]!; let mut c := h[2]!; let mut d := h[3]!
  let mut e := h[4]!; let mut f := h[5]!; let mut g := h[6]!; let mut hh := h[7]!
  for i in [0:64] do
    let s1 := rotr32 e 6 ^^^ rotr32 e 11 ^^^ rotr32 e 25
    let ch := (e &&& f) ^^^ ((~~~ e) &&& g)
    let t1 := hh + s1 + ch + k256[i]! + w[i]!
    let s0 := rotr32 a 2 ^^^ rotr32 a 13 ^^^ rotr32 a 22
    let maj := (a &&& b) ^^^ (a &&& c) ^^^ (b &&& c)
    let t2 := s0 + maj
    hh := g; g := f; f := e; e := d + t1; d := c; c := b; b := a; a := t1 + t2
  return #[h[0]! + a, h[1]! + b, h[2]! + c, h[3]! + d, h[4]! + e, h[5]! + f, h[6]! + g, h[7]! + hh]

def sha256 (m : Bytes) : Bytes :=
  let p := pad 64 8 m
  let h0 : Array UInt32 := #[0x6a09e667, 0xbb67ae85, 0x3c6ef372, 0xa54ff53a, 0x510e527f, 0x9b05688c, 0x1f83d9ab, 0x5be0cd19]
  let h := (chunksOf 64 (p.length / 64 + 1) p).foldl compress256 h0
  h.toList.flatMap fun x => beN 4 x.toNat

/-! ### SHA-512/256 -/

def k512 : Array UInt64 := #[
  0x428a2f98d728ae22, 0x7137449123ef65cd, 0xb5c0fbcfec4d3b2f, 0xe9b5dba58189dbbc, 0x3956c25bf348b538,
  0x59f111f1b605d019, 0x923f82a4af194f9b, 0xab1c5ed5da6d8118, 0xd807aa98a3030242, 0x12835b0145706fbe,
  0x243185be4ee4b28c, 0x550c7dc3d5ffb4e2, 0x72be5d74f27b896f, 0x80deb1fe3b1696b1, 0x9bdc06a725c71235,
  0xc19bf174cf692694, 0xe49b69c19ef14ad2, 0xefbe4786384f25e3, 0x0fc19dc68b8cd5b5, 0x240ca1cc77ac9c65,
  0x2de92c6f592b0275, 0x4a7484aa6ea6e483, 0x5cb0a9dcbd41fbd4, 0x76f988da831153b5, 0x983e5152ee66dfab,
  0xa831c66d2db43210, 0xb00327c898fb213f, 0xbf597fc7beef0ee4, 0xc6e00bf33da88fc2, 0xd5a79147930aa725,
  0x06ca6351e003826f, 0x142929670a0e6e70, 0x27b70a8546d22ffc, 0x2e1b21385c26c926, 0x4d2c6dfc5ac42aed,
  0x53380d139d95b3df, 0x650a73548baf63de, 0x766a0abb3c77b2a8, 0x81c2c92e47edaee6, 0x92722c851482353b,
  0xa2bfe8a14cf10364, 0xa81a664bbc423001, 0xc24b8b70d0f89791, 0xc76c51a30654be30, 0xd192e819d6ef5218,
  0xd69906245565a910, 0xf40e35855771202a, 0x106aa07032bbd1b8, 0x19a4c116b8d2d0c8, 0x1e376c085141ab53,
  0x2748774cdf8eeb99, 0x34b0bcb5e19b48a8, 0x391c0cb3c5c95a63, 0x4ed8aa4ae3418acb, 0x5b9cca4f7763e373,
  0x682e6ff3d6b2b8a3, 0x748f82ee5defb2fc, 0x78a5636f43172f60, 0x84c87814a1f0ab72, 0x8cc702081a6439ec,
  0x90befffa23631e28, 0xa4506cebde82bde9, 0xbef9a3f7b2c67915, 0xc67178f2e372532b, 0xca273eceea26619c,
  0xd186b8c721c0c207, 0xeada7dd6cde0eb1e, 0xf57d4f7fee6ed178, 0x06f067aa72176fba, 0x0a637dc5a2c898a6,
  0x113f9804bef90dae, 0x1b710b35131c471b, 0x28db77f523047d84, 0x32caab7b40c72493, 0x3c9ebe0a15c9bebc,
  0x431d67c49c100d4c, 0x4cc5d4becb3e42b6, 0x597f299cfc657e2a, 0x5fcb6fab3ad6faec, 0x6c44198c4a475817]

@[inline] def rotr64 (x : UInt64) (n : UInt64) : UInt64 := (x >>> n) ||| (x <<< (64 - n))

def schedule512 (blk : Bytes) : Array UInt64 := Id.run do
  let mut w : Array UInt64 := Array.replicate 80 0
  for i in [0:16] do
    w := w.set! i (UInt64.ofNat (ofBE ((blk.drop (8 * i)).take 8)))
  for i in [16:80] do
    let w15 := w[i - 15]!
    let w2 := w[i - 2]!
    let s0 := rotr64 w15 1 ^^^ rotr64 w15 8 ^^^ (w15 >>> 7)
    let s1 := rotr64 w2 19 ^^^ rotr64 w2 61 ^^^ (w2 >>> 6)
    w := w.set! i (w[i - 16]! + s0 + w[i - 7]! + s1)
  return w

def compress512 (h : Array UInt64) (blk : Bytes) : Array UInt64 := Id.run do
  let w := schedule512 blk
  let mut a := h[0]!; let mut b := h[1]!; let mut c := h[2]!; let mut d := h[3]!
  let mut e := h[4]!; let mut f := h[5]!; let mut g := h[6]!; let mut hh := h[7]!
  for i in [0:80] do
    let s1 := rotr64 e 14 ^^^ rotr64 e 18 ^^^ rotr64 e 41
    let ch := (e &&& f) ^^^ ((~~~ e) &&& g)
    let t1 := hh + s1 + ch + k512[i]! + w[i]!
    let s0 := rotr64 a 28 ^^^ rotr64 a 34 ^^^ rotr64 a 39
    let maj := (a &&& b) ^^^ (a &&& c) ^^^ (b &&& c)
    let t2 := s0 + maj
    hh := g; g := f; f := e; e := d + t1; d := c; c := b; b := a; a := t1 + t2
  return #[h[0]! + a, h[1]! + b, h[2]! + c, h[3]! + d, h[4]! + e, h[5]! + f, h[6]! + g, h[7]! + hh]

def sha512_256 (m : Bytes) : Bytes :=
  let p := pad 128 16 m
  let h0 : Array UInt64 := #[0x22312194FC2BF72C, 0x9F555FA3C84C64C2, 0x2393B86B6F53B151, 0x963877195940EABD,
                             0x96283ee2a88effe3, 0xbe5e1e2553863992, 0x2b0199fc2c85b8aa, 0x0eb72ddc81c52ca2]
  let h := (chunksOf 128 (p.length / 128 + 1) p).foldl compress512 h0
  (h.toList.flatMap fun x => beN 8 x.toNat).take 32

end Desync.Sha2
