/-
  Model of writededupqueue.go: `WriteDedupQueue.StoreChunk` de-duplicates concurrent writes of one
  chunk ID through `storeChunkQueue`, and `WriteDedupQueue.GetChunk` first looks (under the queue's
  mutex) whether a write of the requested ID is in flight: if so it waits for that request and
  returns the chunk being written together with the write's error; otherwise it continues into
  `DedupQueue.GetChunk` (the machine of `Model/Dedup.lean`, state `rpass` here).

  Atomic steps: `queue.loadOrStore` / the locked look at `requests[id]` / `queue.delete` (mutex),
  the upstream `StoreChunk` returning, `request.markDone(chunk, err)` (publishes both, then closes
  `done`), a waiter's `wait()` returning.  A writer carries its chunk as (id, data); nothing is
  assumed about two writers of one ID carrying the same data.
-/
namespace Desync.WDedup

/-- what `WriteDedupQueue.StoreChunk` passes to `markDone`, and the order of operations in
    `WriteDedupQueue.GetChunk`, as this machine implements them (compared with the regenerated
    facts by `C12.gen_wdq_shape`) -/
def modelledStoreMarkDoneArgs : List String := ["chunk", "err"]
def modelledReadShape : List String := ["lock", "lookup", "unlock", "wait", "DedupQueue.GetChunk"]

structure Req where
  id : Nat
  done : Bool := false
  val : Nat := 0          -- published chunk data (meaningful once `done`)
  err : Nat := 0          -- published error, 0 = nil
  deriving DecidableEq, Repr

inductive Role
  | writer (id d : Nat)   -- StoreChunk of a chunk with this ID and these data
  | reader (id : Nat)     -- GetChunk
  deriving DecidableEq, Repr

inductive C
  | wstart (id d : Nat)             -- writer about to call loadOrStore
  | wupstream (r d : Nat)           -- leader of request r: S.StoreChunk(chunk) in flight
  | wgot (r d e : Nat)              -- leader: upstream returned error e, before markDone
  | wpublished (r d e : Nat)        -- leader: markDone executed, before delete
  | wfollower (r : Nat)             -- writer waiting on request r
  | wreturned (e r : Nat)           -- StoreChunk returned error e, having used request r
  | rstart (id : Nat)               -- reader about to look at storeChunkQueue
  | rwait (r : Nat)                 -- reader found write request r in flight and waits on it
  | rreturned (d e r : Nat)         -- GetChunk returned (chunk with data d, error e) from request r
  | rpass (id : Nat)                -- no write in flight: continues into DedupQueue.GetChunk
  deriving DecidableEq, Repr

structure St where
  queue : List (Nat × Nat) := []     -- storeChunkQueue.requests: id ↦ request number
  reqs : List Req := []              -- all requests ever created, by number
  callers : List C
  upHist : List (Nat × Nat × Nat) := []   -- (request, data handed to the store, error returned), newest first
  deriving Repr

def Role.start : Role → C
  | .writer id d => .wstart id d
  | .reader id => .rstart id

def St.init (roles : List Role) : St := { callers := roles.map Role.start }

inductive Ev
  | wcall (t : Nat)           -- loadOrStore
  | wupRet (t : Nat) (e : Nat) -- the upstream StoreChunk returns error e
  | wmarkDone (t : Nat)
  | wdelete (t : Nat)
  | wwake (t : Nat)           -- a following writer's wait returns
  | rpeek (t : Nat)           -- the locked look at requests[id]
  | rwake (t : Nat)           -- a waiting reader's wait returns
  deriving Repr

def setC (s : St) (t : Nat) (c : C) : St := { s with callers := s.callers.set t c }

def step (s : St) : Ev → Option St
  | .wcall t =>
    match s.callers[t]? with
    | some (.wstart id d) =>
      match s.queue.lookup id with
      | some r => some (setC s t (.wfollower r))
      | none =>
        let r := s.reqs.length
        some { setC s t (.wupstream r d) with queue := (id, r) :: s.queue, reqs := s.reqs ++ [{ id }] }
    | _ => none
  | .wupRet t e =>
    match s.callers[t]? with
    | some (.wupstream r d) => some { setC s t (.wgot r d e) with upHist := (r, d, e) :: s.upHist }
    | _ => none
  | .wmarkDone t =>
    match s.callers[t]? with
    | some (.wgot r d e) =>
      some { setC s t (.wpublished r d e) with
             reqs := s.reqs.modify r fun q => { q with done := true, val := d, err := e } }
    | _ => none
  | .wdelete t =>
    match s.callers[t]? with
    | some (.wpublished r _ e) =>
      let id := (s.reqs.getD r { id := 0 }).id
      some { setC s t (.wreturned e r) with queue := s.queue.filter (·.1 ≠ id) }
    | _ => none
  | .wwake t =>
    match s.callers[t]? with
    | some (.wfollower r) =>
      match s.reqs[r]? with
      | some q => if q.done then some (setC s t (.wreturned q.err r)) else none
      | none => none
    | _ => none
  | .rpeek t =>
    match s.callers[t]? with
    | some (.rstart id) =>
      match s.queue.lookup id with
      | some r => some (setC s t (.rwait r))
      | none => some (setC s t (.rpass id))
    | _ => none
  | .rwake t =>
    match s.callers[t]? with
    | some (.rwait r) =>
      match s.reqs[r]? with
      | some q => if q.done then some (setC s t (.rreturned q.val q.err r)) else none
      | none => none
    | _ => none

inductive Reachable (s0 : St) : St → Prop
  | refl : Reachable s0 s0
  | step {s s' : St} (e : Ev) : Reachable s0 s → step s e = some s' → Reachable s0 s'

def run (s : St) : List Ev → St
  | [] => s
  | e :: es => run ((step s e).getD s) es

/-- the caller an event belongs to -/
def Ev.caller : Ev → Nat
  | .wcall t => t
  | .wupRet t _ => t
  | .wmarkDone t => t
  | .wdelete t => t
  | .wwake t => t
  | .rpeek t => t
  | .rwake t => t

/-- a caller that has left the write queue's part of its call -/
def C.final : C → Bool
  | .wreturned _ _ => true
  | .rreturned _ _ _ => true
  | .rpass _ => true
  | _ => false

/-- the write request a caller is the live leader of (between its registration and its delete) -/
def C.wlead : C → Option Nat
  | .wupstream r _ => some r
  | .wgot r _ _ => some r
  | .wpublished r _ _ => some r
  | _ => none

/-- number of steps of `es` that were enabled when run from `s` -/
def effSteps (s : St) : List Ev → Nat
  | [] => 0
  | e :: es => match step s e with
    | some s' => 1 + effSteps s' es
    | none => effSteps s es

end Desync.WDedup
