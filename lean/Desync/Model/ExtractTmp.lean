/-
  `writeWithTmpFile` (cmd/desync/extract.go): extract without --in-place.  The output is
  assembled in a fresh temp file next to the destination and renamed onto it only after
  `AssembleFile` returned nil; a deferred `os.Remove` deletes the temp file otherwise.  The
  process can die after any step (DESIGN section 6, C08).  The step order is the regenerated
  shape `Gen.extractTmpFileShape` with `Gen.extractTmpFileReturnsOnError`.
-/
import Desync.Generated.Facts

namespace Desync.ExtractTmp

abbrev Name := List UInt8
abbrev Content := List UInt8

/-- the calls of `writeWithTmpFile` this machine implements, in source order (the `Remove` is deferred) -/
def modelledShape : List String := ["TempFile", "Remove", "Assemble", "Rename"]

inductive PC
  | start
  | assembling            -- temp file exists; `AssembleFile` is writing into it
  | assembled (ok : Bool) -- `AssembleFile` returned (nil / an error)
  | renamed               -- success path: renamed, before the deferred remove
  | finished (ok : Bool)
  deriving DecidableEq, Repr

structure St where
  dir : List (Name × Content)
  pc : PC := .start
  deriving Repr

structure Cfg where
  dest : Name
  tmp : Name
  output : Content        -- what a successful `AssembleFile` leaves in the file (C01: the blob)

inductive Ev
  | create                      -- tempfile.NewMode + Close
  | write (c : Content)         -- any change `AssembleFile` (truncate, workers, seeds) makes to the temp file
  | assembleOk                  -- `AssembleFile` returns nil: the file holds the blob
  | assembleErr
  | rename
  | remove                      -- the deferred `os.Remove(tmp)`
  deriving Repr

def setDir (d : List (Name × Content)) (n : Name) (c : Content) : List (Name × Content) :=
  (n, c) :: d.filter (·.1 ≠ n)

def lookup (d : List (Name × Content)) (n : Name) : Option Content := (d.find? (·.1 = n)).map (·.2)

def step (cf : Cfg) (s : St) : Ev → Option St
  | .create => if s.pc = .start then some { dir := setDir s.dir cf.tmp [], pc := .assembling } else none
  | .write c => if s.pc = .assembling then some { s with dir := setDir s.dir cf.tmp c } else none
  | .assembleOk => if s.pc = .assembling then some { dir := setDir s.dir cf.tmp cf.output, pc := .assembled true } else none
  | .assembleErr => if s.pc = .assembling then some { s with pc := .assembled false } else none
  | .rename =>
    if s.pc = .assembled true then
      match lookup s.dir cf.tmp with
      | some c => some { dir := setDir (s.dir.filter (·.1 ≠ cf.tmp)) cf.dest c, pc := .renamed }
      | none => none
    else none
  | .remove =>
    match s.pc with
    | .assembled false => some { dir := s.dir.filter (·.1 ≠ cf.tmp), pc := .finished false }
    | .renamed => some { dir := s.dir.filter (·.1 ≠ cf.tmp), pc := .finished true }
    | _ => none

inductive Reachable (cf : Cfg) (s0 : St) : St → Prop
  | refl : Reachable cf s0 s0
  | step {s s' : St} (e : Ev) : Reachable cf s0 s → step cf s e = some s' → Reachable cf s0 s'

end Desync.ExtractTmp
