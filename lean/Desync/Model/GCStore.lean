/-
  Model of the Google Cloud Storage backend (gcs.go, gcsindex.go).

    gcs.go  `GCStore.GetChunk`    = `gcsGetChunk`    NewReader: `storage.ErrObjectNotExist` → `ChunkMissing`, any other error →
                                                     an error; `ioutil.ReadAll`: the SAME two-way split (the client re-opens a
                                                     broken download with a Range request, and that request can be answered
                                                     404); a complete body goes through `NewChunkFromStorage(id, b,
                                                     s.converters, s.opt.SkipVerify)`.  No retry loop of desync's own —
                                                     `ErrorRetry` is not used by this backend.
            `GCStore.StoreChunk`  = `gcsStoreChunk`  chunk.Data, converters.toStorage, NewWriter, io.Copy, Close; the error of
                                                     `io.Copy` AND the error of `Close` are returned (an upload is finalised by
                                                     Close: an object of less than 16 MiB is ONE multipart request sent then)
            `GCStore.HasChunk`    = `gcsHasChunk`    Attrs: ErrObjectNotExist → (false, nil); another error → (false, err);
                                                     nil → (true, nil) — unlike S3 / SFTP a failing request is NOT "absent"
            `GCStore.RemoveChunk` = `gcsRemove`      Delete; an object that is not there is an ERROR (GCS answers 404, the
                                                     client returns ErrObjectNotExist) — unlike S3, where it is a success
            `GCStore.Prune`       = `gcsPrune`       lists `Query{Prefix}` page by page, `idFromName` (the same text as
                                                     s3.go's: `s3Classify`), `RemoveChunk(id)` for every ID not in the map —
                                                     that is: it deletes `nameFromID(id)`, not the listed name; a failing page
                                                     request or a failing delete ends the walk with the error
    gcsindex.go `GCIndexStore`    = `gcsIndexGet` / `gcsIndexStore`  objects `<prefix><name>`; GetIndex = NewReader,
                                                     `IndexFromReader` on the open reader, deferred Close; StoreIndex = NewWriter,
                                                     `idx.WriteTo`, Close (Close also after a failed WriteTo, its result dropped)

  The environment (the service, the network, the client library underneath) chooses the outcome of every call.
  What the client library does on its own before desync sees anything — retrying 408/429/5xx of downloads, metadata and
  list requests with a back-off (without bound when the context has no deadline, and these methods use
  `context.TODO()`), re-opening a broken download, checking the CRC32C the service announced — is NOT desync's code:
  the outcomes below are what arrives at gcs.go.  `Driver/GCS.lean` states how a script of HTTP answers maps to them,
  and the correspondence run checks that claim with the real client.
-/
import Desync.Model.RemoteStores
import Desync.Model.S3Store

namespace Desync.GCS
open Desync Desync.Remote

/-! ## `GCStore.GetChunk` -/

/-- what `s.client.Object(name).NewReader(ctx)` followed by `ioutil.ReadAll(rc)` yields -/
inductive GetOutcome
  | openNotExist            -- `NewReader` returns `storage.ErrObjectNotExist`
  | openErr                 -- `NewReader` returns another error (403, a malformed answer, …)
  | readNotExist            -- `ReadAll` returns `storage.ErrObjectNotExist` (the re-opened download was answered 404)
  | readErr                 -- `ReadAll` returns another error (CRC mismatch, re-open refused, …)
  | body (b : Bytes)        -- the whole body was read
  deriving DecidableEq, Repr

def GetOutcome.failed : GetOutcome → Bool
  | .body _ => false
  | _ => true

/-- `GCStore.GetChunk` -/
def gcsGetChunk (H : Bytes → Bytes) (dec : Bytes → Option Bytes) (id : Bytes) (convs : List Conv)
    (skipVerify : Bool) : GetOutcome → GetRes
  | .openNotExist => .missing
  | .openErr => .error
  | .readNotExist => .missing
  | .readErr => .error
  | .body b => construct H dec id b convs skipVerify

/-! ## `GCStore.StoreChunk` -/

/-- what the upload (`io.Copy` into the Writer, then `Close`) comes to -/
inductive UploadOutcome
  | stored                  -- Close returns nil: the service stored the object
  | copyFailed              -- `io.Copy` returns an error (the upload had failed already while data was still written:
                            --  objects of more than one 16 MiB piece); nothing stored, `Close` is not called
  | refused                 -- Close returns an error, nothing stored
  | storedNoReply           -- the service stored the object but the answer never arrived: Close returns an error
  deriving DecidableEq, Repr

structure StoreOut where
  res : StoreRes
  uploads : Nat               -- uploads begun
  obj : Option Bytes          -- the object under the chunk's name afterwards
  deriving DecidableEq, Repr

/-- `GCStore.StoreChunk`: `data` is what `chunk.Data()` gives (none: an error), `toSt` is `converters.toStorage`,
    `obj` the object under the name before the call.  An upload replaces the object as a whole or not at all. -/
def gcsStoreChunk (data : Option Bytes) (toSt : Bytes → Option Bytes) (o : UploadOutcome) (obj : Option Bytes) : StoreOut :=
  match data with
  | none => ⟨.error, 0, obj⟩
  | some d =>
    match toSt d with
    | none => ⟨.error, 0, obj⟩
    | some b =>
      match o with
      | .stored => ⟨.ok, 1, some b⟩
      | .copyFailed => ⟨.error, 1, obj⟩
      | .refused => ⟨.error, 1, obj⟩
      | .storedNoReply => ⟨.error, 1, some b⟩

/-! ## `GCStore.HasChunk` -/

/-- `_, err := Attrs(ctx)`: `err == ErrObjectNotExist` → `false, nil`; `err != nil` → `false, err`; else `true, nil` -/
def gcsHasChunk : StatOutcome → HasRes
  | .found => ⟨true, false⟩
  | .notFound => ⟨false, false⟩
  | .failure => ⟨false, true⟩

/-- `ChunkStorage.StoreChunk` after `markProcessed` said "new", over a GCS store:
    `if hasChunk, err := ws.HasChunk(id); err != nil || hasChunk { return err }`, then `return ws.StoreChunk(chunk)` -/
def gcsBulkStore (data : Option Bytes) (toSt : Bytes → Option Bytes) (st : StatOutcome) (o : UploadOutcome)
    (obj : Option Bytes) : StoreOut :=
  let h := gcsHasChunk st
  if h.err then ⟨.error, 0, obj⟩
  else if h.has then ⟨.ok, 0, obj⟩
  else gcsStoreChunk data toSt o obj

/-! ## `GCStore.RemoveChunk` and `GCStore.Prune` -/

deriving instance DecidableEq for Desync.PruneRes

/-- how the service treats one DELETE request -/
inductive DelAnswer
  | normal                  -- carried out: 204 when the object was there, 404 when it was not
  | refuse                  -- an error answer (403, 5xx — deletes without preconditions are not retried by the client)
  | lost                    -- carried out, but the answer never arrives
  deriving DecidableEq, Repr

/-- `RemoveChunk(id)` on the object set `d` (names relative to the prefix, as (directory, name) pairs):
    the object set afterwards and whether `err == nil` -/
def gcsRemove (unc : Bool) (a : DelAnswer) (id : Bytes) (d : StoreDir) : StoreDir × Bool :=
  match a with
  | .refuse => (d, false)
  | .normal => if nameFromID unc id ∈ d then (d.filter (· ≠ nameFromID unc id), true) else (d, false)
  | .lost => (d.filter (· ≠ nameFromID unc id), false)

/-- the environment of one `Prune` -/
structure PruneEnv where
  pageMinus1 : Nat          -- the listing comes in pages of `pageMinus1 + 1` names
  listFail : Nat → Bool     -- the n-th page request (n = 0, 1, …) is answered with an error (after the client's own retries)
  del : Nat → DelAnswer     -- the k-th DELETE request (k = 0, 1, …)

/-- the page the next listed name arrives in.  `left`: names of the current page not yet handed out; 0: the name
    needs a new page request (request number `pages`), which sees the objects as they are NOW.  `none`: that request
    fails (`it.Next()` returns the error).  Result: the snapshot the page was computed from, names left in it, requests made. -/
def nextPage (env : PruneEnv) (d snap : StoreDir) (left pages : Nat) : Option (StoreDir × Nat × Nat) :=
  if left = 0 then (if env.listFail pages then none else some (d, env.pageMinus1 + 1, pages + 1))
  else some (snap, left, pages)

/-- the walk.  `rest`: the names of the initial listing (name order) not yet reached; `d`: the objects now;
    `snap`: the objects when the current page was requested — a name reaches `Prune` iff it was there THEN
    (a further page is requested only when the previous one carried a continuation token, i.e. when a further name
    existed at that time: names that were gone by then cause no request);
    `left`, `pages`: see `nextPage`; `dels`: DELETE requests made so far. -/
def gcsPruneWalk (unc : Bool) (keep : Bytes → Bool) (env : PruneEnv) :
    List (Bytes × Bytes) → StoreDir → StoreDir → Nat → Nat → Nat → PruneRes
  | [], d, _, _, _, _ => .ok d
  | e :: rest, d, snap, left, pages, dels =>
    if e ∉ snap then gcsPruneWalk unc keep env rest d snap left pages dels      -- was not listed
    else
      match nextPage env d snap left pages with
      | none => .failed d
      | some (snap', left', pages') =>
        if e ∉ snap' then gcsPruneWalk unc keep env rest d snap' left' pages' dels
        else
          match s3Classify unc e.1 e.2 with                                      -- `idFromName(attrs.Name)`
          | .consider id =>
            if keep id then gcsPruneWalk unc keep env rest d snap' (left' - 1) pages' dels
            else
              match gcsRemove unc (env.del dels) id d with
              | (d', true) => gcsPruneWalk unc keep env rest d' snap' (left' - 1) pages' (dels + 1)
              | (d', false) => .failed d'
          | _ => gcsPruneWalk unc keep env rest d snap' (left' - 1) pages' dels

/-- `GCStore.Prune`: the first `it.Next()` always requests a page -/
def gcsPrune (unc : Bool) (keep : Bytes → Bool) (env : PruneEnv) (d : StoreDir) : PruneRes :=
  if env.listFail 0 then .failed d
  else gcsPruneWalk unc keep env d d d (env.pageMinus1 + 1) 1 0

/-! ## `GCIndexStore` (gcsindex.go): one object `<prefix><name>` per index -/

/-- what `GetIndexReader` + `IndexFromReader` see of the object -/
inductive IdxGetOutcome
  | openNotExist | openErr
  | readErr (got : Bytes)   -- the body broke off for good after `got`
  | body (b : Bytes)
  deriving DecidableEq, Repr

inductive IdxGetRes
  | ok (bytes : Bytes)      -- `IndexFromReader` was given exactly these bytes (whether they parse is C04's decoder)
  | error
  deriving DecidableEq, Repr

/-- `GetIndex`: `GetIndexReader` wraps BOTH kinds of open error the same way (a missing index is not told apart by
    type; `errors.Cause` is still `storage.ErrObjectNotExist`); a read error surfaces as the decoder's error -/
def gcsIndexGet : IdxGetOutcome → IdxGetRes
  | .openNotExist => .error
  | .openErr => .error
  | .readErr _ => .error
  | .body b => .ok b

/-- `StoreIndex(name, idx)`: `enc` = the bytes `idx.WriteTo` produces (none: it fails before the end; the Writer is
    closed all the same and may store what was written — `partial`) -/
def gcsIndexStore (enc : Option Bytes) (partialB : Bytes) (o : UploadOutcome) (obj : Option Bytes) : StoreRes × Option Bytes :=
  match enc with
  | none =>
    -- `w.Close()` after a failed WriteTo: its result is dropped, the object may now hold the partial bytes
    (.error, match o with | .stored | .storedNoReply => some partialB | _ => obj)
  | some b =>
    match o with
    | .stored => (.ok, some b)
    | .copyFailed => (.error, obj)
    | .refused => (.error, obj)
    | .storedNoReply => (.error, some b)

end Desync.GCS
