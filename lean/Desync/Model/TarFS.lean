/-
  Model of tarfs.go: the tar-stream input leg (`TarReader.Next`: archive/tar header → `File`) and the
  GNU-tar output leg (`TarWriter.CreateDir/CreateFile/CreateSymlink/CreateDevice`: `Node*` → archive/tar
  header), together with the two pieces of Go's standard library that decide what the `File` looks like:
  `archive/tar.headerFileInfo.Mode()` / `.Name()` (common.go) and `path.Clean` (`path.Base` is `goBase` of
  `Model/HttpHandler.lean`).  Core-only.

  Conventions.  Go's `int64`/`int`/`uint64` header and node fields are carried as their 64-bit patterns
  (`UInt64`): `uint64(h.Devmajor)`, `int64(n.Major)`, `int64(n.Size)`, `uint64(info.Size())` are the
  identity on patterns, `int64(n.Mode)` (from the 32-bit `os.FileMode`) is zero extension and
  `fs.FileMode(h.Mode)` is truncation to the low 32 bits.  A `time.Time` is the pair (seconds since the epoch,
  nanoseconds within the second); maps (`Xattrs`) are association lists in key order.

  What is NOT modelled: the byte encoding of headers by `archive/tar` (USTAR/PAX/GNU blocks, base-256
  numbers, long-name records).  On the reading side the header is the one `archive/tar.Reader.Next` hands to
  `TarReader.Next`; on the writing side the header is the one handed to `archive/tar.Writer.WriteHeader`.
  Two clauses of that library's contract that the GNU-tar output leg runs into are written down here
  (`wireRefuses`, `wireMtime`) and checked against the library on every run.
-/
import Desync.Model.Mode
import Desync.Model.HttpHandler
import Desync.Model.Archive

namespace Desync.TarFS
open Desync

/-! ## Go `path.Clean` -/

/-- `strings.Split(p, "/")` -/
def splitSlash : Bytes → List Bytes
  | [] => [[]]
  | c :: cs =>
    match splitSlash cs with
    | [] => [[c]]
    | h :: t => if c = slash then [] :: h :: t else (c :: h) :: t

/-- the components joined by '/' -/
def joinSlash : List Bytes → Bytes
  | [] => []
  | [c] => c
  | c :: d :: rest => c ++ slash :: joinSlash (d :: rest)

/-- one path element met by `Clean`; the stack holds the elements kept so far, last one first.
    Empty elements and "." are dropped; ".." removes the last kept element unless there is none to remove
    (rooted: dropped; otherwise kept, and a kept ".." is never removed again). -/
def cleanStep (rooted : Bool) (stack : List Bytes) (c : Bytes) : List Bytes :=
  if c = [] ∨ c = [dot] then stack
  else if c = [dot, dot] then
    match stack with
    | top :: rest => if top = [dot, dot] then c :: stack else rest
    | [] => if rooted then [] else [c]
  else c :: stack

/-- `path.Clean` -/
def goClean (p : Bytes) : Bytes :=
  if p = [] then [dot]
  else
    let rooted := p.head? = some slash
    let body := joinSlash ((splitSlash p).foldl (cleanStep rooted) []).reverse
    if rooted then slash :: body else if body = [] then [dot] else body

/-! ## headers, files, nodes -/

/-- `time.Time` as far as it is looked at: `Unix()` and `Nanosecond()` -/
structure Time where
  sec : Int
  nsec : Nat
  deriving DecidableEq, Repr, Inhabited

/-- `t.UnixNano()` as the 64-bit pattern the catar entry stores (`uint64(f.ModTime.UnixNano())`; Go computes
    it in wrapping `int64` arithmetic) -/
def Time.unixNano (t : Time) : UInt64 := UInt64.ofInt (t.sec * 1000000000 + t.nsec)

/-- `archive/tar.Format` -/
inductive Fmt | unknown | ustar | pax | gnu
  deriving DecidableEq, Repr, Inhabited

abbrev Xattrs := List (Bytes × Bytes)

/-- the fields of `archive/tar.Header` that tarfs.go reads or writes -/
structure TarHdr where
  typeflag : UInt8
  name : Bytes
  linkname : Bytes := []
  mode : UInt64 := 0        -- `Mode int64`
  uid : UInt64 := 0         -- `Uid int`
  gid : UInt64 := 0         -- `Gid int`
  size : UInt64 := 0        -- `Size int64`
  mtime : Time := ⟨0, 0⟩
  devmajor : UInt64 := 0    -- `Devmajor int64`
  devminor : UInt64 := 0    -- `Devminor int64`
  xattrs : Xattrs := []
  format : Fmt := .unknown
  deriving DecidableEq, Repr, Inhabited

/-- type flags of archive/tar (common.go) -/
def TypeReg : UInt8 := 48       -- '0'
def TypeRegA : UInt8 := 0
def TypeLink : UInt8 := 49      -- '1'  hard link
def TypeSymlink : UInt8 := 50   -- '2'
def TypeChar : UInt8 := 51      -- '3'
def TypeBlock : UInt8 := 52     -- '4'
def TypeDir : UInt8 := 53       -- '5'
def TypeFifo : UInt8 := 54      -- '6'
def TypeCont : UInt8 := 55      -- '7'
def TypeXHeader : UInt8 := 120        -- 'x'
def TypeXGlobalHeader : UInt8 := 103  -- 'g'
def TypeGNUSparse : UInt8 := 83       -- 'S'

/-- mode-field constants of archive/tar (common.go) -/
def c_ISUID : UInt64 := 0o4000
def c_ISGID : UInt64 := 0o2000
def c_ISVTX : UInt64 := 0o1000
def c_ISDIR : UInt32 := 0o40000
def c_ISFIFO : UInt32 := 0o10000
def c_ISREG : UInt32 := 0o100000
def c_ISLNK : UInt32 := 0o120000
def c_ISBLK : UInt32 := 0o60000
def c_ISCHR : UInt32 := 0o20000
def c_ISSOCK : UInt32 := 0o140000

/-- the second `switch` of `headerFileInfo.Mode()`: Go type bits taken from the c_IS* value inside the mode
    field, `fs.FileMode(h.Mode) &^ 07777` (low 32 bits of the field with the twelve low bits cleared); only
    an exact match of one of six constants counts, c_ISREG and everything else add nothing -/
def cisType (mode : UInt64) : UInt32 :=
  let m := mode.toUInt32 &&& ~~~ (0o7777 : UInt32)
  if m = c_ISDIR then Mode.ModeDir
  else if m = c_ISFIFO then Mode.ModeNamedPipe
  else if m = c_ISLNK then Mode.ModeSymlink
  else if m = c_ISBLK then Mode.ModeDevice
  else if m = c_ISCHR then Mode.ModeDevice ||| Mode.ModeCharDevice
  else if m = c_ISSOCK then Mode.ModeSocket
  else 0

/-- the third `switch`: Go type bits of the type flag (regular files, hard links, PAX and GNU records, and
    every flag archive/tar does not know add nothing) -/
def flagType (typeflag : UInt8) : UInt32 :=
  if typeflag = TypeSymlink then Mode.ModeSymlink
  else if typeflag = TypeChar then Mode.ModeDevice ||| Mode.ModeCharDevice
  else if typeflag = TypeBlock then Mode.ModeDevice
  else if typeflag = TypeDir then Mode.ModeDir
  else if typeflag = TypeFifo then Mode.ModeNamedPipe
  else 0

/-- `headerFileInfo.Mode()` (archive/tar common.go), statement by statement -/
def tarInfoMode (h : TarHdr) : UInt32 :=
  let mode := h.mode.toUInt32 &&& 0o777                                  -- fs.FileMode(fi.h.Mode).Perm()
  let mode := if h.mode &&& c_ISUID ≠ 0 then mode ||| Mode.ModeSetuid else mode
  let mode := if h.mode &&& c_ISGID ≠ 0 then mode ||| Mode.ModeSetgid else mode
  let mode := if h.mode &&& c_ISVTX ≠ 0 then mode ||| Mode.ModeSticky else mode
  let mode := mode ||| cisType h.mode
  mode ||| flagType h.typeflag

/-- `headerFileInfo.Name()`: the base name of the *cleaned* name for a directory (so "a/b/" is "b"), the
    base name of the name as it stands for everything else (`path.Base` strips trailing slashes itself) -/
def infoName (h : TarHdr) : Bytes :=
  if tarInfoMode h &&& Mode.ModeDir ≠ 0 then goBase (goClean h.name) else goBase h.name

/-- `desync.File` without its `Data` reader -/
structure TFile where
  name : Bytes
  path : Bytes
  mode : UInt32            -- os.FileMode
  mtime : Time
  size : UInt64
  linkTarget : Bytes
  uid : UInt64
  gid : UInt64
  xattrs : Xattrs
  devMajor : UInt64
  devMinor : UInt64
  deriving DecidableEq, Repr, Inhabited

/-- the composite literal of `TarReader.Next`, field by field -/
def readerFile (h : TarHdr) : TFile :=
  { name := infoName h                -- Name:       info.Name()
    path := goClean h.name            -- Path:       path.Clean(h.Name)
    mode := tarInfoMode h             -- Mode:       info.Mode()
    mtime := h.mtime                  -- ModTime:    info.ModTime()
    size := h.size                    -- Size:       uint64(info.Size())
    linkTarget := h.linkname          -- LinkTarget: h.Linkname
    uid := h.uid                      -- Uid:        h.Uid
    gid := h.gid                      -- Gid:        h.Gid
    xattrs := h.xattrs                -- Xattrs:     h.Xattrs
    devMajor := h.devmajor            -- DevMajor:   uint64(h.Devmajor)
    devMinor := h.devminor }          -- DevMinor:   uint64(h.Devminor)

/-- the root entry `NewTarReader` prepares under `AddRoot`: name and path ".", `os.ModeDir | 0755`, every
    other field zero (the modification time is the zero `time.Time`, 1 January of the year 1) -/
def rootFile : TFile :=
  { name := [dot], path := [dot], mode := Mode.ModeDir ||| 0o755, mtime := ⟨-62135596800, 0⟩, size := 0,
    linkTarget := [], uid := 0, gid := 0, xattrs := [], devMajor := 0, devMinor := 0 }

/-- `TarReader.Next`: the pending root first; otherwise whatever `archive/tar.Reader.Next` delivers
    (`none` = it returned an error, `io.EOF` included, which is passed on) -/
def readerNext (root : Option TFile) (lib : Option TarHdr) : Option TFile × Option TFile :=
  match root with
  | some r => (some r, none)
  | none => (lib.map readerFile, none)

/-! ### what `tar()` makes of such a `File` (tar.go; `Model/Archive.lean` takes it from here) -/

/-- the node kind `tar()` picks: `IsDir`, `IsRegular`, `IsSymlink`, `IsDevice` in that order, otherwise the
    entry is skipped with a warning -/
def kindOf (fm : UInt32) : Kind :=
  if fm &&& Mode.ModeDir ≠ 0 then .dir
  else if fm &&& Mode.ModeType = 0 then .reg
  else if fm &&& Mode.ModeSymlink ≠ 0 then .symlink
  else if fm &&& Mode.ModeDevice ≠ 0 then .device
  else .other

/-- the record `tar()` works with (`data`: what reading `File.Data` yields) -/
def recOfFile (f : TFile) (data : Bytes) : FileRec :=
  { base := goBase f.name, path := f.path, parent := dirOf f.path, kind := kindOf f.mode,
    mode := (Mode.filemodeToStat f.mode).toUInt64, uid := f.uid, gid := f.gid, mtime := f.mtime.unixNano,
    size := f.size, data := data, target := f.linkTarget, major := f.devMajor, minor := f.devMinor,
    xattrs := f.xattrs }

/-- the stat mode that ends up in the catar entry for a header of a tar stream -/
def inputStatMode (h : TarHdr) : UInt32 := Mode.filemodeToStat (readerFile h).mode

/-! ## the GNU-tar output leg -/

/-- the fields of `NodeDirectory` / `NodeFile` / `NodeSymlink` / `NodeDevice` (a kind uses its own) -/
structure TNode where
  name : Bytes
  uid : UInt64 := 0
  gid : UInt64 := 0
  mode : UInt32 := 0       -- os.FileMode
  mtime : Time := ⟨0, 0⟩
  xattrs : Xattrs := []
  size : UInt64 := 0       -- NodeFile
  target : Bytes := []     -- NodeSymlink
  major : UInt64 := 0      -- NodeDevice
  minor : UInt64 := 0
  deriving DecidableEq, Repr, Inhabited

inductive NKind | dir | file | symlink | device
  deriving DecidableEq, Repr, Inhabited

/-- `int64(n.Mode)`: what the four `Create*` methods put into the header's mode field -/
def rawMode (m : UInt32) : UInt64 := m.toUInt64

/-- `tarMode` (tarfs.go; defined, not called): `int64(FilemodeToStatMode(m) & 07777)` -/
def tarMode (m : UInt32) : UInt64 := (Mode.filemodeToStat m &&& 0o7777).toUInt64

/-- the composite literals of `CreateDir`, `CreateFile`, `CreateSymlink`, `CreateDevice`; `modeOf` is the
    expression in the `Mode:` field, `fmt` the writer's `format` field.  `CreateDevice` picks the type flag
    from `n.Mode&os.ModeCharDevice` and sets no `Format`. -/
def writerHdrWith (modeOf : UInt32 → UInt64) (fmt : Fmt) : NKind → TNode → TarHdr
  | .dir, n =>
    { typeflag := TypeDir, name := n.name, uid := n.uid, gid := n.gid, mode := modeOf n.mode,
      mtime := n.mtime, xattrs := n.xattrs, format := fmt }
  | .file, n =>
    { typeflag := TypeReg, name := n.name, uid := n.uid, gid := n.gid, mode := modeOf n.mode,
      mtime := n.mtime, size := n.size, xattrs := n.xattrs, format := fmt }
  | .symlink, n =>
    { typeflag := TypeSymlink, linkname := n.target, name := n.name, uid := n.uid, gid := n.gid,
      mode := modeOf n.mode, mtime := n.mtime, xattrs := n.xattrs, format := fmt }
  | .device, n =>
    { typeflag := if n.mode &&& Mode.ModeCharDevice ≠ 0 then TypeChar else TypeBlock,
      name := n.name, uid := n.uid, gid := n.gid, mode := modeOf n.mode, mtime := n.mtime,
      xattrs := n.xattrs, devmajor := n.major, devminor := n.minor }

/-- the header `TarWriter` hands to `archive/tar.Writer.WriteHeader` (`NewTarWriter` sets `FormatGNU`) -/
def writerHdr : NKind → TNode → TarHdr := writerHdrWith rawMode .gnu

/-- the same writer with the `Mode:` fields using the helper `tarMode` that tarfs.go already contains -/
def writerHdrTarMode : NKind → TNode → TarHdr := writerHdrWith tarMode .gnu

/-! ### two clauses of archive/tar's contract (checked against the library on every run) -/

/-- `Writer.WriteHeader` refuses a header that asks for `FormatGNU` and carries `Xattrs`
    ("Format specifies GNU; and only PAX supports Xattrs") -/
def wireRefuses (h : TarHdr) : Bool := h.format == .gnu && !h.xattrs.isEmpty

/-- the modification time that survives `WriteHeader` and `Reader.Next`: under `FormatGNU` (and USTAR) the
    header stores whole seconds, `ModTime.Unix()`, the fraction is cut off (towards minus infinity); with no
    format requested the writer first rounds to the nearest second, halves up (`ModTime.Round(time.Second)`);
    PAX keeps the nanoseconds -/
def wireMtime (f : Fmt) (t : Time) : Time :=
  match f with
  | .gnu | .ustar => ⟨t.sec, 0⟩
  | .unknown => if 500000000 ≤ t.nsec then ⟨t.sec + 1, 0⟩ else ⟨t.sec, 0⟩
  | .pax => t

end Desync.TarFS
