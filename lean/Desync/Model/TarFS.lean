/-
  Model of tarfs.go: the tar-stream input leg (`TarReader.Next`: archive/tar header → `File`) and the
  GNU-tar output leg (`TarWriter.CreateDir/CreateFile/CreateSymlink/CreateDevice`: `Node*` → archive/tar
  header), together with the two pieces of Go's standard library that decide what the `File` looks like:
  `archive/tar.headerFileInfo.Mode()` / `.Name()` (common.go) and `path.Clean` (`path.Base` is `goBase` of
  `Model/HttpHandler.lean`).  Core-only.

  Conventions.  Go's `int64`/`int`/`uint64` header and node fields are carried as their 64-bit patterns
  (`UInt64`): `uint64(h.Devmajor)`, `int64(n.Major)`, `int64(n.Size)`, `uint64(info.Size())` are the
  identity on patterns, `int64(n.Mode)` (from the 32-bit `os.FileMode`) is zero extension and
  `fs.FileMode(h.Mode)` is truncation to the low 32 bits.  A `time.Time` is the pair (seconds since the epoch,
  nanoseconds within the second); maps (`Xattrs`) are association lists in key order.

  What is NOT modelled: the byte encoding of headers by `archive/tar` (USTAR/PAX/GNU blocks, base-256
  numbers, long-name records).  On the reading side the header is the one `archive/tar.Reader.Next` hands to
  `TarReader.Next`; on the writing side the header is the one handed to `archive/tar.Writer.WriteHeader`.
  The clauses of that library's contract that the GNU-tar output leg runs into are written down here
  (`wireRefuses`, `wireMtime`, `wire`) and checked against the library on every run.

  The behaviour before the repairs c6df8d2 (PAX global headers and hard links taken for empty files) and 8595654
  (FormatGNU asked for headers with Xattrs) is kept as `readerNextLegacy` / `writerHdrLegacy`.
-/
import Desync.Model.Mode
import Desync.Model.HttpHandler
import Desync.Model.Archive

namespace Desync.TarFS
open Desync

/-! ## Go `path.Clean` -/

/-- `strings.Split(p, "/")` -/
def splitSlash : Bytes → List Bytes
  | [] => [[]]
  | c :: cs =>
    match splitSlash cs with
    | [] => [[c]]
    | h :: t => if c = slash then [] :: h :: t else (c :: h) :: t

/-- the components joined by '/' -/
def joinSlash : List Bytes → Bytes
  | [] => []
  | [c] => c
  | c :: d :: rest => c ++ slash :: joinSlash (d :: rest)

/-- one path element met by `Clean`; the stack holds the elements kept so far, last one first.
    Empty elements and "." are dropped; ".." removes the last kept element unless there is none to remove
    (rooted: dropped; otherwise kept, and a kept ".." is never removed again). -/
def cleanStep (rooted : Bool) (stack : List Bytes) (c : Bytes) : List Bytes :=
  if c = [] ∨ c = [dot] then stack
  else if c = [dot, dot] then
    match stack with
    | top :: rest => if top = [dot, dot] then c :: stack else rest
    | [] => if rooted then [] else [c]
  else c :: stack

/-- `path.Clean` -/
def goClean (p : Bytes) : Bytes :=
  if p = [] then [dot]
  else
    let rooted := p.head? = some slash
    let body := joinSlash ((splitSlash p).foldl (cleanStep rooted) []).reverse
    if rooted then slash :: body else if body = [] then [dot] else body

/-! ## headers, files, nodes -/

/-- `time.Time` as far as it is looked at: `Unix()` and `Nanosecond()` -/
structure Time where
  sec : Int
  nsec : Nat
  deriving DecidableEq, Repr, Inhabited

/-- `t.UnixNano()` as the 64-bit pattern the catar entry stores (`uint64(f.ModTime.UnixNano())`; Go computes
    it in wrapping `int64` arithmetic) -/
def Time.unixNano (t : Time) : UInt64 := UInt64.ofInt (t.sec * 1000000000 + t.nsec)

/-- `archive/tar.Format` -/
inductive Fmt | unknown | ustar | pax | gnu
  deriving DecidableEq, Repr, Inhabited

abbrev Xattrs := List (Bytes × Bytes)

/-- the fields of `archive/tar.Header` that tarfs.go reads or writes -/
structure TarHdr where
  typeflag : UInt8
  name : Bytes
  linkname : Bytes := []
  mode : UInt64 := 0        -- `Mode int64`
  uid : UInt64 := 0         -- `Uid int`
  gid : UInt64 := 0         -- `Gid int`
  size : UInt64 := 0        -- `Size int64`
  mtime : Time := ⟨0, 0⟩
  devmajor : UInt64 := 0    -- `Devmajor int64`
  devminor : UInt64 := 0    -- `Devminor int64`
  xattrs : Xattrs := []
  format : Fmt := .unknown
  deriving DecidableEq, Repr, Inhabited

/-- type flags of archive/tar (common.go) -/
def TypeReg : UInt8 := 48       -- '0'
def TypeRegA : UInt8 := 0
def TypeLink : UInt8 := 49      -- '1'  hard link
def TypeSymlink : UInt8 := 50   -- '2'
def TypeChar : UInt8 := 51      -- '3'
def TypeBlock : UInt8 := 52     -- '4'
def TypeDir : UInt8 := 53       -- '5'
def TypeFifo : UInt8 := 54      -- '6'
def TypeCont : UInt8 := 55      -- '7'
def TypeXHeader : UInt8 := 120        -- 'x'
def TypeXGlobalHeader : UInt8 := 103  -- 'g'
def TypeGNUSparse : UInt8 := 83       -- 'S'

/-- mode-field constants of archive/tar (common.go) -/
def c_ISUID : UInt64 := 0o4000
def c_ISGID : UInt64 := 0o2000
def c_ISVTX : UInt64 := 0o1000
def c_ISDIR : UInt32 := 0o40000
def c_ISFIFO : UInt32 := 0o10000
def c_ISREG : UInt32 := 0o100000
def c_ISLNK : UInt32 := 0o120000
def c_ISBLK : UInt32 := 0o60000
def c_ISCHR : UInt32 := 0o20000
def c_ISSOCK : UInt32 := 0o140000

/-- the second `switch` of `headerFileInfo.Mode()`: Go type bits taken from the c_IS* value inside the mode
    field, `fs.FileMode(h.Mode) &^ 07777` (low 32 bits of the field with the twelve low bits cleared); only
    an exact match of one of six constants counts, c_ISREG and everything else add nothing -/
def cisType (mode : UInt64) : UInt32 :=
  let m := mode.toUInt32 &&& ~~~ (0o7777 : UInt32)
  if m = c_ISDIR then Mode.ModeDir
  else if m = c_ISFIFO then Mode.ModeNamedPipe
  else if m = c_ISLNK then Mode.ModeSymlink
  else if m = c_ISBLK then Mode.ModeDevice
  else if m = c_ISCHR then Mode.ModeDevice ||| Mode.ModeCharDevice
  else if m = c_ISSOCK then Mode.ModeSocket
  else 0

/-- the third `switch`: Go type bits of the type flag (regular files, hard links, PAX and GNU records, and
    every flag archive/tar does not know add nothing) -/
def flagType (typeflag : UInt8) : UInt32 :=
  if typeflag = TypeSymlink then Mode.ModeSymlink
  else if typeflag = TypeChar then Mode.ModeDevice ||| Mode.ModeCharDevice
  else if typeflag = TypeBlock then Mode.ModeDevice
  else if typeflag = TypeDir then Mode.ModeDir
  else if typeflag = TypeFifo then Mode.ModeNamedPipe
  else 0

/-- `headerFileInfo.Mode()` (archive/tar common.go), statement by statement -/
def tarInfoMode (h : TarHdr) : UInt32 :=
  let mode := h.mode.toUInt32 &&& 0o777                                  -- fs.FileMode(fi.h.Mode).Perm()
  let mode := if h.mode &&& c_ISUID ≠ 0 then mode ||| Mode.ModeSetuid else mode
  let mode := if h.mode &&& c_ISGID ≠ 0 then mode ||| Mode.ModeSetgid else mode
  let mode := if h.mode &&& c_ISVTX ≠ 0 then mode ||| Mode.ModeSticky else mode
  let mode := mode ||| cisType h.mode
  mode ||| flagType h.typeflag

/-- `headerFileInfo.Name()`: the base name of the *cleaned* name for a directory (so "a/b/" is "b"), the
    base name of the name as it stands for everything else (`path.Base` strips trailing slashes itself) -/
def infoName (h : TarHdr) : Bytes :=
  if tarInfoMode h &&& Mode.ModeDir ≠ 0 then goBase (goClean h.name) else goBase h.name

/-- `desync.File` without its `Data` reader -/
structure TFile where
  name : Bytes
  path : Bytes
  mode : UInt32            -- os.FileMode
  mtime : Time
  size : UInt64
  linkTarget : Bytes
  uid : UInt64
  gid : UInt64
  xattrs : Xattrs
  devMajor : UInt64
  devMinor : UInt64
  deriving DecidableEq, Repr, Inhabited

/-- the composite literal of `TarReader.Next`, field by field -/
def readerFile (h : TarHdr) : TFile :=
  { name := infoName h                -- Name:       info.Name()
    path := goClean h.name            -- Path:       path.Clean(h.Name)
    mode := tarInfoMode h             -- Mode:       info.Mode()
    mtime := h.mtime                  -- ModTime:    info.ModTime()
    size := h.size                    -- Size:       uint64(info.Size())
    linkTarget := h.linkname          -- LinkTarget: h.Linkname
    uid := h.uid                      -- Uid:        h.Uid
    gid := h.gid                      -- Gid:        h.Gid
    xattrs := h.xattrs                -- Xattrs:     h.Xattrs
    devMajor := h.devmajor            -- DevMajor:   uint64(h.Devmajor)
    devMinor := h.devminor }          -- DevMinor:   uint64(h.Devminor)

/-- the root entry `NewTarReader` prepares under `AddRoot`: name and path ".", `os.ModeDir | 0755`, every
    other field zero (the modification time is the zero `time.Time`, 1 January of the year 1) -/
def rootFile : TFile :=
  { name := [dot], path := [dot], mode := Mode.ModeDir ||| 0o755, mtime := ⟨-62135596800, 0⟩, size := 0,
    linkTarget := [], uid := 0, gid := 0, xattrs := [], devMajor := 0, devMinor := 0 }

/-- an entry of a tar stream as `archive/tar.Reader` hands it out: the header `Next` returns and the bytes that
    reading the entry yields until its end -/
abbrev Entry := TarHdr × Bytes

/-- what one call of `TarReader.Next` returns: a `File` (with what reading its `Data` yields), the error or
    `io.EOF` with which `archive/tar.Reader.Next` ended the stream (passed on as it is), or the error
    "<name>: hard links are not supported" -/
inductive NextResult
  | file (f : TFile) (data : Bytes)
  | libEnd
  | hardLink (name : Bytes)
  deriving DecidableEq, Repr, Inhabited

/-- the loop `for h.Typeflag == gnutar.TypeXGlobalHeader { h, err = fs.r.Next() … }` together with the call of
    `fs.r.Next()` before it: PAX global headers are read and dropped, any number of them in a row -/
def skipGlobal : List Entry → List Entry
  | [] => []
  | e :: rest => if e.1.typeflag = TypeXGlobalHeader then skipGlobal rest else e :: rest

/-- `TarReader.Next` on the entries archive/tar still has to deliver (after the last of them its `Next` returns
    `io.EOF` or an error): the pending root first; otherwise global headers are skipped — the end of the stream
    met on the way is passed on —, a hard link entry is refused with an error, anything else becomes a `File`.
    Returns the result, the new `root` field and the entries left. -/
def readerNext (root : Option TFile) (es : List Entry) : NextResult × Option TFile × List Entry :=
  match root with
  | some r => (.file r [], none, es)
  | none =>
    match skipGlobal es with
    | [] => (.libEnd, none, [])
    | e :: rest =>
      if e.1.typeflag = TypeLink then (.hardLink e.1.name, none, rest)
      else (.file (readerFile e.1) e.2, none, rest)

/-- `TarReader.Next` before the repair c6df8d2: every header archive/tar returns becomes a `File`, a PAX global
    header and a hard link entry included -/
def readerNextLegacy (root : Option TFile) (es : List Entry) : NextResult × Option TFile × List Entry :=
  match root with
  | some r => (.file r [], none, es)
  | none =>
    match es with
    | [] => (.libEnd, none, [])
    | e :: rest => (.file (readerFile e.1) e.2, none, rest)

/-- calling `Next` until it returns something that is not a `File`: the files in order, and how it ended -/
def readerAllWith (next : Option TFile → List Entry → NextResult × Option TFile × List Entry) :
    Nat → Option TFile → List Entry → List (TFile × Bytes) × NextResult
  | 0, _, _ => ([], .libEnd)
  | fuel + 1, root, es =>
    match next root es with
    | (.file f d, root', es') =>
      let (fs, e) := readerAllWith next fuel root' es'
      ((f, d) :: fs, e)
    | (r, _, _) => ([], r)

def readerAll (addRoot : Bool) (es : List Entry) : List (TFile × Bytes) × NextResult :=
  readerAllWith readerNext (es.length + 2) (if addRoot then some rootFile else none) es

def readerAllLegacy (addRoot : Bool) (es : List Entry) : List (TFile × Bytes) × NextResult :=
  readerAllWith readerNextLegacy (es.length + 2) (if addRoot then some rootFile else none) es

/-- the same as a function of the entry list: global headers contribute nothing, the first hard link ends the
    stream with an error (`some name`), otherwise the stream ends as archive/tar ends it (`none`) -/
def readerRun : List Entry → List (TFile × Bytes) × Option Bytes
  | [] => ([], none)
  | e :: rest =>
    if e.1.typeflag = TypeXGlobalHeader then readerRun rest
    else if e.1.typeflag = TypeLink then ([], some e.1.name)
    else ((readerFile e.1, e.2) :: (readerRun rest).1, (readerRun rest).2)

/-! ### what `tar()` makes of such a `File` (tar.go; `Model/Archive.lean` takes it from here) -/

/-- the node kind `tar()` picks: `IsDir`, `IsRegular`, `IsSymlink`, `IsDevice` in that order, otherwise the
    entry is skipped with a warning -/
def kindOf (fm : UInt32) : Kind :=
  if fm &&& Mode.ModeDir ≠ 0 then .dir
  else if fm &&& Mode.ModeType = 0 then .reg
  else if fm &&& Mode.ModeSymlink ≠ 0 then .symlink
  else if fm &&& Mode.ModeDevice ≠ 0 then .device
  else .other

/-- the record `tar()` works with (`data`: what reading `File.Data` yields) -/
def recOfFile (f : TFile) (data : Bytes) : FileRec :=
  { base := goBase f.name, path := f.path, parent := dirOf f.path, kind := kindOf f.mode,
    mode := (Mode.filemodeToStat f.mode).toUInt64, uid := f.uid, gid := f.gid, mtime := f.mtime.unixNano,
    size := f.size, data := data, target := f.linkTarget, major := f.devMajor, minor := f.devMinor,
    xattrs := f.xattrs }

/-- the stat mode that ends up in the catar entry for a header of a tar stream -/
def inputStatMode (h : TarHdr) : UInt32 := Mode.filemodeToStat (readerFile h).mode

/-- the records `tar()` works with for a tar stream (`addRoot`: `TarReaderOptions.AddRoot`), and the name of the
    hard link that ended the stream with an error, if one did -/
def inputRecs (addRoot : Bool) (es : List Entry) : List FileRec × Option Bytes :=
  let r := readerRun es
  ((if addRoot then [recOfFile rootFile []] else []) ++ r.1.map (fun fd => recOfFile fd.1 fd.2), r.2)

def inputRecsLegacy (addRoot : Bool) (es : List Entry) : List FileRec :=
  (if addRoot then [recOfFile rootFile []] else []) ++ es.map (fun e => recOfFile (readerFile e.1) e.2)

/-! `tar()` over a reader whose stream may end with an error instead of `io.EOF`: `tarOne` / `tarChildren` of
    `Model/Archive.lean` with the one place made explicit where the end of the stream is looked at (the child loop's
    `fs.Next()`): `io.EOF` ends the directory, any other error is returned.  With `eofOK = true` these are
    `tarOne` / `tarChildren` (`tarOneE_true`, `tarChildrenE_true` in `Proofs/TarFSProofs.lean`). -/
mutual
def tarOneE (eofOK : Bool) : Nat → FileRec → List FileRec → Option (Bytes × List FileRec)
  | 0, _, _ => none
  | fuel+1, f, rest =>
    if f.kind = .other then some ([], rest)
    else
      let hdr := encElem (entryElem f) ++ encXattrs f.xattrs
      match f.kind with
      | .dir =>
        match tarChildrenE eofOK fuel f.path rest hdr.length [] with
        | none => none
        | some (body, items, rest') =>
          let n := hdr.length + body.length
          let items := items.map fun (it : GoodbyeItem) => { it with offset := UInt64.ofNat n - it.offset }
          match makeGoodbyeBST items with
          | none => none
          | some bst =>
            let all := bst ++ [⟨UInt64.ofNat n, UInt64.ofNat (16 + bst.length * 24 + 24), Gen.CaFormatGoodbyeTailMarker⟩]
            some (hdr ++ body ++ encElem (.goodbye (UInt64.ofNat (16 + all.length * 24)) all), rest')
      | .reg =>
        if f.data.length < f.size.toNat then none
        else some (hdr ++ encElem (.payload (16 + f.size)) ++ f.data.take f.size.toNat, rest)
      | .symlink => some (hdr ++ encElem (.symlink (UInt64.ofNat (16 + f.target.length + 1)) f.target), rest)
      | .device => some (hdr ++ encElem (.device 32 f.major f.minor), rest)
      | .other => some ([], rest)

def tarChildrenE (eofOK : Bool) : Nat → Bytes → List FileRec → Nat → List GoodbyeItem →
    Option (Bytes × List GoodbyeItem × List FileRec)
  | 0, _, _, _, _ => none
  | _, _, [], _, items => if eofOK then some ([], items, []) else none
  | fuel+1, dir, f :: rest, n, items =>
    if f.parent ≠ dir then some ([], items, f :: rest)
    else if f.kind = .other then tarChildrenE eofOK fuel dir rest n items
    else
      let fname := encElem (.filename (UInt64.ofNat (16 + f.base.length + 1)) f.base)
      match tarOneE eofOK fuel f rest with
      | none => none
      | some (child, rest') =>
        let sz := fname.length + child.length
        let item : GoodbyeItem := ⟨UInt64.ofNat n, UInt64.ofNat sz, sipHashName f.base⟩
        match tarChildrenE eofOK fuel dir rest' (n + sz) (items ++ [item]) with
        | none => none
        | some (more, items', rest'') => some (fname ++ child ++ more, items', rest'')
end

/-- `Tar` over a record stream that ends with `io.EOF` (`eofOK`) or with an error: the very first `fs.Next()`
    must yield a record (`io.EOF` there is an error as well) -/
def tarStreamE (eofOK : Bool) (fs : List FileRec) : Option Bytes :=
  match fs with
  | [] => none
  | f :: rest => (tarOneE eofOK (2 * fs.length + 2) f rest).map (·.1)

/-- **`Tar(NewTarReader(stream, AddRoot))`**: the catar written, or `none` = an error.  `libEOF`: archive/tar ends
    the stream with `io.EOF` (not with an error, e.g. a stream cut short) -/
def tarOfStream (addRoot : Bool) (es : List Entry) (libEOF : Bool) : Option Bytes :=
  let r := inputRecs addRoot es
  tarStreamE (libEOF && r.2.isNone) r.1

/-- the same before the repair c6df8d2 -/
def tarOfStreamLegacy (addRoot : Bool) (es : List Entry) (libEOF : Bool) : Option Bytes :=
  tarStreamE libEOF (inputRecsLegacy addRoot es)

/-! ## the GNU-tar output leg -/

/-- the fields of `NodeDirectory` / `NodeFile` / `NodeSymlink` / `NodeDevice` (a kind uses its own) -/
structure TNode where
  name : Bytes
  uid : UInt64 := 0
  gid : UInt64 := 0
  mode : UInt32 := 0       -- os.FileMode
  mtime : Time := ⟨0, 0⟩
  xattrs : Xattrs := []
  size : UInt64 := 0       -- NodeFile
  target : Bytes := []     -- NodeSymlink
  major : UInt64 := 0      -- NodeDevice
  minor : UInt64 := 0
  deriving DecidableEq, Repr, Inhabited

inductive NKind | dir | file | symlink | device
  deriving DecidableEq, Repr, Inhabited

/-- `int64(n.Mode)`: what the four `Create*` methods put into the header's mode field -/
def rawMode (m : UInt32) : UInt64 := m.toUInt64

/-- `tarMode` (tarfs.go; defined, not called): `int64(FilemodeToStatMode(m) & 07777)` -/
def tarMode (m : UInt32) : UInt64 := (Mode.filemodeToStat m &&& 0o7777).toUInt64

/-- `TarWriter.formatFor`: extended attributes need a PAX header; otherwise the writer's `format` field -/
def formatFor (fmt : Fmt) (xattrs : Xattrs) : Fmt := if xattrs.length > 0 then .pax else fmt

/-- the composite literals of `CreateDir`, `CreateFile`, `CreateSymlink`, `CreateDevice`; `modeOf` is the
    expression in the `Mode:` field, `fmtOf` the one in the `Format:` field as a function of the node's xattrs.
    `CreateDevice` picks the type flag from `n.Mode&os.ModeCharDevice` and sets no `Format`. -/
def writerHdrWith (modeOf : UInt32 → UInt64) (fmtOf : Xattrs → Fmt) : NKind → TNode → TarHdr
  | .dir, n =>
    { typeflag := TypeDir, name := n.name, uid := n.uid, gid := n.gid, mode := modeOf n.mode,
      mtime := n.mtime, xattrs := n.xattrs, format := fmtOf n.xattrs }
  | .file, n =>
    { typeflag := TypeReg, name := n.name, uid := n.uid, gid := n.gid, mode := modeOf n.mode,
      mtime := n.mtime, size := n.size, xattrs := n.xattrs, format := fmtOf n.xattrs }
  | .symlink, n =>
    { typeflag := TypeSymlink, linkname := n.target, name := n.name, uid := n.uid, gid := n.gid,
      mode := modeOf n.mode, mtime := n.mtime, xattrs := n.xattrs, format := fmtOf n.xattrs }
  | .device, n =>
    { typeflag := if n.mode &&& Mode.ModeCharDevice ≠ 0 then TypeChar else TypeBlock,
      name := n.name, uid := n.uid, gid := n.gid, mode := modeOf n.mode, mtime := n.mtime,
      xattrs := n.xattrs, devmajor := n.major, devminor := n.minor }

/-- the header `TarWriter` hands to `archive/tar.Writer.WriteHeader`: `Mode: int64(n.Mode)`,
    `Format: fs.formatFor(n.Xattrs)` with `fs.format = FormatGNU` (`NewTarWriter`) -/
def writerHdr : NKind → TNode → TarHdr := writerHdrWith rawMode (formatFor .gnu)

/-- before the repair 8595654: `Format: fs.format`, whatever the node carries -/
def writerHdrLegacy : NKind → TNode → TarHdr := writerHdrWith rawMode (fun _ => .gnu)

/-- the writer with the `Mode:` fields using the helper `tarMode` that tarfs.go already contains -/
def writerHdrTarMode : NKind → TNode → TarHdr := writerHdrWith tarMode (formatFor .gnu)

/-! ### two clauses of archive/tar's contract (checked against the library on every run) -/

/-- a numeric header field that does not fit seven octal digits (`!fitsInOctal(8, x)`: negative, or 2^21 and
    above): USTAR and PAX blocks cannot hold it — for mode and device numbers there is no PAX record either —,
    only GNU's base-256 encoding can -/
def needsBase256 (x : UInt64) : Bool := decide (2097152 ≤ x)

/-- `Writer.WriteHeader` refuses (`Header.allowedFormats`; for the formats `TarWriter` asks for: GNU, PAX, none):
    only a PAX header holds `Xattrs` and only a GNU header holds a mode or device number beyond seven octal digits,
    so a header that has both is refused whatever it asks for ("… PAX cannot encode Mode=…; and only PAX supports
    Xattrs"); one that asks for `FormatGNU` and has `Xattrs` ("Format specifies GNU; and only PAX supports
    Xattrs"); one that asks for `FormatPAX` and has such a number ("Format specifies PAX; and PAX cannot encode
    Mode=…").  (Names and link names with NUL bytes are refused too; node names have none.) -/
def wireRefuses (h : TarHdr) : Bool :=
  let needsPAX := !h.xattrs.isEmpty
  let needsGNU := needsBase256 h.mode || needsBase256 h.devmajor || needsBase256 h.devminor
  (needsPAX && needsGNU) || (h.format == .gnu && needsPAX) || (h.format == .pax && needsGNU)

/-- the modification time that survives `WriteHeader` and `Reader.Next`: under `FormatGNU` (and USTAR) the
    header stores whole seconds, `ModTime.Unix()`, the fraction is cut off (towards minus infinity); with no
    format requested the writer first rounds to the nearest second, halves up (`ModTime.Round(time.Second)`);
    PAX keeps the nanoseconds -/
def wireMtime (f : Fmt) (t : Time) : Time :=
  match f with
  | .gnu | .ustar => ⟨t.sec, 0⟩
  | .unknown => if 500000000 ≤ t.nsec then ⟨t.sec + 1, 0⟩ else ⟨t.sec, 0⟩
  | .pax => t

/-- the extended attributes `Reader.Next` returns: a PAX record with an empty value means "no value" to archive/tar's
    reader, so an attribute whose value is empty is written but does not come back -/
def wireXattrs (xs : Xattrs) : Xattrs := xs.filter fun kv => kv.2 ≠ []

/-- **the header that comes back** from `Writer.WriteHeader` followed by `Reader.Next` (`none`: refused): every field
    as it was, except the modification time, kept as far as the format keeps it, and extended attributes with an
    empty value, which archive/tar's reader drops.  (Stated for names that are clean paths without NUL bytes and
    attribute keys without '=' and NUL — the library refuses others — and numbers below 2^56.) -/
def wire (h : TarHdr) : Option TarHdr :=
  if wireRefuses h then none
  else some { h with mtime := wireMtime h.format h.mtime, xattrs := wireXattrs h.xattrs }

end Desync.TarFS
