/-
  Model of the READING side of `LocalFS` (localfs_other.go: `LocalFS.Next`, `initForReading`,
  `startSerializer`) over the POSIX file-system model of `Model/LocalFS.lean`, and of the pieces of the
  Go library it is made of: `filepath.Walk` / `walk` / `readDirNames` (path/filepath), `filepath.Join`,
  `path.Clean`, `path.Base`, the `Name()` of an `os.Lstat` result (`basename` in os/file_unix.go).

  `walkTree` is the sequence of `walkEntry` values the goroutine of `startSerializer` sends, `readerFile` is
  the `File` literal `Next` builds from one of them (as the `FileRec` that `tar()` consumes), `readTree`
  is the record stream `Tar` gets from `NewLocalFS(root).Next()` until `io.EOF` or the first error.

  What the file-system model leaves to the kernel (`none` owner / mode / mtime of an object nobody
  chown'ed, chmod'ed or touched explicitly) is read through an oracle `Env`.  `st_size` of a directory or
  a device node is file-system specific and not modelled (0): `tar()` reads `Size` of regular files only.
  A relative root is resolved from the top directory (the model has no working directory).  Reading a
  directory never fails (the process is root; there is no concurrent change: the model is one state).
-/
import Desync.Model.LocalFS

namespace Desync.LFS

/-! ### strings: Go's `<`, `sort.Strings`, `path.Clean`, `filepath.Join`, `path.Base`, `basename` -/

/-- Go's `<` on strings: byte-wise lexicographic -/
def bytesLt : Bytes → Bytes → Bool
  | [], [] => false
  | [], _ :: _ => true
  | _ :: _, [] => false
  | a :: as, b :: bs => a < b || (a == b && bytesLt as bs)

/-- insertion into a list sorted strictly by `key`; an element with the same key is replaced (the
    first occurrence in the input of `sortBy` wins, as `List.lookup` does) -/
def insertBy {α} (key : α → Bytes) (x : α) : List α → List α
  | [] => [x]
  | y :: ys =>
    if bytesLt (key x) (key y) then x :: y :: ys
    else if key x = key y then x :: ys
    else y :: insertBy key x ys

/-- `slices.Sort` / `sort.Strings` on keys that are pairwise distinct on a real system (directory
    entries of one directory, attribute names of one object) -/
def sortBy {α} (key : α → Bytes) (l : List α) : List α := l.foldr (insertBy key) []

/-- the element loop of `path.Clean`: `acc` is the output so far (last element first) -/
def cleanComps (rooted : Bool) : List Name → List Name → List Name
  | acc, [] => acc.reverse
  | acc, c :: rest =>
    if c = [] ∨ c = [dot] then cleanComps rooted acc rest
    else if c = [dot, dot] then
      match acc with
      | a :: acc' =>
        if a = [dot, dot] then cleanComps rooted (c :: acc) rest     -- the leading "../.." of a relative path
        else cleanComps rooted acc' rest                              -- backtrack
      | [] => if rooted then cleanComps rooted [] rest else cleanComps rooted [c] rest
    else cleanComps rooted (c :: acc) rest

/-- `path.Clean` (on Unix `filepath.Clean` is the same function) -/
def clean (p : Bytes) : Bytes :=
  if p = [] then [dot]
  else
    let rooted := p.head? = some slash
    let cs := cleanComps rooted [] (comps p)
    if rooted then slash :: List.intercalate [slash] cs
    else if cs = [] then [dot] else List.intercalate [slash] cs

/-- `filepath.Join(path, name)` as `walk` calls it -/
def joinName (path : Bytes) (name : Name) : Bytes :=
  if path = [] then (if name = [] then [] else clean name) else clean (path ++ [slash] ++ name)

/-- `strings.TrimRight(s, "/")` but keeping the first byte (the loops of `basename` run while `i > 0`) -/
def stripSlashes : Bytes → Bytes
  | [] => []
  | c :: rest => c :: (rest.reverse.dropWhile (· = slash)).reverse

/-- `basename` of os/file_unix.go: the `Name()` of the `FileInfo` that `os.Lstat(name)` returns -/
def osBasename (name : Bytes) : Bytes :=
  let s := stripSlashes name
  if s.length ≤ 1 then s else (s.reverse.takeWhile (· ≠ slash)).reverse

/-- `path.Base` -/
def pathBase (p : Bytes) : Bytes :=
  if p = [] then [dot]
  else
    let s := (p.reverse.dropWhile (· = slash)).reverse
    let b := (s.reverse.takeWhile (· ≠ slash)).reverse
    if b = [] then [slash] else b

/-- a clean absolute path as a string -/
def absStr (p : List Name) : Bytes := slash :: List.intercalate [slash] p

/-! ### lstat and readdir on a path string -/

/-- `os.Lstat(p)`: where the object lives and the object.  A trailing slash makes the kernel follow a
    link in the last component and insist on a directory. -/
def lstatStr (fs : FS) (p : Bytes) : Except Err (RPath × Obj) :=
  if p = [] then .error .noent
  else
    let follow := p.getLast? = some slash && !(comps p).isEmpty
    match resolve fs follow (comps p) with
    | .error e => .error e
    | .ok rp =>
      if rp = [] then .ok ([], .dir {} none)           -- the top directory
      else
        match fs.get rp with
        | none => .error .noent
        | some o => if follow && !o.isDir then .error .notdir else .ok (rp, o)

/-- the names in the real directory `rp` (`f.Readdirnames(-1)`, in whatever order) -/
def dirNames (fs : FS) (rp : RPath) : List Name :=
  fs.filterMap fun e => if e.1 ≠ [] ∧ e.1.dropLast = rp then e.1.getLast? else none

/-- `readDirNames`: sorted byte-wise -/
def readDirNames (fs : FS) (rp : RPath) : List Name := sortBy id (dirNames fs rp)

/-! ### `filepath.Walk` with the callback of `startSerializer` -/

/-- what the callback sends into `fs.entries`: `walkEntry{path, info, err}` (`info` = the object and,
    model-internal, where it lives) -/
structure WalkEntry where
  path : Bytes
  res : Except Err (RPath × Obj)

/-- `walk(path, info, walkFn)` with `walkFn` = the callback: a directory for which `skip` holds
    (`fs.dev != 0 && st.Dev != fs.dev`: --one-file-system and the directory is a mount point of another
    file system; the model has no device ids, the mount points are a parameter) is neither sent nor
    entered (`filepath.SkipDir`); everything else is sent, and the callback returns nil, so the walk
    goes on after an entry with an error too.  A symbolic link is not a directory (`lstat`): a leaf.
    (With `fs.dev != 0` the callback calls `info.IsDir()` before it looks at `err`: for an entry whose `lstat` failed,
    `info` is nil and the real process dies — harness/cmd/repro_onefs_nilinfo.  The model sends the error entry in that case
    too; in a valid static file system no `lstat` of a listed name fails: `walkFrom_walked`.)
    `none` = the model's fuel ran out (never: `walk_fuel_enough`). -/
def walkFrom (fs : FS) (skip : RPath → Bool) : Nat → Bytes → RPath → Obj → Option (List WalkEntry)
  | 0, _, _, _ => none
  | fuel + 1, path, rp, o =>
    if !o.isDir then some [⟨path, .ok (rp, o)⟩]
    else if skip rp then some []
    else
      match (readDirNames fs rp).mapM (fun name =>
          let filename := joinName path name
          match lstatStr fs filename with
          | .error e => some [(⟨filename, .error e⟩ : WalkEntry)]
          | .ok (rp', o') => walkFrom fs skip fuel filename rp' o') with
      | none => none
      | some subs => some (⟨path, .ok (rp, o)⟩ :: subs.flatten)

/-- the longest real path of the file system -/
def depth (fs : FS) : Nat := fs.foldr (fun e d => max e.1.length d) 0

/-- `filepath.Walk(fs.Root, callback)`.  The root itself is on the root's file system. -/
def walkTree (fs : FS) (skip : RPath → Bool) (root : Bytes) : Option (List WalkEntry) :=
  match lstatStr fs root with
  | .error e => some [⟨root, .error e⟩]
  | .ok (rp, o) => walkFrom fs (fun q => q ≠ rp && skip q) (depth fs + 1) root rp o

/-! ### `LocalFS.Next` -/

/-- what `lstat` reports where the model says "the kernel's choice": by real path -/
structure Env where
  owner : RPath → Nat × Nat
  mode : RPath → Nat
  now : RPath → Nat

/-- `st_mode`: file type and the twelve permission, set-id and sticky bits.  A symbolic link's are
    0777 on Linux whatever was asked for. -/
def stMode (env : Env) (rp : RPath) : Obj → UInt32
  | .dir a _ => Mode.S_IFDIR ||| UInt32.ofNat (a.mode.getD (env.mode rp) % 4096)
  | .file _ a _ => Mode.S_IFREG ||| UInt32.ofNat (a.mode.getD (env.mode rp) % 4096)
  | .symlink .. => Mode.S_IFLNK ||| 0o777
  | .dev typ _ _ a _ => UInt32.ofNat typ ||| UInt32.ofNat (a.mode.getD (env.mode rp) % 4096)

/-- `st_rdev`: the kernel's encoding of a device node's numbers (`mkdev` on the 12 + 20 bits the kernel
    keeps), 0 for everything else -/
def stRdev : Obj → UInt64
  | .dev _ ma mi _ _ => Mode.mkdev (UInt64.ofNat ma) (UInt64.ofNat mi)
  | _ => 0

def Obj.mtime : Obj → Option Nat
  | .dir _ m => m
  | .file _ _ m => m
  | .symlink _ _ m => m
  | .dev _ _ _ _ m => m

/-- the four tests of tar.go on `f.Mode`, in the order of its `switch` -/
def kindOfFilemode (fm : UInt32) : Kind :=
  if fm &&& Mode.ModeDir ≠ 0 then .dir
  else if fm &&& Mode.ModeType = 0 then .reg
  else if fm &&& Mode.ModeSymlink ≠ 0 then .symlink
  else if fm &&& Mode.ModeDevice ≠ 0 then .device
  else .other

/-- the `File` that `Next` returns for one `walkEntry`, as the record `tar()` works with.
    `entry.info.Mode()` is the `os.FileMode` of `st_mode` (`fillFileStatFromSys`, the same table as
    `StatModeToFilemode`); xattrs: `LList` + `LGet` on the path, links not followed, into a map (`tar()`
    sorts the keys); `Readlink` for links; `os.Open` for regular files. -/
def readerFile (env : Env) (noTime : Bool) (path : Bytes) (rp : RPath) (o : Obj) : FileRec :=
  let fm := Mode.statToFilemode (stMode env rp o)
  let ow := o.attr.owner.getD (env.owner rp)
  let rdev := stRdev o
  let p := clean path
  { base := pathBase (osBasename path)
    path := p
    parent := dirOf p
    kind := kindOfFilemode fm
    mode := (Mode.filemodeToStat fm).toUInt64
    uid := UInt64.ofNat ow.1
    gid := UInt64.ofNat ow.2
    mtime := if noTime then 0 else UInt64.ofNat (o.mtime.getD (env.now rp))
    size := match o with
      | .file d _ _ => UInt64.ofNat d.length
      | .symlink t _ _ => UInt64.ofNat t.length
      | _ => 0
    data := match o with
      | .file d _ _ => d
      | _ => []
    target := match o with
      | .symlink t _ _ => t
      | _ => []
    major := Mode.rdevMajor rdev
    minor := Mode.rdevMinor rdev
    xattrs := sortBy Prod.fst o.attr.xattrs }

/-- `Next` until `io.EOF`: the first entry that carries an error ends the stream with that error -/
def nextAll (env : Env) (noTime : Bool) : List WalkEntry → Except Err (List FileRec)
  | [] => .ok []
  | e :: es =>
    match e.res with
    | .error err => .error err
    | .ok (rp, o) =>
      match nextAll env noTime es with
      | .error err => .error err
      | .ok fs => .ok (readerFile env noTime e.path rp o :: fs)

/-- the record stream `Tar(ctx, w, NewLocalFS(root, opts))` consumes.  `none`: out of fuel (never). -/
def readTree (env : Env) (noTime : Bool) (skip : RPath → Bool) (fs : FS) (root : Bytes) :
    Option (Except Err (List FileRec)) :=
  (walkTree fs skip root).map (nextAll env noTime)

/-! ### the source shapes this model was written from (compared with the regenerated facts, `gen_lfsread_*`) -/
namespace ReadFacts

/-- the `File` literal of `LocalFS.Next` — `readerFile` field by field -/
def fileLiteral : List String :=
  ["Data=r", "DevMajor=major", "DevMinor=minor", "Gid=gid", "LinkTarget=linkTarget", "ModTime=mtime",
   "Mode=entry.info.Mode()", "Name=entry.info.Name()", "Path=path.Clean(entry.path)",
   "Size=uint64(entry.info.Size())", "Uid=uid", "Xattrs=xa"]

/-- `mtime` of `readerFile` -/
def noTime : List String := ["mtime:=entry.info.ModTime()", "if fs.opts.NoTime mtime=time.Unix(0,0)"]

/-- xattrs of every entry (under no test of the entry: links and devices included), the link target under a test of
    `ModeSymlink`, the content under `IsRegular()`; all on `entry.path`, the path the walk reported -/
def calls : List String :=
  ["xattr.LList(entry.path) under []", "xattr.LGet(entry.path,key) under [range keys]",
   "os.Readlink(entry.path) under [ModeSymlink]", "os.Open(entry.path) under [IsRegular()]", "xa[key]=string(value)"]

/-- `walkFrom`: a sorted walk (`filepath.Walk` or `filepath.WalkDir`) from `fs.Root`; the callback returns `SkipDir`
    only under `fs.dev != 0`, `IsDir()` and a device id other than the root's, and does so before the send; the send is
    unconditional (every entry that is not skipped, error or not) and passes the callback's own path and error on;
    otherwise the callback returns nil (the walk goes on) -/
def walkCallback : List String :=
  ["returns:filepath.SkipDir,nil", "send fs.entries<-walkEntry{path,info,err} under []", "skip-before-send",
   "skipdir-needs:fs.dev!=0,IsDir(),.Dev)!=fs.dev", "walk:fs.Root"]

/-- `tar()` reads `f.Size` for regular files only (`readerFile` reports 0 for directories and device nodes) -/
def sizeUses : List String := ["case f.IsRegular()"]

end ReadFacts

end Desync.LFS
