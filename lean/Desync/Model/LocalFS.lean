/-
  Model of localfs.go / localfs_other.go (`LocalFS` as a `FilesystemWriter`) over a POSIX file
  system with symbolic links, and of `UnTar` driving it with the nodes of `Model/Archive.lean`.

  The file system is a finite map from *real paths* (the chain of directory entries from the top,
  no symlink in between) to objects.  A path handed to a system call is resolved the POSIX way:
  component by component, following symbolic links in intermediate components always and in the
  last component unless the call is of the no-follow kind (lstat, unlink, symlink, mknod, mkdir,
  lchown, lsetxattr, utimensat with AT_SYMLINK_NOFOLLOW, and what `os.RemoveAll` does).  `LocalFS` joins the node's name to its root
  and issues the calls listed below in the order of the Go code.

  Attributes: every object carries its owner (`none` = the creating process's), its permission,
  set-id and sticky bits (`none` = the creation mode under the process's umask) and its extended
  attributes; `chown` of a non-directory clears the set-user-ID bit, and the set-group-ID bit when
  the group-execute bit is set, as Linux does (also for root).  A time stamp is `some t` when set
  explicitly and `none` when the kernel set it ("now"); the kernel's limit on nested links is `fuel`.
  `user.*` extended attributes exist on regular files and directories only (EPERM elsewhere).
-/
import Desync.Model.Archive
import Desync.Model.Mode

namespace Desync.LFS

abbrev Name := Bytes
abbrev RPath := List Name

/-- owner, mode bits (permissions, set-id, sticky: the low 12 bits) and extended attributes -/
structure Attr where
  owner : Option (Nat × Nat) := none
  mode : Option Nat := none
  xattrs : List (Bytes × Bytes) := []
  deriving DecidableEq, Repr, Inhabited

inductive Obj
  | dir (attr : Attr) (mtime : Option Nat)
  | file (data : Bytes) (attr : Attr) (mtime : Option Nat)
  | symlink (target : Bytes) (attr : Attr) (mtime : Option Nat)
  | dev (typ : Nat) (major minor : Nat) (attr : Attr) (mtime : Option Nat)   -- `typ`: the S_IFMT bits `mknod` got (S_IFCHR, S_IFBLK; S_IFIFO, S_IFSOCK)
  deriving DecidableEq, Repr, Inhabited

def Obj.isDir : Obj → Bool
  | .dir .. => true
  | _ => false

abbrev FS := List (RPath × Obj)

def FS.get (fs : FS) (p : RPath) : Option Obj := List.lookup p fs

def FS.set (fs : FS) (p : RPath) (o : Obj) : FS := (p, o) :: fs.filter (fun e => e.1 ≠ p)

/-- remove `p` and everything beneath it -/
def FS.del (fs : FS) (p : RPath) : FS := fs.filter (fun e => !(p.isPrefixOf e.1))

/-- the kernel updates a directory's mtime when an entry is created or removed in it -/
def FS.touch (fs : FS) (p : RPath) : FS :=
  match fs.get p with
  | some (.dir a _) => fs.set p (.dir a none)
  | _ => fs

/-! ### path resolution -/

/-- split at '/' and drop empty components -/
def comps (p : Bytes) : List Name :=
  let rec go (rest : Bytes) (cur : Bytes) (acc : List Name) : List Name :=
    match rest with
    | [] => (if cur = [] then acc else cur.reverse :: acc).reverse
    | b :: bs => if b = slash then go bs [] (if cur = [] then acc else cur.reverse :: acc) else go bs (b :: cur) acc
  go p [] []

def isAbs (p : Bytes) : Bool := p.head? = some slash

inductive Err
  | noent | notdir | loop | exist | isdir | other
  deriving DecidableEq, Repr

/-- resolve `todo` starting in the real directory `cur`.  `follow` says whether a symbolic link
    in the last component is followed.  The result is a real path whose parent is an existing
    real directory; the path itself may or may not exist. -/
def walk (fs : FS) (follow : Bool) : Nat → RPath → List Name → Except Err RPath
  | 0, _, _ => .error .loop
  | _ + 1, cur, [] => .ok cur
  | fuel + 1, cur, c :: rest =>
    if c = [dot] then walk fs follow fuel cur rest
    else if c = [dot, dot] then walk fs follow fuel cur.dropLast rest
    else if c.length > 255 then .error .other       -- ENAMETOOLONG (NAME_MAX)
    else
      let here := cur ++ [c]
      match fs.get here with
      | some (.symlink t _ _) =>
        if rest = [] && !follow then .ok here
        else walk fs follow fuel (if isAbs t then [] else cur) (comps t ++ rest)
      | some (.dir ..) => walk fs follow fuel here rest
      | some _ => if rest = [] then .ok here else .error .notdir
      | none => if rest = [] then .ok here else .error .noent

/-- how many links/components a resolution may go through (the kernel allows 40 nested links) -/
def fuelFor (fs : FS) (p : List Name) : Nat := 64 + p.length + 4 * fs.length

def resolve (fs : FS) (follow : Bool) (p : List Name) : Except Err RPath :=
  walk fs follow (fuelFor fs p) [] p

/-! ### system calls (each returns the new file system or an error; an error changes nothing) -/

def parentIsDir (fs : FS) (rp : RPath) : Bool :=
  rp ≠ [] && (rp.dropLast = [] || (fs.get rp.dropLast).any Obj.isDir)

/-- `lstat`: the object a path names, links not followed -/
def lstat (fs : FS) (p : List Name) : Except Err Obj := do
  let rp ← resolve fs false p
  if rp = [] then pure (.dir {} none)        -- the top directory
  else match fs.get rp with
    | some o => pure o
    | none => .error .noent

def mkdir (fs : FS) (p : List Name) : Except Err FS := do
  let rp ← resolve fs false p
  if rp = [] || (fs.get rp).isSome then .error .exist
  else if !parentIsDir fs rp then .error .noent
  else pure ((fs.set rp (.dir {} none)).touch rp.dropLast)

/-- `os.RemoveAll`: the name and everything beneath it; a missing name is not an error -/
def removeAll (fs : FS) (p : List Name) : Except Err FS :=
  match resolve fs false p with
  | .error .noent => .ok fs
  | .error e => .error e
  | .ok rp =>
    if rp = [] then .error .other
    else if (fs.get rp).isNone then .ok fs
    else .ok ((fs.del rp).touch rp.dropLast)

/-- `unlink`: not for directories -/
def unlink (fs : FS) (p : List Name) : Except Err FS := do
  let rp ← resolve fs false p
  match fs.get rp with
  | none => .error .noent
  | some (.dir ..) => .error .isdir
  | some _ => if rp = [] then .error .isdir else pure ((fs.del rp).touch rp.dropLast)

/-- `open(O_CREAT|O_WRONLY|O_TRUNC)` followed by writing `data`: a link in the last component is
    followed -/
def createTrunc (fs : FS) (p : List Name) (data : Bytes) : Except Err FS := do
  let rp ← resolve fs true p
  match fs.get rp with
  | some (.dir ..) => .error .isdir
  | some (.file _ a _) => pure (fs.set rp (.file data a none))
  | some (.dev ..) => .error .other      -- writing to a device node: not modelled, refuse
  | some (.symlink ..) => .error .loop   -- a dangling link is created through; resolution already followed it
  | none =>
    if rp = [] then .error .isdir
    else if !parentIsDir fs rp then .error .noent
    else pure ((fs.set rp (.file data {} none)).touch rp.dropLast)

def symlinkAt (fs : FS) (target : Bytes) (p : List Name) : Except Err FS := do
  let rp ← resolve fs false p
  if rp = [] || (fs.get rp).isSome then .error .exist
  else if !parentIsDir fs rp then .error .noent
  else pure ((fs.set rp (.symlink target {} none)).touch rp.dropLast)

/-- `mknod(path, typ | perm, dev)`; `typ` = the file-type bits of the mode argument.  The model keeps them
    whatever they are (the kernel makes a regular file for S_IFREG/0 and refuses S_IFDIR and S_IFLNK: such a
    call comes only from an archive whose device element contradicts its entry's mode). -/
def mknod (fs : FS) (p : List Name) (typ major minor : Nat) : Except Err FS := do
  let rp ← resolve fs false p
  if rp = [] || (fs.get rp).isSome then .error .exist
  else if !parentIsDir fs rp then .error .noent
  else pure ((fs.set rp (.dev typ major minor {} none)).touch rp.dropLast)

def Obj.attr : Obj → Attr
  | .dir a _ => a
  | .file _ a _ => a
  | .symlink _ a _ => a
  | .dev _ _ _ a _ => a

def Obj.withAttr (o : Obj) (a : Attr) : Obj :=
  match o with
  | .dir _ m => .dir a m
  | .file d _ m => .file d a m
  | .symlink t _ m => .symlink t a m
  | .dev ty ma mi _ m => .dev ty ma mi a m

def Obj.withMtime (o : Obj) (t : Option Nat) : Obj :=
  match o with
  | .dir a _ => .dir a t
  | .file d a _ => .file d a t
  | .symlink tg a _ => .symlink tg a t
  | .dev ty ma mi a _ => .dev ty ma mi a t

/-- what `chown` does to the mode bits of a non-directory: S_ISUID (04000) goes, S_ISGID (02000)
    goes when S_IXGRP (010) is set -/
def clearSetID (m : Nat) : Nat :=
  let m := if m / 2048 % 2 = 1 then m - 2048 else m
  if m / 1024 % 2 = 1 ∧ m / 8 % 2 = 1 then m - 1024 else m

/-- `chown` (follow = true) / `lchown` (follow = false) -/
def chown (fs : FS) (follow : Bool) (p : List Name) (uid gid : Nat) : Except Err FS := do
  let rp ← resolve fs follow p
  match fs.get rp with
  | none => if rp = [] then pure fs else .error .noent
  | some o =>
    let a := o.attr
    let mode := if o.isDir then a.mode else a.mode.map clearSetID
    pure (fs.set rp (o.withAttr { a with owner := some (uid, gid), mode := mode }))

/-- `chmod` (follows links): the permission, set-id and sticky bits -/
def chmod (fs : FS) (p : List Name) (mode : Nat) : Except Err FS := do
  let rp ← resolve fs true p
  match fs.get rp with
  | none => if rp = [] then pure fs else .error .noent
  | some o => pure (fs.set rp (o.withAttr { o.attr with mode := some (mode % 4096) }))

def isUserXattr (k : Bytes) : Bool := k.take 5 = [117, 115, 101, 114, 46]   -- "user."

def xaSet (m : List (Bytes × Bytes)) (k v : Bytes) : List (Bytes × Bytes) :=
  if m.any (·.1 = k) then m.map (fun p => if p.1 = k then (k, v) else p) else m ++ [(k, v)]

/-- `lsetxattr` (links not followed) for one attribute: `user.*` attributes are refused (EPERM) on
    anything but regular files and directories -/
def lsetxattr (fs : FS) (p : List Name) (k v : Bytes) : Except Err FS := do
  let rp ← resolve fs false p
  match fs.get rp with
  | none => if rp = [] then pure fs else .error .noent
  | some o =>
    let allowed := match o with
      | .dir .. | .file .. => true
      | _ => !isUserXattr k
    if !allowed then .error .other
    else pure (fs.set rp (o.withAttr { o.attr with xattrs := xaSet o.attr.xattrs k v }))

/-- `os.Chtimes` (follows links) -/
def chtimes (fs : FS) (p : List Name) (t : Nat) : Except Err FS := do
  let rp ← resolve fs true p
  match fs.get rp with
  | none => if rp = [] then pure fs else .error .noent
  | some o => pure (fs.set rp (o.withMtime (some t)))

/-- `utimensat(…, AT_SYMLINK_NOFOLLOW)`: the time stamp of the object the path names, links not followed -/
def lchtimes (fs : FS) (p : List Name) (t : Nat) : Except Err FS := do
  let rp ← resolve fs false p
  match fs.get rp with
  | none => if rp = [] then pure fs else .error .noent
  | some o => pure (fs.set rp (o.withMtime (some t)))

/-! ### LocalFS -/

structure Opts where
  noSameOwner : Bool
  noSamePermissions : Bool
  deriving Repr

structure LState where
  fs : FS
  dirTimes : List (List Name × Nat) := []   -- `fs.dirTimes`: path as handed to the system calls, mtime

/-- `FilemodeToStatMode(n.Mode)` as handed to `chmod`: the entry's stat mode; the kernel keeps the low 12 bits -/
def modeOf (m : Meta) : Nat := m.mode.toNat % 4096

/-- `filepath.Join(fs.Root, n.Name)` as a component list (`Join` cleans lexically; node names
    contain no ".." — `Proofs/ArchiveConfined.lean`) -/
def dstOf (root : List Name) (name : Bytes) : List Name :=
  root ++ (comps name).filter (· ≠ [dot])

/-- a system call inside a `LocalFS` method: on failure the method returns at once, and the file
    system stays as the calls before it left it (a failing call changes nothing).  The error
    value of `Except FS α` is that file system. -/
def sys (fs : FS) (r : Except Err FS) : Except FS FS :=
  match r with
  | .ok fs' => .ok fs'
  | .error _ => .error fs

/-- the `for key, value := range n.Xattrs { xattr.LSet(dst, key, value) }` loop (map order is irrelevant:
    keys are distinct) -/
def setXattrs (fs : FS) (dst : List Name) : List (Bytes × Bytes) → Except FS FS
  | [] => .ok fs
  | (k, v) :: rest => do
    let fs ← sys fs (lsetxattr fs dst k v)
    setXattrs fs dst rest

/-- `Set{Dir,File}Permissions` + the device variant: chown (follow), xattrs (no follow), chmod (follow) -/
def setPerms (o : Opts) (fs : FS) (dst : List Name) (m : Meta) : Except FS FS := do
  let fs ← if o.noSameOwner then pure fs else do
    let fs ← sys fs (chown fs true dst m.uid.toNat m.gid.toNat)
    setXattrs fs dst m.xattrs
  if o.noSamePermissions then pure fs else sys fs (chmod fs dst (modeOf m))

def createDir (o : Opts) (root : List Name) (s : LState) (name : Bytes) (m : Meta) : Except FS LState := do
  let dst := dstOf root name
  let fs ← (match lstat s.fs dst with
    | .ok ob => if ob.isDir then (pure s.fs : Except FS FS) else .error s.fs
    | .error _ => sys s.fs (mkdir s.fs dst))
  let fs ← setPerms o fs dst m
  if m.mtime = 0 then pure { s with fs := fs }
  else do
    let fs ← sys fs (chtimes fs dst m.mtime.toNat)
    pure { fs := fs, dirTimes := s.dirTimes ++ [(dst, m.mtime.toNat)] }

def createFile (o : Opts) (root : List Name) (s : LState) (name : Bytes) (m : Meta) (data : Bytes) : Except FS LState := do
  let dst := dstOf root name
  let fs ← sys s.fs (removeAll s.fs dst)
  let kept := s.dirTimes.filter fun d => !(dst.isPrefixOf d.1)
  let s := { s with dirTimes := kept }
  let fs ← sys fs (createTrunc fs dst data)
  let fs ← setPerms o fs dst m
  if m.mtime = 0 then pure { s with fs := fs }
  else do
    let fs ← sys fs (chtimes fs dst m.mtime.toNat)
    pure { s with fs := fs }

/-- `syscall.Unlink(dst)`, a missing name tolerated -/
def unlinkIfThere (fs : FS) (dst : List Name) : Except FS FS :=
  match unlink fs dst with
  | .ok fs' => .ok fs'
  | .error .noent => .ok fs
  | .error _ => .error fs

def createSymlink (o : Opts) (root : List Name) (s : LState) (name : Bytes) (m : Meta) (target : Bytes) : Except FS LState := do
  let dst := dstOf root name
  let fs ← unlinkIfThere s.fs dst
  let fs ← sys fs (symlinkAt fs target dst)
  let fs ← if o.noSameOwner then pure fs else do
    let fs ← sys fs (chown fs false dst m.uid.toNat m.gid.toNat)
    setXattrs fs dst m.xattrs
  if m.mtime = 0 then pure { s with fs := fs }
  else do
    let fs ← sys fs (lchtimes fs dst m.mtime.toNat)
    pure { s with fs := fs }

/-- the file-type bits of `FilemodeToStatMode(n.Mode)|0666`, the mode `CreateDevice` hands to `mknod`
    (`n.Mode` = `StatModeToFilemode` of the entry's mode) -/
def mknodType (m : Meta) : Nat :=
  (Mode.filemodeToStat (Mode.statToFilemode m.mode.toUInt32) &&& Mode.S_IFMT).toNat

def createDevice (o : Opts) (root : List Name) (s : LState) (name : Bytes) (m : Meta) (major minor : Nat) : Except FS LState := do
  let dst := dstOf root name
  let fs ← unlinkIfThere s.fs dst
  let fs ← sys fs (mknod fs dst (mknodType m) major minor)
  let fs ← setPerms o fs dst m
  if m.mtime = 0 then pure { s with fs := fs }
  else do
    let fs ← sys fs (chtimes fs dst m.mtime.toNat)
    pure { s with fs := fs }

def applyNode (o : Opts) (root : List Name) (s : LState) : Node → Except FS LState
  | .dir name m => createDir o root s name m
  | .file name m _ data => createFile o root s name m data
  | .symlink name m t => createSymlink o root s name m t
  | .device name m ma mi => createDevice o root s name m ma.toNat mi.toNat

/-- `finishUntar`: the recorded directory mtimes, last first; stops at the first failing call -/
def finishFrom (fs : FS) : List (List Name × Nat) → FS × Bool
  | [] => (fs, true)
  | d :: ds =>
    match chtimes fs d.1 d.2 with
    | .ok fs' => finishFrom fs' ds
    | .error _ => (fs, false)

def finish (s : LState) : FS × Bool := finishFrom s.fs s.dirTimes.reverse

/-- `UnTar` onto a `LocalFS`: nodes are decoded and written one by one; the first error ends the
    run and leaves the file system as it is at that point.  Result: the final file system and
    whether `UnTar` returned nil. -/
def untarLoop (o : Opts) (root : List Name) : Nat → ArchDec → LState → FS × Bool
  | 0, _, s => (s.fs, false)
  | fuel + 1, a, s =>
    match a.next with
    | .ok (none, _) => finish s
    | .ok (some n, a') =>
      match applyNode o root s n with
      | .ok s' => untarLoop o root fuel a' s'
      | .error fs => (fs, false)
    | _ => (s.fs, false)

def untarFS (o : Opts) (root : List Name) (fs : FS) (b : Bytes) : FS × Bool :=
  untarLoop o root (b.length + 2) { st := { rest := b } } { fs := fs }

end Desync.LFS
