/-
  Model of dedupqueue.go / writededupqueue.go: request de-duplication as a step machine
  (DESIGN appendix A.3), one machine per kind of request (GetChunk, HasChunk, StoreChunk).
  `queue.loadOrStore` and `queue.delete` are atomic (they hold the queue mutex); `request.markDone`
  publishes the result and then closes `done`; `request.wait` blocks until `done` is closed.
  Upstream outcomes are chosen by the environment (`upRet t v` with an arbitrary value `v`).
-/
namespace Desync.Dedup

/-- the order of operations in `DedupQueue.GetChunk`'s leader path and in `request.markDone` that
    this machine implements (checked against the regenerated shapes by `C12.gen_dedup_shape`) -/
def modelledLeaderShape : List String := ["loadOrStore", "upstream", "markDone", "delete"]
def modelledMarkDoneShape : List String := ["data", "err", "close"]

structure Req where
  id : Nat
  done : Bool := false
  val : Nat := 0          -- the published result (meaningful once `done`)
  deriving DecidableEq, Repr

inductive C
  | start (id : Nat)                 -- about to call loadOrStore
  | upstream (r : Nat)               -- leader of request r: upstream call in flight
  | got (r : Nat) (v : Nat)          -- leader: upstream returned v, before markDone
  | published (r : Nat) (v : Nat)    -- leader: markDone executed, before delete
  | follower (r : Nat)               -- waiting on request r
  | returned (v : Nat) (r : Nat)     -- returned v, having used request r
  deriving DecidableEq, Repr

structure St where
  queue : List (Nat × Nat) := []     -- the `requests` map: id ↦ request number
  reqs : List Req := []              -- all requests ever created, by number
  callers : List C
  upHist : List (Nat × Nat) := []    -- (request, value) for every upstream return, newest first
  deriving Repr

def St.init (ids : List Nat) : St := { callers := ids.map .start }

inductive Ev
  | call (t : Nat)          -- loadOrStore: join the request in flight or register a new one and call upstream
  | upRet (t : Nat) (v : Nat)
  | markDone (t : Nat)
  | delete (t : Nat)
  | wake (t : Nat)          -- a follower's wait returns (needs done)
  deriving Repr

def setC (s : St) (t : Nat) (c : C) : St := { s with callers := s.callers.set t c }

def step (s : St) : Ev → Option St
  | .call t =>
    match s.callers[t]? with
    | some (.start id) =>
      match s.queue.lookup id with
      | some r => some (setC s t (.follower r))
      | none =>
        let r := s.reqs.length
        some { setC s t (.upstream r) with queue := (id, r) :: s.queue, reqs := s.reqs ++ [{ id }] }
    | _ => none
  | .upRet t v =>
    match s.callers[t]? with
    | some (.upstream r) => some { setC s t (.got r v) with upHist := (r, v) :: s.upHist }
    | _ => none
  | .markDone t =>
    match s.callers[t]? with
    | some (.got r v) =>
      some { setC s t (.published r v) with reqs := s.reqs.modify r fun q => { q with done := true, val := v } }
    | _ => none
  | .delete t =>
    match s.callers[t]? with
    | some (.published r v) =>
      let id := (s.reqs.getD r { id := 0 }).id
      some { setC s t (.returned v r) with queue := s.queue.filter (·.1 ≠ id) }
    | _ => none
  | .wake t =>
    match s.callers[t]? with
    | some (.follower r) =>
      match s.reqs[r]? with
      | some q => if q.done then some (setC s t (.returned q.val r)) else none
      | none => none
    | _ => none

inductive Reachable (s0 : St) : St → Prop
  | refl : Reachable s0 s0
  | step {s s' : St} (e : Ev) : Reachable s0 s → step s e = some s' → Reachable s0 s'

def run (s : St) : List Ev → St
  | [] => s
  | e :: es => run ((step s e).getD s) es

end Desync.Dedup
