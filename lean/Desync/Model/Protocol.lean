/-
  Model of protocol.go: message framing (`ReadMessage` / `WriteMessage`).
-/
import Desync.Model.Format

namespace Desync

structure Message where
  typ : UInt64
  body : Bytes
  deriving DecidableEq, Repr, Inhabited

/-- `Protocol.ReadMessage` -/
def readMessage (s : St) : Res (Message × St) := do
  let (len, s) ← readU64 s
  if len < 16 then .err .short
  else do
    let (b, s) ← readN (len.toNat - 8) s
    -- b[0:8], b[8:] — in range because len-8 ≥ 8
    if b.length < 8 then .panic "slice bounds out of range"
    else pure (⟨u64OfLE b, b.drop 8⟩, s)

/-- `Protocol.WriteMessage` -/
def writeMessage (m : Message) : Bytes :=
  le64 (UInt64.ofNat (16 + m.body.length)) ++ le64 m.typ ++ m.body

end Desync
