/-
  Model of protocol.go: message framing (`ReadMessage` / `WriteMessage`).
-/
import Desync.Model.Format

namespace Desync

structure Message where
  typ : UInt64
  body : Bytes
  deriving DecidableEq, Repr, Inhabited

/-- `Protocol.ReadMessage` -/
def readMessage (s : St) : Res (Message × St) := do
  let (len, s) ← readU64 s
  if len < 16 then .err .short
  else do
    let (b, s) ← readN (len.toNat - 8) s
    -- b[0:8], b[8:] — in range because len-8 ≥ 8
    if b.length < 8 then .panic "slice bounds out of range"
    else pure (⟨u64OfLE b, b.drop 8⟩, s)

/-- `Protocol.WriteMessage` -/
def writeMessage (m : Message) : Bytes :=
  le64 (UInt64.ofNat (16 + m.body.length)) ++ le64 m.typ ++ m.body

end Desync

namespace Desync

/-- `SendProtocolChunk(id, flags, chunk)` -/
def chunkMessage (id : Bytes) (flags : UInt64) (data : Bytes) : Message :=
  ⟨Gen.CaProtocolChunk, le64 flags ++ id ++ data⟩

/-- `SendMissing(id)` -/
def missingMessage (id : Bytes) : Message := ⟨Gen.CaProtocolMissing, id⟩

/-- `SendProtocolRequest(id, flags)` -/
def requestMessage (id : Bytes) (flags : UInt64) : Message := ⟨Gen.CaProtocolRequest, le64 flags ++ id⟩

inductive ReqRes
  | chunk (raw : Bytes)     -- handed to NewChunkFromStorage(id, raw, {Compressor}, verify)
  | missing
  | error
  deriving DecidableEq, Repr

/-- how `Protocol.RequestChunk` interprets the server's reply -/
def interpretReply (m : Message) : ReqRes :=
  if m.typ = Gen.CaProtocolMissing then .missing
  else if m.typ = Gen.CaProtocolChunk then
    if m.body.length < 40 then .error else .chunk (m.body.drop 40)
  else .error

/-- outcome of the server's store for one request -/
inductive StoreAns | data (compressed : Bytes) | missing | failure
  deriving DecidableEq, Repr

/-- `ProtocolServer.Serve` over a sequence of requests: the replies sent, and whether the session is
    still open afterwards (a store failure ends it; a missing chunk does not) -/
def serveRequests : List (Bytes × StoreAns) → List Message × Bool
  | [] => ([], true)
  | (id, ans) :: rest =>
    match ans with
    | .failure => ([], false)
    | .missing => let (ms, open_) := serveRequests rest; (missingMessage id :: ms, open_)
    | .data c => let (ms, open_) := serveRequests rest; (chunkMessage id 1 c :: ms, open_)

end Desync
