/-
  The cache file and the state file of `desync mount-index --cor-file … --cor-state-save …` ACROSS PROCESS DEATHS
  (cmd/desync/mount-index.go, mount-index.go `MountIndex`, mount-sparse.go `Close`/`WriteState`, sparse-file.go
  `NewSparseFile` / `WriteState` / `loadChunk`).

  The disk survives the process (process death, not power loss: what a completed `write`/`pwrite`/`ftruncate`/`open(O_TRUNC)`
  did stays); the process can die between any two system calls.  Chunk-level abstraction (as Model/SparseConc.lean): `pop i`
  = "range i of the cache file holds the blob's bytes", the state file is the list of flags it holds (`some []` after
  `os.Create` truncated it; a short write leaves a proper prefix).

  Steps (each one system call or one in-memory update, in the order the regenerated facts give):
  * `start`: `NewSparseFile` up to the decision: the saved state is used iff the cache file has the index's length and the
    state file has the bitmap's length; otherwise the file is about to be re-initialised (`initCreate`, `initWrite`:
    `WriteState` of the blank bitmap = `os.Create` + `Write`; then `initTruncate`);
  * `writeChunk i full`: `loadChunk`'s `WriteAt` (`full = false`: a short write, the call fails); `mark i`: the done bit;
    loads of several goroutines interleave (`written` = chunks written and not yet marked);
  * `saveCreate` / `saveWrite k`: `WriteState` from the SIGHUP handler or from `Close` when the context ends (`os.Create`,
    then ONE `Write` of the bitmap as it is at that moment; `k` = number of flags that reach the file, `k < n` = short write);
    several saves may be in flight (`pend`);
  * `kill`: the process is gone (SIGKILL, crash, or an unmount from outside, after which `MountIndex` returns without `Close`);
  * `extern`: between sessions the cache file is removed or resized to another length, and/or the state file removed;
  * `powerLoss i`: NOT process death — range `i` of the cache file loses data that was never synced (there is no fsync in
    `loadChunk` nor in `WriteState`); used for the counterexample only.
-/
import Desync.Basic.Bytes

namespace Desync.MountState

inductive Phase | initA | initB | initC | running
  deriving DecidableEq, Repr

structure Proc where
  phase : Phase
  done : List Bool          -- the loader's bitmap
  written : List Nat := []  -- chunks whose `WriteAt` completed, done bit not yet set
  pend : Nat := 0           -- state saves between `os.Create` and `Write`
  deriving DecidableEq, Repr

structure St where
  n : Nat                          -- number of chunks
  sizeOK : Bool                    -- the cache file has the index's length
  pop : List Bool                  -- range i of the cache file holds the blob's bytes
  state : Option (List Bool)       -- the state file
  proc : Option Proc
  deriving DecidableEq, Repr

inductive Ev
  | start
  | initCreate | initWrite | initTruncate
  | writeChunk (i : Nat) (full : Bool)
  | mark (i : Nat)
  | saveCreate
  | saveWrite (k : Nat)
  | kill
  | extern (resize dropState : Bool)
  | powerLoss (i : Nat)
  deriving DecidableEq, Repr

/-- the order of `WriteAt` and the done bit in `loadChunk` (a regenerated fact decides which one the code has) -/
inductive LoadOrder | writeThenMark | markThenWrite
  deriving DecidableEq, Repr

def blank (n : Nat) : List Bool := List.replicate n false

def step (lo : LoadOrder) (s : St) : Ev → Option St
  | .start =>
    match s.proc with
    | some _ => none
    | none =>
      match s.state with
      | some st =>
        if s.sizeOK && st.length == s.n then some { s with proc := some { phase := .running, done := st } }
        else some { s with proc := some { phase := .initA, done := blank s.n } }
      | none => some { s with proc := some { phase := .initA, done := blank s.n } }
  | .initCreate =>
    match s.proc with
    | some p => if p.phase = .initA then some { s with state := some [], proc := some { p with phase := .initB } } else none
    | none => none
  | .initWrite =>
    match s.proc with
    | some p => if p.phase = .initB then some { s with state := some (blank s.n), proc := some { p with phase := .initC } } else none
    | none => none
  | .initTruncate =>
    match s.proc with
    | some p =>
      if p.phase = .initC then
        some { s with sizeOK := true, pop := if s.sizeOK then s.pop else blank s.n, proc := some { p with phase := .running } }
      else none
    | none => none
  | .writeChunk i full =>
    match s.proc with
    | some p =>
      if p.phase = .running ∧ i < s.n then
        match lo with
        | .writeThenMark =>
          some { s with pop := if full then s.pop.set i true else s.pop,
                        proc := some { p with written := if full then i :: p.written else p.written } }
        | .markThenWrite =>
          -- the mutant: the bit was set by `mark` before; the write comes second
          if i ∈ p.written then
            some { s with pop := if full then s.pop.set i true else s.pop,
                          proc := some { p with written := p.written.erase i } }
          else none
      else none
    | none => none
  | .mark i =>
    match s.proc with
    | some p =>
      if p.phase = .running ∧ i < s.n then
        match lo with
        | .writeThenMark =>
          if i ∈ p.written then some { s with proc := some { p with done := p.done.set i true, written := p.written.erase i } }
          else none
        | .markThenWrite =>
          some { s with proc := some { p with done := p.done.set i true, written := i :: p.written } }
      else none
    | none => none
  | .saveCreate =>
    match s.proc with
    | some p => if p.phase = .running then some { s with state := some [], proc := some { p with pend := p.pend + 1 } } else none
    | none => none
  | .saveWrite k =>
    match s.proc with
    | some p =>
      if p.phase = .running ∧ 0 < p.pend then
        some { s with state := some (p.done.take k), proc := some { p with pend := p.pend - 1 } }
      else none
    | none => none
  | .kill =>
    match s.proc with
    | some _ => some { s with proc := none }
    | none => none
  | .extern resize dropState =>
    match s.proc with
    | some _ => none
    | none => some { s with sizeOK := if resize then false else s.sizeOK,
                            pop := if resize then blank s.n else s.pop,
                            state := if dropState then none else s.state }
  | .powerLoss i =>
    match s.proc with
    | some _ => none
    | none => some { s with pop := s.pop.set i false }

def run (lo : LoadOrder) : St → List Ev → Option St
  | s, [] => some s
  | s, e :: es => match step lo s e with
    | some s' => run lo s' es
    | none => none

/-- process death only -/
def Ev.isPowerLoss : Ev → Bool
  | .powerLoss _ => true
  | _ => false

/-- the first session: no cache file yet (or one of another length); whatever state file is lying around -/
def St.init (n : Nat) (leftover : Option (List Bool)) : St :=
  { n, sizeOK := false, pop := blank n, state := leftover, proc := none }

/-- **the property**: would a session starting now accept the state file, every chunk it claims is in the cache file -/
def DiskOK (s : St) : Prop :=
  s.sizeOK = true → ∀ (st : List Bool), s.state = some st → st.length = s.n →
    ∀ (i : Nat), st[i]? = some true → s.pop[i]? = some true

end Desync.MountState
