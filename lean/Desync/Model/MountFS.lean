/-
  The FUSE node layer of `desync mount-index` (mount-index.go: `IndexMountFS`, `indexFile`; mount-sparse.go:
  `SparseMountFS`, `sparseIndexFile`) as a request/response model, and the kernel's side of a read(2) on the mounted
  file BY CONTRACT.

  * `Req` / `Resp`: LOOKUP, GETATTR, OPEN, READ, RELEASE as the go-fuse bridge hands them to the node, and what the node
    answers.  `IdxMount.serve` is the index mount (one `IdxPos` reader per open handle, Model/ReadSeeker.lean),
    `SpMount.serve` the sparse mount (all handles share the `SparseSt` session, Model/Sparse.lean; `SpMount.close` is
    `SparseMountFS.Close` = `WriteState`).
  * what Getattr and Open put into their replies comes from regenerated facts (`NodeFacts`: the mode, the chain of
    integer conversions around the size, where the size comes from, the open flags); the reply of Read is written out here
    and compared with the regenerated table of `return` statements (Properties/C09MountFSGen.lean).
  * `kread`: one read(2) of `len` bytes at `off` by a user of the mounted file.  Contract of the kernel (fs/fuse/file.c):
    without FOPEN_DIRECT_IO the range is clipped to the size GETATTR reported (nothing is asked at or beyond it); the range
    is served by consecutive READ requests of any sizes (`split`: pages, read-ahead windows, max_read); no more than the
    bytes asked for are taken from a reply; a reply shorter than asked ends the read (end of file to the kernel, with or
    without direct-io); an errno ends it too: the caller gets the bytes copied so far, or the errno if there are none.
-/
import Desync.Model.Sparse

namespace Desync.MountFS
open Desync

def S_IFREG : Nat := 0o100000
def FOPEN_DIRECT_IO : Nat := 1
def FOPEN_KEEP_CACHE : Nat := 2

inductive Errno | eio | enoent | ebadf
  deriving DecidableEq, Repr

inductive Req
  | lookup (name : String)
  | getattr
  | open_
  | read (fh off len : Nat)
  | release (fh : Nat)
  deriving DecidableEq, Repr

inductive Resp
  | entry (mode : Nat)            -- LOOKUP: the child exists, a regular file
  | attr (mode size : Nat)        -- GETATTR: `out.Mode`, `out.Size`
  | opened (fh flags : Nat)       -- OPEN: handle number (go-fuse's table), FOPEN_* flags
  | data (b : Bytes)              -- READ: `fuse.ReadResultData(b)`, errno 0
  | err (e : Errno)
  | released
  | unmodelled                    -- the regenerated facts name something this model does not know
  deriving DecidableEq, Repr

/-! ### what the node's Getattr / Open put into their replies (regenerated facts) -/

structure NodeFacts where
  /-- `out.Mode` -/
  attrMode : Nat
  /-- integer conversions around the size, outermost first (`uint64(x)` = `["uint64"]`) -/
  sizeConv : List String
  /-- where the size comes from: `"idx.Length"` = `Index.Length()` of the mounted index -/
  sizeSrc : String
  /-- the flags `Open` returns -/
  openFlags : Nat
  deriving DecidableEq, Repr

/-- one Go integer conversion on a non-negative value -/
def conv1 : String → Nat → Option Nat
  | "uint64", n => some (n % 2 ^ 64)
  | "int64", n => some (n % 2 ^ 64)      -- two's complement: the bits are kept; read back by an outer conversion
  | "uint", n => some (n % 2 ^ 64)
  | "int", n => some (n % 2 ^ 64)
  | "uint32", n => some (n % 2 ^ 32)
  | "int32", n => some (n % 2 ^ 32)
  | "uint16", n => some (n % 2 ^ 16)
  | "uint8", n => some (n % 2 ^ 8)
  | _, _ => none

/-- the chain, innermost conversion (the last of the list) first -/
def applyConv : List String → Nat → Option Nat
  | [], n => some n
  | c :: cs, n => match applyConv cs n with
    | some m => conv1 c m
    | none => none

/-- `Index.Length()`: start + size of the last chunk, 0 without chunks -/
def indexLength (cs : List RChunk) : Nat :=
  match cs[cs.length - 1]? with
  | some c => c.start + c.size
  | none => 0

def attrSize (f : NodeFacts) (cs : List RChunk) : Option Nat :=
  if f.sizeSrc = "idx.Length" then applyConv f.sizeConv (indexLength cs) else none

def getattrResp (f : NodeFacts) (cs : List RChunk) : Resp :=
  match attrSize f cs with
  | some sz => .attr f.attrMode sz
  | none => .unmodelled

/-- every conversion of the chain is 64 bits wide: the identity below 2^63 -/
def conv64 : List String → Bool
  | [] => true
  | c :: cs => (c == "uint64" || c == "int64" || c == "uint" || c == "int") && conv64 cs

/-- the facts under which the theorems hold: a read-only regular file of the index's length; no direct-io -/
def NodeFacts.ok (f : NodeFacts) : Bool :=
  decide (f.attrMode = S_IFREG + 0o444) && decide (f.sizeSrc = "idx.Length") && conv64 f.sizeConv &&
  decide (f.openFlags &&& FOPEN_DIRECT_IO = 0)

/-- the modelled code -/
def modelledFacts : NodeFacts :=
  { attrMode := S_IFREG + 0o444, sizeConv := ["uint64"], sizeSrc := "idx.Length", openFlags := FOPEN_KEEP_CACHE }

/-! ### the index mount -/

structure IdxMount where
  fname : String
  chunks : List RChunk
  nullID : Nat
  nullLen : Nat
  /-- go-fuse's handle table: `none` = released -/
  handles : List (Option IdxPos) := []
  /-- store calls made so far (all handles use the mount's one store) -/
  calls : Nat := 0

/-- `newIndexFileHandle` -> `NewIndexReadSeeker(idx, store)` -/
def IdxMount.newReader (m : IdxMount) : IdxPos :=
  IdxPos.new m.chunks (indexLength m.chunks) m.nullID m.nullLen

/-- one request to the node.  LOOKUP: `OnAdd` added ONE child, `FName`, a persistent inode of mode S_IFREG (go-fuse's
    tree by contract).  READ: `indexFile.Read` -> `indexFileHandle.read` = `fuseRead`: `none` is EIO WITHOUT data.
    A handle number the table does not hold is answered EBADF by the bridge (the kernel never sends one). -/
def IdxMount.serve (f : NodeFacts) (fetch : Fetch) (m : IdxMount) : Req → Resp × IdxMount
  | .lookup n => (if n = m.fname then .entry S_IFREG else .err .enoent, m)
  | .getattr => (getattrResp f m.chunks, m)
  | .open_ => (.opened m.handles.length f.openFlags, { m with handles := m.handles ++ [some m.newReader] })
  | .read fh off len =>
    match m.handles[fh]? with
    | some (some ip) =>
      let x := ip.fuseRead fetch off len m.calls
      ((match x.1 with | some b => .data b | none => .err .eio),
       { m with handles := m.handles.set fh (some x.2.1), calls := x.2.2 })
    | _ => (.err .ebadf, m)
  | .release fh =>
    match m.handles[fh]? with
    | some (some _) => (.released, { m with handles := m.handles.set fh none })
    | _ => (.err .ebadf, m)

def IdxMount.run (f : NodeFacts) (fetch : Fetch) : IdxMount → List Req → List Resp × IdxMount
  | m, [] => ([], m)
  | m, q :: qs =>
    let (r, m') := m.serve f fetch q
    let (rs, m'') := IdxMount.run f fetch m' qs
    (r :: rs, m'')

/-! ### the sparse mount -/

structure SpMount where
  fname : String
  s : SparseSt
  /-- open handles (`SparseFileHandle`: the session + a descriptor on the cache file): `false` = released -/
  handles : List Bool := []

/-- `sparseIndexFile.Read`: `SparseSt.mountRead` (`none` = EIO); all handles share the session -/
def SpMount.serve (f : NodeFacts) (fetch : Fetch) (m : SpMount) : Req → Resp × SpMount
  | .lookup n => (if n = m.fname then .entry S_IFREG else .err .enoent, m)
  | .getattr => (getattrResp f m.s.chunks, m)
  | .open_ => (.opened m.handles.length f.openFlags, { m with handles := m.handles ++ [true] })
  | .read fh off len =>
    match m.handles[fh]? with
    | some true =>
      let x := m.s.mountRead fetch off len
      ((match x.1 with | some b => .data b | none => .err .eio), { m with s := x.2 })
    | _ => (.err .ebadf, m)
  | .release fh =>
    match m.handles[fh]? with
    | some true => (.released, { m with handles := m.handles.set fh false })
    | _ => (.err .ebadf, m)

def SpMount.run (f : NodeFacts) (fetch : Fetch) : SpMount → List Req → List Resp × SpMount
  | m, [] => ([], m)
  | m, q :: qs =>
    let (r, m') := m.serve f fetch q
    let (rs, m'') := SpMount.run f fetch m' qs
    (r :: rs, m'')

/-- `SparseMountFS.Close` = `SparseFile.WriteState`: the bitmap that goes to the state file -/
def SpMount.close (m : SpMount) : List Bool := m.s.saveState

/-! ### the kernel's side of read(2), by contract -/

/-- a server of READ requests on one open file: `none` = an errno -/
abbrev Srv (σ : Type) := σ → Nat → Nat → Option Bytes × σ

inductive KRes
  | data (b : Bytes)      -- read(2) returns `len b`
  | errno                 -- read(2) returns -1
  deriving DecidableEq, Repr

/-- the sizes of the consecutive requests that cover `n` bytes: `split` proposes sizes (entry `p` = `p+1` bytes), the
    rest goes into one last request -/
def kpieces : Nat → List Nat → List Nat
  | 0, _ => []
  | n + 1, [] => [n + 1]
  | n + 1, p :: ps => min (p + 1) (n + 1) :: kpieces (n + 1 - min (p + 1) (n + 1)) ps

def kserve {σ : Type} (srv : Srv σ) : List Nat → σ → Nat → Bytes → KRes × σ
  | [], s, _, acc => (.data acc, s)
  | l :: ls, s, off, acc =>
    match srv s off l with
    | (none, s') => (if acc.isEmpty then .errno else .data acc, s')
    | (some b, s') =>
      if (b.take l).length < l then (.data (acc ++ b.take l), s')
      else kserve srv ls s' (off + l) (acc ++ b.take l)

/-- read(2) of `len` bytes at `off` on a file opened with `flags` whose GETATTR size is `size` -/
def kread {σ : Type} (srv : Srv σ) (size flags : Nat) (split : List Nat) (s : σ) (off len : Nat) : KRes × σ :=
  let n := if flags &&& FOPEN_DIRECT_IO ≠ 0 then len else if size ≤ off then 0 else min len (size - off)
  kserve srv (kpieces n split) s off []

/-- the READ server of handle `fh` of an index mount / a sparse mount -/
def IdxMount.srv (f : NodeFacts) (fetch : Fetch) (fh : Nat) : Srv IdxMount := fun m off len =>
  match m.serve f fetch (.read fh off len) with
  | (.data b, m') => (some b, m')
  | (_, m') => (none, m')

def SpMount.srv (f : NodeFacts) (fetch : Fetch) (fh : Nat) : Srv SpMount := fun m off len =>
  match m.serve f fetch (.read fh off len) with
  | (.data b, m') => (some b, m')
  | (_, m') => (none, m')

/-- a user opens the mounted file and reads: GETATTR, OPEN, read(2) -/
def IdxMount.userRead (f : NodeFacts) (fetch : Fetch) (m : IdxMount) (split : List Nat) (off len : Nat) :
    Option (KRes × IdxMount) :=
  match m.serve f fetch .getattr, m.serve f fetch .open_ with
  | (.attr _ size, _), (.opened fh flags, m1) => some (kread (IdxMount.srv f fetch fh) size flags split m1 off len)
  | _, _ => none

def SpMount.userRead (f : NodeFacts) (fetch : Fetch) (m : SpMount) (split : List Nat) (off len : Nat) :
    Option (KRes × SpMount) :=
  match m.serve f fetch .getattr, m.serve f fetch .open_ with
  | (.attr _ size, _), (.opened fh flags, m1) => some (kread (SpMount.srv f fetch fh) size flags split m1 off len)
  | _, _ => none

/-! ### the reply table of the two `Read` methods, as the extractor prints it

  One entry per `return`: (condition class, what is handed to `fuse.ReadResultData` or `nil`, errno). -/

/-- `indexFileHandle.read` -/
def modelledIndexReadReturns : List (String × String × String) :=
  [("seek.err", "nil", "EIO"), ("read.err&&!eof", "nil", "EIO"), ("else", "dest[:n]", "OK")]

/-- `sparseIndexFile.Read`: data next to EIO is dropped by go-fuse (an errno reply carries no payload) -/
def modelledSparseReadReturns : List (String × String × String) :=
  [("readat.eof", "dest[:n]", "OK"), ("readat.err&&!eof", "dest[:n]", "EIO"), ("else", "dest[:n]", "OK")]

end Desync.MountFS
