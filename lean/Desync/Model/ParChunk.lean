/-
  The parallel file chunker of make.go (`IndexFromFile`, `pChunker.start`, `pChunker.syncWith`) as a
  step machine.  Worker i chunks the file from `offset i` on with the single-stream chunker and
  puts its chunks into a bucket (a buffered channel that never fills up: its capacity is the
  largest number of chunks the worker can produce); after every chunk it tries to synchronise with
  the next worker: it takes chunks out of that worker's bucket until one starts at or after its
  own, stops if it is the same chunk (the next worker continues from there), asks how many zero
  bytes the next worker has already seen (null-chunk fast-forward), and skips a next worker that has
  stopped and whose bucket is drained.  The main routine concatenates the buckets in worker order.
  Every channel operation and every read of another worker's state is one step; steps of different
  workers and of the main routine interleave arbitrarily.      DESIGN section 6, C02.

  The chunker is abstract here: `cut pos` is the size of the chunk the single-stream chunker
  produces at absolute position `pos` (`Model/Chunker.lean`: `cutRoll p (data.drop pos)`), and
  `isNull c` says that chunk `c` has the ID of the null chunk (with collision-free IDs: it consists
  of `max` zero bytes).
-/
import Desync.Basic.Bytes
import Desync.Generated.Facts

namespace Desync.Par

structure Chunk where
  start : Nat
  size : Nat
  deriving DecidableEq, Repr, Inhabited

def Chunk.fin (c : Chunk) : Nat := c.start + c.size

/-- the zero value of `IndexChunk` (what a receive from a closed channel yields) -/
def Chunk.zero : Chunk := ⟨0, 0⟩

structure Env where
  size : Nat                    -- file size
  max : Nat                     -- ChunkSizeMax = len(nullChunk.Data)
  cut : Nat → Nat               -- size of the chunk starting at a position (positions < size)
  isNull : Chunk → Bool         -- the chunk's ID is the null chunk's ID
  offsets : List Nat            -- start position of every worker; worker 0 starts at 0

/-- where a worker is in `pChunker.start` / inside the `syncWith` it called on its next worker -/
inductive PC
  | top                                         -- head of the loop: about to call `chunker.Next()`
  | pushed (c : Chunk)                          -- chunk in the own bucket; about to look at `c.next`
  | popping (c : Chunk) (prev : Option Chunk)   -- `syncWith`, first loop
  | decide (c : Chunk) (prev : Option Chunk)    -- `syncWith`, after the first loop
  | nullScan (c : Chunk) (n : Nat)              -- `syncWith`, counting null chunks; n zero bytes so far
  | advance (last : Chunk) (k : Nat)            -- after `Advance`: k null chunks still to be put into the bucket
  | skipCheck                                   -- `if c.next != nil && !c.next.active() && len(c.next.results) == 0`
  | stopping                                    -- returning: `c.stop()` is next
  | closing                                     -- then `close(c.results)`
  | done
  deriving DecidableEq, Repr

structure Worker where
  pos : Nat                     -- absolute position of the chunker
  bucket : List Chunk := []     -- `results`, oldest first
  closed : Bool := false        -- `results` closed
  stopped : Bool := false       -- `done` closed (`active()` is its negation)
  eof : Bool := false
  next : Option Nat             -- index of the worker this one synchronises with
  sync : Chunk := Chunk.zero    -- `c.sync`: the last chunk taken out of this worker's bucket by a predecessor
  pc : PC := .top
  deriving Repr

inductive Main
  | reading (w : Nat)           -- `for chunk := range worker[w].results`
  | finished (ok : Bool)        -- nil / "index covers … bytes of a … byte file"
  deriving DecidableEq, Repr

structure St where
  workers : List Worker
  main : Main := .reading 0
  index : List Chunk := []
  deriving Repr

/-- `Index.Length()`: the end of the last chunk -/
def indexLength (ix : List Chunk) : Nat :=
  match ix.getLast? with
  | none => 0
  | some c => c.fin

inductive Ev
  | produce (i : Nat)           -- `chunker.Next()`, and the push (or EOF)
  | look (i : Nat)              -- `if c.next != nil` after the push: enter `syncWith` or go to the skip check
  | pop (i : Nat)               -- one receive attempt in `syncWith`'s first loop
  | decide (i : Nat)            -- the comparison after the first loop
  | scan (i : Nat)              -- one receive attempt in the null-chunk loop
  | pushNull (i : Nat)          -- one null chunk put into the own bucket after `Advance`
  | skip (i : Nat)              -- the skip check
  | stop (i : Nat)              -- `c.stop()`
  | close (i : Nat)             -- `close(c.results)`
  | mainPop                     -- the main routine receives one chunk
  | mainNext                    -- the current bucket is closed and drained: stop or move on
  deriving Repr

def setW (s : St) (i : Nat) (f : Worker → Worker) : St := { s with workers := s.workers.modify i f }

/-- receive from worker j's bucket without blocking: `some (some c)` a chunk, `some none` closed and
    drained, `none` nothing there yet -/
def tryRecv (w : Worker) : Option (Option Chunk) :=
  match w.bucket with
  | c :: _ => some (some c)
  | [] => if w.closed then some none else none

def step (e : Env) (s : St) : Ev → Option St
  | .produce i =>
    match s.workers[i]? with
    | some w =>
      if w.pc = .top then
        if w.pos ≥ e.size then
          -- `len(b) == 0`: end of the stream
          some (setW s i fun w => { w with eof := true, pc := .stopping })
        else
          let c : Chunk := ⟨w.pos, e.cut w.pos⟩
          some (setW s i fun w => { w with pos := w.pos + c.size, bucket := w.bucket ++ [c], pc := .pushed c })
      else none
    | none => none
  | .look i =>
    match s.workers[i]? with
    | some w =>
      match w.pc with
      | .pushed c =>
        match w.next with
        | some _ => some (setW s i fun w => { w with pc := .popping c none })
        | none => some (setW s i fun w => { w with pc := .skipCheck })
      | _ => none
    | none => none
  | .pop i =>
    match s.workers[i]? with
    | some w =>
      match w.pc, w.next with
      | .popping c prev, some j =>
        match s.workers[j]? with
        | some wj =>
          if Gen.parLoopCond c.start wj.sync.start then
            match tryRecv wj with
            | some (some x) =>
              -- prev = c.sync; c.sync = <-c.results
              some (setW (setW s j fun wj => { wj with bucket := wj.bucket.tail, sync := x }) i
                fun w => { w with pc := .popping c (some wj.sync) })
            | some none =>
              -- closed and drained: `c.sync` becomes the zero value, `return false, 0`
              some (setW (setW s j fun wj => { wj with sync := Chunk.zero }) i fun w => { w with pc := .skipCheck })
            | none =>
              -- nothing in the bucket: `return false, 0`
              some (setW s i fun w => { w with pc := .skipCheck })
          else some (setW s i fun w => { w with pc := .decide c prev })
        | none => none
      | _, _ => none
    | none => none
  | .decide i =>
    match s.workers[i]? with
    | some w =>
      match w.pc, w.next with
      | .decide c prev, some j =>
        match s.workers[j]? with
        | some wj =>
          if Gen.parMatchCond c.start c.size wj.sync.start wj.sync.size then
            -- in sync: this worker stops, the next one continues
            some (setW s i fun w => { w with pc := .stopping })
          else
            match prev with
            | some p =>
              if Gen.parNullCond (e.isNull wj.sync) (e.isNull p) then
                some (setW s i fun w => { w with pc := .nullScan c (Gen.parNInit p.start p.size c.start) })
              else some (setW s i fun w => { w with pc := .skipCheck })
            | none => some (setW s i fun w => { w with pc := .skipCheck })
        | none => none
      | _, _ => none
    | none => none
  | .scan i =>
    match s.workers[i]? with
    | some w =>
      match w.pc, w.next with
      | .nullScan c n, some j =>
        match s.workers[j]? with
        | some wj =>
          -- what happens with the count once the loop ends: `numNullChunks := zeroes / max`
          let finish (s : St) (n : Nat) : St :=
            let k := Gen.parNumNull n e.max
            if k > 0 then
              setW s i fun w => { w with pos := w.pos + k * e.max, pc := .advance c k }
            else setW s i fun w => { w with pc := .skipCheck }
          match tryRecv wj with
          | some (some x) =>
            let s' := setW s j fun wj => { wj with bucket := wj.bucket.tail, sync := x }
            if e.isNull x then some (setW s' i fun w => { w with pc := .nullScan c (n + Gen.parNStep e.max) })
            else some (finish s' n)
          | some none => some (finish (setW s j fun wj => { wj with sync := Chunk.zero }) n)
          | none => some (finish s n)
        | none => none
      | _, _ => none
    | none => none
  | .pushNull i =>
    match s.workers[i]? with
    | some w =>
      match w.pc with
      | .advance last k =>
        let nc : Chunk := ⟨last.fin, e.max⟩
        if k = 0 then none
        else if k = 1 then some (setW s i fun w => { w with bucket := w.bucket ++ [nc], pc := .skipCheck })
        else some (setW s i fun w => { w with bucket := w.bucket ++ [nc], pc := .advance nc (k - 1) })
      | _ => none
    | none => none
  | .skip i =>
    match s.workers[i]? with
    | some w =>
      if w.pc = .skipCheck then
        match w.next with
        | some j =>
          match s.workers[j]? with
          | some wj =>
            if Gen.parSkipCond true (!wj.stopped) wj.bucket.length then some (setW s i fun w => { w with next := wj.next, pc := .top })
            else some (setW s i fun w => { w with pc := .top })
          | none => none
        | none => some (setW s i fun w => { w with pc := .top })
      else none
    | none => none
  | .stop i =>
    match s.workers[i]? with
    | some w => if w.pc = .stopping then some (setW s i fun w => { w with stopped := true, pc := .closing }) else none
    | none => none
  | .close i =>
    match s.workers[i]? with
    | some w => if w.pc = .closing then some (setW s i fun w => { w with closed := true, pc := .done }) else none
    | none => none
  | .mainPop =>
    match s.main with
    | .reading m =>
      match s.workers[m]? with
      | some w =>
        match w.bucket with
        | c :: rest => some { setW s m (fun w => { w with bucket := rest }) with index := s.index ++ [c] }
        | [] => none
      | none => none
    | _ => none
  | .mainNext =>
    match s.main with
    | .reading m =>
      match s.workers[m]? with
      | some w =>
        if w.bucket = [] ∧ w.closed then
          if Gen.parStopCond (indexLength s.index) e.size then
            some { s with main := .finished (!Gen.parFinalErrCond (indexLength s.index) e.size) }
          else if m + 1 < s.workers.length then some { s with main := .reading (m + 1) }
          else some { s with main := .finished (!Gen.parFinalErrCond (indexLength s.index) e.size) }
        else none
      | none => none
    | _ => none

inductive Reachable (e : Env) (s0 : St) : St → Prop
  | refl : Reachable e s0 s0
  | step {s s' : St} (ev : Ev) : Reachable e s0 s → step e s ev = some s' → Reachable e s0 s'

/-- the order of operations of `pChunker.start` this machine implements: the two deferred calls
    (run in reverse order on return: `stop`, then `close`), `Next`, the EOF test, `syncWith` on the
    next worker, stop when in sync, `Advance` for null chunks (the skip check follows) -/
def modelledStartShape : List String :=
  ["close", "stop", "Next", "if:len(b)==0", "if:c.next!=nil", "syncWith", "if:inSync", "if:numNullChunks>0", "Advance"]

/-- the workers as `IndexFromFile` creates and links them -/
def init (e : Env) : St :=
  let n := e.offsets.length
  { workers := e.offsets.zipIdx.map fun (o, i) => { pos := o, next := if i + 1 < n then some (i + 1) else none } }

/-- the number of workers and their start offsets as `IndexFromFile` computes them for a file of
    `size` bytes when `n` workers are requested (`nn := size/max + 1; if nn < n { n = nn }`,
    `span := size / n`, `start := span * i`) -/
def offsetsOf (size max n : Nat) : List Nat :=
  let nn := Gen.parNN size max
  let n := if Gen.parNNCond nn n then nn else n
  let span := Gen.parSpan size n
  (List.range n).map fun i => Gen.parStart span i

/-- the single-stream chunk sequence from a position on -/
def seqFrom (e : Env) : Nat → Nat → List Chunk
  | 0, _ => []
  | fuel + 1, pos => if pos ≥ e.size then [] else ⟨pos, e.cut pos⟩ :: seqFrom e fuel (pos + e.cut pos)

/-- the single-stream result for the whole file -/
def seqAll (e : Env) : List Chunk := seqFrom e (e.size + 1) 0

end Desync.Par
