/-
  `ChunkStream` (index.go) as a step machine: the feeder takes chunks from the chunker one after the
  other (`c.Next()`), numbers them and hands them to N workers over an unbuffered channel; a worker
  builds the chunk object, records the index row under the job's number in the shared `results` map
  (`recordResult`, under a mutex) and then stores the chunk; after `g.Wait()` the index is put
  together as `chunks[i] = results[i]` for `i < len(results)`.

  What the machine keeps abstract: the chunker (its output is the parameter `jobs`: start offset and
  bytes of every chunk, in order; a read error is the event `feedErr`), the digest `H`, and the
  store (every `StoreChunk` outcome is chosen by the environment).  The order of operations in the
  worker, the fields of the index row and the final loop are regenerated from index.go
  (`Gen.chunkStream*`, obligation `C02.gen_chunkstream_shape`).
-/
import Desync.Basic.Bytes

namespace Desync.CStream

/-- one row of the index being built -/
structure Row where
  start : Nat
  size : Nat
  id : Bytes
  deriving DecidableEq, Repr

/-- `IndexChunk{Start: c.start, Size: uint64(len(c.b)), ID: chunk.ID()}` with `chunk := NewChunk(c.b)` -/
def rowOf (H : Bytes → Bytes) (job : Nat × Bytes) : Row := ⟨job.1, job.2.length, H job.2⟩

inductive W
  | idle
  | got (j : Nat)        -- received job j from the channel, row not yet recorded
  | storing (j : Nat)    -- `recordResult` done, `s.StoreChunk(chunk)` in flight
  | exited
  deriving DecidableEq, Repr

inductive Res
  | ok (rows : List Row)
  | err
  | interrupted
  deriving DecidableEq, Repr

structure St where
  jobs : List (Nat × Bytes)          -- what `c.Next()` yields: (start, bytes), in order
  next : Nat := 0                    -- `num`
  feederClosed : Bool := false       -- `close(in)` executed
  broke : Bool := false              -- `interrupted = true`
  workers : List W
  results : List (Nat × Row) := []   -- the map `results` (one entry per key: `insert` replaces)
  stored : List Nat := []            -- jobs whose `s.StoreChunk(chunk)` returned nil
  groupErr : Bool := false
  parentCancelled : Bool := false
  result : Option Res := none
  deriving Repr

def St.init (jobs : List (Nat × Bytes)) (n : Nat) : St :=
  { jobs, workers := List.replicate n .idle }

/-- `results[num] = r` -/
def insert (m : List (Nat × Row)) (k : Nat) (r : Row) : List (Nat × Row) :=
  (k, r) :: m.filter (·.1 ≠ k)

def lookup (m : List (Nat × Row)) (k : Nat) : Option Row := (m.find? (·.1 == k)).map (·.2)

/-- the final loop: `chunks := make([]IndexChunk, len(results)); for i := 0; i < len(results); i++ { chunks[i] = results[i] }`
    (a key that is absent yields Go's zero value) -/
def assemble (m : List (Nat × Row)) : List Row :=
  (List.range m.length).map fun i => (lookup m i).getD ⟨0, 0, []⟩

inductive Ev
  | parentCancel
  | feedSend (w : Nat)     -- rendezvous on the unbuffered channel with idle worker w
  | feedBreak              -- the `ctx.Done()` arm of the select
  | feedEnd                -- `c.Next()` returned an empty chunk: end of input
  | feedErr                -- `c.Next()` failed: `return Index{}, err` at once
  | record (w : Nat)       -- `recordResult(c.num, idxChunk)`
  | storeOk (w : Nat)
  | storeFail (w : Nat)
  | workExit (w : Nat)     -- `range in` ends
  | wait                   -- `waitOrInterrupted` returned; the index is assembled
  deriving Repr

def step (H : Bytes → Bytes) (s : St) : Ev → Option St
  | .parentCancel => if s.result.isNone then some { s with parentCancelled := true } else none
  | .feedSend w =>
    if s.result.isNone ∧ !s.feederClosed ∧ s.next < s.jobs.length ∧ s.workers[w]? = some .idle then
      some { s with workers := s.workers.set w (.got s.next), next := s.next + 1 }
    else none
  | .feedBreak =>
    if s.result.isNone ∧ !s.feederClosed ∧ s.next < s.jobs.length ∧ (s.parentCancelled ∨ s.groupErr) then
      some { s with feederClosed := true, broke := true }
    else none
  | .feedEnd =>
    if s.result.isNone ∧ !s.feederClosed ∧ s.next = s.jobs.length then some { s with feederClosed := true } else none
  | .feedErr =>
    if s.result.isNone ∧ !s.feederClosed then some { s with result := some .err } else none
  | .record w =>
    match s.workers[w]? with
    | some (.got j) =>
      match s.jobs[j]? with
      | some job => some { s with workers := s.workers.set w (.storing j), results := insert s.results j (rowOf H job) }
      | none => none
    | _ => none
  | .storeOk w =>
    match s.workers[w]? with
    | some (.storing j) => some { s with workers := s.workers.set w .idle, stored := j :: s.stored }
    | _ => none
  | .storeFail w =>
    match s.workers[w]? with
    | some (.storing _) => some { s with workers := s.workers.set w .exited, groupErr := true }
    | _ => none
  | .workExit w =>
    if s.feederClosed ∧ s.workers[w]? = some .idle then some { s with workers := s.workers.set w .exited } else none
  | .wait =>
    if s.feederClosed ∧ s.result.isNone ∧ s.workers.all (· == .exited) then
      some { s with result := some (if s.groupErr then .err else if s.broke then .interrupted
                                    else .ok (assemble s.results)) }
    else none

inductive Reachable (H : Bytes → Bytes) (s0 : St) : St → Prop
  | refl : Reachable H s0 s0
  | step {s s' : St} (e : Ev) : Reachable H s0 s → step H s e = some s' → Reachable H s0 s'

def run (H : Bytes → Bytes) (s : St) : List Ev → St
  | [] => s
  | e :: es => run H ((step H s e).getD s) es

/-- the rows of the single-stream result -/
def expected (H : Bytes → Bytes) (jobs : List (Nat × Bytes)) : List Row := jobs.map (rowOf H)

end Desync.CStream
