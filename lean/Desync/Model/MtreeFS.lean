/-
  Model of mtreefs.go: `NewMtreeFS`, the four `Create*` methods of `MtreeFS` and `mtreeFilename`, byte for byte, and an
  INDEPENDENT reader of mtree(5) lines (`parseLine`) that shares nothing with the writer but the byte constants of the
  keywords.  Core-only.

  The writer.  Every method builds a list of words and prints `strings.Join(attr, " ")` with `fmt.Fprintln`, i.e. ONE
  `Write` call of the line plus "\n" whose result is DISCARDED; the method then returns nil.  The verbs:
    `%04o` of `tarMode(n.Mode)` (an int64 in 0..07777: `Model/TarFS.lean`'s `tarMode`, reused) = octal, zero padded to 4;
    `%d` of `n.UID`/`n.GID` (Go `int`, signed), `n.Size` (uint64), `n.MTime.Unix()` (int64, signed);
    `%09d` of `n.MTime.Nanosecond()` (0..999999999);  `%x` of a byte slice = two lower-case hex digits per byte;
    `\%03o` of a byte inside `mtreeFilename`.
  `mtreeFilename` escapes a byte c iff `c == '\\' || c == '#' || c < 32 || c > 126` — NOT the space (32), which is
  the field separator of the format: see `Properties/C05Mtree.lean` for what follows from that.
  `CreateFile` reads the whole of `n.Data` through the process digest (`Digest.Algorithm()`: SHA512/256 or SHA256, anything
  else is an error); a read error is returned and nothing is printed.  Device numbers and extended attributes are not printed
  by any method.

  The sink.  An `io.Writer` that accepts bytes until its room is used up (a full disk, `RLIMIT_FSIZE`, a closed pipe) and
  then reports an error with a short count: `Sink`.  Run-time outcomes are explicit: `Ret`.

  The reader follows mtree(5): words are separated by blanks (space, tab; the final newline), a line whose first word
  starts with `#` is a comment, the first word of an entry is the path, every other word is `keyword=value` (split at the
  FIRST `=`), `\ooo` (three octal digits) stands for a byte in the path and in a link target, anything else after a
  backslash is refused; `mode` is octal, `uid`/`gid`/`size` decimal, `time` is seconds, a period and EXACTLY nine
  digits of nanoseconds, a digest is an even number of lower-case hex digits.  When a keyword occurs twice the first
  occurrence counts.
-/
import Desync.Model.TarFS

namespace Desync.MtreeFS
open Desync

/-! ## the literals of mtreefs.go as bytes -/

def kType : Bytes := [116,121,112,101]   -- "type"
def vDir : Bytes := [100,105,114]   -- "dir"
def vFile : Bytes := [102,105,108,101]   -- "file"
def vLink : Bytes := [108,105,110,107]   -- "link"
def vChar : Bytes := [99,104,97,114]   -- "char"
def vBlock : Bytes := [98,108,111,99,107]   -- "block"
def kMode : Bytes := [109,111,100,101]   -- "mode"
def kUid : Bytes := [117,105,100]   -- "uid"
def kGid : Bytes := [103,105,100]   -- "gid"
def kSize : Bytes := [115,105,122,101]   -- "size"
def kTime : Bytes := [116,105,109,101]   -- "time"
def kTarget : Bytes := [116,97,114,103,101,116]   -- "target"
def kSha512256 : Bytes := [115,104,97,53,49,50,50,53,54,100,105,103,101,115,116]   -- "sha512256digest"
def kSha256 : Bytes := [115,104,97,50,53,54,100,105,103,101,115,116]   -- "sha256digest"
def header : Bytes := [35,109,116,114,101,101,32,118,49,46,48]   -- "#mtree v1.0"

/-! ## fmt verbs -/

/-- digits of `n` in base `b`, most significant first (`fuel ≥ n` is always enough) -/
def digitsF (b : Nat) : Nat → Nat → List Nat
  | 0, n => [n]
  | f + 1, n => if n < b then [n] else digitsF b f (n / b) ++ [n % b]

def digits (b n : Nat) : List Nat := digitsF b n n

/-- `0`..`9`, `a`..`f` -/
def digitByte (d : Nat) : UInt8 := if d < 10 then UInt8.ofNat (48 + d) else UInt8.ofNat (87 + d)

/-- `%d` / `%o` / `%x` of a non-negative number -/
def fmtNat (b n : Nat) : Bytes := (digits b n).map digitByte

/-- the `0` flag with a width -/
def pad0 (w : Nat) (s : Bytes) : Bytes := List.replicate (w - s.length) 48 ++ s

/-- `%d` of a signed integer -/
def fmtD (i : Int) : Bytes := if i < 0 then 45 :: fmtNat 10 i.natAbs else fmtNat 10 i.toNat

/-- `%04o` of `tarMode(m)` -/
def fmtMode (m : UInt32) : Bytes := pad0 4 (fmtNat 8 (TarFS.tarMode m).toNat)

/-- `%d.%09d` of `Unix()`, `Nanosecond()` -/
def fmtTime (sec : Int) (nsec : Nat) : Bytes := fmtD sec ++ 46 :: pad0 9 (fmtNat 10 nsec)

/-- `%x` of a byte slice -/
def fmtHex : Bytes → Bytes
  | [] => []
  | c :: cs => digitByte (c.toNat / 16) :: digitByte (c.toNat % 16) :: fmtHex cs

/-! ## `mtreeFilename` -/

/-- the `case` of the switch in `mtreeFilename` -/
def isEscaped (c : UInt8) : Bool := c == 92 || c == 35 || c < 32 || c > 126

/-- `fmt.Sprintf("\\%03o", c)` or the byte itself -/
def escByte (c : UInt8) : Bytes := if isEscaped c then 92 :: pad0 3 (fmtNat 8 c.toNat) else [c]

def mtreeFilename : Bytes → Bytes
  | [] => []
  | c :: cs => escByte c ++ mtreeFilename cs

/-! ## nodes and lines -/

/-- the fields of `NodeDirectory` / `NodeFile` / `NodeSymlink` / `NodeDevice` the methods look at, and the ones they
    leave out (`major`, `minor`; the xattrs are not carried) -/
structure MNode where
  name : Bytes
  uid : Int := 0          -- Go `int`
  gid : Int := 0
  mode : UInt32 := 0      -- `os.FileMode`
  sec : Int := 0          -- `MTime.Unix()`
  nsec : Nat := 0         -- `MTime.Nanosecond()`, < 10^9
  size : Nat := 0         -- `NodeFile.Size` (uint64)
  target : Bytes := []    -- `NodeSymlink.Target`
  major : Nat := 0        -- `NodeDevice.Major` / `.Minor`: not printed
  minor : Nat := 0
  deriving DecidableEq, Repr, Inhabited

/-- `Digest.Algorithm()` -/
inductive Alg | sha512_256 | sha256 | other
  deriving DecidableEq, Repr, Inhabited

/-- `k=v` -/
def kv (k v : Bytes) : Bytes := k ++ 61 :: v

/-- `strings.Join(attr, " ")` -/
def joinSp : List Bytes → Bytes
  | [] => []
  | [w] => w
  | w :: ws => w ++ 32 :: joinSp ws

def wordsDir (n : MNode) : List Bytes :=
  [mtreeFilename n.name, kv kType vDir, kv kMode (fmtMode n.mode), kv kUid (fmtD n.uid), kv kGid (fmtD n.gid),
   kv kTime (fmtTime n.sec n.nsec)]

/-- `digestWord`: the last word of a file line; `none` for an algorithm `CreateFile` refuses -/
def digestWord (alg : Alg) (dg : Bytes) : Option Bytes :=
  match alg with
  | .sha512_256 => some (kv kSha512256 (fmtHex dg))
  | .sha256 => some (kv kSha256 (fmtHex dg))
  | .other => none

def wordsFile (n : MNode) (dw : Bytes) : List Bytes :=
  [mtreeFilename n.name, kv kType vFile, kv kMode (fmtMode n.mode), kv kUid (fmtD n.uid), kv kGid (fmtD n.gid),
   kv kSize (fmtNat 10 n.size), kv kTime (fmtTime n.sec n.nsec), dw]

def wordsSymlink (n : MNode) : List Bytes :=
  [mtreeFilename n.name, kv kType vLink, kv kMode (fmtMode n.mode), kv kTarget (mtreeFilename n.target),
   kv kUid (fmtD n.uid), kv kGid (fmtD n.gid), kv kTime (fmtTime n.sec n.nsec)]

/-- `n.Mode&os.ModeCharDevice != 0` -/
def isChar (m : UInt32) : Bool := m &&& Mode.ModeCharDevice != 0

def wordsDevice (n : MNode) : List Bytes :=
  [mtreeFilename n.name, kv kType (if isChar n.mode then vChar else vBlock), kv kMode (fmtMode n.mode),
   kv kUid (fmtD n.uid), kv kGid (fmtD n.gid), kv kTime (fmtTime n.sec n.nsec)]

/-- one call of the `FilesystemWriter`; for a file: the algorithm of the process and what reading `n.Data` to its end
    gave (`none`: the reader failed) -/
inductive Op
  | dir (n : MNode)
  | file (n : MNode) (alg : Alg) (data : Option Bytes)
  | symlink (n : MNode)
  | device (n : MNode)
  deriving Repr, Inhabited

inductive Ret | ok | writeErr | readErr | unsupported
  deriving DecidableEq, Repr, Inhabited

/-- the two digests (`Desync/Hash/Sha2.lean` in the driver; parameters in the theorems) -/
structure Hashes where
  h512 : Bytes → Bytes
  h256 : Bytes → Bytes

def Hashes.sum (H : Hashes) : Alg → Bytes → Bytes
  | .sha512_256, b => H.h512 b
  | .sha256, b => H.h256 b
  | .other, _ => []

/-- the line a call prints (without the newline), or why it prints none -/
def lineOf (H : Hashes) : Op → Except Ret Bytes
  | .dir n => .ok (joinSp (wordsDir n))
  | .symlink n => .ok (joinSp (wordsSymlink n))
  | .device n => .ok (joinSp (wordsDevice n))
  | .file n alg data =>
    match alg, data with
    | .other, _ => .error .unsupported
    | _, none => .error .readErr
    | alg, some d =>
      match digestWord alg (H.sum alg d) with
      | some dw => .ok (joinSp (wordsFile n dw))
      | none => .error .unsupported

/-! ## the sink -/

/-- an `io.Writer` with `room` bytes left (`none`: unlimited) -/
structure Sink where
  out : Bytes := []
  room : Option Nat := none
  deriving DecidableEq, Repr, Inhabited

/-- one `Write`: all of `b`, or what still fits and an error -/
def Sink.write (s : Sink) (b : Bytes) : Sink × Bool :=
  match s.room with
  | none => ({ s with out := s.out ++ b }, false)
  | some r =>
    if b.length ≤ r then ({ out := s.out ++ b, room := some (r - b.length) }, false)
    else ({ out := s.out ++ b.take r, room := some 0 }, true)

/-- `fmt.Fprintln(w, line)`: one `Write` of the line and "\n" -/
def Sink.println (s : Sink) (line : Bytes) : Sink × Bool := s.write (line ++ [10])

/-- `NewMtreeFS`: the only place where the result of `Fprintln` is looked at -/
def newMtreeFS (s : Sink) : Sink × Ret :=
  let (s', e) := s.println header
  (s', if e then .writeErr else .ok)

/-- `CreateDir` / `CreateFile` / `CreateSymlink` / `CreateDevice`: `fmt.Fprintln(fs.w, …); return nil` -/
def create (H : Hashes) (s : Sink) (op : Op) : Sink × Ret :=
  match lineOf H op with
  | .ok l => ((s.println l).1, .ok)
  | .error r => (s, r)

/-- what `UnTar` does with the nodes of an archive: stop at the first error -/
def createAll (H : Hashes) : Sink → List Op → Sink × Ret
  | s, [] => (s, .ok)
  | s, op :: ops =>
    match create H s op with
    | (s', .ok) => createAll H s' ops
    | (s', r) => (s', r)

/-- `NewMtreeFS` followed by the `Create*` calls (cmd/desync/mtree.go: `NewMtreeFS(os.Stdout)`, then `UnTar`) -/
def run (H : Hashes) (s : Sink) (ops : List Op) : Sink × Ret :=
  match newMtreeFS s with
  | (s', .ok) => createAll H s' ops
  | (s', r) => (s', r)

/-- the text a sink without limit ends up with when every call prints -/
def ideal (H : Hashes) : List Op → Bytes
  | [] => []
  | op :: ops =>
    match lineOf H op with
    | .ok l => l ++ 10 :: ideal H ops
    | .error _ => []

/-! ## an independent reader of mtree(5) lines -/

def isBlank (c : UInt8) : Bool := c == 32 || c == 9 || c == 10

/-- split at every blank (empty pieces included) -/
def splitBlank : Bytes → List Bytes
  | [] => [[]]
  | c :: cs =>
    if isBlank c then [] :: splitBlank cs
    else match splitBlank cs with
      | [] => [[c]]
      | w :: ws => (c :: w) :: ws

/-- the words of a line -/
def words (l : Bytes) : List Bytes := (splitBlank l).filter (fun w => !w.isEmpty)

/-- split at the first `=`; a word without one is a keyword with an empty value -/
def splitEq : Bytes → Bytes × Bytes
  | [] => ([], [])
  | c :: cs => if c = 61 then ([], cs) else let (k, v) := splitEq cs; (c :: k, v)

def octVal (c : UInt8) : Option Nat := if 48 ≤ c.toNat ∧ c.toNat ≤ 55 then some (c.toNat - 48) else none

/-- `\ooo` → byte; a backslash followed by anything else is refused -/
def unescape : Bytes → Option Bytes
  | [] => some []
  | c :: rest =>
    if c = 92 then
      match rest with
      | a :: b :: d :: rest' =>
        match octVal a, octVal b, octVal d, unescape rest' with
        | some x, some y, some z, some r =>
          if x * 64 + y * 8 + z < 256 then some (UInt8.ofNat (x * 64 + y * 8 + z) :: r) else none
        | _, _, _, _ => none
      | _ => none
    else
      match unescape rest with
      | some r => some (c :: r)
      | none => none

def digitVal (b : Nat) (c : UInt8) : Option Nat :=
  if 48 ≤ c.toNat ∧ c.toNat ≤ 57 then (if c.toNat - 48 < b then some (c.toNat - 48) else none)
  else if 97 ≤ c.toNat ∧ c.toNat ≤ 102 ∧ b = 16 then some (c.toNat - 87)
  else none

def parseNatAux (b : Nat) : Nat → Bytes → Option Nat
  | a, [] => some a
  | a, c :: cs =>
    match digitVal b c with
    | some d => parseNatAux b (a * b + d) cs
    | none => none

/-- a non-empty string of digits in base `b` -/
def parseNat (b : Nat) (s : Bytes) : Option Nat := if s.isEmpty then none else parseNatAux b 0 s

def parseInt : Bytes → Option Int
  | 45 :: s => (parseNat 10 s).map fun n => - (n : Int)
  | s => (parseNat 10 s).map fun n => (n : Int)

/-- split at the first period -/
def splitDot : Bytes → Option (Bytes × Bytes)
  | [] => none
  | c :: cs => if c = 46 then some ([], cs) else (splitDot cs).map fun (a, b) => (c :: a, b)

/-- `seconds.nnnnnnnnn` -/
def parseTime (s : Bytes) : Option (Int × Nat) :=
  match splitDot s with
  | none => none
  | some (a, b) =>
    if b.length = 9 then
      match parseInt a, parseNat 10 b with
      | some sec, some ns => some (sec, ns)
      | _, _ => none
    else none

def parseHex : Bytes → Option Bytes
  | [] => some []
  | [_] => none
  | a :: b :: rest =>
    match digitVal 16 a, digitVal 16 b, parseHex rest with
    | some x, some y, some r => some (UInt8.ofNat (x * 16 + y) :: r)
    | _, _, _ => none

inductive MType | dir | file | link | char | block
  deriving DecidableEq, Repr, Inhabited

def parseType (v : Bytes) : Option MType :=
  if v = vDir then some .dir else if v = vFile then some .file else if v = vLink then some .link
  else if v = vChar then some .char else if v = vBlock then some .block else none

inductive Kw | type | mode | uid | gid | size | time | target | sha512256 | sha256
  deriving DecidableEq, Repr, Inhabited

def kwOf (k : Bytes) : Option Kw :=
  if k = kType then some .type else if k = kMode then some .mode else if k = kUid then some .uid
  else if k = kGid then some .gid else if k = kSize then some .size else if k = kTime then some .time
  else if k = kTarget then some .target else if k = kSha512256 then some .sha512256
  else if k = kSha256 then some .sha256 else none

/-- the known keywords of a line, in order; unknown ones are passed over -/
def keyed : List Bytes → List (Kw × Bytes)
  | [] => []
  | w :: ws =>
    match kwOf (splitEq w).1 with
    | some k => (k, (splitEq w).2) :: keyed ws
    | none => keyed ws

def find (k : Kw) : List (Kw × Bytes) → Option Bytes
  | [] => none
  | (k', v) :: r => if k = k' then some v else find k r

/-- what a line says about a node -/
structure Fields where
  path : Bytes
  type : MType
  mode : Nat
  uid : Int
  gid : Int
  sec : Int
  nsec : Nat
  size : Option Nat := none
  link : Option Bytes := none
  digest : Option (Alg × Bytes) := none
  deriving DecidableEq, Repr, Inhabited

inductive Parsed
  | blank
  | comment
  | entry (f : Fields)
  | bad
  deriving DecidableEq, Repr, Inhabited

/-- an optional keyword: absent, or present and well formed -/
def optField {α : Type} (v : Option Bytes) (p : Bytes → Option α) : Option (Option α) :=
  match v with
  | none => some none
  | some x => (p x).map some

def digestOf (ks : List (Kw × Bytes)) : Option (Option (Alg × Bytes)) :=
  match find .sha512256 ks, find .sha256 ks with
  | some x, _ => (parseHex x).map fun d => some (.sha512_256, d)
  | none, some x => (parseHex x).map fun d => some (.sha256, d)
  | none, none => some none

def entryOf (pathWord : Bytes) (ks : List (Kw × Bytes)) : Option Fields := do
  let path ← unescape pathWord
  let type ← (find .type ks).bind parseType
  let mode ← (find .mode ks).bind (parseNat 8)
  let uid ← (find .uid ks).bind parseInt
  let gid ← (find .gid ks).bind parseInt
  let t ← (find .time ks).bind parseTime
  let size ← optField (find .size ks) (parseNat 10)
  let link ← optField (find .target ks) unescape
  let digest ← digestOf ks
  pure { path, type, mode, uid, gid, sec := t.1, nsec := t.2, size, link, digest }

def parseLine (l : Bytes) : Parsed :=
  match words l with
  | [] => .blank
  | w :: ws =>
    if w.head? = some 35 then .comment
    else match entryOf w (keyed ws) with
      | some f => .entry f
      | none => .bad

/-- a text, line by line -/
def splitLines : Bytes → List Bytes
  | [] => [[]]
  | c :: cs =>
    if c = 10 then [] :: splitLines cs
    else match splitLines cs with
      | [] => [[c]]
      | w :: ws => (c :: w) :: ws

/-! ## what a line is expected to say -/

def typeOf : Op → MType
  | .dir _ => .dir
  | .file .. => .file
  | .symlink _ => .link
  | .device n => if isChar n.mode then .char else .block

def nodeOf : Op → MNode
  | .dir n => n | .file n _ _ => n | .symlink n => n | .device n => n

/-- the fields of a node that its line is meant to carry -/
def fieldsOf (H : Hashes) (op : Op) : Fields :=
  let n := nodeOf op
  { path := n.name, type := typeOf op, mode := (TarFS.tarMode n.mode).toNat, uid := n.uid, gid := n.gid,
    sec := n.sec, nsec := n.nsec,
    size := match op with | .file n _ _ => some n.size | _ => none,
    link := match op with | .symlink n => some n.target | _ => none,
    digest := match op with
      | .file _ alg (some d) => some (alg, H.sum alg d)
      | _ => none }

end Desync.MtreeFS
