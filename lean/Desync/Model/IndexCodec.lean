/-
  Model of index.go: `Index.WriteTo` and `IndexFromReader`.
-/
import Desync.Model.Format

namespace Desync

structure IndexChunk where
  id : Bytes
  start : UInt64
  size : UInt64
  deriving DecidableEq, Repr, Inhabited

structure Index where
  flags : UInt64
  min : UInt64
  avg : UInt64
  max : UInt64
  chunks : List IndexChunk
  deriving DecidableEq, Repr, Inhabited

inductive DigestAlg | sha512_256 | sha256
  deriving DecidableEq, Repr, Inhabited

/-- `offset += c.Size` over the chunk list (wrapping `uint64`) -/
def tableItemsFrom (off : UInt64) : List IndexChunk → List TableItem
  | [] => []
  | c :: cs => ⟨off + c.size, c.id⟩ :: tableItemsFrom (off + c.size) cs

/-- `Index.WriteTo` -/
def encodeIndex (i : Index) : Bytes :=
  encElem (.index 48 i.flags i.min i.avg i.max) ++
  encElem (.table 0xFFFFFFFFFFFFFFFF (tableItemsFrom 0 i.chunks))

/-- the conversion loop of `IndexFromReader` -/
def chunksFromTable (max : UInt64) : UInt64 → List TableItem → Res (List IndexChunk)
  | _, [] => .ok []
  | last, r :: rs =>
    if r.offset < last then .err .offsets
    else if r.offset - last > max then .err .chunkSize
    else do
      let cs ← chunksFromTable max r.offset rs
      pure (⟨r.id, last, r.offset - last⟩ :: cs)

/-- `IndexFromReader` on a decoder state; returns the state after the table so that
    statements about consumed input can be made -/
def decodeIndexSt (alg : DigestAlg) (s : St) : Res (Index × St) := do
  let (e, s) ← decNext s
  match e with
  | some (.index _ ff mn av mx) =>
    let flagSet := ff &&& Gen.CaFormatSHA512256 ≠ 0
    if (alg = .sha512_256 ∧ ¬ flagSet) ∨ (alg = .sha256 ∧ flagSet) then .err .digest
    else do
      let (e, s) ← decNext s
      match e with
      | some (.table _ items) => do
        let cs ← chunksFromTable mx 0 items
        pure (⟨ff, mn, av, mx, cs⟩, s)
      | _ => .err .noTable
  | _ => .err .notIndex

def decodeIndex (alg : DigestAlg) (b : Bytes) : Res Index := do
  let (i, _) ← decodeIndexSt alg { rest := b }
  pure i

/-- `Index.Length` -/
def Index.length (i : Index) : UInt64 :=
  match i.chunks.getLast? with
  | none => 0
  | some c => c.start + c.size

end Desync
