/-
  Model of `FormatDecoder` with its `advance` field (format.go): `Next` hands out a payload
  *reader*; the caller may read all of it, some of it or nothing, and the following `Next`
  drains what is left through the same `payloadReader` before it reads the next header.

  `Model/Format.lean` has `decNext` for a decoder whose previous payload is gone already and
  `Model/Archive.lean` lets the archive decoder's consumer read every payload completely.  This
  file adds what lies between the two: callers that do not read payloads to their end (listing
  an archive, a `FilesystemWriter` that skips file contents) on streams that end early.
-/
import Desync.Model.Format

namespace Desync

/-- `FormatDecoder`: the stream and `adv`, the number of bytes of the last payload the caller
    has not read yet (`d.advance`, a `payloadReader` with `n = adv`; `adv = 0` also stands for
    `d.advance == nil`: draining a reader with nothing left reads nothing) -/
structure FDec where
  st : St
  adv : Nat := 0
  deriving Repr

/-- the caller reads `k` bytes (or as many as the payload still has) from the reader handed out
    by the last `Next`: `payloadReader.Read` in a loop (`io.ReadFull`, `io.CopyN`, `io.ReadAll`).
    A stream that ends before the requested part of the payload does is `io.ErrUnexpectedEOF`. -/
def FDec.readPayload (d : FDec) (k : Nat) : Res (Bytes × FDec) :=
  let want := min k d.adv
  if want ≤ d.st.rest.length then
    .ok (d.st.rest.take want, { st := { d.st with rest := d.st.rest.drop want }, adv := d.adv - want })
  else .err .ueof

/-- number of payload bytes that follow an element in the stream (`size - 16` for a payload
    element, nothing for every other element and for the end of the stream) -/
def payloadLen : Option Elem → Nat
  | some (.payload sz) => sz.toNat - 16
  | _ => 0

def Elem.isPayload : Elem → Bool
  | .payload _ => true
  | _ => false

/-- `FormatDecoder.Next`: drain the rest of the previous payload
    (`io.Copy(ioutil.Discard, d.advance)`; `payloadReader` reports `io.ErrUnexpectedEOF` when the
    stream ends first), then decode one element; a payload element arms `advance` again -/
def FDec.next (d : FDec) : Res (Option Elem × FDec) :=
  if d.adv ≤ d.st.rest.length then
    match decNext { d.st with rest := d.st.rest.drop d.adv } with
    | .ok (e, s') => .ok (e, { st := s', adv := payloadLen e })
    | .err e => .err e
    | .panic p => .panic p
  else .err .ueof

/-- a caller's walk over the whole stream: `Next` until the end; after every payload element the
    caller reads as many bytes as the next entry of `takes` says (none when the list is used up).
    Result: the elements in order, each payload with the bytes the caller read; `none` = the
    fuel ran out (it never does for `fmtWalk`: `fmtWalk_fuel_enough`). -/
def FDec.walk : Nat → FDec → List Nat → List (Elem × Bytes) → Option (Res (List (Elem × Bytes)))
  | 0, _, _, _ => none
  | fuel+1, d, takes, acc =>
    match d.next with
    | .err e => some (.err e)
    | .panic p => some (.panic p)
    | .ok (none, _) => some (.ok acc.reverse)
    | .ok (some e, d) =>
      if e.isPayload then
        match takes with
        | [] => FDec.walk fuel d [] ((e, []) :: acc)
        | k :: takes =>
          match d.readPayload k with
          | .err e => some (.err e)
          | .panic p => some (.panic p)
          | .ok (b, d) => FDec.walk fuel d takes ((e, b) :: acc)
      else FDec.walk fuel d takes ((e, []) :: acc)

/-- every `Next` that returns an element consumes at least its 16-byte header, so `len + 1`
    calls are more than enough for any stream -/
def fmtWalk? (b : Bytes) (takes : List Nat) : Option (Res (List (Elem × Bytes))) :=
  FDec.walk (b.length + 1) { st := { rest := b } } takes []

def fmtWalk (b : Bytes) (takes : List Nat) : Res (List (Elem × Bytes)) :=
  match fmtWalk? b takes with
  | some r => r
  | none => .err .other

end Desync
