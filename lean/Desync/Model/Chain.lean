/-
  Model of the store chains cmd/desync/store.go can build (cache.go, storerouter.go, failover.go):

      [Cache( Router( group₁, …, groupₙ ), cacheLeaf | RepairableCache(cacheLeaf) )]
      groupᵢ = a single store or FailoverGroup(member₁ | … | memberₖ)

  Members are scripted leaves: a content map, a per-leaf call counter and the set of call numbers
  at which the leaf fails.  Sequential semantics (one request at a time); the concurrent behaviour
  of FailoverGroup and SwapStore is in `Model/Failover.lean` / `Model/Swap.lean`.
-/
namespace Desync.Chain

/-- result of a store call -/
inductive R
  | chunk (tag : Nat) (valid : Bool)   -- a chunk object; `tag` identifies the stored object it came from
  | missing                            -- ChunkMissing
  | invalid                            -- ChunkInvalid
  | fail                               -- any other error
  deriving DecidableEq, Repr

structure Obj where
  tag : Nat
  valid : Bool       -- content hashes to the ID
  deriving DecidableEq, Repr

structure Leaf where
  content : List (Nat × Obj)     -- id ↦ stored object
  faults : List Nat              -- call numbers (0-based, counted per leaf) that fail
  verify : Bool := true          -- the leaf verifies chunks it reads (skip-verify = false)
  calls : Nat := 0
  log : List (String × Nat) := []   -- (operation, id), newest first
  deriving Repr

structure World where
  leaves : List Leaf
  active : List Nat              -- `active` index of every group
  deriving Repr

structure Cfg where
  groups : List (List Nat)       -- leaf indices of each group's members, in order
  cache : Option (Nat × Bool)    -- cache leaf and whether it is wrapped in a RepairableCache
  deriving Repr

def updLeaf (w : World) (i : Nat) (f : Leaf → Leaf) : World :=
  { w with leaves := w.leaves.modify i f }

/-- one `GetChunk` on a leaf -/
def leafGet (w : World) (i id : Nat) : R × World :=
  match w.leaves[i]? with
  | none => (.fail, w)
  | some l =>
    let w' := updLeaf w i fun l => { l with calls := l.calls + 1, log := ("get", id) :: l.log }
    if l.faults.contains l.calls then (.fail, w')
    else match l.content.lookup id with
      | none => (.missing, w')
      | some o => if o.valid || !l.verify then (.chunk o.tag o.valid, w') else (.invalid, w')

def leafHas (w : World) (i id : Nat) : Option Bool × World :=
  match w.leaves[i]? with
  | none => (none, w)
  | some l =>
    let w' := updLeaf w i fun l => { l with calls := l.calls + 1, log := ("has", id) :: l.log }
    if l.faults.contains l.calls then (none, w') else (some (l.content.lookup id).isSome, w')

def leafStore (w : World) (i id : Nat) (o : Obj) : Bool × World :=
  match w.leaves[i]? with
  | none => (false, w)
  | some l =>
    if l.faults.contains l.calls then
      (false, updLeaf w i fun l => { l with calls := l.calls + 1, log := ("store", id) :: l.log })
    else
      (true, updLeaf w i fun l =>
        { l with calls := l.calls + 1, log := ("store", id) :: l.log,
                 content := (id, o) :: l.content.filter (fun p => p.1 ≠ id) })

/-- `FailoverGroup.GetChunk` (sequential): up to `len` attempts starting at `active` -/
def groupGet (w : World) (g : Nat) (members : List Nat) (id : Nat) : Nat → R → R × World
  | 0, last => (last, w)
  | n+1, _ =>
    let a := w.active.getD g 0
    let (r, w') := leafGet w (members.getD a 0) id
    match r with
    | .chunk t v => (.chunk t v, w')
    | .missing => (.missing, w')
    | e =>
      -- errorFrom(active): nobody else moved it in the sequential setting
      let w'' := { w' with active := w'.active.set g ((a + 1) % members.length) }
      groupGet w'' g members id n e

def groupHas (w : World) (g : Nat) (members : List Nat) (id : Nat) : Nat → Option Bool × World
  | 0 => (none, w)
  | n+1 =>
    let a := w.active.getD g 0
    let (r, w') := leafHas w (members.getD a 0) id
    match r with
    | some b => (some b, w')
    | none =>
      let w'' := { w' with active := w'.active.set g ((a + 1) % members.length) }
      groupHas w'' g members id n

/-- a group with one member is the store itself (no FailoverGroup is built) -/
def grpGet (w : World) (g : Nat) (members : List Nat) (id : Nat) : R × World :=
  match members with
  | [m] => leafGet w m id
  | _ => groupGet w g members id members.length .fail

/-- `StoreRouter.GetChunk` over the groups from index `g` on -/
def routerGet (w : World) (id : Nat) : Nat → List (List Nat) → R × World
  | _, [] => (.missing, w)
  | g, members :: rest =>
    let (r, w') := grpGet w g members id
    match r with
    | .chunk t v => (.chunk t v, w')
    | .missing => routerGet w' id (g + 1) rest
    | _ => (.fail, w')            -- errors.Wrap(err, …): no longer a ChunkInvalid either

/-- `Cache.GetChunk` / plain router when there is no cache -/
def getChunk (cfg : Cfg) (w : World) (id : Nat) : R × World :=
  match cfg.cache with
  | none => routerGet w id 0 cfg.groups
  | some (c, repairable) =>
    let (r0, w1) := leafGet w c id
    let r := if repairable && r0 = .invalid then R.missing else r0      -- RepairableCache
    match r with
    | .chunk t v => (.chunk t v, w1)
    | .missing =>
      let (ru, w2) := routerGet w1 id 0 cfg.groups
      match ru with
      | .chunk t v =>
        let (ok, w3) := leafStore w2 c id ⟨t, v⟩
        if ok then (.chunk t v, w3) else (.fail, w3)       -- "failed to store in local cache"
      | e => (e, w2)
    | e => (e, w1)

def grpHas (w : World) (g : Nat) (members : List Nat) (id : Nat) : Option Bool × World :=
  match members with
  | [m] => leafHas w m id
  | _ => groupHas w g members id members.length

def routerHas (w : World) (id : Nat) : Nat → List (List Nat) → Option Bool × World
  | _, [] => (some false, w)
  | g, members :: rest =>
    let (r, w') := grpHas w g members id
    match r with
    | none => (none, w')
    | some true => (some true, w')
    | some false => routerHas w' id (g + 1) rest

def hasChunk (cfg : Cfg) (w : World) (id : Nat) : Option Bool × World :=
  match cfg.cache with
  | none => routerHas w id 0 cfg.groups
  | some (c, _) =>
    let (r, w1) := leafHas w c id
    match r with
    | none => (none, w1)
    | some true => (some true, w1)
    | some false => routerHas w1 id 0 cfg.groups

end Desync.Chain
