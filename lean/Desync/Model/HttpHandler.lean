/-
  Model of httphandler.go / httphandlerbase.go / httpindexhandler.go: both `ServeHTTP`
  functions as decision procedures returning the status code and the list of store calls made.
  Store outcomes are parameters (an oracle per call).  Paths are byte strings.
-/
import Desync.Model.Chunk
import Desync.Generated.Facts

namespace Desync

/-- `path.Base`: strip trailing slashes, take the last element; "" ↦ ".", all slashes ↦ "/" -/
def goBase (p : Bytes) : Bytes :=
  if p = [] then [46]
  else
    let q := (p.reverse.dropWhile (· = 47)).reverse       -- strip trailing slashes
    if q = [] then [47]
    else (q.reverse.takeWhile (· ≠ 47)).reverse            -- after the last slash

/-- `strings.TrimSuffix` -/
def trimSuffix (s suf : Bytes) : Bytes :=
  if suf.length ≤ s.length ∧ s.drop (s.length - suf.length) = suf then s.take (s.length - suf.length) else s

def hasSuffix (s suf : Bytes) : Bool :=
  decide (suf.length ≤ s.length ∧ s.drop (s.length - suf.length) = suf)

def hexNibble (c : UInt8) : Option Nat :=
  if 48 ≤ c ∧ c ≤ 57 then some (c.toNat - 48)
  else if 97 ≤ c ∧ c ≤ 102 then some (c.toNat - 87)
  else if 65 ≤ c ∧ c ≤ 70 then some (c.toNat - 55)
  else none

/-- `hex.DecodeString` -/
def hexDecode : Bytes → Option Bytes
  | [] => some []
  | [_] => none
  | a :: b :: rest => do
    let x ← hexNibble a
    let y ← hexNibble b
    let r ← hexDecode rest
    pure (UInt8.ofNat (16 * x + y) :: r)

/-- `ChunkIDFromString` -/
def chunkIDFromString (s : Bytes) : Option Bytes :=
  match hexDecode s with
  | some b => if b.length = 32 then some b else none
  | none => none

/-- file extension of compressed chunks as bytes (`CompressedChunkExt`) -/
def compressedExt : Bytes := Gen.CompressedChunkExtBytes

/-- `HTTPHandler.idFromPath`.  `path.Join("/", sID[0:4], sID+ext)` is modelled as plain
    concatenation: `sID` is the last path element without its extension, so it contains no '/', and
    with `len(sID) ≥ 4` neither element can be "." or ".." — `path.Clean` leaves such a path alone
    (agreement with Go's `path` package is part of the correspondence). -/
def idFromPath (compressed : Bool) (p : Bytes) : Option Bytes :=
  if !compressed && hasSuffix p compressedExt then none
  else
    let ext := if compressed then compressedExt else []
    let sID := trimSuffix (goBase p) ext
    if sID.length < 4 then none
    else if p ≠ [47] ++ sID.take 4 ++ [47] ++ sID ++ ext then none
    else chunkIDFromString sID

inductive Method | get | head | put | other
  deriving DecidableEq, Repr

inductive Call
  | getChunk (id : Bytes)
  | hasChunk (id : Bytes)
  | storeChunk (id : Bytes) (c : ChunkObj)
  | getIndex (name : Bytes)
  | getIndexReader (name : Bytes)
  | storeIndex (name : Bytes)
  deriving Repr

structure HandlerCfg where
  auth : Bytes            -- "" = no authorization configured
  writable : Bool
  skipVerifyWrite : Bool
  compressed : Bool
  storeIsWritable : Bool  -- the upstream store implements WriteStore / IndexWriteStore
  deriving Repr

structure Request where
  method : Method
  path : Bytes
  authHeader : Bytes      -- `r.Header.Get("Authorization")`, "" when absent
  body : Bytes
  deriving Repr

/-- outcomes of the upstream store calls (oracle) -/
structure StoreOracle where
  getChunk : Option (Option Bytes)   -- none = error; some none = missing; some (some b) = bytes to send
  hasChunk : Option Bool             -- none = error
  storeOK : Bool
  indexGet : Option Bool             -- none = other error; some false = does not exist; some true = ok
  indexValid : Bool                  -- body parses as an index (`IndexFromReader`)
  deriving Repr

structure Resp where
  status : Nat
  calls : List Call
  deriving Repr

/-- `HTTPHandler.ServeHTTP` -/
def serveChunk (H : Bytes → Bytes) (dec : Bytes → Option Bytes) (cfg : HandlerCfg) (o : StoreOracle)
    (r : Request) : Resp :=
  if cfg.auth ≠ [] ∧ r.authHeader ≠ cfg.auth then ⟨401, []⟩
  else
    match idFromPath cfg.compressed r.path with
    | none => ⟨400, []⟩
    | some id =>
      match r.method with
      | .get =>
        match o.getChunk with
        | some (some _) => ⟨200, [.getChunk id]⟩
        | some none => ⟨404, [.getChunk id]⟩
        | none => ⟨500, [.getChunk id]⟩
      | .head =>
        match o.hasChunk with
        | none => ⟨500, [.hasChunk id]⟩
        | some true => ⟨200, [.hasChunk id]⟩
        | some false => ⟨404, [.hasChunk id]⟩
      | .put =>
        if !cfg.writable then ⟨400, []⟩
        else if !cfg.storeIsWritable then ⟨400, []⟩
        else
          let convs : List Conv := if cfg.compressed then [.compressor] else []
          match newChunkFromStorage H dec id r.body convs cfg.skipVerifyWrite with
          | .invalid => ⟨400, []⟩
          | .ok c => if o.storeOK then ⟨200, [.storeChunk id c]⟩ else ⟨500, [.storeChunk id c]⟩
      | .other => ⟨405, []⟩

/-- `HTTPIndexHandler.ServeHTTP` -/
def serveIndex (cfg : HandlerCfg) (o : StoreOracle) (r : Request) : Resp :=
  if cfg.auth ≠ [] ∧ r.authHeader ≠ cfg.auth then ⟨401, []⟩
  else
    let name := goBase r.path
    if name = [46] ∨ name = [46, 46] ∨ name = [47] then ⟨400, []⟩
    else
      match r.method with
      | .get =>
        match o.indexGet with
        | some true => ⟨200, [.getIndex name]⟩
        | some false => ⟨404, [.getIndex name]⟩
        | none => ⟨400, [.getIndex name]⟩
      | .head =>
        match o.indexGet with
        | some true => ⟨200, [.getIndexReader name]⟩
        | some false => ⟨404, [.getIndexReader name]⟩
        | none => ⟨400, [.getIndexReader name]⟩
      | .put =>
        if !cfg.writable then ⟨400, []⟩
        else if !cfg.storeIsWritable then ⟨400, []⟩
        else if !o.indexValid then ⟨415, []⟩
        else if o.storeOK then ⟨200, [.storeIndex name]⟩ else ⟨500, [.storeIndex name]⟩
      | .other => ⟨405, []⟩

end Desync
