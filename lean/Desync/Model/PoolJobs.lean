/-
  The worker pool of `Model/Pool.lean` with the outcome of every job fixed by an oracle
  `good : Nat → Bool` (job j succeeds iff `good j`): a worker holding job j can only finish it the
  way the oracle says.  Every run of this machine is a run of the generic pool (`stepJ_sub`), so all
  theorems about `Pool.Reachable` apply.  `VerifyIndex` is the instance where job j is the j-th
  batch of chunks and `good j` says that every chunk of the batch hashes to its ID
  (`Model/VerifyIndexConc.lean`); the scripted stores of the trace validation are another one.
-/
import Desync.Model.Pool

namespace Desync.Pool

def stepJ (sh : PoolShape) (good : Nat → Bool) (s : St) (e : Ev) : Option St :=
  match e with
  | .workOk w =>
    match s.workers[w]? with
    | some (.busy j) => if good j then step sh s (.workOk w) else none
    | _ => none
  | .workFail w =>
    match s.workers[w]? with
    | some (.busy j) => if good j then none else step sh s (.workFail w)
    | _ => none
  | e => step sh s e

inductive ReachableJ (sh : PoolShape) (good : Nat → Bool) (s0 : St) : St → Prop
  | refl : ReachableJ sh good s0 s0
  | step {s s' : St} (e : Ev) : ReachableJ sh good s0 s → stepJ sh good s e = some s' → ReachableJ sh good s0 s'

end Desync.Pool
