/-
  Model of readseeker.go (`IndexPos`: `findOffset`, `loadChunk`, `Seek`, `Read`) and of the
  read path of an index mount's file handle (`indexFileHandle.read` = lock; Seek; Read).
  Offsets are `Int` (Go `int64`); the store is an oracle consulted once per `GetChunk` call.
-/
import Desync.Basic.Bytes

namespace Desync

/-- an index chunk as the reader sees it -/
structure RChunk where
  id : Nat          -- abstract chunk ID
  start : Nat
  size : Nat
  deriving DecidableEq, Repr

structure IdxPos where
  chunks : List RChunk
  length : Nat                 -- `Index.Length()`
  nullID : Nat                 -- ID of the all-zero chunk of max size
  nullLen : Nat                -- `len(nullChunk.Data)` = ChunkSizeMax
  pos : Nat := 0
  curID : Nat := 0
  curChunk : Bytes := []       -- `nil`/empty = not loaded
  curIdx : Nat := 0
  curOff : Nat := 0
  deriving Repr

/-- `NewIndexReadSeeker` -/
def IdxPos.new (chunks : List RChunk) (length nullID nullLen : Nat) : IdxPos :=
  { chunks, length, nullID, nullLen,
    curID := match chunks with | [] => 0 | c :: _ => c.id }

inductive SeekErr | before | beyond | whence
  deriving DecidableEq, Repr

/-- `sort.Search(len(chunks), fun i => newPos < chunks[i].Start+chunks[i].Size)`: least index whose
    end offset exceeds `newPos`, or `len` -/
def searchChunk (newPos : Nat) : List RChunk → Nat
  | [] => 0
  | c :: cs => if newPos < c.start + c.size then 0 else searchChunk newPos cs + 1

/-- `findOffset`; `Except` error leaves the state unchanged -/
def IdxPos.findOffset (ip : IdxPos) (newPos : Nat) : Except SeekErr IdxPos :=
  if newPos = ip.pos then .ok ip
  else if ip.chunks = [] then .error .beyond
  else
    let curSize := (ip.chunks.getD ip.curIdx ⟨0, 0, 0⟩).size
    -- delta + curOff ≥ 0 ∧ delta + curOff < size, with delta = newPos - pos (signed)
    if ip.pos ≤ newPos + ip.curOff ∧ newPos + ip.curOff < ip.pos + curSize then
      .ok { ip with pos := newPos, curOff := newPos + ip.curOff - ip.pos }
    else
      let i := searchChunk newPos ip.chunks
      let i := if i ≥ ip.chunks.length then ip.chunks.length - 1 else i
      let c := ip.chunks.getD i ⟨0, 0, 0⟩
      if newPos < c.start then .error .beyond
      else if newPos > c.start + c.size then .error .beyond
      else
        .ok { ip with curChunk := if c.id ≠ ip.curID then [] else ip.curChunk,
                      curIdx := i, curID := c.id, curOff := newPos - c.start, pos := newPos }

inductive Whence | start | current | end_
  deriving DecidableEq, Repr

/-- `Seek`: new position or error; errors leave the position unchanged.  `offset` is signed. -/
def IdxPos.seek (ip : IdxPos) (offset : Int) (w : Whence) : Except SeekErr IdxPos :=
  let newPos : Int := match w with
    | .start => offset
    | .current => ip.pos + offset
    | .end_ => ip.length + offset
  if newPos < 0 then .error .before
  else
    match ip.findOffset newPos.toNat with
    | .error e => .error e
    | .ok ip' => .ok ip'      -- `newPos > Length` cannot succeed in findOffset when Length = end of the last chunk

inductive ReadRes
  | data (b : Bytes)             -- n = len b, err = nil
  | eof (b : Bytes)              -- n = len b, err = io.EOF
  | err (b : Bytes)              -- n = len b, err = store error
  | panic
  deriving DecidableEq, Repr

/-- the store oracle: what `GetChunk(id)` + `Data()` returns for the k-th call -/
abbrev Fetch := Nat → Nat → Option Bytes     -- call number → id → data | error

/-- `Read(p)` with `len(p) = n`; returns the result, the new state and the number of store calls made -/
def IdxPos.readLoop (fetch : Fetch) : Nat → IdxPos → Nat → Nat → Bytes → ReadRes × IdxPos × Nat
  | 0, ip, _, calls, acc => (.data acc, ip, calls)
  | fuel+1, ip, remaining, calls, acc =>
    if remaining = 0 then (.data acc, ip, calls)
    else
      -- loadChunk if needed
      let loaded : Option (IdxPos × Nat) :=
        if ip.curChunk.length = 0 then
          if ip.curID = ip.nullID then some ({ ip with curChunk := List.replicate ip.nullLen 0 }, calls)
          else match fetch calls ip.curID with
            | some b => some ({ ip with curChunk := b }, calls + 1)
            | none => none
        else some (ip, calls)
      match loaded with
      | none => (.err acc, ip, calls + 1)
      | some (ip, calls) =>
        if ip.curOff > ip.curChunk.length then (.panic, ip, calls)      -- slice bounds out of range
        else
          let rem := ip.curChunk.drop ip.curOff
          if rem.length = 0 ∧ ip.curIdx + 1 = ip.chunks.length then (.data acc, ip, calls)
          else
            let piece := rem.take remaining
            match ip.findOffset (ip.pos + piece.length) with
            | .error _ => (.err (acc ++ piece), ip, calls)
            | .ok ip' => IdxPos.readLoop fetch fuel ip' (remaining - piece.length) calls (acc ++ piece)

def IdxPos.read (fetch : Fetch) (ip : IdxPos) (n : Nat) (calls : Nat) : ReadRes × IdxPos × Nat :=
  if ip.pos = ip.length then (.eof [], ip, calls)
  else IdxPos.readLoop fetch (n + ip.chunks.length + 2) ip n calls []

/-- `indexFileHandle.read(dest, off)`: `Seek(off, SeekStart)` then `Read(dest)`; `none` = EIO -/
def IdxPos.fuseRead (fetch : Fetch) (ip : IdxPos) (off n calls : Nat) : Option Bytes × IdxPos × Nat :=
  match ip.seek off .start with
  | .error _ => (none, ip, calls)
  | .ok ip =>
    match ip.read fetch n calls with
    | (.data b, ip, c) => (some b, ip, c)
    | (.eof b, ip, c) => (some b, ip, c)
    | (.err _, ip, c) => (none, ip, c)
    | (.panic, ip, c) => (none, ip, c)

end Desync
