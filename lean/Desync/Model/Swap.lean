/-
  `SwapStore` / `SwapWriteStore` (swapstore.go) at the granularity of their mutex operations.

  A request (`GetChunk`, `HasChunk`, `String`, `SwapWriteStore.StoreChunk`, and also `Close`):

      [want.r]  RLock  [rlocked: reads s.s]  member call: [entered] … [returned]  RUnlock  [runlocked]

  `Swap(new)`:

      [want.w]  Lock  [locked]  if the old store is writable and the new one is not: [refused] Unlock
                                else  old.Close() [closed]   s.s = new [installed]   Unlock [unlocked]

  The bracketed points are the hook sites of the `verif` build (verif_chain.go; the member's entry,
  return and Close are observed in the member) and the events of this machine.  Stores are numbered
  by epoch: the initial one is 0, every successful Swap installs `current + 1`.  `sync.RWMutex` by
  contract, as in Model/Failover.lean: who holds what is read off the program counters; `wp` =
  writer preference.

  `Close()` closes the *current* store under the read lock and leaves it installed: it is the
  caller's business not to use the wrapper afterwards (`closedUser`); `closedSwap` are the stores
  closed by `Swap`.  `StoreChunk` asserts `s.s.(WriteStore)`: on a store that is not writable this
  panics (the deferred RUnlock still runs).
-/
namespace Desync.Swap

inductive Op
  | get | has | str | store | close
  deriving DecidableEq, Repr

/-- what a caller does: one request, or one `Swap` to a fresh store that is / is not a `WriteStore` -/
inductive Role
  | req (op : Op)
  | swap (writable : Bool)
  deriving DecidableEq, Repr

inductive PC
  | idle
  | wantR                 -- announced RLock
  | holdR (e : Nat)       -- holds the read lock, has read the store of epoch `e`
  | inCall (e : Nat)      -- member call on store `e` in flight (read lock held)
  | retd (e : Nat)        -- member call returned (read lock still held)
  | done (e : Nat)        -- read lock released: the request has returned
  | panicked (e : Nat)    -- `s.s.(WriteStore)` failed: panic (read lock released by the deferred call)
  | wantW                 -- Swap: announced Lock
  | holdW                 -- Swap: holds the write lock
  | closedOld             -- Swap: has closed the old store
  | installed             -- Swap: has installed the new store
  | refusing              -- Swap: writable → not writable is refused, lock still held
  | swapped               -- Swap returned nil
  | refused               -- Swap returned the error
  deriving DecidableEq, Repr

def PC.isReader : PC → Bool
  | .holdR _ => true
  | .inCall _ => true
  | .retd _ => true
  | _ => false

def PC.isWriter : PC → Bool
  | .holdW => true
  | .closedOld => true
  | .installed => true
  | .refusing => true
  | _ => false

def PC.isPendingW : PC → Bool
  | .wantW => true
  | _ => false

structure St where
  current : Nat := 0            -- epoch of the installed store
  curW : Bool                   -- the installed store is a WriteStore
  closedSwap : List Nat := []   -- epochs whose store has been closed by Swap
  closedUser : List Nat := []   -- epochs whose store has been closed through the wrapper's Close
  wp : Bool := true
  roles : List Role
  callers : List PC
  deriving Repr

def St.init (curW wp : Bool) (roles : List Role) : St :=
  { curW, wp, roles, callers := List.replicate roles.length .idle }

inductive Ev
  | wantR (t : Nat)
  | rlock (t : Nat) (e : Nat)      -- RLock acquired, `s.s` read: the store of epoch `e`
  | enter (t : Nat) (e : Nat)      -- the member call is entered on store `e`
  | exit (t : Nat) (e : Nat)       -- … and returns
  | closeU (t : Nat) (e : Nat)     -- `Close()`: store `e` is closed
  | runlock (t : Nat)
  | wantW (t : Nat)
  | lock (t : Nat)
  | refuse (t : Nat)
  | closeOld (t : Nat) (e : Nat)   -- Swap closes the old store `e`
  | install (t : Nat)
  | unlock (t : Nat)
  deriving Repr

def setC (s : St) (t : Nat) (pc : PC) : St := { s with callers := s.callers.set t pc }

def rlockFree (s : St) : Bool := s.callers.all fun pc => !(pc.isWriter || (s.wp && pc.isPendingW))

def lockFree (s : St) : Bool := s.callers.all fun pc => !(pc.isReader || pc.isWriter)

/-- `oldWritable && !newWritable` -/
def refuses (s : St) (w : Bool) : Bool := s.curW && !w

def step (s : St) : Ev → Option St
  | .wantR t => match s.callers[t]?, s.roles[t]? with
    | some .idle, some (.req _) => some (setC s t .wantR)
    | _, _ => none
  | .rlock t e => match s.callers[t]? with
    | some .wantR => if rlockFree s ∧ e = s.current then some (setC s t (.holdR e)) else none
    | _ => none
  | .enter t e' => match s.callers[t]?, s.roles[t]? with
    | some (.holdR e), some (.req op) =>
      if e' = e ∧ op ≠ .close ∧ (op = .store → s.curW = true) then some (setC s t (.inCall e)) else none
    | _, _ => none
  | .exit t e' => match s.callers[t]? with
    | some (.inCall e) => if e' = e then some (setC s t (.retd e)) else none
    | _ => none
  | .closeU t e' => match s.callers[t]?, s.roles[t]? with
    | some (.holdR e), some (.req .close) =>
      if e' = e then some { setC s t (.retd e) with closedUser := e :: s.closedUser } else none
    | _, _ => none
  | .runlock t => match s.callers[t]?, s.roles[t]? with
    | some (.retd e), _ => some (setC s t (.done e))
    | some (.holdR e), some (.req .store) => if s.curW = true then none else some (setC s t (.panicked e))
    | _, _ => none
  | .wantW t => match s.callers[t]?, s.roles[t]? with
    | some .idle, some (.swap _) => some (setC s t .wantW)
    | _, _ => none
  | .lock t => match s.callers[t]? with
    | some .wantW => if lockFree s then some (setC s t .holdW) else none
    | _ => none
  | .refuse t => match s.callers[t]?, s.roles[t]? with
    | some .holdW, some (.swap w) => if refuses s w then some (setC s t .refusing) else none
    | _, _ => none
  | .closeOld t e => match s.callers[t]?, s.roles[t]? with
    | some .holdW, some (.swap w) =>
      if refuses s w = false ∧ e = s.current then
        some { setC s t .closedOld with closedSwap := s.current :: s.closedSwap }
      else none
    | _, _ => none
  | .install t => match s.callers[t]?, s.roles[t]? with
    | some .closedOld, some (.swap w) => some { setC s t .installed with current := s.current + 1, curW := w }
    | _, _ => none
  | .unlock t => match s.callers[t]? with
    | some .installed => some (setC s t .swapped)
    | some .refusing => some (setC s t .refused)
    | _ => none

inductive Reachable (s0 : St) : St → Prop
  | refl : Reachable s0 s0
  | step {s s' : St} (e : Ev) : Reachable s0 s → step s e = some s' → Reachable s0 s'

end Desync.Swap
