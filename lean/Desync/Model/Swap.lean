/-
  `SwapStore` (swapstore.go): requests hold the read lock for their whole duration, `Swap` takes
  the write lock, closes the old store and installs the new one.
-/
namespace Desync.Swap

inductive PC
  | idle
  | inReq (epoch : Nat)     -- holds the read lock, request running on the store of this epoch
  | done (epoch : Nat)
  deriving DecidableEq, Repr

structure St where
  current : Nat := 0            -- epoch of the installed store
  closed : List Nat := []       -- epochs whose store has been closed
  readers : Nat := 0            -- read-lock holders
  callers : List PC
  swaps : Nat := 0
  deriving Repr

def St.init (k : Nat) : St := { callers := List.replicate k .idle }

inductive Ev
  | enter (t : Nat)     -- RLock + read s.s
  | leave (t : Nat)     -- request finished, RUnlock
  | swap                -- Lock; close old; install new; Unlock (needs no reader)
  deriving Repr

def step (s : St) : Ev → Option St
  | .enter t => match s.callers[t]? with
    | some .idle => some { s with callers := s.callers.set t (.inReq s.current), readers := s.readers + 1 }
    | _ => none
  | .leave t => match s.callers[t]? with
    | some (.inReq e) => some { s with callers := s.callers.set t (.done e), readers := s.readers - 1 }
    | _ => none
  | .swap =>
    if s.readers = 0 then some { s with closed := s.current :: s.closed, current := s.current + 1, swaps := s.swaps + 1 }
    else none

inductive Reachable (s0 : St) : St → Prop
  | refl : Reachable s0 s0
  | step {s s' : St} (e : Ev) : Reachable s0 s → step s e = some s' → Reachable s0 s'

end Desync.Swap
