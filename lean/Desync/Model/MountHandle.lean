/-
  Step machine for SEVERAL read requests in flight on ONE handle of an index mount
  (mount-index.go: `indexFileHandle.read`; go-fuse serves every request in its own goroutine).

  All requests share the handle's reader (`IdxPos`, Model/ReadSeeker.lean) and its mutex `mu`.
  What one request does is a small program (`Shape`) over the four operations the Go function is
  made of; the shape of the real code, `lock; Seek; Read; unlock`, is taken from a regenerated fact
  (harness/extract/mountfacts.go, `Gen.mountIndexHandleOps`).  A schedule picks the request that
  moves next; a request that cannot move (blocked in `Lock`, or finished) stays where it is.
-/
import Desync.Model.ReadSeeker

namespace Desync.MountHandle
open Desync

/-- the operations `indexFileHandle.read` performs on the handle -/
inductive HOp
  | lock      -- `f.mu.Lock()`
  | seek      -- `f.r.Seek(off, io.SeekStart)`
  | read      -- `f.r.Read(dest)` (ONE call: `IndexPos.Read` loops over the chunks itself)
  | unlock    -- `f.mu.Unlock()` (deferred or explicit)
  deriving DecidableEq, Repr

/-- the program every request runs -/
abbrev Shape := List HOp

/-- the real code: one critical section around the Seek and the Read -/
def lockedShape : Shape := [.lock, .seek, .read, .unlock]
/-- the seeded regression: Seek and Read each in a critical section of its own -/
def splitShape : Shape := [.lock, .seek, .unlock, .lock, .read, .unlock]
/-- the lock held around the Seek only -/
def seekOnlyShape : Shape := [.lock, .seek, .unlock, .read]

def HOp.ofName : String → Option HOp
  | "lock" => some .lock
  | "seek" => some .seek
  | "read" => some .read
  | "unlock" => some .unlock
  | _ => none

/-- the shape named by a regenerated fact (`none`: an operation the model does not know) -/
def shapeOfNames : List String → Option Shape
  | [] => some []
  | n :: ns => match HOp.ofName n, shapeOfNames ns with
    | some o, some s => some (o :: s)
    | _, _ => none

/-- a read request of the kernel: `dest` of `len` bytes at offset `off` -/
structure Req where
  off : Nat
  len : Nat
  deriving DecidableEq, Repr

/-- one request in flight -/
structure ReqSt where
  pc : Nat := 0
  /-- the Seek failed: the function returns EIO; what is left of the program is skipped, except
      that a held mutex is released (the deferred / the explicit `Unlock` before the return) -/
  failed : Bool := false
  /-- what the request returns: `some none` = EIO, `some (some b)` = `ReadResultData(b)`, OK -/
  res : Option (Option Bytes) := none
  deriving DecidableEq, Repr

structure St where
  ip : IdxPos                  -- the handle's reader `f.r`
  calls : Nat                  -- store calls made so far
  holder : Option Nat          -- who holds `f.mu`
  reqs : List ReqSt

def St.init (ip : IdxPos) (calls k : Nat) : St :=
  { ip, calls, holder := none, reqs := List.replicate k {} }

/-- what `indexFileHandle.read` makes of the result of `Read`: EOF is not an error -/
def outcome : ReadRes → Option Bytes
  | .data b => some b
  | .eof b => some b
  | .err _ => none
  | .panic => none

def advance (s : St) (r : Nat) (st : ReqSt) : St :=
  { s with reqs := s.reqs.set r { st with pc := st.pc + 1 } }

/-- request `r` (descriptor `q`, state `st`) performs its next operation; `none` = cannot move -/
def stepReq (shape : Shape) (fetch : Fetch) (s : St) (r : Nat) (q : Req) (st : ReqSt) : Option St :=
  match shape[st.pc]? with
  | none => none                              -- finished
  | some op =>
    if st.failed then
      match op with
      | .unlock => if s.holder = some r then some { advance s r st with holder := none }
                   else some (advance s r st)
      | _ => some (advance s r st)
    else
      match op with
      | .lock => if s.holder = none then some { advance s r st with holder := some r } else none
      | .unlock => if s.holder = some r then some { advance s r st with holder := none }
                   else none                  -- Go: fatal "unlock of unlocked mutex"; no shape in use does it
      | .seek =>
        match s.ip.seek (q.off : Int) .start with
        | .ok ip' => some { advance s r st with ip := ip' }
        | .error _ => some (advance s r { st with failed := true, res := some none })
      | .read =>
        let x := s.ip.read fetch q.len s.calls
        some { advance s r { st with res := some (outcome x.1) } with ip := x.2.1, calls := x.2.2 }

def step (shape : Shape) (fetch : Fetch) (rq : List Req) (s : St) (r : Nat) : Option St :=
  match s.reqs[r]?, rq[r]? with
  | some st, some q => stepReq shape fetch s r q st
  | _, _ => none

/-- run a schedule: the named request moves if it can -/
def runSched (shape : Shape) (fetch : Fetch) (rq : List Req) : List Nat → St → St
  | [], s => s
  | r :: rs, s => runSched shape fetch rq rs ((step shape fetch rq s r).getD s)

/-- the number of schedule entries at which the named request did move -/
def countMoves (shape : Shape) (fetch : Fetch) (rq : List Req) : List Nat → St → Nat
  | [], _ => 0
  | r :: rs, s =>
    match step shape fetch rq s r with
    | some s' => countMoves shape fetch rq rs s' + 1
    | none => countMoves shape fetch rq rs s

/-- the request has returned -/
def ReqSt.done (shape : Shape) (st : ReqSt) : Prop := st.pc = shape.length

end Desync.MountHandle
