/-
  `FailoverGroup` under concurrency (failover.go): `current()` reads `active` under the read lock,
  the member call happens outside any lock, `errorFrom(i)` advances `active` under the write lock
  only if nobody else advanced it meanwhile.  Member outcomes are chosen by the environment except
  for one member `h` that is permanently healthy (always answers, never errors).
-/
namespace Desync.Failover

inductive PC
  | idle
  | readCur (attempt : Nat)              -- about to call current()
  | calling (attempt : Nat) (a : Nat)    -- member call on store a in flight
  | erred (attempt : Nat) (a : Nat)      -- member a returned an error: about to errorFrom(a)
  | ok                                   -- returned a member's answer (chunk or missing)
  | failed                               -- all attempts used up: returned the last error
  deriving DecidableEq, Repr

structure St where
  n : Nat                 -- number of members (≥ 1)
  h : Nat                 -- the healthy member
  active : Nat := 0
  callers : List PC
  deriving Repr

def St.init (n h k : Nat) : St := { n, h, callers := List.replicate k .idle }

inductive Ev
  | start (t : Nat)
  | current (t : Nat)
  | answer (t : Nat)          -- the member answers (chunk or missing): the caller returns it
  | error (t : Nat)           -- the member errors (never enabled for the healthy member)
  | errorFrom (t : Nat)
  deriving Repr

def setC (s : St) (t : Nat) (pc : PC) : St := { s with callers := s.callers.set t pc }

def step (s : St) : Ev → Option St
  | .start t => match s.callers[t]? with
    | some .idle => some (setC s t (.readCur 0))
    | _ => none
  | .current t => match s.callers[t]? with
    | some (.readCur i) => if i < s.n then some (setC s t (.calling i s.active)) else some (setC s t .failed)
    | _ => none
  | .answer t => match s.callers[t]? with
    | some (.calling _ _) => some (setC s t .ok)
    | _ => none
  | .error t => match s.callers[t]? with
    | some (.calling i a) => if a = s.h then none else some (setC s t (.erred i a))
    | _ => none
  | .errorFrom t => match s.callers[t]? with
    | some (.erred i a) =>
      let s' := if a = s.active then { s with active := (s.active + 1) % s.n } else s
      some (setC s' t (.readCur (i + 1)))
    | _ => none

inductive Reachable (s0 : St) : St → Prop
  | refl : Reachable s0 s0
  | step {s s' : St} (e : Ev) : Reachable s0 s → step s e = some s' → Reachable s0 s'

end Desync.Failover
