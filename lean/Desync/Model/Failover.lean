/-
  `FailoverGroup` under concurrency (failover.go), at the granularity of its mutex operations.

  One attempt of `GetChunk` / `HasChunk` (the loop body, `i` = attempts used up so far):

      current():    [want.r]  RLock  [rlocked: reads `active`]  RUnlock  [runlocked]
      member call:  [the member is entered]  …  [ret: what the member returned]
      on an error:  errorFrom(a):  [want.w]  Lock  [locked]  `if a = active then active := (active+1) % n`
                    [advanced | stale]  Unlock  [unlocked]      and the loop continues with `i + 1`

  The bracketed points are the hook sites of the `verif` build (verif_chain.go) and the events of
  this machine.  `sync.RWMutex` is modelled by its contract: a writer excludes everybody, readers
  exclude writers; with `wp` (writer preference, what Go implements) a writer that has announced
  itself (`want.w`) additionally keeps new readers out.  Who holds what is read off the callers'
  program counters, there is no separate lock word that could disagree with them.

  Member outcomes are chosen by the environment, except for the member `h` that is permanently
  healthy: it never errors and answers truthfully.  `GetChunk` returns a chunk or `ChunkMissing`
  as the member's answer; `HasChunk` has no `ChunkMissing` arm: every error fails over.
-/
namespace Desync.Failover

/-- which method the caller runs -/
inductive Op
  | get | has
  deriving DecidableEq, Repr

/-- what a member call produced: a chunk, `ChunkMissing`, `(b, nil)` from `HasChunk`, another error -/
inductive Out
  | chunk | missing | has (b : Bool) | error
  deriving DecidableEq, Repr

/-- how the loop body treats a member's outcome: `some true` = return it to the caller,
    `some false` = record the error and fail over, `none` = the member cannot produce this for the method -/
def classify : Op → Out → Option Bool
  | .get, .chunk => some true
  | .get, .missing => some true          -- `if _, ok := err.(ChunkMissing); ok { return b, err }`
  | .get, .error => some false
  | .get, .has _ => none
  | .has, .has _ => some true
  | .has, .missing => some false         -- no ChunkMissing arm in HasChunk: an error like any other
  | .has, .error => some false
  | .has, .chunk => none

/-- the truthful answer of a member that holds (`p`) or lacks the chunk -/
def truth : Op → Bool → Out
  | .get, true => .chunk
  | .get, false => .missing
  | .has, p => .has p

inductive PC
  | next (i : Nat)                -- at the loop test `i < len(g.stores)` (a caller that has not started: `next 0`)
  | wantR (i : Nat)               -- current(): announced RLock
  | holdR (i : Nat) (a : Nat)     -- holds the read lock, has read `active = a`
  | toCall (i : Nat) (a : Nat)    -- read lock released, about to call member `a`
  | calling (i : Nat) (a : Nat)   -- member call on store `a` in flight
  | erred (i : Nat) (a : Nat)     -- member `a` returned an error: about to errorFrom(a)
  | wantW (i : Nat) (a : Nat)     -- errorFrom(a): announced Lock
  | holdW (i : Nat) (a : Nat)     -- holds the write lock
  | advd (i : Nat)                -- has compared (and possibly advanced), still holds the write lock
  | ok (o : Out) (a : Nat)        -- returned member `a`'s answer `o`
  | failed                        -- all attempts used up: returned the last error
  deriving DecidableEq, Repr

def PC.isReader : PC → Bool
  | .holdR _ _ => true
  | _ => false

def PC.isWriter : PC → Bool
  | .holdW _ _ => true
  | .advd _ => true
  | _ => false

def PC.isPendingW : PC → Bool
  | .wantW _ _ => true
  | _ => false

structure St where
  n : Nat                       -- number of members
  h : Nat                       -- the healthy member
  wp : Bool := true             -- writer preference: an announced writer keeps new readers out
  truthful : Bool := false      -- every member that answers answers truthfully (replicas of one store)
  reqs : List (Op × Bool)       -- per caller: the method, and whether the chunk asked for exists
  active : Nat := 0
  callers : List PC
  deriving Repr

def St.init (n h : Nat) (wp truthful : Bool) (reqs : List (Op × Bool)) : St :=
  { n, h, wp, truthful, reqs, callers := List.replicate reqs.length (.next 0) }

inductive Ev
  | wantR (t : Nat)
  | rlock (t : Nat)
  | runlock (t : Nat)
  | call (t : Nat) (m : Nat)      -- member `m` is entered
  | ret (t : Nat) (o : Out)       -- the member call returned `o`
  | wantW (t : Nat)
  | lock (t : Nat)
  | errFrom (t : Nat)             -- the comparison and, if equal, the advance
  | unlock (t : Nat)
  | giveUp (t : Nat)              -- the loop test fails: return the recorded error
  deriving Repr

def setC (s : St) (t : Nat) (pc : PC) : St := { s with callers := s.callers.set t pc }

/-- RLock succeeds: no writer holds the lock and (writer preference) none is waiting for it -/
def rlockFree (s : St) : Bool := s.callers.all fun pc => !(pc.isWriter || (s.wp && pc.isPendingW))

/-- Lock succeeds: nobody holds the lock -/
def lockFree (s : St) : Bool := s.callers.all fun pc => !(pc.isReader || pc.isWriter)

def step (s : St) : Ev → Option St
  | .wantR t => match s.callers[t]? with
    | some (.next i) => if i < s.n then some (setC s t (.wantR i)) else none
    | _ => none
  | .giveUp t => match s.callers[t]? with
    | some (.next i) => if i < s.n then none else some (setC s t .failed)
    | _ => none
  | .rlock t => match s.callers[t]? with
    | some (.wantR i) => if rlockFree s then some (setC s t (.holdR i s.active)) else none
    | _ => none
  | .runlock t => match s.callers[t]? with
    | some (.holdR i a) => some (setC s t (.toCall i a))
    | _ => none
  | .call t m => match s.callers[t]? with
    | some (.toCall i a) => if m = a then some (setC s t (.calling i a)) else none
    | _ => none
  | .ret t o => match s.callers[t]?, s.reqs[t]? with
    | some (.calling i a), some (op, p) =>
      -- the healthy member never errors and answers truthfully; replicas answer truthfully when they answer
      if (a = s.h ∨ (s.truthful = true ∧ classify op o = some true)) ∧ o ≠ truth op p then none
      else match classify op o with
        | some true => some (setC s t (.ok o a))
        | some false => some (setC s t (.erred i a))
        | none => none
    | _, _ => none
  | .wantW t => match s.callers[t]? with
    | some (.erred i a) => some (setC s t (.wantW i a))
    | _ => none
  | .lock t => match s.callers[t]? with
    | some (.wantW i a) => if lockFree s then some (setC s t (.holdW i a)) else none
    | _ => none
  | .errFrom t => match s.callers[t]? with
    | some (.holdW i a) =>
      let s' := if a = s.active then { s with active := (s.active + 1) % s.n } else s
      some (setC s' t (.advd i))
    | _ => none
  | .unlock t => match s.callers[t]? with
    | some (.advd i) => some (setC s t (.next (i + 1)))
    | _ => none

inductive Reachable (s0 : St) : St → Prop
  | refl : Reachable s0 s0
  | step {s s' : St} (e : Ev) : Reachable s0 s → step s e = some s' → Reachable s0 s'

end Desync.Failover
