/-
  The worker pool of make / chop / tar -i with `ChunkStorage.StoreChunk` as the job
  (chunkstorage.go): `markProcessed` → `HasChunk` → `StoreChunk`, un-marking on a failed store.
  Job j carries chunk ID `ids[j]` (duplicates allowed: concurrent workers race on one ID).
  Store outcomes are chosen by the environment (fault oracle = nondeterministic events).
  The parent context can be cancelled at every step (`parentCancel`); the feeder then may take its
  `ctx.Done()` arm, which records the interruption, and the result after `g.Wait()` is `Interrupted`
  unless a worker failed (the shape of ChopFile / ChunkStream, regenerated: `Gen.poolShape_*`).
-/
namespace Desync.PoolCS

inductive Phase
  | start       -- about to markProcessed
  | marked      -- was first: about to HasChunk
  | storing     -- HasChunk said false: about to StoreChunk
  deriving DecidableEq, Repr

inductive W | idle | busy (j : Nat) (ph : Phase) | exited
  deriving DecidableEq, Repr

inductive Res | ok | err | interrupted
  deriving DecidableEq, Repr

structure St where
  ids : List Nat                  -- chunk ID of each job
  next : Nat := 0
  feederClosed : Bool := false
  workers : List W
  processed : List Nat := []      -- the `processed` map (as a set)
  had : List Nat := []            -- IDs for which HasChunk returned true
  stored : List Nat := []         -- IDs for which StoreChunk returned nil
  doneOK : List Nat := []         -- jobs whose `s.StoreChunk(chunk)` returned nil
  groupErr : Bool := false
  parentCancelled : Bool := false
  broke : Bool := false           -- the interrupted flag set in the `ctx.Done()` arm
  result : Option Res := none
  deriving Repr

def St.init (ids : List Nat) (n : Nat) : St := { ids, workers := List.replicate n .idle }

inductive Ev
  | parentCancel
  | feedSend (w : Nat)
  | feedBreak            -- derived context done: a worker failed or the parent was cancelled
  | feedEnd
  | mark (w : Nat)       -- markProcessed: already marked ⇒ job returns nil at once
  | hasTrue (w : Nat) | hasFalse (w : Nat) | hasErr (w : Nat)
  | storeOk (w : Nat) | storeErr (w : Nat)
  | workExit (w : Nat)
  | wait
  deriving Repr

def idOf (s : St) (j : Nat) : Nat := s.ids.getD j 0

def step (s : St) : Ev → Option St
  | .parentCancel => if s.result.isNone then some { s with parentCancelled := true } else none
  | .feedSend w =>
    if !s.feederClosed ∧ s.next < s.ids.length ∧ s.workers[w]? = some .idle then
      some { s with workers := s.workers.set w (.busy s.next .start), next := s.next + 1 }
    else none
  | .feedBreak =>
    if !s.feederClosed ∧ s.next < s.ids.length ∧ (s.groupErr ∨ s.parentCancelled) then
      some { s with feederClosed := true, broke := true }
    else none
  | .feedEnd =>
    if !s.feederClosed ∧ s.next = s.ids.length then some { s with feederClosed := true } else none
  | .mark w =>
    match s.workers[w]? with
    | some (.busy j .start) =>
      if s.processed.contains (idOf s j) then
        some { s with workers := s.workers.set w .idle, doneOK := j :: s.doneOK }
      else some { s with workers := s.workers.set w (.busy j .marked), processed := idOf s j :: s.processed }
    | _ => none
  | .hasTrue w =>
    match s.workers[w]? with
    | some (.busy j .marked) =>
      some { s with workers := s.workers.set w .idle, had := idOf s j :: s.had, doneOK := j :: s.doneOK }
    | _ => none
  | .hasFalse w =>
    match s.workers[w]? with
    | some (.busy j .marked) => some { s with workers := s.workers.set w (.busy j .storing) }
    | _ => none
  | .hasErr w =>
    match s.workers[w]? with
    | some (.busy _ .marked) => some { s with workers := s.workers.set w .exited, groupErr := true }   -- the mark stays
    | _ => none
  | .storeOk w =>
    match s.workers[w]? with
    | some (.busy j .storing) =>
      some { s with workers := s.workers.set w .idle, stored := idOf s j :: s.stored, doneOK := j :: s.doneOK }
    | _ => none
  | .storeErr w =>
    match s.workers[w]? with
    | some (.busy j .storing) =>
      some { s with workers := s.workers.set w .exited, groupErr := true,
                    processed := s.processed.filter (· ≠ idOf s j) }                           -- deferred unmark
    | _ => none
  | .workExit w =>
    if s.feederClosed ∧ s.workers[w]? = some .idle then some { s with workers := s.workers.set w .exited } else none
  | .wait =>
    if s.feederClosed ∧ s.result.isNone ∧ s.workers.all (· == .exited) then
      some { s with result := some (if s.groupErr then .err else if s.broke then .interrupted else .ok) }
    else none

inductive Reachable (s0 : St) : St → Prop
  | refl : Reachable s0 s0
  | step {s s' : St} (e : Ev) : Reachable s0 s → step s e = some s' → Reachable s0 s'

end Desync.PoolCS
