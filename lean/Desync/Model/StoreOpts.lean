/-
  Option and location plumbing of cmd/desync: how a command line, the configuration file and the environment become
  the options a store is made with and the configuration a server's handler gets.

  * `mergedWith`         — `cmdStoreOptions.MergedWith` (cmd/desync/options.go)
  * `lookupLoop` / `getStoreOptionsFor` — `Config.GetStoreOptionsFor` (cmd/desync/config.go): the loop over the
    `store-options` entries with its `found` flag, in the order the entries are visited (Go visits a map in an
    unspecified order: `C03.lookup_order_irrelevant` proves the result does not depend on it)
  * `globMatch`          — `filepath.Match` (Go 1.23, Unix) on ASCII patterns and names, byte for byte with its
    `scanChunk` / `matchChunk` / `getEsc`; a malformed pattern is the outcome `bad`, not `false`
  * `locationMatch`      — cmd/desync/location.go; what `url.Parse` says about the location (error, or the length of
    the scheme) is a parameter, `filepath.Abs` is `Clean` of the path joined to the working directory
  * `backendOf`          — the dispatch of `storeFromLocation` on the scheme
  * `splitIndexLocation` — how `indexStoreFromLocation` splits its argument into the key the configuration is asked
    about, the index name and (local case) the directory
  * `ServerIn`, `serverAuth`, `chunkServerCfg`, `indexServerCfg`, `clientAuth`, `usesTLS` — the two server commands
-/
import Desync.Model.HttpHandler
import Desync.Model.LocalFSRead

namespace Desync.StoreOpts
open Desync

/-- `desync.StoreOptions` (durations in nanoseconds) -/
structure StoreOptions where
  n : Int
  clientCert : String
  clientKey : String
  caCert : String
  trustInsecure : Bool
  httpAuth : String
  httpCookie : String
  timeout : Int
  errorRetry : Int
  errorRetryBaseInterval : Int
  skipVerify : Bool
  uncompressed : Bool
  deriving DecidableEq, Repr

/-- `cmdStoreOptions` as `MergedWith` reads it: the values, and for the flags it asks about whether they were given -/
structure CmdStoreOptions where
  n : Int
  clientCert : String
  clientKey : String
  caCert : String
  skipVerify : Bool
  errorRetry : Int
  errorRetryBaseInterval : Int
  chClientCert : Bool
  chClientKey : Bool
  chCaCert : Bool
  chTrustInsecure : Bool
  chErrorRetry : Bool
  chErrorRetryBaseInterval : Bool
  deriving Repr

/-- `cmdStoreOptions.MergedWith` -/
def mergedWith (o : CmdStoreOptions) (opt : StoreOptions) : StoreOptions :=
  { opt with
    n := o.n
    clientCert := if o.chClientCert then o.clientCert else opt.clientCert
    clientKey := if o.chClientKey then o.clientKey else opt.clientKey
    caCert := if o.chCaCert then o.caCert else opt.caCert
    skipVerify := o.skipVerify || opt.skipVerify
    trustInsecure := o.chTrustInsecure || opt.trustInsecure
    errorRetry := if o.chErrorRetry then o.errorRetry else opt.errorRetry
    errorRetryBaseInterval := if o.chErrorRetryBaseInterval then o.errorRetryBaseInterval else opt.errorRetryBaseInterval }

/-- `NewStoreOptionsWithDefaults` (the retry count is the regenerated constant; the interval is 500 ms) -/
def defaults : StoreOptions :=
  { n := 0, clientCert := "", clientKey := "", caCert := "", trustInsecure := false, httpAuth := "", httpCookie := "",
    timeout := 0, errorRetry := Gen.DefaultErrorRetry.toNat, errorRetryBaseInterval := 500000000,
    skipVerify := false, uncompressed := false }

/-- the loop of `GetStoreOptionsFor`: `none` = "multiple configuration entries match the location" -/
def lookupLoop {κ : Type} (m : κ → Bool) : List (κ × StoreOptions) → Bool → StoreOptions → Option StoreOptions
  | [], _, cur => some cur
  | (k, v) :: rest, found, cur =>
    if m k then (if found then none else lookupLoop m rest true v) else lookupLoop m rest found cur

/-- `Config.GetStoreOptionsFor(location)`: `m k` says whether the entry's key matches the location -/
def getStoreOptionsFor {κ : Type} (m : κ → Bool) (entries : List (κ × StoreOptions)) : Option StoreOptions :=
  lookupLoop m entries false defaults

/-- `StoreOptions.converters()`: the layers, outermost last: a compressor unless the store is uncompressed -/
inductive Layer | compressor
  deriving DecidableEq, Repr

def converters (o : StoreOptions) : List Layer := if o.uncompressed then [] else [.compressor]

/-! ### `filepath.Match` -/

inductive Glob | matched (b : Bool) | bad | fuel | nonAscii
  deriving DecidableEq, Repr

def cStar : UInt8 := 42
def cQuest : UInt8 := 63
def cLbr : UInt8 := 91
def cRbr : UInt8 := 93
def cBsl : UInt8 := 92
def cCaret : UInt8 := 94
def cDash : UInt8 := 45
def cSlash : UInt8 := 47

/-- the scanning loop of `scanChunk` after the leading stars: the length of the chunk -/
def scanLen : Bytes → Bool → Nat → Nat
  | [], _, i => i
  | c :: rest, inrange, i =>
    if c = cBsl then
      match rest with
      | [] => i + 1
      | _ :: rest' => scanLen rest' inrange (i + 2)
    else if c = cLbr then scanLen rest true (i + 1)
    else if c = cRbr then scanLen rest false (i + 1)
    else if c = cStar ∧ !inrange then i
    else scanLen rest inrange (i + 1)

/-- `scanChunk`: (a star precedes the chunk, the chunk, the rest of the pattern) -/
def scanChunk (pattern : Bytes) : Bool × Bytes × Bytes :=
  let p := pattern.dropWhile (· = cStar)
  let star := decide (p.length < pattern.length)
  let i := scanLen p false 0
  (star, p.take i, p.drop i)

/-- `getEsc`: `none` = ErrBadPattern -/
def getEsc (chunk : Bytes) : Option (UInt8 × Bytes) :=
  match chunk with
  | [] => none
  | c :: rest =>
    if c = cDash ∨ c = cRbr then none
    else
      let chunk' := if c = cBsl then rest else chunk
      match chunk' with
      | [] => none
      | r :: nchunk => if nchunk = [] then none else some (r, nchunk)

/-- the loop over the ranges of one character class: (what is left of the chunk, some range contained `r`) -/
def classLoop : Nat → Bytes → UInt8 → Bool → Nat → Option (Option (Bytes × Bool))
  | 0, _, _, _, _ => none                                   -- out of fuel
  | fuel + 1, chunk, r, mtch, nrange =>
    match chunk with
    | c :: rest =>
      if c = cRbr ∧ nrange > 0 then some (some (rest, mtch))
      else
        match getEsc chunk with
        | none => some none
        | some (lo, chunk1) =>
          match chunk1 with
          | [] => some none                                  -- cannot happen: getEsc refuses an empty remainder
          | d :: rest1 =>
            if d = cDash then
              match getEsc rest1 with
              | none => some none
              | some (hi, chunk2) => classLoop fuel chunk2 r (mtch || (lo ≤ r && r ≤ hi)) (nrange + 1)
            else classLoop fuel chunk1 r (mtch || (lo ≤ r && r ≤ lo)) (nrange + 1)
    | [] =>
      match getEsc chunk with
      | none => some none
      | some _ => some none

inductive ChunkRes | ok (rest : Bytes) | fail | bad | fuel
  deriving DecidableEq, Repr

/-- `matchChunk` -/
def matchChunk : Nat → Bytes → Bytes → Bool → ChunkRes
  | 0, _, _, _ => .fuel
  | fuel + 1, chunk, s, failed =>
    match chunk with
    | [] => if failed then .fail else .ok s
    | c :: crest =>
      let failed := failed || s.isEmpty
      if c = cLbr then
        let r : UInt8 := if failed then 0 else s.headD 0
        let s := if failed then s else s.drop 1
        let (negated, chunk1) := match crest with
          | x :: rest' => if x = cCaret then (true, rest') else (false, crest)
          | [] => (false, crest)
        match classLoop (chunk1.length + 2) chunk1 r false 0 with
        | none => .fuel
        | some none => .bad
        | some (some (chunk2, mtch)) => matchChunk fuel chunk2 s (failed || (mtch == negated))
      else if c = cQuest then
        if failed then matchChunk fuel crest s true
        else matchChunk fuel crest (s.drop 1) (s.headD 0 == cSlash)
      else if c = cBsl then
        match crest with
        | [] => .bad
        | x :: rest' =>
          if failed then matchChunk fuel rest' s true
          else matchChunk fuel rest' (s.drop 1) (x != s.headD 0)
      else
        if failed then matchChunk fuel crest s true
        else matchChunk fuel crest (s.drop 1) (c != s.headD 0)

def mc (chunk s : Bytes) : ChunkRes := matchChunk (chunk.length + 1) chunk s false

/-- the inner loop of `Match` for a starred chunk: try the chunk after skipping `i+1` bytes, never past a '/' -/
def starLoop (chunk : Bytes) (lastChunk : Bool) : Bytes → Option (Option Bytes)      -- none: bad; some none: no match
  | [] => some none
  | c :: rest =>
    if c = cSlash then some none
    else
      match mc chunk rest with
      | .ok t => if lastChunk ∧ t ≠ [] then starLoop chunk lastChunk rest else some (some t)
      | .bad => none
      | .fuel => none
      | .fail => starLoop chunk lastChunk rest

/-- `filepath.Match` -/
def matchLoop : Nat → Bytes → Bytes → Glob
  | 0, _, _ => .fuel
  | fuel + 1, pattern, name =>
    if pattern = [] then .matched name.isEmpty
    else
      let (star, chunk, rest) := scanChunk pattern
      if star ∧ chunk = [] then .matched (!name.contains cSlash)
      else
        match mc chunk name with
        | .fuel => .fuel
        | r =>
          let cont : Option Bytes := match r with
            | .ok t => if t = [] ∨ rest ≠ [] then some t else none
            | _ => none
          match cont with
          | some t => matchLoop fuel rest t
          | none =>
            if r = .bad then .bad
            else if star then
              match starLoop chunk (rest = []) name with
              | none => .bad
              | some none => .matched false
              | some (some t) => matchLoop fuel rest t
            else .matched false

def isAscii (b : Bytes) : Bool := b.all (· < 128)

def globMatch (pattern name : Bytes) : Glob :=
  if isAscii pattern && isAscii name then matchLoop (pattern.length + 1) pattern name else .nonAscii

/-! ### `locationMatch` -/

/-- `filepath.Abs` on Unix with the working directory `cwd` -/
def absPath (cwd p : Bytes) : Bytes :=
  if p.head? = some cSlash then LFS.clean p else LFS.clean (cwd ++ [cSlash] ++ p)

def trimSlash (s : Bytes) : Bytes := trimSuffix s [cSlash]

/-- `locationMatch(pattern, loc)`; `scheme` is what `url.Parse(loc)` found: `none` an error, `some n` a scheme of
    `n` bytes.  `none` as a result: outside the modelled subset (non-ASCII). -/
def locationMatch (scheme : Option Nat) (cwd pattern loc : Bytes) : Option Bool :=
  match scheme with
  | none => some false
  | some n =>
    let g := if n > 1 then globMatch (trimSlash pattern) (trimSlash loc)
             else globMatch (absPath cwd pattern) (absPath cwd loc)
    match g with
    | .matched b => some b
    | .bad => some false
    | .fuel => none
    | .nonAscii => none

/-! ### the scheme dispatch of `storeFromLocation` / `indexStoreFromLocation` -/

inductive Backend | ssh | sftp | http | s3 | gcs | localDir | noIndexOverSsh
  deriving DecidableEq, Repr

def backendOf (scheme : String) : Backend :=
  if scheme = "ssh" then .ssh
  else if scheme = "sftp" then .sftp
  else if scheme = "http" ∨ scheme = "https" then .http
  else if scheme = "s3+http" ∨ scheme = "s3+https" then .s3
  else if scheme = "gs" then .gcs
  else .localDir

def indexBackendOf (scheme : String) : Backend :=
  if scheme = "ssh" then .noIndexOverSsh else backendOf scheme

/-- every backend is constructed with the options merged for ITS location -/
def storeOptionsFor {κ : Type} (m : κ → Bool) (entries : List (κ × StoreOptions)) (cmd : CmdStoreOptions) :
    Option StoreOptions :=
  (getStoreOptionsFor m entries).map (mergedWith cmd)

/-! ### `indexStoreFromLocation`: key of the configuration lookup -/

/-- everything before the last occurrence of `sep`, `none` when there is none -/
def beforeLast (sep : UInt8) (s : Bytes) : Option Bytes :=
  if s.contains sep then some ((s.reverse.dropWhile (· ≠ sep)).drop 1).reverse else none

/-- the `base` string `indexStoreFromLocation` asks the configuration about -/
def indexConfigKey (location : Bytes) : Bytes :=
  match beforeLast cSlash location with
  | some b => b
  | none => (beforeLast cBsl location).getD []

/-! ### the server commands -/

/-- what the command line and the environment of `chunk-server` / `index-server` say -/
structure ServerIn where
  flagAuth : String          -- --authorization
  envAuth : String           -- DESYNC_HTTP_AUTH
  writable : Bool            -- -w / --writeable
  skipVerifyWrite : Bool     -- --skip-verify-write   (chunk-server)
  skipVerifyRead : Bool      -- --skip-verify-read    (chunk-server)
  uncompressed : Bool        -- -u / --uncompressed   (chunk-server)
  mutualTLS : Bool           -- --mutual-tls
  key : String               -- --key
  deriving Repr

/-- the authorization value the handler is made with -/
def serverAuth (flag env : String) : String := if flag == "" then env else flag

/-- `runChunkServer`: the handler's configuration; `enc` is the byte encoding of Go strings -/
def chunkServerCfg (enc : String → Bytes) (s : ServerIn) (storeIsWritable : Bool) : HandlerCfg :=
  { auth := enc (serverAuth s.flagAuth s.envAuth), writable := s.writable, skipVerifyWrite := s.skipVerifyWrite,
    compressed := !s.uncompressed, storeIsWritable := storeIsWritable }

/-- `runIndexServer`: the index handler has no verification and no compression setting -/
def indexServerCfg (enc : String → Bytes) (s : ServerIn) (storeIsWritable : Bool) : HandlerCfg :=
  { auth := enc (serverAuth s.flagAuth s.envAuth), writable := s.writable, skipVerifyWrite := false,
    compressed := false, storeIsWritable := storeIsWritable }

/-- the options of the chunk server's upstream stores: `--skip-verify-read` is the command's `skipVerify` -/
def upstreamSkipVerify (s : ServerIn) (cfgEntry : StoreOptions) : Bool := s.skipVerifyRead || cfgEntry.skipVerify

inductive ClientAuth | noClientCert | requireAndVerifyClientCert
  deriving DecidableEq, Repr

/-- `serve`: `tls.Config.ClientAuth` -/
def clientAuth (s : ServerIn) : ClientAuth := if s.mutualTLS then .requireAndVerifyClientCert else .noClientCert

/-- `serve`: `ListenAndServeTLS` is used iff a key was given (otherwise the TLS configuration is not used at all) -/
def usesTLS (s : ServerIn) : Bool := !(s.key == "")

/-- a client without a certificate is refused iff the listener is a TLS listener that requires one -/
def requiresClientCert (s : ServerIn) : Bool := usesTLS s && clientAuth s == .requireAndVerifyClientCert

end Desync.StoreOpts
