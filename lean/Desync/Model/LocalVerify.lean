/-
  Model of `LocalStore.Verify` (local.go): walk the store directory, take every regular file whose name has the
  store's own extension and parses as a chunk ID, read that ID back through `GetChunk` — which opens the
  *canonical* path of the ID, `<id[0:4]>/<id><ext>`, not the path the walk met — and report it when the
  verifying constructor (C03) says `ChunkInvalid`; with `repair`, `RemoveChunk(id)` removes the canonical file.
  A chunk that cannot be read for another reason (the canonical file does not exist: a chunk-like name in a
  wrong directory) is printed as an error and the walk carries on.

  The verdict of the constructor is the parameter `valid : id → content → Bool` (C03: `fromStorage`).
  The `n` workers take IDs from one channel; IDs are handled independently of one another, so the model
  processes them in walk order (what differs under concurrency is only the order of the report lines, and,
  when one ID is met twice, which of the two meetings sees the file already removed).
-/
import Desync.Model.LocalStore

namespace Desync

/-- a store directory with contents: ((directory, file name), bytes) -/
abbrev StoreFiles := List ((Bytes × Bytes) × Bytes)

def StoreFiles.get (d : StoreFiles) (p : Bytes × Bytes) : Option Bytes := List.lookup p d

def StoreFiles.remove (d : StoreFiles) (p : Bytes × Bytes) : StoreFiles := d.filter (·.1 ≠ p)

inductive VerifyLine
  | invalid (id : Bytes) (removed : Bool)   -- "chunk id … does not match its hash …[: removed]"
  | error (id : Bytes)                      -- any other GetChunk error (here: the canonical file is missing)
  deriving DecidableEq, Repr

/-- the walk: `todo` = the files in walk order (as listed before the walk started), `d` = the directory as it is now -/
def verifyWalk (unc repair : Bool) (valid : Bytes → Bytes → Bool) :
    List ((Bytes × Bytes) × Bytes) → StoreFiles → List VerifyLine → StoreFiles × List VerifyLine
  | [], d, out => (d, out.reverse)
  | ((_, name), _) :: rest, d, out =>
    match verifyClassify unc name with
    | .consider id =>
      let canon := nameFromID unc id
      match d.get canon with
      | none => verifyWalk unc repair valid rest d (.error id :: out)
      | some content =>
        if valid id content then verifyWalk unc repair valid rest d out
        else if repair then verifyWalk unc repair valid rest (d.remove canon) (.invalid id true :: out)
        else verifyWalk unc repair valid rest d (.invalid id false :: out)
    | _ => verifyWalk unc repair valid rest d out

def verify (unc repair : Bool) (valid : Bytes → Bytes → Bool) (d : StoreFiles) : StoreFiles × List VerifyLine :=
  verifyWalk unc repair valid d d []

/-- paths are unique in a directory -/
def StoreFiles.Nodup (d : StoreFiles) : Prop := (d.map (·.1)).Nodup

end Desync
