/-
  Model of `SFTPStore.Prune` (sftp.go): the same layout and extension filter as the local store,
  but temporary files are named `<chunk file name><decimal number>` (`StoreObject` appends
  `strconv.Itoa(rand.Int())` to the final name), and an unreferenced chunk is removed through the
  connection that holds the walk.   DESIGN section 12 (D14).
-/
import Desync.Model.LocalStore

namespace Desync

def isDigit (c : UInt8) : Bool := decide (48 ≤ c.toNat ∧ c.toNat ≤ 57)

/-- `isSFTPTempName(name, ext)`: 64 hex digits that parse as a chunk ID, the store's extension, and
    one or more decimal digits -/
def isSftpTempName (name ext : Bytes) : Bool :=
  if name.length ≤ 64 + ext.length then false
  else if (name.drop 64).take ext.length ≠ ext then false
  else if !(name.drop (64 + ext.length)).all isDigit then false
  else (chunkIDFromString (name.take 64)).isSome

/-- what `SFTPStore.Prune` does with one regular file of the walk -/
def sftpClassify (uncompressed : Bool) (name : Bytes) : FileAct :=
  if isSftpTempName name (extOf uncompressed) then .removeTemp
  else if !hasSuffix name (extOf uncompressed) then .skip
  else
    match chunkIDFromString (trimSuffix name (extOf uncompressed)) with
    | none => .skip
    | some id => .consider id

/-- `SFTPStore.Prune`: `client.Remove(nameFromID(id))` fails when that file does not exist, which
    aborts the walk with an error -/
def sftpPruneWalk (uncompressed : Bool) (keep : Bytes → Bool) : List (Bytes × Bytes) → StoreDir → PruneRes
  | [], d => .ok d
  | (dir, name) :: rest, d =>
    match sftpClassify uncompressed name with
    | .skip => sftpPruneWalk uncompressed keep rest d
    | .removeTemp => sftpPruneWalk uncompressed keep rest (d.filter (· ≠ (dir, name)))
    | .consider id =>
      if keep id then sftpPruneWalk uncompressed keep rest d
      else
        let canon := nameFromID uncompressed id
        if d.contains canon then sftpPruneWalk uncompressed keep rest (d.filter (· ≠ canon))
        else .failed d

def sftpPrune (uncompressed : Bool) (keep : Bytes → Bool) (d : StoreDir) : PruneRes :=
  sftpPruneWalk uncompressed keep d d

end Desync
