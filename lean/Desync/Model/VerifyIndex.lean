/-
  Model of verifyindex.go (`VerifyIndex`) and `fileSeedSegment.Validate` (fileseed.go).
  The batching arithmetic is regenerated from the source (`Gen.vCond`, `Gen.vLo`, `Gen.vHi`, `Gen.vNext`).  The digest is a
  parameter `H`.  The worker pool's schedule does not influence the result when there is no
  cancellation (`Model/Pool.lean`, C06/C07): every batch the feeder hands out is validated and
  any failure is reported, so the sequential definition below is the pool's result.
-/
import Desync.Model.IndexCodec

namespace Desync

abbrev Digest := Bytes → Bytes

/-- the slices `idx.Chunks[lo:hi]` the feeder loop sends, in order.  The loop is the one the
    extractor evaluated symbolically (harness/extract/vifacts.go): `Gen.vCond` is the loop condition,
    `Gen.vLo`/`Gen.vHi` the bounds of the slice sent in the iteration that begins with loop variable
    `i`, `Gen.vNext` the loop variable at the beginning of the next iteration — all as functions of
    `i`, the chunk count `c` and the worker count `n`, whatever the variables of the loop are called -/
def batchesFrom (c n : Nat) : Nat → Nat → List (Nat × Nat)
  | 0, _ => []
  | fuel+1, i =>
    if Gen.vCond i c n then
      (Gen.vLo i c n, Gen.vHi i c n) :: batchesFrom c n fuel (Gen.vNext i c n)
    else []

def batches (c n : Nat) : List (Nat × Nat) := batchesFrom c n c (Gen.vInit c n)

/-- `fileSeedSegment.Validate` for one chunk: `ReadAt` must deliver `Size` bytes (a short read is
    an error) and they must hash to the ID -/
def validateChunk (H : Digest) (file : Bytes) (c : IndexChunk) : Bool :=
  decide (c.start.toNat + c.size.toNat ≤ file.length) &&
  (H ((file.drop c.start.toNat).take c.size.toNat) == c.id)

inductive VerifyRes | ok | mismatch | sizeMismatch | panic
  deriving DecidableEq, Repr

/-- `VerifyIndex` without cancellation -/
def verifyIndex (H : Digest) (file : Bytes) (isDevice : Bool) (idx : Index) (n : Nat) : VerifyRes :=
  if !isDevice && decide (file.length ≠ idx.length.toNat) then .sizeMismatch
  else if n = 0 then .panic                                  -- integer divide by zero in `chunksNum / (n * 10)`
  else if (batches idx.chunks.length n).all fun (lo, hi) =>
      ((idx.chunks.drop lo).take (hi - lo)).all (validateChunk H file) then .ok
  else .mismatch

end Desync
