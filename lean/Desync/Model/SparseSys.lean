/-
  System-level model of a sparse file across sessions: the cache file and the state-save file
  live on disk between sessions; `NewSparseFile` (re)writes a blank state whenever it
  (re-)initialises the cache file (sparse-file.go, end of `NewSparseFile`).
-/
import Desync.Model.Sparse

namespace Desync

structure SparseSys where
  s : SparseSt                       -- the running session (its `file` is the cache file on disk)
  stateFile : Option (List Bool)     -- content of the state-save file on disk, if it exists
  deriving Repr

/-- what may happen to the cache file between two sessions -/
inductive FileChange
  | keep                -- untouched
  | delete              -- removed: the next session finds no file
  | resize (m : Nat)    -- cut to `m` bytes or zero-extended to `m` bytes, with `m ≠ length`
  deriving Repr

inductive SysOp
  | read (off n : Nat)
  | saveState                              -- `WriteState` (on exit or SIGHUP)
  | restart (fc : FileChange) (dropState : Bool)   -- process ends; files possibly changed; `NewSparseFile` again
  deriving Repr

def applyFileChange (length : Nat) (file : Bytes) : FileChange → Bytes
  | .keep => file
  | .delete => []
  | .resize m =>
    if m = length then file     -- a "resize" to the same length is no change in size; excluded by `SysOpOK`
    else if m ≤ file.length then file.take m else file ++ List.replicate (m - file.length) 0

/-- is the saved state accepted by `NewSparseFile` for this file? -/
def stateAccepted (chunks : List RChunk) (length : Nat) (file : Bytes) : Option (List Bool) → Bool
  | some st => decide (file.length = length) && decide (st.length = chunks.length)
  | none => false

/-- one step of the system; reads return their result -/
def SparseSys.step (fetch : Fetch) (sys : SparseSys) : SysOp → Option SparseRead × SparseSys
  | .read off n =>
    let (r, s') := sys.s.readAt fetch off n
    (some r, { sys with s := s' })
  | .saveState => (none, { sys with stateFile := some sys.s.saveState })
  | .restart fc dropState =>
    let file := applyFileChange sys.s.length sys.s.file fc
    let state := if dropState then none else sys.stateFile
    let s' := SparseSt.open fetch sys.s.chunks sys.s.nullID sys.s.length file state none sys.s.calls
    -- a (re-)initialised cache file gets a blank state file; an accepted state file stays as it is
    let stateFile' := if stateAccepted sys.s.chunks sys.s.length file state then state
                      else some (List.replicate sys.s.chunks.length false)
    (none, { s := s', stateFile := stateFile' })

/-- the first session: no cache file, possibly a leftover state file -/
def SparseSys.init (fetch : Fetch) (chunks : List RChunk) (nullID length : Nat) : SparseSys :=
  { s := SparseSt.open fetch chunks nullID length [] none none 0,
    stateFile := some (List.replicate chunks.length false) }

def SparseSys.run (fetch : Fetch) : SparseSys → List SysOp → List (Option SparseRead) × SparseSys
  | sys, [] => ([], sys)
  | sys, op :: ops =>
    let (r, sys') := sys.step fetch op
    let (rs, sys'') := SparseSys.run fetch sys' ops
    (r :: rs, sys'')

end Desync
