/-
  The "feeder + N workers + errgroup" pattern shared by AssembleFile, Plan.Validate, VerifyIndex,
  ChopFile, Copy, ChunkStream and UnTarIndex, as a step machine (DESIGN appendix A.1).

  `PoolShape` says what the function does when its feeder sees `ctx.Done()` and how the result is
  computed after `close(in)`; the shapes of the real functions are regenerated from the source
  (`Gen.poolShape_*`).
-/
import Desync.Generated.Facts

namespace Desync.Pool

structure PoolShape where
  marksInterrupt : Bool     -- the `case <-ctx.Done()` arm records that feeding stopped early
  reportsInterrupt : Bool   -- the result after `g.Wait()` is Interrupted when that was recorded
  deriving DecidableEq, Repr

def PoolShape.ok (sh : PoolShape) : Bool := sh.marksInterrupt && sh.reportsInterrupt

inductive W | idle | busy (j : Nat) | exited
  deriving DecidableEq, Repr

inductive Res | ok | err | interrupted
  deriving DecidableEq, Repr

structure St where
  jobs : Nat                      -- number of jobs the feeder has to hand out
  next : Nat := 0                 -- feeder position
  feederClosed : Bool := false    -- `close(in)` executed
  broke : Bool := false           -- the interrupted flag
  workers : List W
  done : List Bool                -- job j completed successfully
  groupErr : Bool := false        -- a worker returned an error (errgroup cancels the derived context)
  parentCancelled : Bool := false
  result : Option Res := none
  deriving Repr

def St.init (jobs n : Nat) : St :=
  { jobs, workers := List.replicate n .idle, done := List.replicate jobs false }

inductive Ev
  | parentCancel
  | feedSend (w : Nat)      -- rendezvous on the unbuffered channel with idle worker w
  | feedBreak               -- the ctx.Done() arm of the select
  | feedEnd                 -- loop ran to the end
  | workOk (w : Nat)
  | workFail (w : Nat)
  | workExit (w : Nat)      -- `range in` ends: channel closed and drained
  | wait                    -- g.Wait() returns and the result is computed
  deriving Repr

def step (sh : PoolShape) (s : St) : Ev → Option St
  | .parentCancel => if s.result.isNone then some { s with parentCancelled := true } else none
  | .feedSend w =>
    if !s.feederClosed ∧ s.next < s.jobs ∧ s.workers[w]? = some .idle then
      some { s with workers := s.workers.set w (.busy s.next), next := s.next + 1 }
    else none
  | .feedBreak =>
    if !s.feederClosed ∧ s.next < s.jobs ∧ (s.parentCancelled ∨ s.groupErr) then
      some { s with feederClosed := true, broke := sh.marksInterrupt }
    else none
  | .feedEnd =>
    if !s.feederClosed ∧ s.next = s.jobs then some { s with feederClosed := true } else none
  | .workOk w =>
    match s.workers[w]? with
    | some (.busy j) => some { s with workers := s.workers.set w .idle, done := s.done.set j true }
    | _ => none
  | .workFail w =>
    match s.workers[w]? with
    | some (.busy _) => some { s with workers := s.workers.set w .exited, groupErr := true }
    | _ => none
  | .workExit w =>
    if s.feederClosed ∧ s.workers[w]? = some .idle then some { s with workers := s.workers.set w .exited } else none
  | .wait =>
    if s.feederClosed ∧ s.result.isNone ∧ s.workers.all (· == .exited) then
      some { s with result := some (if s.groupErr then .err else if sh.reportsInterrupt && s.broke then .interrupted else .ok) }
    else none

inductive Reachable (sh : PoolShape) (s0 : St) : St → Prop
  | refl : Reachable sh s0 s0
  | step {s s' : St} (e : Ev) : Reachable sh s0 s → step sh s e = some s' → Reachable sh s0 s'

def run (sh : PoolShape) (s : St) : List Ev → St
  | [] => s
  | e :: es => run sh ((step sh s e).getD s) es

end Desync.Pool
