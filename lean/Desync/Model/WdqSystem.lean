/-
  One `WriteDedupQueue` as a whole (writededupqueue.go + the embedded `*DedupQueue` of dedupqueue.go):
  three de-duplicating machines that share the callers.

  * `w` — the write queue (`Model/WriteDedup.lean`): writers (`StoreChunk`) and readers (`GetChunk`, up to the
          moment they either return the chunk of a write in flight or pass on);
  * `g` — `DedupQueue.GetChunk` (`Model/Dedup.lean`, kind GetChunk, queue `getChunkQueue`): the readers that passed;
  * `h` — `DedupQueue.HasChunk` (`Model/Dedup.lean`, kind HasChunk, queue `hasChunkQueue`): the `HasChunk`
          callers; `WriteDedupQueue.HasChunk` only delegates.

  The machines share nothing but the program order of a reader: `WriteDedupQueue.GetChunk` calls
  `q.DedupQueue.GetChunk(id)` after — and only after — its locked look at the write queue found no write of `id`
  in flight (`rpass`).  Writers and readers are numbered together (the callers of `w`; the same numbers are used
  in `g`, where a writer never moves); `HasChunk` callers are numbered separately.

  This is the machine the recorded event traces of the real code are replayed through (`Driver/WdqAccept.lean`,
  command `wdq.accept`); `Proofs/WdqSystem.lean` shows that each component of a reachable state is reachable in
  its own machine, so everything proved about the three machines holds of every accepted trace.
-/
import Desync.Model.Dedup
import Desync.Model.WriteDedup

namespace Desync.WdqSys

def roleId : WDedup.Role → Nat
  | .writer id _ => id
  | .reader id => id

structure St where
  w : WDedup.St
  g : Dedup.St
  h : Dedup.St
  deriving Repr

def St.init (roles : List WDedup.Role) (hids : List Nat) : St :=
  { w := WDedup.St.init roles, g := Dedup.St.init (roles.map roleId), h := Dedup.St.init hids }

inductive Ev
  | w (e : WDedup.Ev)     -- a step of the write queue's machine
  | g (e : Dedup.Ev)      -- a step inside `DedupQueue.GetChunk`
  | h (e : Dedup.Ev)      -- a step inside `DedupQueue.HasChunk`
  deriving Repr

/-- the caller a step inside `DedupQueue.GetChunk` belongs to -/
def evCaller : Dedup.Ev → Nat
  | .call t => t
  | .upRet t _ => t
  | .markDone t => t
  | .delete t => t
  | .wake t => t

/-- has caller `t` passed the write queue (it is inside `q.DedupQueue.GetChunk(id)`)? -/
def passed (s : St) (t : Nat) : Bool :=
  match s.w.callers[t]? with
  | some (.rpass _) => true
  | _ => false

def step (s : St) : Ev → Option St
  | .w e => (WDedup.step s.w e).map fun w' => { s with w := w' }
  | .g e =>
    -- only a reader that has passed the write queue executes `DedupQueue.GetChunk`
    if passed s (evCaller e) then
      (Dedup.step s.g e).map fun g' => { s with g := g' }
    else none
  | .h e => (Dedup.step s.h e).map fun h' => { s with h := h' }

inductive Reachable (s0 : St) : St → Prop
  | refl : Reachable s0 s0
  | step {s s' : St} (e : Ev) : Reachable s0 s → step s e = some s' → Reachable s0 s'

/-- replay of an event list (what `wdq.accept` does): `none` as soon as an event is not enabled -/
def replay (s : St) : List Ev → Option St
  | [] => some s
  | e :: es => match step s e with
    | some s' => replay s' es
    | none => none

end Desync.WdqSys
