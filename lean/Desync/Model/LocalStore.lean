/-
  Model of local.go: chunk file naming (`nameFromID`), and what `Prune` / `Verify` do with
  each regular file they meet while walking the store directory.  S3 (`idFromName`) and SFTP
  naming share the layout `<4 hex>/<64 hex>[.cacnk]`.
-/
import Desync.Model.HttpHandler

namespace Desync

def hexChar (n : Nat) : UInt8 := if n < 10 then UInt8.ofNat (48 + n) else UInt8.ofNat (87 + n)

/-- `ChunkID.String()`: lower-case hex -/
def hexEncode (b : Bytes) : Bytes := b.flatMap fun x => [hexChar (x.toNat / 16), hexChar (x.toNat % 16)]

/-- extension used by a store in the given mode -/
def extOf (uncompressed : Bool) : Bytes :=
  if uncompressed then Gen.UncompressedChunkExtBytes else Gen.CompressedChunkExtBytes

/-- `LocalStore.nameFromID` relative to the store's base: (directory, file name) -/
def nameFromID (uncompressed : Bool) (id : Bytes) : Bytes × Bytes :=
  let sID := hexEncode id
  (sID.take 4, sID ++ extOf uncompressed)

def hasPrefix (s pre : Bytes) : Bool := decide (pre.length ≤ s.length ∧ s.take pre.length = pre)

inductive FileAct
  | skip                     -- left alone
  | removeTemp               -- `os.Remove(path)` of a leftover temporary chunk file
  | consider (id : Bytes)    -- treated as the chunk with this ID (pruned if unreferenced / verified)
  deriving DecidableEq, Repr

/-- classification of one regular file met by `Prune`'s walk (`name` = `filepath.Base(path)`).
    `strings.HasSuffix(path, ext)` is decided on the base name: `ext` contains no separator. -/
def pruneClassify (uncompressed : Bool) (name : Bytes) : FileAct :=
  if hasPrefix name Gen.tmpChunkPrefixBytes then .removeTemp
  else if !hasSuffix name (extOf uncompressed) then .skip
  else
    match chunkIDFromString (trimSuffix name (extOf uncompressed)) with
    | none => .skip
    | some id => .consider id

/-- `Verify` uses the same filter without the temp-file rule -/
def verifyClassify (uncompressed : Bool) (name : Bytes) : FileAct :=
  if !hasSuffix name (extOf uncompressed) then .skip
  else
    match chunkIDFromString (trimSuffix name (extOf uncompressed)) with
    | none => .skip
    | some id => .consider id

/-- a store directory: relative (dir, name) pairs of regular files -/
abbrev StoreDir := List (Bytes × Bytes)

inductive PruneRes | ok (d : StoreDir) | failed (d : StoreDir)
  deriving Repr

/-- `LocalStore.Prune`: walk in order; `RemoveChunk(id)` acts on the canonical path of `id` and
    fails with ChunkMissing when that file does not exist (which aborts the walk with an error) -/
def pruneWalk (uncompressed : Bool) (keep : Bytes → Bool) : List (Bytes × Bytes) → StoreDir → PruneRes
  | [], d => .ok d
  | (dir, name) :: rest, d =>
    match pruneClassify uncompressed name with
    | .skip => pruneWalk uncompressed keep rest d
    | .removeTemp => pruneWalk uncompressed keep rest (d.filter (· ≠ (dir, name)))
    | .consider id =>
      if keep id then pruneWalk uncompressed keep rest d
      else
        let canon := nameFromID uncompressed id
        if d.contains canon then pruneWalk uncompressed keep rest (d.filter (· ≠ canon))
        else .failed d

def prune (uncompressed : Bool) (keep : Bytes → Bool) (d : StoreDir) : PruneRes :=
  pruneWalk uncompressed keep d d

end Desync
