/-
  Model of remotehttp.go: the retry loop (`IssueRetryableHttpRequest`), the status mapping of
  `GetObject` / `HasChunk` / `StoreObject`, and the compression matrix client ↔ chunk server ↔
  upstream store (httphandler.go `get`), with zstd as an abstract pair of functions.
-/
import Desync.Model.Chunk

namespace Desync.Http

/-- what one `IssueHttpRequest` attempt yields -/
inductive Resp
  | status (code : Nat) (body : Bytes)
  | transportErr                       -- connection reset, short body, timeout, …
  deriving DecidableEq, Repr

/-- result of the retry loop: `(statusCode, body, err)` -/
inductive RetryRes
  | answer (code : Nat) (body : Bytes)   -- err = nil
  | error                                -- err ≠ nil
  deriving DecidableEq, Repr

def retryable : Resp → Bool
  | .transportErr => true
  | .status c _ => decide (500 ≤ c ∧ c < 600)

/-- `IssueRetryableHttpRequest` with `ErrorRetry = retry` over the server's response sequence;
    returns the result and the number of attempts made.  A response list that runs out is a
    transport error. -/
def retryLoop (retry : Nat) : Nat → List Resp → Nat → RetryRes × Nat
  | 0, _, attempt => (.error, attempt)                       -- fuel (never reached with fuel = retry + 1)
  | fuel+1, rs, attempt =>
    let attempt := attempt + 1
    let r := rs.headD .transportErr
    if retryable r then
      if attempt ≥ retry then
        -- "failed, giving up": returns (0, nil, err) — err is nil when the last failure was a 5xx
        (match r with | .transportErr => .error | .status _ _ => .answer 0 [], attempt)
      else retryLoop retry fuel rs.tail attempt
    else
      (match r with | .status c b => .answer c b | .transportErr => .error, attempt)

def issueRetryable (retry : Nat) (rs : List Resp) : RetryRes × Nat :=
  retryLoop retry (retry + 1) rs 0

inductive GetRes | ok (b : Bytes) | missing | error
  deriving DecidableEq, Repr

/-- `GetObject` -/
def getObject (retry : Nat) (rs : List Resp) : GetRes :=
  match (issueRetryable retry rs).1 with
  | .error => .error
  | .answer 200 b => .ok b
  | .answer 404 _ => .missing
  | .answer _ _ => .error

inductive HasRes | present | absent | error
  deriving DecidableEq, Repr

/-- `RemoteHTTP.HasChunk` -/
def hasChunk (retry : Nat) (rs : List Resp) : HasRes :=
  match (issueRetryable retry rs).1 with
  | .error => .error
  | .answer 200 _ => .present
  | .answer 404 _ => .absent
  | .answer _ _ => .error

/-- `StoreObject`: true = nil error -/
def storeObject (retry : Nat) (rs : List Resp) : Bool :=
  match (issueRetryable retry rs).1 with
  | .error => false
  | .answer c _ => c = 200 || c = 201

/-! ### compression matrix -/

structure Zstd where
  comp : Bytes → Bytes
  dec : Bytes → Option Bytes

/-- what the chunk server sends for a chunk it got from its upstream store
    (`HTTPHandler.get`): pass the storage bytes through when the formats agree, otherwise decode
    and re-encode for its own format -/
def serverBody (z : Zstd) (serverCompressed upstreamCompressed : Bool) (stored : Bytes) : Option Bytes :=
  if serverCompressed = upstreamCompressed then some stored
  else
    -- chunk.Data(): decode the upstream format
    match (if upstreamCompressed then z.dec stored else some stored) with
    | none => none
    | some plain => some (if serverCompressed then z.comp plain else plain)

/-- a client `GetChunk` through a chunk server: the client asks for `<id>.cacnk` when it is
    configured compressed; a server serving uncompressed chunks refuses `.cacnk` requests and a
    server serving compressed chunks refuses names without the extension (400 ⇒ error) -/
def clientGet (z : Zstd) (H : Bytes → Bytes) (clientCompressed serverCompressed upstreamCompressed verify : Bool)
    (id stored : Bytes) : GetRes :=
  if clientCompressed ≠ serverCompressed then .error
  else
    match serverBody z serverCompressed upstreamCompressed stored with
    | none => .error
    | some body =>
      let convs : List Conv := if clientCompressed then [.compressor] else []
      match newChunkFromStorage H z.dec id body convs (!verify) with
      | .invalid => .error
      | .ok c =>
        match (c.getData z.dec).1 with
        | some b => .ok b
        | none => .error

end Desync.Http
