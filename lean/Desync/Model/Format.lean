/-
  Model of format.go / reader.go / writer.go: the casync element codec.

  `decNext` mirrors `FormatDecoder.Next` case by case; `encElem` mirrors
  `FormatEncoder.Encode`.  Go run-time failures are explicit outcomes (`Res.panic`),
  and every allocation whose size comes from the input is accounted in `St.alloc`
  so that "never panics" and "allocates in proportion to the input" are statements
  with content (DESIGN §4).
-/
import Desync.Basic.Bytes
import Desync.Generated.Facts

namespace Desync

inductive Err
  | eof          -- io.EOF
  | ueof         -- io.ErrUnexpectedEOF
  | format       -- InvalidFormat{…}
  | unsupported  -- "unsupported header type" / "unsupported element"
  | notIndex     -- "input is not an index file"
  | digest       -- "index file uses SHA…"
  | noTable      -- "index table not found in input"
  | chunkSize    -- "chunk size … is larger than maximum"
  | offsets      -- "chunk offsets not increasing"
  | short        -- protocol: "message length too short"
  | other
  deriving DecidableEq, Repr, Inhabited

def Err.name : Err → String
  | .eof => "eof" | .ueof => "ueof" | .format => "format" | .unsupported => "unsupported"
  | .notIndex => "notindex" | .digest => "digest" | .noTable => "notable"
  | .chunkSize => "chunksize" | .offsets => "offsets" | .short => "short" | .other => "other"

/-- outcome of a Go function that may return an error or panic -/
inductive Res (α : Type)
  | ok (a : α)
  | err (e : Err)
  | panic (site : String)
  deriving Repr

instance : Monad Res where
  pure := .ok
  bind x f := match x with
    | .ok a => f a
    | .err e => .err e
    | .panic s => .panic s

@[simp] theorem Res.pure_eq {α} (a : α) : (pure a : Res α) = .ok a := rfl
@[simp] theorem Res.ok_bind {α β} (a : α) (f : α → Res β) : (Res.ok a >>= f) = f a := rfl
@[simp] theorem Res.err_bind {α β} (e : Err) (f : α → Res β) : (Res.err e >>= f) = .err e := rfl
@[simp] theorem Res.panic_bind {α β} (s : String) (f : α → Res β) : (Res.panic s >>= f) = .panic s := rfl

def Res.isPanic {α} : Res α → Bool
  | .panic _ => true
  | _ => false

/-- decoder state: unread input and the total number of bytes allocated for
    input-sized buffers so far -/
structure St where
  rest : Bytes
  alloc : Nat := 0
  deriving Repr

/-- `io.ReadFull` of exactly `n` bytes into a buffer that is grown as data arrives
    (`reader.ReadN`): `io.EOF` when nothing is left, `io.ErrUnexpectedEOF` when the input is
    shorter than `n`.  Allocation is charged for the bytes actually available. -/
def readN (n : Nat) (s : St) : Res (Bytes × St) :=
  if n ≤ s.rest.length then
    .ok (s.rest.take n, { rest := s.rest.drop n, alloc := s.alloc + n })
  else if s.rest.length = 0 then .err .eof
  else .err .ueof

/-- `reader.ReadUint64` -/
def readU64 (s : St) : Res (UInt64 × St) :=
  if 8 ≤ s.rest.length then
    .ok (u64OfLE s.rest, { s with rest := s.rest.drop 8 })
  else if s.rest.length = 0 then .err .eof
  else .err .ueof

structure GoodbyeItem where
  offset : UInt64
  size : UInt64
  hash : UInt64
  deriving DecidableEq, Repr, Inhabited

structure TableItem where
  offset : UInt64
  id : Bytes
  deriving DecidableEq, Repr, Inhabited

/-- format elements; `sz` is the header's size field as read / as written -/
inductive Elem
  | entry (sz flags mode fflags uid gid mtime : UInt64)
  | user (sz : UInt64) (name : Bytes)
  | group (sz : UInt64) (name : Bytes)
  | xattr (sz : UInt64) (nv : Bytes)
  | selinux (sz : UInt64) (label : Bytes)
  | filename (sz : UInt64) (name : Bytes)
  | symlink (sz : UInt64) (target : Bytes)
  | device (sz major minor : UInt64)
  | payload (sz : UInt64)                     -- data follows in the stream
  | fcaps (sz : UInt64) (data : Bytes)
  | aclUser (sz uid perm : UInt64) (name : Bytes)
  | aclGroup (sz gid perm : UInt64) (name : Bytes)
  | aclGroupObj (sz perm : UInt64)
  | aclDefault (sz u g o m : UInt64)
  | goodbye (sz : UInt64) (items : List GoodbyeItem)
  | index (sz flags min avg max : UInt64)
  | table (sz : UInt64) (items : List TableItem)
  deriving DecidableEq, Repr, Inhabited

/-- body of a NUL-terminated string element: `hdr.Size-16` bytes, last one stripped.
    The guard is the one `FormatDecoder.Next` applies before slicing. -/
def readStr (sz : UInt64) (hdrLen : Nat) (s : St) : Res (Bytes × St) :=
  if sz.toNat < hdrLen + 1 then .err .format
  else do
    let (b, s) ← readN (sz.toNat - hdrLen) s
    -- b[:len(b)-1]
    if b.length = 0 then .panic "slice bounds out of range [:-1]"
    else pure (b.dropLast, s)

/-- goodbye items, read one by one (`n` = number announced by the size field) -/
def readGoodbyeItems : Nat → St → List GoodbyeItem → Res (List GoodbyeItem × St)
  | 0, s, acc => .ok (acc.reverse, s)
  | n+1, s, acc => do
    let (o, s) ← readU64 s
    let (z, s) ← readU64 s
    let (h, s) ← readU64 s
    readGoodbyeItems n { s with alloc := s.alloc + 24 } (⟨o, z, h⟩ :: acc)

/-- table items up to the zero offset; `fuel` bounds the loop by the input length -/
def readTableItems : Nat → St → List TableItem → Res (List TableItem × St)
  | 0, _, _ => .err .ueof   -- unreachable with fuel = rest.length + 1 (see `readTableItems_fuel`)
  | fuel+1, s, acc => do
    let (off, s) ← readU64 s
    if off = 0 then pure (acc.reverse, s)
    else do
      let (id, s) ← readN 32 s
      readTableItems fuel s (⟨off, id⟩ :: acc)

/-- `FormatDecoder.Next` after the header has been read -/
def decBody (sz typ : UInt64) (s : St) : Res (Elem × St) :=
  if typ = Gen.CaFormatEntry then
    if sz ≠ 64 then .err .format else do
      let (ff, s) ← readU64 s
      let (mode, s) ← readU64 s
      let (fl, s) ← readU64 s
      let (uid, s) ← readU64 s
      let (gid, s) ← readU64 s
      let (mt, s) ← readU64 s
      pure (.entry sz ff mode fl uid gid mt, s)
  else if typ = Gen.CaFormatUser then do
    let (b, s) ← readStr sz 16 s; pure (.user sz b, s)
  else if typ = Gen.CaFormatGroup then do
    let (b, s) ← readStr sz 16 s; pure (.group sz b, s)
  else if typ = Gen.CaFormatXAttr then do
    let (b, s) ← readStr sz 16 s; pure (.xattr sz b, s)
  else if typ = Gen.CaFormatSELinux then do
    let (b, s) ← readStr sz 16 s; pure (.selinux sz b, s)
  else if typ = Gen.CaFormatFilename then do
    let (b, s) ← readStr sz 16 s; pure (.filename sz b, s)
  else if typ = Gen.CaFormatSymlink then do
    let (b, s) ← readStr sz 16 s; pure (.symlink sz b, s)
  else if typ = Gen.CaFormatDevice then
    if sz ≠ 32 then .err .format else do
      let (ma, s) ← readU64 s
      let (mi, s) ← readU64 s
      pure (.device sz ma mi, s)
  else if typ = Gen.CaFormatPayload then
    if sz.toNat < 16 ∨ sz.toNat - 16 > 0x7FFFFFFFFFFFFFFF then .err .format
    else pure (.payload sz, s)
  else if typ = Gen.CaFormatFCaps then
    if sz.toNat < 16 then .err .format else do
      let (b, s) ← readN (sz.toNat - 16) s
      pure (.fcaps sz b, s)
  else if typ = Gen.CaFormatACLUser then do
    let (uid, s) ← readU64 s
    let (perm, s) ← readU64 s
    let (b, s) ← readStr sz 32 s
    pure (.aclUser sz uid perm b, s)
  else if typ = Gen.CaFormatACLGroup then do
    let (gid, s) ← readU64 s
    let (perm, s) ← readU64 s
    let (b, s) ← readStr sz 32 s
    pure (.aclGroup sz gid perm b, s)
  else if typ = Gen.CaFormatACLGroupObj then do
    let (p, s) ← readU64 s
    pure (.aclGroupObj sz p, s)
  else if typ = Gen.CaFormatACLDefault then do
    let (u, s) ← readU64 s
    let (g, s) ← readU64 s
    let (o, s) ← readU64 s
    let (m, s) ← readU64 s
    pure (.aclDefault sz u g o m, s)
  else if typ = Gen.CaFormatGoodbye then
    if sz.toNat < 16 then .err .format else do
      let n := (sz.toNat - 16) / 24
      let (items, s) ← readGoodbyeItems n s []
      match items.getLast? with
      | none => .err .format
      | some l => if l.hash ≠ Gen.CaFormatGoodbyeTailMarker then .err .format
                  else pure (.goodbye sz items, s)
  else if typ = Gen.CaFormatIndex then do
    let (ff, s) ← readU64 s
    let (mn, s) ← readU64 s
    let (av, s) ← readU64 s
    let (mx, s) ← readU64 s
    pure (.index sz ff mn av mx, s)
  else if typ = Gen.CaFormatTable then
    if sz ≠ 0xFFFFFFFFFFFFFFFF then .err .format else do
      let (items, s) ← readTableItems (s.rest.length + 1) s []
      let (x, s) ← readU64 s            -- zero fill 2
      if x ≠ 0 then .err .format else do
      let (_, s) ← readU64 s            -- index offset
      let (_, s) ← readU64 s            -- size
      let (m, s) ← readU64 s            -- marker
      if m ≠ Gen.CaFormatTableTailMarker then .err .format
      else pure (.table sz items, s)
  else .err .unsupported

/-- `FormatDecoder.Next` on a decoder whose previous payload (if any) has been
    skipped already: `none` = clean end of input. -/
def decNext (s : St) : Res (Option Elem × St) :=
  -- ReadHeader: io.EOF from either of the two reads means "end of stream"
  match readU64 s with
  | .err .eof => .ok (none, s)
  | .err e => .err e
  | .panic p => .panic p
  | .ok (sz, s1) =>
    match readU64 s1 with
    | .err .eof => .ok (none, s1)
    | .err e => .err e
    | .panic p => .panic p
    | .ok (typ, s2) => do
      let (e, s3) ← decBody sz typ s2
      pure (some e, s3)

/-- skipping a payload (`io.Copy(ioutil.Discard, d.advance)` on a LimitReader):
    never fails, stops at the end of the input -/
def skipPayload (sz : UInt64) (s : St) : St :=
  { s with rest := s.rest.drop (sz.toNat - 16) }

/-! ### encoder (`FormatEncoder.Encode`) -/

def encU64s (vs : List UInt64) : Bytes := vs.flatMap le64

def encGoodbyeItems (items : List GoodbyeItem) : Bytes :=
  items.flatMap fun i => le64 i.offset ++ le64 i.size ++ le64 i.hash

def encTableItems (items : List TableItem) : Bytes :=
  items.flatMap fun i => le64 i.offset ++ i.id

/-- bytes written by `Encode` for one element.  `payload` writes only its header
    here; the data is appended by the caller (`io.Copy(e.w, t.Data)`). -/
def encElem : Elem → Bytes
  | .entry sz ff mode fl uid gid mt =>
      encU64s [sz, Gen.CaFormatEntry, ff, mode, fl, uid, gid, mt]
  | .user sz n => encU64s [sz, Gen.CaFormatUser] ++ n ++ [0]
  | .group sz n => encU64s [sz, Gen.CaFormatGroup] ++ n ++ [0]
  | .xattr sz n => encU64s [sz, Gen.CaFormatXAttr] ++ n ++ [0]
  | .selinux sz n => encU64s [sz, Gen.CaFormatSELinux] ++ n ++ [0]
  | .filename sz n => encU64s [sz, Gen.CaFormatFilename] ++ n ++ [0]
  | .symlink sz n => encU64s [sz, Gen.CaFormatSymlink] ++ n ++ [0]
  | .device sz ma mi => encU64s [sz, Gen.CaFormatDevice, ma, mi]
  | .payload sz => encU64s [sz, Gen.CaFormatPayload]
  | .fcaps sz d => encU64s [sz, Gen.CaFormatFCaps] ++ d
  | .aclUser sz uid perm n => encU64s [sz, Gen.CaFormatACLUser, uid, perm] ++ n ++ [0]
  | .aclGroup sz gid perm n => encU64s [sz, Gen.CaFormatACLGroup, gid, perm] ++ n ++ [0]
  | .aclGroupObj sz p => encU64s [sz, Gen.CaFormatACLGroupObj, p]
  | .aclDefault sz u g o m => encU64s [sz, Gen.CaFormatACLDefault, u, g, o, m]
  | .goodbye sz items => encU64s [sz, Gen.CaFormatGoodbye] ++ encGoodbyeItems items
  | .index sz ff mn av mx => encU64s [sz, Gen.CaFormatIndex, ff, mn, av, mx]
  | .table sz items =>
      let body := encU64s [sz, Gen.CaFormatTable] ++ encTableItems items
      -- tail record: zero fill 1, zero fill 2, index offset, table size, marker
      body ++ encU64s [0, 0, Gen.tableTailIndexOffset,
                       Gen.tableTailSize (UInt64.ofNat body.length),
                       Gen.CaFormatTableTailMarker]

end Desync
